From Coq Require Import List ZArith Lia Bool.
Import ListNotations.
Require Import Base Tree Rdr Link Collect Html Recog LP Rules Starts Driver Render L2Kind L2CC GramDefs GramTree GramLP GramLP2 GramLP3 GramLP4
  Rec17 Rec18 BSOrph BSClose BSLine1 BSLine2 BSLine3 BSLine4 BSLine5 BSLine7 BSLine9
  TilBase TilDefs TilLP1 TilLP2 TilLP3 TilLP4 TilLP5 TilLP6 TilLP7 TilLP8 TilLP9.
Require L2Kind2.
Open Scope Z_scope.

(* ================= addLineText ================= *)

Definition goF (q : lp) : lp :=
  let k := containerKind q in
  let inlineKind := if isCode k then TextKind else if k =? HTMLBlockKind then RawHTMLKind else UnparsedKind in
  let q' := updCont q (fun b => set_bik b (bik b ++ [mkI inlineKind (lineStart q + li q) (lineStart q + len (line q))])) in
  if isCode k && negb (hasByteSuffixEOL (line q')) then
    updCont q' (fun b => set_bik b (bik b ++ [mkI SoftLineBreakKind (lineStart q' + len (line q')) (lineStart q' + len (line q'))]))
  else q'.

Lemma sameH_sym_open c c' : sameH c c' -> isOpen c' = isOpen c /\ bkind c' = bkind c.
Proof. intros (A & B & _). unfold isOpen. rewrite A, B. tauto. Qed.
Lemma ksim_trans a b c : ksim a b -> ksim b c -> ksim a c.
Proof.
  intros [A1 A2] [B1' B2]. split; [congruence|].
  destruct (lastL a) as [x|], (lastL b) as [y|], (lastL c) as [z|]; try contradiction; try exact I. eapply sameH_trans; eassumption.
Qed.

(* the last root child is open and not a paragraph *)
Definition NPQ (p : lp) : Prop := forall c, top p = Some c -> isOpen c = true /\ bkind c <> ParagraphKind.
Lemma FF_of_NPQ p : T0 p -> NPQ p -> FF p.
Proof.
  intros (A & D & E & F) H. split; [exact A|]. split; [exact F|]. split; [exact E|]. split.
  - intros c Hc Ho. destruct (H c Hc) as [X _]. congruence.
  - intros c Hc _ Hk. destruct (H c Hc) as [_ X]. contradiction.
Qed.
Lemma NPQ_ksim p p' : ksim (bkids (root p)) (bkids (root p')) -> NPQ p -> NPQ p'.
Proof.
  intros Hk H c' Hc'. destruct (top_ksim p p' Hk) as [Ht _]. destruct (Ht c' Hc') as (c & Hc & HS).
  destruct (sameH_sym_open c c' HS) as [E1 E2]. rewrite E1, E2. apply H, Hc.
Qed.
Lemma NPQ_of q : GI q -> cdepth q <> O -> (cdepth q = 1%nat -> forall c, top q = Some c -> isPara (bkind c) = false) -> NPQ q.
Proof.
  intros A Hd H1 c Hc. destruct (GI_top1 q A ltac:(lia)) as (c' & Hc' & Ho). rewrite Hc in Hc'. inversion Hc'; subst c'. split; [exact Ho|].
  destruct (cdepth q) as [|[|j]] eqn:Ed; [contradiction| |].
  - intros Hk. specialize (H1 eq_refl c Hc). rewrite Hk in H1. discriminate.
  - intros Hk. pose proof (para_top_depth q c A Hc Hk). lia.
Qed.

Lemma ksim_ik q (g : block -> list inline) : cdepth q <> O ->
  (cdepth q = 1%nat -> forall c, top q = Some c -> isPara (bkind c) = false) ->
  ksim (bkids (root q)) (bkids (root (updCont q (fun b => set_bik b (g b))))).
Proof.
  intros Hd H1. rewrite root_updCont. destruct (cdepth q) as [|d] eqn:Ed; [contradiction|].
  apply ksim_updAt. intros E0 x Hx. subst d. apply sameH_set_bik_nonpara. apply (H1 eq_refl). unfold top. rewrite <- lastBlock_lastL. exact Hx.
Qed.

Lemma top_updCont_ik q (g : block -> list inline) c : cdepth q = 1%nat -> top q = Some c ->
  bkids (root (updCont q (fun b => set_bik b (g b)))) = removelast (bkids (root q)) ++ [set_bik c (g c)].
Proof.
  intros Ed Ht. rewrite root_updCont, Ed. cbn [updAt]. unfold top in Ht. rewrite <- lastBlock_lastL in Ht. rewrite Ht.
  unfold set_lastBlocks. apply bkids_set_bkids.
Qed.

Lemma FF_go_other q : TI q -> cdepth q <> O -> (cdepth q = 1%nat -> forall c, top q = Some c -> isPara (bkind c) = false) -> FF (goF q).
Proof.
  intros (A & B & C) Hd H1. pose proof (NPQ_of q A Hd H1) as HN.
  assert (Hk : ksim (bkids (root q)) (bkids (root (goF q)))).
  { unfold goF. cbv zeta. set (q' := updCont q _).
    assert (K1 : ksim (bkids (root q)) (bkids (root q'))) by (apply ksim_ik; assumption).
    destruct (_ && _); [|exact K1]. eapply ksim_trans; [exact K1|]. apply ksim_ik.
    - exact Hd.
    - intros Ed c' Hc'. destruct (top_ksim q q' K1) as [Ht _]. destruct (Ht c' Hc') as (c & Hc & (S1 & _)). rewrite S1. apply (H1 Ed c Hc). }
  apply FF_of_NPQ; [|eapply NPQ_ksim; eassumption].
  apply (T0_ksim q); [| |exact Hk|apply TT_T0, C]; unfold goF; cbv zeta; destruct (_ && _); reflexivity.
Qed.

(* ---- adding a line tail to a root paragraph ---- *)
Lemma PIk_add s m ik u : PIk s m ik -> (ik <> [] -> m <= istart u /\ blankR s m (istart u) /\ good s (istart u)) -> piOK s u ->
  PIk s (iend u) (ik ++ [u]).
Proof.
  intros H Hs Hu. destruct ik as [|v r].
  - cbn [app PIk pch lastE]. tauto.
  - destruct H as (P1 & P2 & P3). destruct (Hs ltac:(discriminate)) as (S1 & S2 & S3). rewrite <- P3 in S1, S2.
    destruct (pch_snoc s r (iend v) u P2 S1 S2 S3 Hu) as [Q1 Q2]. cbn [app PIk]. tauto.
Qed.
Lemma PIk_good s m ik : PIk s m ik -> ik <> [] -> good s m /\ m <= len s.
Proof.
  destruct ik as [|v r]; [intros _ N; contradiction|]. intros (P1 & P2 & P3) _. rewrite <- P3.
  destruct P1 as (_ & _ & _ & Q1 & Q2 & _). split; [eapply lastE_good; eassumption|eapply lastE_le; eassumption].
Qed.

Lemma FF_rootpara p' kids0 c' :
  bkids (root p') = kids0 ++ [c'] ->
  (forall x, In x kids0 -> (0 <= bend x -> good (source p') (bend x)) /\ isOpen x = false) ->
  isOpen c' = true -> bkind c' = ParagraphKind -> PIk (source p') (len (source p')) (bik c') -> FF p'.
Proof.
  intros Ek H0 Ho Hk HP.
  assert (Et : top p' = Some c') by (unfold top; rewrite Ek; apply lastL_snoc).
  unfold FF, TA, TC, TS. rewrite Et, Ek. repeat split.
  - intros x Hx Hb. apply in_app_or in Hx. destruct Hx as [Hx|[<-|[]]]; [apply H0; assumption|].
    unfold isOpen in Ho. apply Z.ltb_lt in Ho. lia.
  - intros x Hx. rewrite removelast_last in Hx. apply H0, Hx.
  - intros x Hx _. inversion Hx; subst x. rewrite Hk. discriminate.
  - intros x Hx Hox. inversion Hx; subst x. congruence.
  - intros x Hx _ _. inversion Hx; subst x. exists (len (source p')). split; [exact HP|]. split; [lia|apply blankR_empty; lia].
Qed.

Lemma old_kids q c : TT q -> top q = Some c ->
  forall x, In x (removelast (bkids (root q))) -> (0 <= bend x -> good (source q) (bend x)) /\ isOpen x = false.
Proof. intros (A & _ & _ & _ & _ & F) Ht x Hx. split; [intros Hb; apply A; [apply removelast_In, Hx|exact Hb]|apply F, Hx]. Qed.

Lemma good_after_spt s a b : sptR s a b -> a < b -> good s b.
Proof.
  intros H Hab. specialize (H (b - 1) ltac:(lia)). apply (good_prev s b (at_ s (b - 1)) eq_refl).
  - intros E. rewrite E in H. discriminate.
  - intros E. rewrite E in H. discriminate.
Qed.
Lemma isBlankLine_from (l : bytes) i : 0 <= i <= len l -> (forall j, i <= j < len l -> blk (at_ l j) = true) -> isBlankLine (from_ l i) = true.
Proof.
  intros Hi H. apply blankR_forallb. rewrite len_from by lia. intros j Hj. rewrite at_from by lia. apply H. lia.
Qed.
Lemma rest_blank_spt q : EV q -> sptR (source q) (cur q) (len (source q)) -> isRestBlank q = true.
Proof.
  intros HE H. pose proof (EV_len q HE) as Hl. destruct HE as (E1 & E2 & E3 & E4). unfold isRestBlank, rest. apply isBlankLine_from; [lia|].
  intros j Hj. rewrite (EV_at q j) by (repeat split; try assumption; lia). apply isSpTab_blk, H. unfold cur. lia.
Qed.

(* the entries of the open root paragraph, and what the invariant says about the cursor *)
Lemma para_facts q c : TI q -> cdepth q = 1%nat -> top q = Some c -> bkind c = ParagraphKind ->
  isOpen c = true /\
  exists m, PIk (source q) m (bik c) /\
    (bik c <> [] -> m <= cur q /\ blankR (source q) m (cur q) /\ good (source q) (cur q)).
Proof.
  intros (A & B & (CA & CB1 & CB2 & CD & CE & CF)) Ed Ht Hk.
  destruct (GI_top1 q A ltac:(lia)) as (c' & Hc' & Ho). rewrite Ht in Hc'. inversion Hc'; subst c'. split; [exact Ho|].
  destruct (CD c Ht Ho Hk) as (m & P1 & P2 & P3). exists m. split; [exact P1|]. intros Hne.
  assert (HB : B1 q).
  { apply CB1; [right; split; [exact Ed|exists c; tauto]|]. intros c0 Hc0. rewrite Ht in Hc0. inversion Hc0; subst c0. exact Ho. }
  pose proof B as (_ & B2 & B3 & B4). unfold B1 in HB.
  split; [unfold cur; lia|]. split; [eapply blankR_app; [exact P3|apply sptR_blankR, HB]|].
  destruct (Z.eq_dec (li q) 0) as [E|N]; [unfold cur; rewrite E, Z.add_0_r; exact B4|].
  apply (good_after_spt _ (lineStart q)); [exact HB|unfold cur; lia].
Qed.

Lemma FF_go_para q c : TI q -> cdepth q = 1%nat -> top q = Some c -> bkind c = ParagraphKind -> li q < len (line q) -> FF (goF q).
Proof.
  intros H Ed Ht Hk Hli. destruct (para_facts q c H Ed Ht Hk) as (Ho & m & P1 & P2). pose proof H as (A & B & C).
  assert (Ek : containerKind q = ParagraphKind) by (rewrite (contKind_top q c Ed Ht); exact Hk).
  unfold goF. cbv zeta. rewrite Ek. change (isCode ParagraphKind) with false. cbv iota. cbn [andb].
  change (ParagraphKind =? HTMLBlockKind) with false. cbv iota.
  set (u := mkI UnparsedKind (lineStart q + li q) (lineStart q + len (line q))).
  set (p' := updCont q _).
  pose proof (EV_len q B) as Hlen. pose proof B as (_ & B2 & B3 & B4).
  assert (Hu : piOK (source q) u).
  { unfold piOK, u, mkI. cbn [ikind istart iend]. split; [left; reflexivity|]. split; [lia|]. split; [lia|]. split; [lia|].
    split; [rewrite Hlen; apply good_end|intros E; discriminate E]. }
  apply (FF_rootpara p' (removelast (bkids (root q))) (set_bik c (bik c ++ [u]))).
  - apply (top_updCont_ik q (fun b => bik b ++ [u]) c Ed Ht).
  - apply (old_kids q c C Ht).
  - destruct c; exact Ho.
  - destruct c; exact Hk.
  - replace (bik (set_bik c (bik c ++ [u]))) with (bik c ++ [u]) by (destruct c; reflexivity).
    change (source p') with (source q). replace (len (source q)) with (iend u) by (unfold u, mkI; cbn [iend]; lia).
    apply (PIk_add _ m); [exact P1|exact P2|exact Hu].
Qed.

(* the same with a partially consumed tab in front *)
Lemma FF_go_tab q c : TI q -> cdepth q = 1%nat -> top q = Some c -> bkind c = ParagraphKind -> isRestBlank q = false ->
  li q < len (line q) -> at_ (line q) (li q) = 9 -> 0 < tabRem q ->
  FF (goF (consumeIndent (updCont q (fun b => set_bik b (bik b ++ [Inl IndentKind (lineStart q + li q) (lineStart q + li q + 1) (tabRem q) [] []]))) (tabRem q))).
Proof.
  intros H Ed Ht Hk Hnb Hli H9 Htr. destruct (para_facts q c H Ed Ht Hk) as (Ho & m & P1 & P2). pose proof H as (A & B & C).
  set (ui := Inl IndentKind (lineStart q + li q) (lineStart q + li q + 1) (tabRem q) [] []).
  set (q1 := updCont q (fun b => set_bik b (bik b ++ [ui]))).
  set (q2 := consumeIndent q1 (tabRem q)).
  pose proof (EV_len q B) as Hlen. pose proof B as (_ & B2 & B3 & B4).
  assert (B1' : EV q1) by (eapply EV_fr; [apply fr_updCont|exact B]).
  assert (F12 : fr q1 q2) by apply fr_cstep, cstep_consumeIndent.
  assert (B2' : EV q2) by (eapply EV_fr; eassumption).
  assert (Hspt : sptR (source q) (cur q) (cur q2)) by (apply (cur_consumeIndent_loop _ q1 (tabRem q) B1')).
  assert (Hge : li q + 1 <= li q2).
  { apply (consumeIndent_tab q1); [split; [apply B1'|apply B1']|exact Hli|exact H9|exact Htr]. }
  assert (E2 : root q2 = root q1 /\ cdepth q2 = cdepth q1 /\ lineStart q2 = lineStart q /\ line q2 = line q /\ source q2 = source q).
  { destruct (same_consumeIndent q1 (tabRem q)) as [X Y]. destruct F12 as (F1 & F2 & F3 & _).
    repeat split; [exact X|unfold cdepth, q2; rewrite Y; reflexivity|exact F2|exact F3|exact F1]. }
  assert (Hlt : li q2 < len (line q)).
  { destruct F12 as (_ & _ & _ & F4). specialize (F4 B3). change (line q1) with (line q) in F4. change (li q1) with (li q) in F4.
    destruct (Z.eq_dec (li q2) (len (line q))) as [E|N]; [|lia]. exfalso.
    rewrite (rest_blank_spt q B) in Hnb; [discriminate|]. replace (len (source q)) with (cur q2); [exact Hspt|].
    unfold cur. destruct E2 as (_ & _ & L2 & _). rewrite L2. lia. }
  destruct E2 as (R2 & D2 & L2 & Ln2 & S2).
  assert (K1 : bkids (root q1) = removelast (bkids (root q)) ++ [set_bik c (bik c ++ [ui])])
    by (apply (top_updCont_ik q (fun b => bik b ++ [ui]) c Ed Ht)).
  set (c1 := set_bik c (bik c ++ [ui])) in *.
  assert (T2 : top q2 = Some c1) by (unfold top; rewrite R2, K1; apply lastL_snoc).
  assert (Ek2 : containerKind q2 = ParagraphKind).
  { rewrite (contKind_top q2 c1); [destruct c; exact Hk|rewrite D2; exact Ed|exact T2]. }
  unfold goF. cbv zeta. fold ui. fold q1. fold q2. rewrite Ek2. change (isCode ParagraphKind) with false. cbv iota. cbn [andb].
  change (ParagraphKind =? HTMLBlockKind) with false. cbv iota.
  set (u := mkI UnparsedKind (lineStart q2 + li q2) (lineStart q2 + len (line q2))).
  set (p' := updCont q2 _).
  assert (Hui : piOK (source q) ui).
  { unfold piOK, ui. cbn [ikind istart iend]. split; [right; reflexivity|]. split; [lia|]. split; [lia|]. split; [lia|].
    assert (E9 : at_ (source q) (lineStart q + li q) = 9) by (rewrite <- (EV_at q (li q) B) by lia; exact H9).
    split; [|intros _; split; [reflexivity|exact E9]].
    apply (good_prev _ _ 9); [replace (lineStart q + li q + 1 - 1) with (lineStart q + li q) by lia; exact E9|discriminate|discriminate]. }
  assert (Hu : piOK (source q) u).
  { unfold piOK, u, mkI. cbn [ikind istart iend]. rewrite L2, Ln2. split; [left; reflexivity|]. split; [lia|]. split; [lia|]. split; [lia|].
    split; [rewrite Hlen; apply good_end|intros E; discriminate E]. }
  assert (K2 : bkids (root p') = removelast (bkids (root q)) ++ [set_bik c1 (bik c1 ++ [u])]).
  { unfold p'. rewrite (top_updCont_ik q2 (fun b => bik b ++ [u]) c1); [|rewrite D2; exact Ed|exact T2]. rewrite R2, K1, removelast_last. reflexivity. }
  apply (FF_rootpara p' (removelast (bkids (root q))) (set_bik c1 (bik c1 ++ [u]))).
  - exact K2.
  - change (source p') with (source q2). rewrite S2. apply (old_kids q c C Ht).
  - unfold c1. destruct c; exact Ho.
  - unfold c1. destruct c; exact Hk.
  - replace (bik (set_bik c1 (bik c1 ++ [u]))) with ((bik c ++ [ui]) ++ [u]) by (unfold c1; destruct c; reflexivity).
    change (source p') with (source q2). rewrite S2. replace (len (source q)) with (iend u) by (unfold u, mkI; cbn [iend]; rewrite L2, Ln2; lia).
    apply (PIk_add _ (iend ui)); [apply (PIk_add _ m); [exact P1| |exact Hui]| |exact Hu].
    + intros Hne. destruct (P2 Hne) as (X1 & X2 & X3). unfold ui. cbn [istart]. exact (conj X1 (conj X2 X3)).
    + intros _. unfold ui, u, mkI. cbn [istart iend]. rewrite L2.
      assert (Hsub : sptR (source q) (lineStart q + li q + 1) (lineStart q + li q2)).
      { eapply sptR_sub; [exact Hspt|unfold cur; lia|unfold cur; rewrite L2; lia]. }
      split; [lia|]. split; [apply sptR_blankR, Hsub|].
      destruct (Z.eq_dec (li q2) (li q + 1)) as [E|N].
      * rewrite E. replace (lineStart q + (li q + 1)) with (lineStart q + li q + 1) by lia. apply Hui.
      * apply (good_after_spt _ (lineStart q + li q + 1)); [exact Hsub|lia].
Qed.
