From Coq Require Import List ZArith Lia Bool.
Import ListNotations.
Require Import Base Tree Rdr Link Collect Html Recog LP Rules Starts Driver Props L2Kind L2CC GramTree GramLP GramLP2 Cursor CursorX NoPanic12
  Rec16 Rec17 Rec18 RecBounds BSDef BSRdr BSTree BSOcp BSOrph BSClose
  BSLine1 BSLine2 BSLine3 BSLine4 BSLine5 BSLine6 BShDef ShDef ShRdr ShClose ShEnv ShLine1 ShLine2 ShFresh ShRecog ShSetext ShStarts1 ShStarts2.
Open Scope Z_scope.

(* ---- updating a field of the container ---- *)
Lemma SR_updCont p f : SR p -> (forall x, sh (source p) (len (source p)) x -> sh (source p) (len (source p)) (f x)) -> (forall x, bend (f x) = bend x) ->
  SR (updCont p f).
Proof.
  intros Hs Hf Hb. unfold SR. cbn [root source updCont withRoot setLP].
  apply (sh_updAt_at (source p) (len (source p)) f (cdepth p) (root p) Hs). intros x _ Sx. split; [apply Hf, Sx|rewrite Hb; tauto].
Qed.
Lemma SC1_updCont p f : keeps f -> SC1 p -> SC1 (updCont p f).
Proof. intros Hk H c Ec. change (cdepth (updCont p f)) with (cdepth p) in Ec. rewrite getAt_below_updCont in Ec by exact Hk. apply H, Ec. Qed.
Lemma SLI_updCont_field p f : keeps f -> (forall M x, sh (source p) M x -> sh (source p) M (f x)) -> SLI p -> SLI (updCont p f).
Proof.
  intros Hk Hf H y Ey. change (cdepth (updCont p f)) with (cdepth p) in Ey. cbn [root updCont withRoot setLP lineStart source] in *.
  rewrite getAt_updAt_same in Ey. destruct (getAt (cdepth p) (root p)) as [x|] eqn:Ex; [|discriminate]. cbn in Ey. inversion Ey; subst y.
  destruct (Hk x) as (_ & _ & _ & K4). rewrite K4. destruct (H x Ex) as [S|W]; [left; apply Hf, S|right; exact W].
Qed.
Lemma G_updCont p f : G p -> G (updCont p f).
Proof. apply G_tree; [repeat split|reflexivity]. Qed.
Lemma AllI_field p f : AllI p -> keeps f -> (forall M x, sp M x -> sp M (f x)) -> (forall M x, sh (source p) M x -> sh (source p) M (f x)) -> AllI (updCont p f).
Proof.
  intros (A & B & C & D & E) Hk Hp Hs. split; [apply OPx_field; assumption|]. split; [apply G_updCont, B|]. split; [exact C|].
  split; [apply SR_updCont; [exact D|apply Hs|intros x; apply Hk]|apply SC1_updCont; assumption].
Qed.

(* ---- opening a block whose open form carries no shape condition ---- *)
Lemma open_step p K : st_open p -> AllI p -> SPre p K ->
  let q := obPre p K in
  BP q /\ canContain (containerKind q) K = true /\ SR q /\ kidsClosed q /\ EV q /\ frs q (openBlock p K) (newBlock K (lineStart p + li p)) /\
  envOf q = envOf p.
Proof.
  intros Hs (HO & HG & Hev & HS & HS1) Pre q. destruct (obPre_ok p K HO Hev HS HS1 Pre) as (A & B & C & D & E).
  exact (conj A (conj B (conj C (conj D (conj E (conj (frs_openBlock p K Hs) (env_obPre p K))))))).
Qed.
Lemma AllI_open p K : st_open p -> AllI p -> SPre p K -> K <> SetextHeadingKind ->
  K <> FencedCodeBlockKind -> K <> BlockQuoteKind -> K <> ATXHeadingKind -> K <> ListMarkerKind ->
  AllI (openBlock p K) /\ st_open (openBlock p K) /\ ckind (openBlock p K) K.
Proof.
  intros Hs HA Pre N1 N2 N3 N4 N5. destruct (open_step p K Hs HA Pre) as (B1 & B2 & B3 & B4 & B5 & B6 & B7).
  pose proof HA as (HO & HG & Hev & HS & HS1).
  assert (HY : sh (source (obPre p K)) (len (source (obPre p K))) (newBlock K (lineStart p + li p))).
  { apply sh_open_leaf; [cbn; lia|reflexivity|]. apply openOK_other; assumption. }
  destruct (fin_in _ _ _ B1 B3 B4 B6 HY eq_refl) as [F1 F2].
  split; [|split; [apply st_open_state, (state_openBlock p K Hs)|apply ckind_openBlock, Hs]].
  split; [apply OPx_openBlock; [exact HO|exact Hs|exact N1|apply SPre_pre, Pre]|]. split; [apply G_openBlock, HG|].
  split; [eapply EV_env; [apply env_openBlock|exact Hev]|]. split; assumption.
Qed.

Lemma marker_pos R d n e : parseListMarker R = (d, n, e) -> 0 <= e -> 1 <= e <= len R.
Proof.
  intros H He. split; [|eapply parseListMarker_le; exact H]. pose proof (parseListMarker_sound R d n e H He) as Hl.
  inversion Hl; subst; [lia|]. unfold len. lia.
Qed.

Lemma fin_bindent_sh q v : AllI q -> SLI q ->
  let r := updCont q (fun b => set_bindent b v) in SR r /\ SC1 r /\ SLI r.
Proof.
  intros HA HL r. pose proof (AllI_field q (fun b => set_bindent b v) HA (keeps_bindent v) ltac:(intros M x; apply sp_set_bindent)
    ltac:(intros M x; apply sh_set_bindent)) as (_ & _ & _ & A & B).
  split; [exact A|split; [exact B|]]. apply SLI_updCont_field; [apply keeps_bindent|intros M x; apply sh_set_bindent|exact HL].
Qed.

Lemma sOKsh_startListItem : startOKsh startListItem.
Proof.
  intros p Hlk Hs HA HL HSL. unfold startListItem. cbv zeta.
  assert (Same : SR p /\ SC1 p /\ SLI2 p /\ (SLI p \/ ms p)) by (split; [apply HA|split; [apply HA|split; [left; exact HSL|left; exact HSL]]]).
  destruct (_ <=? _); [exact Same|].
  destruct (parseListMarker (bytesAfterIndent p)) as [[delim n] mend] eqn:Ep.
  match goal with |- context [if ?c then p else _] => destruct c eqn:Eg; [exact Same|] end.
  match goal with |- context [if ?c then p else _] => destruct c; [exact Same|] end. clear Same.
  apply orb_false_iff in Eg. destruct Eg as [Eg _]. apply Z.ltb_ge in Eg.
  destruct (marker_pos _ _ _ _ Ep Eg) as [Hm1 Hm2].
  pose proof HA as (HO & HG & Hev & HS & HS1). pose proof HG as (It & Lt & _).
  destruct (consume_all p It Lt) as (R1 & L1 & L2 & _).
  set (p1 := consumeIndent p (indent p)) in *.
  pose proof (cstep_consumeIndent p (indent p)) as Hc1. fold p1 in Hc1.
  assert (S1 : st_open p1) by (apply st_open_consumeIndent, Hs).
  assert (A1 : AllI p1) by (eapply AllI_cstep; [exact Hc1|apply G_consumeIndent, HG|exact HA]).
  assert (L1' : LI p1) by (eapply LI_cstep; eassumption). assert (SL1 : SLI p1) by (eapply SLI_cstep; eassumption).
  destruct (env_parts _ _ (env_of_cstep _ _ Hc1)) as (E1 & E2 & E3).
  assert (Hli : 0 <= li p1 <= len (line p1)) by (destruct It as [I0 _]; pose proof (indentLength_nonneg (rest p)); rewrite E3; lia).
  set (cdelim := if (containerKind p1 =? ListKind) || (containerKind p1 =? ListItemKind) then bchar (contBlock p1) else 0).
  set (p2 := if negb (containerKind p1 =? ListKind) || negb (cdelim =? delim) then _ else p1).
  assert (H2 : AllI p2 /\ containerKind p2 = ListKind /\ st_open p2 /\ lstep p1 p2 /\ li p2 = li p1).
  { unfold p2. destruct (negb (containerKind p1 =? ListKind) || negb (cdelim =? delim)) eqn:Ec.
    - destruct (AllI_open p1 ListKind S1 A1 (SPre_of p1 ListKind ltac:(apply A1) L1' SL1 ltac:(discriminate))) as (X1 & X2 & X3); try discriminate.
      assert (X4 : AllI (updCont (openBlock p1 ListKind) (fun b => set_bchar b delim))).
      { apply AllI_field; [exact X1|apply keeps_bchar|intros M x; apply sp_set_bchar|intros M x; apply sh_set_bchar]. }
      split; [exact X4|]. split; [|split; [exact X2|split]].
      + apply containerKind_of; [apply X4|]. apply ckind_updCont; [intros b; apply bkind_set_bchar|exact X3].
      + eapply lstep_trans; [apply lstep_openBlock|apply lstep_updCont].
      + cbn [li updCont withRoot setLP]. apply li_openBlock.
    - apply orb_false_iff in Ec. destruct Ec as [Ec _]. apply negb_false_iff, Z.eqb_eq in Ec.
      split; [exact A1|split; [exact Ec|split; [exact S1|split; [apply lstep_refl|reflexivity]]]]. }
  destruct H2 as (A2 & K2 & S2 & Ls2 & Li2).
  set (sb := fun b : block => set_bchar b delim).
  destruct (AllI_open p2 ListItemKind S2 A2 ltac:(left; rewrite K2; reflexivity)) as (X1 & X2 & X3); try discriminate.
  set (p3 := updCont (openBlock p2 ListItemKind) sb).
  assert (A3 : AllI p3) by (apply AllI_field; [exact X1|apply keeps_bchar|intros M x; apply sp_set_bchar|intros M x; apply sh_set_bchar]).
  assert (B3 : ckind p3 ListItemKind) by (apply ckind_updCont; [intros b; apply bkind_set_bchar|exact X3]).
  assert (S3 : st_open p3) by exact X2.
  assert (K3 : containerKind p3 = ListItemKind) by (apply containerKind_of; [apply A3|exact B3]).
  assert (Li3 : li p3 = li p1) by (cbn [p3 li updCont withRoot setLP]; rewrite li_openBlock; exact Li2).
  assert (Ls3 : lstep p1 p3) by (eapply lstep_trans; [exact Ls2|]; eapply lstep_trans; [apply lstep_openBlock|apply lstep_updCont]).
  destruct (open_step p3 ListMarkerKind S3 A3 ltac:(left; rewrite K3; reflexivity)) as (C1 & C2 & C3 & C4 & C5 & C6 & C7).
  set (q4 := obPre p3 ListMarkerKind) in *. set (p4 := openBlock p3 ListMarkerKind) in *.
  assert (M4 : ms p4) by (apply ms_state; apply (state_openBlock p3 ListMarkerKind S3)).
  set (p5 := advance p4 mend).
  assert (M5 : ms p5) by (eapply ms_sstep; [apply sstep_advance|exact M4]).
  pose proof (frs_cstep _ _ _ _ C6 (cstep_advance p4 mend)) as Hf. fold p5 in Hf.
  destruct (lstep_li _ _ Ls3 Hli) as (P1 & P2 & P3).
  assert (Li4 : li p4 = li p1 /\ line p4 = line p1 /\ lineStart p4 = lineStart p1 /\ source p4 = source p1).
  { unfold p4. rewrite li_openBlock. destruct (env_parts _ _ (env_openBlock p3 ListMarkerKind)) as (Q1 & Q2 & Q3).
    destruct Ls3 as [Q4 _]. destruct (env_parts _ _ Q4) as (Q5 & Q6 & Q7). repeat split; congruence. }
  destruct Li4 as (Li4 & Ln4 & Lst4 & Src4).
  assert (Hrl : len (bytesAfterIndent p) = len (line p1) - li p1).
  { rewrite <- R1. unfold rest. rewrite Rec17.len_from by lia. reflexivity. }
  assert (Li5 : li p5 = li p1 + mend) by (unfold p5; rewrite li_advance by (rewrite ?Li4, ?Ln4; lia); rewrite Li4; reflexivity).
  assert (Lst5 : lineStart p5 = lineStart p1) by (destruct (env_parts _ _ (env_advance p4 mend)) as (_ & Q & _); unfold p5; rewrite Q; exact Lst4).
  assert (Ev1 : EV p1) by apply A1.
  assert (Ev3 : EV p3) by apply A3.
  destruct (env_parts _ _ C7) as (Eq4 & _).
  assert (Esrc : source q4 = source p1).
  { rewrite Eq4. destruct Ls3 as [Q4 _]. destruct (env_parts _ _ Q4) as (Q5 & _). exact Q5. }
  assert (Hs0 : 0 <= lineStart p1) by apply Ev1.
  destruct (fin_endBlock q4 p5 _ ListMarkerKind C1 C3 C4 C5 C2 ltac:(discriminate) Hf (ms_nd _ M5) ltac:(cbn; lia) eq_refl
              ltac:(repeat split; discriminate) ltac:(rewrite Lst5, Li5; lia)) as (G1 & G2 & G3).
  { fresh_tac. rewrite Lst5, Li5, Li3, P2, Esrc. replace (lineStart p1 + (li p1 + mend)) with (lineStart p1 + li p1 + mend) by lia.
    rewrite sub_from_upto. rewrite <- (rest_src p1 Ev1 ltac:(lia)), R1. eapply shape_marker; eassumption. }
  set (qq := endBlock p5) in *.
  (* the remaining steps: cursor moves and the indentation field of the item *)
  assert (Aq : AllI qq).
  { split; [|split; [|split; [|split; assumption]]].
    - destruct (OPx_endBlock p5 ListMarkerKind) as [Q _]; try discriminate; try exact Q.
      + eapply OPx_cstep; [apply cstep_advance|]. apply OPx_openBlock; [apply A3|exact S3|discriminate|left; rewrite K3; reflexivity].
      + apply ms_nd, M5.
      + eapply ckind_cstep; [apply cstep_advance|apply ckind_openBlock, S3].
    - apply G_endBlock. unfold p5. apply G_advance; [apply G_openBlock, A3|lia|rewrite Li4, Ln4; lia].
    - eapply EV_env; [|exact Ev3]. unfold qq, p5. rewrite env_endBlock, env_advance. apply env_openBlock. }
  assert (Fin : forall q' v, cstep qq q' -> G q' -> let r := updCont q' (fun b => set_bindent b v) in SR r /\ SC1 r /\ SLI2 r /\ (SLI r \/ ms r)).
  { intros q' v Hc HG' r. destruct (fin_bindent_sh q' v (AllI_cstep _ _ Hc HG' Aq) ltac:(eapply SLI_cstep; eassumption)) as (Q1 & Q2 & Q3).
    split; [exact Q1|split; [exact Q2|split; [left; exact Q3|left; exact Q3]]]. }
  destruct (isRestBlank qq).
  - destruct (fin_bindent_sh qq (indent p + mend + 1) Aq G3) as (Q1 & Q2 & Q3).
    pose proof (cstep_consumeLine (updCont qq (fun b => set_bindent b (indent p + mend + 1)))) as Hc.
    split; [eapply SR_cstep; eassumption|split; [eapply SC1_cstep; eassumption|]].
    assert (L : SLI (consumeLine (updCont qq (fun b => set_bindent b (indent p + mend + 1))))) by (eapply SLI_cstep; eassumption).
    split; [left; exact L|left; exact L].
  - destruct (indent qq <? 1); [apply Fin; [apply cstep_refl|apply Aq]|].
    destruct (4 <? indent qq); (apply Fin; [apply cstep_consumeIndent|apply G_consumeIndent, Aq]).
Qed.
