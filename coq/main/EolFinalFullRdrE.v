From Coq Require Import List ZArith Lia Bool.
Import ListNotations.
Require Import Base Tree Rdr Link Collect LP ShapesBase ShapesR IFBase EolFinalDefs LADef EolGenRdrBase.
Require EolFinalSimBytes.
Open Scope Z_scope.

(* C14 (i), final newline, inline pass, "extension mode": the multi-span reader over the SAME spans (all inside [0, L],
   L = len src) and the two sources src and src ++ [10].  The two runs move in lockstep; the only observable difference is the
   byte that `current` reports on a reader that is exhausted at position L: 0 in run 1, the appended LF in run 2. *)
Section E.
Variable src : bytes.
Local Notation L := (len src).
Local Notation src2 := (src ++ [10]).
Hypothesis HL : 0 < L.
Hypothesis Hlast : isEOLz (at_ src (L - 1)) = false.

Definition ws (r : reader) : reader :=
  {| r_src := src2; r_spans := r_spans r; r_pos := r_pos r; r_vpos := r_vpos r; r_prev := r_prev r |}.
Definition sE (u : inline) : Prop := 0 <= istart u /\ istart u < iend u /\ iend u <= L.
Definition WF (r : reader) : Prop :=
  r_src r = src /\ Forall sE (r_spans r) /\ (r_pos r < L \/ (r_pos r = L /\ r_spans r = [])).

Lemma ws_fields r : r_spans (ws r) = r_spans r /\ r_pos (ws r) = r_pos r /\ r_vpos (ws r) = r_vpos r /\ r_prev (ws r) = r_prev r /\ r_src (ws r) = src2.
Proof. repeat split. Qed.
Lemma Forall_skipn {A} (P : A -> Prop) n l : Forall P l -> Forall P (skipn n l).
Proof. intros H. rewrite <- (firstn_skipn n l) in H. apply Forall_app in H. tauto. Qed.

Lemma curNode_ws r : curNode (ws r) = (fst (curNode r), ws (snd (curNode r))).
Proof. unfold curNode. cbn [ws r_spans r_pos r_src r_vpos r_prev]. cbv zeta. destruct (_ <? 0); reflexivity. Qed.
Lemma WF_curNode r : WF r -> WF (snd (curNode r)) /\ (forall n, fst (curNode r) = Some n -> sE n /\ istart n <= r_pos r < iend n /\ exists rest, r_spans (snd (curNode r)) = n :: rest).
Proof.
  intros (A & B & C). destruct (curNode_cases r) as [E|(pre & n & rest & E1 & E & E3)]; rewrite E; cbn [fst snd]; unfold WF, withSpans; cbn [r_src r_pos r_spans].
  - split; [|intros n Hn; discriminate]. split; [exact A|]. split; [constructor|]. destruct C as [C|[C _]]; [left; exact C|right; split; [exact C|reflexivity]].
  - assert (Hs : Forall sE (n :: rest)) by (rewrite E1 in B; apply Forall_app in B; tauto).
    apply spanHas_range in E3. inversion Hs as [|? ? Hn Hr]; subst.
    split; [split; [exact A|split; [exact Hs|left; destruct Hn; lia]]|].
    intros m Hm. inversion Hm; subst m. split; [exact Hn|]. split; [lia|]. exists rest. reflexivity.
Qed.

Lemma at2 p : p < L -> at_ src2 p = at_ src p. Proof. apply (at2_in src HL Hlast). Qed.

Lemma next_ws r : WF r -> next (ws r) = (fst (next r), ws (snd (next r))) /\ WF (snd (next r)) /\ (fst (next r) = true -> r_pos (snd (next r)) < L).
Proof.
  intros H. pose proof (WF_curNode r H) as (W1 & Hin). unfold next. rewrite curNode_ws.
  pose proof (curNode_fields r) as F. cbv zeta in F.
  destruct (curNode r) as [n r1]. cbn [fst snd] in *. destruct n as [node|]; [|split; [reflexivity|split; [exact W1|discriminate]]].
  destruct (Hin node eq_refl) as ((G1 & G2 & G3) & Hpos & rest & Hsp). destruct F as (F1 & F2 & F3 & F4). destruct W1 as (A & B & C).
  cbn [ws r_src r_spans r_pos r_vpos r_prev]. rewrite A.
  destruct ((ikind node =? IndentKind) && (r_vpos r1 <? iindent node)).
  { split; [reflexivity|]. split; [|intros _; cbn [r_pos fst snd]; lia]. split; [reflexivity|]. cbn [r_spans r_pos fst snd]. split; [exact B|left; lia]. }
  destruct (negb (ikind node =? IndentKind) && (r_pos r1 + 1 <? iend node)) eqn:Ec.
  { apply andb_true_iff in Ec. destruct Ec as [_ Ec]. apply Z.ltb_lt in Ec. rewrite !at2 by lia. split; [reflexivity|]. split; [|intros _; cbn [r_pos fst snd]; lia]. split; [reflexivity|]. cbn [r_spans r_pos fst snd]. split; [exact B|left; lia]. }
  rewrite Hsp in B |- *. cbn [tl]. inversion B as [|? ? _ Br]; subst.
  destruct (nextSpan rest) as [[i sp]|] eqn:En.
  - destruct (nextSpan_suffix src HL Hlast rest i sp En) as (pre & t & Ea & Eb).
    assert (Hs : Forall sE sp) by (rewrite Ea in Br; apply Forall_app in Br; tauto).
    assert (Hi : sE i) by (rewrite Eb in Hs; inversion Hs; assumption).
    rewrite (cnvp_two src HL Hlast (istart i)) by (destruct Hi; lia).
    split; [reflexivity|]. split; [|intros _; cbn [r_pos fst snd]; destruct Hi; lia]. split; [reflexivity|]. cbn [r_spans r_pos fst snd]. split; [exact Hs|left; destruct Hi; lia].
  - split; [reflexivity|]. split; [|discriminate]. split; [reflexivity|]. cbn [r_spans r_pos fst snd]. split; [constructor|]. destruct (Z.eq_dec (r_pos r1 + 1) L); [right; split; [assumption|reflexivity]|left; lia].
Qed.
Lemma next_ws1 r : WF r -> next (ws r) = (fst (next r), ws (snd (next r))). Proof. intros H. apply (next_ws r H). Qed.
Lemma WF_next r : WF r -> WF (snd (next r)). Proof. intros H. apply (next_ws r H). Qed.
Lemma next_alive r : WF r -> fst (next r) = true -> r_pos (snd (next r)) < L. Proof. intros H. apply (next_ws r H). Qed.

Lemma current_ws r : WF r -> r_pos r < L -> current (ws r) = (fst (current r), ws (snd (current r))) /\ WF (snd (current r)) /\ r_pos (snd (current r)) = r_pos r.
Proof.
  intros H Hp. pose proof (WF_curNode r H) as (W1 & _). unfold current. cbn [ws r_src r_pos]. destruct H as (A & _). rewrite A, (len2 src HL Hlast).
  destruct (Z.leb_spec L (r_pos r)); [lia|]. destruct (Z.leb_spec (L + 1) (r_pos r)); [lia|].
  change {| r_src := src2; r_spans := r_spans r; r_pos := r_pos r; r_vpos := r_vpos r; r_prev := r_prev r |} with (ws r). rewrite curNode_ws.
  pose proof (curNode_fields r) as F. cbv zeta in F. destruct (curNode r) as [n r1]. cbn [fst snd] in *. destruct F as (_ & F2 & F3 & _).
  destruct (okind n =? IndentKind); [cbn [fst snd]; tauto|]. rewrite (at2 (r_pos r) Hp).
  destruct (at_ src (r_pos r) =? 0); cbn [fst snd r_vpos ws]; tauto.
Qed.
Lemma current_dead r : WF r -> r_pos r = L -> current r = (0, r) /\ current (ws r) = (10, ws r).
Proof.
  intros (A & B & C) Hp. destruct C as [C|[_ C]]; [lia|]. split.
  - unfold current. rewrite A, Hp, Z.leb_refl. reflexivity.
  - assert (Ec : curNode (ws r) = (None, ws r)) by (apply curNode_nil; exact C).
    unfold current. change (r_src (ws r)) with src2. change (r_pos (ws r)) with (r_pos r). rewrite Hp, (len2 src HL Hlast), Ec.
    destruct (Z.leb_spec (L + 1) L); [lia|]. cbn [okind]. change (0 =? IndentKind) with false. cbv iota. rewrite (at2_L src HL Hlast). reflexivity.
Qed.
Lemma next_dead r : WF r -> r_pos r = L -> next r = (false, r).
Proof. intros (A & B & C) Hp. destruct C as [C|[_ C]]; [lia|]. unfold next. rewrite (curNode_nil r C). reflexivity. Qed.
Lemma cur_ws r : WF r -> r_pos r < L -> cur (ws r) = cur r.
Proof. intros H Hp. unfold cur. rewrite (proj1 (current_ws r H Hp)). reflexivity. Qed.
Lemma WF_current r : WF r -> WF (snd (current r)).
Proof.
  intros H. destruct (Z.lt_ge_cases (r_pos r) L) as [Lt|Ge]; [apply (current_ws r H Lt)|].
  assert (E : r_pos r = L) by (destruct H as (_ & _ & [C|[C _]]); lia). rewrite (proj1 (current_dead r H E)). exact H.
Qed.
Lemma jumped_ws r : jumped (ws r) = jumped r. Proof. reflexivity. Qed.
Lemma remaining_ws r : WF r -> remainingNodeBytes (ws r) = (fst (remainingNodeBytes r), ws (snd (remainingNodeBytes r))) /\ WF (snd (remainingNodeBytes r)).
Proof.
  intros H. pose proof (WF_curNode r H) as (W1 & Hin). unfold remainingNodeBytes. rewrite curNode_ws. destruct (curNode r) as [n r1]. cbn [fst snd] in *.
  destruct n as [node|]; [|split; [reflexivity|exact W1]]. destruct (Hin node eq_refl) as ((G1 & G2 & G3) & Hpos & _).
  cbn [ws r_src r_pos]. destruct H as (A & _). rewrite A. split; [|exact W1]. f_equal. apply EolFinalSimBytes.sub_app10; lia.
Qed.
Lemma WF_new sp p : Forall sE sp -> p < L -> WF (newReader src sp p).
Proof. intros H Hp. split; [reflexivity|]. split; [exact H|left; exact Hp]. Qed.
Lemma ws_new sp p : ws (newReader src sp p) = newReader src2 sp p. Proof. reflexivity. Qed.
End E.
