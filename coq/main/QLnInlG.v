(* QLnInlG.v -- T64 (renderer), towards lineOK: the per-node predicate BR on parse-time forests (every CharacterReference node consists of
   character-reference bytes, every SoftLineBreak node has a line feed at most as its last byte, and the identity of such a node is
   below a bound b), and its preservation by the tree surgery of Inl3a.  The bound is what keeps these nodes away from the updates by
   identity that assign a new span (the fresh Link / Image node); the updates of processEmphasis only shrink spans. *)
From Coq Require Import List ZArith Lia Bool.
Import ListNotations.
Require Import Base Tree Rdr Link Collect Inl3a Inl3e EolCRRenderInlG QLnDefs.
Open Scope Z_scope.

Definition brk (k : Z) : bool := (k =? CharacterReferenceKind) || (k =? SoftLineBreakKind).
Definition nodeOK (src : bytes) (k s e : Z) : bool :=
  if k =? CharacterReferenceKind then rng crb src s e else if k =? SoftLineBreakKind then rng nlf src s (e - 1) else true.
Lemma nodeOK_other src k s e : brk k = false -> nodeOK src k s e = true.
Proof. unfold brk, nodeOK. intros H. apply orb_false_iff in H. destruct H as [-> ->]. reflexivity. Qed.
Lemma nodeOK_sub src k s e s' e' : s <= s' -> e' <= e -> nodeOK src k s e = true -> nodeOK src k s' e' = true.
Proof.
  intros A B. unfold nodeOK. destruct (k =? CharacterReferenceKind); [apply rng_sub; lia|].
  destruct (k =? SoftLineBreakKind); [apply rng_sub; lia|reflexivity].
Qed.

Fixpoint BR (src : bytes) (b : Z) (n : pn) : bool :=
  match n with PN id k s e _ _ ks => nodeOK src k s e && (if brk k then id <? b else true) && forallb (BR src b) ks end.
Lemma BR_eq src b n : BR src b n =
  nodeOK src (pkind n) (ps n) (pe n) && (if brk (pkind n) then pid n <? b else true) && forallb (BR src b) (pkids n).
Proof. destruct n; reflexivity. Qed.
Lemma BR_parts src b n : BR src b n = true ->
  nodeOK src (pkind n) (ps n) (pe n) = true /\ (brk (pkind n) = true -> pid n < b) /\ forallb (BR src b) (pkids n) = true.
Proof.
  rewrite BR_eq, !andb_true_iff. intros [[A B] C]. split; [exact A|]. split; [|exact C]. intros E. rewrite E in B. apply Z.ltb_lt, B.
Qed.
Lemma BR_mk src b n : nodeOK src (pkind n) (ps n) (pe n) = true -> (brk (pkind n) = true -> pid n < b) -> forallb (BR src b) (pkids n) = true ->
  BR src b n = true.
Proof.
  intros A B C. rewrite BR_eq, A, C, andb_true_r. cbn [andb]. destruct (brk (pkind n)); [apply Z.ltb_lt, B; reflexivity|reflexivity].
Qed.
Lemma BR_mono src b b' : b <= b' -> forall n, BR src b n = true -> BR src b' n = true.
Proof.
  intros Hb. fix IH 1. intros [id k s e ind rf ks] H. cbn [BR] in *. rewrite !andb_true_iff in *. destruct H as [[A B] C]. split; [split; [exact A|]|].
  - destruct (brk k); [|reflexivity]. apply Z.ltb_lt in B. apply Z.ltb_lt. lia.
  - induction ks as [|x l IHl]; [reflexivity|]. cbn [forallb] in *. apply andb_true_iff in C. destruct C as [C1 C2]. rewrite (IH x C1), (IHl C2). reflexivity.
Qed.
Lemma BRF_mono src b b' l : b <= b' -> forallb (BR src b) l = true -> forallb (BR src b') l = true.
Proof. intros Hb H. rewrite forallb_forall in *. intros x Hx. apply (BR_mono src b b' Hb), H, Hx. Qed.
Lemma BRF_app src b l1 l2 : forallb (BR src b) (l1 ++ l2) = true <-> forallb (BR src b) l1 = true /\ forallb (BR src b) l2 = true.
Proof. rewrite forallb_app, andb_true_iff. tauto. Qed.
Lemma BR_setKids src b n ks : BR src b n = true -> forallb (BR src b) ks = true -> BR src b (setKids n ks) = true.
Proof. intros H Hk. destruct (BR_parts _ _ _ H) as (A & B & _). destruct n. apply BR_mk; assumption. Qed.

(* a childless node of a harmless kind *)
Definition lfb (x : pn) : bool := knil (pkids x) && negb (brk (pkind x)).
Lemma lfb_BR src b x : lfb x = true -> BR src b x = true.
Proof.
  unfold lfb. rewrite andb_true_iff, negb_true_iff. intros [A B]. apply knil_true in A. apply BR_mk; [apply nodeOK_other, B|rewrite B; discriminate|rewrite A; reflexivity].
Qed.
Lemma lfbF_BR src b l : forallb lfb l = true -> forallb (BR src b) l = true.
Proof. rewrite !forallb_forall. intros H x Hx. apply lfb_BR, H, Hx. Qed.

(* ---- updNode ---- *)
Lemma BR_updNode src b id g : (forall n, BR src b n = true -> pid n = id -> BR src b (g n) = true) ->
  forall f l, forallb (BR src b) l = true -> forallb (BR src b) (updNode f id g l) = true.
Proof.
  intros Hg. induction f as [|f IH]; intros l H; [exact H|]. cbn [updNode].
  rewrite forallb_forall in *. intros y Hy. apply in_map_iff in Hy. destruct Hy as (n & <- & Hn). specialize (H n Hn).
  destruct (Z.eqb_spec (pid n) id) as [E|E]; [apply Hg; assumption|].
  apply BR_setKids; [exact H|]. apply IH. apply BR_parts in H. tauto.
Qed.

(* ---- wrapIn ---- *)
Lemma BR_wrapLevel src b newId kind startId endId endStart pEnd l : brk kind = false ->
  forallb (BR src b) l = true -> forallb (BR src b) (wrapLevel newId kind startId endId endStart pEnd l) = true.
Proof.
  intros K H. destruct (wrapLevel_shape newId kind startId endId endStart pEnd l) as (pre & mid & rest & s & e & E1 & E2 & _).
  rewrite E2. rewrite E1 in H. rewrite !BRF_app in H. destruct H as (A & B & C).
  rewrite !BRF_app. cbn [forallb]. repeat split; try assumption. rewrite andb_true_r.
  apply BR_mk; cbn [pkind ps pe pid pkids]; [apply nodeOK_other, K|rewrite K; discriminate|exact B].
Qed.
Lemma BR_wrapIn src b newId kind sId eId es : brk kind = false ->
  forall f pEnd l, forallb (BR src b) l = true -> forallb (BR src b) (wrapIn f newId kind sId eId es pEnd l) = true.
Proof.
  intros K. induction f as [|f IH]; intros pEnd l H; [exact H|]. cbn [wrapIn].
  destruct (hasId sId l); [apply BR_wrapLevel; assumption|].
  rewrite forallb_forall in *. intros y Hy. apply in_map_iff in Hy. destruct Hy as (n & <- & Hn). specialize (H n Hn).
  apply BR_setKids; [exact H|]. apply IH. apply BR_parts in H. tauto.
Qed.

(* ---- removeId ---- *)
Lemma BR_removeId src b id : forall f l, forallb (BR src b) l = true -> forallb (BR src b) (removeId f id l) = true.
Proof.
  induction f as [|f IH]; intros l H; [exact H|]. cbn [removeId].
  destruct (hasId id l).
  - rewrite forallb_forall in *. intros x Hx. apply filter_In in Hx. apply H. tauto.
  - rewrite forallb_forall in *. intros y Hy. apply in_map_iff in Hy. destruct Hy as (n & <- & Hn). specialize (H n Hn).
    apply BR_setKids; [exact H|]. apply IH. apply BR_parts in H. tauto.
Qed.

(* ---- the updates the parser performs ---- *)
Lemma BR_shrink src b n s e : ps n <= s -> e <= pe n -> BR src b n = true -> BR src b (setSpan n s e) = true.
Proof.
  intros A B H. destruct (BR_parts _ _ _ H) as (P1 & P2 & P3). destruct n as [id k s0 e0 ind rf ks]. cbn [ps pe pkind pid pkids setSpan] in *.
  apply BR_mk; cbn [ps pe pkind pid pkids]; [apply (nodeOK_sub src k s0 e0); assumption|exact P2|exact P3].
Qed.
Lemma BR_setSpan_fresh src b n s e : b <= pid n -> BR src b n = true -> BR src b (setSpan n s e) = true.
Proof.
  intros Hb H. destruct (BR_parts _ _ _ H) as (P1 & P2 & P3). destruct n as [id k s0 e0 ind rf ks]. cbn [ps pe pkind pid pkids setSpan] in *.
  destruct (brk k) eqn:Ek; [specialize (P2 eq_refl); lia|].
  apply BR_mk; cbn [ps pe pkind pid pkids]; [apply nodeOK_other, Ek|rewrite Ek; discriminate|exact P3].
Qed.
Lemma BR_setRef src b n r : BR src b (setRef n r) = BR src b n.
Proof. destruct n; reflexivity. Qed.
Lemma BR_appendKid src b n k : BR src b n = true -> BR src b k = true -> BR src b (setKids n (pkids n ++ [k])) = true.
Proof.
  intros H Hk. apply BR_setKids; [exact H|]. apply BRF_app. split; [apply BR_parts in H; tauto|]. cbn [forallb]. rewrite Hk. reflexivity.
Qed.

(* ---- the finished forest ---- *)
Fixpoint LNI (src : bytes) (i : inline) : bool :=
  match i with Inl k s e _ _ ks => nodeOK src k s e && forallb (LNI src) ks end.
Lemma BR_LNI src b : forall n, BR src b n = true -> LNI src (toInline n) = true.
Proof.
  fix IH 1. intros [id k s e ind rf ks] H. cbn [BR toInline LNI] in *. rewrite !andb_true_iff in H. destruct H as [[A _] C]. rewrite A. cbn [andb].
  induction ks as [|x l IHl]; [reflexivity|]. cbn [map forallb] in *. apply andb_true_iff in C. destruct C as [C1 C2]. rewrite (IH x C1), (IHl C2). reflexivity.
Qed.
Lemma BRF_LNI src b l : forallb (BR src b) l = true -> forallb (LNI src) (map toInline l) = true.
Proof.
  induction l as [|x l IHl]; intros X; [reflexivity|]. cbn [forallb map] in *. apply andb_true_iff in X. destruct X as [A B].
  rewrite (BR_LNI src b x A), (IHl B). reflexivity.
Qed.
