From Coq Require Import List ZArith Lia Bool.
Import ListNotations.
Require Import Base Tree Driver Inl3e Render EolFinalDefs EolFinalFullDefs EolFinalRenderBase EolFinalRenderDoc EolFinalRenderSafe EolFinalRenderHb.
Open Scope Z_scope.

(* C14, final-newline clause, on the rendered HTML: everything from the ONE premise
   EolFinalFullDefs.parseFull_final_newline_statement (the tree-level relation, EolFinalFull*.v). *)
Theorem renderDoc_final_newline_all_of : parseFull_final_newline_statement ->
  (* every cfg: the new output is the old one with LF bytes inserted and occurrences of sbr c replaced by one LF *)
  (forall c s, s <> [] -> endsEol s = false -> lastByte s <> 62 -> LFI (sbr c) (renderDoc c s) (renderDoc c (s ++ [10]))) /\
  (* default soft breaks, raw or safe: equal after deleting LF bytes *)
  (forall c s, softBreak c = 0 -> s <> [] -> endsEol s = false -> lastByte s <> 62 -> delLF (renderDoc c (s ++ [10])) = delLF (renderDoc c s)) /\
  (* softBreak 1: equal after deleting LF and space bytes *)
  (forall c s, softBreak c = 1 -> s <> [] -> endsEol s = false -> lastByte s <> 62 -> delWs (renderDoc c (s ++ [10])) = delWs (renderDoc c s)) /\
  (* safe mode, default soft breaks, input not ending in two spaces: literally equal *)
  (forall c s, ignoreRaw c = true -> softBreak c = 0 -> s <> [] -> endsEol s = false -> lastByte s <> 62 -> hbTail s = false ->
     renderDoc c (s ++ [10]) = renderDoc c s).
Proof.
  intros H. pose proof (renderDoc_final_newline_of H) as H1. split; [exact H1|]. split; [apply renderDoc_final_newline_delLF_of, H1|].
  split; [apply renderDoc_final_newline_delWs_of, H1|apply renderDoc_final_newline_safe_eq_of, H].
Qed.
Print Assumptions renderDoc_final_newline_all_of.
