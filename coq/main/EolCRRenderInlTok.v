From Coq Require Import List ZArith Lia Bool.
Import ListNotations.
Require Import Base Tables Utf8 Tree Rdr Link Collect Html Recog Inl3a Inl3b Inl3c Inl3d Inl3e Leaf3a Leaf3e Leaf3n RdrBound ShapesBase.
Require Import SpanForest SpanIds SpanStack SpanEmph SpanSmall SpanTok SpanRdr SpanCollect SpanScan.
Require Import EolCRRdr EolCRRenderDefs EolCRRenderInlG EolCRRenderInlAuto EolCRRenderInlSt EolCRRenderInlSt2 EolCRRenderInlDest.
Open Scope Z_scope.

(* ====================================================================================================
   Glue: the invariant IG carried through istep / iloop / outer together with the tokeniser invariant
   of SpanTok (which provides, at the closing bracket, the precondition of the scanner specifications).
   ==================================================================================================== *)
Lemma okF_in : forall l a b x, okF a b l -> In x l -> a <= ps x /\ pe x <= b /\ okN x.
Proof.
  induction l as [|y l IH]; intros a b x H Hx; [destruct Hx|]. cbn [okF] in H. destruct H as (A & B & C).
  pose proof (okN_valid _ B) as V. pose proof (okF_le _ _ _ C) as V2. destruct Hx as [<-|Hx].
  - repeat split; try assumption; lia.
  - destruct (IH _ _ _ C Hx) as (D & E & F). repeat split; try assumption; lia.
Qed.

Section Glue.
  Variables (src : bytes) (U : list inline) (lo hi re : Z).
  Hypothesis HU : okF lo hi (map ofInline U).
  Hypothesis Hhi : hi <= len src.
  Hypothesis Hlo : 0 <= lo.
  Hypothesis HHtml : SpecHTML src U.
  Hypothesis HCode : SpecCode src U.
  Hypothesis HInline : SpecInline src U.
  Hypothesis HLabel : SpecLabel src U.
  Hypothesis HDest : SpecDest src U.
  Hypothesis HUk : forall u, In u U -> ikids u = [].
  Hypothesis HUkind : forall u, In u U -> ikind u = UnparsedKind \/ ikind u = IndentKind.
  Notation Pre := (Pre src U lo hi re).
  Notation Post := (Post src U lo hi re).
  Notation TI := (TI src U lo hi re).
  Notation OI := (OI src U lo hi re).
  Notation IG := (IG src).

  Lemma collected_zero fuel spans a e x : (forall u, In u spans -> ikids u = []) ->
    In x (kidsOf (collectTextNodes fuel (newReader src spans a) e TextKind true)) -> zero x = true.
  Proof.
    intros Hs Hx. unfold kidsOf in Hx. apply in_map_iff in Hx. destruct Hx as (i & <- & Hi).
    pose proof (collectTextNodes_kinds TextKind true fuel (newReader src spans a) e spans (fun x H => H)) as H. rewrite Forall_forall in H. specialize (H i Hi).
    destruct H as [(s & e' & ->)|[(s & e' & ->)|(Hin & Hk)]]; [reflexivity|reflexivity|].
    specialize (Hs i Hin). destruct i as [k s0 e0 ind rf ks]. cbn [ikids] in Hs. subst ks. reflexivity.
  Qed.

  Lemma Pre_DK st pos pl : Pre st pos pl -> DK src (addText st pl pos) pos.
  Proof.
    intros HP. pose proof (Pre_IS _ _ _ _ _ _ _ _ HP) as Hin. pose proof (Pre_inEntry _ _ _ _ _ _ _ _ HP Hin) as HE.
    destruct (Flush src U lo hi re HU Hhi Hlo _ _ _ HP) as (T1 & Hs & P0 & F & G0 & D & I0).
    set (sta := addText st pl pos) in *.
    pose proof (inEntry_same _ _ _ _ _ HE Hs) as HEa.
    destruct (lookFor_spec src U lo hi re sta pos T1) as (T2 & Hs2 & Hodi).
    unfold DK. intros ispan dspan dtext tspan ttext Ep Hodi0 Hc Hv Hd Hdt.
    destruct Hodi as [E|[Est Hodi]]; [lia|]. rewrite Est in *.
    pose proof (ti_src _ _ _ _ _ _ _ T1) as Esrc. rewrite Esrc in *.
    apply andb_true_iff in Hc. destruct Hc as [Ec Ec40]. apply Z.ltb_lt in Ec. apply Z.eqb_eq in Ec40.
    pose proof (HInline sta (pos + 1) ltac:(replace (pos + 1 - 1) with pos by lia; exact HEa) Ec Ec40) as HS.
    pose proof (HDest sta (pos + 1) ltac:(replace (pos + 1 - 1) with pos by lia; exact HEa) Ec Ec40) as HN.
    rewrite Ep in HS, HN. destruct (HS Hv) as (H1 & H2 & H3). specialize (HN Hv Hd).
    unfold linkExtras in H3. rewrite Hd in H3. apply okF_app in H3. destruct H3 as (m & H3 & _).
    apply okF_one in H3. destruct H3 as (_ & H3 & _). unfold destNode in H3. rewrite Hdt in H3. apply okN_eq in H3. destruct H3 as (B1 & B2 & B3).
    apply forallb_forall. intros x Hx.
    assert (Hz : zero x = true).
    { apply (collected_zero _ _ _ _ x) in Hx; [exact Hx|]. intros u Hu. apply HUk. unfold unpFrom in Hu. rewrite (ti_unp _ _ _ _ _ _ _ T1) in Hu.
      eapply from_in, Hu. }
    destruct (okF_in _ _ _ x B3 Hx) as (C1 & C2 & C3). pose proof (okN_valid _ C3) as V.
    unfold zq. rewrite Hz. cbn [andb]. destruct (isTC (pkind x)); [|reflexivity].
    apply noEolb_range; [lia|]. intros i Hi. apply HN. lia.
  Qed.

  Lemma IG_istep_glue st pos pl : Pre st pos pl -> IG st -> IG (fst (fst (istep st pos pl))).
  Proof. intros HP HG. apply IG_istep; [exact HG|]. intros _. apply Pre_DK, HP. Qed.

  Lemma iloop_IG : forall fuel st pos pl, Post st pos pl -> IG st -> IG (fst (iloop fuel st pos pl)).
  Proof.
    induction fuel as [|f IH]; intros st pos pl HP HG; cbn [iloop]; [exact HG|].
    pose proof HP as [(le & HT & A & B & C & D) HI].
    rewrite (ti_unp _ _ _ _ _ _ _ HT).
    destruct (Z.ltb_spec (upos st) (len U)) as [L1|L1]; cbn [andb]; [|exact HG].
    destruct (Z.ltb_spec pos (spanEnd st)) as [L2|L2]; [|exact HG].
    assert (HPre : Pre st pos pl).
    { exists le. split; [exact HT|]. split; [exact A|]. split; [exact B|]. split; [exact L2|]. split; [lia|]. apply HI. exact L1. }
    pose proof (istep_ok src U lo hi re HU Hhi Hlo HHtml HCode HInline HLabel st pos pl HPre) as H.
    pose proof (IG_istep_glue st pos pl HPre HG) as H2.
    destruct (istep st pos pl) as [[st' pos'] pl']. cbn [fst] in H2. apply IH; assumption.
  Qed.

  Lemma nthU_in j : 0 <= j < len U -> In (nthU U j) U.
  Proof. intros H. unfold nthU. apply nth_In. unfold len in H. lia. Qed.

  Lemma outer_IG : forall fuel st, OI st -> IG st -> IG (outer fuel st).
  Proof.
    induction fuel as [|f IH]; intros st (le & HT & H0 & Hle) HG; cbn [outer]; [exact HG|].
    rewrite (ti_unp _ _ _ _ _ _ _ HT).
    destruct (Z.leb_spec (len U) (upos st)) as [L|L]; [exact HG|].
    specialize (Hle L). destruct (entry_bounds U lo hi HU (upos st) ltac:(lia)) as (B1 & B2 & B3 & B4).
    fold (nthU U (upos st)). set (u := nthU U (upos st)) in *.
    assert (Hin : In u U) by (apply nthU_in; lia).
    assert (Hnext : forall st1 le1, TI st1 le1 -> upos st1 = upos st -> le1 <= iend u -> OI (setUpos st1 (upos st1 + 1))).
    { intros st1 le1 T1 E1 H1. exists le1. split; [apply TI_setUpos, T1|]. cbn [upos setUpos]. split; [lia|]. intros L2.
      rewrite E1 in *. pose proof (entry_order U lo hi HU (upos st) (upos st + 1) H0 ltac:(lia) L2) as Ho. fold u in Ho. lia. }
    destruct (ikind u =? 0).
    { apply IH; [apply (Hnext _ le); [apply TI_setIgn, HT|reflexivity|lia]|apply IG_setUpos, IG_setIgn, HG]. }
    destruct (Z.eqb_spec (ikind u) IndentKind) as [Ei|Ei].
    { destruct (negb (ign st)).
      - apply IH; [apply (Hnext _ (iend u)); [apply (TI_copy src U lo hi re st le); assumption|reflexivity|lia]|].
        apply IG_setUpos, IG_pushU; [exact HG|apply HUk, Hin|rewrite Ei; discriminate|rewrite Ei; discriminate].
      - apply IH; [apply (Hnext _ le); [exact HT|reflexivity|lia]|apply IG_setUpos, HG]. }
    destruct (Z.eqb_spec (ikind u) UnparsedKind) as [Eu|Eu].
    { assert (Hse : spanEnd st = iend u) by (apply (spanEnd_in U); [exact (ti_unp _ _ _ _ _ _ _ HT)|lia]).
      change (isrc (setIgn st false)) with (isrc st).
      set (pos0 := if ign st then skipSpTab (length (isrc st)) (isrc st) (istart u) (spanEnd st) else istart u).
      assert (Hp0 : istart u <= pos0 <= spanEnd st).
      { unfold pos0. destruct (ign st); [|lia]. destruct (skipSpTab_bounds (length (isrc st)) (isrc st) (istart u) (spanEnd st)) as [X1 X2]. specialize (X2 ltac:(lia)). lia. }
      assert (HPost : Post (setIgn st false) pos0 pos0).
      { split.
        - exists le. split; [apply TI_setIgn, HT|]. change (spanEnd (setIgn st false)) with (spanEnd st). cbn [upos setIgn]. lia.
        - unfold IS. cbn [upos setIgn]. intros _. fold u. lia. }
      pose proof (iloop_ok src U lo hi re HU Hhi Hlo HHtml HCode HInline HLabel (S (length (isrc st))) (setIgn st false) pos0 pos0 HPost) as H.
      pose proof (iloop_IG (S (length (isrc st))) (setIgn st false) pos0 pos0 HPost (IG_setIgn src st false HG)) as H2.
      destruct (iloop (S (length (isrc st))) (setIgn st false) pos0 pos0) as [st' pl']. cbn [fst] in H2. destruct H as (le' & T' & A' & B' & C').
      apply IH; [|apply IG_setUpos, IG_addText, H2].
      pose proof (spanEnd_le U lo hi HU st' (ti_unp _ _ _ _ _ _ _ T') (U_nonempty U st ltac:(lia)) C') as Hb.
      pose proof (TI_addText src U lo hi re st' le' pl' (spanEnd st') T' A' B' ltac:(lia)) as T2.
      exists (spanEnd st'). split; [apply TI_setUpos, T2|].
      pose proof (sameU_addText st' pl' (spanEnd st')) as (_ & Eu' & _). cbn [upos setUpos]. rewrite Eu'. split; [lia|]. intros L2.
      rewrite (spanEnd_in U st' (ti_unp _ _ _ _ _ _ _ T') ltac:(lia)). apply (entry_order U lo hi HU); lia. }
    exfalso. destruct (HUkind u Hin); contradiction.
  Qed.

  Theorem parseInlines_G m rootE : rootE = re ->
    let st0 := {| rk := []; isrc := src; unp := U; upos := 0; stk := []; ign := false; nid := 1; rootEnd := rootE; matcher := m |} in
    forallb (G src) (rk (processEmphasis (outer (S (length U)) st0) 0)) = true.
  Proof.
    intros -> st0.
    assert (H0 : OI st0).
    { exists lo. split.
      - constructor; cbn [rk stk unp isrc rootEnd st0]; try reflexivity; try exact I; try apply (lo_le_hi U lo hi HU).
        + cbn. lia.
        + unfold IdsOK. cbn [rk nid st0 pidsF flat_map]. split; [constructor|]. split; [constructor|lia].
      - cbn [upos st0]. split; [lia|]. intros L. apply (entry_bounds U lo hi HU 0). lia. }
    assert (G0 : IG st0).
    { constructor; cbn [rk nid stk isrc unp st0]; [reflexivity|lia|constructor|reflexivity|exact HUk]. }
    apply (ig_g src). apply IG_processEmphasis. apply outer_IG; assumption.
  Qed.
End Glue.
