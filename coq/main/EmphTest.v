(* EmphTest.v -- vm_compute tests run BEFORE proving: the spec (EmphSpec.specForest) against the model (parseInlines, parseFull) on all
   3410 strings of length <= 6 over {*, _, a, space, .} that satisfy okEmph, plus one long string.  Every list printed as [] = no disagreement. *)
From Coq Require Import List ZArith Lia Bool.
Import ListNotations.
Require Import Base Tables Utf8 Tree Rdr Link Collect Html Recog LP Rules Starts Driver Inl3a Inl3b Inl3c Inl3d Inl3e Render SliceBase SlicePara EmphSpec.
Open Scope Z_scope.

Definition alpha : list Z := [42; 95; 97; 32; 46].
Fixpoint strs (n : nat) : list bytes :=
  match n with O => [[]] | S k => flat_map (fun s => map (fun c => c :: s) alpha) (strs k) end.
Definition allStrs (n : nat) : list bytes := flat_map strs (seq 0 (S n)).
Definition modelForest (t : bytes) : list inline := let L := t ++ [10] in parseInlines L [] (paraClosed 0 (len L) (len L)).
Fixpoint inl_eqb (a b : inline) {struct a} : bool :=
  match a, b with Inl k s e i r ks, Inl k' s' e' i' r' ks' =>
    (k =? k') && (s =? s') && (e =? e') && (i =? i') && bytes_eqb r r' && 
    (fix go (x y : list inline) : bool := match x, y with [] , [] => true | p :: x', q :: y' => inl_eqb p q && go x' y' | _, _ => false end) ks ks' end.
Fixpoint inls_eqb (x y : list inline) : bool := match x, y with [] , [] => true | p :: x', q :: y' => inl_eqb p q && inls_eqb x' y' | _, _ => false end.
Definition agree (t : bytes) : bool := negb (okEmph t) || inls_eqb (modelForest t) (specForest t).
Definition bad (n : nat) := filter (fun t => negb (agree t)) (allStrs n).
Definition cnt (n : nat) := length (filter okEmph (allStrs n)).
Eval vm_compute in (cnt 4).
Eval vm_compute in (bad 4).
Eval vm_compute in (specForest [97;42;97;42], modelForest [97;42;97;42], specEvents [97;42;97;42]).
Time Eval vm_compute in (cnt 6, bad 6).
Definition fullOK (t : bytes) : bool :=
  let L := t ++ [10] in
  match parseFull L with
  | ([r], 0) => (rb_line r =? 1) && (rb_start r =? 0) && (rb_end r =? len L) && bytes_eqb (rb_src r) L &&
                match rb_blk r with Blk k s e [] ik 0 0 0 false false => (k =? ParagraphKind) && (s =? 0) && (e =? len L) && inls_eqb ik (specForest t) | _ => false end
  | _ => false
  end.
Definition badFull (n : nat) := filter (fun t => okEmph t && negb (fullOK t)) (allStrs n).
Time Eval vm_compute in (badFull 5).
(* a***b** c* _d__e_ (*f*) g_h_ ,_i_. *)
Definition long1 : bytes := [97;42;42;42;98;42;42;32;99;42;32;95;100;95;95;101;95;32;40;42;102;42;41;32;103;95;104;95;32;44;95;105;95;46;32;42;42;42;42;97;42;42;42;95;95;42;98;95;42;42;42;42;42;42].
Eval vm_compute in (okEmph long1, agree long1, fullOK long1, specEvents long1).
