(* T63-F1 (D2).  Copy of En3LP4.v over the invariant EolFinalFullHbE4Tree.en = En3Tree.en plus one clause (lastX): the last entry of a
   PARAGRAPH holds a byte that is not space / tab / line ending, and once the paragraph is closed it ends at the end of the block.
   Changes w.r.t. En3LP4.v: module names; the places that build or use that clause; closing lemmas take "a paragraph is open -> e = lineStart". *)
From Coq Require Import List ZArith Lia Bool.
Import ListNotations.
Require Import Base Tree Rdr Link Collect Html Recog LP Rules Starts Driver L2Kind L2CC BSDef BSRdr BSTree BSOcp BSOrph BSClose BSLine1 BSLine2 BSLine3 BSLine4 BSLine5
  GramTree GramLP GramLP2 Cursor CursorX NoPanic12 Rec16 Rec17 Rec18 RecBounds ShDef ShRdr ShClose ShEnv ShLine1 ShLine2 ShFresh ShStarts2.
Require Import ShapesBase EntBase EntOcpDefs EntOcp EolFinalFullHbE4Tree EntCur EolFinalFullHbE4Par EolFinalFullHbE4LP1 EolFinalFullHbE4LP2 EolFinalFullHbE4LP3 EolFinalFullHbE4Atx.
Open Scope Z_scope.

(* ================================================================================================
   T28, part 7: the ATX heading start.  The new block is built and closed inside the start; its single
   entry is Unparsed [content start, content end), never preceded by an Indent entry.
   ================================================================================================ *)

(* the content start of an ATX heading is not a blank *)
Lemma atx_cs l lv cs ce : parseATXHeading l = (lv, cs, ce) -> 1 <= lv -> cs < len l -> isSpTab (at_ l cs) = false.
Proof.
  unfold parseATXHeading. cbv zeta. intros H Hlv Hcs.
  destruct (Rec17.countWhile_spec (fun c => c =? 35) l) as (C1 & _ & _). remember (countWhile (fun c => c =? 35) l) as level eqn:Elv.
  destruct ((level =? 0) || (6 <? level)); [injection H as <- <- <-; lia|].
  destruct ((len l <=? level) || (at_ l level =? 10) || (at_ l level =? 13)) eqn:E1.
  { injection H as <- <- <-. apply orb_true_iff in E1. destruct E1 as [E1|E1]; [apply orb_true_iff in E1; destruct E1 as [E1|E1]|].
    - apply Z.leb_le in E1. lia.
    - apply Z.eqb_eq in E1. rewrite E1. reflexivity.
    - apply Z.eqb_eq in E1. rewrite E1. reflexivity. }
  destruct (negb (isSpTab (at_ l level))) eqn:Esp; [injection H as <- <- <-; lia|].
  assert (Hlt : level < len l).
  { apply orb_false_iff in E1. destruct E1 as [E1 _]. apply orb_false_iff in E1. destruct E1 as [E1 _]. apply Z.leb_gt in E1. exact E1. }
  destruct (Rec17.countWhile_spec isSpTab (from_ l (level + 1))) as (D1 & _ & D3). rewrite Rec17.len_from in D1, D3 by lia.
  remember (countWhile isSpTab (from_ l (level + 1))) as k eqn:Ek. remember (level + 1 + k) as start eqn:Est.
  assert (Hns : start < len l -> isSpTab (at_ l start) = false).
  { intros Hl. specialize (D3 ltac:(lia)). rewrite Rec17.at_from in D3 by lia. rewrite Est. exact D3. }
  destruct (atx_scanBack (S (length l)) l start (len l)) as [e1 hit].
  destruct (negb hit); [injection H as <- <- <-; apply Hns, Hcs|].
  destruct (atx_trailing (S (length l)) l start (e1 - 1)) as [e2 mode].
  destruct (mode =? 0); injection H as <- <- <-; apply Hns, Hcs.
Qed.

Lemma indent_nonblank p : (li p < len (line p) -> isSpTab (at_ (line p) (li p)) = false) -> indent p = 0.
Proof.
  intros H. unfold indent. destruct (Z.leb_spec (len (line p)) (li p)); [reflexivity|]. cbv zeta. specialize (H ltac:(lia)).
  unfold isSpTab in H. apply orb_false_iff in H. destruct H as [H1 H2]. rewrite H1, H2. reflexivity.
Qed.

(* collectInline without indentation, on the fresh block *)
Lemma frs_collectInline_plain q p Y kind n : frs q p Y -> (state p =? stDescendTerminated) = false ->
  indent (if state p =? stOpening then withState p stOpenMatched else p) = 0 -> (kind =? InfoStringKind) = false ->
  frs q (collectInline p kind n)
      (set_bik Y (bik Y ++ [mkI kind (lineStart p + li p)
                               (lineStart p + li (advance (if state p =? stOpening then withState p stOpenMatched else p) n))])).
Proof.
  intros H Hs Hi Hk. unfold collectInline. rewrite Hs. cbv zeta.
  set (p0 := if state p =? stOpening then withState p stOpenMatched else p) in *.
  assert (H0 : frs q p0 Y) by (eapply frs_cstep; [exact H|apply cstep_opened]).
  rewrite Hi. change (0 <? 0) with false. cbv iota. rewrite Hk.
  assert (E0 : lineStart p0 = lineStart p /\ li p0 = li p) by (unfold p0; destruct (state p =? stOpening); split; reflexivity). destruct E0 as [E1 E2].
  assert (E3 : lineStart (advance p0 n) = lineStart p) by (destruct (env_parts _ _ (env_advance p0 n)) as (_ & E & _); rewrite E; exact E1).
  rewrite E1, E2, E3.
  match goal with |- frs q (updCont ?r ?f) _ => pose proof (frs_updCont q r Y f) as Hf end. cbv beta in Hf. apply Hf.
  eapply frs_cstep; [exact H0|apply cstep_advance].
Qed.

Lemma Itab_collectInline p kind n : Itab p -> Itab (collectInline p kind n).
Proof.
  intros H. unfold collectInline. destruct (_ =? stDescendTerminated); [exact H|]. cbv zeta.
  set (p0 := if state p =? stOpening then withState p stOpenMatched else p). assert (H0 : Itab p0) by (apply Itab_opened, H).
  set (p1 := if 0 <? indent p0 then _ else p0).
  assert (H1 : Itab p1) by (unfold p1; destruct (0 <? indent p0); [apply (Itab_advance p0 _ H0)|exact H0]).
  apply (Itab_advance p1 n H1).
Qed.

(* attaching a closed block below q's container *)
Lemma EP_fresh_out B q pf Y : EP B q -> kidsClosed q -> root pf = updAt (cdepth q) (appendB Y) (root q) -> cdepth pf = cdepth q -> envOf pf = envOf q ->
  curP pf -> Itab pf -> ccP pf -> en B (lineStart q) Y -> 0 <= bend Y ->
  EP B pf /\ containerKind pf <> ParagraphKind /\ ~ ppT (root pf).
Proof.
  intros HE HKC R C E Hc Hi Hcc HY HbY. pose proof HE as (A & A1 & A2 & (A3 & ASO) & A4). destruct (env_parts _ _ E) as (E1 & E2 & E3).
  assert (Hch : getAt (S (cdepth pf)) (root pf) = Some Y) by (rewrite C, R; apply getAt_fresh, A2).
  assert (Hk : containerKind pf <> ParagraphKind) by (apply cont_child; [exact Hcc|exists Y; exact Hch]).
  split; [|split; [exact Hk|]].
  - split; [eapply envB_env; eassumption|]. split; [exact Hc|]. split; [exact Hcc|]. split; [split; [exact Hi|]|].
    + intros j y Hj Ey. rewrite R in Ey. rewrite C in Hj.
      destruct (getAt_updAt_low (appendB Y) (fun x => bend_set_bkids x _) (cdepth q) j (root q) y Hj Ey) as (x & X1 & X2 & _).
      rewrite X2. apply (ASO j x); [lia|exact X1].
    + rewrite E2, R. apply en_frs; assumption.
  - apply noPara; [exact Hcc|exact Hk|]. intros c Ec. rewrite Hch in Ec. inversion Ec; subst c. left. exact HbY.
Qed.

Lemma sOKe_startATX B : startOKe B startATX.
Proof.
  intros p HE Hs HR. pose proof (ccP_startATX p ltac:(apply HE)) as Hccf. revert Hccf. unfold startATX. cbv zeta.
  destruct (_ <=? _); [left; reflexivity|].
  destruct (parseATXHeading (bytesAfterIndent p)) as [[level cs] ce] eqn:Ea. destruct (Z.ltb_spec level 1); [left; reflexivity|]. intros Hccf. right.
  pose proof HE as (A & (A0 & A1) & A2 & (A3 & ASO) & A4).
  destruct (atx_bounds _ _ _ _ Ea ltac:(lia)) as (Bc & Be & _).
  destruct (consume_all p A3 ltac:(lia)) as (R1 & L1 & L2 & _).
  set (p1 := consumeIndent p (indent p)) in *.
  assert (H1 : EP B p1) by (apply EP_consumeIndent, HE).
  assert (S1 : st_open p1) by (eapply st_open_sstep; [apply sstep_consumeIndent|exact Hs]).
  destruct (first_atx _ _ _ _ Ea ltac:(lia)) as [F1' F2'].
  assert (T1 : TP B p1) by (apply (TP_cstep B p); [apply cstep_consumeIndent|apply TP_start; assumption]).
  destruct (EP_obPre B p1 ATXHeadingKind H1 T1) as (Hq & _ & HKC). set (q := obPre p1 ATXHeadingKind) in *.
  pose proof (frs_openBlock p1 ATXHeadingKind S1) as F2. fold q in F2.
  set (p2 := openBlock p1 ATXHeadingKind) in *. set (Y0 := newBlock ATXHeadingKind (lineStart p1 + li p1)) in *.
  assert (E2 : state p2 = stOpenMatched) by (apply state_openBlock, S1).
  pose proof (curS_openBlock p1 ATXHeadingKind) as C2. fold p2 in C2.
  pose proof (frs_updCont q p2 Y0 (fun b => set_bn b level) F2) as F3. cbv beta in F3. set (p3 := updCont p2 (fun b => set_bn b level)) in *.
  assert (Hl : line p1 = line p /\ lineStart p1 = lineStart p).
  { destruct (env_parts _ _ (env_consumeIndent p (indent p))) as (_ & X1 & X2). fold p1 in X1, X2. tauto. }
  destruct Hl as [Hl1 Hl2].
  assert (Li3 : li p3 = li p1 /\ line p3 = line p /\ lineStart p3 = lineStart p).
  { destruct C2 as (X1 & X2 & _). split; [exact X1|]. split; [change (line p3) with (line p2); rewrite X2; exact Hl1|].
    destruct (env_parts _ _ (env_openBlock p1 ATXHeadingKind)) as (_ & X3 & _). change (lineStart p3) with (lineStart p2). fold p2 in X3. rewrite X3. exact Hl2. }
  destruct Li3 as (Li3 & Ln3 & Ls3).
  pose proof (indentLength_nonneg (rest p)) as Hnn.
  assert (Hr1 : len (rest p1) = len (line p1) - li p1) by (apply len_rest; rewrite Hl1; lia).
  rewrite R1, Hl1 in Hr1.
  set (p4 := advance p3 cs).
  assert (Li4 : li p4 = li p1 + cs).
  { destruct (Z.eq_dec cs 0) as [->|N0]; [unfold p4, advance; change (0 <? 0) with false; change (0 =? 0) with true; cbv iota; lia|]. unfold p4. rewrite li_advance; [lia|lia|rewrite Li3, Ln3; lia]. }
  assert (F4 : frs q p4 (set_bn Y0 level)) by (eapply frs_cstep; [exact F3|apply cstep_advance]).
  assert (E4 : state p4 = stOpenMatched).
  { destruct (sstep_advance p3 cs) as [X|[X _]]; [fold p4 in X; rewrite X; exact E2|change (state p3) with (state p2) in X; rewrite E2 in X; discriminate]. }
  assert (Ln4 : line p4 = line p /\ lineStart p4 = lineStart p).
  { destruct (env_parts _ _ (env_advance p3 cs)) as (_ & X1 & X2). fold p4 in X1, X2. rewrite X1, X2. tauto. }
  destruct Ln4 as [Ln4 Ls4].
  assert (Hop : (if state p4 =? stOpening then withState p4 stOpenMatched else p4) = p4) by (rewrite E4; reflexivity).
  assert (Hind : indent (if state p4 =? stOpening then withState p4 stOpenMatched else p4) = 0).
  { rewrite Hop. apply indent_nonblank. rewrite Ln4, Li4. intros Hlt.
    rewrite <- Hl1. rewrite <- (rest_at p1 cs) by lia. rewrite R1. apply (atx_cs _ _ _ _ Ea); lia. }
  pose proof (frs_collectInline_plain q p4 (set_bn Y0 level) UnparsedKind (ce - cs) F4 ltac:(rewrite E4; reflexivity) Hind eq_refl) as F5.
  rewrite Hop in F5. set (p5 := collectInline p4 UnparsedKind (ce - cs)) in *.
  set (Y5 := set_bik (set_bn Y0 level) (bik (set_bn Y0 level) ++ [mkI UnparsedKind (lineStart p4 + li p4) (lineStart p4 + li (advance p4 (ce - cs)))])) in *.
  assert (E5 : st_open p5) by (eapply st_open_sstep; [apply sstep_collectInline|right; exact E4]).
  assert (F6 : frs q (consumeLine p5) Y5) by (eapply frs_cstep; [exact F5|apply cstep_consumeLine]).
  assert (E6 : state (consumeLine p5) = stLineConsumed) by (apply LC_consumeLine, E5).
  destruct (frs_endBlock q (consumeLine p5) Y5 F6 ltac:(right; right; exact E6) ltac:(reflexivity) ltac:(reflexivity) ltac:(repeat split; discriminate))
    as (G1 & G2 & G3).
  set (pf := endBlock (consumeLine p5)) in *.
  assert (E7 : state pf = stLineConsumed) by (eapply LC_sstep; [apply sstep_endBlock|exact E6]).
  (* cursor positions *)
  assert (Lst : lstep p pf).
  { unfold pf, p5, p4, p3, p2, p1.
    eapply lstep_trans; [apply lstep_cstep, cstep_consumeIndent|]. eapply lstep_trans; [apply lstep_openBlock|].
    eapply lstep_trans; [apply lstep_updCont|]. eapply lstep_trans; [apply lstep_cstep, cstep_advance|].
    eapply lstep_trans; [apply lstep_collectInline|]. eapply lstep_trans; [apply lstep_cstep, cstep_consumeLine|].
    split; [apply env_endBlock|rewrite li_endBlock; lia]. }
  destruct (lstep_li p pf Lst ltac:(lia)) as (Cf & Lsf & Lnf).
  assert (Hmon : li p4 <= li (advance p4 (ce - cs)) <= len (line p)).
  { destruct (cstep_advance p4 (ce - cs)) as (_ & _ & X). rewrite Ln4 in X. apply X. rewrite Li4. lia. }
  assert (Li5 : li (consumeLine p5) = len (line p)).
  { assert (X : 0 <= li p5 <= len (line p5)).
    { assert (Lst5 : lstep p p5).
      { unfold p5, p4, p3, p2, p1. eapply lstep_trans; [apply lstep_cstep, cstep_consumeIndent|]. eapply lstep_trans; [apply lstep_openBlock|].
        eapply lstep_trans; [apply lstep_updCont|]. eapply lstep_trans; [apply lstep_cstep, cstep_advance|]. apply lstep_collectInline. }
      destruct (lstep_li p p5 Lst5 ltac:(lia)) as (X1 & _ & X2). exact X1. }
    rewrite (li_consumeLine p5 X). destruct (env_parts _ _ (env_consumeLine p5)) as (_ & _ & X3).
    assert (Lst5 : envOf p5 = envOf p).
    { unfold p5, p4, p3, p2, p1. rewrite env_collectInline, env_advance, env_updCont, env_openBlock, env_consumeIndent. reflexivity. }
    destruct (env_parts _ _ Lst5) as (_ & _ & X4). rewrite X4. reflexivity. }
  assert (Lsc : lineStart (consumeLine p5) = lineStart p).
  { destruct (env_parts _ _ (env_consumeLine p5)) as (_ & X3 & _). rewrite X3. unfold p5.
    destruct (env_parts _ _ (env_collectInline p4 UnparsedKind (ce - cs))) as (_ & X4 & _). rewrite X4. exact Ls4. }
  (* the closed heading satisfies the invariant *)
  assert (HY : en B (lineStart q) (set_bend Y5 (lineStart (consumeLine p5) + li (consumeLine p5)))).
  { unfold Y5, Y0, newBlock. cbn [set_bn set_bik set_bend bik app en]. split; [|exact I]. split; [|split; [|split; [|split]]].
    - intros [X|X]; discriminate.
    - intros _. split; [rewrite Lsc, Li5; pose proof (len_nonneg (line p)); lia|]. right. exists (lineStart p4 + li p4), (lineStart p4 + li (advance p4 (ce - cs))).
      assert (Lt : li (advance p4 (ce - cs)) = li p1 + ce).
      { destruct (Z.eq_dec cs ce) as [->|Nce]; [replace (ce - ce) with 0 by lia; unfold advance; change (0 <? 0) with false; change (0 =? 0) with true; cbv iota; lia|].
        rewrite li_advance; [lia|lia|rewrite Ln4, Li4; lia]. }
      pose proof A as (_ & _ & _ & AE4 & _ & (_ & _ & _ & AK & AT)).
      assert (HatR : forall j, 0 <= j -> li p1 + j < len (line p) -> at_ B (lineStart p + (li p1 + j)) = at_ (bytesAfterIndent p) j).
      { intros j Hj Hlt. rewrite <- (line_at B p (li p1 + j) A ltac:(lia)). rewrite <- Hl1, <- (rest_at p1 j) by lia. rewrite R1. reflexivity. }
      split; [reflexivity|]. rewrite Ls4, Lsc, Li5, Li4, Hl2, Lt. split; [lia|]. split; [lia|]. split; [lia|]. split; [lia|]. split.
      + intros i Hi Hz j Hj. destruct (AK i ltac:(lia) Hz) as [X|(X1 & X2 & X3)].
        * replace j with i by lia. exact Hz.
        * destruct (Z.eq_dec j i) as [->|Nj]; [exact Hz|]. replace j with (lineStart p + len (line p) - 1) by lia. left. exact X3.
      + destruct (atx_tail _ _ _ _ Ea ltac:(lia)) as [X|[(X1 & X2)|(X1 & X2)]].
        * left. lia.
        * destruct (Z.eq_dec cs ce) as [Ecs|Ncs]; [left; lia|]. right. right.
          replace (lineStart p + (li p1 + ce) - 1) with (lineStart p + (li p1 + (ce - 1))) by lia.
          rewrite (HatR ce) by lia. rewrite (HatR (ce - 1)) by lia. exact X2.
        * destruct (Z.eq_dec cs ce) as [Ecs|Ncs]; [left; lia|]. right. left.
          destruct AT as [AT|[_ AT]]; [lia|]. exfalso. apply X2.
          replace (lineStart p + len (line p) - 1) with (lineStart p + (li p1 + (len (bytesAfterIndent p) - 1))) in AT by lia.
          rewrite (HatR (len (bytesAfterIndent p) - 1)) in AT by lia. exact AT.
    - intros; lia.
    - intros _. rewrite Lsc, Li5. apply bdy_H, A.
    - split; [intros (_ & _ & X); contradiction|]. split; [intros [X|X]; discriminate|]. split; [intros _; exact I|split; [exact I|apply xk_other; discriminate]]. }
  assert (Ipf : Itab pf).
  { unfold pf. eapply Itab_curS; [apply curS_endBlock|]. apply Itab_consumeLine. unfold p5. apply Itab_collectInline. unfold p4. apply Itab_advance.
    unfold p3. eapply Itab_curS; [|eapply Itab_curS; [exact C2|apply Itab_consumeIndent, A3]]. repeat split. }
  destruct (EP_fresh_out B q pf _ Hq HKC G1 G2 G3 ltac:(split; [lia|exact Cf]) Ipf Hccf HY) as (X1 & X2 & X3).
  { rewrite bend_set_bend, Lsc, Li5. pose proof (len_nonneg (line p)). lia. }
  split; [exact X1|]. split; [left; exact E7|]. split; [exact X2|split; [apply ms_LC, E7|exact X3]].
Qed.
