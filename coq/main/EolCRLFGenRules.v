From Coq Require Import List ZArith Lia Bool.
Import ListNotations.
Require Import LADef.
Require Import Base Tree Rdr Link Collect Html Recog LP Rules Starts Driver Rec16 Rec17 Rec18 RecBounds Cursor CursorX L2Kind SpanSmall NoPanic12
  EolInv EolHtmlInv EolCRDefs EolCRBytes EolCRLFDefs EolCRLFSimBytes EolCRLFSimTree EolCRLFSimLP EolCRLFSimRules EolCRLFGenHyp EolCRLFGenLP.
Open Scope Z_scope.

Definition CG2 (O : OcpHyp) (x y : bool * lp) : Prop := fst y = fst x /\ CG O (snd x) (snd y).
Section GenRules.
  Context {O : OcpHyp}.

(* C14 (ii), CRLF clause, inputs without '[': match rules and descent. G (NoPanic12) is the single-run cursor invariant of p. *)

Lemma html_crlf i l : lineOK l -> htmlEnd i (crlf l) = htmlEnd i l /\ htmlStart i (crlf l) = htmlStart i l.
Proof.
  intros H. destruct (lineOK_split l H) as (body & e & -> & Hb & He & _ & Ec & _). rewrite Ec.
  destruct He as [->| ->]; [change (crlf []) with (@nil Z); split; reflexivity|].
  change (crlf [10]) with [13; 10]. split; [apply htmlEnd_lf_crlf, Hb|apply htmlStart_lf_crlf, Hb].
Qed.

(* a byte other than LF at the cursor lies inside the body *)
Lemma prefix_in_body l c : lineOK l -> hasBytePrefix l [c] = true -> c <> 10 -> 1 <= blen l.
Proof.
  intros H Hp Hc. destruct (lineOK_split l H) as (body & e & -> & Hb & He & Eb & _). rewrite Eb.
  destruct body as [|x body]; [|unfold len; cbn [length]; lia]. exfalso. cbn [app] in Hp.
  destruct He as [->| ->]; cbn in Hp; [discriminate|]. rewrite andb_true_r in Hp. apply Z.eqb_eq in Hp. congruence.
Qed.
Lemma blen_from l k : lineOK l -> 0 <= k <= blen l -> blen (from_ l k) = blen l - k.
Proof.
  intros H Hk. destruct (lineOK_split l H) as (body & e & -> & Hb & He & Eb & _). rewrite Eb in *. rewrite from_app_le by lia.
  rewrite (blen_shape (from_ body k) e); [rewrite len_from by lia; reflexivity|apply Forall_from', Hb|exact He].
Qed.
Lemma blen_rest p q : CG O p q -> li p <= blen (line p) -> blen (rest p) = blen (line p) - li p.
Proof. intros H Hb. unfold rest. apply blen_from; [apply H|]. destruct H as (_ & _ & _ & _ & _ & _ & _ & _ & Li & _). lia. Qed.

(* the cursor after ConsumeIndent(Indent()) *)
Lemma after_indent p q : CG O p q -> G p ->
  let p1 := consumeIndent p (indent p) in
  CG O p1 (consumeIndent q (indent p)) /\ G p1 /\ rest p1 = bytesAfterIndent p /\ li p1 = li p + indentLength (rest p) /\ line p1 = line p /\ lineStart p1 = lineStart p.
Proof.
  intros H HG. cbv zeta. pose proof HG as (A & B & C). destruct (consume_all p A B) as (R1 & L1 & L2 & (E1 & E2 & _)).
  split; [apply CG_consumeIndent, H|]. split; [apply G_consumeIndent, HG|]. repeat split; assumption.
Qed.
(* a recognizer result r on the bytes after the indent, bounded by the body of those bytes, stays inside the body of the line *)
Lemma bai_bound p q : CG O p q -> G p -> bytesAfterIndent p <> [] ->
  li p + indentLength (rest p) + blen (bytesAfterIndent p) = blen (line p) /\ li p <= blen (line p).
Proof.
  intros H HG Hb. assert (Lok : lineOK (line p)) by apply H. assert (Li : 0 <= li p <= len (line p)) by apply H.
  assert (Hli : li p <= blen (line p)).
  { destruct (Z.le_gt_cases (li p) (blen (line p))) as [L|L]; [exact L|]. exfalso. apply Hb.
    assert (Hl : len (line p) <= li p) by (destruct (Z.lt_ge_cases (li p) (len (line p))) as [X|X]; [pose proof (lt_blen _ _ Lok X); lia|exact X]).
    unfold bytesAfterIndent, rest. rewrite Rec16.from_nil by lia. reflexivity. }
  split; [|exact Hli]. unfold bytesAfterIndent. rewrite trimLeft_from.
  pose proof (ind_le (line p) (li p) Lok ltac:(lia)) as Hil. fold (rest p) in Hil.
  assert (Lr : lineOK (rest p)) by (unfold rest; apply lineOK_from; [exact Lok|lia]).
  rewrite (blen_from (rest p) _ Lr); [rewrite (blen_rest p q H Hli); lia|].
  split; [apply indentLength_nonneg|]. rewrite (blen_rest p q H Hli). lia.
Qed.


Lemma CG_field p q : CG O p q ->
  bindent (contBlock q) = bindent (contBlock p) /\ bn (contBlock q) = bn (contBlock p) /\ bchar (contBlock q) = bchar (contBlock p) /\
  childCount (contBlock q) = childCount (contBlock p).
Proof. intros H. rewrite (CG_contBlock p q H). repeat split; [apply bindent_M|apply bn_M|apply bchar_M|apply childCount_M]. Qed.

Lemma CG_matchListItem p q : CG O p q -> CG2 O (matchListItem p) (matchListItem q).
Proof.
  intros H. unfold matchListItem. destruct (CG_field p q H) as (F1 & _ & _ & F4).
  rewrite (CG_isRestBlank p q H), (CG_containerKind p q H), (CG_indent p q H), F1, F4.
  destruct (isRestBlank p).
  - destruct (negb _); split; cbn [fst snd]; try reflexivity; [exact H|apply CG_consumeIndent, H].
  - destruct (_ <=? _); split; cbn [fst snd]; try reflexivity; [apply CG_consumeIndent, H|exact H].
Qed.

Lemma CG_quoteMarker p q : CG O p q -> G p -> hasBytePrefix (bytesAfterIndent p) [62] = true ->
  forall (F : lp -> lp), (forall a b, CG O a b -> CG O (F a) (F b)) -> (forall a, G a -> li (F a) = li a /\ line (F a) = line a) ->
  CG O (let p := advance (F (consumeIndent p (indent p))) 1 in if 0 <? indent p then consumeIndent p 1 else p)
     (let p := advance (F (consumeIndent q (indent p))) 1 in if 0 <? indent p then consumeIndent p 1 else p).
Proof.
  intros H HG Hp F HF HFc. cbv zeta.
  destruct (after_indent p q H HG) as (H1 & G1 & R1 & L1 & E1 & _).
  destruct (CG_bai p q H) as [_ Lb]. pose proof (prefix_in_body _ 62 Lb Hp ltac:(discriminate)) as Hb1.
  destruct (bai_bound p q H HG ltac:(intros X; rewrite X in Hp; discriminate)) as [Hb2 _].
  set (p1 := consumeIndent p (indent p)) in *. set (q1 := consumeIndent q (indent p)) in *. clearbody p1 q1.
  pose proof (HF p1 q1 H1) as H2. destruct (HFc p1 G1) as [E2 E3].
  assert (Ha : CG O (advance (F p1) 1) (advance (F q1) 1)) by (apply CG_advance; [exact H2|lia|rewrite E2, E3, L1, E1; lia]).
  rewrite (CG_indent _ _ Ha). destruct (0 <? _); [apply CG_consumeIndent, Ha|exact Ha].
Qed.

Lemma CG_matchBlockQuote p q : CG O p q -> G p -> CG2 O (matchBlockQuote p) (matchBlockQuote q).
Proof.
  intros H HG. unfold matchBlockQuote. cbv zeta. rewrite (CG_indent p q H).
  destruct (_ <=? _); [split; [reflexivity|exact H]|].
  rewrite (proj1 (CG_bai p q H)), hasBytePrefix_crlf by (apply Forall_cons; [split; discriminate|apply Forall_nil]).
  destruct (hasBytePrefix (bytesAfterIndent p) [62]) eqn:Hp; cbn [negb]; [|split; [reflexivity|exact H]].
  split; [reflexivity|]. cbn [snd]. unfold eatQuoteMarker.
  apply (CG_quoteMarker p q H HG Hp (fun x => x)); [intros a b Hab; exact Hab|intros a _; split; reflexivity].
Qed.

Lemma CG_matchFenced p q : CG O p q -> CG2 O (matchFenced p) (matchFenced q).
Proof.
  intros H. unfold matchFenced. cbv zeta. destruct (CG_field p q H) as (F1 & F2 & F3 & _). destruct (CG_bai p q H) as [Eb Lb].
  destruct (recog_crlf _ Lb) as (_ & _ & _ & Rf & _).
  rewrite (CG_indent p q H), Eb, Rf, F1, F2, F3.
  destruct (if indent p <? codeBlockIndentLimit then _ else false); split; cbn [fst snd]; try reflexivity; [apply CG_consumeLine, H|apply CG_consumeIndent, H].
Qed.

Lemma CG_matchIndented p q : CG O p q -> CG2 O (matchIndented p) (matchIndented q).
Proof.
  intros H. unfold matchIndented. cbv zeta. rewrite (CG_indent p q H), (CG_isRestBlank p q H).
  destruct (_ <? _); [destruct (negb _)|]; split; cbn [fst snd]; try reflexivity; [exact H|apply CG_consumeIndent, H|apply CG_consumeIndent, H].
Qed.

(* collecting the rest of the line *)
Lemma ckind_self p : ckind p (containerKind p).
Proof. intros b Eb. unfold containerKind, contBlock. rewrite Eb. reflexivity. Qed.
Lemma CG_collect_rest p q kind K : CG O p q -> G p -> kind <> InfoStringKind -> ckind p K -> isParaK K = false ->
  CG O (collectInline p kind (len (bytesAfterIndent p))) (collectInline q kind (len (bytesAfterIndent q))).
Proof.
  intros H HG Hk Hc HK. pose proof HG as (A & B & C).
  assert (Hp : forall x, 0 <= li x <= len (line x) -> len (bytesAfterIndent x) = len (line x) - (li x + indentLength (rest x))).
  { intros x Hx. pose proof (trim_len (rest x)) as T. fold (bytesAfterIndent x) in T. rewrite (len_rest x Hx) in T. lia. }
  apply (CG_collectInline p q kind _ _ K); [exact H|exact Hc|exact HK|right]. split; [exact Hk|]. split; [apply Hp, H|]. split.
  - apply Hp. destruct H as (_ & _ & _ & _ & _ & Lok & Eq2 & _ & Li & Eq1 & _). rewrite Eq1, Eq2, <- (phiP_all (line p)).
    split; [pose proof (phiP_mono (line p) 0 (li p) ltac:(lia)) as X; rewrite phiP_0 in X; exact X|apply phiP_mono; lia].
  - destruct (Z.ltb_spec 0 (indent p)) as [L|L]; [left; reflexivity|right; apply indent_zero; assumption].
Qed.

Lemma CG_matchHTML p q : CG O p q -> G p -> containerKind p = HTMLBlockKind -> CG2 O (matchHTML p) (matchHTML q).
Proof.
  intros H HG HKc. unfold matchHTML. destruct (CG_field p q H) as (_ & F2 & _ & _). destruct (CG_bai p q H) as [Eb Lb].
  rewrite F2. rewrite Eb at 1. rewrite (proj1 (html_crlf _ _ Lb)), (CG_isRestBlank p q H).
  destruct (htmlEnd _ _); [|split; [reflexivity|exact H]].
  destruct (isRestBlank p); split; cbn [fst snd]; try reflexivity; [exact H|].
  apply CG_consumeLine, (CG_collect_rest p q _ HTMLBlockKind); [exact H|exact HG|discriminate|rewrite <- HKc; apply ckind_self|reflexivity].
Qed.

Lemma CG_matchRule p q : CG O p q -> G p -> CG2 O (matchRule p) (matchRule q).
Proof.
  intros H HG. unfold matchRule. cbv zeta. rewrite (CG_containerKind p q H).
  destruct (_ || _); [split; [reflexivity|exact H]|].
  destruct (_ =? ListItemKind); [apply CG_matchListItem, H|].
  destruct (_ =? BlockQuoteKind); [apply CG_matchBlockQuote; assumption|].
  destruct (_ =? FencedCodeBlockKind); [apply CG_matchFenced, H|].
  destruct (_ =? IndentedCodeBlockKind); [apply CG_matchIndented, H|].
  destruct (Z.eqb_spec (containerKind p) HTMLBlockKind) as [EH|NH]; [apply CG_matchHTML; assumption|].
  split; cbn [fst snd]; [rewrite (CG_isRestBlank p q H); reflexivity|exact H].
Qed.

Lemma CG_getAt p q d : CG O p q -> getAt d (root q) = option_map (phiB (source p)) (getAt d (root p)).
Proof. intros H. replace (root q) with (phiB (source p) (root p)) by (symmetry; apply H). apply getAt_M. Qed.

Lemma CG_descend_loop : forall fuel p q d, CG O p q -> G p -> CG2 O (descend_loop fuel p d) (descend_loop fuel q d).
Proof.
  induction fuel as [|f IH]; intros p q d H HG; [split; [reflexivity|apply CG_withCont, H]|]. cbn [descend_loop]. cbv zeta.
  rewrite (CG_getAt p q (S d) H). destruct (getAt (S d) (root p)) as [c|]; cbn [option_map]; [|split; [reflexivity|apply CG_withCont, H]].
  rewrite isOpen_M, bkind_M. destruct (negb (isOpen c)); [split; [reflexivity|apply CG_withCont, H]|].
  destruct (negb (hasMatch _)); [split; [reflexivity|apply CG_withCont, CG_withCont, H]|].
  assert (H1 : CG O (withState (withCont p (Some (S d))) stDescending) (withState (withCont q (Some (S d))) stDescending)) by (apply CG_withState, CG_withCont, H).
  assert (G1 : G (withState (withCont p (Some (S d))) stDescending)) by exact HG.
  pose proof (CG_matchRule _ _ H1 G1) as H2. pose proof (G_matchRule _ G1) as G2.
  destruct (matchRule (withState (withCont p (Some (S d))) stDescending)) as [ok p2].
  destruct (matchRule (withState (withCont q (Some (S d))) stDescending)) as [ok' q2].
  destruct H2 as [E H2]. cbn [fst snd] in E, H2, G2. subst ok'. rewrite (CG_state p2 q2 H2).
  destruct (state p2 =? stDescendTerminated).
  - split; [reflexivity|]. cbn [snd]. apply CG_withCont. rewrite (CG_pos p2 q2 H2). apply CG_closeLastChildAt; [exact H2|apply (CG_ls0 p2 q2 H2)].
  - destruct (negb ok); [split; [reflexivity|apply CG_withCont, H2]|]. apply IH; assumption.
Qed.

Lemma CG_bheight p q : CG O p q -> bheight (root q) = bheight (root p).
Proof. intros H. replace (root q) with (phiB (source p) (root p)) by (symmetry; apply H). apply bheight_M. Qed.
Lemma CG_descendOpenBlocks p q : CG O p q -> G p -> CG2 O (descendOpenBlocks p) (descendOpenBlocks q).
Proof. intros H HG. unfold descendOpenBlocks. rewrite (CG_bheight p q H). apply CG_descend_loop; assumption. Qed.
End GenRules.
