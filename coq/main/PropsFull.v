From Coq Require Import List ZArith Lia Bool.
Import ListNotations.
Require Import Base Tree Driver Inl3e Render Props.
Require ItemSimDefs ItemSimMain QuoteSimDefs QS2Spec2 EolCRDefs EolCR EolCRFull EolCRRenderDefs EolCRRender Uncond C02Full ComposeC03 C05Full C13All Total InlineFuelAll BlankPrefix EolFinalDefs EolFinalGenMain EolCRLFDefs EolCRLFSim EolCRLFGen ChkDocAll ChkDocAll2.
Open Scope Z_scope.

(* The properties whose formal statement (Props.v, or the statement file named) is a theorem about the model for everything the
   statement quantifies over.  Nothing else lives in this file: every theorem is closed by `exact <lemma>` so that it cannot be
   quietly weakened, with Print Assumptions beneath.  (Full theorems whose statements are not a named Definition — C07_final,
   C08 parseStream_eq_small, C10_appendBlock, C15 recognizers, C17 clauses, C18 walk — are audited by name in lib/props.py.) *)

Theorem C01_full : Props.C01_statement.
Proof. exact Uncond.C01_tiling. Qed.

Theorem C02_full : Props.C02_statement.
Proof. exact C02Full.C02_full. Qed.

Theorem C03_full : Props.C03_statement.
Proof. exact ComposeC03.C03_full. Qed.

Theorem C05_full : Props.C05_statement.
Proof. exact C05Full.C05_full. Qed.

Theorem C13_full : Props.C13_statement.
Proof. exact C13All.C13_full. Qed.

(* C04 on the model: the block layer reports neither a panic site nor an exhausted fuel, for every input *)
Theorem C04_block_layer : forall input, snd (parseBlocks input) = 0.
Proof. exact Total.parseBlocks_total. Qed.

(* C14: padding clause, final-newline clause, CRLF clause (no '[' / below the label limit), on the concrete block machine *)
Theorem C14_padding : BlankPrefix.parseBlocks_blank_prefix_statement.
Proof. exact Uncond.parseBlocks_blank_prefix. Qed.
Theorem C14_final_newline : EolFinalDefs.parseBlocks_final_newline_statement.
Proof. exact EolFinalGenMain.parseBlocks_final_newline. Qed.
Theorem C14_crlf_nobracket : EolCRLFDefs.parseBlocks_crlf_nobracket_statement.
Proof. exact EolCRLFSim.parseBlocks_crlf_nobracket. Qed.
Theorem C14_crlf_limit : EolCRLFGen.parseBlocks_crlf_limit_statement.
Proof. exact EolCRLFGen.parseBlocks_crlf_limit. Qed.

(* C09, block-quote clause at the block layer, every tab-free document *)
Theorem C09_quote_blocks : QuoteSimDefs.parseBlocks_quote_statement.
Proof. exact QS2Spec2.parseBlocks_quote. Qed.

(* C09, list-item clause at the block layer *)
Theorem C09_item_blocks : ItemSimDefs.parseBlocks_item_statement.
Proof. exact ItemSimMain.parseBlocks_item. Qed.

(* C14, CR clause through the whole pipeline *)
Theorem C14_cr_parse : forall s, ~ In 13 s ->
  parseFull (EolCRDefs.cr s) = (map (EolCR.mapSrc EolCRDefs.cr) (fst (parseFull s)), snd (parseFull s)).
Proof. exact EolCRFull.parseFull_cr. Qed.
Theorem C14_cr_render : forall c s, ~ In 13 s -> EolCRRenderDefs.RE (renderDoc c s) (renderDoc c (EolCRDefs.cr s)).
Proof. exact EolCRRender.renderDoc_cr. Qed.

(* C17: the side condition of the whole-document filter theorem holds of every parser output *)
Theorem C17_chkDoc : ChkDocAll.chkDoc_all_statement.
Proof. exact ChkDocAll2.chkDoc_all. Qed.

Print Assumptions C01_full.
Print Assumptions C02_full.
Print Assumptions C03_full.
Print Assumptions C05_full.
Print Assumptions C13_full.
Print Assumptions C04_block_layer.
Print Assumptions C14_padding.
Print Assumptions C14_final_newline.
Print Assumptions C14_crlf_nobracket.
Print Assumptions C14_crlf_limit.
Print Assumptions C17_chkDoc.
Print Assumptions C09_quote_blocks.
Print Assumptions C09_item_blocks.
Print Assumptions C14_cr_parse.
Print Assumptions C14_cr_render.
