From Coq Require Import List ZArith Lia Bool.
Import ListNotations.
Require Import Base Tables Utf8 Tree Rdr Link Collect Html Recog Inl3a Inl3b Inl3c Inl3d Inl3e LP Rules Starts Driver Props.
Require Import ShapeHypDef ComposeShapes.
Require Import BndDefs BndUtf8 BndBDefs BndB1 BndB8 BndCompose BndOcp.
Open Scope Z_scope.

(* ================================================================== *)
(* C02, character-boundary clause: for valid UTF-8 input every span    *)
(* boundary of every block and inline node of every root block of      *)
(* parseFull lies on a character boundary of the root's source.        *)
(* ================================================================== *)

(* the checkers: exactly the boundary_ok conjuncts of Props.spansB / Props.spansI *)
Fixpoint bndI (src : bytes) (i : inline) : bool :=
  match i with Inl _ s e _ _ ks => boundary_ok src s && boundary_ok src e && forallb (bndI src) ks end.
Fixpoint bndB (src : bytes) (b : block) : bool :=
  match b with Blk _ s e bk ik _ _ _ _ _ =>
    boundary_ok src s && boundary_ok src e &&
    match bk with [] => forallb (bndI src) ik | _ => forallb (bndB src) bk end
  end.
Definition C02_boundaries_statement : Prop :=
  forall input, validUtf8 input = true -> forallb (fun r => bndB (rb_src r) (rb_blk r)) (fst (parseFull input)) = true.

Lemma bndI_same src : forall i, bndI src i = BndDefs.bndI src i.
Proof.
  fix IH 1. intros [k s e ind r ks]. cbn [bndI BndDefs.bndI].
  assert (Hk : forallb (bndI src) ks = forallb (BndDefs.bndI src) ks).
  { induction ks as [|x l IHl]; [reflexivity|]. cbn [forallb]. rewrite (IH x), IHl. reflexivity. }
  rewrite Hk. reflexivity.
Qed.
(* the checker of BndDefs looks at the block children AND the inline children of every block: it is stronger *)
Lemma bndB_weaker src : forall b, BndDefs.bndB src b = true -> bndB src b = true.
Proof.
  fix IH 1. intros [k s e bk ik a n c l lb]. cbn [bndB BndDefs.bndB]. intros H.
  apply andb_true_iff in H. destruct H as [H H4]. apply andb_true_iff in H. destruct H as [H H3]. rewrite H. cbn [andb].
  assert (Hk : forallb (bndB src) bk = true).
  { induction bk as [|x r IHr]; [reflexivity|]. cbn [forallb] in *. apply andb_true_iff in H3. destruct H3 as [Hx Hr].
    rewrite (IH x Hx), (IHr Hr). reflexivity. }
  destruct bk as [|x r]; [|exact Hk].
  apply forallb_forall. intros y Hy. rewrite bndI_same. rewrite forallb_forall in H4. apply H4, Hy.
Qed.

(* every span end of every node (block children and inline children of every block), stated with the checker of BndDefs *)
Theorem C02_boundaries_strong_of_ocp : (forall B, adjF 0 B -> OcpG B) ->
  forall input, validUtf8 input = true ->
    forallb (fun r => BndDefs.bndB (rb_src r) (rb_blk r)) (fst (parseFull input)) = true.
Proof.
  intros Hocp input Hv. unfold parseFull.
  pose proof (parseBlocks_okRB Hocp input Hv) as H1. pose proof (parseBlocks_shapeHyp input) as H2.
  destruct (parseBlocks input) as [roots code]. cbn [fst] in *.
  apply forallb_forall. intros r' Hr'. apply in_map_iff in Hr'. destruct Hr' as (r & <- & Hr). cbn [rb_src rb_blk].
  rewrite Forall_forall in H1. destruct (okRB_bnd r (H1 r Hr)) as (A1 & A2 & A3).
  unfold shapeHypRoots in H2. rewrite forallb_forall in H2.
  apply rewriteB_bnd; [exact A1|exact A2|apply H2, Hr|exact A3].
Qed.
Print Assumptions C02_boundaries_strong_of_ocp.

(* ---- the block layer alone: the tree before the inline pass ---- *)
Theorem parseBlocks_boundaries : forall input, validUtf8 input = true ->
  Forall (fun r => asciiOK (rb_src r) /\ boundary_ok (rb_src r) 0 = true /\ BndDefs.bndB (rb_src r) (rb_blk r) = true) (fst (parseBlocks input)).
Proof.
  intros input Hv. eapply Forall_impl; [|apply (parseBlocks_okRB ocpG_all input Hv)]. intros r Hr. apply okRB_bnd, Hr.
Qed.
Print Assumptions parseBlocks_boundaries.

(* ---- every node of every root block of parseFull, block children and inline children of every block ---- *)
Theorem C02_boundaries_strong : forall input, validUtf8 input = true ->
  forallb (fun r => BndDefs.bndB (rb_src r) (rb_blk r)) (fst (parseFull input)) = true.
Proof. apply C02_boundaries_strong_of_ocp, ocpG_all. Qed.
Print Assumptions C02_boundaries_strong.

(* ---- the statement asked for ---- *)
Theorem C02_boundaries : C02_boundaries_statement.
Proof.
  intros input Hv. pose proof (C02_boundaries_strong input Hv) as H. rewrite forallb_forall in H.
  apply forallb_forall. intros r Hr. apply bndB_weaker, H, Hr.
Qed.
Print Assumptions C02_boundaries.

(* ---- with the span structure: Props.spansI / spansB with the boundary clause switched on follow from the
        same checkers with the clause switched off ---- *)
Lemma spansI_true_of src : forall ps pe i, spansI false src ps pe i = true -> bndI src i = true -> spansI true src ps pe i = true.
Proof.
  fix IH 3. intros ps pe [k s e ind r ks]. cbn [spansI bndI]. intros H Hb.
  apply andb_true_iff in Hb. destruct Hb as [Hb Hk]. rewrite Hb.
  apply andb_true_iff in H. destruct H as [H Hgo]. apply andb_true_iff in H. destruct H as [H _]. rewrite H. cbn [andb].
  clear H Hb. revert Hgo Hk. generalize s at 2 4. induction ks as [|x l IHl]; intros prev Hgo Hk; [reflexivity|].
  cbn [forallb] in Hk. apply andb_true_iff in Hk. destruct Hk as [Hx Hl].
  apply andb_true_iff in Hgo. destruct Hgo as [Hgo Hr]. apply andb_true_iff in Hgo. destruct Hgo as [H1 H2].
  rewrite H1, (IH s e x H2 Hx). cbn [andb]. apply IHl; assumption.
Qed.
Lemma spansB_true_of src : forall ps pe b, spansB false src ps pe b = true -> bndB src b = true -> spansB true src ps pe b = true.
Proof.
  fix IH 3. intros ps pe [k s e bk ik a n c l lb].
  assert (HI : forall prev,
    (fix go (prev : Z) (l : list inline) : bool :=
       match l with [] => true | k0 :: r0 => (prev <=? istart k0) && spansI false src s e k0 && go (iend k0) r0 end) prev ik = true ->
    forallb (bndI src) ik = true ->
    (fix go (prev : Z) (l : list inline) : bool :=
       match l with [] => true | k0 :: r0 => (prev <=? istart k0) && spansI true src s e k0 && go (iend k0) r0 end) prev ik = true).
  { induction ik as [|x r IHr]; intros prev G1 G2; [reflexivity|].
    cbn [forallb] in G2. apply andb_true_iff in G2. destruct G2 as [Hx Hl].
    apply andb_true_iff in G1. destruct G1 as [G1 Hr]. apply andb_true_iff in G1. destruct G1 as [H1 H2].
    rewrite H1, (spansI_true_of src s e x H2 Hx). cbn [andb]. apply IHr; assumption. }
  assert (HB : forall prev,
    (fix go (prev : Z) (l : list block) : bool :=
       match l with [] => true | k0 :: r0 => (prev <=? bstart k0) && spansB false src s e k0 && go (bend k0) r0 end) prev bk = true ->
    forallb (bndB src) bk = true ->
    (fix go (prev : Z) (l : list block) : bool :=
       match l with [] => true | k0 :: r0 => (prev <=? bstart k0) && spansB true src s e k0 && go (bend k0) r0 end) prev bk = true).
  { induction bk as [|x r IHr]; intros prev G1 G2; [reflexivity|].
    cbn [forallb] in G2. apply andb_true_iff in G2. destruct G2 as [Hx Hl].
    apply andb_true_iff in G1. destruct G1 as [G1 Hr]. apply andb_true_iff in G1. destruct G1 as [H1 H2].
    rewrite H1, (IH s e x H2 Hx). cbn [andb]. apply IHr; assumption. }
  cbn [spansB bndB]. intros H Hb.
  apply andb_true_iff in Hb. destruct Hb as [Hb Hk]. rewrite Hb.
  apply andb_true_iff in H. destruct H as [H Hgo]. apply andb_true_iff in H. destruct H as [H _]. rewrite H. cbn [andb].
  clear H Hb.
  destruct bk as [|b0 bk']; [apply HI; assumption|apply HB; assumption].
Qed.

(* C02 itself, given its span-structure part (the checker with the boundary clause switched off) *)
Theorem C02_of_structure : (forall input, forallb (chk_C02_root false) (fst (parseFull input)) = true) -> C02_statement.
Proof.
  intros Hs input. destruct (validUtf8 input) eqn:Hv; [|apply Hs].
  pose proof (Hs input) as H1. pose proof (C02_boundaries input Hv) as H2. rewrite forallb_forall in H1, H2.
  apply forallb_forall. intros r Hr. specialize (H1 r Hr). specialize (H2 r Hr). unfold chk_C02_root in *. cbv zeta in *.
  apply andb_true_iff in H1. destruct H1 as [H1 H3]. rewrite H1. cbn [andb]. apply spansB_true_of; assumption.
Qed.
Print Assumptions C02_of_structure.
