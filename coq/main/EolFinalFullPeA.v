(* T63-F1, processEmphasis and a trailing node: the forest operations with one more, childless, top-level node at the end. *)
From Coq Require Import List ZArith Lia Bool.
Import ListNotations.
Require Import Base Tables Utf8 Tree Rdr Link Collect Html Recog Inl3a Inl3b Inl3c Inl3d Driver Inl3e.
Require Import GI0 GI1 GI2 GI3 GI4 IS0 IFTree PEProof.
Open Scope Z_scope.

(* ---------- enough fuel is enough ---------- *)
Lemma psize_le_fsize n l : In n l -> (fsize (pkids n) < fsize l)%nat.
Proof. intros H. rewrite <- psize_fsize. pose proof (sF_in n l H). rewrite fsize_sF. lia. Qed.

Lemma updNode_fuel id g : forall f1 f2 l, (fsize l <= f1)%nat -> (fsize l <= f2)%nat -> updNode f1 id g l = updNode f2 id g l.
Proof.
  induction f1 as [|f1 IH]; intros f2 l H1 H2; [pose proof (fsize_pos l); lia|]. destruct f2 as [|f2]; [pose proof (fsize_pos l); lia|].
  cbn [updNode]. apply map_ext_in. intros n Hn. destruct (pid n =? id); [reflexivity|]. f_equal. pose proof (psize_le_fsize n l Hn). apply IH; lia.
Qed.
Lemma removeId_fuel id : forall f1 f2 l, (fsize l <= f1)%nat -> (fsize l <= f2)%nat -> removeId f1 id l = removeId f2 id l.
Proof.
  induction f1 as [|f1 IH]; intros f2 l H1 H2; [pose proof (fsize_pos l); lia|]. destruct f2 as [|f2]; [pose proof (fsize_pos l); lia|].
  cbn [removeId]. destruct (hasId id l); [reflexivity|]. apply map_ext_in. intros n Hn. f_equal. pose proof (psize_le_fsize n l Hn). apply IH; lia.
Qed.
Lemma wrapIn_fuel newId kind sId eId es : forall f1 f2 pe0 l, (fsize l <= f1)%nat -> (fsize l <= f2)%nat ->
  wrapIn f1 newId kind sId eId es pe0 l = wrapIn f2 newId kind sId eId es pe0 l.
Proof.
  induction f1 as [|f1 IH]; intros f2 pe0 l H1 H2; [pose proof (fsize_pos l); lia|]. destruct f2 as [|f2]; [pose proof (fsize_pos l); lia|].
  cbn [wrapIn]. destruct (hasId sId l); [reflexivity|]. apply map_ext_in. intros n Hn. f_equal. pose proof (psize_le_fsize n l Hn). apply IH; lia.
Qed.

Lemma fsize_app1 l n : pkids n = [] -> fsize (l ++ [n]) = S (fsize l).
Proof.
  intros Hk. unfold fsize. f_equal. induction l as [|x l IH]; cbn [app fold_right].
  - rewrite psize_fsize, Hk. reflexivity.
  - rewrite IH. lia.
Qed.

Lemma hasId_app1 id l n : pid n <> id -> hasId id (l ++ [n]) = hasId id l.
Proof. intros H. unfold hasId. rewrite existsb_app. cbn [existsb]. replace (pid n =? id) with false by (symmetry; apply Z.eqb_neq; exact H). rewrite !orb_false_r. reflexivity. Qed.
Lemma updNode_nil' f id g : updNode f id g [] = []. Proof. destruct f; reflexivity. Qed.
Lemma removeId_nil' f id : removeId f id [] = []. Proof. destruct f; reflexivity. Qed.
Lemma wrapIn_nil' f a b c d e g : wrapIn f a b c d e g [] = []. Proof. destruct f; reflexivity. Qed.
Lemma setKids_nil n : pkids n = [] -> setKids n [] = n. Proof. destruct n; cbn; intros ->; reflexivity. Qed.

Lemma updNode_S f id g l : updNode (S f) id g l = map (fun n => if pid n =? id then g n else setKids n (updNode f id g (pkids n))) l.
Proof. reflexivity. Qed.
Lemma removeId_S f id l : removeId (S f) id l = if hasId id l then filter (fun n => negb (pid n =? id)) l else map (fun n => setKids n (removeId f id (pkids n))) l.
Proof. reflexivity. Qed.
Lemma wrapIn_S f newId kind sId eId es pe0 l : wrapIn (S f) newId kind sId eId es pe0 l =
  if hasId sId l then wrapLevel newId kind sId eId es pe0 l else map (fun n => setKids n (wrapIn f newId kind sId eId es (pe n) (pkids n))) l.
Proof. reflexivity. Qed.
Section One.
  Variable n : pn.
  Hypothesis Hk : pkids n = [].

  Lemma updNode_app1 id g l : pid n <> id ->
    updNode (fsize (l ++ [n])) id g (l ++ [n]) = updNode (fsize l) id g l ++ [n].
  Proof.
    intros Hid. rewrite (fsize_app1 l n Hk). destruct (fsize_S l) as (f & Ef). rewrite Ef.
    rewrite (updNode_S (S f)), (updNode_S f). rewrite map_app. cbn [map]. replace (pid n =? id) with false by (symmetry; apply Z.eqb_neq; exact Hid).
    rewrite Hk, updNode_nil', (setKids_nil n Hk). f_equal. apply map_ext_in. intros x Hx. destruct (pid x =? id); [reflexivity|]. f_equal.
    pose proof (psize_le_fsize x l Hx). apply updNode_fuel; lia.
  Qed.
  Lemma removeId_app1 id l : pid n <> id ->
    removeId (fsize (l ++ [n])) id (l ++ [n]) = removeId (fsize l) id l ++ [n].
  Proof.
    intros Hid. rewrite (fsize_app1 l n Hk). destruct (fsize_S l) as (f & Ef). rewrite Ef.
    rewrite (removeId_S (S f)), (removeId_S f). rewrite (hasId_app1 id l n Hid). destruct (hasId id l).
    - rewrite filter_app. cbn [filter]. replace (pid n =? id) with false by (symmetry; apply Z.eqb_neq; exact Hid). reflexivity.
    - rewrite map_app. cbn [map]. rewrite Hk, removeId_nil', (setKids_nil n Hk). f_equal. apply map_ext_in. intros x Hx. f_equal.
      pose proof (psize_le_fsize x l Hx). apply removeId_fuel; lia.
  Qed.
  Lemma splitBeforeId_app_in c : forall l l2, In c (ids l) ->
    splitBeforeId (Some c) (l ++ l2) = (fst (splitBeforeId (Some c) l), snd (splitBeforeId (Some c) l) ++ l2).
  Proof.
    induction l as [|x l IH]; intros l2 Hi; [contradiction|]. cbn [app splitBeforeId]. destruct (Z.eqb_spec (pid x) c) as [E|E]; [reflexivity|].
    cbn [ids map] in Hi. destruct Hi as [Hi|Hi]; [contradiction|]. rewrite (IH l2 Hi). destruct (splitBeforeId (Some c) l). reflexivity.
  Qed.
  (* wrap: the start node is not at this level, or the end node follows it at this level *)
  Lemma wrapIn_app1 newId kind o c v pe0 pe1 l : pid n <> o ->
    (hasId o l = false \/ In c (ids (snd (splitAtId o l)))) ->
    wrapIn (fsize (l ++ [n])) newId kind o (Some c) (Some v) pe0 (l ++ [n]) = wrapIn (fsize l) newId kind o (Some c) (Some v) pe1 l ++ [n].
  Proof.
    intros Ho Hc. rewrite (fsize_app1 l n Hk). destruct (fsize_S l) as (f & Ef). rewrite Ef.
    rewrite (wrapIn_S (S f)), (wrapIn_S f). rewrite (hasId_app1 o l n Ho). destruct (hasId o l) eqn:Eh.
    - destruct Hc as [Hc|Hc]; [discriminate|]. unfold wrapLevel. apply hasId_In in Eh. rewrite (splitAtId_app_in o l [n] Eh).
      destruct (splitAtId o l) as [pre post]. cbn [fst snd] in *. rewrite (splitBeforeId_app_in c post [n] Hc).
      destruct (splitBeforeId (Some c) post) as [mid rest]. cbn [fst snd]. rewrite <- !app_assoc. reflexivity.
    - rewrite map_app. cbn [map]. rewrite Hk, wrapIn_nil', (setKids_nil n Hk). f_equal. apply map_ext_in. intros x Hx. f_equal.
      pose proof (psize_le_fsize x l Hx). apply wrapIn_fuel; lia.
  Qed.
  Lemma hdrs_app1 l : hdrs (l ++ [n]) = hdrs l ++ [(pid n, ps n, pe n)].
  Proof. rewrite hdrs_app. cbn [hdrs]. rewrite hdrN_eq, Hk. reflexivity. Qed.
  Lemma hfind_app1 id l : pid n <> id -> hfind id (hdrs (l ++ [n])) = hfind id (hdrs l).
  Proof.
    intros Hid. rewrite hdrs_app1, hfind_app. destruct (hfind id (hdrs l)); [reflexivity|]. cbn [hfind find]. unfold key. cbn [fst].
    replace (pid n =? id) with false by (symmetry; apply Z.eqb_neq; exact Hid). reflexivity.
  Qed.
End One.

Definition app1 (st : ist) (n : pn) : ist := setRk st (rk st ++ [n]).

Section St.
  Variable n : pn.
  Hypothesis Hk : pkids n = [].
  Lemma nodeOf_app1 st id : pid n <> id -> ps (nodeOf (app1 st n) id) = ps (nodeOf st id) /\ pe (nodeOf (app1 st n) id) = pe (nodeOf st id).
  Proof.
    intros Hid. unfold nodeOf. cbn [app1 rk setRk].
    pose proof (findNode_hfind id (fsize (rk st ++ [n])) (rk st ++ [n]) (le_n _)) as H1.
    pose proof (findNode_hfind id (fsize (rk st)) (rk st) (le_n _)) as H2. rewrite (hfind_app1 n Hk id (rk st) Hid), <- H2 in H1.
    destruct (findNode (fsize (rk st ++ [n])) id (rk st ++ [n])) as [a|]; destruct (findNode (fsize (rk st)) id (rk st)) as [b|]; cbn [option_map] in H1; try discriminate.
    - unfold hd1 in H1. inversion H1. cbv iota. split; congruence.
    - split; reflexivity.
  Qed.
  Lemma plen_app1 st id : pid n <> id -> plen (nodeOf (app1 st n) id) = plen (nodeOf st id).
  Proof. intros Hid. unfold plen. destruct (nodeOf_app1 st id Hid) as [-> ->]. reflexivity. Qed.
  Lemma updN_app1 st id g : pid n <> id -> updN (app1 st n) id g = app1 (updN st id g) n.
  Proof. intros Hid. unfold updN, app1. cbn [rk setRk]. rewrite (updNode_app1 n Hk id g (rk st) Hid). reflexivity. Qed.
  Lemma removeNode_app1 st id : pid n <> id -> removeNode (app1 st n) id = app1 (removeNode st id) n.
  Proof. intros Hid. unfold removeNode, app1. cbn [rk setRk]. rewrite (removeId_app1 n Hk id (rk st) Hid). reflexivity. Qed.
  Lemma setStk_app1 st v : setStk (app1 st n) v = app1 (setStk st v) n. Proof. reflexivity. Qed.
  Lemma wrap_app1 st kind o c : pid n <> o -> pid n <> c ->
    (hasId o (rk st) = false \/ In c (ids (snd (splitAtId o (rk st))))) ->
    wrap (app1 st n) kind o (Some c) = (app1 (fst (wrap st kind o (Some c))) n, nid st).
  Proof.
    intros Ho Hc Hf. unfold wrap. rewrite (proj1 (nodeOf_app1 st c Hc)).
    change (rk (app1 st n)) with (rk st ++ [n]). change (nid (app1 st n)) with (nid st). change (rootEnd (app1 st n)) with (rootEnd st).
    rewrite (wrapIn_app1 n Hk (nid st) kind o c (ps (nodeOf st c)) (rootEnd st) (rootEnd st) (rk st) Ho Hf). reflexivity.
  Qed.
End St.
