From Coq Require Import List ZArith Lia Bool.
Import ListNotations.
Require Import Base Tree Html LP Rules Link Inl3a Render.
Require GenConsts GenClassify.
Open Scope Z_scope.

(* Tie: constants of the stream layer. *)
Require Stream.
Lemma tie_stream :
  GenConsts.c_readline_chunkSize = Stream.chunkSize /\ GenConsts.c_readline_maxBlockSize = Stream.maxBlockSize.
Proof. repeat split; reflexivity. Qed.
Print Assumptions tie_stream.
