From Coq Require Import List ZArith Lia Bool.
Import ListNotations.
Require Import Base Tree Rdr Link.
Require Import ShapesR EntBase EntOcpDefs EntRdr1 EntRdr2 ShapesBase.
Open Scope Z_scope.

(* ================================================================================================
   The reader invariant T through every scanner of Link.v, and the analysis of readEOL.
   ================================================================================================ *)

Section Scan.
  Variables (src : bytes) (E : Z) (ik0 : list inline).
  Hypothesis HL : lines src E ik0.
  Hypothesis HE : E <= len src.

  Notation T := (T src ik0).
  Notation X := (X src ik0).
  Notation AtStart := (AtStart ik0).

  Lemma Q_current r : T r -> T (snd (current r)).
  Proof. apply T_current. Qed.
  Lemma Q_next r : T r -> T (snd (next r)).
  Proof. apply (T_next src E ik0 HL HE). Qed.

  Ltac step :=
    repeat match goal with
    | |- context [current ?r] => let H := fresh "Hc" in let c := fresh "c" in let r' := fresh "r" in
        match goal with Hr : T r |- _ => pose proof (Q_current r Hr) as H; destruct (current r) as [c r']; cbn [snd] in H end
    | |- context [next ?r] => let H := fresh "Hn" in let ok := fresh "ok" in let r' := fresh "r" in
        match goal with Hr : T r |- _ => pose proof (Q_next r Hr) as H; destruct (next r) as [ok r']; cbn [snd] in H end
    end.

  Lemma Q_skipLinkSpace_loop : forall fuel r, T r -> T (snd (skipLinkSpace_loop fuel r)).
  Proof.
    induction fuel as [|f IH]; intros r H; [exact H|]. cbn [skipLinkSpace_loop]. step.
    destruct (isSpaceTabOrLineEnding c); [|exact Hc]. step. destruct ok; [apply IH; assumption|assumption].
  Qed.
  Lemma Q_skipLinkSpace fuel r : T r -> T (snd (skipLinkSpace fuel r)).
  Proof. intros H. unfold skipLinkSpace. step. destruct (c =? 0); [assumption|apply Q_skipLinkSpace_loop; assumption]. Qed.
  Lemma Q_skipSpacesAndTabs : forall fuel r, T r -> T (snd (skipSpacesAndTabs fuel r)).
  Proof.
    induction fuel as [|f IH]; intros r H; [exact H|]. cbn [skipSpacesAndTabs]. step.
    destruct (isSpTab c); [|exact Hc]. step. destruct ok; [apply IH; assumption|assumption].
  Qed.
  Lemma Q_ll_skip : forall fuel r chars r' c', T r -> ll_skip fuel r chars = Some (r', c') -> T r'.
  Proof.
    induction fuel as [|f IH]; intros r chars r' c' H E0; [discriminate|]. cbn [ll_skip] in E0. revert E0. step.
    destruct (negb ok); [discriminate|]. step.
    destruct (_ || _ || _); [discriminate|]. destruct (negb _); [intros E0; inversion E0; subst; assumption|].
    intros E0. eapply IH; [|exact E0]. assumption.
  Qed.
  Lemma Q_ll_body : forall fuel r chars ie r' ie', T r -> ll_body fuel r chars ie = Some (r', ie') -> T r'.
  Proof.
    induction fuel as [|f IH]; intros r chars ie r' ie' H E0; [discriminate|]. cbn [ll_body] in E0. revert E0. step.
    destruct (negb _); [intros E0; inversion E0; subst; assumption|].
    destruct (c =? 92).
    - step. destruct (negb ok); [discriminate|]. step. destruct (negb ok0); [discriminate|]. intros E0. eapply IH; [|exact E0]. assumption.
    - step. destruct (negb ok); [discriminate|]. intros E0. eapply IH; [|exact E0]. assumption.
  Qed.
  Lemma Q_parseLinkLabel fuel r : T r -> T (snd (parseLinkLabel fuel r)).
  Proof.
    intros H. unfold parseLinkLabel. step. destruct (negb (c =? 91)); [assumption|].
    match goal with |- context [ll_skip fuel ?rr 0] => destruct (ll_skip fuel rr 0) as [[r2 chars]|] eqn:E1; [|assumption] end.
    pose proof (Q_ll_skip _ _ _ _ _ Hc E1) as H1.
    destruct (ll_body fuel r2 chars (-1)) as [[r3 ie]|] eqn:E2; [|assumption].
    pose proof (Q_ll_body _ _ _ _ _ _ H1 E2) as H2. step.
    destruct (negb (_ =? 93)); [assumption|]. step. assumption.
  Qed.
  Lemma Q_ld_angle : forall fuel r start, T r -> T (snd (ld_angle fuel r start)).
  Proof.
    induction fuel as [|f IH]; intros r start H; [exact H|]. cbn [ld_angle]. step.
    destruct (negb ok); [assumption|]. step. destruct (_ || _); [assumption|].
    destruct (c =? 92).
    - step. destruct (negb ok0); [assumption|]. step. destruct (_ || _); [assumption|apply IH; assumption].
    - destruct (c =? 62); [step; assumption|apply IH; assumption].
  Qed.
  Lemma Q_ld_bare : forall fuel r paren, T r -> T (ld_bare fuel r paren).
  Proof.
    induction fuel as [|f IH]; intros r paren H; [exact H|]. cbn [ld_bare]. step.
    destruct (_ || _); [assumption|].
    destruct (c =? 92).
    - step. destruct (negb ok); [assumption|]. step. destruct (_ || _); [assumption|]. step. destruct ok0; [apply IH|]; assumption.
    - destruct (c =? 40); [step; destruct ok; [apply IH|]; assumption|].
      destruct (c =? 41); [destruct (_ <? 0); [assumption|]; step; destruct ok; [apply IH|]; assumption|].
      step. destruct ok; [apply IH|]; assumption.
  Qed.
  Lemma Q_parseLinkDestination fuel r : T r -> T (snd (parseLinkDestination fuel r)).
  Proof.
    intros H. unfold parseLinkDestination. step. destruct (c =? 60); [apply Q_ld_angle; assumption|].
    destruct (_ && _ && _); [cbn [snd]; apply Q_ld_bare; assumption|assumption].
  Qed.
  Lemma Q_lt_loop : forall fuel r start term, T r -> T (snd (lt_loop fuel r start term)).
  Proof.
    induction fuel as [|f IH]; intros r start term H; [exact H|]. cbn [lt_loop]. step.
    destruct (negb ok); [assumption|]. step.
    destruct (c =? 92); [step; destruct (negb ok0); [assumption|apply IH; assumption]|].
    destruct (c =? term); [step; assumption|apply IH; assumption].
  Qed.
  Lemma Q_parseLinkTitle fuel r : T r -> T (snd (parseLinkTitle fuel r)).
  Proof. intros H. unfold parseLinkTitle. step. destruct (negb _); [assumption|apply Q_lt_loop; assumption]. Qed.

  (* ---- skipSpacesAndTabs returning false: the reader is exhausted (never: out of fuel inside a node) ---- *)
  Lemma sst_false : forall fuel r r1, T r -> (InNode r -> mu src r < Z.of_nat fuel) ->
    skipSpacesAndTabs fuel r = (false, r1) -> T r1 /\ X r1.
  Proof.
    induction fuel as [|f IH]; intros r r1 HT Hmu H.
    - cbn [skipSpacesAndTabs] in H. inversion H; subst r1. split; [exact HT|]. apply (T_X src ik0); [exact HT|].
      intros Hi. pose proof (Hmu Hi) as A. pose proof (mu_nonneg src r (proj1 HT) Hi) as B. cbn in A. lia.
    - cbn [skipSpacesAndTabs] in H.
      pose proof (T_current src ik0 r HT) as HT1. pose proof (next_current r) as En. pose proof (cur_current r) as Ecur.
      assert (Ec : cur r = fst (current r)) by reflexivity.
      destruct (current r) as [c r'] eqn:Ecr. cbn [snd fst] in *.
      destruct (isSpTab c).
      + rewrite En in H. destruct (next r) as [[|] r2] eqn:En2.
        * destruct (next_ok src ik0 r r2 HT En2) as (HT2 & _).
          apply (IH r2 r1 HT2); [|exact H]. intros _.
          pose proof (next_mu src r r2 (proj1 HT) En2) as A.
          pose proof (Hmu (next_true_InNode r r2 En2)) as B. lia.
        * inversion H; subst r1. apply (next_fail src E ik0 HL HE r r2 HT En2).
      + inversion H as [[Hc Hr]]. subst r1. apply negb_false_iff in Hc. apply Z.eqb_eq in Hc. rewrite Hc in Ec.
        pose proof (T_cur_zero src E ik0 HL HE r HT Ec) as Hx.
        pose proof (X_current src ik0 r Hx) as Q. rewrite Ecr in Q. cbn [snd] in Q. subst r'. split; assumption.
  Qed.

  (* ---- readEOL ---- *)
  Lemma rfuel_len : Z.of_nat (2 * length src + 10) = 2 * len src + 10.
  Proof. unfold len. lia. Qed.

  (* a line ending byte reported by the reader sits at the end of its node (or the reader is exhausted) *)
  Lemma eol_at r c : T r -> cur r = c -> (c = 10 \/ c = 13) ->
    at_ src (r_pos r) = c /\ 0 <= r_pos r < len src /\
    (X r \/ exists node, fst (curNode r) = Some node /\ In node ik0 /\ ikind node <> IndentKind /\
       (iend node = r_pos r + 1 \/ (c = 13 /\ iend node = r_pos r + 2 /\ at_ src (r_pos r + 1) = 10))).
  Proof.
    intros HT Hc Hcc. pose proof HT as ((Hs & _) & _ & _ & Hd).
    assert (Hsy : synth c = false) by (destruct Hcc as [Q|Q]; rewrite Q; reflexivity).
    destruct (cur_src r c Hc Hsy) as (A & B & C). rewrite Hs in *. split; [exact A|]. split; [exact B|].
    destruct Hd as [(node & Hn)|Hx]; [right|left; exact Hx].
    rewrite Hn in C. cbn [okind] in C.
    destruct (T_node src E ik0 HL HE r node HT Hn) as (Hin & Hh & _).
    exists node. split; [exact Hn|]. split; [exact Hin|]. split; [exact C|].
    pose proof (mem_unp src E ik0 HL node Hin C) as (_ & _ & _ & _ & _ & (_ & _ & _ & L & _) & _).
    pose proof (spanHas_range _ _ Hh) as (R1 & R2 & R3).
    assert (He : isEOLz (at_ src (r_pos r))) by (rewrite A; unfold isEOLz; lia).
    destruct (L (r_pos r) ltac:(lia) He) as [Q|(Q1 & Q2 & Q3)]; [left; lia|right].
    split; [lia|]. split; [lia|]. replace (r_pos r + 1) with (iend node - 1) by lia. exact Q3.
  Qed.

  Definition eolPost (e : Z) (r : reader) : Prop :=
    T r /\ bdy src e /\ e <= len src /\ (0 <= e -> AtStart r).

  Lemma X_post r : T r -> X r -> eolPost (r_pos r) r.
  Proof. intros HT (A & B & C & D & F). split; [exact HT|]. split; [exact C|]. split; [exact F|]. intros _. exact B. Qed.
  Lemma X_post_prev r : T r -> X r -> eolPost (r_prev r + 1) r.
  Proof. intros HT Hx. pose proof Hx as (A & B & C & D & F). rewrite D. apply X_post; assumption. Qed.

  (* stepping over the last byte of a line *)
  Lemma step_last r b r1 : T r -> next r = (b, r1) -> at_ src (r_pos r) <> 0 -> 0 <= r_pos r < len src ->
    (X r \/ exists node, fst (curNode r) = Some node /\ ikind node <> IndentKind /\ iend node = r_pos r + 1) ->
    eolPost (r_prev r1 + 1) r1.
  Proof.
    intros HT Hn Hz Hp [Hx|(node & Hnode & Hk & Hend)].
    - pose proof (X_notIn src ik0 r Hx) as Hni. destruct b; [exfalso; apply Hni; eapply next_true_InNode; exact Hn|].
      destruct (next_fail src E ik0 HL HE r r1 HT Hn) as (HT1 & Hx1). apply X_post_prev; assumption.
    - destruct (next_lastbyte src E ik0 HL HE r node b r1 HT Hnode Hk Hend Hn) as (HT1 & HA & Hprev & _).
      split; [exact HT1|]. rewrite Hprev. split; [right; right; replace (r_pos r + 1 - 1) with (r_pos r) by lia; exact Hz|].
      split; [lia|]. intros _. exact HA.
  Qed.

  Lemma readEOL_post r e r' : T r -> readEOL (2 * length src + 10) r = (e, r') -> eolPost e r'.
  Proof.
    intros HT H. unfold readEOL in H.
    destruct (skipSpacesAndTabs (2 * length src + 10) r) as [ok r1] eqn:Es.
    pose proof (Q_skipSpacesAndTabs (2 * length src + 10) r HT) as HT1. rewrite Es in HT1. cbn [snd] in HT1.
    destruct ok; cbn [negb] in H.
    2:{ inversion H; subst e r'.
        destruct (sst_false (2 * length src + 10) r r1 HT) as (_ & Hx); [intros Hi; rewrite rfuel_len; apply (T_mu src E ik0 HL HE r HT Hi)|exact Es|].
        apply X_post; assumption. }
    pose proof (T_current src ik0 r1 HT1) as HT2. pose proof (next_current r1) as En.
    assert (Ec : cur r1 = fst (current r1)) by reflexivity.
    destruct (current r1) as [c r2] eqn:Ecr. cbn [snd fst] in *.
    destruct (Z.eqb_spec c 13) as [Q13|Q13].
    - (* CR *)
      destruct (eol_at r1 c HT1 Ec ltac:(lia)) as (A & B & C). rewrite En in H.
      destruct (next r1) as [ok2 r3] eqn:En1.
      destruct C as [Hx|(node & Hnode & Hin & Hk & [Hend|(_ & Hend & Hlf)])].
      + (* exhausted reader *)
        pose proof (X_notIn src ik0 r1 Hx) as Hni. destruct ok2; [exfalso; apply Hni; eapply next_true_InNode; exact En1|].
        cbn [negb] in H. inversion H; subst e r'.
        apply (step_last r1 false r3 HT1 En1); [lia|exact B|left; exact Hx].
      + (* CR is the last byte of its node *)
        destruct (next_lastbyte src E ik0 HL HE r1 node ok2 r3 HT1 Hnode Hk Hend En1) as (HT3 & HA3 & Hprev & Hj).
        assert (Hpost : forall r4, T r4 -> r_prev r4 = r_prev r3 -> r_pos r4 = r_pos r3 -> eolPost (r_prev r4 + 1) r4).
        { intros r4 HT4 P1 P2. split; [exact HT4|]. rewrite P1, Hprev.
          split; [right; right; replace (r_pos r1 + 1 - 1) with (r_pos r1) by lia; lia|]. split; [lia|].
          intros _. eapply AtStart_pos; [exact P2|exact HA3]. }
        destruct ok2; cbn [negb] in H.
        * destruct (Hj eq_refl) as (j & Hjin & Hjc & Hjp).
          pose proof (T_current src ik0 r3 HT3) as HT4. destruct (current_fields r3) as (_ & F2 & _ & F4). cbv zeta in *.
          assert (Ec3 : cur r3 = fst (current r3)) by reflexivity.
          destruct (current r3) as [c2 r4] eqn:Ecr3. cbn [snd fst] in *.
          destruct (Z.eqb_spec c2 10) as [Q10|Q10].
          { exfalso. rewrite Q10 in Ec3. destruct (cur_src r3 10 Ec3 eq_refl) as (A3 & _ & C3).
            rewrite Hjc in C3. cbn [okind] in C3.
            pose proof (mem_unp src E ik0 HL j Hjin C3) as (_ & _ & _ & _ & _ & _ & Hne).
            destruct HT3 as ((Hs3 & _) & _). rewrite Hs3, Hjp in A3. apply Hne. left. exact A3. }
          inversion H; subst e r'. apply Hpost; assumption.
        * inversion H; subst e r'. apply Hpost; [exact HT3|reflexivity|reflexivity].
      + (* CR LF inside the node *)
        destruct (T_node src E ik0 HL HE r1 node HT1 Hnode) as (_ & Hh & _ & rest0 & Ec0 & _).
        destruct ok2; cbn [negb] in H.
        2:{ exfalso. destruct (next_false r1 r3 En1) as (_ & _ & F). destruct (F node Hnode) as (_ & _ & [G|G]); [contradiction|lia]. }
        destruct (next_ok src ik0 r1 r3 HT1 En1) as (HT3 & _).
        destruct (next_true r1 r3 En1) as (nd & rest & Ecn & _ & _ & _ & Ep & Hc).
        rewrite Ec0 in Ecn. inversion Ecn; subst nd rest0.
        destruct Hc as [(G & _)|[(_ & Hpos & Hlt & Hsp)|(pre' & j & rest' & _ & _ & _ & [G|G])]]; [contradiction| |contradiction|lia].
        assert (Hn3 : fst (curNode r3) = Some node).
        { rewrite (curNode_head node rest r3 Hsp); [reflexivity|]. pose proof (spanHas_range _ _ Hh). rewrite Hpos. apply spanHas_intro; lia. }
        pose proof HT3 as ((Hs3 & _) & _).
        pose proof (mem_entry src E ik0 HL HE node Hin) as (_ & _ & Hle).
        assert (Ecur3 : cur r3 = 10).
        { rewrite (cur_exact src r3 node Hs3 Hn3 Hk); rewrite Hpos; [exact Hlf|lia|rewrite Hlf; lia]. }
        pose proof (T_current src ik0 r3 HT3) as HT4. pose proof (next_current r3) as En3.
        assert (Ec3 : cur r3 = fst (current r3)) by reflexivity.
        destruct (current r3) as [c2 r4] eqn:Ecr3. cbn [snd fst] in *.
        destruct (Z.eqb_spec c2 10) as [Q10|Q10]; [|lia].
        rewrite En3 in H. destruct (next r3) as [b5 r5] eqn:En5. inversion H; subst e r'.
        apply (step_last r3 b5 r5 HT3 En5); [rewrite Hpos, Hlf; lia|rewrite Hpos; lia|].
        right. exists node. split; [exact Hn3|]. split; [exact Hk|lia].
    - destruct (Z.eqb_spec c 10) as [Q10|Q10].
      + (* LF *)
        destruct (eol_at r1 c HT1 Ec ltac:(lia)) as (A & B & C). rewrite En in H.
        destruct (next r1) as [b3 r3] eqn:En1. inversion H; subst e r'.
        apply (step_last r1 b3 r3 HT1 En1); [lia|exact B|].
        destruct C as [Hx|(node & Hnode & Hin & Hk & [Hend|(G & _)])]; [left; exact Hx| |lia].
        right. exists node. tauto.
      + inversion H; subst e r'. split; [exact HT2|]. split; [left; lia|]. split; [pose proof (len_nonneg src); lia|lia].
  Qed.
End Scan.
