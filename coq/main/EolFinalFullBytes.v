From Coq Require Import List ZArith Lia Bool.
Import ListNotations.
Require Import Base Tables Utf8 Tree Rdr Link Collect Html Recog Inl3a Inl3b Inl3c Inl3d Inl3e EolFinalDefs.
Require Import Rec16 Rec17.
Require EolFinalSimBytes.
Open Scope Z_scope.

(* C14 (i), final newline, inline pass: the byte-level functions of the tokeniser on a text and on the text followed by LF. *)
Lemma len_app10 (x : bytes) : len (x ++ [10]) = len x + 1. Proof. unfold len. rewrite app_length. cbn [length]. lia. Qed.
Lemma at_app10_in (x : bytes) i : 0 <= i < len x -> at_ (x ++ [10]) i = at_ x i. Proof. apply EolFinalSimBytes.at_app10_lt. Qed.
Lemma at_app10_end (x : bytes) : at_ (x ++ [10]) (len x) = 10. Proof. apply EolFinalSimBytes.at_app10_end. Qed.

(* ---- UTF-8 ---- *)
Lemma isCont10 : isCont 10 = false. Proof. reflexivity. Qed.
Lemma decodeRune_app10 l : l <> [] -> decodeRune (l ++ [10]) = decodeRune l.
Proof.
  intros Hne. destruct l as [|b0 r]; [congruence|]. cbn [app decodeRune]. destruct (b0 <? 128); [reflexivity|].
  destruct ((194 <=? b0) && (b0 <=? 223)); [destruct r as [|b1 r]; [cbn [app]; rewrite isCont10; reflexivity|reflexivity]|].
  destruct ((224 <=? b0) && (b0 <=? 239)).
  { destruct r as [|b1 [|b2 r]]; cbn [app]; try reflexivity. rewrite isCont10, andb_false_r. reflexivity. }
  destruct ((240 <=? b0) && (b0 <=? 244)); [|reflexivity].
  destruct r as [|b1 [|b2 [|b3 r]]]; cbn [app]; try reflexivity. rewrite isCont10, !andb_false_r. reflexivity.
Qed.

Section B.
Variable src : bytes.
Local Notation L := (len src).
Local Notation src2 := (src ++ [10]).

Lemma at2i p : 0 <= p < L -> at_ src2 p = at_ src p. Proof. apply at_app10_in. Qed.
Lemma upto2 s : s <= L -> upto src2 s = upto src s.
Proof. intros H. unfold upto. rewrite firstn_app. replace (Z.to_nat s - length src)%nat with O by (unfold len in H; lia). cbn [firstn]. apply app_nil_r. Qed.
Lemma from2 e : e <= L -> from_ src2 e = from_ src e ++ [10]. Proof. apply EolFinalSimBytes.from_app10. Qed.
Lemma sub2 a b : 0 <= a <= L -> b <= L -> sub src2 a b = sub src a b. Proof. apply EolFinalSimBytes.sub_app10. Qed.
Lemma sub2L a : 0 <= a <= L -> sub src2 a (L + 1) = sub src a L ++ [10].
Proof.
  intros Ha. unfold sub. rewrite (from2 a) by lia. unfold upto. rewrite firstn_all2 by (rewrite app_length; unfold from_; rewrite skipn_length; cbn [length]; unfold len in *; lia).
  rewrite firstn_all2 by (unfold from_; rewrite skipn_length; unfold len in *; lia). reflexivity.
Qed.

Lemma emphasisFlags_ext s e : 0 <= s < L -> s <= e <= L -> emphasisFlags src2 s e = emphasisFlags src s e.
Proof.
  intros Hs He. unfold emphasisFlags. cbv zeta. rewrite (upto2 s) by lia. rewrite (at2i s) by lia. rewrite len_app10.
  destruct (Z.ltb_spec e L) as [Lt|Ge].
  - replace (e <? L + 1) with true by (symmetry; apply Z.ltb_lt; lia). rewrite (from2 e) by lia.
    rewrite decodeRune_app10; [reflexivity|]. intros E. assert (Hl : len (from_ src e) = L - e) by (apply len_from; lia). rewrite E in Hl. change (len (@nil Z)) with 0 in Hl. lia.
  - assert (e = L) by lia. subst e. replace (L <? L + 1) with true by (symmetry; apply Z.ltb_lt; lia).
    rewrite (from2 L) by lia. rewrite (Rec16.from_nil src L) by lia. cbn [app decodeRune]. change (10 <? 128) with true. cbv iota. cbn [fst].
    change (isUnicodeWhitespace 10) with true. change (isUnicodeWhitespace 32) with true. change (isUnicodePunctuation 10) with false. change (isUnicodePunctuation 32) with false. reflexivity.
Qed.

(* ---- the simple scanning loops: the limit may move from L to L + 1, the fuels may differ ---- *)
Definition limOK (lim lim' : Z) : Prop := lim <= L /\ (lim' = lim \/ (lim = L /\ lim' = L + 1)).
Lemma runEnd_ext c : c <> 10 -> forall f f' e lim lim', limOK lim lim' -> 0 <= e -> lim - e <= Z.of_nat f -> lim - e <= Z.of_nat f' ->
  runEnd f' src2 e lim' c = runEnd f src e lim c.
Proof.
  intros Hc. induction f as [|f IH]; intros f' e lim lim' (Hl & Hl') He Hf Hf'.
  - destruct f' as [|f']; [reflexivity|]. cbn [runEnd]. destruct (Z.ltb_spec e lim') as [Lt|Ge]; [|reflexivity]. assert (e = L) by lia. subst e. rewrite at_app10_end.
    replace (10 =? c) with false by (symmetry; apply Z.eqb_neq; lia). reflexivity.
  - cbn [runEnd]. destruct (Z.ltb_spec e lim) as [Lt|Ge].
    + destruct f' as [|f']; [lia|]. cbn [runEnd]. replace (e <? lim') with true by (symmetry; apply Z.ltb_lt; lia). rewrite (at2i e) by lia. cbn [andb].
      destruct (at_ src e =? c); [|reflexivity]. apply IH; [split; assumption|lia|lia|lia].
    + cbn [andb]. destruct f' as [|f']; [reflexivity|]. cbn [runEnd]. destruct (Z.ltb_spec e lim') as [Lt'|Ge']; [|reflexivity]. assert (e = L) by lia. subst e. rewrite at_app10_end.
      replace (10 =? c) with false by (symmetry; apply Z.eqb_neq; lia). reflexivity.
Qed.
Lemma skipSpTab_ext : forall f f' e lim lim', limOK lim lim' -> 0 <= e -> lim - e <= Z.of_nat f -> lim - e <= Z.of_nat f' ->
  skipSpTab f' src2 e lim' = skipSpTab f src e lim.
Proof.
  induction f as [|f IH]; intros f' e lim lim' (Hl & Hl') He Hf Hf'.
  - destruct f' as [|f']; [reflexivity|]. cbn [skipSpTab]. destruct (Z.ltb_spec e lim') as [Lt|Ge]; [|reflexivity]. assert (e = L) by lia. subst e. rewrite at_app10_end. reflexivity.
  - cbn [skipSpTab]. destruct (Z.ltb_spec e lim) as [Lt|Ge].
    + destruct f' as [|f']; [lia|]. cbn [skipSpTab]. replace (e <? lim') with true by (symmetry; apply Z.ltb_lt; lia). rewrite (at2i e) by lia. cbn [andb].
      destruct (isSpTab (at_ src e)); [|reflexivity]. apply IH; [split; assumption|lia|lia|lia].
    + cbn [andb]. destruct f' as [|f']; [reflexivity|]. cbn [skipSpTab]. destruct (Z.ltb_spec e lim') as [Lt'|Ge']; [|reflexivity]. assert (e = L) by lia. subst e. rewrite at_app10_end. reflexivity.
Qed.
(* eolRun is only used inside a span that is not the last one: the limit is the same and below L *)
Lemma eolRun_ext : forall f f' e lim, lim <= L -> 0 <= e -> lim - e <= Z.of_nat f -> lim - e <= Z.of_nat f' -> eolRun f' src2 e lim = eolRun f src e lim.
Proof.
  induction f as [|f IH]; intros f' e lim Hl He Hf Hf'.
  - destruct f' as [|f']; [reflexivity|]. cbn [eolRun]. destruct (Z.ltb_spec e lim); [lia|reflexivity].
  - cbn [eolRun]. destruct (Z.ltb_spec e lim) as [Lt|Ge]; cbn [andb].
    + destruct f' as [|f']; [lia|]. cbn [eolRun]. replace (e <? lim) with true by (symmetry; apply Z.ltb_lt; lia). rewrite (at2i e) by lia. cbn [andb].
      destruct (_ || _); [|reflexivity]. apply IH; lia.
    + destruct f' as [|f']; [reflexivity|]. cbn [eolRun]. replace (e <? lim) with false by (symmetry; apply Z.ltb_ge; lia). reflexivity.
Qed.
End B.

(* ---- parseHardLineBreakSpace ---- *)
Lemma hlb_rest_app10 : forall r i, hlb_rest (r ++ [10]) i = (if snd (hlb_rest r i) then (fst (hlb_rest r i) + 1, true) else hlb_rest r i).
Proof.
  induction r as [|c r IH]; intros i; [reflexivity|]. cbn [app hlb_rest]. destruct (_ || _ || _); [apply IH|reflexivity].
Qed.
Lemma phlb_app10 x : hd 0 x = 32 ->
  parseHardLineBreakSpace (x ++ [10]) = (if snd (parseHardLineBreakSpace x) then (fst (parseHardLineBreakSpace x) + 1, true) else parseHardLineBreakSpace x).
Proof.
  intros H. destruct x as [|a [|b r]]; cbn [hd] in H; [discriminate|subst a; reflexivity|]. subst a. cbn [app].
  destruct (Z.eqb_spec b 32) as [->|N].
  - change (parseHardLineBreakSpace (32 :: 32 :: r ++ [10])) with (hlb_rest (r ++ [10]) 2). change (parseHardLineBreakSpace (32 :: 32 :: r)) with (hlb_rest r 2). apply hlb_rest_app10.
  - assert (E : forall t, parseHardLineBreakSpace (32 :: b :: t) = (1, false)).
    { intros t. unfold parseHardLineBreakSpace. destruct b as [|p|p]; try reflexivity. do 6 (destruct p as [p|p|]; try reflexivity). exfalso; apply N; reflexivity. }
    rewrite !E. reflexivity.
Qed.

(* ---- autolinks ---- *)
Lemma countWhile_app10 p x : p 10 = false -> countWhile p (x ++ [10]) = countWhile p x.
Proof. intros Hp. induction x as [|c r IH]; cbn [app countWhile]; [rewrite Hp; reflexivity|]. destruct (p c); [rewrite IH; reflexivity|reflexivity]. Qed.
Lemma dl_run_app10 t : forall f e, 0 <= e -> dl_run f (t ++ [10]) e = dl_run f t e.
Proof.
  induction f as [|f IH]; intros e He; [reflexivity|]. cbn [dl_run]. rewrite len_app10.
  destruct (Z.ltb_spec e (len t)) as [Lt|Ge].
  - replace (e <? len t + 1) with true by (symmetry; apply Z.ltb_lt; lia). rewrite at_app10_in by lia. destruct (_ && _ && _); [apply IH; lia|reflexivity].
  - rewrite andb_false_r. cbn [andb]. destruct (Z.ltb_spec e (len t + 1)) as [Lt2|Ge2]; [|rewrite andb_false_r; reflexivity].
    assert (e = len t) by lia. subst e. rewrite at_app10_end. rewrite andb_false_r. reflexivity.
Qed.
Lemma dl_run_bounds t : forall f e, 1 <= e <= len t -> 1 <= dl_run f t e <= len t.
Proof. induction f as [|f IH]; intros e He; [exact He|]. cbn [dl_run]. destruct (Z.ltb_spec e (len t)); [|rewrite andb_false_r; exact He]. destruct (_ && _ && _); [apply IH; lia|exact He]. Qed.
Lemma parseDomainLabel_app10 t : parseDomainLabel (t ++ [10]) = parseDomainLabel t.
Proof.
  unfold parseDomainLabel. rewrite len_app10. destruct t as [|a r].
  - reflexivity.
  - assert (Hl : 1 <= len (a :: r)) by (unfold len; cbn [length]; lia). replace (len (a :: r) + 1 <=? 0) with false by (symmetry; apply Z.leb_gt; lia).
    replace (len (a :: r) <=? 0) with false by (symmetry; apply Z.leb_gt; lia). rewrite (at_app10_in (a :: r) 0) by lia. cbn [orb].
    destruct (negb _); [reflexivity|]. cbv zeta. rewrite (dl_run_app10 (a :: r) 64 1) by lia.
    pose proof (dl_run_bounds (a :: r) 64 1 ltac:(lia)) as Hb. set (e := dl_run 64 (a :: r) 1) in *.
    rewrite (at_app10_in (a :: r) (e - 1)) by lia. destruct (_ =? 45); [reflexivity|].
    destruct (Z.ltb_spec e (len (a :: r))) as [Lt|Ge].
    + replace (e <? len (a :: r) + 1) with true by (symmetry; apply Z.ltb_lt; lia). rewrite (at_app10_in (a :: r) e) by lia. reflexivity.
    + assert (e = len (a :: r)) by lia. replace (e <? len (a :: r) + 1) with true by (symmetry; apply Z.ltb_lt; lia). rewrite H. rewrite at_app10_end. reflexivity.
Qed.
Lemma parseDomainLabel_pos t : 0 <= parseDomainLabel t -> 1 <= parseDomainLabel t <= len t.
Proof.
  unfold parseDomainLabel. destruct (Z.leb_spec (len t) 0); cbn [orb]; [lia|]. destruct (negb _); [lia|]. cbv zeta.
  pose proof (dl_run_bounds t 64 1 ltac:(lia)) as Hb. destruct (_ =? 45); [lia|]. destruct (_ && _); [lia|]. intros _. exact Hb.
Qed.
Lemma em_labels_fuel t : forall f1 f2 e, 0 <= e -> len t - e < Z.of_nat f1 -> len t - e < Z.of_nat f2 -> em_labels f1 t e = em_labels f2 t e.
Proof.
  induction f1 as [|f1 IH]; intros f2 e He H1 H2.
  - destruct f2 as [|f2]; [reflexivity|]. cbn [em_labels]. destruct (Z.ltb_spec e (len t)); [lia|reflexivity].
  - destruct f2 as [|f2].
    + cbn [em_labels]. destruct (Z.ltb_spec e (len t)); [lia|reflexivity].
    + cbn [em_labels]. destruct ((e <? len t) && (at_ t e =? 46)); [|reflexivity].
      destruct (Z.ltb_spec (parseDomainLabel (from_ t (e + 1))) 0) as [Ln|Ln]; [reflexivity|].
      pose proof (parseDomainLabel_pos _ Ln) as Hp. apply IH; lia.
Qed.
Lemma em_labels_app10 t : forall f e, 0 <= e -> em_labels f (t ++ [10]) e = em_labels f t e.
Proof.
  induction f as [|f IH]; intros e He; [reflexivity|]. cbn [em_labels]. rewrite len_app10.
  destruct (Z.ltb_spec e (len t)) as [Lt|Ge].
  - replace (e <? len t + 1) with true by (symmetry; apply Z.ltb_lt; lia). rewrite at_app10_in by lia. cbn [andb]. destruct (at_ t e =? 46); [|reflexivity].
    rewrite (EolFinalSimBytes.from_app10 t (e + 1)) by lia. rewrite parseDomainLabel_app10. destruct (Z.ltb_spec (parseDomainLabel (from_ t (e + 1))) 0) as [Ln|Ln]; [reflexivity|].
    pose proof (parseDomainLabel_pos _ Ln). apply IH. lia.
  - cbn [andb]. destruct (Z.ltb_spec e (len t + 1)) as [Lt2|Ge2]; [|reflexivity]. assert (e = len t) by lia. subst e. rewrite at_app10_end. reflexivity.
Qed.
Lemma countWhile_bounds p t : 0 <= countWhile p t <= len t.
Proof. induction t as [|c r IH]; [unfold len; cbn; lia|]. cbn [countWhile]. rewrite len_cons. destruct (p c); lia. Qed.
Lemma parseEmail_app10 t : parseEmail (t ++ [10]) = parseEmail t.
Proof.
  unfold parseEmail. cbv zeta. rewrite (countWhile_app10 isEmailLocal t) by reflexivity. pose proof (countWhile_bounds isEmailLocal t) as Hb. set (e := countWhile isEmailLocal t) in *.
  destruct (e =? 0); [reflexivity|]. rewrite len_app10.
  destruct (Z.leb_spec (len t) e) as [Le|Gt].
  - assert (e = len t) by lia. replace (len t + 1 <=? e) with false by (symmetry; apply Z.leb_gt; lia). replace (len t <=? e) with true by (symmetry; apply Z.leb_le; lia). rewrite H, at_app10_end. change (10 =? 64) with false. cbn [negb orb]. reflexivity.
  - replace (len t + 1 <=? e) with false by (symmetry; apply Z.leb_gt; lia). rewrite at_app10_in by lia. cbn [orb]. destruct (negb _); [reflexivity|].
    rewrite (EolFinalSimBytes.from_app10 t (e + 1)) by lia. rewrite parseDomainLabel_app10.
    destruct (Z.ltb_spec (parseDomainLabel (from_ t (e + 1))) 0) as [Ln|Ln]; [reflexivity|]. pose proof (parseDomainLabel_pos _ Ln) as Hp.
    rewrite em_labels_app10 by lia. rewrite len_from in Hp by lia. apply em_labels_fuel; [lia| |]; rewrite ?app_length; cbn [length]; unfold len in *; lia.
Qed.
Lemma al_uri_app10 : forall l e, al_uri (l ++ [10]) e = al_uri l e.
Proof. induction l as [|c r IH]; intros e; [reflexivity|]. cbn [app al_uri]. destruct (c =? 62); [reflexivity|]. destruct (_ || _ || _); [reflexivity|apply IH]. Qed.
Lemma al_uri_ge : forall l e, 0 <= al_uri l e -> In 62 l.
Proof.
  induction l as [|c r IH]; intros e H; [cbn in H; lia|]. cbn [al_uri] in H. destruct (Z.eqb_spec c 62) as [->|N]; [left; reflexivity|].
  destruct (_ || _ || _); [lia|]. right. apply (IH _ H).
Qed.
Lemma em_labels_ge t : forall f e, 0 <= em_labels f t e -> e <= em_labels f t e.
Proof.
  induction f as [|f IH]; intros e H; [cbn in *; lia|]. cbn [em_labels] in *. destruct (_ && _); [|lia].
  destruct (Z.ltb_spec (parseDomainLabel (from_ t (e + 1))) 0) as [Ln|Ln]; [lia|]. pose proof (parseDomainLabel_pos _ Ln) as Hp. specialize (IH _ H). lia.
Qed.
Lemma parseEmail_ge3 t : 0 <= parseEmail t -> 3 <= parseEmail t.
Proof.
  unfold parseEmail. cbv zeta. pose proof (countWhile_bounds isEmailLocal t) as Hb. destruct (Z.eqb_spec (countWhile isEmailLocal t) 0); [lia|].
  destruct (_ || _); [lia|]. destruct (Z.ltb_spec (parseDomainLabel (from_ t (countWhile isEmailLocal t + 1))) 0) as [Ln|Ln]; [lia|].
  pose proof (parseDomainLabel_pos _ Ln) as Hp. intros H. apply em_labels_ge in H. lia.
Qed.
Definition alCore (t : bytes) : Z :=
  let ee := parseEmail (from_ t 1) in
  if (0 <=? ee) && (1 + ee <? len t) && (at_ t (1 + ee) =? 62) then 2 + ee else
  if negb (isASCIILetter (at_ t 1)) then -1 else
  let e := 2 + countWhile isSchemeChar (from_ t 2) in
  if (e <? 3) || (33 <? e) then -1 else
  if (len t <=? e) || negb (at_ t e =? 58) then -1 else
  al_uri (from_ t (e + 1)) (e + 1).
Lemma parseAutolink_core t : parseAutolink t = if (len t <? 5) || negb (at_ t 0 =? 60) then -1 else alCore t.
Proof. reflexivity. Qed.
Lemma alCore_app10 t : 2 <= len t -> alCore (t ++ [10]) = alCore t.
Proof.
  intros Hl. unfold alCore. cbv zeta. rewrite len_app10. rewrite (EolFinalSimBytes.from_app10 t 1) by lia. rewrite parseEmail_app10. set (ee := parseEmail (from_ t 1)).
  assert (E1 : (0 <=? ee) && (1 + ee <? len t + 1) && (at_ (t ++ [10]) (1 + ee) =? 62) = (0 <=? ee) && (1 + ee <? len t) && (at_ t (1 + ee) =? 62)).
  { destruct (Z.leb_spec 0 ee) as [P|P]; cbn [andb]; [|reflexivity]. destruct (Z.ltb_spec (1 + ee) (len t)) as [A|A].
    - replace (1 + ee <? len t + 1) with true by (symmetry; apply Z.ltb_lt; lia). rewrite at_app10_in by lia. reflexivity.
    - cbn [andb]. destruct (Z.ltb_spec (1 + ee) (len t + 1)) as [B|B]; cbn [andb]; [|reflexivity]. assert (Ee : 1 + ee = len t) by lia. rewrite Ee, at_app10_end. reflexivity. }
  rewrite E1. clear E1. destruct ((0 <=? ee) && (1 + ee <? len t) && (at_ t (1 + ee) =? 62)); [reflexivity|]. rewrite (at_app10_in t 1) by lia. destruct (negb _); [reflexivity|].
  rewrite (EolFinalSimBytes.from_app10 t 2) by lia. rewrite (countWhile_app10 isSchemeChar) by reflexivity.
  pose proof (countWhile_bounds isSchemeChar (from_ t 2)) as Hc. rewrite len_from in Hc by lia. set (e := 2 + countWhile isSchemeChar (from_ t 2)) in *.
  destruct (_ || _); [reflexivity|].
  destruct (Z.leb_spec (len t) e) as [A|A]; cbn [orb].
  - destruct (Z.leb_spec (len t + 1) e) as [B|B]; cbn [orb]; [reflexivity|]. assert (Ee : e = len t) by lia. rewrite Ee, at_app10_end. reflexivity.
  - replace (len t + 1 <=? e) with false by (symmetry; apply Z.leb_gt; lia). rewrite at_app10_in by lia. cbn [orb]. destruct (negb _); [reflexivity|].
    rewrite (EolFinalSimBytes.from_app10 t (e + 1)) by lia. apply al_uri_app10.
Qed.
Lemma alCore_len4 t : len t = 4 -> alCore t = -1.
Proof.
  intros Hl. unfold alCore. cbv zeta. rewrite Hl. destruct (Z.leb_spec 0 (parseEmail (from_ t 1))) as [P|P]; cbn [andb].
  - pose proof (parseEmail_ge3 _ P). replace (1 + parseEmail (from_ t 1) <? 4) with false by (symmetry; apply Z.ltb_ge; lia). cbn [andb].
    destruct (negb _); [reflexivity|]. pose proof (countWhile_bounds isSchemeChar (from_ t 2)) as Hc. rewrite len_from in Hc by lia.
    set (e := 2 + countWhile isSchemeChar (from_ t 2)) in *. destruct (Z.ltb_spec e 3) as [A|A]; cbn [orb]; [reflexivity|]. destruct (33 <? e); [reflexivity|].
    destruct (Z.leb_spec 4 e) as [B|B]; cbn [orb]; [reflexivity|]. destruct (negb _); [reflexivity|]. assert (Ee : e = 3) by lia. rewrite Ee.
    rewrite (Rec16.from_nil t (3 + 1)) by lia. reflexivity.
  - destruct (negb _); [reflexivity|]. pose proof (countWhile_bounds isSchemeChar (from_ t 2)) as Hc. rewrite len_from in Hc by lia.
    set (e := 2 + countWhile isSchemeChar (from_ t 2)) in *. destruct (Z.ltb_spec e 3) as [A|A]; cbn [orb]; [reflexivity|]. destruct (33 <? e); [reflexivity|].
    destruct (Z.leb_spec 4 e) as [B|B]; cbn [orb]; [reflexivity|]. destruct (negb _); [reflexivity|]. assert (Ee : e = 3) by lia. rewrite Ee.
    rewrite (Rec16.from_nil t (3 + 1)) by lia. reflexivity.
Qed.
Lemma parseAutolink_app10 t : parseAutolink (t ++ [10]) = parseAutolink t.
Proof.
  rewrite !parseAutolink_core. rewrite len_app10. pose proof (len_nonneg t) as H0.
  destruct (Z.ltb_spec (len t) 5) as [Lt|Ge]; cbn [orb].
  - destruct (Z.ltb_spec (len t + 1) 5) as [Lt2|Ge2]; cbn [orb]; [reflexivity|]. assert (E4 : len t = 4) by lia.
    destruct (negb _); [reflexivity|]. rewrite alCore_app10 by lia. apply alCore_len4, E4.
  - replace (len t + 1 <? 5) with false by (symmetry; apply Z.ltb_ge; lia). cbn [orb]. rewrite (at_app10_in t 0) by lia. destruct (negb _); [reflexivity|apply alCore_app10; lia].
Qed.
