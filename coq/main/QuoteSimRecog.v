(* QuoteSimRecog.v -- T51: recognizer facts used by the relocation: the bytes a block start advances over are not line endings. *)
From Coq Require Import List ZArith Lia Bool.
Import ListNotations.
Require Import Base Recog Rec16 Rec17 Rec18 RecBounds.
Open Scope Z_scope.

(* the byte just before the content start of an ATX heading is a '#' or a space / tab *)
Lemma atx_prefix l lv cs ce : parseATXHeading l = (lv, cs, ce) -> 1 <= lv ->
  1 <= cs /\ cs - 1 < len l /\ (at_ l (cs - 1) = 35 \/ isSpTab (at_ l (cs - 1)) = true).
Proof.
  unfold parseATXHeading. cbv zeta. intros H Hlv.
  destruct (countWhile_spec (fun c => c =? 35) l) as (C1 & C2 & _). remember (countWhile (fun c => c =? 35) l) as level eqn:Elv.
  destruct ((level =? 0) || (6 <? level)) eqn:E0; [injection H as <- <- <-; lia|].
  apply orb_false_iff in E0. destruct E0 as [E0 _]. apply Z.eqb_neq in E0.
  assert (Hl1 : 1 <= level) by lia.
  assert (Hh : at_ l (level - 1) = 35) by (apply Z.eqb_eq; apply C2; lia).
  destruct ((len l <=? level) || (at_ l level =? 10) || (at_ l level =? 13)); [injection H as <- <- <-; repeat split; try lia; left; exact Hh|].
  destruct (negb (isSpTab (at_ l level))) eqn:Esp; [injection H as <- <- <-; lia|]. apply negb_false_iff in Esp.
  assert (Hlt : level < len l).
  { unfold at_ in Esp. destruct (level <? 0); [discriminate|].
    destruct (Z.lt_ge_cases level (len l)); [assumption|]. rewrite nth_overflow in Esp by (unfold len in *; lia). discriminate. }
  destruct (countWhile_spec isSpTab (from_ l (level + 1))) as (D1 & D2 & _). rewrite len_from in D1 by lia.
  remember (countWhile isSpTab (from_ l (level + 1))) as k eqn:Ek. remember (level + 1 + k) as start eqn:Est.
  assert (G : 1 <= start /\ start - 1 < len l /\ (at_ l (start - 1) = 35 \/ isSpTab (at_ l (start - 1)) = true)).
  { split; [lia|]. split; [lia|]. right. destruct (Z.eq_dec k 0) as [K0|K0].
    - replace (start - 1) with level by lia. exact Esp.
    - specialize (D2 (k - 1) ltac:(lia)). rewrite at_from in D2 by lia. replace (start - 1) with (level + 1 + (k - 1)) by lia. exact D2. }
  destruct (atx_scanBack (S (length l)) l start (len l)) as [e1 hit].
  destruct (negb hit); [injection H as <- <- <-; exact G|].
  destruct (atx_trailing (S (length l)) l start (e1 - 1)) as [e2 mode].
  destruct (mode =? 0); injection H as <- <- <-; exact G.
Qed.

(* a list marker: its last byte is the bullet or the delimiter *)
Lemma listMarker_last l d n e : parseListMarker l = (d, n, e) -> 0 <= e ->
  1 <= e /\ e <= len l /\ at_ l (e - 1) <> 10 /\ at_ l (e - 1) <> 32.
Proof.
  intros H He. pose proof (parseListMarker_sound l d n e H He) as S. destruct S as [c rest Hc Hs|ds d0 rest Hl Hd Hdl Hs].
  - rewrite len_cons. pose proof (len_nonneg rest). replace (1 - 1) with 0 by lia. rewrite at_cons0. repeat split; try lia; destruct Hc as [->|[->| ->]]; discriminate.
  - rewrite len_app, len_cons. pose proof (len_nonneg rest). pose proof (len_nonneg ds).
    replace (len ds + 1 - 1) with (len ds) by lia. rewrite at_app_r by lia. replace (len ds - len ds) with 0 by lia. rewrite at_cons0.
    repeat split; try lia; destruct Hdl as [-> | ->]; discriminate.
Qed.
