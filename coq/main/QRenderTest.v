From Coq Require Import List ZArith Lia Bool String Ascii.
Import ListNotations.
Require Import Base Tree LP Driver Inl3e Render SliceBase QuoteSimDefs QuoteSimTest QS2Test QFullDefs QRenderDefs.
Open Scope Z_scope.
Local Open Scope string_scope.
Definition docs3 : list string := [
  "a *b" ++ n ++ "c* d" ++ n; "[x](/u" ++ n ++ "'t" ++ n ++ "u')" ++ n; "`a" ++ n ++ "b`" ++ n; "a <b" ++ n ++ "c> d" ++ n; "<http://x.y> z" ++ n;
  "![a" ++ n ++ "b](/u)" ++ n; "[f]" ++ n ++ n ++ "[f]: /u 't'" ++ n; "[a" ++ n ++ "b][f]" ++ n ++ n ++ "[F]: /u" ++ n; "a  " ++ n ++ "b\" ++ n ++ "c" ++ n;
  "**a" ++ n ++ "_b_" ++ n ++ "c**" ++ n; "- [x](</a b>" ++ n ++ "  't')" ++ n; "&amp; &#35; \* x" ++ n; "a <!-- c" ++ n ++ "d --> e" ++ n; "``a" ++ n ++ " b`` c" ++ n;
  "[a]: /u" ++ n ++ "  'x" ++ n ++ "   y'" ++ n ++ n ++ "[a] and [a][] and [b][a]" ++ n; "# h *e*" ++ n ++ "t" ++ n ++ "===" ++ n; "1. a" ++ n ++ "   `b" ++ n ++ "   c`" ++ n;
  "> q *e" ++ n ++ "> f*" ++ n; "<div>" ++ n ++ "*x*" ++ n ++ n ++ "*y*" ++ n; "```" ++ n ++ "*c*" ++ n ++ "```" ++ n; "    *code*" ++ n ++ n ++ "p" ++ n;
  "[a](<b>) [c](d 'e') [f](g (h))" ++ n; "[![i](j)](k)" ++ n; "a<br/>b" ++ n ++ "<x y='z" ++ n ++ "w'>" ++ n; "*a" ++ n ++ n ++ "b*" ++ n; "[a" ++ n ++ n ++ "b](c)" ++ n;
  "\" ++ n ++ "x  " ++ n; "[a]: <b" ++ n ++ "c>" ++ n; "[a][b" ++ n ++ "c]" ++ n ++ n ++ "[b c]: /u" ++ n; "x `y" ++ n ++ n ++ "z`" ++ n;
  "a <?p" ++ n ++ "q" ++ n ++ "r?> b" ++ n; "a <![CDATA[x" ++ n ++ "y]]> b" ++ n; "a <!D x" ++ n ++ "y> b" ++ n; "a </b" ++ n ++ "  > c" ++ n; "- a <b" ++ n ++ "  c" ++ n ++ "  d='e'> f" ++ n;
  "a <b c=" ++ n ++ "'d" ++ n ++ "e'>" ++ n; "# *a*" ++ n ++ "## `b` [c](d) #" ++ n; "# a <b" ++ n; "### ![x](y 'z')";
  "[<a" ++ n ++ "b>]()" ++ n; "[a" ++ n ++ "b]()" ++ n; "![<a" ++ n ++ "b>](/u 'x" ++ n ++ "y')" ++ n; "3) x" ++ n ++ "4) y" ++ n; "``` a&amp;b c" ++ n ++ "x" ++ n ++ "```" ++ n;
  "<a@b.c> <http://x>" ++ n; "[x]: /u" ++ n ++ n ++ "![a *b* <c" ++ n ++ "d> `e`][x]" ++ n
].
Local Close Scope string_scope.
Definition alldocs := (docs ++ docs2 ++ docs3)%list.
Compute (List.length alldocs).
Compute (filter (fun s => negb (renderOK (s2b s))) alldocs).
Compute (filter (fun s => negb (lineOK (s2b s))) alldocs).
Require Import EolBounded.
(* exhaustive: all strings of length <= 5 over an alphabet with & # ; letters digits LF CR space [ ] ( ) ` < > *)
Definition A1 : bytes := [38; 35; 59; 97; 49; 10; 32].
Compute (List.length (filter (fun s => negb (lineOK s)) (allStr A1 5))).
Definition A2 : bytes := [38; 59; 97; 10; 13; 96; 91; 93; 40; 41].
Compute (List.length (filter (fun s => negb (lineOK s)) (allStr A2 4))).
Definition A3 : bytes := [38; 59; 97; 10; 96; 126; 91; 93; 58; 39].
Compute (List.length (filter (fun s => negb (lineOK s && renderOK s)) (allStr A3 4))).

(* the hypothesis of QRender.renderDoc_quote_of_parseFull is satisfiable, and the theorem applies *)
Require Import QRender.
Local Open Scope string_scope.
Definition Dex : bytes := s2b ("a *b" ++ n ++ "c* &amp; <x" ++ n ++ "y> d" ++ n ++ n ++ "[f]: /u 't" ++ n ++ "u'" ++ n ++ n ++ "1. [f] ![i](j)" ++ n ++ "```a&#35;" ++ n ++ "x" ++ n).
Local Close Scope string_scope.
Lemma Dex_tabFree : tabFree Dex.
Proof. unfold tabFree. apply Forall_forall. intros c Hc. vm_compute in Hc. repeat (destruct Hc as [<-|Hc]; [repeat split; discriminate|]). destruct Hc. Qed.
Lemma Dex_hyp : exists lb, parseFull (quote Dex) = ([quoteRoot Dex lb (quoteKids3 Dex (fst (parseFull Dex)))], 0).
Proof. exists false. vm_compute. reflexivity. Qed.
Example Dex_render : forall c, ignoreRaw c = true ->
  renderDoc c (quote Dex) = openTag c s_blockquote ++ List.concat (renderPieces c Dex) ++ closeTag c s_blockquote.
Proof. intros c Hc. apply renderDoc_quote_of_parseFull; [exact Hc|exact Dex_tabFree|discriminate|exact Dex_hyp]. Qed.
