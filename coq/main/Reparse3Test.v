From Coq Require Import List ZArith Lia Bool String Ascii.
Import ListNotations.
Require Import Base Tree Rdr LP Rules Starts Driver Props BSTest SliceReparse ReparseTest ReparseLocal ReparseEof BlankPrefix.
Open Scope Z_scope.

(* Sanity checks by computation of the statements of ReparseShift.shift_line, ReparseDecomp.line_decomp (in the form tested before
   the proof) and ReparseAfter.roots_after_lineCut_partial: the roots after the first one are the roots of the re-parse of the
   rest of the buffer (sources and block trees). *)
Definition kidsEqb (a b : list block) : bool := leqb (flat_map serB a) (flat_map serB b).
Definition shiftOK (src : bytes) (T : Z) : bool :=
  let '(k1, s1, p1) := processLine 0 [] T src in let '(k0, s0, p0) := processLine 0 [] 0 (from_ src T) in
  kidsEqb k1 (map (shiftB T) k0) && (s1 =? s0) && (p1 =? p0).
Definition suffixOK (d : bytes) : bool :=
  match lastLine (S (List.length d)) 0 [] 0 d with
  | Some (T, stp, [c]) =>
      match fst (parseBlocks d) with
      | r1 :: later =>
          let sub := fst (parseBlocks (from_ d T)) in
          (List.length later =? List.length sub)%nat &&
          forallb (fun ab => leqb (rb_src (fst ab)) (rb_src (snd ab)) && leqb (serB (rb_blk (fst ab))) (serB (rb_blk (snd ab)))) (combine later sub)
      | [] => false end
  | _ => false end.
Definition e1 := bs ("para" ++ nl ++ "# h" ++ nl ++ "rest" ++ nl).
Definition e2 := bs ("- a" ++ nl ++ nl ++ "para" ++ nl ++ "more" ++ nl ++ nl ++ "> q" ++ nl).
Definition e3 := bs ("> q" ++ nl ++ "***" ++ nl ++ "x" ++ nl).
Definition e4 := bs ("    code" ++ nl ++ "- item" ++ nl ++ "  cont" ++ nl).
Eval vm_compute in (map suffixOK [e1; e2; e3; e4], map (fun d => shiftOK d 5) [e1; e2; e3; e4]).
