From Coq Require Import List ZArith Lia Bool.
Import ListNotations.
Require Import Base Tree Rdr Link Collect Html Recog LP Rules Starts Driver Render L2Kind L2CC GramDefs GramTree GramLP GramLP2 GramLP3.
Require L2Kind2.
Open Scope Z_scope.

Ltac chaing H :=
  repeat match goal with
  | |- GI (consumeLine _) => apply GI_consumeLine
  | |- GI (endBlock _) => apply GI_endBlock
  | |- GI (advance _ _) => apply GI_advance
  | |- GI (consumeIndent _ _) => apply GI_consumeIndent
  | |- GI (openBlock _ _) => apply GI_openBlock; [|discriminate|discriminate|intros; reflexivity]
  | |- GI (updCont _ (fun b => set_bindent b _)) => apply GI_updCont_bindent
  end;
  try exact H.

Lemma contBlock_openBlock_init p K g : st_open p -> GI p -> (K <> ListItemKind \/ canContain (containerKind p) K = true) ->
  contBlock (updCont (openBlock p K) g) = g (newBlock K (obPos p K)).
Proof.
  intros Hs H Hk. destruct (GI_obPre p K H Hk) as [H3 _]. destruct (GI_wf _ H3) as (x0 & Hx0 & _).
  unfold contBlock. rewrite cdepth_updCont, root_updCont, (cdepth_openBlock p K Hs), (root_openBlock p K Hs), updAt_S_append.
  pose proof (getAt_S_append_some (g (newBlock K (obPos p K))) (cdepth (obPre p K)) (root (obPre p K)) x0 Hx0) as Hga.
  change (getAt (S (cdepth (obPre p K))) (updAt (cdepth (obPre p K)) (appendB (g (newBlock K (obPos p K)))) (root (obPre p K)))
          = Some (g (newBlock K (obPos p K)))) in Hga.
  rewrite Hga. reflexivity.
Qed.

Lemma GI_startListItem p : st_open p -> GI p -> GI (startListItem p).
Proof.
  intros Hs H. unfold startListItem. cbv zeta. destruct (_ <=? _); [assumption|].
  destruct (parseListMarker _) as [[delim n] mend]. destruct (_ || _); [assumption|]. destruct (_ && _); [assumption|].
  set (p1 := consumeIndent p (indent p)).
  assert (H1 : GI p1) by (apply GI_consumeIndent, H). assert (S1 : st_open p1) by (apply st_open_consumeIndent, Hs).
  set (cdelim := if (containerKind p1 =? ListKind) || (containerKind p1 =? ListItemKind) then bchar (contBlock p1) else 0).
  set (p2 := if negb (containerKind p1 =? ListKind) || negb (cdelim =? delim) then _ else p1).
  assert (H2 : GI p2 /\ st_open p2 /\ containerKind p2 = ListKind /\ bchar (contBlock p2) = delim).
  { unfold p2. destruct (negb (containerKind p1 =? ListKind) || negb (cdelim =? delim)) eqn:Ec.
    - assert (Hq : GI (updCont (openBlock p1 ListKind) (fun b => set_bchar b delim))).
      { apply GI_openBlock_init; [exact S1|exact H1|discriminate|discriminate|]. intros pos. repeat split; reflexivity. }
      split; [exact Hq|]. split; [apply st_open_updCont, L2Kind2.st_open_openBlock, S1|]. split.
      + apply containerKind_of; [apply Hq|].
        apply ckind_updCont; [intros b; apply bkind_set_bchar|]. apply ckind_openBlock, S1.
      + rewrite contBlock_openBlock_init; [reflexivity|exact S1|exact H1|left; discriminate].
    - apply orb_false_iff in Ec. destruct Ec as [Ec1 Ec2]. apply negb_false_iff in Ec1, Ec2.
      split; [exact H1|]. split; [exact S1|]. split; [apply Z.eqb_eq, Ec1|].
      unfold cdelim in Ec2. rewrite Ec1 in Ec2. cbn [orb] in Ec2. apply Z.eqb_eq, Ec2. }
  destruct H2 as (H2 & S2 & K2 & B2).
  pose proof (GI_openItemMarker p2 delim S2 H2 K2 B2) as H3.
  match goal with |- context [endBlock ?X] => assert (H4 : GI (endBlock X)) by (apply GI_endBlock, GI_advance; exact H3) end.
  match goal with |- context [endBlock ?X] => set (q := endBlock X) in * end.
  destruct (isRestBlank q); [chaing H4|].
  destruct (indent q <? 1); [cbv beta iota; chaing H4|]. destruct (4 <? indent q); cbv beta iota; chaing H4.
Qed.

Definition startOKg (f : lp -> lp) : Prop := forall p, st_open p -> GI p -> GI (f p).
Lemma blockStarts_okg : Forall startOKg blockStarts.
Proof.
  unfold blockStarts.
  apply Forall_cons; [intros p Hs H; apply GI_startBlockQuote; assumption|].
  apply Forall_cons; [intros p Hs H; apply GI_startATX; assumption|].
  apply Forall_cons; [intros p Hs H; apply GI_startFenced; assumption|].
  apply Forall_cons; [intros p Hs H; apply GI_startHTML; assumption|].
  apply Forall_cons; [intros p Hs H; apply GI_startSetext; assumption|].
  apply Forall_cons; [intros p Hs H; apply GI_startThematic; assumption|].
  apply Forall_cons; [intros p Hs H; apply GI_startListItem; assumption|].
  apply Forall_cons; [intros p Hs H; apply GI_startIndented; assumption|].
  apply Forall_nil.
Qed.
Lemma GI_tryStarts : forall fs p, Forall startOKg fs -> GI p -> GI (snd (tryStarts fs p)).
Proof.
  induction fs as [|f r IH]; intros p Hfs H; [assumption|]. cbn [tryStarts]. cbv zeta. inversion Hfs as [|? ? Hf Hr]; subst.
  assert (H1 : GI (f (withState p stOpening))).
  { apply Hf; [left; reflexivity|]. apply (GI_same p); [split; reflexivity|exact H]. }
  destruct (_ || _); [assumption|]. apply IH; assumption.
Qed.
Lemma GI_opening_loop : forall fuel p, GI p -> GI (snd (opening_loop fuel p)).
Proof.
  induction fuel as [|f IH]; intros p H; [assumption|]. cbn [opening_loop].
  destruct (_ || _); [|assumption].
  pose proof (GI_tryStarts blockStarts p blockStarts_okg H) as H1. destruct (tryStarts blockStarts p) as [[|] p1]; cbn [snd] in H1.
  - destruct (_ =? stLineConsumed); [assumption|apply IH; assumption].
  - assumption.
Qed.
Lemma GI_deferredClose p : GI p -> GI (deferredClose p).
Proof.
  intros H. unfold deferredClose. cbv zeta.
  destruct (negb (isRestBlank p) && _); [|apply GI_closeHere, H].
  apply GI_withCont; [exact H|]. apply so_tip. destruct H as (_ & _ & C). eapply so_open. exact C.
Qed.

(* the weaker, tree-only half that survives the end of the input *)
Definition GW (p : lp) : Prop := ccP p /\ gb (root p) = true.
Lemma GI_GW p : GI p -> GW p. Proof. intros (A & B & _). split; assumption. Qed.

Lemma GI_openNewBlocks p am : GI p ->
  GW (snd (openNewBlocks p am)) /\ (fst (openNewBlocks p am) = true -> GI (snd (openNewBlocks p am))).
Proof.
  intros H. pose proof (ccP_openNewBlocks p am (proj1 H)) as Hc. revert Hc. unfold openNewBlocks. destruct (_ =? 0).
  - cbn [snd fst]. intros Hc. split; [|discriminate]. split; [exact Hc|]. cbn [root withCont withRoot setLP].
    destruct H as (_ & B & _).
    destruct (gb_closeBlock (source p) (lineStart p) (bheight (root p)) (root p) B) as [Hg _].
    destruct (closeBlock _ _ _ _) as [|b r]; [exact B|]. unfold gbL in Hg. cbn [forallb] in Hg. apply andb_true_iff in Hg. tauto.
  - pose proof (GI_opening_loop (S (length (line p))) p H) as H1. destruct (opening_loop _ p) as [ht p1]. cbn [snd] in H1.
    intros _. destruct am; cbn [snd fst].
    + split; [apply GI_GW, H1|intros _; exact H1].
    + pose proof (GI_deferredClose p1 H1) as H2. split; [apply GI_GW, H2|intros _; exact H2].
Qed.

(* ---- addLineText ---- *)
Lemma sameAs_set_blast x v : sameAs x (set_blast x v).
Proof. destruct x. split; [reflexivity|intros _; split; reflexivity]. Qed.
Lemma isOpen_set_blast x v : isOpen (set_blast x v) = isOpen x. Proof. destruct x; reflexivity. Qed.

Lemma GI_setLastBlank p v : GI p -> forall d, GI (withRoot p (setLastBlankUpTo d v (root p))).
Proof.
  intros (A & B & C) d.
  assert (G : forall d rt, gb rt = true -> gb (setLastBlankUpTo d v rt) = true).
  { assert (Step : forall d rt, gb rt = true -> gb (updAt d (fun b => set_blast b v) rt) = true).
    { intros d0 rt Hr. apply (gb_updAt_at (fun b => set_blast b v) d0 rt Hr). intros x _ Hx. rewrite gb_set_blast.
      split; [exact Hx|left; apply sameAs_set_blast]. }
    induction d0 as [|d0 IH]; intros rt Hr; cbn [setLastBlankUpTo]; [apply Step, Hr|]. apply IH, Step, Hr. }
  assert (S : forall d k rt, so k (setLastBlankUpTo d v rt) = so k rt).
  { assert (Hk : forall x, isOpen (set_blast x v) = isOpen x /\ bkids (set_blast x v) = bkids x)
      by (intros x; destruct x; split; reflexivity).
    induction d0 as [|d0 IH]; intros k rt; cbn [setLastBlankUpTo]; [apply (so_updAt_keep _ Hk)|].
    rewrite IH. apply (so_updAt_keep _ Hk). }
  destruct A as (A1 & A2 & A3).
  destruct (cc_setLastBlankUpTo v d (root p) (cdepth p) A2 A3) as (A' & B' & C').
  split; [|split].
  - unfold ccP, wf, cdepth. cbn [root container withRoot setLP]. fold (cdepth p). split; [rewrite B'; exact A1|split; [exact A'|exact C']].
  - cbn [root withRoot setLP]. apply G, B.
  - cbn [root container cdepth withRoot setLP]. fold (cdepth p). rewrite S. exact C.
Qed.

Lemma GI_go q : GI q -> nikK (containerKind q) = false ->
  GI (let k := containerKind q in
      let inlineKind := if isCode k then TextKind else if k =? HTMLBlockKind then RawHTMLKind else UnparsedKind in
      let q' := updCont q (fun b => set_bik b (bik b ++ [mkI inlineKind (lineStart q + li q) (lineStart q + len (line q))])) in
      if isCode k && negb (hasByteSuffixEOL (line q')) then
        updCont q' (fun b => set_bik b (bik b ++ [mkI SoftLineBreakKind (lineStart q' + len (line q')) (lineStart q' + len (line q'))]))
      else q').
Proof.
  intros Hq Hn. cbv zeta.
  set (q' := updCont q _).
  assert (Hq' : GI q') by (apply (GI_updCont_ik q (fun b => bik b ++ [_]) (containerKind q)); [exact Hq|apply ckind_self|exact Hn]).
  assert (Cq' : ckind q' (containerKind q)) by (apply ckind_updCont; [intros b; apply bkind_set_bik|apply ckind_self]).
  destruct (_ && _); [|exact Hq'].
  apply (GI_updCont_ik q' (fun b => bik b ++ [_]) (containerKind q)); assumption.
Qed.

Lemma acceptsLines_nik K : acceptsLines K = true -> nikK K = false.
Proof.
  unfold acceptsLines, nikK. intros H.
  destruct (Z.eqb_spec K ListMarkerKind) as [E|N1]; [subst K; discriminate|].
  destruct (Z.eqb_spec K ThematicBreakKind) as [E|N2]; [subst K; discriminate|].
  destruct (Z.eqb_spec K LinkReferenceDefinitionKind) as [E|N3]; [subst K; discriminate|]. reflexivity.
Qed.

Lemma GI_addLineText p : GI p -> (acceptsLines (containerKind p) = false -> st_open p) -> GI (addLineText p).
Proof.
  intros H Hst. unfold addLineText. cbv zeta.
  set (p1 := if isRestBlank p then _ else p).
  assert (H1 : GI p1).
  { unfold p1. destruct (isRestBlank p); [|assumption]. apply GI_updCont; [assumption| |].
    - intros b _ Hcb Hgb. destruct (lastBlock b) as [c|] eqn:El; [|split; [exact Hcb|split; [exact Hgb|apply sameAs_refl]]].
      split; [|split; [|apply sameAs_set_lastBlocks]].
      + eapply cc_set_lastBlocks; [exact Hcb|exact El|]. constructor; [|constructor].
        rewrite cc_set_blast, bkind_set_blast. split; [eapply cc_lastBlock; eassumption|apply compat_refl].
      + eapply gb_set_lastBlocks; [exact Hgb|exact El|]. apply okRepl_one; [|left; apply sameAs_set_blast].
        rewrite gb_set_blast. eapply gb_lastBlock; eassumption.
    - intros b. destruct (lastBlock b); [apply isOpen_set_lastBlocks|reflexivity]. }
  assert (K1 : containerKind p1 = containerKind p).
  { unfold p1. destruct (isRestBlank p); [|reflexivity]. apply L2Kind2.containerKind_updCont.
    intros b. destruct (lastBlock b); [destruct b; reflexivity|reflexivity]. }
  assert (S1 : state p1 = state p) by (unfold p1; destruct (isRestBlank p); reflexivity).
  set (p2 := withRoot p1 _).
  assert (H2 : GI p2) by (apply GI_setLastBlank, H1).
  assert (K2 : containerKind p2 = containerKind p).
  { rewrite <- K1. unfold containerKind, contBlock, p2, cdepth. cbn [root container withRoot setLP]. fold (cdepth p1).
    match goal with |- bkind (match getAt ?k (setLastBlankUpTo ?d ?v ?r) with _ => _ end) = _ =>
      pose proof (L2Kind2.kindAt_setLastBlankUpTo v d k r) as E end.
    destruct (getAt (cdepth p1) (setLastBlankUpTo _ _ _)); destruct (getAt (cdepth p1) (root p1)); cbn in E; try congruence; reflexivity. }
  assert (S2 : state p2 = state p) by exact S1.
  change (bkind (contBlock p1)) with (containerKind p1). rewrite K1.
  destruct (acceptsLines (containerKind p)) eqn:Ea.
  - apply GI_go.
    + match goal with |- GI (if ?c then _ else _) => destruct c end; [|exact H2].
      apply GI_consumeIndent. apply (GI_updCont_ik p2 (fun b => bik b ++ [_]) (containerKind p2)); [exact H2|apply ckind_self|].
      rewrite K2. apply acceptsLines_nik, Ea.
    + apply acceptsLines_nik.
      match goal with |- acceptsLines (containerKind (if ?c then _ else _)) = true => destruct c end; [|rewrite K2; exact Ea].
      rewrite (containerKind_same _ _ (same_consumeIndent _ _)), L2Kind2.containerKind_updCont, K2; [exact Ea|]. intros b. apply bkind_set_bik.
  - match goal with |- GI (if ?c then _ else _) => destruct c end; [|exact H2].
    assert (So : st_open p2) by (unfold st_open; rewrite S2; exact (Hst eq_refl)).
    apply GI_go; [apply GI_consumeIndent; chaing H2|].
    assert (Ck : ckind (consumeIndent (openBlock p2 ParagraphKind) (indent (openBlock p2 ParagraphKind))) ParagraphKind).
    { eapply ckind_same; [apply same_consumeIndent|]. apply ckind_openBlock, So. }
    unfold containerKind, contBlock.
    match goal with |- nikK (bkind (match getAt ?d ?r with _ => _ end)) = false => destruct (getAt d r) as [x|] eqn:Ex end;
      [rewrite (Ck x Ex); reflexivity|reflexivity].
Qed.

(* ---- one line ---- *)
Theorem gb_processLine st children ls src : ccF children = true -> gbL children = true ->
  gbL (fst (fst (processLine st children ls src))) = true.
Proof.
  intros Hc Hg. unfold processLine. cbv zeta.
  assert (H0 : GI (resetLP st children ls src)).
  { split; [|split].
    - unfold ccP, wf, resetLP, cdepth. cbn [root container]. split; [reflexivity|split; [exact Hc|eexists; reflexivity]].
    - unfold resetLP. cbn [root]. apply gb_intro; [reflexivity|exact Hg].
    - reflexivity. }
  pose proof (GI_descend_loop (bheight (root (resetLP st children ls src))) _ O H0 eq_refl) as H1.
  fold (descendOpenBlocks (resetLP st children ls src)) in H1.
  destruct (descendOpenBlocks _) as [am p1]. cbn [snd] in H1.
  assert (H2 : GW (snd (if negb (state p1 =? stDescendTerminated) then openNewBlocks p1 am else (false, p1))) /\
               (fst (if negb (state p1 =? stDescendTerminated) then openNewBlocks p1 am else (false, p1)) = true ->
                GI (snd (if negb (state p1 =? stDescendTerminated) then openNewBlocks p1 am else (false, p1))) /\
                L2Kind2.goodSt (snd (if negb (state p1 =? stDescendTerminated) then openNewBlocks p1 am else (false, p1))))).
  { destruct (negb _).
    - destruct (GI_openNewBlocks p1 am H1) as [A B]. split; [exact A|]. intros Ht. split; [apply B, Ht|apply L2Kind2.openNewBlocks_good, Ht].
    - split; [apply GI_GW, H1|cbn; discriminate]. }
  destruct (if negb (state p1 =? stDescendTerminated) then openNewBlocks p1 am else (false, p1)) as [ht p2]. cbn [fst snd] in H2.
  destruct H2 as [H2 G2]. cbn [fst].
  assert (H3 : GW (if ht then addLineText p2 else p2)).
  { destruct ht; [|exact H2]. destruct (G2 eq_refl) as [A B]. apply GI_GW, GI_addLineText; [exact A|exact B]. }
  destruct H3 as [_ H3]. apply gb_parts in H3. tauto.
Qed.
