From Coq Require Import List ZArith Lia Bool.
Import ListNotations.
Require Import Base Tree LP Rules Starts Driver Rec17 Rec18 Cursor L2Bnd L2BndS L2CC StreamFuel BlankPrefix TDefs Total TilBase SliceBase SliceReparse
  ReparseDefs ReparseLocal ReparseFirst ReparseRun.
Open Scope Z_scope.

(* ================= roots cut at the start of the line that closed them: the re-parse closes them by end of input =================
   The exact reduction: with (st, ch) the state of the line loop before the closing line (which starts at T), the re-parse of
   the root's Source is the run on the same lines followed by end of input, i.e. its block is the one of StreamFuel.eofK st ch T.
   C16 for such a root is therefore the statement "closing by end of input = closing by the following line" for ONE line. *)

(* the state of the line loop at the start of the line where the cut happens *)
Fixpoint lastLine (fuel : nat) (st : Z) (ch : list block) (ls : Z) (B : bytes) : option (Z * Z * list block) :=
  match fuel with
  | O => None
  | S f =>
    let bi := lineEnd B ls in
    let '(ch', st', pn) := processLine st ch ls (upto B bi) in
    if negb (pn =? 0) then None else
    match ch' with
    | b :: rest => if isOpen b then lastLine f st' ch' bi B else Some (ls, st, ch)
    | [] => lastLine f st' ch' bi B
    end
  end.

Lemma lastLine_cutOf : forall f st ch ls B b rest bij st', cutOf f st ch ls B = Some (b, rest, bij, st') ->
  exists T stp chp, lastLine f st ch ls B = Some (T, stp, chp) /\ bij = lineEnd B T /\
    processLine stp chp T (upto B bij) = (b :: rest, st', 0).
Proof.
  induction f as [|f IH]; intros st ch ls B b rest bij st' E; [discriminate|]. cbn [cutOf lastLine] in *. cbv zeta in *.
  destruct (processLine st ch ls (upto B (lineEnd B ls))) as [[ch' st1] pn] eqn:Ep.
  destruct (Z.eqb_spec pn 0) as [E0|N0]; cbn [negb] in *; [|discriminate]. subst pn.
  destruct ch' as [|b0 rest0]; [apply IH, E|]. destruct (isOpen b0); [apply IH, E|].
  inversion E; subst. exists ls, st, ch. split; [reflexivity|]. split; [reflexivity|exact Ep].
Qed.

Lemma lastLine_bounds : forall f st ch ls B T stp chp, 0 <= ls <= len B -> lastLine f st ch ls B = Some (T, stp, chp) -> ls <= T <= len B.
Proof.
  induction f as [|f IH]; intros st ch ls B T stp chp Hls E; [discriminate|]. cbn [lastLine] in E. cbv zeta in E.
  destruct (lineEnd_spec B ls Hls) as [A _].
  destruct (processLine st ch ls (upto B (lineEnd B ls))) as [[ch' st1] pn]. destruct (negb (pn =? 0)); [discriminate|].
  assert (Hrec : lastLine f st1 ch' (lineEnd B ls) B = Some (T, stp, chp) -> ls <= T <= len B).
  { intros E'. pose proof (IH st1 ch' (lineEnd B ls) B T stp chp ltac:(lia) E'). lia. }
  destruct ch' as [|b0 rest0]; [exact (Hrec E)|]. destruct (isOpen b0); [exact (Hrec E)|]. inversion E; subst. lia.
Qed.

(* the run on the buffer cut at T arrives at T in the same state *)
Lemma lineLoop_to_T : forall f st ch ls B T stp chp bo bl pd, 0 <= ls <= len B -> lastLine f st ch ls B = Some (T, stp, chp) ->
  exists g, (0 < g)%nat /\
    lineLoop f st ch ls {| buf := upto B T; bi := lineEnd (upto B T) ls; boff := bo; bline := bl; pending := pd |} =
    lineLoop g stp chp T {| buf := upto B T; bi := T; boff := bo; bline := bl; pending := pd |}.
Proof.
  induction f as [|f IH]; intros st ch ls B T stp chp bo bl pd Hls E; [discriminate|].
  pose proof (lastLine_bounds _ _ _ _ _ _ _ _ Hls E) as HT.
  assert (HlA : len (upto B T) = T) by (apply len_upto; lia).
  cbn [lastLine] in E. cbv zeta in E.
  destruct (lineEnd_spec B ls Hls) as [A1 _].
  destruct (processLine st ch ls (upto B (lineEnd B ls))) as [[ch' st1] pn] eqn:Ep.
  destruct (Z.eqb_spec pn 0) as [E0|N0]; cbn [negb] in E; [|discriminate]. subst pn.
  assert (Hcont : lastLine f st1 ch' (lineEnd B ls) B = Some (T, stp, chp) -> makeRoot ch' {| buf := upto B T; bi := lineEnd B ls; boff := bo; bline := bl; pending := pd |} = None ->
    exists g, (0 < g)%nat /\
      lineLoop (S f) st ch ls {| buf := upto B T; bi := lineEnd (upto B T) ls; boff := bo; bline := bl; pending := pd |} =
      lineLoop g stp chp T {| buf := upto B T; bi := T; boff := bo; bline := bl; pending := pd |}).
  { intros E' Hm. pose proof (lastLine_bounds f st1 ch' (lineEnd B ls) B T stp chp ltac:(lia) E') as HT'.
    destruct (IH st1 ch' (lineEnd B ls) B T stp chp bo bl pd ltac:(lia) E') as (g & Hg & Eg). exists g. split; [exact Hg|].
    cbn [lineLoop]. cbn [buf bi]. rewrite (lineEnd_upto B T ls Hls ltac:(lia) ltac:(lia)). rewrite upto_upto by lia. rewrite Ep. cbn [negb Z.eqb].
    rewrite Hm. cbn [buf bi boff bline pending]. exact Eg. }
  destruct ch' as [|b0 rest0]; [apply Hcont; [exact E|reflexivity]|].
  destruct (isOpen b0) eqn:Eo; [apply Hcont; [exact E|unfold makeRoot; rewrite Eo; reflexivity]|].
  inversion E; subst. exists (S f). split; [lia|].
  replace (lineEnd (upto B T) T) with T; [reflexivity|]. pose proof (lineEnd_all (upto B T)) as X. rewrite HlA in X. symmetry. exact X.
Qed.

(* the re-parse of the lines before the closing line is their run followed by end of input *)
Theorem reparse_cut_at_line_start B f T stp chp c2 : noNul B ->
  lastLine f 0 [] 0 B = Some (T, stp, chp) ->
  0 < lineEnd B 0 -> lineEnd B 0 <= T -> isBlankLine (upto B (lineEnd B 0)) = false ->
  eofK stp chp T (upto B T) = [c2] -> isOpen c2 = false -> bend c2 = T ->
  parseBlocks (upto B T) = ([{| rb_line := 1; rb_start := 0; rb_end := T; rb_src := upto B T; rb_blk := c2 |}], 0).
Proof.
  intros HnB HL Hpos HleT Hnb Heof Hcl Hbe.
  pose proof (len_nonneg B) as HlB.
  pose proof (lastLine_bounds f 0 [] 0 B T stp chp ltac:(lia) HL) as HT.
  set (A := upto B T). fold A in Heof.
  assert (HlA : len A = T) by (apply len_upto; lia).
  assert (HnA : noNul A) by (apply noNul_upto, HnB).
  assert (HeA : lineEnd A 0 = lineEnd B 0) by (apply lineEnd_upto; lia).
  rewrite parseBlocks_st0, (pad_noNul A HnA).
  assert (Hlen : exists k, length A = S k).
  { destruct (length A) as [|k] eqn:EA; [unfold len in HlA; rewrite EA in HlA; cbn in HlA; lia|eexists; reflexivity]. }
  destruct Hlen as (k & Ek). rewrite allBlocks_S, nextBlock_st0. cbn [buf st0].
  assert (Hsk : skipLoop (3 + length A) (st0 A) = lineLoop (2 + length A) 0 [] 0 {| buf := A; bi := lineEnd A 0; boff := 0; bline := 1; pending := [] |}).
  { change (3 + length A)%nat with (S (2 + length A)). cbn [skipLoop]. cbv zeta. cbn [buf bi st0 boff bline pending]. rewrite HeA.
    destruct (Z.ltb_spec 0 (lineEnd B 0)); [|lia]. cbn [negb]. unfold A at 1. rewrite upto_upto by lia. rewrite Hnb. reflexivity. }
  rewrite Hsk.
  set (sA := {| buf := A; bi := lineEnd A 0; boff := 0; bline := 1; pending := [] |}).
  destruct (lineLoop_to_T f 0 [] 0 B T stp chp 0 1 [] ltac:(lia) HL) as (g & Hg & Eg). fold A in Eg. fold sA in Eg.
  (* the end-of-input line *)
  set (sT := {| buf := A; bi := T; boff := 0; bline := 1; pending := [] |}) in *.
  set (r1 := {| rb_line := 1; rb_start := 0; rb_end := T; rb_src := A; rb_blk := c2 |}).
  set (s1 := {| buf := []; bi := 0; boff := T; bline := 1 + lineCount A; pending := [] |}).
  assert (HE : lineLoop g stp chp T sT = NBBlock r1 s1).
  { destruct g as [|g']; [lia|]. cbn [lineLoop]. cbn [buf bi sT]. rewrite <- HlA at 2. rewrite upto_all.
    rewrite (processLine_eof stp chp T A ltac:(rewrite <- HlA; apply from_all)). rewrite Heof. cbn [negb Z.eqb].
    unfold makeRoot. rewrite Hcl. cbn [buf bi boff bline pending sT]. rewrite Hbe.
    assert (EuA : upto A T = A) by (rewrite <- HlA; apply upto_all).
    assert (EfA : from_ A T = []) by (rewrite <- HlA; apply from_all).
    rewrite EuA, EfA, (unpadded_noNul A HnA), (fillNulls_noNul A HnA). replace (T - T) with 0 by lia. unfold r1, s1. cbn [map]. rewrite HlA. reflexivity. }
  assert (HLf : lineLoop f 0 [] 0 sA = NBBlock r1 s1) by (rewrite Eg; exact HE).
  assert (HL2 : lineLoop (2 + length A) 0 [] 0 sA = NBBlock r1 s1).
  { destruct (le_lt_dec f (2 + length A)) as [Le|Gt].
    - rewrite (lineLoop_mono f 0 [] 0 sA ltac:(rewrite HLf; discriminate) (2 + length A)%nat Le). exact HLf.
    - rewrite <- HLf. symmetry. apply lineLoop_adequate; cbn [buf bi sA]; [lia|reflexivity|left; reflexivity|unfold len; lia|lia]. }
  rewrite HL2. unfold r1, s1.
  rewrite Ek. rewrite allBlocks_S. cbn [buf length]. unfold nextBlock. cbn [pending makeRoot buf bi].
  rewrite from_nil_any.
  cbn [skipLoop]. cbv zeta. cbn [buf bi]. change (lineEnd [] 0) with 0. cbn [Z.ltb negb]. reflexivity.
Qed.

Lemma lastLine_first : forall f st ch ls B T stp chp, 0 <= ls <= len B -> lastLine f st ch ls B = Some (T, stp, chp) -> T = ls \/ lineEnd B ls <= T.
Proof.
  destruct f as [|f]; intros st ch ls B T stp chp Hls E; [discriminate|]. cbn [lastLine] in E. cbv zeta in E.
  destruct (lineEnd_spec B ls Hls) as [A _].
  destruct (processLine st ch ls (upto B (lineEnd B ls))) as [[ch' st1] pn]. destruct (negb (pn =? 0)); [discriminate|].
  assert (Hrec : lastLine f st1 ch' (lineEnd B ls) B = Some (T, stp, chp) -> T = ls \/ lineEnd B ls <= T).
  { intros E'. pose proof (lastLine_bounds f st1 ch' (lineEnd B ls) B T stp chp ltac:(lia) E'). right. lia. }
  destruct ch' as [|b0 rest0]; [exact (Hrec E)|]. destruct (isOpen b0); [exact (Hrec E)|]. inversion E; subst. left. reflexivity.
Qed.

(* The reduction for a call of NextBlock that starts a fresh line loop: (stp, chp) is the state before the line that closed
   the root (it starts at T in the buffer B of the loop, B = the rest of the input after the blank lines skipped);
   the original run closed the root by processing that line, the re-parse closes it by end of input. *)
Theorem reparse_clean_call_reduce s r s' : noNul (buf s) -> pending s = [] ->
  nextBlock (3 + length (buf s)) s = NBBlock r s' ->
  exists B T stp chp bij rest st',
    suffixOf B (buf s) /\ processLine stp chp T (upto B bij) = (rb_blk r :: rest, st', 0) /\ bij = lineEnd B T /\
    rb_src r = upto B (bend (rb_blk r)) /\
    (bend (rb_blk r) = T -> 0 < T ->
     forall c2, eofK stp chp T (rb_src r) = [c2] -> isOpen c2 = false -> bend c2 = T ->
       parseBlocks (rb_src r) = ([{| rb_line := 1; rb_start := 0; rb_end := len (rb_src r); rb_src := rb_src r; rb_blk := c2 |}], 0)).
Proof.
  intros HN Hp En. unfold nextBlock in En. rewrite Hp in En. cbn [makeRoot] in En.
  match type of En with skipLoop ?F ?S1 = _ => destruct (skipLoop_cut F S1 r s' eq_refl En) as (B & f' & bo & bl & (k & EB) & H1 & H2 & H3) end.
  cbn [buf pending] in *.
  assert (HNB : noNul B) by (rewrite EB; apply noNul_from, noNul_from, HN).
  set (sB := {| buf := B; bi := lineEnd B 0; boff := bo; bline := bl; pending := [] |}) in *.
  apply (lineLoop_cutOf f' 0 [] 0 sB r s' eq_refl) in H3. destruct H3 as (b & rest & bij & st' & Hcut & Er).
  destruct (lastLine_cutOf _ _ _ _ _ _ _ _ _ Hcut) as (T & stp & chp & HL & Ebij & Hpl).
  unfold rootAt in Er. cbn [buf boff bline sB] in Er. inversion Er as [[E1 E2]].
  exists B, T, stp, chp, bij, rest, st'. cbn [rb_blk rb_src].
  assert (Esrc : fillNulls (upto B (bend b)) = upto B (bend b)) by (apply fillNulls_noNul, noNul_upto, HNB).
  split; [rewrite EB; apply suffix_from; eexists; reflexivity|]. split; [exact Hpl|]. split; [exact Ebij|]. split; [exact Esrc|].
  intros HbT HT0 c2 Heof Hcl Hbe. rewrite Esrc in *. rewrite HbT in *.
  pose proof (len_nonneg B) as HlB.
  pose proof (lastLine_bounds f' 0 [] 0 B T stp chp ltac:(lia) HL) as HTb.
  destruct (lastLine_first f' 0 [] 0 B T stp chp ltac:(lia) HL) as [X|X]; [lia|].
  rewrite (len_upto B T ltac:(lia)).
  apply (reparse_cut_at_line_start B f' T stp chp c2 HNB HL H1 X H2 Heof Hcl Hbe).
Qed.
Print Assumptions reparse_clean_call_reduce.
