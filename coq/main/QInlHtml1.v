(* QInlHtml1.v -- T64 (html), part 1: the reader relation used for the raw-HTML scanners, and the scanners of Html.v
   (parseHTMLTagName, parseHTMLAttribute, parseHTMLOpenTag, parseHTMLClosingTag and their loops) on two related readers.

   RB r r' : QIRdrBase.RR sD sQ sg IK true r r'  (same place in D and in quote D)
             /\ the position of r is not behind the end of every span of IK (BndIK: when the reader is exhausted inside a line,
                it stands exactly at the end of the last span)
             /\ lo <= r_pos r  (a lower bound carried along: the scanners never move to the left).
   The scanners take the same decisions on both sides:
     * `current`, `remainingNodeBytes` return the same bytes (RR_current, RR_remaining; also in the ExhMid state);
     * `next` returns the same flag; after a successful step the readers are related again; after ANY step from a byte that is
       not a line feed the readers are related again (also when the step failed), and after a successful step from such a byte
       `jumped` is false on BOTH sides (on the quoted side the first byte of a continuation line is always "jumped");
     * the state RX (the step over a line feed failed; the two sides would read different bytes) is never observed: every `next`
       whose result is not checked follows a byte that is not a line feed, and a failed checked `next` ends the scanner. *)
From Coq Require Import List ZArith Lia Bool.
Import ListNotations.
Require Import Base Tables Utf8 Tree Rdr Link Collect Html ShapesBase ShapesR IFBase IFLink QuoteSimMap QIRdrBase.
Open Scope Z_scope.

Lemma at_over (l : bytes) i : len l <= i -> at_ l i = 0.
Proof. intros H. unfold at_, len in *. destruct (Z.ltb_spec i 0); [reflexivity|]. apply nth_overflow. lia. Qed.

(* byte classes *)
Lemma tagchar_ge33 c : isASCIILetter c || isASCIIDigit c || (c =? 45) = true -> 33 <= c.
Proof. unfold isASCIILetter, isASCIIDigit. rewrite !orb_true_iff, !andb_true_iff, !Z.leb_le, Z.eqb_eq. lia. Qed.
Lemma letter_ge33 c : isASCIILetter c = true -> 33 <= c.
Proof. unfold isASCIILetter. rewrite !orb_true_iff, !andb_true_iff, !Z.leb_le. lia. Qed.
Lemma attrchar_ge33 c : isAttrNameChar c = true -> 33 <= c.
Proof. unfold isAttrNameChar, isASCIILetter, isASCIIDigit. rewrite !orb_true_iff, !andb_true_iff, !Z.leb_le, !Z.eqb_eq. lia. Qed.
Lemma unq_not10 c : isUnquotedAttributeValueChar c = true -> c <> 10.
Proof.
  unfold isUnquotedAttributeValueChar, isSpaceTabOrLineEnding. intros H. apply andb_true_iff in H. destruct H as [H _]. apply negb_true_iff in H.
  intros ->. discriminate H.
Qed.

Section QH.
  Variables (sD sQ : bytes) (sg : Z -> Z) (IK : list inline).
  Hypothesis S : SGood sD sQ sg.
  Hypothesis IKw : spW sD IK = true.
  Variable lo : Z.
  Notation RR := (QIRdrBase.RR sD sQ sg IK true).
  Notation sgE := (QIRdrBase.sgE sD sg).
  Notation InIK := (QIRdrBase.InIK IK).

  Definition BndIK (p : Z) : Prop := exists u, In u IK /\ p <= iend u.
  Definition RB (r r' : reader) : Prop := RR r r' /\ BndIK (r_pos r) /\ lo <= r_pos r.

  Lemma RB_RR r r' : RB r r' -> RR r r'. Proof. intros H; apply H. Qed.
  Lemma RR_pos_rng r r' : RR r r' -> 0 <= r_pos r <= len sD /\ r_pos r' = sgE (r_pos r).
  Proof. intros (_ & _ & _ & _ & _ & _ & P & P' & _). split; [apply P|exact P']. Qed.
  Lemma RR_pos_in r r' : RR r r' -> r_pos r < len sD -> r_pos r' = sg (r_pos r).
  Proof. intros H L. destruct (RR_pos_rng _ _ H) as [_ E]. rewrite E. apply (bsgE_in sD sQ sg S), L. Qed.
  Lemma RR_spans_IK r r' u : RR r r' -> In u (r_spans r) -> In u IK.
  Proof. intros (_ & _ & _ & _ & _ & _ & _ & _ & _ & _ & (pre & SX)) Hu. rewrite SX. apply in_or_app. right. exact Hu. Qed.

  (* the byte under the reader is not a line feed when `current` did not return one *)
  Lemma cur_nl r r' : RR r r' -> fst (current r) <> 10 -> at_ sD (r_pos r) <> 10.
  Proof.
    intros H N. destruct (RR_pos_rng _ _ H) as [P _]. destruct (Z.eq_dec (r_pos r) (len sD)) as [E|E].
    - rewrite at_over by lia. lia.
    - rewrite <- (bRR_current_raw sD sQ sg IK true S r r' H) by lia. exact N.
  Qed.

  (* ---------------------------------------------------------------- the three observations *)
  Lemma RB_current r r' : RB r r' ->
    fst (current r') = fst (current r) /\ RB (snd (current r)) (snd (current r')) /\
    (fst (current r) <> 10 -> at_ sD (r_pos (snd (current r))) <> 10).
  Proof.
    intros (H & B & L). destruct (bRR_current sD sQ sg IK true S r r' H) as [E H1]. split; [exact E|].
    split; [split; [exact H1|rewrite pos_current; split; assumption]|]. intros N. rewrite pos_current. apply (cur_nl r r' H N).
  Qed.
  Lemma RB_remaining r r' : RB r r' ->
    fst (remainingNodeBytes r') = fst (remainingNodeBytes r) /\ RB (snd (remainingNodeBytes r)) (snd (remainingNodeBytes r')).
  Proof.
    intros (H & B & L). destruct (bRR_remaining sD sQ sg IK true S r r' H) as [E H1]. split; [exact E|].
    split; [exact H1|rewrite pos_remaining; split; assumption].
  Qed.

  (* `next` keeps the position below the end of some span of IK *)
  Lemma next_bnd r r' : RR r r' -> BndIK (r_pos r) -> BndIK (r_pos (snd (next r))).
  Proof.
    intros H B. pose proof H as (A & _ & _ & G & W & _ & _ & _ & _ & _ & SX). unfold next.
    destruct (curNode_cases r) as [E|(pre & node & rest & E1 & E & E3)]; rewrite E; [exact B|].
    cbn [withSpans r_src r_pos r_spans r_vpos].
    assert (Hn : In node IK) by (apply (RR_spans_IK r r' node H); rewrite E1; apply in_or_app; right; left; reflexivity).
    pose proof (spanHas_range _ _ E3) as (R1 & R2 & R3).
    destruct (_ && _); [cbn [snd r_pos]; exact B|].
    destruct (_ && _) eqn:Eb; [cbn [snd r_pos]; exists node; split; [exact Hn|lia]|].
    cbn [tl]. destruct (nextSpan rest) as [[i sp]|] eqn:En; cbn [snd r_pos].
    - destruct (nextSpan_split _ _ _ En) as (pre' & rest' & Ea & Eb').
      assert (Hi : In i (r_spans r)) by (rewrite E1, Ea; apply in_or_app; right; right; apply in_or_app; right; left; reflexivity).
      exists i. split; [apply (RR_spans_IK r r' i H Hi)|]. rewrite Forall_forall in G. destruct (G i Hi) as (_ & Gi & _). lia.
    - exists node. split; [exact Hn|lia].
  Qed.

  (* ---------------------------------------------------------------- one step *)
  Lemma RB_next r r' : RB r r' ->
    fst (next r') = fst (next r) /\
    (fst (next r) = true -> RB (snd (next r)) (snd (next r'))) /\
    (at_ sD (r_pos r) <> 10 ->
       RB (snd (next r)) (snd (next r')) /\
       (fst (next r) = true -> jumped (snd (next r)) = false /\ jumped (snd (next r')) = false /\ r_pos (snd (next r)) = r_pos r + 1)).
  Proof.
    intros (H & B & L). pose proof (bRR_next sD sQ sg IK true S IKw r r' H) as (E & D & N3 & N4). split; [exact E|].
    pose proof (next_bnd r r' H B) as B1. pose proof (next_W sD r (RR_PL _ _ _ _ _ _ _ H)) as (_ & Hm & _).
    split.
    - intros Ok. destruct D as [D|[D _]]; [|rewrite D in Ok; discriminate Ok]. split; [exact D|]. split; [exact B1|lia].
    - intros N10. specialize (N3 N10). split; [split; [exact N3|split; [exact B1|lia]]|]. intros Ok. destruct (N4 Ok) as (P1 & P2 & P3).
      pose proof (bRR_next_pos sD sQ sg IK true S r r' H Ok N10) as Ep. destruct (RR_pos_rng _ _ N3) as [_ Ep'].
      destruct (RR_pos_rng _ _ H) as [Pr _].
      rewrite Ep, (bsgE_succ sD sQ sg S) in Ep' by (lia || (left; exact N10)).
      pose proof (SG_nn _ _ _ S (r_pos r) ltac:(lia)) as Hnn.
      unfold jumped. rewrite P1, P3, Ep, Ep'. split; [|split; [|reflexivity]].
      + destruct (Z.ltb_spec 1 (r_pos r + 1 - r_pos r)); [lia|]. apply andb_false_r.
      + destruct (Z.ltb_spec 1 (sg (r_pos r) + 1 - sg (r_pos r))); [lia|]. apply andb_false_r.
  Qed.

  (* positions compare the same way on both sides *)
  Lemma RB_pos_eqb a a' b b' : RB a a' -> RB b b' -> (r_pos a' =? r_pos b') = (r_pos a =? r_pos b).
  Proof.
    intros (Ha & _) (Hb & _). destruct (RR_pos_rng _ _ Ha) as [Pa Ea]. destruct (RR_pos_rng _ _ Hb) as [Pb Eb]. rewrite Ea, Eb.
    apply (bsgE_eqb sD sQ sg S); lia.
  Qed.

  (* ---------------------------------------------------------------- a '>' under the reader: the end of a tag *)
  (* behind the last span of IK, when it ends inside a line (e.g. the content of an ATX heading), there is no '>' *)
  Definition NoGtBehind : Prop :=
    forall u, In u IK -> (forall v, In v IK -> iend v <= iend u) -> iend u < len sD -> at_ sD (iend u - 1) <> 10 -> at_ sD (iend u) <> 62.
  Hypothesis H62 : NoGtBehind.

  (* an end: one past a '>' that lies inside a span of IK *)
  Definition EndH (e e' : Z) : Prop := exists q, lo <= q < len sD /\ at_ sD q = 62 /\ InIK q /\ e = q + 1 /\ e' = sg q + 1.
  Definition EndO (e e' : Z) : Prop := (e = -1 /\ e' = -1) \/ EndH e e'.

  Lemma gt_here r r' : RB r r' -> fst (current r) = 62 -> EndH (r_pos r + 1) (r_pos r' + 1).
  Proof.
    intros (H & B & L) E. destruct (bRR_current_nz sD sQ sg IK true S r r' H ltac:(lia)) as [Lt Eat].
    destruct (RR_pos_rng _ _ H) as [P _]. exists (r_pos r). split; [lia|]. split; [congruence|]. split; [|split; [reflexivity|rewrite (RR_pos_in r r' H Lt); reflexivity]].
    destruct (bRR_inside sD sQ sg IK true S r r' eq_refl H Lt) as [(n & En)|(_ & X1 & X2 & X3)].
    - destruct (bRR_curNode_in sD sQ sg IK true S r r' n H En) as (_ & Hin & _). exists n. split; [|exact Hin].
      destruct (curNode_cases r) as [E0|(pre & m & rest & E1 & E0 & _)]; rewrite E0 in En; cbn [fst] in En; [discriminate|]. inversion En; subst m.
      apply (RR_spans_IK r r' n H). rewrite E1. apply in_or_app. right. left. reflexivity.
    - exfalso. destruct B as (u & Hu & Bu). pose proof (X3 u Hu) as Xu. assert (Ep : r_pos r = iend u) by lia.
      apply (H62 u Hu); [intros v Hv; pose proof (X3 v Hv); lia|lia|rewrite <- Ep; exact X2|rewrite <- Ep; congruence].
  Qed.
  Lemma gt_here_cur r r' : RB r r' -> fst (current r) = 62 -> EndH (r_pos (snd (current r)) + 1) (r_pos (snd (current r')) + 1).
  Proof. intros H E. rewrite !pos_current. apply gt_here; assumption. Qed.

  (* ---------------------------------------------------------------- tactics *)
  Ltac cpair H r r' c r1 r1' H1 Hnl E E' :=
    let Ec := fresh "Ec" in let c' := fresh "c'" in
    pose proof (RB_current r r' H) as (Ec & H1 & Hnl);
    destruct (current r) as [c r1] eqn:E; destruct (current r') as [c' r1'] eqn:E'; cbn [fst snd] in Ec, H1, Hnl; subst c'.
  Ltac npair H r r' ok r1 r1' Hok Hnl :=
    let Eo := fresh "Eo" in let ok' := fresh "ok'" in
    pose proof (RB_next r r' H) as (Eo & Hok & Hnl);
    destruct (next r) as [ok r1]; destruct (next r') as [ok' r1']; cbn [fst snd] in Eo, Hok, Hnl; subst ok'.

  (* ---------------------------------------------------------------- skipLinkSpace *)
  Lemma q_sls_loop : forall f r r', RB r r' ->
    fst (skipLinkSpace_loop f r') = fst (skipLinkSpace_loop f r) /\
    (fst (skipLinkSpace_loop f r) = true -> RB (snd (skipLinkSpace_loop f r)) (snd (skipLinkSpace_loop f r'))).
  Proof.
    induction f as [|f IH]; intros r r' H; [split; [reflexivity|intros _; exact H]|]. cbn [skipLinkSpace_loop].
    cpair H r r' c r1 r1' H1 Hnl Ec1 Ec1'. destruct (isSpaceTabOrLineEnding c); [|split; [reflexivity|intros _; exact H1]].
    npair H1 r1 r1' ok r2 r2' Hok Hnl2. destruct ok; [apply IH, Hok; reflexivity|split; [reflexivity|discriminate]].
  Qed.
  Lemma q_skipLinkSpace f r r' : RB r r' ->
    fst (skipLinkSpace f r') = fst (skipLinkSpace f r) /\ (fst (skipLinkSpace f r) = true -> RB (snd (skipLinkSpace f r)) (snd (skipLinkSpace f r'))).
  Proof.
    intros H. unfold skipLinkSpace. cpair H r r' c r1 r1' H1 Hnl Ec1 Ec1'. destruct (c =? 0); [split; [reflexivity|discriminate]|]. apply q_sls_loop, H1.
  Qed.

  (* ---------------------------------------------------------------- tag name *)
  Lemma q_tagName_loop : forall f r r', RB r r' -> RB (tagName_loop f r) (tagName_loop f r').
  Proof.
    induction f as [|f IH]; intros r r' H; [exact H|]. cbn [tagName_loop].
    cpair H r r' c r1 r1' H1 Hnl Ec1 Ec1'. destruct (isASCIILetter c || isASCIIDigit c || (c =? 45)) eqn:Ek; [|exact H1].
    pose proof (tagchar_ge33 c Ek) as Hc. npair H1 r1 r1' ok r2 r2' Hok Hnl2. destruct (Hnl2 (Hnl ltac:(lia))) as [H2 _].
    destruct ok; [apply IH, H2|exact H2].
  Qed.
  Lemma q_parseHTMLTagName f r r' : RB r r' ->
    fst (parseHTMLTagName f r') = fst (parseHTMLTagName f r) /\ RB (snd (parseHTMLTagName f r)) (snd (parseHTMLTagName f r')).
  Proof.
    intros H. unfold parseHTMLTagName. cpair H r r' c r1 r1' H1 Hnl Ec1 Ec1'. destruct (isASCIILetter c) eqn:Ek; cbn [negb]; [|split; [reflexivity|exact H1]].
    pose proof (letter_ge33 c Ek) as Hc. npair H1 r1 r1' ok r2 r2' Hok Hnl2. destruct (Hnl2 (Hnl ltac:(lia))) as [H2 _].
    destruct ok; cbn [negb fst snd]; (split; [reflexivity|]); [apply q_tagName_loop, H2|exact H2].
  Qed.

  (* ---------------------------------------------------------------- attributes *)
  Lemma q_attrName_loop : forall f r r', RB r r' ->
    fst (attrName_loop f r') = fst (attrName_loop f r) /\ RB (snd (attrName_loop f r)) (snd (attrName_loop f r')).
  Proof.
    induction f as [|f IH]; intros r r' H; [split; [reflexivity|exact H]|]. cbn [attrName_loop].
    cpair H r r' c r1 r1' H1 Hnl Ec1 Ec1'. destruct (isAttrNameChar c) eqn:Ek; [|split; [reflexivity|exact H1]].
    pose proof (attrchar_ge33 c Ek) as Hc. npair H1 r1 r1' ok r2 r2' Hok Hnl2. destruct (Hnl2 (Hnl ltac:(lia))) as [H2 _].
    destruct ok; [apply IH, H2|split; [reflexivity|exact H2]].
  Qed.
  Lemma q_untilQuote : forall f r r' q, q <> 10 -> RB r r' ->
    fst (untilQuote f r' q) = fst (untilQuote f r q) /\ (fst (untilQuote f r q) = true -> RB (snd (untilQuote f r q)) (snd (untilQuote f r' q))).
  Proof.
    induction f as [|f IH]; intros r r' q Hq H; [split; [reflexivity|discriminate]|]. cbn [untilQuote].
    cpair H r r' c r1 r1' H1 Hnl Ec1 Ec1'. destruct (Z.eqb_spec c q) as [Eq|Nq].
    - cbn [fst snd]. split; [reflexivity|]. intros _. pose proof (RB_next r1 r1' H1) as (_ & _ & X). apply X, Hnl. lia.
    - npair H1 r1 r1' ok r2 r2' Hok Hnl2. destruct ok; [apply IH; [exact Hq|apply Hok; reflexivity]|split; [reflexivity|discriminate]].
  Qed.
  Lemma q_unquoted_loop : forall f r r', RB r r' -> at_ sD (r_pos r) <> 10 -> RB (unquoted_loop f r) (unquoted_loop f r').
  Proof.
    induction f as [|f IH]; intros r r' H N; [exact H|]. cbn [unquoted_loop].
    npair H r r' ok r1 r1' Hok Hnl1. destruct (Hnl1 N) as [H1 _]. destruct ok; cbn [negb]; [|exact H1].
    cpair H1 r1 r1' c r2 r2' H2 Hnl Ec2 Ec2'. destruct (isUnquotedAttributeValueChar c) eqn:Ek; [|exact H2].
    apply IH; [exact H2|apply Hnl, (unq_not10 c Ek)].
  Qed.

  Lemma q_parseHTMLAttribute f r r' : RB r r' ->
    fst (parseHTMLAttribute f r') = fst (parseHTMLAttribute f r) /\
    (fst (parseHTMLAttribute f r) = true -> RB (snd (parseHTMLAttribute f r)) (snd (parseHTMLAttribute f r'))).
  Proof.
    intros H. unfold parseHTMLAttribute. cpair H r r' c r1 r1' H1 Hnl Ec1 Ec1'.
    destruct (negb (isASCIILetter c) && negb (c =? 95) && negb (c =? 58)) eqn:Ek; [split; [reflexivity|discriminate]|].
    assert (Hc : c <> 10).
    { intros ->. discriminate Ek. }
    npair H1 r1 r1' ok r2 r2' Hok Hnl2. destruct (Hnl2 (Hnl Hc)) as [H2 _]. destruct ok; cbn [negb]; [|split; [reflexivity|intros _; exact H2]].
    destruct (q_attrName_loop f r2 r2' H2) as [E3 H3]. destruct (attrName_loop f r2) as [cont r3]. destruct (attrName_loop f r2') as [cont' r3']. cbn [fst snd] in E3, H3. subst cont'.
    destruct cont; cbn [negb]; [|split; [reflexivity|intros _; exact H3]]. cbv zeta.
    destruct (q_skipLinkSpace f r3 r3' H3) as [E4 H4]. destruct (skipLinkSpace f r3) as [ok2 r4]. destruct (skipLinkSpace f r3') as [ok2' r4']. cbn [fst snd] in E4, H4. subst ok2'.
    destruct ok2; cbn [negb]; [|split; [reflexivity|intros _; exact H3]]. specialize (H4 eq_refl).
    cpair H4 r4 r4' c2 r5 r5' H5 Hnl5 Ec5 Ec5'. destruct (Z.eqb_spec c2 61) as [E61|N61]; cbn [negb]; [|split; [reflexivity|intros _; exact H3]].
    npair H5 r5 r5' ok3 r6 r6' Hok6 Hnl6. destruct ok3; cbn [negb]; [|split; [reflexivity|discriminate]]. specialize (Hok6 eq_refl).
    destruct (q_skipLinkSpace f r6 r6' Hok6) as [E7 H7]. destruct (skipLinkSpace f r6) as [ok4 r7]. destruct (skipLinkSpace f r6') as [ok4' r7']. cbn [fst snd] in E7, H7. subst ok4'.
    destruct ok4; cbn [negb]; [|split; [reflexivity|discriminate]]. specialize (H7 eq_refl).
    cpair H7 r7 r7' c3 r8 r8' H8 Hnl8 Ec8 Ec8'.
    destruct ((c3 =? 39) || (c3 =? 34)) eqn:Eq.
    - assert (Hq : c3 <> 10) by (intros ->; discriminate Eq).
      npair H8 r8 r8' ok5 r9 r9' Hok9 Hnl9. destruct ok5; cbn [negb]; [|split; [reflexivity|discriminate]].
      apply q_untilQuote; [exact Hq|apply Hok9; reflexivity].
    - destruct (isUnquotedAttributeValueChar c3) eqn:Eu; [|split; [reflexivity|discriminate]]. cbn [fst snd]. split; [reflexivity|]. intros _.
      apply q_unquoted_loop; [exact H8|apply Hnl8, (unq_not10 c3 Eu)].
  Qed.

  (* ---------------------------------------------------------------- open tag, closing tag: the end *)
  Lemma q_openTag_loop : forall f r r', RB r r' -> EndO (fst (openTag_loop f r)) (fst (openTag_loop f r')).
  Proof.
    induction f as [|f IH]; intros r r' H; [left; split; reflexivity|]. cbn [openTag_loop]. cbv zeta.
    destruct (q_skipLinkSpace (Datatypes.S f) r r' H) as [E1 H1]. destruct (skipLinkSpace (Datatypes.S f) r) as [ok r1]. destruct (skipLinkSpace (Datatypes.S f) r') as [ok' r1']. cbn [fst snd] in E1, H1. subst ok'.
    destruct ok; cbn [negb]; [|left; split; reflexivity]. specialize (H1 eq_refl).
    cpair H1 r1 r1' c r2 r2' H2 Hnl2 Ec2 Ec2'.
    destruct (Z.eqb_spec c 47) as [E47|N47].
    { npair H2 r2 r2' ok2 r3 r3' Hok3 Hnl3. destruct (Hnl3 (Hnl2 ltac:(lia))) as [H3 J3].
      destruct ok2; cbn [negb orb]; [|left; split; reflexivity]. destruct (J3 eq_refl) as (J1 & J2 & _). rewrite J1, J2.
      cpair H3 r3 r3' c2 r4 r4' H4 Hnl4 Ec4 Ec4'. destruct (Z.eqb_spec c2 62) as [E62|N62]; cbn [negb fst]; [|left; split; reflexivity].
      right. pose proof (gt_here_cur r3 r3' H3) as X. rewrite Ec4, Ec4' in X. apply X. exact E62. }
    destruct (Z.eqb_spec c 62) as [E62|N62].
    { cbn [fst]. right. pose proof (gt_here_cur r1 r1' H1) as X. rewrite Ec2, Ec2' in X. apply X. exact E62. }
    rewrite (RB_pos_eqb r2 r2' r r' H2 H). destruct (r_pos r2 =? r_pos r); [left; split; reflexivity|].
    destruct (q_parseHTMLAttribute (Datatypes.S f) r2 r2' H2) as [E3 H3].
    destruct (parseHTMLAttribute (Datatypes.S f) r2) as [ok3 r3]. destruct (parseHTMLAttribute (Datatypes.S f) r2') as [ok3' r3']. cbn [fst snd] in E3, H3. subst ok3'.
    destruct ok3; cbn [negb]; [|left; split; reflexivity]. apply IH, H3. reflexivity.
  Qed.
  Lemma q_parseHTMLOpenTag f r r' : RB r r' -> EndO (fst (parseHTMLOpenTag f r)) (fst (parseHTMLOpenTag f r')).
  Proof.
    intros H. unfold parseHTMLOpenTag. destruct (q_parseHTMLTagName f r r' H) as [E1 H1].
    destruct (parseHTMLTagName f r) as [ok r1]. destruct (parseHTMLTagName f r') as [ok' r1']. cbn [fst snd] in E1, H1. subst ok'.
    destruct ok; cbn [negb]; [|left; split; reflexivity]. apply q_openTag_loop, H1.
  Qed.
  Lemma q_parseHTMLClosingTag f r r' : RB r r' -> EndO (fst (parseHTMLClosingTag f r)) (fst (parseHTMLClosingTag f r')).
  Proof.
    intros H. unfold parseHTMLClosingTag. cpair H r r' c r1 r1' H1 Hnl1 Ec1 Ec1'.
    destruct (Z.eqb_spec c 47) as [E47|N47]; cbn [negb]; [|left; split; reflexivity].
    npair H1 r1 r1' ok r2 r2' Hok2 Hnl2. destruct (Hnl2 (Hnl1 ltac:(lia))) as [H2 J2].
    destruct ok; cbn [negb orb]; [|left; split; reflexivity]. destruct (J2 eq_refl) as (J1 & J2' & _). rewrite J1, J2'.
    destruct (q_parseHTMLTagName f r2 r2' H2) as [E3 H3].
    destruct (parseHTMLTagName f r2) as [ok2 r3]. destruct (parseHTMLTagName f r2') as [ok2' r3']. cbn [fst snd] in E3, H3. subst ok2'.
    destruct ok2; cbn [negb]; [|left; split; reflexivity].
    destruct (q_skipLinkSpace f r3 r3' H3) as [E4 H4]. destruct (skipLinkSpace f r3) as [ok3 r4]. destruct (skipLinkSpace f r3') as [ok3' r4']. cbn [fst snd] in E4, H4. subst ok3'.
    destruct ok3; cbn [negb]; [|left; split; reflexivity]. specialize (H4 eq_refl).
    cpair H4 r4 r4' c2 r5 r5' H5 Hnl5 Ec5 Ec5'. destruct (Z.eqb_spec c2 62) as [E62|N62]; cbn [negb fst]; [|left; split; reflexivity].
    right. pose proof (gt_here_cur r4 r4' H4) as X. rewrite Ec5, Ec5' in X. apply X. exact E62.
  Qed.
End QH.
