From Coq Require Import List ZArith Lia Bool.
Import ListNotations.
Require Import Base Tables Utf8 Tree Rdr Link Collect Html Recog Inl3a Inl3b Inl3c Inl3d Inl3e Driver Render Props PEProof L2Kind2.
Require Import GI0 GI1 GI2 GI3 GI4 GI5 GI6 GI7 GramInline LP Rules Starts L2CC GIB.
Require Import ShapesBase ShapesR IFBase IFTitle.
Open Scope Z_scope.

(* ================================================================ C04 (1), consequence for the inline grammar:
   the conditional clause of GramInline.v ("a link title needs a destination") is discharged for every source and every
   block whose entries pass the executable check IFTitle.entOK (sorted spans inside the source, indentation budget at most
   len src + 9). *)
Theorem parseInlines_gramI_entOK : forall src matcher b,
  forallb (ek (bkind b)) (bik b) = true -> isCode (bkind b) = false -> bkind b <> LinkReferenceDefinitionKind ->
  entOK src (bik b) = true ->
  forallb (fun i => phrasing (ikind i) && gramI false i) (parseInlines src matcher b) = true.
Proof.
  intros src matcher b He Hc Hr Hok. apply parseInlines_gramI_titleDest_partial; try assumption.
  apply titleNeedsDestFor_entOK. exact Hok.
Qed.
Print Assumptions parseInlines_gramI_entOK.

(* ---- the whole document: GramInline.parseFull_leaves with the side condition asked only of the blocks the inline
        parser actually runs on (those with an Unparsed entry) ---- *)
Section Doc.
  Variable G : inline -> bool.
  Variable Q : bytes -> block -> Prop.
  Hypothesis HGrun : forall src m b, forallb (ek (bkind b)) (bik b) = true -> isCode (bkind b) = false ->
    bkind b <> LinkReferenceDefinitionKind -> hasUnparsed b = true -> Q src b ->
    forallb (fun i => phrasing (ikind i) && G i) (parseInlines src m b) = true.
  Hypothesis HGleaf : forall k s e ind r, k = RawHTMLKind \/ k = IndentKind -> G (Inl k s e ind r []) = true.

  Lemma rewriteB_leaves' src m : forall fuel b, (bheight b <= fuel)%nat ->
    L2Kind2.inv b = true -> ce b = true -> cc b = true -> (forall d, subB d b -> hasUnparsed d = true -> Q src d) ->
    leavesOK G (rewriteB fuel src m b) = true.
  Proof.
    induction fuel as [|f IH]; intros b Hh Hi Hce Hcc HQ; [destruct b; cbn in Hh; lia|].
    cbn [rewriteB].
    apply L2Kind2.inv_parts in Hi. destruct Hi as [Hek Hik]. apply ce_parts in Hce. destruct Hce as [HceK Hcek].
    apply cc_parts in Hcc. destruct Hcc as [Hcan Hcck].
    destruct ((0 <? len (bik b)) && hasUnparsed b) eqn:Ec.
    - apply andb_true_iff in Ec. destruct Ec as [El Eu]. destruct (hasUnparsed_kind b Hek Eu) as [Hcode Hlrd].
      assert (Hleaf : isContK (bkind b) = false).
      { unfold ceK in HceK. destruct (isContK (bkind b)); [|reflexivity]. cbn [negb orb] in HceK.
        destruct (bik b); [unfold len in El; cbn in El; discriminate|discriminate]. }
      assert (Hnokids : bkids b = []).
      { destruct (bkids b) as [|c r]; [reflexivity|]. cbn [forallb] in Hcan. rewrite (canContain_leaf _ _ Hleaf) in Hcan. discriminate. }
      pose proof (HQ b (subB_refl b) Eu) as HQb.
      destruct b as [k s e bk ik a n c l lb]. cbn [set_bik leavesOK bkind bik bkids] in *. subst bk. cbn [forallb]. rewrite andb_true_r.
      destruct ((k =? ParagraphKind) || isHeading k); [|reflexivity].
      apply (HGrun src m (Blk k s e [] ik a n c l lb)); assumption.
    - assert (Hnu : hasUnparsed b = false).
      { destruct (hasUnparsed b) eqn:Eu; [|reflexivity]. rewrite andb_true_r in Ec.
        unfold hasUnparsed in Eu. destruct (bik b); [discriminate|]. unfold len in Ec. cbn in Ec. discriminate. }
      assert (HQk : forall c0, In c0 (bkids b) -> forall d, subB d c0 -> hasUnparsed d = true -> Q src d).
      { intros c0 Hc0 d Hd. apply HQ. eapply subB_kid; eassumption. }
      destruct b as [k s e bk ik a n c l lb]. cbn [set_bkids leavesOK bkind bik bkids] in *.
      apply andb_true_iff. split.
      + destruct ((k =? ParagraphKind) || isHeading k) eqn:Ek; [|reflexivity].
        assert (Hcode : isCode k = false /\ (k =? LinkReferenceDefinitionKind) = false /\ (k =? FencedCodeBlockKind) = false).
        { unfold isHeading, isCode in *. apply orb_true_iff in Ek. destruct Ek as [Ek|Ek]; [|apply orb_true_iff in Ek; destruct Ek as [Ek|Ek]];
            apply Z.eqb_eq in Ek; subst k; repeat split; reflexivity. }
        destruct Hcode as (Hc1 & Hc2 & Hc3).
        apply forallb_forall. intros u Hu. rewrite forallb_forall in Hek. specialize (Hek u Hu).
        unfold hasUnparsed in Hnu. cbn [bik] in Hnu.
        assert (Hku : (ikind u =? UnparsedKind) = false).
        { destruct (ikind u =? UnparsedKind) eqn:E; [|reflexivity]. exfalso.
          assert (Hex : existsb (fun i => ikind i =? UnparsedKind) ik = true) by (apply existsb_exists; exists u; split; assumption).
          rewrite Hex in Hnu. discriminate. }
        destruct u as [ku su eu indu ru ksu]. unfold ek, kidless in Hek. cbn [ikind ikids iref] in *. cbv zeta in Hek.
        rewrite Hku, Hc1, Hc2, Hc3 in Hek.
        destruct ((ku =? TextKind) || (ku =? SoftLineBreakKind)); [rewrite andb_false_r in Hek; discriminate|].
        destruct ((ku =? RawHTMLKind) || (ku =? IndentKind)) eqn:Er;
          [|destruct (ku =? InfoStringKind); [discriminate|rewrite andb_false_r in Hek; discriminate]].
        destruct ksu; [|discriminate].
        assert (Hkk : ku = RawHTMLKind \/ ku = IndentKind) by (apply orb_true_iff in Er; destruct Er as [Er|Er]; apply Z.eqb_eq in Er; tauto).
        rewrite (HGleaf ku su eu indu ru Hkk), andb_true_r. destruct Hkk as [-> | ->]; reflexivity.
      + apply forallb_forall. intros x Hx. apply in_map_iff in Hx. destruct Hx as (c0 & <- & Hc0).
        unfold L2Kind2.invL, ceL, ccL in *. rewrite forallb_forall in Hik, Hcek, Hcck.
        apply IH; [|apply Hik, Hc0|apply Hcek, Hc0|apply Hcck, Hc0|apply HQk, Hc0].
        cbn [bheight] in Hh. pose proof (bheight_kid c0 bk Hc0). lia.
  Qed.

  Theorem parseFull_leaves' input :
    (forall r, In r (fst (parseBlocks input)) -> forall d, subB d (rb_blk r) -> hasUnparsed d = true -> Q (rb_src r) d) ->
    forallb (fun r => leavesOK G (rb_blk r)) (fst (parseFull input)) = true.
  Proof.
    intros HQ. unfold parseFull.
    pose proof (L2Kind2.parseBlocks_kinds input) as H1. pose proof (parseBlocks_noMixed input) as H2.
    pose proof (parseBlocks_contain input) as H3.
    destruct (parseBlocks input) as [roots code]. cbn [fst] in *.
    apply forallb_forall. intros x Hx. apply in_map_iff in Hx. destruct Hx as (r & <- & Hr). cbn [rb_blk].
    rewrite Forall_forall in H1, H2, H3. apply rewriteB_leaves'; [lia|apply H1, Hr|apply H2, Hr|apply H3, Hr|apply HQ, Hr].
  Qed.
End Doc.

(* every block on which the inline parser runs has entries that pass entOK *)
Definition entOKDoc (input : bytes) : Prop :=
  forall r, In r (fst (parseBlocks input)) -> forall d, subB d (rb_blk r) -> hasUnparsed d = true -> entOK (rb_src r) (bik d) = true.

(* GramInline.parseFull_gramI_statement, for every input whose paragraphs / headings have well-formed entry lists *)
Theorem parseFull_gramI_entOK : forall input, entOKDoc input ->
  forallb (fun r => leavesOK (gramI false) (rb_blk r)) (fst (parseFull input)) = true.
Proof.
  intros input HD. apply (parseFull_leaves' (gramI false) (fun src d => entOK src (bik d) = true)).
  - intros src m b He Hc Hr _ HQ. apply parseInlines_gramI_entOK; assumption.
  - intros k s e ind r Hk. rewrite <- gramIg_linkTail. apply gramIg_leaf, Hk.
  - exact HD.
Qed.
Print Assumptions parseFull_gramI_entOK.
