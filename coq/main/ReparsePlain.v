From Coq Require Import List ZArith Lia Bool.
Import ListNotations.
Require Import Base Tree Rdr Link Collect Html Recog LP Rules Starts Driver L2Kind L2CC TDefs TOcp StreamFuel L2BndS LADef LA1 LA13 ReparseFrame ReparseSI.
Open Scope Z_scope.

(* T50 continuation: the open paragraphs on the spine do not begin with '[': they are closed the same way with and without
   the bytes after T. *)
Lemma current_upto (S : bytes) T ik pos : 0 <= pos < T -> T <= len S ->
  fst (current (newReader (upto S T) ik pos)) = fst (current (newReader S ik pos)).
Proof.
  intros Hp HT. unfold current, newReader. cbn [r_src r_pos r_vpos].
  rewrite (LA13.at_upto' S T pos Hp HT).
  assert (L1 : (len (upto S T) <=? pos) = false) by (apply Z.leb_gt; rewrite L2BndS.len_upto by lia; lia).
  assert (L2 : (len S <=? pos) = false) by (apply Z.leb_gt; lia).
  rewrite L1, L2. unfold curNode. cbn [r_spans r_pos r_src r_vpos r_prev].
  destruct (nodeIndexForPosition ik pos <? 0); cbn [fst okind]; [destruct (at_ S pos =? 0); reflexivity|].
  destruct (okind (hd_error (from_ ik (nodeIndexForPosition ik pos))) =? IndentKind); [reflexivity|]. destruct (at_ S pos =? 0); reflexivity.
Qed.

Lemma plainPara_set_bend S y e : plainPara S (set_bend y e) <-> plainPara S y.
Proof. unfold plainPara. destruct y; reflexivity. Qed.

Lemma plain_ocpEq S T y : T <= len S -> (forall first rest, bik y = first :: rest -> 0 <= istart first < T) -> plainPara S y -> ocpEq S T y.
Proof.
  intros HT Hf Hp. unfold ocpEq.
  assert (Hp1 : plainPara S (set_bend y T)) by (apply plainPara_set_bend, Hp).
  assert (Hp2 : plainPara (upto S T) (set_bend y T)).
  { unfold plainPara in *. assert (Eb : bik (set_bend y T) = bik y) by (destruct y; reflexivity). rewrite Eb in *.
    destruct (bik y) as [|first rest] eqn:E; [exact Logic.I|]. rewrite (current_upto S T _ _ (Hf first rest eq_refl) HT). exact Hp1. }
  rewrite (ocp_plain _ _ Hp1), (ocp_plain _ _ Hp2). reflexivity.
Qed.

(* under the invariant la the first entry of an open paragraph starts inside [0, T) *)
Lemma la_para_first S T y : la S T y -> isOpen y = true -> isParaK (bkind y) = true -> forall first rest, bik y = first :: rest -> 0 <= istart first < T.
Proof.
  intros Hla Ho Hk first rest Eb. apply la_eq in Hla. destruct Hla as (Hs & _ & _ & Hbody & _).
  unfold body in Hbody. assert (Hleaf : isLeafK (bkind y) = true).
  { unfold isParaK in Hk. unfold isLeafK. apply orb_true_iff in Hk. destruct Hk as [E|E]; apply Z.eqb_eq in E; rewrite E; reflexivity. }
  rewrite Hleaf in Hbody. destruct Hbody as (Ht & He & _). unfold hiOf in Ht. unfold isOpen in Ho. rewrite Ho in Ht. rewrite Eb in Ht, He. cbn [map tileS ispan fst snd] in Ht.
  destruct Ht as (A & _ & B & C). pose proof (tileS_le _ _ _ _ C) as D.
  inversion He as [|? ? Hf _]; subst. destruct Hf as (_ & Hf & _). specialize (Hf Hk).
  destruct Hf as [(_ & E1 & _)|(_ & (E1 & _))]; lia.
Qed.

Definition plainSpine (S : bytes) (x : block) : Prop :=
  forall d y, getAt d x = Some y -> isOpen y = true -> isParaK (bkind y) = true -> plainPara S y.

Lemma la_getAt S M : forall d x y, la S M x -> getAt d x = Some y -> la S M y.
Proof.
  induction d as [|d IH]; intros x y Hla Hy; [cbn in Hy; inversion Hy; subst; exact Hla|].
  rewrite getAt_S in Hy. destruct (lastBlock x) as [c|] eqn:El; [|discriminate].
  apply (IH c y); [|exact Hy]. apply la_eq in Hla. destruct Hla as (_ & _ & _ & _ & Hk). apply (allQ_In _ _ _ Hk), lastBlock_In, El.
Qed.

Theorem plain_spineEq S T x : T <= len S -> la S T x -> plainSpine S x -> spineEq S T x.
Proof.
  intros HT Hla Hp d y Hy Ho Hk. apply plain_ocpEq; [exact HT| |apply (Hp d y Hy Ho Hk)].
  apply (la_para_first S T y (la_getAt S T d x y Hla Hy) Ho Hk).
Qed.
