From Coq Require Import List ZArith Lia Bool.
Import ListNotations.
Require Import Base Tables Utf8 Tree Recog Inl3b Driver Inl3e Render Props ComposeC02 EolFinalDefs EolFinalFullDefs.
Require Import EolFinalRenderBase EolFinalRenderI.
Require C13All.
Open Scope Z_scope.

(* ====================================================================================================
   C14, final-newline clause, renderer, part 3: renderDoc, from the tree-level statement
   EolFinalFullDefs.parseFull_final_newline_statement (EolFinalFull*.v) and C13 (every span of parseFull's trees is valid).
   ==================================================================================================== *)
Definition renderDoc_final_newline_statement : Prop :=
  forall c s, s <> [] -> endsEol s = false -> lastByte s <> 62 -> LFI (sbr c) (renderDoc c s) (renderDoc c (s ++ [10])).

Lemma parseFull_valid input : forall r, In r (fst (parseFull input)) -> svB (rb_src r) (rb_blk r) = true.
Proof.
  intros r Hr. pose proof (C13All.C13_full input) as H. rewrite forallb_forall in H. apply shapesB_sv. apply (H r Hr).
Qed.

Definition defsOf (roots : list rootB) (acc : list (bytes * linkDef)) : list (bytes * linkDef) :=
  fold_left (fun a r => extractDefs (bheight (rb_blk r)) (rb_src r) (rb_blk r) a) roots acc.
Definition renderRoots (c : cfg) (refs : list (bytes * linkDef)) (roots : list rootB) : list bytes :=
  map (fun r => renderB (bheight (rb_blk r)) c refs (rb_src r) false (rb_blk r)) roots.
Lemma renderDoc_eq c input : renderDoc c input = joinBlocks (renderRoots c (defsOf (fst (parseFull input)) []) (fst (parseFull input))).
Proof. unfold renderDoc. destruct (parseFull input) as [roots code]. reflexivity. Qed.

Lemma rev_cons_inv' {A} (l : list A) a pre : rev l = a :: pre -> l = rev pre ++ [a].
Proof. intros H. rewrite <- (rev_involutive l), H. reflexivity. Qed.

(* the reference map does not change *)
Lemma defsOf_fin roots n : (forall r, In r roots -> svB (rb_src r) (rb_blk r) = true) ->
  defsOf (finFullRoots n roots) [] = defsOf roots [].
Proof.
  intros Hv. unfold finFullRoots. destruct (rev roots) as [|r pre] eqn:Er; [apply rev_cons_inv' in Er || idtac|].
  { destruct roots; [reflexivity|]. apply (f_equal (@length rootB)) in Er. rewrite rev_length in Er. discriminate. }
  destruct (rb_end r =? n); [|reflexivity]. rewrite (rev_cons_inv' _ _ _ Er) in *.
  unfold defsOf. rewrite !fold_left_app. cbn [fold_left]. unfold finFullRoot at 1 2 3. cbn [rb_blk rb_src].
  rewrite fin_bheight. apply extractDefs_fin. apply Hv. apply in_or_app. right. left. reflexivity.
Qed.

Lemma renderRoots_fin c refs roots n : (forall r, In r roots -> svB (rb_src r) (rb_blk r) = true) ->
  Forall2 (LFI (sbr c)) (renderRoots c refs roots) (renderRoots c refs (finFullRoots n roots)).
Proof.
  intros Hv.
  assert (Hrefl : forall l, Forall2 (LFI (sbr c)) (renderRoots c refs l) (renderRoots c refs l)).
  { induction l as [|x l IH]; [constructor|]. cbn [renderRoots map]. constructor; [apply LFI_refl|exact IH]. }
  unfold finFullRoots. destruct (rev roots) as [|r pre] eqn:Er.
  { destruct roots; [constructor|]. apply (f_equal (@length rootB)) in Er. rewrite rev_length in Er. discriminate. }
  destruct (rb_end r =? n); [|apply Hrefl]. rewrite (rev_cons_inv' _ _ _ Er) in *.
  unfold renderRoots. rewrite !map_app. apply Forall2_app; [apply Hrefl|]. cbn [map]. constructor; [|constructor].
  unfold finFullRoot. cbn [rb_blk rb_src]. rewrite fin_bheight. apply renderB_fin. apply Hv. apply in_or_app. right. left. reflexivity.
Qed.

Theorem renderDoc_final_newline_of : parseFull_final_newline_statement -> renderDoc_final_newline_statement.
Proof.
  intros H c s H1 H2 H3. rewrite !renderDoc_eq, (H s H1 H2 H3). cbn [fst].
  pose proof (parseFull_valid s) as Hv. rewrite (defsOf_fin _ _ Hv). apply joinBlocks_LFI, renderRoots_fin, Hv.
Qed.

(* ---- consequences that compare byte strings ---- *)
(* default soft-break mode: the new output is the old one with LF bytes inserted; equal after deleting LF *)
Lemma sbr_0 c : softBreak c = 0 -> sbr c = [10]. Proof. intros H. unfold sbr. rewrite H. reflexivity. Qed.
Lemma sbr_1 c : softBreak c = 1 -> sbr c = [32]. Proof. intros H. unfold sbr. rewrite H. reflexivity. Qed.
Theorem renderDoc_final_newline_delLF_of : renderDoc_final_newline_statement ->
  forall c s, softBreak c = 0 -> s <> [] -> endsEol s = false -> lastByte s <> 62 -> delLF (renderDoc c (s ++ [10])) = delLF (renderDoc c s).
Proof. intros H c s Hc H1 H2 H3. apply LFI_delLF. pose proof (H c s H1 H2 H3) as HL. rewrite (sbr_0 c Hc) in HL. exact HL. Qed.
Theorem renderDoc_final_newline_delWs_of : renderDoc_final_newline_statement ->
  forall c s, softBreak c = 1 -> s <> [] -> endsEol s = false -> lastByte s <> 62 -> delWs (renderDoc c (s ++ [10])) = delWs (renderDoc c s).
Proof. intros H c s Hc H1 H2 H3. apply LFI_delWs. pose proof (H c s H1 H2 H3) as HL. rewrite (sbr_1 c Hc) in HL. exact HL. Qed.
