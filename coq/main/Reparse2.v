From Coq Require Import List ZArith Lia Bool.
Import ListNotations.
Require Import Base Tree Rdr Link Collect Html Recog LP Rules Starts Driver L2Kind L2Kind2 L2CC L2Bnd L2BndS TDefs TOcp TInv TDesc TShift Total
  GramDefs Rec17 StreamFuel SliceBase SliceReparse LADef LA1 LA11 LA13 ReparseDefs ReparseLocal ReparseFirst ReparseEof ReparseInv ReparseOpen ReparseFrame ReparseSI
  ReparseLineB ReparseE2 ReparseLineL ReparseE2L ReparsePlain ReparseRun BlankPrefix.
Open Scope Z_scope.

(* ====================================================================================================================
   T50, second round.  "Closing by the end of the input = closing by the following line", at the block layer.

   A root r of parseBlocks input is cut by a call nextBlock s with no pending children (Reach .. s, pending s = []).
   When the cut was made at the position read so far (bi s' = 0) the first round applies (Reparse.C16_cleanCut_partial).
   Here: the root was closed by the line that follows it.  B is the buffer of the line loop (a suffix of the padded input),
   T the start of that line, [c] the open root child before the line, stp the state of the line parser.

   lineB_all (ReparseLineL): a line that closes the open root child c at its own start T is processed exactly as if c had been
       closed (top down: closeBlock .. c T) before the line, up to the lastLineBlank flag of the closed list;
   frame_line (ReparseFrame): closed root children in front are left alone by the line (the last gets flagged by a blank line);
   closeBlock_SI (ReparseSI): closing at T does not read the source from T on (entries inside [0,T] by LinesAccounted's la);
   SC_list (ReparseSC): closing the last item, then the list = closing the list top down;
   E2_core_all (ReparseE2L): the re-parse of upto B T gives the root.

   Conditions that remain (exact):
     plainSpine: every open paragraph on the spine of c does not begin with '[' (its first byte, as read by the reader);
       for such paragraphs onCloseParagraph returns the paragraph itself, with or without the bytes after T.
       [Not proved: onCloseParagraph on a paragraph that begins with '[' is independent of the bytes after T.]
     when c is a paragraph, the root is no link reference definition (follows from plainSpine, stated separately because
       the line-level theorem needs it to exclude a setext underline).
   ==================================================================================================================== *)

Theorem E2_core_plain B f T stp c bij rest st' rb : noNul B ->
  lastLine f 0 [] 0 B = Some (T, stp, [c]) -> 0 < lineEnd B 0 -> isBlankLine (upto B (lineEnd B 0)) = false ->
  bij = lineEnd B T -> processLine stp [c] T (upto B bij) = (rb :: rest, st', 0) -> isOpen rb = false -> bend rb = T -> 0 < T -> T < bij ->
  (bkind c = ParagraphKind -> bkind rb <> LinkReferenceDefinitionKind) -> plainSpine (upto B bij) c ->
  exists y, parseBlocks (upto B T) = ([{| rb_line := 1; rb_start := 0; rb_end := T; rb_src := upto B T; rb_blk := y |}], 0) /\
            set_blast y false = set_blast rb false.
Proof.
  intros HN HL Hpos Hnb Ebij Hpl Hcl Hbe HT0 HTb Hnr Hplain.
  apply (E2_core_all B f T stp c bij rest st' rb HN HL Hpos Hnb Ebij Hpl Hcl Hbe HT0 HTb Hnr).
  pose proof (lastLine_inv f 0 [] 0 B T stp [c] (LInv_init B Hpos Hnb) HL) as HI.
  pose proof (lastLine_la f 0 [] 0 B T stp [c] HN (LInv_init B Hpos Hnb) (LaInv_init B) HL) as HLa.
  destruct HI as (Hls & _).
  assert (Hbb : T <= bij <= len B) by (rewrite Ebij; apply (lineEnd_spec B T Hls)).
  apply plain_spineEq; [rewrite L2BndS.len_upto by lia; lia| |exact Hplain].
  unfold LaInv in HLa. rewrite <- Ebij in HLa. apply la_eq in HLa. destruct HLa as (_ & _ & _ & _ & Hk). cbn [bkids docRoot allQ] in Hk. apply Hk.
Qed.

(* the root is cut by a call of nextBlock with no pending children, and was closed at the start T of the last line read *)
Definition lineCut (input : bytes) (r : rootB) : Prop :=
  exists s s' B f T stp c bij rest st',
    Reach (st0 (pad input)) s /\ pending s = [] /\ nextBlock (3 + length (buf s)) s = NBBlock r s' /\
    suffixOf B (buf s) /\ lastLine f 0 [] 0 B = Some (T, stp, [c]) /\ 0 < lineEnd B 0 /\ isBlankLine (upto B (lineEnd B 0)) = false /\
    bij = lineEnd B T /\ processLine stp [c] T (upto B bij) = (rb_blk r :: rest, st', 0) /\ isOpen (rb_blk r) = false /\
    rb_src r = upto B (bend (rb_blk r)) /\ bend (rb_blk r) = T /\ 0 < T /\ T < bij /\
    (bkind c = ParagraphKind -> bkind (rb_blk r) <> LinkReferenceDefinitionKind) /\ plainSpine (upto B bij) c.

Theorem C16_lineCut_partial input r : noNul input -> lineCut input r ->
  exists r', parseBlocks (rb_src r) = ([r'], 0) /\ aloneOf r' = aloneOf r.
Proof.
  intros HN (s & s' & B & f & T & stp & c & bij & rest & st' & HR & Hp & En & (k & EB) & HL & H1 & H2 & Ebij & Hpl & Hcl & Esrc & HbT & HT0 & HTb & Hnr & Hpl2).
  destruct (Reach_inv input s HN HR) as [_ HNs].
  assert (HNB : noNul B) by (rewrite EB; apply noNul_from, HNs).
  destruct (E2_core_plain B f T stp c bij rest st' (rb_blk r) HNB HL H1 H2 Ebij Hpl Hcl HbT HT0 HTb Hnr Hpl2) as (y & Hy1 & Hy2).
  rewrite Esrc, HbT. eexists. split; [exact Hy1|]. unfold aloneOf. cbn [rb_src rb_blk]. rewrite Hy2, Esrc, HbT.
  pose proof (lastLine_inv f 0 [] 0 B T stp [c] (LInv_init B H1 H2) HL) as (Hls & _).
  rewrite (L2BndS.len_upto B T Hls). reflexivity.
Qed.

Print Assumptions lineB_all.
Print Assumptions frame_line.
Print Assumptions closeBlock_SI.
Print Assumptions E2_core_all.
Print Assumptions E2_core_plain.
Print Assumptions C16_E2_call_all_partial.
Print Assumptions C16_lineCut_partial.
