From Coq Require Import List ZArith Lia Bool.
Import ListNotations.
Require Import Base Tables Utf8 Tree Driver C01a Props TilBase TilLP2 TilLP6 TilOcp TilFinal.
Open Scope Z_scope.

(* ================= C01: the root blocks tile the input =================

   Props.C01_statement :  forall input, chk_C01 input (fst (parseBlocks input)) = true
   where chk_C01 input rs = tiles input 0 rs, and tiles checks for every root block r, in order,
     prevEnd <= rb_start r <= rb_end r <= len input,
     the bytes of the input between prevEnd and rb_start r are blank (space, tab, CR, LF),
     rb_src r = replaceNul (sub input (rb_start r) (rb_end r)),
     rb_line r = 1 + specLines (upto input (rb_start r)),
     without NUL in the input: rb_end r - rb_start r = len (rb_src r),
   and, after the last root block, that the rest of the input is blank.

   What is proved here, for EVERY input:

   (1) C01_tiles_prefix: every clause about the root blocks that the run returns (TilBase.tilesP = tiles without the
       final "rest of the input is blank" clause) - whatever the result code of the run is.
   (2) C01_partial: the full checker chk_C01, whenever the run ends normally (result code 0, i.e. NextBlock reported
       the end of the input).

   What is missing for C01_statement itself is only liveness of the block layer, which this development does not have
   (see StreamEq.v: blocks_consume_statement is stated there as the missing fact): that the run never ends with code
   -1 (the S (length (pad input)) calls of NextBlock used up) or -2 (lineLoop/skipLoop out of fuel).  With a result
   code other than 0 the list of root blocks is a proper prefix of the document and the bytes after the last block
   need not be blank, so the last clause of tiles cannot be shown without that fact.  (Codes 1..8, the panics, are
   excluded by NoPanicAll.parseBlocks_no_panic.)  Hence:
       C01_statement  <->  (forall input, snd (parseBlocks input) = 0 \/ the rest after the last block is blank),
   and C01_of_total below derives C01_statement from totality of the run.

   No clause of tiles was found to be false of the model: the checker evaluates to true, and the result code is 0, on the
   examples of TilTest.v and on all strings of length <= 4 over the 17-byte alphabet of TilTest2.v (88741 inputs, 10 s;
   with `counter 5 []` instead of `counter 4 []`: all 1.5 million strings of length <= 5, 185 s, also no counterexample).

   How it is proved (one lemma per model function, as in L2Bnd/BlockSpans/GramBlocks):
   - TilBase: good cut positions (not inside a NUL triple, not between CR and LF), padCut_of_good (a good position of the
     padded buffer is the image of a position of the input), lineCount over clean splits, the checker split into clauses.
   - TilDefs: the invariant of the line parser on the children of the root: every closed root child ends at a good
     position (TA); while the root (or a root paragraph) is the container the consumed part of the line is spaces/tabs,
     and the bytes between the end of the last closed root child and the cursor are blank (TB1, TB2); the entries of an
     open root paragraph are line tails with blank gaps, good ends, tab-sized Indent entries (TP, PIk); only the last
     root child can be open (TC); no open setext heading (TS).
   - TilLP1..TilLP11: the invariant through advance, consumeIndent, closeBlock, openBlock, endBlock, collectInline, the
     match rules, descendOpenBlocks, the eight block starts, openNewBlocks, deferredClose, addLineText; TilLP12.processLine_K:
     one whole line.
   - TilRdr, TilRdr2, TilOcp: the multi-line reader over the entries of a root paragraph; readEOL returns a good position
     followed by blank bytes up to the reader; every link reference definition split off a paragraph ends at such a
     position and is closed; when the paragraph is used up the bytes after the last definition are blank
     (OcpPara_holds, OcpSetext_holds).
   - TilShift, TilStream*, TilFinal: the stream layer: BK (consumed prefix pre, buf = pad rest, boff = len pre,
     bline = 1 + lineCount pre, no CR|LF split), every makeRoot cut is a good position at or before bi, the bytes skipped
     between blocks are blank. *)

Theorem C01_tiles_prefix : forall input, tilesP input 0 (fst (parseBlocks input)) = true.
Proof. intros input. apply (parseBlocks_tiles OcpPara_holds OcpSetext_holds input). Qed.
Print Assumptions C01_tiles_prefix.

Theorem C01_partial : forall input, snd (parseBlocks input) = 0 -> chk_C01 input (fst (parseBlocks input)) = true.
Proof. intros input. apply (parseBlocks_tiles OcpPara_holds OcpSetext_holds input). Qed.
Print Assumptions C01_partial.

(* the same two results under the names asked for partial results *)
Definition C01_prefix_partial := C01_tiles_prefix.
Definition C01_code0_partial := C01_partial.

(* the full statement, from totality of the block layer *)
Definition parseBlocks_total : Prop := forall input, snd (parseBlocks input) = 0.
Theorem C01_of_total : parseBlocks_total -> C01_statement.
Proof. intros H input. apply C01_partial, H. Qed.
Print Assumptions C01_of_total.

(* the checker with the last clause made explicit: C01 holds exactly when the bytes after the last root block are blank *)
Theorem C01_iff_rest_blank : forall input,
  chk_C01 input (fst (parseBlocks input)) = forallb isBlankByte (from_ input (lastEnd 0 (fst (parseBlocks input)))).
Proof. intros input. unfold chk_C01. rewrite tiles_split, C01_tiles_prefix. reflexivity. Qed.
Print Assumptions C01_iff_rest_blank.
