(* T63-F1 (D2).  Copy of En3Drv.v over the invariant EolFinalFullHbE4Tree.en = En3Tree.en plus one clause (lastX): the last entry of a
   PARAGRAPH holds a byte that is not space / tab / line ending, and once the paragraph is closed it ends at the end of the block.
   Changes w.r.t. En3Drv.v: module names; the places that build or use that clause; closing lemmas take "a paragraph is open -> e = lineStart". *)
From Coq Require Import List ZArith Lia Bool.
Import ListNotations.
Require Import Base Tables Utf8 Tree Rdr Link Collect Html Recog Inl3a Inl3b Inl3c Inl3d Inl3e LP Rules Starts Driver Leaf3e RdrBound
  L2Kind L2CC L2CCfull L2Bnd L2BndS Rec16 Rec17 Rec18
  BSDef BSRdr BSTree BSOcp BSOrph BSClose BSLine1 BSLine2 BSLine3 BSLine4 BSLine5 BSLine6 BSLine7 BSLine8 BSErase BSLine9 BSLine10 BSShift BlockSpans.
Require Import BlockShapesNul.
Require Import ShDef ShapesBase EntBase EntOcpDefs EntOcp EolFinalFullHbE4Tree EntCur EolFinalFullHbE4Par EolFinalFullHbE4LP1 EolFinalFullHbE4LP8.
Open Scope Z_scope.

(* ================================================================================================
   T28, part 12: the driver (lines of the buffer, makeRoot, lineLoop, skipLoop, nextBlock, allBlocks).
   ================================================================================================ *)

(* ---- the lines of the buffer ---- *)
Lemma isEOLb_z c : isEOLb c = true <-> isEOLz c.
Proof.
  unfold isEOLb, isEOLz. rewrite orb_true_iff, !Z.eqb_eq. tauto.
Qed.
Lemma findEol_first : forall l i, 0 <= i -> forall k, 0 <= k -> (findEol l i < 0 \/ k < findEol l i - i) -> k < len l -> isEOLb (at_ l k) = false.
Proof.
  induction l as [|b r IH]; intros i Hi k Hk Hf Hl; [unfold len in Hl; cbn in Hl; lia|]. cbn [findEol] in Hf. rewrite ShapesBase.len_cons in Hl.
  destruct ((b =? 10) || (b =? 13)) eqn:Eb; [lia|].
  destruct (Z.eq_dec k 0) as [->|N]; [exact Eb|]. rewrite ShapesBase.at_S' by lia.
  apply (IH (i + 1)); [lia|lia| |lia]. destruct Hf as [Hf|Hf]; [left; exact Hf|right; lia].
Qed.

Lemma lineEnd_lineOK B ls : 0 <= ls <= len B -> lineOK B ls (lineEnd B ls).
Proof.
  intros Hls. destruct (lineEnd_spec B ls Hls) as [A Bq]. split; [lia|]. split; [lia|]. split; [lia|]. split.
  2:{ destruct (Z.lt_ge_cases (lineEnd B ls) (len B)) as [L|L]; [right|left; lia]. destruct (Bq L) as [C D]. split; [exact C|apply isEOLb_z, D]. }
  intros i Hi Hz. apply isEOLb_z in Hz.
  assert (Hfr : len (from_ B ls) = len B - ls) by (apply ShapesBase.len_from; lia).
  assert (Hat : forall k, 0 <= k -> at_ (from_ B ls) k = at_ B (ls + k)) by (intros k Hk; apply ShapesBase.at_from; lia).
  unfold lineEnd in *. cbv zeta in *.
  destruct (Z.ltb_spec (findEol (from_ B ls) ls) 0) as [L|L].
  { exfalso. pose proof (findEol_first (from_ B ls) ls ltac:(lia) (i - ls) ltac:(lia) ltac:(left; exact L) ltac:(lia)) as Hn.
    rewrite Hat in Hn by lia. replace (ls + (i - ls)) with i in Hn by lia. congruence. }
  destruct (findEol_spec (from_ B ls) ls L ltac:(lia)) as [F1 F2]. rewrite Hfr in F1. rewrite Hat in F2 by lia.
  set (e0 := findEol (from_ B ls) ls) in *. replace (ls + (e0 - ls)) with e0 in F2 by lia.
  assert (Hge : e0 <= i).
  { destruct (Z.le_gt_cases e0 i) as [X|X]; [exact X|]. exfalso.
    pose proof (findEol_first (from_ B ls) ls ltac:(lia) (i - ls) ltac:(lia) ltac:(right; fold e0; lia) ltac:(lia)) as Hn.
    rewrite Hat in Hn by lia. replace (ls + (i - ls)) with i in Hn by lia. congruence. }
  destruct (Z.eqb_spec (at_ B e0) 10) as [E10|N10]; [left; lia|].
  assert (E13 : at_ B e0 = 13) by (apply isEOLb_z in F2; destruct F2; [contradiction|assumption]).
  destruct (Z.ltb_spec (e0 + 1) (len B)) as [L2|L2]; [|left; lia].
  destruct (Z.eqb_spec (at_ B (e0 + 1)) 10) as [E2|N2]; [|left; lia].
  destruct (Z.eq_dec i e0) as [->|Ni]; [right; split; [lia|split; [exact E13|replace (e0 + 2 - 1) with (e0 + 1) by lia; exact E2]]|left; lia].
Qed.

Definition prevOK_pre (B : bytes) (i : Z) : Prop := i = 0 \/ isEOLz (at_ B (i - 1)) \/ i = len B.

(* ---- NUL triples: cutting at a position whose previous byte is not NUL keeps both parts aligned ---- *)
Lemma tri_pad : forall l, tri (pad l).
Proof.
  induction l as [|b r IH]; [constructor|]. change (pad (b :: r)) with ((if b =? 0 then [0; 0; 0] else [b]) ++ pad r).
  destruct (Z.eqb_spec b 0); cbn [app]; [apply tri_nul, IH|apply tri_cons; assumption].
Qed.
Lemma tri_cut : forall B, tri B -> forall n, bdy B n -> tri (upto B n) /\ tri (from_ B n).
Proof.
  induction 1 as [|b r Hb Ht IH|r Ht IH]; intros n Hn.
  - rewrite ShapesBase.upto_nil, ShapesBase.from_nil. split; constructor.
  - destruct (Z.le_gt_cases n 0) as [L|L]; [rewrite ShapesBase.upto_le0, ShapesBase.from_neg by lia; split; [constructor|constructor; assumption]|].
    rewrite ShapesBase.upto_cons', ShapesBase.from_cons' by lia.
    assert (Hn' : bdy r (n - 1)).
    { unfold bdy in *. rewrite ShapesBase.len_cons in Hn. destruct Hn as [X|[X|X]]; [lia|right; left; lia|].
      destruct (Z.eq_dec n 1) as [->|N1]; [left; lia|]. right. right. rewrite ShapesBase.at_S' in X by lia. replace (n - 1 - 1) with (n - 1 - 1) by lia. exact X. }
    destruct (IH _ Hn') as [I1 I2]. split; [constructor; assumption|exact I2].
  - destruct (Z.le_gt_cases n 0) as [L|L]; [rewrite ShapesBase.upto_le0, ShapesBase.from_neg by lia; split; [constructor|apply tri_nul; assumption]|].
    unfold bdy in Hn. rewrite !ShapesBase.len_cons in Hn. pose proof (ShapesBase.len_nonneg r) as Hlr.
    destruct (Z.eq_dec n 1) as [->|N1]; [exfalso; destruct Hn as [X|[X|X]]; [lia|lia|apply X; reflexivity]|].
    destruct (Z.eq_dec n 2) as [->|N2]; [exfalso; destruct Hn as [X|[X|X]]; [lia|lia|apply X; reflexivity]|].
    rewrite (ShapesBase.upto_cons' 0 _ n) by lia. rewrite (ShapesBase.upto_cons' 0 _ (n - 1)) by lia. rewrite (ShapesBase.upto_cons' 0 _ (n - 1 - 1)) by lia.
    rewrite (ShapesBase.from_cons' 0 _ n) by lia. rewrite (ShapesBase.from_cons' 0 _ (n - 1)) by lia. rewrite (ShapesBase.from_cons' 0 _ (n - 1 - 1)) by lia.
    assert (Hn' : bdy r (n - 1 - 1 - 1)).
    { unfold bdy. destruct Hn as [X|[X|X]]; [lia|right; left; lia|].
      destruct (Z.eq_dec n 3) as [->|N3]; [left; lia|]. right. right.
      rewrite ShapesBase.at_S' in X by lia. rewrite ShapesBase.at_S' in X by lia. rewrite ShapesBase.at_S' in X by lia.
      replace (n - 1 - 1 - 1 - 1) with (n - 1 - 1 - 1 - 1) by lia. exact X. }
    destruct (IH _ Hn') as [I1 I2]. split; [apply tri_nul; exact I1|exact I2].
Qed.
Lemma prevOK_bdy B i : prevOK_pre B i -> bdy B i.
Proof. intros [E|[E|E]]; [left; lia|right; right; destruct E as [E|E]; rewrite E; discriminate|right; left; lia]. Qed.

(* ---- the stream state ---- *)
Definition prevOK (B : bytes) (i : Z) : Prop := prevOK_pre B i.
Definition EJ (s : bpst) (ch : list block) : Prop := allP (en (buf s) (bi s)) ch /\ closedL (removelast ch) /\ prevOK (buf s) (bi s) /\ tri (buf s).

(* what is kept about a root block: its tree satisfies the invariant relative to the buffer it was cut from *)
Definition okRE (r : rootB) : Prop :=
  exists B M, 0 <= bend (rb_blk r) <= len B /\ rb_src r = fillNulls (upto B (bend (rb_blk r))) /\ en B M (rb_blk r) /\
              tri (upto B (bend (rb_blk r))).
Definition okNE (x : nb) : Prop :=
  match x with NBBlock r s' => okRE r /\ (exists ns, SJ s' (pending s') ns) /\ EJ s' (pending s') | _ => True end.

Lemma prevOK_shift B i n : 0 <= n <= i -> i <= len B -> prevOK B i -> prevOK (from_ B n) (i - n).
Proof.
  intros Hn Hi [E|[E|E]].
  - left. lia.
  - destruct (Z.eq_dec i n) as [->|N]; [left; lia|]. right. left. rewrite ShapesBase.at_from by lia. replace (n + (i - n - 1)) with (i - 1) by lia. exact E.
  - right. right. rewrite ShapesBase.len_from by lia. lia.
Qed.

Lemma en_end_bdy B M b : en B M b -> 0 <= bend b -> bdy B (bend b).
Proof. rewrite en_eq. intros ((_ & _ & _ & A & _) & _). exact A. Qed.

Lemma EJ_makeRoot s children ns r s' : SJ s children ns -> EJ s children -> makeRoot children s = Some (r, s') ->
  okRE r /\ EJ s' (pending s').
Proof.
  intros ((Hb & Hc & Hn) & Hcc & Ha & Hch) (He & Hrl & Hp & Ht) Hm.
  unfold makeRoot in Hm. destruct children as [|b rest]; [discriminate|].
  destruct (isOpen b) eqn:Eo; [discriminate|]. inversion Hm; subst. clear Hm.
  unfold isOpen in Eo. apply Z.ltb_ge in Eo. destruct Ha as [Sb Sr]. destruct Hch as (C1 & _ & C3). destruct He as [Eb Er].
  pose proof (sp_bounds _ _ Sb) as Hbb.
  destruct (tri_cut (buf s) Ht (bend b) (en_end_bdy _ _ _ Eb Eo)) as [T1 T2].
  split.
  - exists (buf s), (bi s). cbn [rb_blk rb_src]. split; [lia|split; [reflexivity|split; [exact Eb|exact T1]]].
  - split; [|split; [|split]]; cbn [buf bi pending].
    2:{ rewrite removelast_map. unfold closedL. apply allP_map, allP_intro. intros x Hx. cbn beta.
        assert (Hxr : In x rest) by (apply removelast_In, Hx).
        assert (Hxc : 0 <= bend x).
        { assert (Hin : In x (removelast (b :: rest))) by (destruct rest as [|y t]; [destruct Hx|right; exact Hx]).
          exact (allP_In _ _ _ Hrl Hin). }
        rewrite bend_shiftB. destruct (Z.leb_spec 0 (bend x)); [|lia].
        pose proof (chain_starts _ _ _ x C3 Hxr). pose proof (allP_In _ _ _ Sr Hxr) as Hsx. rewrite sp_eq in Hsx. destruct Hsx as (_ & Q & _). lia. }
    + apply allP_map. apply allP_intro. intros x Hx. apply (en_shift (buf s) (bend b) ltac:(lia) (bi s) (bi s)).
      * eapply allP_In; eassumption.
      * pose proof (chain_starts _ _ _ x C3 Hx). lia.
      * eapply allP_In; eassumption.
    + apply prevOK_shift; [lia|lia|exact Hp].
    + exact T2.
Qed.

Lemma EJ_lineLoop : forall fuel st children ls s ns, 0 <= ls <= len (buf s) -> bi s = lineEnd (buf s) ls ->
  bndL ls ns children = true -> (ns = false -> ls = len (buf s)) -> ccF children = true -> kidsOK ls children ->
  allP (en (buf s) ls) children -> closedL (removelast children) -> prevOK (buf s) ls -> tri (buf s) ->
  okNE (lineLoop fuel st children ls s).
Proof.
  induction fuel as [|f IH]; intros st children ls s ns Hls Hbi Hc Hn Hcc Hk He Hrl Hp Ht; [exact I|]. cbn [lineLoop].
  destruct (lineEnd_spec (buf s) ls Hls) as [A B]. rewrite <- Hbi in A, B.
  set (ln := from_ (upto (buf s) (bi s)) ls).
  destruct (line_of (buf s) ls (bi s) ltac:(lia) ltac:(lia)) as [Ll _]. fold ln in Ll.
  set (ns' := if ns then hasByteSuffixEOL ln else false).
  assert (Hc' : bndL (bi s) ns' children = true).
  { unfold ns'. destruct ns.
    - pose proof (bndL_mono ls (bi s) children ltac:(lia) Hc) as Hm. destruct (hasByteSuffixEOL ln); [exact Hm|apply bndL_weaken, Hm].
    - rewrite (Hn eq_refl) in *. replace (bi s) with (len (buf s)) by lia. exact Hc. }
  assert (Hn' : ns' = false -> bi s = len (buf s)).
  { unfold ns'. destruct ns; [|intros _; rewrite (Hn eq_refl) in *; lia].
    intros Ee. destruct (Z.lt_ge_cases (bi s) (len (buf s))) as [Lt|Ge]; [|lia].
    exfalso. rewrite Hbi in Lt. pose proof (line_hasEOL (buf s) ls Hls Lt) as Hh. rewrite <- Hbi in Hh. fold ln in Hh. congruence. }
  pose proof (bnd_processLine (bi s) ns' st children ls (upto (buf s) (bi s)) ltac:(lia) ltac:(lia) ltac:(fold ln; lia)
                ltac:(rewrite L2BndS.len_upto by lia; lia) ltac:(unfold ns'; fold ln; destruct ns; [tauto|discriminate]) Hc') as H1.
  pose proof (sp_processLine (bi s) ns' st children ls (upto (buf s) (bi s)) ltac:(lia) ltac:(lia) ltac:(fold ln; lia)
                ltac:(rewrite L2BndS.len_upto by lia; lia) ltac:(unfold ns'; fold ln; destruct ns; [tauto|discriminate]) Hc' Hcc Hk) as H2.
  pose proof (cc_processLine st children ls (upto (buf s) (bi s)) Hcc) as H3.
  pose proof (ent_processLine (buf s) (bi s) st children ls ltac:(lia) ltac:(lia) ltac:(lia) Hp
                ltac:(rewrite Hbi; apply lineEnd_lineOK, Hls) Hcc Hk He Hrl) as H4.
  destruct (processLine st children ls (upto (buf s) (bi s))) as [[children' st'] pn]. cbn [fst] in H1, H2, H3, H4.
  destruct (negb (pn =? 0)); [exact I|].
  assert (HS : SJ s children' ns') by (split; [repeat split; try lia; assumption|split; assumption]).
  assert (Hp' : prevOK (buf s) (bi s)).
  { destruct (Z.lt_ge_cases (bi s) (len (buf s))) as [Lt|Ge]; [|right; right; lia]. destruct (B Lt) as [_ D]. right. left. apply isEOLb_z, D. }
  destruct H4 as [H4 H4'].
  assert (HE : EJ s children') by (split; [assumption|split; [assumption|split; assumption]]).
  destruct (makeRoot children' s) as [[r s']|] eqn:Em.
  - cbn [okNE]. destruct (SJ_makeRoot _ _ _ _ _ HS Em) as [_ Hs']. destruct (EJ_makeRoot _ _ _ _ _ HS HE Em) as [Hr He'].
    split; [exact Hr|split; [eauto|exact He']].
  - apply (IH st' children' (bi s) _ ns'); cbn [buf bi]; try assumption; try lia; reflexivity.
Qed.

Lemma EJ_skipLoop : forall fuel s, bi s = 0 -> tri (buf s) -> okNE (skipLoop fuel s).
Proof.
  induction fuel as [|f IH]; intros s Hb Ht; [exact I|]. cbn [skipLoop]. cbv zeta.
  destruct (negb _); [exact I|].
  assert (Hls : 0 <= bi s <= len (buf s)) by (pose proof (len_nonneg (buf s)); lia).
  destruct (isBlankLine _).
  - apply IH; [reflexivity|]. cbn [buf]. apply tri_cut; [exact Ht|]. apply prevOK_bdy.
    destruct (lineEnd_spec (buf s) (bi s) Hls) as [A B]. destruct (Z.lt_ge_cases (lineEnd (buf s) (bi s)) (len (buf s))) as [Lt|Ge]; [|right; right; lia].
    destruct (B Lt) as [_ D]. right. left. apply isEOLb_z, D.
  - apply (EJ_lineLoop f 0 [] 0 _ true); cbn [buf bi];
      [lia|rewrite Hb; reflexivity|reflexivity|discriminate|reflexivity|split; exact I|exact I|exact I|left; reflexivity|exact Ht].
Qed.

Lemma EJ_nextBlock fuel s ns : SJ s (pending s) ns -> EJ s (pending s) -> okNE (nextBlock fuel s).
Proof.
  intros HS HE. unfold nextBlock. destruct (makeRoot (pending s) s) as [[r s']|] eqn:Em.
  - cbn [okNE]. destruct (SJ_makeRoot _ _ _ _ _ HS Em) as [_ Hs']. destruct (EJ_makeRoot _ _ _ _ _ HS HE Em) as [Hr He'].
    split; [exact Hr|split; [eauto|exact He']].
  - destruct HS as ((Hb & Hc & Hn) & Hcc & Hk). destruct HE as (He & Hrl & Hp & Ht). destruct (pending s) as [|b0 rest] eqn:Ep.
    + apply EJ_skipLoop; [reflexivity|]. cbn [buf]. apply tri_cut; [exact Ht|apply prevOK_bdy, Hp].
    + apply (EJ_lineLoop fuel 0 (b0 :: rest) (bi s) _ ns); cbn [buf bi]; try assumption; try lia; reflexivity.
Qed.

Lemma EJ_allBlocks : forall fuel s acc ns, SJ s (pending s) ns -> EJ s (pending s) -> Forall okRE acc -> Forall okRE (fst (allBlocks fuel s acc)).
Proof.
  induction fuel as [|f IH]; intros s acc ns HS HE Ha; [exact Ha|]. cbn [allBlocks].
  pose proof (EJ_nextBlock (3 + length (buf s)) s ns HS HE) as Hn.
  destruct (nextBlock _ s) as [r s'| | |]; try exact Ha.
  destruct Hn as (Hr & (ns' & Hs') & He'). apply (IH s' _ ns'); [exact Hs'|exact He'|]. apply Forall_app. split; [exact Ha|]. constructor; [exact Hr|constructor].
Qed.

Theorem parseBlocks_okRE : forall input, Forall okRE (fst (parseBlocks input)).
Proof.
  intros input. unfold parseBlocks. apply (EJ_allBlocks _ _ _ true); [| |constructor].
  - split; [|split; [reflexivity|split; exact I]].
    unfold SI. cbn [buf bi pending]. pose proof (len_nonneg (pad input)). repeat split; try lia.
  - split; [exact I|split; [exact I|split; [left; reflexivity|apply tri_pad]]].
Qed.
Print Assumptions parseBlocks_okRE.
