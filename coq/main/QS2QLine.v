(* QS2QLine.v -- T58: one line of the quoted run against the plain run at the cursor (2, 2), with the flags of the closed children exact:
   QuoteSimQLine.processLine_quoted with the frame of QS2Nest. *)
From Coq Require Import List ZArith Lia Bool Arith.
Import ListNotations.
Require Import Base Tree Rdr Link Collect Html Recog LP Rules Starts Driver L2Kind L2Kind2 L2CC NoPanic47 SlicePara QuoteSimTree QuoteSimNest QuoteSimQLine QuoteSimAux QS2Nest.
Open Scope Z_scope.

(* the plain run at the cursor (2, 2) on a blank rest, with no children: the blank-line rule fires at the top *)
Lemma plainAt_blank ls src rest : from_ src ls = 62 :: 32 :: rest -> isBlankLine rest = true ->
  (trimLeftSpTab rest = [] \/ trimLeftSpTab rest = [10]) ->
  let p0 := resetLPAt 2 2 stDescending [] ls src in
  exists q, (let '(am, p1) := descend_loop (bheight (root p0)) p0 0 in
             if negb (state p1 =? stDescendTerminated) then openNewBlocks p1 am else (false, p1)) = (true, q) /\ blankX q = true.
Proof.
  intros Hl Hbl Hb. cbv zeta. set (p0 := resetLPAt 2 2 stDescending [] ls src).
  change (descend_loop (bheight (root p0)) p0 0) with (true, withCont p0 (Some O)). cbv beta iota zeta.
  change (state (withCont p0 (Some O))) with stDescending. change (stDescending =? stDescendTerminated) with false. cbn [negb].
  unfold openNewBlocks. change (line (withCont p0 (Some O))) with (from_ src ls). rewrite Hl.
  pose proof (len2_pos 62 32 rest) as Hlen. destruct (Z.eqb_spec (len (62 :: 32 :: rest)) 0) as [E0|_]; [lia|].
  cbn [opening_loop]. change (containerKind (withCont p0 (Some O))) with documentKind.
  change ((documentKind =? ParagraphKind) || negb (acceptsLines documentKind)) with true. cbv iota.
  set (q := withState (withCont p0 (Some O)) stOpening).
  assert (Eln : line q = 62 :: 32 :: rest) by (unfold q, p0, resetLPAt; cbn [line withState withCont setLP]; exact Hl).
  assert (Eli : li q = 2) by reflexivity.
  assert (Erest : LP.rest q = rest) by (unfold LP.rest; rewrite Eln, Eli; reflexivity).
  assert (Eb : bytesAfterIndent q = trimLeftSpTab rest) by (unfold bytesAfterIndent; rewrite Erest; reflexivity).
  assert (Er : isRestBlank q = true) by (unfold isRestBlank; rewrite Erest; exact Hbl).
  assert (Ek : containerKind q = documentKind) by reflexivity.
  assert (Et : tryStarts blockStarts (withCont p0 (Some O)) = (false, q)).
  { apply tryStarts_id; [|discriminate]. fold q. intros f Hin. unfold blockStarts in Hin. cbn [In] in Hin.
    destruct Hin as [<-|[<-|[<-|[<-|[<-|[<-|[<-|[<-|[]]]]]]]]].
    - unfold startBlockQuote. cbv zeta. destruct (_ <=? _); [reflexivity|]. rewrite Eb. destruct Hb as [-> | ->]; reflexivity.
    - unfold startATX. cbv zeta. destruct (_ <=? _); [reflexivity|]. rewrite Eb. destruct Hb as [-> | ->]; reflexivity.
    - unfold startFenced. cbv zeta. destruct (_ <=? _); [reflexivity|]. rewrite Eb. destruct Hb as [-> | ->]; reflexivity.
    - unfold startHTML. cbv zeta. destruct (_ <=? _); [reflexivity|]. rewrite Eb. destruct Hb as [-> | ->]; reflexivity.
    - unfold startSetext. cbv zeta. rewrite Ek. reflexivity.
    - unfold startThematic. cbv zeta. destruct (_ <=? _); [reflexivity|]. rewrite Eb. destruct Hb as [-> | ->]; reflexivity.
    - unfold startListItem. cbv zeta. destruct (_ <=? _); [reflexivity|]. rewrite Eb. destruct Hb as [-> | ->]; reflexivity.
    - unfold startIndented. rewrite Er. rewrite orb_true_r. reflexivity. }
  rewrite Et. cbv beta iota zeta. exists q. split; [reflexivity|]. unfold blankX. rewrite Er. reflexivity.
Qed.

Theorem processLine_quoted2 (fr : frame) stQ bq ks ls src rest :
  from_ src ls = 62 :: 32 :: rest ->
  bkind bq = BlockQuoteKind -> isOpen bq = true -> auxOf bq = snd fr -> bkids bq = fst fr ++ ks -> Forall closedB (fst fr) ->
  ccF ks = true ->
  exists bq' (beta : bool),
    processLine stQ [bq] ls src =
      ([bq'], snd (fst (processLineAt 2 2 stDescending ks ls src)), snd (processLineAt 2 2 stDescending ks ls src)) /\
    bkind bq' = BlockQuoteKind /\ isOpen bq' = true /\ auxOf bq' = snd fr /\
    Forall closedB (fst (blankFr beta fr)) /\
    bkids bq' = fst (blankFr beta fr) ++ fst (fst (processLineAt 2 2 stDescending ks ls src)) /\
    (beta = true -> fst (fst (processLineAt 2 2 stDescending ks ls src)) = []) /\
    (ks = [] -> isBlankLine rest = true -> (trimLeftSpTab rest = [] \/ trimLeftSpTab rest = [10]) -> beta = true).
Proof.
  intros Hl Hk Ho Ha Hkids Hcl Hcc. rewrite processLine_tail. unfold processLineAt, processTail.
  rewrite (descend_quote stQ bq ls src rest Hl Hk Ho).
  set (q1 := {| source := src; root := Blk documentKind 0 (-1) [bq] [] 0 0 0 false false; container := Some 1%nat; lineStart := ls;
                line := 62 :: 32 :: rest; li := 2; col := 2; tabRem := computeTabRem (62 :: 32 :: rest) 2 2; state := stDescending; panicked := 0 |}).
  set (p0 := resetLPAt 2 2 stDescending ks ls src).
  assert (H0 : N fr p0 q1).
  { unfold p0, q1, resetLPAt. rewrite Hl. cbv zeta. apply N_mk. split.
    - exists O. repeat split. discriminate.
    - exists bq. split; [reflexivity|]. unfold topRel. cbn [bkind bkids]. repeat split; try assumption. exists (fst fr). repeat split; assumption. }
  assert (F0 : F p0) by (apply F_resetLPAt, Hcc).
  assert (HB : ks = [] -> isBlankLine rest = true -> (trimLeftSpTab rest = [] \/ trimLeftSpTab rest = [10]) ->
               exists q, (let '(am, p1) := descend_loop (bheight (root p0)) p0 0 in
                          if negb (state p1 =? stDescendTerminated) then openNewBlocks p1 am else (false, p1)) = (true, q) /\ blankX q = true).
  { intros E0 Hb1 Hb2. unfold p0. rewrite E0. apply (plainAt_blank ls src rest Hl Hb1 Hb2). }
  unfold descendOpenBlocks.
  pose proof (N_descend_loop fr (bheight (root p0)) (bheight bq) p0 q1 O H0 ltac:(discriminate) ltac:(lia)
                ltac:(unfold q1; cbn [root]; rewrite bheight_doc1; lia)) as [Eam H1].
  pose proof (F_descend_loop (bheight (root p0)) p0 O F0 ltac:(eexists; reflexivity)) as F1.
  pose proof (line_descend_loop (bheight (root p0)) p0 O) as L1.
  destruct (descend_loop (bheight (root p0)) p0 0) as [am p1]. destruct (descend_loop (bheight bq) q1 1) as [am' q1']. cbn [fst snd] in *. subst am'.
  rewrite (N_state _ _ _ H1).
  assert (H2 : relBP fr (if negb (state p1 =? stDescendTerminated) then openNewBlocks p1 am else (false, p1))
                        (if negb (state p1 =? stDescendTerminated) then openNewBlocks q1' am else (false, q1')) /\
               (fst (if negb (state p1 =? stDescendTerminated) then openNewBlocks p1 am else (false, p1)) = true ->
                goodSt' (snd (if negb (state p1 =? stDescendTerminated) then openNewBlocks p1 am else (false, p1))))).
  { destruct (negb _).
    - split.
      + apply N_openNewBlocks; [exact F1|exact H1|]. rewrite L1. unfold p0, resetLPAt. cbn [line]. rewrite Hl. pose proof (len2_pos 62 32 rest). lia.
      + intros Ht Hacc. left. apply (L2Kind2.openNewBlocks_good p1 am Ht Hacc).
    - split; [apply relBP_mk, H1|cbn; discriminate]. }
  destruct H2 as [[Eht H2] G2].
  destruct (if negb (state p1 =? stDescendTerminated) then openNewBlocks p1 am else (false, p1)) as [ht p2].
  destruct (if negb (state p1 =? stDescendTerminated) then openNewBlocks q1' am else (false, q1')) as [ht' q2]. cbn [fst snd] in *. subst ht'.
  set (beta := ht && blankX p2).
  assert (H3 : N (blankFr beta fr) (if ht then addLineText p2 else p2) (if ht then addLineText q2 else q2)).
  { unfold beta. destruct ht; [cbn [andb]; apply N_addLineText; [exact H2|exact (G2 eq_refl)]|exact H2]. }
  assert (HX : beta = true -> bkids (root (if ht then addLineText p2 else p2)) = []).
  { unfold beta. intros Hb. apply andb_true_iff in Hb. destruct Hb as [-> Hb]. apply addLineText_blankX; [exact Hb|apply (N_root_doc _ _ _ H2)]. }
  assert (HB' : ks = [] -> isBlankLine rest = true -> (trimLeftSpTab rest = [] \/ trimLeftSpTab rest = [10]) -> beta = true).
  { intros E0 Hb1 Hb2. destruct (HB E0 Hb1 Hb2) as (q & Eq & Xq). inversion Eq; subst. unfold beta. rewrite Xq. reflexivity. }
  set (p3 := if ht then addLineText p2 else p2) in *. set (q3 := if ht then addLineText q2 else q2) in *. clearbody p3 q3.
  pose proof (N_state _ _ _ H3) as Es. pose proof (N_panicked _ _ _ H3) as Ep.
  destruct H3 as (_ & _ & _ & _ & _ & _ & _ & _ & _ & bq' & Ebq & (K1 & K2 & K3 & KA & dn & E1 & E2 & E3)).
  exists bq', beta. rewrite Ebq, Es, Ep. subst dn.
  assert (KA' : auxOf bq' = snd fr) by (rewrite KA; unfold blankFr; destruct beta; reflexivity).
  repeat split; assumption.
Qed.
Print Assumptions processLine_quoted2.
