From Coq Require Import List ZArith Lia Bool.
Import ListNotations.
Require Import Base Tree Driver Inl3e Render EolFinalDefs EolFinalFullDefs EolFinalRenderBase.
Open Scope Z_scope.

(* ====================================================================================================
   C14, final-newline clause, renderer: statements one might expect that are FALSE on the model (witnesses by vm_compute).
   ==================================================================================================== *)
Definition cSafe (sb : Z) : cfg := {| softBreak := sb; ignoreRaw := true; filterOn := false; filterP := fun _ => false |}.
Definition cRaw (sb : Z) : cfg := {| softBreak := sb; ignoreRaw := false; filterOn := false; filterP := fun _ => false |}.

(* (a) literal equality in safe mode, default soft breaks, WITHOUT the condition on trailing spaces:
       "a  " renders <p>a  </p>, "a  \n" renders <p>a  \n</p>  (the final Text node swallows "  \n") *)
Definition safe_literal_unrestricted : Prop :=
  forall c s, ignoreRaw c = true -> softBreak c = 0 -> s <> [] -> endsEol s = false -> lastByte s <> 62 ->
    renderDoc c (s ++ [10]) = renderDoc c s.
Theorem safe_literal_unrestricted_refuted : ~ safe_literal_unrestricted.
Proof.
  intros H. specialize (H (cSafe 0) [97; 32; 32] eq_refl eq_refl ltac:(discriminate) eq_refl ltac:(vm_compute; discriminate)).
  vm_compute in H. discriminate.
Qed.
Print Assumptions safe_literal_unrestricted_refuted.

(* (b) "equal, or one more LF at the very end": false already in safe mode ("a  ": the LF is written before </p>),
       and in raw mode for an HTML block inside a container ("> <div>\n> x": the LF is written before </blockquote>) *)
Definition end_lf_statement (c : cfg) : Prop :=
  forall s, s <> [] -> endsEol s = false -> lastByte s <> 62 ->
    renderDoc c (s ++ [10]) = renderDoc c s \/ renderDoc c (s ++ [10]) = renderDoc c s ++ [10].
Theorem end_lf_safe_refuted : ~ end_lf_statement (cSafe 0).
Proof.
  intros H. destruct (H [97; 32; 32] ltac:(discriminate) eq_refl ltac:(vm_compute; discriminate)) as [E|E]; vm_compute in E; discriminate.
Qed.
Theorem end_lf_raw_refuted : ~ end_lf_statement (cRaw 0).
Proof.
  intros H. destruct (H [62; 32; 60; 100; 105; 118; 62; 10; 62; 32; 120] ltac:(discriminate) eq_refl ltac:(vm_compute; discriminate)) as [E|E]; vm_compute in E; discriminate.
Qed.
Print Assumptions end_lf_safe_refuted.
Print Assumptions end_lf_raw_refuted.

(* (c) outside the default soft-break mode the synthetic line break at the end of a code block that is cut by the end of
       input is written as " " (softBreak 1) or "<br>\n" (softBreak 2), while the text line of the input with the final
       newline carries its LF: "```\na" gives <pre><code>a </code></pre> / <pre><code>a<br>\n</code></pre> against
       <pre><code>a\n</code></pre>.  So equality after deleting LF bytes fails for softBreak 1 and 2, also in safe mode. *)
Definition delLF_statement (sb : Z) : Prop :=
  forall c s, softBreak c = sb -> s <> [] -> endsEol s = false -> lastByte s <> 62 -> delLF (renderDoc c (s ++ [10])) = delLF (renderDoc c s).
Theorem delLF_softBreak1_refuted : ~ delLF_statement 1.
Proof.
  intros H. specialize (H (cSafe 1) [96; 96; 96; 10; 97] eq_refl ltac:(discriminate) eq_refl ltac:(vm_compute; discriminate)).
  vm_compute in H. discriminate.
Qed.
Theorem delLF_softBreak2_refuted : ~ delLF_statement 2.
Proof.
  intros H. specialize (H (cSafe 2) [96; 96; 96; 10; 97] eq_refl ltac:(discriminate) eq_refl ltac:(vm_compute; discriminate)).
  vm_compute in H. discriminate.
Qed.
(* ... and for softBreak 2 even after deleting LF and space bytes (a <br> element remains) *)
Definition delWs_statement (sb : Z) : Prop :=
  forall c s, softBreak c = sb -> s <> [] -> endsEol s = false -> lastByte s <> 62 -> delWs (renderDoc c (s ++ [10])) = delWs (renderDoc c s).
Theorem delWs_softBreak2_refuted : ~ delWs_statement 2.
Proof.
  intros H. specialize (H (cSafe 2) [96; 96; 96; 10; 97] eq_refl ltac:(discriminate) eq_refl ltac:(vm_compute; discriminate)).
  vm_compute in H. discriminate.
Qed.
Print Assumptions delLF_softBreak1_refuted.
Print Assumptions delLF_softBreak2_refuted.
Print Assumptions delWs_softBreak2_refuted.
