From Coq Require Import List ZArith Lia Bool.
Import ListNotations.
Require Import Base Tables Utf8 Tree Rdr Link Collect LP ShapesBase ShapesR IFBase IFLink IFCollect EolCRLFDefs EolCRLFSimBytes EolCRLFSimStream
  EolGenCrlfRdrDefs EolGenCrlfRdrStep EolGenCrlfRdrNext EolGenCrlfRdrLink EolGenCrlfRdrLink2 EolGenCrlfRdrLink3
  EolGenCrlfRdrColl EolGenCrlfRdrColl2 EolGenCrlfRdrTlr.
Open Scope Z_scope.

(* C14 (ii), CRLF clause: the loop of onCloseParagraph on the two sources. *)

Definition ocpLabel (rf : nat) (src : bytes) (ik : list inline) (linner : Z * Z) : inline :=
  Inl LinkLabelKind (fst linner) (snd linner) 0
      (transformLinkReferenceSpan rf src ik (fst linner) (snd linner))
      (collectTextNodes rf (newReader src ik (fst linner)) (snd linner) TextKind false).
Definition ocpPart (K : Z) (rf : nat) (src : bytes) (ik : list inline) (sp tx : Z * Z) : inline :=
  Inl K (fst sp) (snd sp) 0 [] (collectTextNodes rf (newReader src ik (fst tx)) (snd tx) TextKind true).
Definition withOrph (orphan : option block) (res : list block) : list block := match orphan with Some o => res ++ [o] | None => res end.
Definition ocpCut (orig : block) (orphan : option block) (res1 : list block) (pos : Z) (k : block -> list block) : list block :=
  let fc := nodeIndexForPosition (bik orig) pos in
  if fc <? 0 then withOrph orphan res1 else k (set_bik (set_bstart orig pos) (from_ (bik orig) fc)).

Lemma ocp_loop_S f rf src orig orphan r result : ocp_loop (S f) rf src orig orphan r result =
  let '(lspan, linner, r1) := parseLinkLabel rf r in
  if negb (spanValid lspan) then result ++ [orig] else
  let '(c, r2) := current r1 in
  if negb (c =? 58) then result ++ [orig] else
  let '(_, r3) := next r2 in
  let '(ok, r4) := skipLinkSpace rf r3 in
  if negb ok then result ++ [orig] else
  let '(dspan, dtext, r5) := parseLinkDestination rf r4 in
  if negb (spanValid dspan) then result ++ [orig] else
  let '(destEOL, r6) := readEOL rf r5 in
  let '(c6, r7) := current r6 in
  if (destEOL <? 0) && (r_pos r6 =? r_pos r5) && negb (c6 =? 0) then result ++ [orig] else
  let ik := bik orig in
  let lab := ocpLabel rf src ik linner in
  let dst := ocpPart LinkDestinationKind rf src ik dspan dtext in
  let res1 := result ++ [refDefBlock (fst lspan) destEOL [lab; dst]] in
  let '(ok2, r8) := skipLinkSpace rf r7 in
  if negb ok2 then withOrph orphan res1 else
  let '(tspan, ttext, r9) := parseLinkTitle rf r8 in
  if negb (spanValid tspan) then
    if destEOL <? 0 then result ++ [orig] else
    ocpCut orig orphan res1 (r_pos r6) (fun orig' => ocp_loop f rf src orig' orphan r6 res1)
  else
  let '(titleEOL, r10) := readEOL rf r9 in
  if titleEOL <? 0 then
    if destEOL <? 0 then result ++ [orig] else
    ocpCut orig orphan res1 (r_pos r6) (fun orig' => result ++ [refDefBlock (fst lspan) destEOL [lab; dst]] ++ [orig'])
  else
  let ttl := ocpPart LinkTitleKind rf src ik tspan ttext in
  let nb := refDefBlock (fst lspan) titleEOL [lab; dst; ttl] in
  let fc := nodeIndexForPosition ik (r_pos r10) in
  if fc <? 0 then withOrph orphan (result ++ [nb])
  else ocp_loop f rf src (set_bik (set_bstart orig (r_pos r10)) (from_ ik fc)) orphan r10 (result ++ [nb]).
Proof. reflexivity. Qed.

Lemma bik_phiB R b : bik (phiB R b) = map (phiI R) (bik b). Proof. destruct b; reflexivity. Qed.
Lemma bkind_phiB R b : bkind (phiB R b) = bkind b. Proof. destruct b; reflexivity. Qed.
Lemma bend_phiB R b : bend (phiB R b) = phiP R (bend b). Proof. destruct b; reflexivity. Qed.
Lemma phiB_set_bstart R b p : phiB R (set_bstart b p) = set_bstart (phiB R b) (phiP R p). Proof. destruct b; reflexivity. Qed.
Lemma phiB_set_bik R b l : phiB R (set_bik b l) = set_bik (phiB R b) (map (phiI R) l). Proof. destruct b; reflexivity. Qed.
Lemma phiB_refDef R s e kids : phiB R (refDefBlock s e kids) = refDefBlock (phiP R s) (phiP R e) (map (phiI R) kids). Proof. reflexivity. Qed.
Lemma withOrph_map R o res : withOrph (option_map (phiB R) o) (map (phiB R) res) = map (phiB R) (withOrph o res).
Proof. destruct o; cbn [withOrph option_map]; [rewrite map_app; reflexivity|reflexivity]. Qed.

Section OcpSim.
  Variable R : bytes.
  Variable Eb : Z.
  Hypothesis R13 : ~ In 13 R.
  Notation P := (phiP R).
  Notation R' := (crlf R).
  Notation F := (phiI R).
  Notation B := (phiB R).
  Notation RR := (RR R Eb).
  Notation RM := (RM R Eb).
  Notation SPI := (SPI R Eb).
  Notation mapS := (mapS R).

  Lemma spanValid_mapS s : spanValid (mapS s) = spanValid s.
  Proof. unfold spanValid, EolGenCrlfRdrLink3.mapS. cbn [fst snd]. rewrite !P_nonneg_b, P_leb. reflexivity. Qed.
  Lemma nifp_F ik p : nodeIndexForPosition (map F ik) (P p) = nodeIndexForPosition ik p.
  Proof. unfold nodeIndexForPosition. apply nodeIdx_F, posR_sync. Qed.

  (* ---- the label never ends beyond the bound (single run) ---- *)
  Lemma SPI_next r : SPI (r_spans r) -> SPI (r_spans (snd (next r))).
  Proof. intros H. destruct (sufx_next r) as (p & E). rewrite E in H. apply (SPI_app_r R Eb) in H. exact H. Qed.
  Lemma SPI_nextE r ok r2 : SPI (r_spans r) -> next r = (ok, r2) -> SPI (r_spans r2).
  Proof. intros H E. replace r2 with (snd (next r)) by (rewrite E; reflexivity). apply SPI_next, H. Qed.
  Lemma SPI_currentE r c r1 : SPI (r_spans r) -> current r = (c, r1) -> SPI (r_spans r1).
  Proof. intros H E. replace r1 with (snd (current r)) by (rewrite E; reflexivity). apply (SPI_current R Eb), H. Qed.
  Lemma next_ok_bound r r2 : SPI (r_spans r) -> next r = (true, r2) -> r_pos r + 1 <= Eb.
  Proof.
    intros G E. destruct (next_true r r2 E) as (node & rest & _ & Hh & (pre & Epre) & _).
    rewrite Epre in G. apply (SPI_app_r R Eb) in G. destruct G as (_ & _ & _ & _ & G). cbn [forallb] in G. apply andb_true_iff in G. destruct G as [G _].
    apply Z.leb_le in G. pose proof (spanHas_range _ _ Hh) as (_ & _ & S3). lia.
  Qed.
  Lemma ll_body_bound : forall f r ch ie r2 ie2, SPI (r_spans r) -> ll_body f r ch ie = Some (r2, ie2) -> ie <= Eb -> ie2 <= Eb.
  Proof.
    induction f as [|f IH]; intros r ch ie r2 ie2 G E Hi; [discriminate E|]. cbn [ll_body] in E.
    destruct (current r) as [c r1] eqn:Ec. pose proof (SPI_currentE r c r1 G Ec) as G1.
    assert (Ep : r_pos r1 = r_pos r) by (replace r1 with (snd (current r)) by (rewrite Ec; reflexivity); apply pos_current).
    destruct (negb _); [inversion E; subst; exact Hi|].
    destruct (c =? 92).
    - destruct (next r1) as [ok r2a] eqn:En. destruct ok; cbn [negb] in E; [|discriminate E].
      pose proof (next_ok_bound r1 r2a G1 En) as B1. pose proof (SPI_nextE _ _ _ G1 En) as G2.
      destruct (current r2a) as [c2 r3] eqn:Ec2. pose proof (SPI_currentE _ _ _ G2 Ec2) as G3.
      destruct (next r3) as [ok2 r4] eqn:En2. destruct ok2; cbn [negb] in E; [|discriminate E].
      pose proof (next_ok_bound r3 r4 G3 En2) as B3. pose proof (SPI_nextE _ _ _ G3 En2) as G4.
      eapply IH; [exact G4|exact E|]. destruct (negb (isSpaceTabOrLineEnding c2)); lia.
    - destruct (next r1) as [ok r2a] eqn:En. destruct ok; cbn [negb] in E; [|discriminate E].
      pose proof (next_ok_bound r1 r2a G1 En) as B1. pose proof (SPI_nextE _ _ _ G1 En) as G2.
      eapply IH; [exact G2|exact E|]. destruct (negb (isSpaceTabOrLineEnding c)); lia.
  Qed.
  Lemma ll_skip_SPI : forall f r ch r2 ch2, SPI (r_spans r) -> ll_skip f r ch = Some (r2, ch2) -> SPI (r_spans r2).
  Proof.
    induction f as [|f IH]; intros r ch r2 ch2 G E; [discriminate E|]. cbn [ll_skip] in E.
    destruct (next r) as [ok r1] eqn:En. destruct ok; cbn [negb] in E; [|discriminate E]. pose proof (SPI_nextE _ _ _ G En) as G1.
    destruct (current r1) as [c r2a] eqn:Ec. pose proof (SPI_currentE _ _ _ G1 Ec) as G2.
    destruct (_ || _ || _); [discriminate E|]. destruct (negb _); [inversion E; subst; exact G2|]. eapply IH; [exact G2|exact E].
  Qed.
  Lemma parseLinkLabel_bound f r : SPI (r_spans r) -> -1 <= Eb -> snd (snd (fst (parseLinkLabel f r))) <= Eb.
  Proof.
    intros G Hb. unfold parseLinkLabel. destruct (current r) as [c r0] eqn:Ec. pose proof (SPI_currentE _ _ _ G Ec) as G0.
    destruct (negb (c =? 91)); [cbn; lia|].
    destruct (ll_skip f r0 0) as [[r1 ch]|] eqn:E1; [|cbn; lia]. pose proof (ll_skip_SPI _ _ _ _ _ G0 E1) as G1.
    destruct (ll_body f r1 ch (-1)) as [[r2 ie]|] eqn:E2; [|cbn; lia]. pose proof (ll_body_bound _ _ _ _ _ _ G1 E2 Hb) as Hie.
    destruct (current r2) as [c2 r3]. destruct (negb (c2 =? 93)); [cbn; lia|]. destruct (next r3) as [ok r4]. cbn [fst snd]. exact Hie.
  Qed.

  (* ---- the inline nodes of a definition ---- *)
  Lemma SPI_spW sp : SPI sp -> spW R sp = true. Proof. intros H. apply H. Qed.
  Lemma part_sim K rf rf' ik sp tx : SPI ik -> len R + ibudget ik < Z.of_nat rf -> len R' + ibudget ik < Z.of_nat rf' ->
    ocpPart K rf' R' (map F ik) (mapS sp) (mapS tx) = F (ocpPart K rf R ik sp tx).
  Proof.
    intros G Hf Hf'. unfold ocpPart, EolGenCrlfRdrLink3.mapS. cbn [fst snd phiI map]. f_equal.
    pose proof (nu_new R ik (fst tx) (SPI_spW _ G)) as M. pose proof (nu_new R' (map F ik) (P (fst tx)) (spW_F R _ (SPI_spW _ G))) as M'. rewrite ibudget_F in M'.
    apply (collectTextNodes_sim R Eb R13); [apply RR_new, G|lia|lia].
  Qed.
  Lemma label_sim rf rf' ik li : SPI ik -> len R + ibudget ik < Z.of_nat rf -> len R' + ibudget ik < Z.of_nat rf' ->
    (ik = [] \/ snd li <= endOf ik) ->
    ocpLabel rf' R' (map F ik) (mapS li) = F (ocpLabel rf R ik li).
  Proof.
    intros G Hf Hf' HB. unfold ocpLabel, EolGenCrlfRdrLink3.mapS. cbn [fst snd phiI]. f_equal.
    - apply (tlrs_sim R Eb R13); assumption.
    - pose proof (nu_new R ik (fst li) (SPI_spW _ G)) as M. pose proof (nu_new R' (map F ik) (P (fst li)) (spW_F R _ (SPI_spW _ G))) as M'. rewrite ibudget_F in M'.
      apply (collectTextNodes_sim R Eb R13); [apply RR_new, G|lia|lia].
  Qed.
End OcpSim.
