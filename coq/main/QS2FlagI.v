(* QS2FlagI.v -- T58b part I (towards the invariant TopPara): tryStarts, the opening loop and descendOpenBlocks with the
   container-kind postconditions of QS2FlagH; what a close leaves as last block. *)
From Coq Require Import List ZArith Lia Bool.
Import ListNotations.
Require Import Base Tree Rdr Link Collect Html Recog LP Rules Starts Driver L2Kind2 L2CC TDefs TOcp TInv TDesc TStarts TLine NoPanic47 BSOrph
  QS2FlagA QS2FlagB QS2FlagC QS2FlagD QS2FlagH.
Require EolFinalSimHM.
Open Scope Z_scope.

(* ---- the last block left by onCloseParagraph / closeBlock ---- *)
Lemma ocp_last_cases : forall fuel rfuel src orig orphan r result,
  exists pre x, ocp_loop fuel rfuel src orig orphan r result = pre ++ [x] /\
    (bend x = bend orig \/ bkind x = LinkReferenceDefinitionKind \/ orphan = Some x).
Proof.
  induction fuel as [|f IH]; intros rfuel src orig orphan r result.
  { cbn [ocp_loop]. exists result, orig. split; [reflexivity|left; reflexivity]. }
  assert (Hexit : exists pre x, result ++ [orig] = pre ++ [x] /\ (bend x = bend orig \/ bkind x = LinkReferenceDefinitionKind \/ orphan = Some x))
    by (exists result, orig; split; [reflexivity|left; reflexivity]).
  assert (Hwo : forall s e k, exists pre x, (match orphan with Some o => (result ++ [refDefBlock s e k]) ++ [o] | None => result ++ [refDefBlock s e k] end) = pre ++ [x] /\
                 (bend x = bend orig \/ bkind x = LinkReferenceDefinitionKind \/ orphan = Some x)).
  { intros s e k. destruct orphan as [o|]; [exists (result ++ [refDefBlock s e k]), o; split; [reflexivity|right; right; reflexivity]|].
    exists result, (refDefBlock s e k). split; [reflexivity|right; left; reflexivity]. }
  cbn [ocp_loop]. cbv zeta.
  destruct (parseLinkLabel rfuel r) as [[lspan linner] r1].
  destruct (negb (spanValid lspan)); [exact Hexit|].
  destruct (current r1) as [c r2]. destruct (negb (c =? 58)); [exact Hexit|].
  destruct (next r2) as [? r3]. destruct (skipLinkSpace rfuel r3) as [ok r4]. destruct (negb ok); [exact Hexit|].
  destruct (parseLinkDestination rfuel r4) as [[dspan dtext] r5]. destruct (negb (spanValid dspan)); [exact Hexit|].
  destruct (readEOL rfuel r5) as [destEOL r6]. destruct (current r6) as [c6 r7].
  destruct (_ && _ && _); [exact Hexit|].
  set (labelInline := Inl LinkLabelKind _ _ 0 _ _). set (destInline := Inl LinkDestinationKind _ _ 0 [] _).
  destruct (skipLinkSpace rfuel r7) as [ok2 r8].
  destruct (negb ok2); [apply Hwo|].
  destruct (parseLinkTitle rfuel r8) as [[tspan ttext] r9].
  destruct (negb (spanValid tspan)).
  { destruct (destEOL <? 0); [exact Hexit|].
    destruct (nodeIndexForPosition (bik orig) (r_pos r6) <? 0); [apply Hwo|].
    destruct (IH rfuel src (set_bik (set_bstart orig (r_pos r6)) (from_ (bik orig) (nodeIndexForPosition (bik orig) (r_pos r6)))) orphan r6
                 (result ++ [refDefBlock (fst lspan) destEOL [labelInline; destInline]])) as (pre & x & E & Hb).
    exists pre, x. split; [exact E|]. rewrite bend_cut in Hb. exact Hb. }
  destruct (readEOL rfuel r9) as [titleEOL r10].
  destruct (titleEOL <? 0).
  { destruct (destEOL <? 0); [exact Hexit|].
    destruct (nodeIndexForPosition (bik orig) (r_pos r6) <? 0); [apply Hwo|].
    eexists (result ++ [_]), _. split; [rewrite <- app_assoc; reflexivity|left; apply bend_cut]. }
  set (titleInline := Inl LinkTitleKind _ _ 0 [] _).
  destruct (nodeIndexForPosition (bik orig) (r_pos r10) <? 0); [apply Hwo|].
  destruct (IH rfuel src (set_bik (set_bstart orig (r_pos r10)) (from_ (bik orig) (nodeIndexForPosition (bik orig) (r_pos r10)))) orphan r10
               (result ++ [refDefBlock (fst lspan) titleEOL [labelInline; destInline; titleInline]])) as (pre & x & E & Hb).
  exists pre, x. split; [exact E|]. rewrite bend_cut in Hb. exact Hb.
Qed.

(* closing an open block that is not a setext heading, at a position >= 0: the last block left is closed or not a paragraph *)
Lemma closeBlock_last_np fuel src c e : isOpen c = true -> bkind c <> SetextHeadingKind -> 0 <= e ->
  exists pre x, closeBlock (S fuel) src c e = pre ++ [x] /\ (isOpen x = false \/ bkind x <> ParagraphKind).
Proof.
  intros Ho Ns He. destruct (Z.eq_dec (bkind c) ParagraphKind) as [Ep|Np].
  - cbn [closeBlock]. rewrite Ho. cbn [negb]. cbv zeta. rewrite !bkind_set_bend, Ep.
    change (ParagraphKind =? ListKind) with false. change (ParagraphKind =? IndentedCodeBlockKind) with false.
    change ((ParagraphKind =? ParagraphKind) || (ParagraphKind =? SetextHeadingKind)) with true. cbv iota.
    unfold onCloseParagraph. destruct (bik (set_bend c e)) as [|first rest] eqn:Eb.
    { exists [], (set_bend c e). split; [reflexivity|left]. unfold isOpen. rewrite bend_set_bend. apply Z.ltb_ge. exact He. }
    cbv zeta. rewrite bkind_set_bend, Ep. change (ParagraphKind =? SetextHeadingKind) with false. cbv iota.
    match goal with |- context [ocp_loop ?a ?b ?c0 ?d ?o ?r ?res] => destruct (ocp_last_cases a b c0 d o r res) as (pre & x & E & Hx) end.
    exists pre, x. split; [exact E|]. destruct Hx as [Hx|[Hx|Hx]]; [|right; rewrite Hx; discriminate|discriminate].
    left. unfold isOpen. rewrite Hx, bend_set_bend. apply Z.ltb_ge. exact He.
  - destruct (closeBlock_keep_end fuel src c e Ho Np Ns) as (x & E1 & E2 & _). exists [], x. split; [exact E1|left]. unfold isOpen. rewrite E2. apply Z.ltb_ge. exact He.
Qed.

(* ---- getAt (S d) through getAt d ---- *)
Lemma getAt_S_last : forall d r, getAt (S d) r = match getAt d r with Some y => lastBlock y | None => None end.
Proof.
  induction d as [|d IH]; intros r; [rewrite getAt_1; reflexivity|].
  rewrite getAt_S. destruct (lastBlock r) as [c|] eqn:El; [|rewrite getAt_S, El; reflexivity]. rewrite IH. rewrite (getAt_S r d), El. reflexivity.
Qed.
Lemma parent_np r d x : cc r = true -> getAt (S d) r = Some x -> forall y, getAt d r = Some y -> bkind y <> ParagraphKind.
Proof.
  intros Hc Hx y Hy. rewrite getAt_S_last, Hy in Hx. apply kids_np; [apply (cc_getAt d r y Hc Hy)|eapply lastBlock_ne; exact Hx].
Qed.

(* the container after closing its last child is not a paragraph *)
Lemma closeAt_np p d e : ccP (withCont (closeLastChildAt p d e) (Some d)) -> (exists x, getAt (S d) (root p) = Some x) ->
  containerKind (withCont (closeLastChildAt p d e) (Some d)) <> ParagraphKind.
Proof.
  intros (_ & Hcc & _) (x & Hx). rewrite closeLastChildAt_eq in *. cbn [root withCont withRoot setLP] in Hcc.
  unfold containerKind, contBlock. cbn [root cdepth container withCont withRoot setLP].
  rewrite getAt_updAt_same. rewrite getAt_S_last in Hx. destruct (getAt d (root p)) as [y|] eqn:Hy; [|discriminate]. cbn [option_map].
  apply kids_np; [|eapply bkids_closeF_ne; exact Hx].
  apply (cc_getAt d _ _ Hcc). rewrite getAt_updAt_same, Hy. reflexivity.
Qed.

(* ---- tryStarts / the opening loop ---- *)
Definition stPost (q : lp) : Prop :=
  containerKind q <> ParagraphKind /\ ((state q = stOpenMatched /\ (1 <= cdepth q)%nat) \/ state q = stLineConsumed).

Lemma V_withState M p s : V M p -> V M (withState p s).
Proof. intros (a & b & c & d). split; [exact a|]. split; [exact b|]. split; [exact c|exact d]. Qed.

Lemma tryStarts2 : forall fs M p, Forall startOKW fs -> Forall SP2 fs -> V M p ->
  (fst (tryStarts fs p) = true -> W M (snd (tryStarts fs p)) /\ stPost (snd (tryStarts fs p))) /\
  (fst (tryStarts fs p) = false -> snd (tryStarts fs p) = p \/ snd (tryStarts fs p) = withState p stOpening).
Proof.
  induction fs as [|f r IH]; intros M p Hw Hs HV; [split; [discriminate|intros _; left; reflexivity]|]. cbn [tryStarts]. cbv zeta.
  inversion Hw as [|? ? Hf Hr]; subst. inversion Hs as [|? ? Hf2 Hr2]; subst.
  assert (H1 : W M (f (withState p stOpening))) by (apply Hf; [left; reflexivity|apply V_W0, HV]).
  assert (HE : E (withState p stOpening)) by (apply (W_E M), V_W0, HV).
  destruct (Hf2 (withState p stOpening) eq_refl HE) as [E1|HP].
  - rewrite E1. cbn [state withState setLP]. change ((stOpening =? stOpenMatched) || (stOpening =? stLineConsumed)) with false. cbv iota.
    destruct (IH M (withState p stOpening) Hr Hr2 (V_withState M p stOpening HV)) as [A B]. split; [exact A|].
    intros Ef. destruct (B Ef) as [E2|E2]; right; exact E2.
  - destruct (_ || _) eqn:Ec.
    + cbn [fst snd]. split; [intros _; split; [exact H1|exact HP]|discriminate].
    + exfalso. destruct HP as (_ & [[A _]|A]); rewrite A in Ec; discriminate.
Qed.

Lemma opening_loop2 : forall fuel M p, V M p ->
  V M (snd (opening_loop fuel p)) /\
  (fst (opening_loop fuel p) = false ->
     state (snd (opening_loop fuel p)) = stLineConsumed /\ K M (snd (opening_loop fuel p)) /\ containerKind (snd (opening_loop fuel p)) <> ParagraphKind) /\
  (fst (opening_loop fuel p) = true ->
     (snd (opening_loop fuel p) = p \/ snd (opening_loop fuel p) = withState p stOpening) \/
     ((1 <= cdepth (snd (opening_loop fuel p)))%nat /\ containerKind (snd (opening_loop fuel p)) <> ParagraphKind)).
Proof.
  induction fuel as [|f IH]; intros M p H; [split; [exact H|split; [discriminate|intros _; left; left; reflexivity]]|]. cbn [opening_loop].
  destruct (_ || _); [|split; [exact H|split; [discriminate|intros _; left; left; reflexivity]]].
  pose proof (tryStarts2 blockStarts M p blockStarts_okW blockStarts_SP2 H) as [T1 T2].
  destruct (tryStarts blockStarts p) as [[|] p1] eqn:Et; cbn [fst snd] in *.
  - destruct (T1 eq_refl) as [H1 (Nk & Hst)].
    destruct (Z.eqb_spec (state p1) stLineConsumed) as [E2|E2].
    + cbn [fst snd]. split; [apply W_V, H1|]. split; [intros _; split; [exact E2|split; [apply H1|exact Nk]]|discriminate].
    + destruct Hst as [[S1 D1]|S2]; [|contradiction].
      destruct (IH M p1 (W_V M p1 H1)) as (A & B & C). split; [exact A|]. split; [exact B|]. intros Et2. right.
      destruct (C Et2) as [[E0|E0]|E0]; [rewrite E0; split; assumption|rewrite E0; split; assumption|exact E0].
  - split; [destruct (T2 eq_refl) as [-> | ->]; [exact H|apply V_withState, H]|]. split; [discriminate|]. intros _. left. apply T2. reflexivity.
Qed.

(* ---- descendOpenBlocks: the container, when a paragraph, has matched a line that is not blank; the first level ---- *)
Definition DQ (p : lp) (d : nat) : Prop := forall x, getAt d (root p) = Some x -> bkind x = ParagraphKind -> isRestBlank p = false.

Lemma descend_extra : forall fuel p d, F p -> CU p -> (exists x, getAt d (root p) = Some x) -> DQ p d ->
  let p' := snd (descend_loop fuel p d) in
  (d <= cdepth p')%nat /\
  (state p' <> stDescendTerminated -> containerKind p' = ParagraphKind -> isRestBlank p' = false) /\
  (state p' = stDescendTerminated -> state p <> stDescendTerminated -> TopNP (root p')).
Proof.
  induction fuel as [|f IH]; intros p d HF HC Hw HQ.
  { cbn [descend_loop snd]. split; [cbn; lia|]. split; [|intros A B; contradiction].
    intros _ Hk. destruct Hw as (x & Hx). apply (HQ x Hx). unfold containerKind, contBlock in Hk. cbn [cdepth container withCont setLP root] in Hk. rewrite Hx in Hk. exact Hk. }
  assert (Hexit : forall q, root q = root p -> li q = li p -> line q = line p -> state q = state p ->
            (d <= cdepth (withCont q (Some d)))%nat /\
            (state (withCont q (Some d)) <> stDescendTerminated -> containerKind (withCont q (Some d)) = ParagraphKind -> isRestBlank (withCont q (Some d)) = false) /\
            (state (withCont q (Some d)) = stDescendTerminated -> state p <> stDescendTerminated -> TopNP (root (withCont q (Some d))))).
  { intros q E1 E2 E3 E4. split; [cbn; lia|]. split; [|intros A B; cbn in A; rewrite E4 in A; contradiction].
    intros _ Hk. destruct Hw as (x & Hx). unfold containerKind, contBlock in Hk. cbn [cdepth container withCont setLP root] in Hk. rewrite E1, Hx in Hk.
    unfold isRestBlank, rest. cbn [line li withCont setLP]. rewrite E2, E3. apply (HQ x Hx Hk). }
  cbn [descend_loop]. cbv zeta.
  destruct (getAt (S d) (root p)) as [c|] eqn:Eg; [|apply (Hexit p); reflexivity].
  destruct (isOpen c) eqn:Eo; cbn [negb]; [|apply (Hexit p); reflexivity].
  destruct (hasMatch (bkind c)) eqn:Eh; cbn [negb]; [|apply (Hexit (withCont p (Some (S d)))); reflexivity].
  set (p1 := withState (withCont p (Some (S d))) stDescending).
  assert (HF1 : F p1) by (apply (F_withCont p (S d) HF); eauto).
  assert (HC1 : CU p1) by exact HC.
  assert (Ck1 : containerKind p1 = bkind c).
  { unfold containerKind, contBlock. change (cdepth p1) with (S d). change (root p1) with (root p). rewrite Eg. reflexivity. }
  pose proof (matchRule_spec p1 eq_refl HC1) as (M1 & M2 & M3 & M4).
  pose proof (F_matchRule p1 HF1) as HF2. pose proof (cdepth_matchRule p1) as Ecd.
  pose proof (matchRule_para p1) as Hpara. pose proof (EolFinalSimHM.KA_matchRule p1) as HKA.
  destruct (matchRule p1) as [ok p2]. cbn [snd] in *. change (cdepth p1) with (S d) in Ecd.
  pose proof (proj1 HF2) as (_ & Hcc2 & (x2 & Hx2)). rewrite Ecd in Hx2.
  assert (Hd2 : exists y, getAt d (root p2) = Some y) by (eapply getAt_prefix; exact Hx2).
  destruct M4 as [S3|(S4 & L4 & Ln)].
  - replace (state p2 =? stDescendTerminated) with false by (rewrite S3; reflexivity).
    destruct ok; cbn [negb].
    + destruct (IH p2 (S d) HF2 M3 ltac:(eauto)) as (A & B & C).
      * intros x Hx Hk. specialize (HKA (S d)). change (root p1) with (root p) in HKA. rewrite Hx, Eg in HKA. cbn [option_map] in HKA.
        assert (Ek : containerKind p1 = ParagraphKind) by (rewrite Ck1; congruence).
        specialize (Hpara Ek). inversion Hpara as [[Eok Ep2]]. subst p2. symmetry in Eok. apply negb_true_iff in Eok. exact Eok.
      * split; [lia|]. split; [exact B|]. intros E0 _. apply C; [exact E0|rewrite S3; discriminate].
    + cbn [snd]. split; [cbn; lia|]. split; [|intros A; cbn in A; rewrite S3 in A; discriminate].
      intros _ Hk. exfalso. destruct Hd2 as (y & Hy). unfold containerKind, contBlock in Hk. cbn [cdepth container withCont setLP root] in Hk. rewrite Hy in Hk.
      exact (parent_np (root p2) d x2 Hcc2 Hx2 y Hy Hk).
  - replace (state p2 =? stDescendTerminated) with true by (rewrite S4; reflexivity). cbn [snd].
    split; [cbn; lia|]. split; [intros A; cbn in A; contradiction|]. intros _ _.
    set (p' := withCont (closeLastChildAt p2 d (lineStart p2 + li p2)) (Some d)).
    assert (HF' : F p') by (apply F_closeAt; [exact HF2|lia|exact Hd2]).
    destruct d as [|[|d]].
    + (* the top-level child is closed *)
      unfold p'. rewrite closeLastChildAt_eq. cbn [root withCont withRoot setLP updAt]. intros b Hb Hob. exfalso. unfold TInv.closeF in Hb.
      rewrite getAt_1 in Hx2. rewrite Hx2 in Hb.
      assert (Hk2 : option_map bkind (Some x2) = option_map bkind (Some c)).
      { specialize (HKA 1%nat). change (root p1) with (root p) in HKA. rewrite getAt_1 in HKA. rewrite Hx2 in HKA. rewrite Eg in HKA. exact HKA. }
      cbn [option_map] in Hk2. inversion Hk2 as [Hk2'].
      assert (Ho2 : isOpen x2 = true).
      { destruct M1 as [[A1 A2]|(pre & c0 & c' & A1 & A2 & A3)].
        - exfalso. unfold ks in A2. apply lastBlock_ne in Hx2. contradiction.
        - unfold ks in A1, A2. change (root p1) with (root p) in A1. rewrite getAt_1 in Eg. rewrite (lastBlock_snoc _ _ _ A1) in Eg. rewrite (lastBlock_snoc _ _ _ A2) in Hx2.
          inversion Eg; inversion Hx2; subst. rewrite (shEq_isOpen _ _ A3). exact Eo. }
      assert (N1 : bkind x2 <> ParagraphKind).
      { intros E0. rewrite Hk2' in E0. rewrite <- Ck1 in E0. specialize (Hpara E0). inversion Hpara; subst p2. cbn in S4. discriminate. }
      assert (N2 : bkind x2 <> SetextHeadingKind) by (intros E0; rewrite Hk2' in E0; rewrite E0 in Eh; discriminate).
      destruct (bheight_S (root p2)) as [f0 Ef0]. rewrite Ef0 in Hb.
      destruct (closeBlock_keep_end f0 (source p2) x2 (lineStart p2 + li p2) Ho2 N1 N2) as (x & E1 & E2 & _).
      rewrite E1 in Hb. rewrite (lastBlock_set_lastBlocks_one (root p2) x) in Hb. inversion Hb; subst b.
      unfold isOpen in Hob. rewrite E2 in Hob. apply Z.ltb_lt in Hob. destruct M3 as [A B]. lia.
    + apply (TopNP_cont p'); [apply HF'|reflexivity|]. apply closeAt_np; [apply HF'|eauto].
    + apply (TopNP_deep p'); [apply HF'|cbn; lia].
Qed.

Lemma descend_top_closed fuel p : F p -> CU p ->
  fst (descend_loop (S fuel) p O) = true -> cdepth (snd (descend_loop (S fuel) p O)) = O ->
  state (snd (descend_loop (S fuel) p O)) <> stDescendTerminated ->
  forall c, lastBlock (root (snd (descend_loop (S fuel) p O))) = Some c -> isOpen c = false.
Proof.
  intros HF HC. cbn [descend_loop]. cbv zeta. rewrite getAt_1.
  destruct (lastBlock (root p)) as [c|] eqn:El; [|cbn; intros _ _ _ c0 Hc0; rewrite El in Hc0; discriminate].
  destruct (isOpen c) eqn:Eo; cbn [negb]; [|cbn; intros _ _ _ c0 Hc0; rewrite El in Hc0; inversion Hc0; subst; exact Eo].
  destruct (hasMatch (bkind c)) eqn:Eh; cbn [negb]; [|cbn; discriminate].
  set (p1 := withState (withCont p (Some 1%nat)) stDescending).
  assert (HF1 : F p1) by (apply (F_withCont p 1%nat HF); rewrite getAt_1; eauto).
  pose proof (F_matchRule p1 HF1) as HF2. pose proof (cdepth_matchRule p1) as Ecd. pose proof (matchRule_spec p1 eq_refl HC) as (_ & _ & M3 & _).
  destruct (matchRule p1) as [ok p2]. cbn [snd] in *. change (cdepth p1) with 1%nat in Ecd.
  destruct (state p2 =? stDescendTerminated) eqn:Et; [cbn; intros _ _ A; apply Z.eqb_eq in Et; contradiction|].
  destruct ok; cbn [negb]; [|cbn; discriminate].
  intros _ Hc0. exfalso.
  pose proof (proj1 HF2) as (_ & _ & (x2 & Hx2)). rewrite Ecd in Hx2.
  (* after a match the container is at depth >= 1 *)
  assert (Hge : forall fuel0 q d0, (d0 <= cdepth (snd (descend_loop fuel0 q d0)))%nat).
  { induction fuel0 as [|f0 IH0]; intros q d0; [cbn; lia|]. cbn [descend_loop]. cbv zeta.
    destruct (getAt (S d0) (root q)) as [c1|]; [|cbn; lia]. destruct (negb (isOpen c1)); [cbn; lia|]. destruct (negb (hasMatch (bkind c1))); [cbn; lia|].
    destruct (matchRule _) as [ok1 q2]. destruct (state q2 =? stDescendTerminated); [cbn; lia|]. destruct (negb ok1); [cbn; lia|].
    specialize (IH0 q2 (S d0)). lia. }
  specialize (Hge fuel p2 1%nat). lia.
Qed.
