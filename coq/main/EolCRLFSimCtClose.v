From Coq Require Import List ZArith Lia Bool.
Import ListNotations.
Require Import Base Tree Rdr Link Collect Html Recog LP Rules Starts Driver L2Kind L2CC BSDef BSRdr BSTree BSOcp BSOrph BSClose BSLine1 BSLine2 BSLine3.
Require Import EolCRLFSimTree EolCRLFSimLeDefs EolCRLFSimLe EolCRLFSimStream EolCRLFSimCtDef.
Open Scope Z_scope.

(* ---- onClose handlers and closeBlock, for sources without '[' ---- *)
Lemma ct_onCloseList M b : ct M b -> ct M (onCloseList b).
Proof.
  intros Hb. unfold onCloseList. cbv zeta. destruct (bloose b || _); [|assumption].
  apply ct_set_bkids; [apply ct_set_bloose; exact Hb|]. rewrite bend_set_bloose.
  apply allP_map. rewrite ct_eq in Hb. destruct Hb as (_ & _ & _ & _ & E). eapply allP_impl; [|exact E].
  intros x Hx. apply ct_set_bloose. exact Hx.
Qed.
Lemma ct_onCloseIndented M src b : ct M b -> ct M (onCloseIndented src b).
Proof.
  intros Hb. unfold onCloseIndented. apply ct_sub_ik; [assumption|]. intros x Hx.
  apply in_rev in Hx. apply trimBlankTail_sub in Hx. apply in_rev in Hx.
  destruct (rev (bik b)) as [|lst [|prev r]] eqn:Er; try exact Hx.
  destruct (_ && _ && _ && _); [|exact Hx].
  apply in_rev in Hx. apply in_rev. rewrite Er. right. exact Hx.
Qed.
Lemma bend_onCloseIndented src b : bend (onCloseIndented src b) = bend b.
Proof. unfold onCloseIndented. apply bend_set_bik. Qed.

Lemma ct_closeBlock src e : ~ In 91 src -> forall fuel b, ct e b -> allP (ct e) (closeBlock fuel src b e).
Proof.
  intros N. induction fuel as [|f IH]; intros b Hb; [split; [exact Hb|exact I]|]. cbn [closeBlock].
  destruct (isOpen b) eqn:Eo; cbn [negb]; [|split; [exact Hb|exact I]].
  unfold isOpen in Eo. apply Z.ltb_lt in Eo. cbv zeta.
  assert (Hcl : forall x, ct e x -> bend x = e ->
            ct e (match lastBlock x with Some c => set_lastBlocks x (closeBlock f src c e) | None => x end)).
  { intros x Hx Ex. destruct (lastBlock x) as [c|] eqn:El; [|exact Hx].
    apply ct_set_lastBlocks; [exact Hx|]. rewrite Ex, bnd_same. apply IH. eapply ct_lastBlock'; eassumption. }
  assert (H1 : ct e (set_bend b e)) by (apply ct_set_bend; assumption).
  rewrite bkind_set_bend.
  destruct (bkind b =? ListKind).
  { split; [|exact I]. apply Hcl; [apply ct_onCloseList; exact H1|rewrite bend_onCloseList; apply bend_set_bend]. }
  destruct (bkind b =? IndentedCodeBlockKind).
  { split; [|exact I]. apply Hcl; [apply ct_onCloseIndented; exact H1|rewrite bend_onCloseIndented; apply bend_set_bend]. }
  destruct ((bkind b =? ParagraphKind) || (bkind b =? SetextHeadingKind)).
  { rewrite (ocp_nobracket src _ N). split; [exact H1|exact I]. }
  split; [|exact I]. apply Hcl; [exact H1|apply bend_set_bend].
Qed.

(* without '[', closing an open block yields exactly one block, closed at e *)
Lemma closeBlock_one src e : ~ In 91 src -> forall f c y, bend c < 0 -> In y (closeBlock (S f) src c e) -> bend y = e.
Proof.
  intros N f c y Ho. cbn [closeBlock]. unfold isOpen. destruct (Z.ltb_spec (bend c) 0); [|lia]. cbn [negb]. cbv zeta.
  assert (Hcl : forall x, bend (match lastBlock x with Some c0 => set_lastBlocks x (closeBlock f src c0 e) | None => x end) = bend x).
  { intros x. destruct (lastBlock x); [apply bend_set_lastBlocks|reflexivity]. }
  rewrite bkind_set_bend.
  destruct (bkind c =? ListKind); [intros [<-|[]]; rewrite Hcl, bend_onCloseList; apply bend_set_bend|].
  destruct (bkind c =? IndentedCodeBlockKind); [intros [<-|[]]; rewrite Hcl, bend_onCloseIndented; apply bend_set_bend|].
  destruct ((bkind c =? ParagraphKind) || (bkind c =? SetextHeadingKind)).
  { rewrite (ocp_nobracket src _ N). intros [<-|[]]. apply bend_set_bend. }
  intros [<-|[]]. rewrite Hcl. apply bend_set_bend.
Qed.

(* ---- the line-parser invariants for entries, next to those of BSLine1 ---- *)
Definition BPe (M : Z) (p : lp) : Prop := ~ In 91 (source p) /\ ct M (root p).
Definition C1e (p : lp) : Prop := forall c, getAt (S (cdepth p)) (root p) = Some c -> bend c < 0 -> ct (lineStart p) c.
Definition cleanCe (p : lp) : Prop := forall x, getAt (cdepth p) (root p) = Some x -> ct (lineStart p) x.
Definition LIe (p : lp) : Prop := forall x, getAt (cdepth p) (root p) = Some x -> ct (lineStart p) x \/ wide (bkind x).

Definition BPX (M : Z) (p : lp) : Prop := BPb M p /\ BPe M p.
Definition BX (p : lp) : Prop := BPX (Mc p) p.
Definition C1X (p : lp) : Prop := C1 p /\ C1e p.
Definition OPX (p : lp) : Prop := BX p /\ C1X p.
Definition LIX (p : lp) : Prop := LI p /\ LIe p.
Definition cleanCX (p : lp) : Prop := cleanC p /\ cleanCe p.

Lemma OPX_OPx p : OPX p -> OPx p. Proof. intros [[A _] [B _]]. split; assumption. Qed.
Lemma BX_BP p : BX p -> BP p. Proof. intros [A _]. exact A. Qed.

Lemma BPe_mono M M' p : M <= M' -> BPe M p -> BPe M' p.
Proof. intros H [A B]. split; [exact A|eapply ct_mono; eassumption]. Qed.

Lemma BX_cstep p p' : cstep p p' -> BX p -> BX p'.
Proof.
  intros Hc [HB [N Hr]]. split; [eapply BP_cstep; eassumption|].
  destruct (cstep_Mc p p' Hc ltac:(apply HB)) as (_ & Hm & _). destruct Hc as ((E1 & _) & (_ & _ & E5) & _).
  split; [rewrite E5; exact N|rewrite E1; eapply ct_mono; eassumption].
Qed.
Lemma C1e_cstep p p' : cstep p p' -> C1e p -> C1e p'.
Proof. intros ((E1 & E2) & (E3 & _) & _) H c. unfold cdepth. rewrite E1, E2, E3. apply H. Qed.
Lemma LIe_cstep p p' : cstep p p' -> LIe p -> LIe p'.
Proof. intros ((E1 & E2) & (E3 & _) & _) H c. unfold cdepth. rewrite E1, E2, E3. apply H. Qed.
Lemma C1X_cstep p p' : cstep p p' -> C1X p -> C1X p'.
Proof. intros H [A B]. split; [eapply C1_cstep|eapply C1e_cstep]; eassumption. Qed.
Lemma LIX_cstep p p' : cstep p p' -> LIX p -> LIX p'.
Proof. intros H [A B]. split; [eapply LI_cstep|eapply LIe_cstep]; eassumption. Qed.
Lemma OPX_cstep p p' : cstep p p' -> OPX p -> OPX p'.
Proof. intros H [A B]. split; [eapply BX_cstep|eapply C1X_cstep]; eassumption. Qed.

Lemma BPe_ext M p p' : root p' = root p -> source p' = source p -> BPe M p -> BPe M p'.
Proof. intros E1 E2 [A B]. split; [rewrite E2; exact A|rewrite E1; exact B]. Qed.
Lemma BPX_ext M p p' : root p' = root p -> cdepth p' = cdepth p -> li p' = li p -> lineStart p' = lineStart p -> line p' = line p ->
  source p' = source p -> BPX M p -> BPX M p'.
Proof. intros E1 E2 E3 E4 E5 E6 [A B]. split; [eapply BPb_ext; eassumption|eapply BPe_ext; eassumption]. Qed.
Lemma C1e_ext p p' : root p' = root p -> cdepth p' = cdepth p -> lineStart p' = lineStart p -> C1e p -> C1e p'.
Proof. intros E1 E2 E3 H. unfold C1e. rewrite E1, E2, E3. exact H. Qed.
Lemma LIe_ext p p' : root p' = root p -> cdepth p' = cdepth p -> lineStart p' = lineStart p -> LIe p -> LIe p'.
Proof. intros E1 E2 E3 H. unfold LIe. rewrite E1, E2, E3. exact H. Qed.
Lemma C1X_ext p p' : root p' = root p -> cdepth p' = cdepth p -> lineStart p' = lineStart p -> C1X p -> C1X p'.
Proof. intros E1 E2 E3 [A B]. split; [eapply C1_ext|eapply C1e_ext]; eassumption. Qed.
Lemma LIX_ext p p' : root p' = root p -> cdepth p' = cdepth p -> lineStart p' = lineStart p -> LIX p -> LIX p'.
Proof. intros E1 E2 E3 [A B]. split; [eapply LI_ext|eapply LIe_ext]; eassumption. Qed.

(* ---- closing the last child of an open block ---- *)
Lemma ct_closeF M p e x : ~ In 91 (source p) -> ct M x -> bend x < 0 -> e <= M ->
  (forall c, lastBlock x = Some c -> bend c < 0 -> ct e c) -> ct M (closeF p e x).
Proof.
  intros N Hx Ox He Hc. unfold closeF. destruct (lastBlock x) as [c|] eqn:El; [|exact Hx].
  apply ct_set_lastBlocks; [exact Hx|]. rewrite (bnd_open M _ Ox).
  destruct (Z.ltb_spec (bend c) 0) as [L|L].
  - eapply allP_ct_mono; [exact He|]. apply ct_closeBlock; [exact N|apply Hc; [reflexivity|exact L]].
  - rewrite closeBlock_closed by exact L. split; [eapply ct_lastBlock'; eassumption|exact I].
Qed.

Lemma BPe_closeAt M p d e d' : BPb M p -> BPe M p -> e <= M -> (d <= cdepth p)%nat ->
  (forall x c, getAt d (root p) = Some x -> lastBlock x = Some c -> bend c < 0 -> ct e c) ->
  BPe M (withCont (closeLastChildAt p d e) (Some d')).
Proof.
  intros (A & B & C & D) [N Hr] He H2 Hc. split; [exact N|].
  rewrite closeLastChildAt_eq. cbn [root withCont withRoot setLP].
  apply ct_updAt_open; [exact Hr| |].
  - intros j y Hj Ey. apply (C j y); [lia|exact Ey].
  - intros x Ex Hx. apply ct_closeF; [exact N|exact Hx|apply (C d x H2 Ex)|exact He|]. intros c El Oc. apply (Hc x c Ex El Oc).
Qed.
Lemma BPX_closeAt M p d e d' : BPX M p -> e <= M -> (d' <= d)%nat -> (d <= cdepth p)%nat ->
  (forall x c, getAt d (root p) = Some x -> lastBlock x = Some c -> bend c < 0 -> sp e c /\ ct e c) ->
  BPX M (withCont (closeLastChildAt p d e) (Some d')).
Proof.
  intros [A B] He H1 H2 Hc. split.
  - apply BPb_closeAt; try assumption. intros x c Ex El Oc. apply (Hc x c Ex El Oc).
  - apply BPe_closeAt; try assumption. intros x c Ex El Oc. apply (Hc x c Ex El Oc).
Qed.

Lemma C1e_closeAt_ls p d : ~ In 91 (source p) ->
  (forall x c, getAt d (root p) = Some x -> lastBlock x = Some c -> bend c < 0 -> ct (lineStart p) c) ->
  C1e (withCont (closeLastChildAt p d (lineStart p)) (Some d)).
Proof.
  intros N Hc y Ey Oy. unfold cdepth in Ey. cbn [container root lineStart withCont closeLastChildAt withRoot setLP] in *.
  fold (closeF p (lineStart p)) in Ey.
  destruct (closeAt_child p d (lineStart p) y Ey) as (x & c & Ex & El & Hin).
  destruct (Z.ltb_spec (bend c) 0) as [L|L].
  - pose proof (ct_closeBlock (source p) (lineStart p) N (bheight (root p)) c (Hc x c Ex El L)) as A.
    eapply allP_In; eassumption.
  - rewrite closeBlock_closed in Hin by exact L. destruct Hin as [<-|[]]. lia.
Qed.

Lemma LIe_closeHere p : BP p -> BPe (Mc p) p -> LIe p -> LIe (closeLastChildAt p (cdepth p) (lineStart p)).
Proof.
  intros (A & B & C & D) [N Hr] HL y Ey. unfold cdepth in Ey. cbn [container root lineStart closeLastChildAt withRoot setLP] in *.
  fold (cdepth p) in Ey. fold (closeF p (lineStart p)) in Ey. rewrite getAt_closeAt in Ey.
  destruct (getAt (cdepth p) (root p)) as [x|] eqn:Ex; [|discriminate]. cbn in Ey. inversion Ey; subst y. clear Ey.
  rewrite closeF_kind. destruct (HL x Ex) as [Hs|Hw]; [left|right; exact Hw].
  apply ct_closeF; [exact N|exact Hs|apply (C (cdepth p) x); [lia|exact Ex]|lia|].
  intros c El _. eapply ct_lastBlock'; eassumption.
Qed.
Lemma LIX_closeHere p : BX p -> C1 p -> LIX p -> LIX (closeLastChildAt p (cdepth p) (lineStart p)).
Proof. intros [A B] H1 [L1 L2]. split; [apply LI_closeHere; assumption|apply LIe_closeHere; assumption]. Qed.

(* ---- openBlock ---- *)
Lemma OPX_openBlock_up : forall fuel p kind, OPX p ->
  (canContain (containerKind p) kind = true \/ (kind <> ListItemKind /\ cleanCX p)) ->
  OPX (openBlock_up fuel p kind).
Proof.
  induction fuel as [|f IH]; intros p kind H Pre; [exact H|]. cbn [openBlock_up].
  destruct (canContain (containerKind p) kind) eqn:Ec; [exact H|].
  destruct Pre as [Pre|[Nk [Hcl Hcle]]]; [discriminate|].
  destruct (cdepth p) as [|d] eqn:Ed; [exact H|].
  destruct H as [[HB HE] [H1 H1e]]. pose proof HB as (A & B & C & D).
  destruct (wf_le p (S d) D ltac:(lia)) as (x & Ex). destruct (wf_le p d D ltac:(lia)) as (y & Ey).
  assert (Hclean : forall x0 c, getAt d (root p) = Some x0 -> lastBlock x0 = Some c -> bend c < 0 -> sp (lineStart p) c /\ ct (lineStart p) c).
  { intros x0 c E0 El _. split; [apply Hcl|apply Hcle]; rewrite Ed, getAt_S_last, E0; exact El. }
  apply IH.
  - split; [|split].
    + change (BPX (Mc p) (withCont (closeLastChildAt p d (lineStart p)) (Some d))).
      apply BPX_closeAt; [split; assumption|unfold Mc; destruct A; lia|lia|lia|exact Hclean].
    + apply C1_closeAt_ls; [exact D|]. intros x0 c E0 El Oc. apply (Hclean x0 c E0 El Oc).
    + apply C1e_closeAt_ls; [apply HE|]. intros x0 c E0 El Oc. apply (Hclean x0 c E0 El Oc).
  - left. pose proof (cc_spine d (root p) y x ltac:(apply D) Ey Ex) as Hyx.
    assert (Kx : containerKind p = bkind x) by (apply containerKind_at; rewrite Ed; exact Ex).
    rewrite Kx in Ec. pose proof (reject_not_item _ _ Ec Nk) as Nx.
    assert (Ky : containerKind (withCont (closeLastChildAt p d (lineStart p)) (Some d)) = bkind y).
    { unfold containerKind, contBlock, cdepth. cbn [container root withCont closeLastChildAt withRoot setLP].
      fold (closeF p (lineStart p)). rewrite getAt_closeAt, Ey. cbn. apply closeF_kind. }
    rewrite Ky. apply wide_accepts; [eapply wide_of_child; eassumption|exact Nk].
Qed.

Lemma OPX_openBlock_ns p kind : OPX p -> kind <> SetextHeadingKind ->
  (canContain (containerKind p) kind = true \/ (kind <> ListItemKind /\ cleanCX p)) ->
  OPX (openBlock p kind).
Proof.
  intros H Nk Pre.
  assert (T7 : OPx (openBlock p kind)).
  { apply OPx_openBlock_ns; [apply OPX_OPx; exact H|exact Nk|]. destruct Pre as [Q|[Q1 [Q2 _]]]; [left; exact Q|right; split; assumption]. }
  destruct T7 as [T7a T7b]. split; [split; [exact T7a|]|split; [exact T7b|]].
  - (* entries part of BX *)
    clear T7a T7b. unfold openBlock.
    destruct ((state p =? stDescending) || (state p =? stDescendTerminated)); [apply (BX_cstep p); [apply cstep_panic|apply H]|].
    cbv zeta. set (p0 := if state p =? stOpening then withState p stOpenMatched else p).
    pose proof (cstep_opened p) as Hc0. fold p0 in Hc0.
    assert (H0 : OPX p0) by (eapply OPX_cstep; eassumption).
    assert (Pre0 : canContain (containerKind p0) kind = true \/ (kind <> ListItemKind /\ cleanCX p0)).
    { destruct Hc0 as ((E1 & E2) & (E3 & _) & _). unfold containerKind, contBlock, cleanCX, cleanC, cleanCe, cdepth. rewrite E1, E2, E3. exact Pre. }
    set (p2 := openBlock_up (S (cdepth p0)) p0 kind).
    assert (H2 : OPX p2) by (apply OPX_openBlock_up; assumption).
    set (p3 := closeLastChildAt p2 (cdepth p2) (lineStart p2)).
    destruct H2 as [HB2 [H12 H12e]]. pose proof HB2 as [HB2b HB2e]. pose proof HB2b as (Acur & _ & _ & D2).
    assert (HB3 : BPX (Mc p2) p3).
    { apply (BPX_ext (Mc p2) (withCont p3 (Some (cdepth p2)))); try reflexivity.
      apply BPX_closeAt; [exact HB2|unfold Mc; destruct Acur; lia|lia|lia|].
      intros x c Ex El Oc. split; [apply H12|apply H12e]; try exact Oc; rewrite getAt_S_last, Ex; exact El. }
    destruct HB3 as [HB3 [N3 R3]]. pose proof HB3 as (A3 & B3 & C3 & D3). change (cdepth p3) with (cdepth p2) in *.
    split; [exact N3|].
    cbn [root withCont updCont withRoot setLP]. fold (cdepth p3). change (cdepth p3) with (cdepth p2).
    change (Mc (withCont (updCont p3 (fun b => set_bkids b (bkids b ++ [newBlock kind (lineStart p3 + li p3)]))) (Some (S (cdepth p2))))) with (Mc p3).
    change (Mc p2) with (Mc p3) in R3.
    apply ct_updAt_open; [exact R3| |].
    + intros j y Hj Ey. apply (C3 j y); [change (cdepth p3) with (cdepth p2); lia|exact Ey].
    + intros y Ey Hy. assert (Oy : bend y < 0) by (apply (C3 (cdepth p2) y); [change (cdepth p3) with (cdepth p2); lia|exact Ey]).
      apply ct_set_bkids; [exact Hy|]. rewrite (bnd_open _ _ Oy). apply allP_app. split.
      * rewrite ct_eq in Hy. rewrite (bnd_open _ _ Oy) in Hy. tauto.
      * split; [|exact I]. apply ct_newBlock; unfold Mc; destruct A3; lia.
  - (* C1e: the new block has no children *)
    clear T7a T7b. unfold openBlock.
    destruct ((state p =? stDescending) || (state p =? stDescendTerminated)); [apply (C1e_cstep p); [apply cstep_panic|apply H]|].
    cbv zeta. set (p0 := if state p =? stOpening then withState p stOpenMatched else p).
    set (p2 := openBlock_up (S (cdepth p0)) p0 kind).
    set (p3 := closeLastChildAt p2 (cdepth p2) (lineStart p2)).
    set (nb := newBlock kind (lineStart p3 + li p3)).
    intros y Ey _. exfalso.
    assert (Ey' : getAt (S (S (cdepth p2))) (updAt (cdepth p2) (fun b => set_bkids b (bkids b ++ [nb])) (root p3)) = Some y) by exact Ey.
    rewrite getAt_S_last in Ey'.
    destruct (getAt (cdepth p2) (root p3)) as [x|] eqn:Ex.
    + rewrite (getAt_S_append_some nb (cdepth p2) (root p3) x Ex) in Ey'. discriminate.
    + rewrite getAt_S_updAt, Ex in Ey'. discriminate.
Qed.

Lemma OPX_openBlock p kind : OPX p -> st_open p -> kind <> SetextHeadingKind ->
  (canContain (containerKind p) kind = true \/ (kind <> ListItemKind /\ cleanCX p)) ->
  OPX (openBlock p kind).
Proof. intros H _. apply OPX_openBlock_ns, H. Qed.
