From Coq Require Import List ZArith Lia Bool.
Import ListNotations.
Require Import Base Tree Rdr Link Collect Html Recog LP Rules Starts Driver L2Kind L2CC GramTree GramLP GramLP2 EolCRLFSimFuelWf.
Open Scope Z_scope.

(* Single-run fact used by the final-newline simulation: whenever the line machine is between two start functions
   (and in particular when the text of the line is added), the kind of the container is one of the kinds with a
   match rule; in particular it is never an ATX heading. *)
Definition HM (p : lp) : Prop := hasMatch (containerKind p) = true.

Lemma canContain_hasMatch K k : canContain K k = true -> hasMatch K = true.
Proof.
  unfold canContain, hasMatch. destruct (K =? documentKind); [reflexivity|]. destruct (K =? ListKind); [reflexivity|].
  destruct (K =? ListItemKind); [reflexivity|]. destruct (K =? BlockQuoteKind); [reflexivity|discriminate].
Qed.
Lemma HM_same p p' : same_tree p p' -> HM p -> HM p'.
Proof. intros Hs H. unfold HM. rewrite (containerKind_same p p' Hs). exact H. Qed.
Lemma HM_kind p K : containerKind p = K -> hasMatch K = true -> HM p.
Proof. intros E H. unfold HM. rewrite E. exact H. Qed.

(* the parent of the container has a match rule *)
Lemma parent_kind p d x c : ccP p -> getAt d (root p) = Some x -> lastBlock x = Some c -> hasMatch (bkind x) = true.
Proof.
  intros (_ & Hc & _) Hx El. pose proof (cc_getAt d (root p) x Hc Hx) as Hcx. destruct (cc_lastBlock x c Hcx El) as [_ Hk].
  eapply canContain_hasMatch. exact Hk.
Qed.
Lemma containerKind_closeAt p d e : containerKind (withCont (closeLastChildAt p d e) (Some d)) =
  match getAt d (root p) with Some x => bkind x | None => bkind (newBlock 0 0) end.
Proof.
  unfold containerKind, contBlock, closeLastChildAt, cdepth. cbn [root container withCont withRoot setLP]. rewrite getAt_updAt_same.
  destruct (getAt d (root p)) as [x|]; [|reflexivity]. cbn [option_map]. destruct (lastBlock x); [apply bkind_set_lastBlocks|reflexivity].
Qed.
Lemma HM_closeAt_parent p d e : ccP p -> (exists c, getAt (S d) (root p) = Some c) -> HM (withCont (closeLastChildAt p d e) (Some d)).
Proof.
  intros Hc (c & Hg). unfold HM. rewrite containerKind_closeAt. rewrite getAt_snoc in Hg.
  destruct (getAt d (root p)) as [x|] eqn:Ex; [|discriminate]. eapply parent_kind; eassumption.
Qed.
Lemma HM_endBlock p : ccP p -> (state p =? stDescending) || (state p =? stDescendTerminated) = false -> (exists d, cdepth p = S d) -> HM (endBlock p).
Proof.
  intros Hc Hs (d & Ed). unfold endBlock. rewrite Hs. cbv zeta.
  set (p0 := if state p =? stOpening then withState p stOpenMatched else p).
  assert (E0 : ccP p0 /\ cdepth p0 = S d) by (unfold p0; destruct (state p =? stOpening); split; assumption). destruct E0 as [C0 D0]. clearbody p0.
  rewrite D0. apply HM_closeAt_parent; [exact C0|]. destruct C0 as (_ & _ & (x & Hx)). rewrite D0 in Hx. eauto.
Qed.
Lemma HM_openBlock p K : ccP p -> st_open p -> hasMatch K = true -> HM (openBlock p K).
Proof. intros Hc Hs HK. apply (HM_kind _ K); [apply containerKind_openBlock; [apply Hc|exact Hs]|exact HK]. Qed.
Lemma HM_updCont p f : (forall b, bkind (f b) = bkind b) -> HM p -> HM (updCont p f).
Proof. intros Hf H. unfold HM. rewrite (L2Kind2.containerKind_updCont p f Hf). exact H. Qed.

Lemma HM_collectInline p kind n : HM p -> HM (collectInline p kind n).
Proof.
  intros H. unfold collectInline. destruct (_ =? stDescendTerminated); [exact H|]. cbv zeta.
  apply HM_updCont; [intros b; apply bkind_set_bik|]. eapply HM_same; [apply same_advance|].
  destruct (0 <? _); [|eapply HM_same; [apply same_opened|exact H]].
  apply HM_updCont; [intros b; apply bkind_set_bik|]. eapply HM_same; [apply same_advance|]. eapply HM_same; [apply same_opened|exact H].
Qed.

Ltac hm :=
  repeat match goal with
  | |- HM (collectInline _ _ _) => apply HM_collectInline
  | |- HM (consumeLine _) => eapply HM_same; [apply same_consumeLine|]
  | |- HM (advance _ _) => eapply HM_same; [apply same_advance|]
  | |- HM (consumeIndent _ _) => eapply HM_same; [apply same_consumeIndent|]
  | |- HM (updCont _ _) => apply HM_updCont; [intros b; destruct b; reflexivity|]
  end.

(* ConsumeLine; EndBlock after a block was opened *)
Lemma sC_not_desc p : sC p -> (state p =? stDescending) || (state p =? stDescendTerminated) = false.
Proof. unfold sC. intros ->. reflexivity. Qed.
Lemma sM_not_desc p : sM p -> (state p =? stDescending) || (state p =? stDescendTerminated) = false.
Proof. unfold sM. intros ->. reflexivity. Qed.
Lemma HM_consume_end p : ccP p -> st_open p -> (exists d, cdepth p = S d) -> HM (endBlock (consumeLine p)).
Proof.
  intros Hc Hs Hd. apply HM_endBlock; [apply ccP_consumeLine, Hc|apply sC_not_desc, sC_consumeLine, Hs|].
  rewrite (cd_same _ _ (same_consumeLine p)). exact Hd.
Qed.

Definition startHM (f : lp -> lp) : Prop := forall p, st_open p -> ccP p -> HM p -> HM (f p).

Lemma HM_startBlockQuote : startHM startBlockQuote.
Proof.
  intros p Hs Hc H. unfold startBlockQuote. cbv zeta. destruct (_ <=? _); [exact H|]. destruct (negb _); [exact H|].
  destruct (0 <? _); hm; (apply HM_openBlock; [apply ccP_consumeIndent, Hc|apply st_open_consumeIndent, Hs|reflexivity]).
Qed.
Lemma HM_startATX : startHM startATX.
Proof.
  intros p Hs Hc H. unfold startATX. cbv zeta. destruct (_ <=? _); [exact H|].
  destruct (parseATXHeading _) as [[level cs] ce]. destruct (level <? 1); [exact H|].
  pose proof (st_open_consumeIndent p (indent p) Hs) as O1.
  apply HM_consume_end.
  - apply ccP_collectInline, ccP_advance. apply ccP_updCont; [|intros x _ Hx; rewrite cc_set_bn, bkind_set_bn; tauto].
    apply ccP_openBlock; [apply ccP_consumeIndent, Hc|left; discriminate].
  - apply sM_open, sM_collectInline, sM_advance, sM_updCont, sM_openBlock, O1.
  - rewrite cdepth_collectInline, (cd_same _ _ (same_advance _ _)), cdepth_updCont, (cdepth_openBlock _ _ O1). eauto.
Qed.
Lemma HM_startFenced : startHM startFenced.
Proof.
  intros p Hs Hc H. unfold startFenced. cbv zeta. destruct (_ <=? _); [exact H|].
  destruct (parseCodeFence _) as [[[fc fnn] is_] ie]. destruct (fnn =? 0); [exact H|].
  pose proof (st_open_consumeIndent p (indent p) Hs) as O1.
  assert (H2 : HM (openBlock (consumeIndent p (indent p)) FencedCodeBlockKind)) by (apply HM_openBlock; [apply ccP_consumeIndent, Hc|exact O1|reflexivity]).
  hm. destruct (spanValid _); hm; exact H2.
Qed.
Lemma HM_startHTML : startHM startHTML.
Proof.
  intros p Hs Hc H. unfold startHTML. cbv zeta. destruct (_ <=? _); [exact H|]. destruct (negb _); [exact H|].
  destruct (_ <? 0); [exact H|]. destruct (negb _ && _); [exact H|].
  destruct (htmlEnd _ _); [|hm; apply HM_openBlock; [exact Hc|exact Hs|reflexivity]].
  apply HM_consume_end.
  - apply ccP_collectInline. apply ccP_updCont; [|intros x _ Hx; rewrite cc_set_bn, bkind_set_bn; tauto]. apply ccP_openBlock; [exact Hc|left; discriminate].
  - apply sM_open, sM_collectInline, sM_updCont, sM_openBlock, Hs.
  - rewrite cdepth_collectInline, cdepth_updCont, (cdepth_openBlock _ _ Hs). eauto.
Qed.
Lemma HM_startSetext : startHM startSetext.
Proof.
  intros p Hs Hc H. unfold startSetext. cbv zeta. destruct (negb (containerKind p =? ParagraphKind)) eqn:Ek; [exact H|].
  do 3 (match goal with |- HM (if ?c then _ else _) => destruct c end; [exact H|]).
  apply negb_false_iff, Z.eqb_eq in Ek.
  assert (C1 : ccP (updCont p (fun b => set_bn (set_bkind b SetextHeadingKind) (parseSetextHeadingUnderline (bytesAfterIndent p))))).
  { apply ccP_updCont_compat; [exact Hc| |].
    - intros x Hx Hcx. pose proof (ckind_self p x Hx) as Ex. rewrite Ek in Ex. apply cc_parts in Hcx. destruct Hcx as [C1 _]. rewrite Ex in C1.
      assert (Ekids : bkids x = []) by (apply forallb_false_nil; exact C1).
      destruct x as [K s e bk ik a n c l lb]. cbn [bkids bkind] in *. subst bk K. split; [reflexivity|]. right. split; discriminate.
    - intros E0. exfalso. rewrite (containerKind_root p E0) in Ek. destruct Hc as (B & _). rewrite B in Ek. discriminate. }
  apply HM_consume_end; [exact C1|exact Hs|]. rewrite cdepth_updCont. destruct (cdepth p) as [|d] eqn:Ed; [|eauto].
  exfalso. rewrite (containerKind_root p Ed) in Ek. destruct Hc as (B & _). rewrite B in Ek. discriminate.
Qed.
Lemma HM_startThematic : startHM startThematic.
Proof.
  intros p Hs Hc H. unfold startThematic. cbv zeta. destruct (_ <=? _); [exact H|]. destruct (_ <? 0); [exact H|].
  pose proof (st_open_consumeIndent p (indent p) Hs) as O1.
  apply HM_consume_end.
  - apply ccP_advance, ccP_openBlock; [apply ccP_consumeIndent, Hc|left; discriminate].
  - apply sM_open, sM_advance, sM_openBlock, O1.
  - rewrite (cd_same _ _ (same_advance _ _)), (cdepth_openBlock _ _ O1). eauto.
Qed.
Lemma HM_startIndented : startHM startIndented.
Proof.
  intros p Hs Hc H. unfold startIndented. destruct (_ || _ || _); [exact H|].
  apply HM_openBlock; [apply ccP_consumeIndent, Hc|apply st_open_consumeIndent, Hs|reflexivity].
Qed.
Lemma HM_startListItem : startHM startListItem.
Proof.
  intros p Hs Hc H. unfold startListItem. cbv zeta. destruct (_ <=? _); [exact H|].
  destruct (parseListMarker _) as [[delim n] mend]. destruct (_ || _); [exact H|]. destruct (_ && _); [exact H|].
  set (p1 := consumeIndent p (indent p)).
  assert (H1 : ccP p1) by (apply ccP_consumeIndent, Hc). assert (S1 : st_open p1) by (apply st_open_consumeIndent, Hs).
  set (cdelim := if (containerKind p1 =? ListKind) || (containerKind p1 =? ListItemKind) then bchar (contBlock p1) else 0).
  set (p2 := if negb (containerKind p1 =? ListKind) || negb (cdelim =? delim) then _ else p1).
  assert (H2 : ccP p2 /\ containerKind p2 = ListKind /\ st_open p2).
  { unfold p2. destruct (negb (containerKind p1 =? ListKind) || negb (cdelim =? delim)) eqn:Ec.
    - assert (Hq : ccP (updCont (openBlock p1 ListKind) (fun b => set_bchar b delim))).
      { apply ccP_updCont; [|intros x _ Hx; rewrite cc_set_bchar, bkind_set_bchar; tauto]. apply ccP_openBlock; [exact H1|left; discriminate]. }
      split; [exact Hq|split].
      + apply containerKind_of; [exact Hq|]. apply ckind_updCont; [intros b; apply bkind_set_bchar|]. apply ckind_openBlock, S1.
      + apply st_open_updCont, L2Kind2.st_open_openBlock, S1.
    - apply orb_false_iff in Ec. destruct Ec as [Ec _]. apply negb_false_iff, Z.eqb_eq in Ec. tauto. }
  destruct H2 as (H2 & K2 & S2). clearbody p2.
  assert (H3 : ccP (updCont (openBlock p2 ListItemKind) (fun b => set_bchar b delim))).
  { apply ccP_updCont; [|intros x _ Hx; rewrite cc_set_bchar, bkind_set_bchar; tauto]. apply ccP_openBlock; [exact H2|right; rewrite K2; reflexivity]. }
  assert (S3 : st_open (updCont (openBlock p2 ListItemKind) (fun b => set_bchar b delim))) by (apply st_open_updCont, L2Kind2.st_open_openBlock, S2).
  set (p3 := updCont (openBlock p2 ListItemKind) (fun b => set_bchar b delim)) in *. clearbody p3.
  match goal with |- context [endBlock ?X] => assert (H6 : HM (endBlock X)) end.
  { apply HM_endBlock.
    - apply ccP_advance, ccP_openBlock; [exact H3|left; discriminate].
    - apply sM_not_desc, sM_advance, sM_openBlock, S3.
    - rewrite (cd_same _ _ (same_advance _ _)), (cdepth_openBlock _ _ S3). eauto. }
  match goal with |- context [endBlock ?X] => set (q := endBlock X) in * end. clearbody q.
  destruct (isRestBlank q); [hm; exact H6|].
  destruct (indent q <? 1); [hm; exact H6|]. destruct (4 <? indent q); hm; exact H6.
Qed.

Lemma blockStarts_HM : Forall startHM blockStarts.
Proof.
  unfold blockStarts.
  apply Forall_cons; [exact HM_startBlockQuote|]. apply Forall_cons; [exact HM_startATX|]. apply Forall_cons; [exact HM_startFenced|].
  apply Forall_cons; [exact HM_startHTML|]. apply Forall_cons; [exact HM_startSetext|]. apply Forall_cons; [exact HM_startThematic|].
  apply Forall_cons; [exact HM_startListItem|]. apply Forall_cons; [exact HM_startIndented|]. apply Forall_nil.
Qed.
Lemma HM_tryStarts : forall fs p, Forall startHM fs -> Forall startOKc fs -> ccP p -> HM p -> HM (snd (tryStarts fs p)) /\ ccP (snd (tryStarts fs p)).
Proof.
  induction fs as [|f r IH]; intros p Hfs Hcs Hc H; [split; assumption|]. cbn [tryStarts]. cbv zeta.
  inversion Hfs as [|? ? Hf Hr]; subst. inversion Hcs as [|? ? Hcf Hcr]; subst.
  assert (H1 : HM (f (withState p stOpening))) by (apply Hf; [left; reflexivity|exact Hc|exact H]).
  assert (C1 : ccP (f (withState p stOpening))) by (apply Hcf; [left; reflexivity|exact Hc]).
  destruct (_ || _); [split; assumption|]. apply IH; assumption.
Qed.
Lemma HM_opening_loop : forall fuel p, ccP p -> HM p -> HM (snd (opening_loop fuel p)).
Proof.
  induction fuel as [|f IH]; intros p Hc H; [exact H|]. cbn [opening_loop].
  destruct (_ || _); [|exact H].
  destruct (HM_tryStarts blockStarts p blockStarts_HM blockStarts_okc Hc H) as [H1 C1]. destruct (tryStarts blockStarts p) as [[|] p1]; cbn [snd] in H1, C1.
  - destruct (_ =? stLineConsumed); [exact H1|apply IH; assumption].
  - exact H1.
Qed.
Lemma HM_deferredClose p : HM p -> HM (deferredClose p).
Proof.
  intros H. unfold deferredClose. cbv zeta.
  destruct (negb (isRestBlank p) && _) eqn:Ec.
  - apply andb_true_iff in Ec. destruct Ec as [_ Ec]. unfold HM, containerKind, contBlock, cdepth. cbn [root container withCont setLP].
    destruct (getAt _ (root p)) as [t|]; [|discriminate]. apply Z.eqb_eq in Ec. rewrite Ec. reflexivity.
  - unfold HM. rewrite containerKind_closeHere. exact H.
Qed.

(* ---- descent ---- *)
Definition kindAtD (p : lp) (d : nat) : Z := match getAt d (root p) with Some b => bkind b | None => 0 end.
Lemma containerKind_withCont p d : containerKind (withCont p (Some d)) = kindAtD p d.
Proof. unfold containerKind, contBlock, kindAtD, cdepth. cbn [root container withCont setLP]. destruct (getAt d (root p)); reflexivity. Qed.
Definition KA (p p' : lp) : Prop := forall k, option_map bkind (getAt k (root p')) = option_map bkind (getAt k (root p)).
Lemma KA_kind p p' d : KA p p' -> kindAtD p' d = kindAtD p d.
Proof. intros H. unfold kindAtD. specialize (H d). destruct (getAt d (root p')), (getAt d (root p)); cbn in H; congruence. Qed.
Lemma KA_same p p' : same_tree p p' -> KA p p'. Proof. intros [E _] k. rewrite E. reflexivity. Qed.
Lemma KA_trans a b c : KA a b -> KA b c -> KA a c. Proof. intros H1 H2 k. rewrite H2, H1. reflexivity. Qed.
Lemma KA_updCont_ik p g : KA p (updCont p (fun b => set_bik b (g b))).
Proof. intros k. unfold updCont. cbn [root withRoot setLP]. apply L2Kind2.kindAt_updAt. intros x. destruct x; split; reflexivity. Qed.
Lemma KA_collectInline p kind n : KA p (collectInline p kind n).
Proof.
  unfold collectInline. destruct (_ =? stDescendTerminated); [apply KA_same; split; reflexivity|]. cbv zeta.
  eapply KA_trans; [|apply (KA_updCont_ik _ (fun b => bik b ++ [_]))]. eapply KA_trans; [|apply KA_same, same_advance].
  destruct (0 <? _); [|apply KA_same, same_opened].
  eapply KA_trans; [|apply (KA_updCont_ik _ (fun b => bik b ++ [_]))]. eapply KA_trans; [|apply KA_same, same_advance]. apply KA_same, same_opened.
Qed.
Lemma KA_matchRule p : KA p (snd (matchRule p)).
Proof.
  unfold matchRule. cbv zeta.
  destruct (_ || _); [apply KA_same, same_refl|].
  destruct (_ =? ListItemKind).
  { unfold matchListItem. destruct (isRestBlank p); [destruct (negb _); [apply KA_same, same_refl|apply KA_same, same_consumeIndent]|].
    destruct (_ <=? _); [apply KA_same, same_consumeIndent|apply KA_same, same_refl]. }
  destruct (_ =? BlockQuoteKind).
  { unfold matchBlockQuote. cbv zeta. destruct (_ <=? _); [apply KA_same, same_refl|]. destruct (negb _); [apply KA_same, same_refl|]. cbn [snd].
    unfold eatQuoteMarker. cbv zeta. apply KA_same. destruct (0 <? _).
    - eapply same_trans; [|apply same_consumeIndent]. eapply same_trans; [|apply same_advance]. apply same_consumeIndent.
    - eapply same_trans; [|apply same_advance]. apply same_consumeIndent. }
  destruct (_ =? FencedCodeBlockKind).
  { unfold matchFenced. cbv zeta. destruct (if _ <? _ then _ else false); cbn [snd]; apply KA_same; [apply same_consumeLine|apply same_consumeIndent]. }
  destruct (_ =? IndentedCodeBlockKind).
  { unfold matchIndented. cbv zeta. destruct (_ <? _); [destruct (negb _)|]; cbn [snd]; apply KA_same; try apply same_refl; apply same_consumeIndent. }
  destruct (_ =? HTMLBlockKind); [|apply KA_same, same_refl].
  unfold matchHTML. destruct (htmlEnd _ _); [|apply KA_same, same_refl]. destruct (isRestBlank _); [apply KA_same, same_refl|]. cbn [snd].
  eapply KA_trans; [apply KA_collectInline|apply KA_same, same_consumeLine].
Qed.

Lemma HM_descend_loop : forall fuel p d, hasMatch (kindAtD p d) = true -> HM (snd (descend_loop fuel p d)).
Proof.
  induction fuel as [|f IH]; intros p d H; [unfold HM; cbn [descend_loop snd]; rewrite containerKind_withCont; exact H|].
  cbn [descend_loop]. cbv zeta.
  assert (Hret : HM (withCont p (Some d))) by (unfold HM; rewrite containerKind_withCont; exact H).
  destruct (getAt (S d) (root p)) as [c|] eqn:Eg; [|exact Hret].
  destruct (negb (isOpen c)); [exact Hret|].
  destruct (negb (hasMatch (bkind c))) eqn:Em; [exact Hret|]. apply negb_false_iff in Em.
  set (p1 := withState (withCont p (Some (S d))) stDescending).
  pose proof (KA_matchRule p1) as Hk. destruct (matchRule p1) as [ok p2]. cbn [snd] in Hk.
  assert (K1 : kindAtD p2 d = kindAtD p d) by (rewrite (KA_kind p1 p2 d Hk); reflexivity).
  assert (K2 : kindAtD p2 (S d) = bkind c) by (rewrite (KA_kind p1 p2 (S d) Hk); unfold kindAtD, p1; cbn [root withState withCont setLP]; rewrite Eg; reflexivity).
  destruct (state p2 =? stDescendTerminated).
  - cbn [snd]. unfold HM. rewrite containerKind_closeAt. unfold kindAtD in K1, H. destruct (getAt d (root p2)); [rewrite K1; exact H|].
    cbn [newBlock bkind]. rewrite K1. exact H.
  - destruct (negb ok); [unfold HM; cbn [snd]; rewrite containerKind_withCont, K1; exact H|]. apply IH. rewrite K2. exact Em.
Qed.
Lemma HM_descendOpenBlocks p : bkind (root p) = documentKind -> HM (snd (descendOpenBlocks p)).
Proof. intros E. unfold descendOpenBlocks. apply HM_descend_loop. unfold kindAtD. cbn [getAt]. rewrite E. reflexivity. Qed.

(* the container when the text of the line is added *)
Theorem HM_at_text st children ls src : ccF children = true ->
  let p1 := snd (descendOpenBlocks (resetLP st children ls src)) in
  forall am, len (line p1) <> 0 -> HM (snd (openNewBlocks p1 am)).
Proof.
  intros Hc p1 am N.
  assert (C0 : ccP (resetLP st children ls src)).
  { unfold ccP, wf, resetLP, cdepth. cbn [root container]. split; [reflexivity|split; [exact Hc|eexists; reflexivity]]. }
  assert (C1 : ccP p1) by (unfold p1, descendOpenBlocks; apply ccP_descend_loop; [exact C0|eexists; reflexivity]).
  assert (H1 : HM p1) by (apply HM_descendOpenBlocks; reflexivity).
  unfold openNewBlocks. replace (len (line p1) =? 0) with false by (symmetry; apply Z.eqb_neq; exact N).
  pose proof (HM_opening_loop (S (length (line p1))) p1 C1 H1) as H2. destruct (opening_loop _ p1) as [ht p2]. cbn [snd] in H2.
  destruct am; cbn [snd]; [exact H2|apply HM_deferredClose, H2].
Qed.
