(* QFullTest.v -- T64: vm_compute tests of the two statements (parseFull_quote_statement, renderDoc_quote_statement) on the sample
   documents of QuoteSimTest / QS2Test and 39 documents with inline constructs over several lines (all tab-free, non-empty):
   the tree of quote D is the quote root around quoteKids3 D (tree of D) (up to the lastLineBlank flag of the root, which the statement
   leaves existential), and the safe-mode rendering (three configurations: soft breaks as LF / space / <br />, with and without tag filter)
   is the blockquote around the concatenated pieces. *)
From Coq Require Import List ZArith Lia Bool String Ascii.
Import ListNotations.
Require Import Base Tree LP Driver Inl3e Render SliceBase QuoteSimDefs QuoteSimTest QS2Test QFullDefs.
Open Scope Z_scope.
Definition check7 (D : bytes) : bool :=
  match parseFull (quote D) with
  | ([r], 0) => reqb {| rb_line := rb_line r; rb_start := rb_start r; rb_end := rb_end r; rb_src := rb_src r; rb_blk := set_blast (rb_blk r) false |}
                     (quoteRoot D false (quoteKids3 D (fst (parseFull D))))
  | _ => false end.
Definition cS (sb : Z) (fo : bool) : cfg := {| softBreak := sb; ignoreRaw := true; filterOn := fo; filterP := fun nm => leqb Z.eqb nm [112] || leqb Z.eqb nm [47;98;108;111;99;107;113;117;111;116;101] |}.
Definition check8 (c : cfg) (D : bytes) : bool := leqb Z.eqb (renderDoc c (quote D)) (openTag c s_blockquote ++ List.concat (renderPieces c D) ++ closeTag c s_blockquote).
Local Open Scope string_scope.
Definition docs3 : list string := [
  "a *b" ++ n ++ "c* d" ++ n; "[x](/u" ++ n ++ "'t" ++ n ++ "u')" ++ n; "`a" ++ n ++ "b`" ++ n; "a <b" ++ n ++ "c> d" ++ n; "<http://x.y> z" ++ n;
  "![a" ++ n ++ "b](/u)" ++ n; "[f]" ++ n ++ n ++ "[f]: /u 't'" ++ n; "[a" ++ n ++ "b][f]" ++ n ++ n ++ "[F]: /u" ++ n; "a  " ++ n ++ "b\" ++ n ++ "c" ++ n;
  "**a" ++ n ++ "_b_" ++ n ++ "c**" ++ n; "- [x](</a b>" ++ n ++ "  't')" ++ n; "&amp; &#35; \* x" ++ n; "a <!-- c" ++ n ++ "d --> e" ++ n; "``a" ++ n ++ " b`` c" ++ n;
  "[a]: /u" ++ n ++ "  'x" ++ n ++ "   y'" ++ n ++ n ++ "[a] and [a][] and [b][a]" ++ n; "# h *e*" ++ n ++ "t" ++ n ++ "===" ++ n; "1. a" ++ n ++ "   `b" ++ n ++ "   c`" ++ n;
  "> q *e" ++ n ++ "> f*" ++ n; "<div>" ++ n ++ "*x*" ++ n ++ n ++ "*y*" ++ n; "```" ++ n ++ "*c*" ++ n ++ "```" ++ n; "    *code*" ++ n ++ n ++ "p" ++ n;
  "[a](<b>) [c](d 'e') [f](g (h))" ++ n; "[![i](j)](k)" ++ n; "a<br/>b" ++ n ++ "<x y='z" ++ n ++ "w'>" ++ n; "*a" ++ n ++ n ++ "b*" ++ n; "[a" ++ n ++ n ++ "b](c)" ++ n;
  "\" ++ n ++ "x  " ++ n; "[a]: <b" ++ n ++ "c>" ++ n; "[a][b" ++ n ++ "c]" ++ n ++ n ++ "[b c]: /u" ++ n; "x `y" ++ n ++ n ++ "z`" ++ n;
  "a <?p" ++ n ++ "q" ++ n ++ "r?> b" ++ n; "a <![CDATA[x" ++ n ++ "y]]> b" ++ n; "a <!D x" ++ n ++ "y> b" ++ n; "a </b" ++ n ++ "  > c" ++ n; "- a <b" ++ n ++ "  c" ++ n ++ "  d='e'> f" ++ n;
  "a <b c=" ++ n ++ "'d" ++ n ++ "e'>" ++ n; "# *a*" ++ n ++ "## `b` [c](d) #" ++ n; "# a <b" ++ n; "### ![x](y 'z')"
].
Local Close Scope string_scope.
Definition tabFreeb (D : bytes) : bool := forallb (fun c => negb (c =? 9) && negb (c =? 13) && negb (c =? 0)) D && negb (len D =? 0).
Definition allDocs := docs ++ docs2 ++ docs3.
Example docs_count : (25 <=? List.length allDocs)%nat = true. Proof. vm_compute. reflexivity. Qed.
Example docs_tabFree : forallb (fun s => tabFreeb (s2b s)) allDocs = true. Proof. vm_compute. reflexivity. Qed.
Example tree_statement_holds : filter (fun s => negb (check7 (s2b s))) allDocs = []. Proof. vm_compute. reflexivity. Qed.
Example render_statement_holds : filter (fun s => negb (check8 (cS 0 false) (s2b s) && check8 (cS 1 true) (s2b s) && check8 (cS 2 true) (s2b s))) allDocs = []. Proof. vm_compute. reflexivity. Qed.
