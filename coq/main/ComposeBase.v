From Coq Require Import List ZArith Lia Bool.
Import ListNotations.
Require Import Base Tables Utf8 Tree Rdr Link Collect Html Recog Inl3a Inl3b Inl3c Inl3d Inl3e LP Rules Starts Driver Props.
Require L2Kind2.
Require Import BSDef BSTree BlockSpans BShDef BlockShapes BlockShapesNul.
Require Import ShapesBase EntBase EntRdr1 EntOcpDefs En2Tree En2Drv EntDefs En2OK.
Open Scope Z_scope.

(* ================================================================================================
   T45, common part: what the block-layer invariant (En2Drv.parseBlocks_okRE, with BlockShapes and L2Kind2) says about
   one root block, in a form the compositions use.  (En2*.v is the Ent*.v development of T28 with two more facts about the
   entry of an ATX heading, see En2Tree.atxE; the Ent*.v files themselves are untouched.)
     B   the buffer the root was cut from,  pre = upto B n  its text,  src = fillNulls pre  the root's Source (n = end of the root)
   ================================================================================================ *)
Section Root.
  Variables (B pre src pre' : bytes) (M n : Z).
  Hypothesis Hn : 0 <= n <= len B.
  Hypothesis Epre : pre = upto B n.
  Hypothesis Esrc : src = fillNulls pre.
  Hypothesis Htri : tri pre.
  Hypothesis Lp' : len pre' = n.

  (* the facts carried down the tree *)
  Definition facts (b : block) : Prop := en B M b /\ bshapes pre' b = true /\ L2Kind2.inv b = true.
  Lemma facts_kids b c : facts b -> In c (bkids b) -> facts c.
  Proof.
    intros (He & Hs & Hi) Hc. destruct b as [K s e bk ik a nn cc l lb]. cbn [bkids] in Hc. cbn [en] in He. destruct He as (_ & C).
    cbn [bshapes bkids] in Hs. apply andb_true_iff in Hs. destruct Hs as [_ Hk]. cbn [L2Kind2.inv] in Hi. apply andb_true_iff in Hi. destruct Hi as [_ Hik].
    rewrite forallb_forall in Hk, Hik. split; [eapply allP_In; eassumption|split; [apply Hk, Hc|apply Hik, Hc]].
  Qed.

  (* bytes of the Source against bytes of the buffer *)
  Lemma src_len : len src = n. Proof. apply (len_src B pre src n Hn Epre Esrc). Qed.
  Lemma src_simz i : 0 <= i < n -> simz (at_ B i) (at_ src i).
  Proof.
    intros Hi. pose proof (F2_at pre src i (sim_src pre src Esrc Htri)) as H. rewrite Epre in H at 1. rewrite ShapesBase.at_upto in H by lia. exact H.
  Qed.
  Lemma simz_eol a b : simz a b -> ((b =? 10) || (b =? 13)) = ((a =? 10) || (a =? 13)).
  Proof. intros [H|[-> ->]]; [apply sim_eol, H|reflexivity]. Qed.
  Lemma src_eol i : 0 <= i < n -> ((at_ src i =? 10) || (at_ src i =? 13)) = ((at_ B i =? 10) || (at_ B i =? 13)).
  Proof. intros Hi. apply simz_eol, src_simz, Hi. Qed.
  Lemma simz_val a b c : simz a b -> a = c -> c <> 0 -> b = c.
  Proof. apply simz_eq. Qed.
  Lemma eolz_b c : isEOLz c <-> ((c =? 10) || (c =? 13)) = true.
  Proof. unfold isEOLz. rewrite orb_true_iff, !Z.eqb_eq. tauto. Qed.

  (* a block on which the inline parser runs: a paragraph / setext heading with `lines`, or an ATX heading with one entry *)
  Lemma leaf_cases b : facts b -> hasUnparsed b = true ->
    0 <= bstart b /\ bstart b <= bend b /\ bend b <= n /\
    ((isPS (bkind b) /\ lines B (bend b) (bik b) /\ (forall u, In u (bik b) -> bstart b <= istart u)) \/
     (bkind b = ATXHeadingKind /\ exists a t, bik b = [mkI UnparsedKind a t] /\ 0 <= a /\ bstart b <= a /\ a <= t /\ t <= bend b /\
                                                eolTail B a t /\ atxTail B a t)).
  Proof.
    intros (He & Hs & Hi) Hu. pose proof (bshapes_bounds pre' _ Hs) as (S1 & S2 & S3). rewrite Lp' in S3.
    split; [exact S1|split; [exact S2|split; [exact S3|]]].
    destruct b as [K s e bk ik a nn c l lb]. cbn [bstart bend bkind bik] in *. cbn [en] in He. destruct He as ((A & A1 & A2 & A3 & A4) & C).
    destruct (Z.eq_dec K ParagraphKind) as [EK|NP].
    { left. destruct (A (or_introl EK)) as (L1 & L2 & _). rewrite bound_closed in L1 by lia. split; [left; exact EK|split; assumption]. }
    destruct (Z.eq_dec K SetextHeadingKind) as [EK|NS].
    { left. destruct (A (or_intror EK)) as (L1 & L2 & _). rewrite bound_closed in L1 by lia. split; [right; exact EK|split; assumption]. }
    destruct (Z.eq_dec K ATXHeadingKind) as [EA|NA].
    { right. split; [exact EA|]. destruct (A1 EA) as [_ [E|(a0 & t & E & D)]]; [unfold hasUnparsed in Hu; cbn [bik] in Hu; rewrite E in Hu; discriminate|].
      exists a0, t. split; [exact E|exact D]. }
    exfalso. unfold hasUnparsed in Hu. cbn [bik] in Hu. apply existsb_exists in Hu. destruct Hu as (u & Hin & Eu). apply Z.eqb_eq in Eu.
    destruct (Z.eq_dec K LinkReferenceDefinitionKind) as [EL|NL].
    - cbn [L2Kind2.inv] in Hi. apply andb_true_iff in Hi. destruct Hi as [Hi _]. rewrite forallb_forall in Hi. specialize (Hi u Hin).
      unfold L2Kind2.ek in Hi. cbv zeta in Hi. rewrite Eu in Hi. change (UnparsedKind =? UnparsedKind) with true in Hi. cbv iota in Hi.
      rewrite EL in Hi. rewrite andb_false_r in Hi. discriminate.
    - apply (A4 ltac:(repeat split; assumption) NL u Hin Eu).
  Qed.

  (* the checker of T28 on this block *)
  Lemma leaf_bikOKw b : facts b -> hasUnparsed b = true -> bikOKw src b = true.
  Proof.
    intros (He & Hs & Hi) Hu. pose proof (root_entries B pre src M n Hn Epre Esrc Htri pre' Lp' b He Hs Hi) as H.
    rewrite entriesOKw_eq, Hu in H. apply andb_true_iff in H. tauto.
  Qed.

  (* an Unparsed entry of a paragraph, read in the Source: line ending bytes only in a run at its end *)
  Lemma unp_split E u : unpOK B E u -> E <= n ->
    exists m, istart u < m <= iend u /\
      (forall i, istart u <= i < m -> ((at_ src i =? 10) || (at_ src i =? 13)) = false) /\
      (forall i, m <= i < iend u -> ((at_ src i =? 10) || (at_ src i =? 13)) = true) /\
      (isEOLz (at_ B (iend u - 1)) -> m < iend u).
  Proof.
    intros (_ & _ & U1 & U2 & U3 & (_ & _ & _ & K & _) & U5) HE.
    assert (Hne : forall i, istart u <= i < iend u -> ~ isEOLz (at_ B i) -> ((at_ src i =? 10) || (at_ src i =? 13)) = false).
    { intros i Hi Hz. rewrite src_eol by lia. destruct ((at_ B i =? 10) || (at_ B i =? 13)) eqn:X; [|reflexivity]. exfalso. apply Hz, eolz_b, X. }
    assert (Hye : forall i, istart u <= i < iend u -> isEOLz (at_ B i) -> ((at_ src i =? 10) || (at_ src i =? 13)) = true).
    { intros i Hi Hz. rewrite src_eol by lia. apply eolz_b, Hz. }
    destruct (isEOLz_dec (at_ B (iend u - 1))) as [Z1|Z1].
    - assert (Hgt : istart u < iend u - 1).
      { destruct (Z.eq_dec (istart u) (iend u - 1)) as [Eq|N]; [rewrite Eq in U5; contradiction|lia]. }
      destruct (isEOLz_dec (at_ B (iend u - 2))) as [Z2|Z2].
      + exists (iend u - 2). destruct (K (iend u - 2) ltac:(lia) Z2) as [X|(_ & X13 & X10)]; [lia|].
        assert (Hgt2 : istart u < iend u - 2).
        { destruct (Z.eq_dec (istart u) (iend u - 2)) as [Eq|N]; [rewrite Eq in U5; contradiction|lia]. }
        split; [lia|]. split; [|split; [|intros _; lia]].
        * intros i Hi. apply Hne; [lia|]. intros Hz. destruct (K i ltac:(lia) Hz) as [X|(X & _)]; lia.
        * intros i Hi. apply Hye; [lia|]. destruct (Z.eq_dec i (iend u - 2)) as [->|N]; [exact Z2|replace i with (iend u - 1) by lia; exact Z1].
      + exists (iend u - 1). split; [lia|]. split; [|split; [|intros _; lia]].
        * intros i Hi. apply Hne; [lia|]. intros Hz. destruct (K i ltac:(lia) Hz) as [X|(X & _)]; [lia|]. subst i. contradiction.
        * intros i Hi. apply Hye; [lia|]. replace i with (iend u - 1) by lia. exact Z1.
    - exists (iend u). split; [lia|]. split; [|split; [intros; lia|intros; contradiction]].
      intros i Hi. apply Hne; [lia|]. intros Hz. destruct (K i ltac:(lia) Hz) as [X|(_ & _ & X10)]; [subst i; contradiction|].
      apply Z1. left. exact X10.
  Qed.
End Root.

(* ---- the per-root facts, for every input ---- *)
Theorem root_facts input : forall r, In r (fst (parseBlocks input)) ->
  exists B pre' M, 0 <= bend (rb_blk r) <= len B /\ rb_src r = fillNulls (upto B (bend (rb_blk r))) /\ tri (upto B (bend (rb_blk r))) /\
                   len pre' = bend (rb_blk r) /\ facts B pre' M (rb_blk r).
Proof.
  intros r Hr. pose proof (parseBlocks_okRE input) as H1. pose proof (parseBlocks_block_shapes_prefill_partial input) as H2.
  pose proof (L2Kind2.parseBlocks_kinds input) as H3. rewrite Forall_forall in *.
  destruct (H1 r Hr) as (B & M & Hn & Es & He & Ht). destruct (H2 r Hr) as (pre' & _ & Es' & Hs).
  exists B, pre', M. split; [exact Hn|split; [exact Es|split; [exact Ht|split]]].
  - rewrite <- (len_fillNulls pre'), <- Es', Es, len_fillNulls, ShapesBase.len_upto. lia.
  - split; [exact He|split; [exact Hs|exact (H3 r Hr)]].
Qed.
Print Assumptions root_facts.
