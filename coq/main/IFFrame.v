From Coq Require Import List ZArith Lia Bool.
Import ListNotations.
Require Import Base Tables Utf8 Tree Rdr Link Collect Html Recog Inl3a Inl3b Inl3c Inl3d Inl3e Driver IFTokDef.
Open Scope Z_scope.

(* ================================================================ the source and the entry list never change *)
Lemma fr_setStk st v : fr st (setStk st v). Proof. split; reflexivity. Qed.
Lemma fr_setRk st v : fr st (setRk st v). Proof. split; reflexivity. Qed.
Lemma fr_setIgn st v : fr st (setIgn st v). Proof. split; reflexivity. Qed.
Lemma fr_setUpos st v : fr st (setUpos st v). Proof. split; reflexivity. Qed.
Lemma fr_updN st id g : fr st (updN st id g). Proof. split; reflexivity. Qed.
Lemma fr_removeNode st id : fr st (removeNode st id). Proof. split; reflexivity. Qed.
Lemma fr_appendKid st id k : fr st (appendKid st id k). Proof. split; reflexivity. Qed.
Lemma fr_wrap st k a b : fr st (fst (wrap st k a b)). Proof. split; reflexivity. Qed.
Lemma fr_advanceTo st p : fr st (advanceTo st p). Proof. unfold advanceTo. destruct (0 <=? _); split; reflexivity. Qed.

Ltac frt := eapply fr_trans.

Lemma fr_pe_loop : forall fuel st ob cp, fr st (pe_loop fuel st ob cp).
Proof.
  induction fuel as [|f IH]; intros st ob cp; [apply fr_refl|]. cbn [pe_loop].
  destruct (_ <? 0); [apply fr_refl|].
  destruct (_ <=? _).
  - match goal with |- context [wrap ?s ?k ?a ?b] => pose proof (fr_wrap s k a b) as Hw; destruct (wrap s k a b) as [st1 x]; cbn [fst] in Hw end.
    destruct Hw as [A B].
    destruct (plen _ =? 0); destruct (plen _ =? 0); (eapply fr_trans; [|apply IH]); (split; [exact A|exact B]).
  - destruct (negb _); (eapply fr_trans; [|apply IH]); split; reflexivity.
Qed.

Lemma fr_processEmphasis st sb : fr st (processEmphasis st sb).
Proof. unfold processEmphasis. destruct (fr_pe_loop (4 * (length (stk st) + length (isrc st)) + 8) st (repeat sb 14) sb) as [A B]. split; [exact A|exact B]. Qed.
Lemma fr_finishLink st kind odi : fr st (finishLink st kind odi).
Proof.
  unfold finishLink. destruct (fr_processEmphasis st (odi + 1)) as [A B]. destruct (kind =? LinkKind); split; first [exact A|exact B].
Qed.
Lemma fr_lfl : forall fuel st i, fr st (fst (lfl fuel st i)).
Proof.
  induction fuel as [|f IH]; intros st i; [apply fr_refl|]. cbn [lfl]. destruct (i <? 0); [apply fr_refl|].
  destruct (_ || _); [destruct (negb _); [apply fr_setStk|apply fr_refl]|apply IH].
Qed.
Lemma fr_lookFor st : fr st (fst (lookForLinkOrImage st)). Proof. apply fr_lfl. Qed.
Lemma fr_collectCodeSpan st a b c d : fr st (collectCodeSpan st a b c d).
Proof.
  unfold collectCodeSpan. cbv zeta. destruct (_ =? 0).
  - cbv beta iota. apply fr_addNode.
  - match goal with |- context [match ?X with pair _ _ => _ end] =>
      match X with
      | context [match ?Y with pair _ _ => _ end] => destruct Y as [acc up]
      end
    end.
    cbv beta iota. eapply fr_trans; [apply (fr_setUpos st)|apply fr_addNode].
Qed.

Ltac frs :=
  match goal with
  | |- fr _ (fst (_, _)) => cbn [fst]
  | |- fr _ (finishLink _ _ _) => eapply fr_trans; [|apply fr_finishLink]
  | |- fr _ (advanceTo _ _) => eapply fr_trans; [|apply fr_advanceTo]
  | |- fr _ (appendKid _ _ _) => eapply fr_trans; [|apply fr_appendKid]
  | |- fr _ (updN _ _ _) => eapply fr_trans; [|apply fr_updN]
  | |- fr _ (setStk _ _) => eapply fr_trans; [|apply fr_setStk]
  | |- fr _ (setIgn _ _) => eapply fr_trans; [|apply fr_setIgn]
  | |- fr _ (setUpos _ _) => eapply fr_trans; [|apply fr_setUpos]
  | |- fr _ (setRk _ _) => eapply fr_trans; [|apply fr_setRk]
  | |- fr _ (addText _ _ _) => eapply fr_trans; [|apply fr_addText]
  | |- fr _ (collectCodeSpan _ _ _ _ _) => eapply fr_trans; [|apply fr_collectCodeSpan]
  | |- fr _ (fst (addNode _ _ _ _ _)) => eapply fr_trans; [|apply fr_addNode]
  | |- fr _ (if ?c then _ else _) => destruct c
  | |- fr _ (fst (if ?c then _ else _)) => destruct c
  | |- fr ?a ?a => apply fr_refl
  end.

Lemma fr_parseDelimiterRun st pos : fr st (fst (parseDelimiterRun st pos)).
Proof.
  unfold parseDelimiterRun. cbv zeta.
  match goal with |- context [addNode ?s ?k ?a ?b ?c] => pose proof (fr_addNode s k a b c) as H; destruct (addNode s k a b c) as [st1 id]; cbn [fst] in H end.
  cbn [fst]. repeat frs. exact H.
Qed.
Lemma fr_parseBackslash st pos : fr st (fst (parseBackslash st pos)).
Proof. unfold parseBackslash. cbv zeta. repeat frs. Qed.

Lemma fr_parseEndBracketF rf tf st start : fr st (fst (parseEndBracketF rf tf st start)).
Proof.
  unfold parseEndBracketF. cbv zeta. pose proof (fr_lookFor st) as H1. destruct (lookForLinkOrImage st) as [st1 odi]. cbn [fst] in H1.
  destruct (odi <? 0); [repeat frs; exact H1|].
  match goal with |- context [match ?X with Some _ => _ | None => _ end] => destruct X as [[[[[ispan dspan] dtext] tspan] ttext]|] end.
  - match goal with |- context [wrap ?s ?k ?a ?b] => pose proof (fr_wrap s k a b) as Hw; destruct (wrap s k a b) as [st2 lid]; cbn [fst] in Hw end.
    assert (H2 : fr st st2) by (eapply fr_trans; eassumption). repeat frs; exact H2.
  - match goal with |- fr st (fst (match ?X with pair _ _ => _ end)) => destruct X as [lspan linner] end.
    destruct (_ && _ && _).
    + destruct (negb (matchRef _ _)); [repeat frs; exact H1|].
      match goal with |- context [wrap ?s ?k ?a ?b] => pose proof (fr_wrap s k a b) as Hw; destruct (wrap s k a b) as [st2 lid]; cbn [fst] in Hw end.
      assert (H2 : fr st st2) by (eapply fr_trans; eassumption). repeat frs; exact H2.
    + destruct (spanValid lspan).
      * destruct (negb (matchRef _ _)); [repeat frs; exact H1|].
        match goal with |- context [wrap ?s ?k ?a ?b] => pose proof (fr_wrap s k a b) as Hw; destruct (wrap s k a b) as [st2 lid]; cbn [fst] in Hw end.
        assert (H2 : fr st st2) by (eapply fr_trans; eassumption). repeat frs; exact H2.
      * destruct (negb (matchRef _ _)); [repeat frs; exact H1|].
        match goal with |- context [wrap ?s ?k ?a ?b] => pose proof (fr_wrap s k a b) as Hw; destruct (wrap s k a b) as [st2 lid]; cbn [fst] in Hw end.
        assert (H2 : fr st st2) by (eapply fr_trans; eassumption). repeat frs; exact H2.
Qed.

Lemma fr_istepF rf tf st pos ps : fr st (fst (fst (istepF rf tf st pos ps))).
Proof.
  unfold istepF. cbv zeta.
  destruct (_ || _).
  { pose proof (fr_parseDelimiterRun (addText st ps pos) pos) as H. destruct (parseDelimiterRun _ pos) as [st1 e]. cbn [fst] in *.
    eapply fr_trans; [apply fr_addText|exact H]. }
  destruct (_ =? 91).
  { match goal with |- context [addNode ?s ?k ?a ?b ?c] => pose proof (fr_addNode s k a b c) as H; destruct (addNode s k a b c) as [st1 id]; cbn [fst] in H end.
    cbn [fst]. repeat frs. eapply fr_trans; [apply fr_addText|exact H]. }
  destruct (_ =? 93).
  { pose proof (fr_parseEndBracketF rf tf (addText st ps pos) pos) as H. destruct (parseEndBracketF rf tf _ pos) as [st1 e]. cbn [fst] in *.
    eapply fr_trans; [apply fr_addText|exact H]. }
  destruct (_ =? 33).
  { destruct (_ || _); [cbn [fst]; apply fr_refl|].
    match goal with |- context [addNode ?s ?k ?a ?b ?c] => pose proof (fr_addNode s k a b c) as H; destruct (addNode s k a b c) as [st1 id]; cbn [fst] in H end.
    cbn [fst]. repeat frs. eapply fr_trans; [apply fr_addText|exact H]. }
  destruct (_ =? 32).
  { destruct (parseHardLineBreakSpace _) as [e ok]. destruct (_ && _); cbn [fst]; repeat frs. }
  destruct (_ =? 96).
  { destruct (parseCodeSpan _ _ _) as [[cS cE] sE]. destruct (0 <=? sE); cbn [fst]; repeat frs. }
  destruct (_ =? 60).
  { destruct (0 <=? _); [cbn [fst]; repeat frs|]. destruct (parseHTMLTag _ _) as [ts te]. destruct (negb _); cbn [fst]; repeat frs. }
  destruct (_ =? 92).
  { pose proof (fr_parseBackslash (addText st ps pos) pos) as H. destruct (parseBackslash _ pos) as [st1 e]. cbn [fst] in *.
    eapply fr_trans; [apply fr_addText|exact H]. }
  destruct (_ =? 38). { destruct (_ <? 0); cbn [fst]; repeat frs. }
  destruct (_ =? 10). { cbn [fst]. repeat frs. }
  destruct (_ =? 13). { cbn [fst]. repeat frs. }
  cbn [fst]. apply fr_refl.
Qed.

Lemma fr_iloopF rf tf : forall fuel st pos ps, fr st (fst (iloopF rf tf fuel st pos ps)).
Proof.
  induction fuel as [|f IH]; intros st pos ps; [apply fr_refl|]. cbn [iloopF]. destruct (_ && _); [|apply fr_refl].
  pose proof (fr_istepF rf tf st pos ps) as H. destruct (istepF rf tf st pos ps) as [[st1 p1] ps1]. cbn [fst] in H.
  eapply fr_trans; [exact H|apply IH].
Qed.

(* ---- at the model's fuels the loops are the model's loops ---- *)
Lemma iloopF_model : forall fuel st pos ps, iloopF (rfuelOf st) (rfuelOf st) fuel st pos ps = iloop fuel st pos ps.
Proof.
  induction fuel as [|f IH]; intros st pos ps; [reflexivity|]. cbn [iloopF iloop]. destruct (_ && _); [|reflexivity].
  rewrite istepF_model. pose proof (fr_istepF (rfuelOf st) (rfuelOf st) st pos ps) as H. rewrite istepF_model in H.
  destruct (istep st pos ps) as [[st1 p1] ps1]. cbn [fst] in H. rewrite <- (fr_rfuel _ _ H). apply IH.
Qed.
Lemma outerF_fr_eq f st st' : fr st st' ->
  (forall s, outerF (rfuelOf s) (rfuelOf s) (S (length (isrc s))) f s = outer f s) ->
  outerF (rfuelOf st) (rfuelOf st) (S (length (isrc st))) f st' = outer f st'.
Proof. intros [A B] IH. unfold rfuelOf in *. rewrite <- A. apply IH. Qed.
Lemma outerF_model : forall fuel st, outerF (rfuelOf st) (rfuelOf st) (S (length (isrc st))) fuel st = outer fuel st.
Proof.
  induction fuel as [|f IH]; intros st; [reflexivity|]. cbn [outerF outer]. destruct (_ <=? _); [reflexivity|].
  match goal with |- outerF _ _ _ f (setUpos ?A _) = outer f (setUpos ?B _) => assert (E : A = B /\ fr st B) end.
  { destruct (_ =? 0); [split; [reflexivity|apply fr_setIgn]|].
    destruct (_ =? IndentKind); [split; [reflexivity|]; destruct (negb _); [apply fr_setRk|apply fr_refl]|].
    destruct (_ =? UnparsedKind); [|split; [reflexivity|]; eapply fr_trans; [apply fr_setIgn|apply fr_setRk]].
    change (isrc (setIgn st false)) with (isrc st). change (rfuelOf st) with (rfuelOf (setIgn st false)). rewrite iloopF_model.
    match goal with |- context [iloop ?a ?b ?c ?d] => pose proof (fr_iloopF (rfuelOf b) (rfuelOf b) a b c d) as H; rewrite iloopF_model in H;
      destruct (iloop a b c d) as [st1 ps1]; cbn [fst] in H end.
    split; [reflexivity|]. eapply fr_trans; [apply (fr_setIgn st false)|]. eapply fr_trans; [exact H|apply fr_addText]. }
  destruct E as [-> H]. pose proof (fr_trans _ _ _ H (fr_setUpos _ (upos st + 1))) as H'.
  apply outerF_fr_eq; [exact H'|exact IH].
Qed.
Theorem parseInlinesF_model src matcher b :
  parseInlinesF (2 * length src + 10) (2 * length src + 10) (S (length src)) (S (length (bik b))) src matcher b = parseInlines src matcher b.
Proof.
  pose proof (outerF_model (S (length (bik b))) (st0 src matcher b)) as H. unfold st0, rfuelOf in H. cbn [isrc] in H.
  unfold parseInlinesF, parseInlines, st0. cbv zeta. rewrite <- H. reflexivity.
Qed.
