(* RefSliceTest.v -- concrete instances of the C12 slice (T44), each checked by vm_compute on the model itself
   (independently of the theorem) and against the right-hand side of C12_refslice. *)
From Coq Require Import List ZArith Lia Bool.
Import ListNotations.
Require Import Base Tables Utf8 Tree Driver Inl3e Render SliceBase LabelNorm RefSliceBlk RefSliceInl RefSliceMain.
Open Scope Z_scope.

Definition rhs (lab use : bytes) : bytes := [10; 10] ++ (if labelsAgree lab use then linkHtml use else textHtml use).
Definition check (lab use : bytes) (agree : bool) : bool :=
  okLab lab && okUse use && Bool.eqb (labelsAgree lab use) agree &&
  bytes_eqb (renderDoc c0 (D lab use)) (rhs lab use).
Definition trees (lab use : bytes) : Prop := map rb_blk (fst (parseFull (D lab use))) = [refDefOf lab true; usePara lab use].

(* 1  "foo" / "foo"            same                 *) Example t01 : check [102;111;111] [102;111;111] true = true. Proof. vm_compute. reflexivity. Qed.
(* 2  "Foo" / "foo"            case                 *) Example t02 : check [70;111;111] [102;111;111] true = true. Proof. vm_compute. reflexivity. Qed.
(* 3  "foo" / "FOO"            case                 *) Example t03 : check [102;111;111] [70;79;79] true = true. Proof. vm_compute. reflexivity. Qed.
(* 4  "a b" / "A  B"           inner spaces + case  *) Example t04 : check [97;32;98] [65;32;32;66] true = true. Proof. vm_compute. reflexivity. Qed.
(* 5  "a b" / "a\tb"           tab                  *) Example t05 : check [97;32;98] [97;9;98] true = true. Proof. vm_compute. reflexivity. Qed.
(* 6  "a \t b" / "a b"         run in the definition*) Example t06 : check [97;32;9;32;98] [97;32;98] true = true. Proof. vm_compute. reflexivity. Qed.
(* 7  "a b C" / "A  b\tc "     trailing space in use*) Example t07 : check [97;32;98;32;67] [65;32;32;98;9;99;32] true = true. Proof. vm_compute. reflexivity. Qed.
(* 8  "x1" / "X1"              digits               *) Example t08 : check [120;49] [88;49] true = true. Proof. vm_compute. reflexivity. Qed.
(* 9  "a b" / "ab"             differ               *) Example t09 : check [97;32;98] [97;98] false = true. Proof. vm_compute. reflexivity. Qed.
(* 10 "foo" / "fooo"           differ               *) Example t10 : check [102;111;111] [102;111;111;111] false = true. Proof. vm_compute. reflexivity. Qed.
(* 11 "foo" / "bar"            differ               *) Example t11 : check [102;111;111] [98;97;114] false = true. Proof. vm_compute. reflexivity. Qed.
(* 12 "1" / "1"                one digit            *) Example t12 : check [49] [49] true = true. Proof. vm_compute. reflexivity. Qed.
Example t04_tree : trees [97;32;98] [65;32;32;66]. Proof. vm_compute. reflexivity. Qed.
Example t07_tree : trees [97;32;98;32;67] [65;32;32;98;9;99;32]. Proof. vm_compute. reflexivity. Qed.
Example t09_tree : trees [97;32;98] [97;98]. Proof. vm_compute. reflexivity. Qed.
(* 13 "a  b" / "a b c"         differ               *) Example t13 : check [97;32;32;98] [97;32;98;32;99] false = true. Proof. vm_compute. reflexivity. Qed.

(* the 999-character limit of parseLinkLabel: a definition label of 998 bytes is within the slice, one of 999 bytes is not a
   definition any more (the paragraph "[aaa...]: /u" stays a paragraph), so the bound in okLab cannot be dropped *)
Example limit_998 : check (repeat 97 998%nat) (repeat 97 998%nat) true = true.
Proof. vm_compute. reflexivity. Qed.
Example limit_999_needed :
  bytes_eqb (renderDoc c0 (D (repeat 97 999%nat) (repeat 97 999%nat))) (rhs (repeat 97 999%nat) (repeat 97 999%nat)) = false.
Proof. vm_compute. reflexivity. Qed.
