From Coq Require Import List ZArith Lia Bool.
Import ListNotations.
Require Import Base Tables Utf8 Tree Rdr Link Collect Rec17 Rec18.
Open Scope Z_scope.

(* ===== parseCharacterEscape: a reference is "&", "#", letters, digits, ";" and lies within the given text ===== *)
Definition isEntCh (c : Z) : bool := isASCIILetter c || isASCIIDigit c || (c =? 38) || (c =? 35) || (c =? 59).

Lemma at_firstn : forall (k : nat) (l : bytes) i, 0 <= i < len (firstn k l) -> at_ (firstn k l) i = at_ l i.
Proof.
  induction k as [|k IH]; intros l i Hi; [cbn in Hi; lia|]. destruct l as [|x l]; [cbn in Hi; lia|]. cbn [firstn] in *.
  destruct (Z.eq_dec i 0) as [->|N]; [reflexivity|]. replace i with ((i - 1) + 1) by lia. rewrite !at_consS by lia. apply IH.
  assert (El : len (x :: firstn k l) = len (firstn k l) + 1) by (unfold len; cbn [length]; lia). lia.
Qed.
Lemma len_firstn_le {A} (k : nat) (l : list A) : len (firstn k l) <= len l.
Proof. unfold len. rewrite firstn_length. lia. Qed.
Lemma at_upto_lt (l : bytes) n i : 0 <= i < len (upto l n) -> at_ (upto l n) i = at_ l i.
Proof. apply at_firstn. Qed.
Lemma len_upto_le {A} (l : list A) n : len (upto l n) <= len l.
Proof. apply len_firstn_le. Qed.
Lemma len_from_eq {A} (l : list A) n : 0 <= n -> len (from_ l n) = Z.max 0 (len l - n).
Proof. intros Hn. unfold len, from_. rewrite skipn_length. lia. Qed.

Lemma pce_named_spec : forall l i acc, 0 <= i -> 0 <= pce_named l i acc ->
  exists k, 0 <= k < len l /\ pce_named l i acc = i + k + 2 /\ at_ l k = 59 /\ forall j, 0 <= j < k -> isASCIILetter (at_ l j) || isASCIIDigit (at_ l j) = true.
Proof.
  induction l as [|c r IH]; intros i acc Hi H; cbn [pce_named] in *; [lia|].
  pose proof (len_nonneg r) as Hr. assert (El : len (c :: r) = len r + 1) by (unfold len; cbn [length]; lia).
  destruct (Z.eqb_spec c 59) as [->|N].
  - destruct ((i =? 0) || _); [lia|]. exists 0. split; [lia|]. split; [lia|]. split; [reflexivity|intros; lia].
  - destruct (negb (isASCIILetter c) && negb (isASCIIDigit c)) eqn:E; [lia|].
    destruct (IH (i + 1) (c :: acc) ltac:(lia) H) as (k & K1 & K2 & K3 & K4). exists (k + 1). split; [lia|]. split; [lia|]. split; [rewrite at_consS by lia; exact K3|].
    intros j Hj. destruct (Z.eq_dec j 0) as [->|Nj].
    + rewrite at_cons0. destruct (isASCIILetter c); [reflexivity|]. destruct (isASCIIDigit c); [reflexivity|discriminate].
    + replace j with ((j - 1) + 1) by lia. rewrite at_consS by lia. apply K4. lia.
Qed.
Lemma pce_num_spec p : forall l i ds, 0 <= i -> 0 <= ds -> 0 <= pce_num p l i ds ->
  exists k, 0 <= k < len l /\ pce_num p l i ds = ds + i + k + 1 /\ at_ l k = 59 /\ forall j, 0 <= j < k -> p (at_ l j) = true.
Proof.
  induction l as [|c r IH]; intros i ds Hi Hd H; cbn [pce_num] in *; [lia|].
  pose proof (len_nonneg r) as Hr. assert (El : len (c :: r) = len r + 1) by (unfold len; cbn [length]; lia).
  destruct (Z.eqb_spec c 59) as [->|N].
  - destruct (i =? 0); [lia|]. exists 0. split; [lia|]. split; [lia|]. split; [reflexivity|intros; lia].
  - destruct (p c) eqn:E; cbn [negb] in *; [|lia].
    destruct (IH (i + 1) ds ltac:(lia) Hd H) as (k & K1 & K2 & K3 & K4). exists (k + 1). split; [lia|]. split; [lia|]. split; [rewrite at_consS by lia; exact K3|].
    intros j Hj. destruct (Z.eq_dec j 0) as [->|Nj]; [rewrite at_cons0; exact E|]. replace j with ((j - 1) + 1) by lia. rewrite at_consS by lia. apply K4. lia.
Qed.

Lemma hex_ent c : isHex c = true -> isASCIILetter c || isASCIIDigit c = true.
Proof. unfold isHex, isASCIILetter, isASCIIDigit. intros H. repeat rewrite ?orb_true_iff, ?andb_true_iff, ?Z.leb_le in *. lia. Qed.
Lemma alnum_ent c : isASCIILetter c || isASCIIDigit c = true -> isEntCh c = true.
Proof. unfold isEntCh. intros H. rewrite H. reflexivity. Qed.

Lemma pce_spec text : 0 <= parseCharacterEscape text ->
  1 <= parseCharacterEscape text <= len text /\ forall i, 0 <= i < parseCharacterEscape text -> isEntCh (at_ text i) = true.
Proof.
  unfold parseCharacterEscape. destruct (Z.ltb_spec (len text) 3) as [L|L]; cbn [orb]; [lia|].
  destruct (Z.eqb_spec (at_ text 0) 38) as [E0|N0]; cbn [negb]; [|lia].
  assert (A0 : isEntCh (at_ text 0) = true) by (rewrite E0; reflexivity).
  destruct (Z.eqb_spec (at_ text 1) 35) as [E1|N1]; cbn [negb].
  - assert (A1 : isEntCh (at_ text 1) = true) by (rewrite E1; reflexivity).
    destruct ((at_ text 2 =? 120) || (at_ text 2 =? 88)) eqn:E2.
    + assert (A2 : isEntCh (at_ text 2) = true) by (apply orb_true_iff in E2; destruct E2 as [E2|E2]; apply Z.eqb_eq in E2; rewrite E2; reflexivity).
      intros H. destruct (pce_num_spec isHex _ 0 3 ltac:(lia) ltac:(lia) H) as (k & K1 & K2 & K3 & K4). rewrite K2.
      pose proof (len_upto_le (from_ text 3) 7) as Hl. rewrite len_from_eq in Hl by lia.
      split; [lia|]. intros i Hi.
      destruct (Z.eq_dec i 0) as [->|]; [exact A0|]. destruct (Z.eq_dec i 1) as [->|]; [exact A1|]. destruct (Z.eq_dec i 2) as [->|]; [exact A2|].
      assert (Ei : at_ text i = at_ (upto (from_ text 3) 7) (i - 3)).
      { rewrite at_upto_lt by lia. rewrite at_from by lia. f_equal. lia. }
      rewrite Ei. destruct (Z.eq_dec (i - 3) k) as [->|]; [rewrite K3; reflexivity|]. apply alnum_ent, hex_ent, K4. lia.
    + intros H. destruct (pce_num_spec isASCIIDigit _ 0 2 ltac:(lia) ltac:(lia) H) as (k & K1 & K2 & K3 & K4). rewrite K2.
      pose proof (len_upto_le (from_ text 2) 8) as Hl. rewrite len_from_eq in Hl by lia.
      split; [lia|]. intros i Hi.
      destruct (Z.eq_dec i 0) as [->|]; [exact A0|]. destruct (Z.eq_dec i 1) as [->|]; [exact A1|].
      assert (Ei : at_ text i = at_ (upto (from_ text 2) 8) (i - 2)).
      { rewrite at_upto_lt by lia. rewrite at_from by lia. f_equal. lia. }
      rewrite Ei. destruct (Z.eq_dec (i - 2) k) as [->|]; [rewrite K3; reflexivity|]. apply alnum_ent. rewrite K4 by lia. apply orb_true_r.
  - intros H. destruct (pce_named_spec _ 0 [] ltac:(lia) H) as (k & K1 & K2 & K3 & K4). rewrite K2.
    rewrite len_from_eq in K1 by lia. split; [lia|]. intros i Hi.
    destruct (Z.eq_dec i 0) as [->|]; [exact A0|].
    assert (Ei : at_ text i = at_ (from_ text 1) (i - 1)) by (rewrite at_from by lia; f_equal; lia).
    rewrite Ei. destruct (Z.eq_dec (i - 1) k) as [->|]; [rewrite K3; reflexivity|]. apply alnum_ent, K4. lia.
Qed.
