(* C17exact.v — the side condition chkB is exact for the output invariant ltokb:
     chkB fuel c refs src pt b [] = true   <->   for EVERY predicate p' (equivalently: every prefix-closed p'),
                                                 the output rendered with filterP := p' satisfies ltokb p'.
   In particular chkB does not really depend on filterP c (only on the class of the first byte of what follows a leaf). *)
From Coq Require Import List ZArith Lia Bool.
Import ListNotations.
Require Import Base Tables Utf8 Tree Recog Inl3b Driver Inl3e Render Safe MainTok C17bytes C17chk C17tags C17weak.
Open Scope Z_scope.

(* ---- what follows a leaf, as far as a leaf can see it (hceq, C17weak.v) ---- *)
Definition ffhead (s : bytes) : bool := match s with x :: _ => negb (nameCh x) | [] => false end.
Lemma nameCh_of_letter x : isASCIILetter x = true -> nameCh x = true.
Proof. unfold nameCh. intros ->. reflexivity. Qed.
Lemma hceq_ffhead s s' : ffhead s = true -> ffhead s' = true -> hceq s s'.
Proof.
  destruct s as [|x s]; [discriminate|]. destruct s' as [|y s']; [discriminate|]. cbn [ffhead]. intros H H'.
  apply negb_true_iff in H, H'. unfold hceq. cbn [startsLetter takeName]. fold (nameCh x) (nameCh y). rewrite H, H'.
  destruct (isASCIILetter x) eqn:E1; [rewrite (nameCh_of_letter x E1) in H; discriminate|].
  destruct (isASCIILetter y) eqn:E2; [rewrite (nameCh_of_letter y E2) in H'; discriminate|]. split; reflexivity.
Qed.
Lemma ffhead_openTagAttr c n X : ffhead (openTagAttr c n ++ X) = true.
Proof. unfold openTagAttr. destruct (reject c n); reflexivity. Qed.
Lemma ffhead_openTag c n X : ffhead (openTag c n ++ X) = true.
Proof. unfold openTag. rewrite <- app_assoc. apply ffhead_openTagAttr. Qed.
Lemma ffhead_closeTag c n X : ffhead (closeTag c n ++ X) = true.
Proof. unfold closeTag. destruct (reject c (47 :: n)); reflexivity. Qed.

Lemma nameStable_hc r t t' : hceq t t' -> nameStable r t = nameStable r t'.
Proof. intros H. pose proof (hceq_startsNameCh _ _ H) as H2. destruct H as [H1 _]. unfold nameStable. destruct r; rewrite ?H1, ?H2; reflexivity. Qed.
Lemma joinOK_hc s t t' : hceq t t' -> joinOK s t = joinOK s t'.
Proof. intros H. induction s as [|x r IH]; [reflexivity|]. cbn [joinOK]. rewrite IH, (nameStable_hc r t t' H). reflexivity. Qed.
Lemma vsafe_hc s t t' : hceq t t' -> vsafe s t = vsafe s t'.
Proof.
  intros H. induction s as [|x r IH]; [reflexivity|]. cbn [vsafe]. rewrite IH.
  destruct (hceq_app_same r t t' H) as [-> _]. reflexivity.
Qed.

Lemma hceq_flat_map {A} (g g' : A -> bytes) l :
  (forall x, In x l -> forall t t', hceq t t' -> hceq (g x ++ t) (g' x ++ t')) ->
  forall t t', hceq t t' -> hceq (flat_map g l ++ t) (flat_map g' l ++ t').
Proof.
  induction l as [|x r IH]; intros H t t' Ht; [exact Ht|]. cbn [flat_map]. rewrite <- !app_assoc.
  apply H; [left; reflexivity|]. apply IH; [intros y Hy; apply H; right; exact Hy|exact Ht].
Qed.
Lemma chkL_hc {A} (g g' : A -> bytes) (chk chk' : A -> bytes -> bool) l :
  (forall x, In x l -> forall t t', hceq t t' -> hceq (g x ++ t) (g' x ++ t')) ->
  (forall x, In x l -> forall t t', hceq t t' -> chk x t = chk' x t') ->
  forall t t', hceq t t' -> chkL g chk l t = chkL g' chk' l t'.
Proof.
  induction l as [|x r IH]; intros Hg Hc t t' Ht; [reflexivity|]. cbn [chkL]. f_equal.
  - apply Hc; [left; reflexivity|]. apply hceq_flat_map; [intros y Hy; apply Hg; right; exact Hy|exact Ht].
  - apply IH; [intros y Hy; apply Hg; right; exact Hy|intros y Hy; apply Hc; right; exact Hy|exact Ht].
Qed.

(* two configurations that differ in the predicate only *)
Definition sameButP (c c' : cfg) : Prop := softBreak c' = softBreak c /\ ignoreRaw c' = ignoreRaw c /\ filterOn c = true /\ filterOn c' = true.
Definition setP (c : cfg) (p' : bytes -> bool) : cfg :=
  {| softBreak := softBreak c; ignoreRaw := ignoreRaw c; filterOn := true; filterP := p' |}.
Lemma sameButP_setP c p' : filterOn c = true -> sameButP c (setP c p').
Proof. intros H. repeat split; assumption. Qed.

Section HC.
  Variables c c' : cfg.
  Variable refs : list (bytes * linkDef).
  Variable src : bytes.
  Hypothesis G : sameButP c c'.

  Lemma hceq_filterRaw s t t' : hceq t t' -> hceq (filterRaw c s ++ t) (filterRaw c' s ++ t').
  Proof.
    intros Ht. split.
    - destruct s as [|x r]; [apply Ht|]. cbn [filterRaw]. destruct (x =? 60); [|reflexivity].
      destruct (filterP c _); destruct (filterP c' _); reflexivity.
    - rewrite !takeName_filterRaw_app. apply (hceq_app_same s t t' Ht).
  Qed.

  Ltac hc_tag := apply hceq_ffhead; first [apply ffhead_openTag | apply ffhead_openTagAttr | apply ffhead_closeTag].

  Lemma hcI : forall fuel i t t', hceq t t' -> hceq (renderI fuel c refs src i ++ t) (renderI fuel c' refs src i ++ t').
  Proof.
    destruct G as (Gs & Gi & Gf & Gf').
    induction fuel as [|f IH]; intros i t t' Ht; [exact Ht|]. cbn [renderI]. cbv zeta. rewrite Gs, Gi, Gf, Gf'.
    destruct ((ikind i =? TextKind) || (ikind i =? UnparsedKind)); [apply hceq_app_same, Ht|].
    destruct (ikind i =? CharacterReferenceKind); [apply hceq_app_same, Ht|].
    destruct (ikind i =? RawHTMLKind); [destruct (ignoreRaw c); [exact Ht|apply hceq_filterRaw, Ht]|].
    destruct (ikind i =? SoftLineBreakKind).
    { destruct (softBreak c =? 2); [rewrite <- !app_assoc; hc_tag|]. apply hceq_app_same, Ht. }
    destruct (ikind i =? HardLineBreakKind); [rewrite <- !app_assoc; hc_tag|].
    destruct (ikind i =? EmphasisKind); [rewrite <- !app_assoc; hc_tag|].
    destruct (ikind i =? StrongKind); [rewrite <- !app_assoc; hc_tag|].
    destruct (ikind i =? CodeSpanKind); [rewrite <- !app_assoc; hc_tag|].
    destruct (ikind i =? LinkKind); [rewrite <- !app_assoc; hc_tag|].
    destruct (ikind i =? ImageKind); [rewrite <- !app_assoc; hc_tag|].
    destruct (ikind i =? AutolinkKind); [rewrite <- !app_assoc; hc_tag|].
    destruct (ikind i =? IndentKind); [apply hceq_app_same, Ht|].
    destruct (ikind i =? HTMLTagKind); [|exact Ht].
    apply hceq_flat_map; [|exact Ht]. intros x _. apply IH.
  Qed.

  Lemma hcKids f b :
    (forall pt x t t', hceq t t' -> hceq (renderB f c refs src pt x ++ t) (renderB f c' refs src pt x ++ t')) ->
    forall t t', hceq t t' ->
    hceq ((match bkids b with
           | [] => flat_map (fun i => renderI (isize i) c refs src i) (bik b)
           | _ :: _ => flat_map (renderB f c refs src (isTightList b)) (bkids b) end) ++ t)
         ((match bkids b with
           | [] => flat_map (fun i => renderI (isize i) c' refs src i) (bik b)
           | _ :: _ => flat_map (renderB f c' refs src (isTightList b)) (bkids b) end) ++ t').
  Proof.
    intros IH t t' Ht. destruct (bkids b) as [|b0 bs].
    - apply hceq_flat_map; [|exact Ht]. intros x _. apply hcI.
    - apply hceq_flat_map; [|exact Ht]. intros x _. apply IH.
  Qed.

  Lemma hcB : forall fuel pt b t t', hceq t t' -> hceq (renderB fuel c refs src pt b ++ t) (renderB fuel c' refs src pt b ++ t').
  Proof.
    destruct G as (Gs & Gi & Gf & Gf').
    induction fuel as [|f IH]; intros pt b t t' Ht; [exact Ht|]. cbn [renderB]. cbv zeta. rewrite Gi.
    pose proof (hcKids f b IH) as Hk.
    destruct (bkind b =? ParagraphKind); [destruct pt; [apply Hk, Ht|rewrite <- !app_assoc; hc_tag]|].
    destruct (bkind b =? ThematicBreakKind); [hc_tag|].
    destruct (isHeading (bkind b)); [rewrite <- !app_assoc; hc_tag|].
    destruct (isCode (bkind b)); [rewrite <- !app_assoc; hc_tag|].
    destruct (bkind b =? BlockQuoteKind); [rewrite <- !app_assoc; hc_tag|].
    destruct (bkind b =? ListKind); [destruct (isOrdered b); rewrite <- !app_assoc; hc_tag|].
    destruct (bkind b =? ListItemKind); [rewrite <- !app_assoc; hc_tag|].
    destruct (bkind b =? HTMLBlockKind); [|exact Ht]. destruct (ignoreRaw c); [exact Ht|apply Hk, Ht].
  Qed.

  (* ---- the check does not depend on the predicate ---- *)
  Lemma chkAlt_hc : forall fuel i t t', hceq t t' -> chkAlt fuel src i t = chkAlt fuel src i t'.
  Proof.
    induction fuel as [|f IH]; intros i t t' Ht; [reflexivity|]. cbn [chkAlt]. cbv zeta.
    destruct (ikind i =? TextKind); [reflexivity|]. destruct (ikind i =? CharacterReferenceKind); [apply vsafe_hc, Ht|].
    destruct (_ || _); [reflexivity|]. destruct (_ || _); [reflexivity|].
    apply chkL_hc; [intros x _ u u' Hu; apply hceq_app_same, Hu|intros x _; apply IH|exact Ht].
  Qed.

  Lemma chkI_hc : forall fuel i t t', hceq t t' -> chkI fuel c refs src i t = chkI fuel c' refs src i t'.
  Proof.
    destruct G as (Gs & Gi & Gf & Gf').
    induction fuel as [|f IH]; intros i t t' Ht; [reflexivity|]. cbn [chkI]. cbv zeta. rewrite Gs, Gi.
    assert (Hk : forall u u', hceq u u' -> chkL (renderI f c refs src) (chkI f c refs src) (ikids i) u = chkL (renderI f c' refs src) (chkI f c' refs src) (ikids i) u').
    { apply chkL_hc; [intros x _; apply hcI|intros x _; apply IH]. }
    destruct ((ikind i =? TextKind) || (ikind i =? UnparsedKind)); [reflexivity|].
    destruct (ikind i =? CharacterReferenceKind); [apply vsafe_hc, Ht|].
    destruct (ikind i =? RawHTMLKind); [destruct (ignoreRaw c); [reflexivity|apply joinOK_hc, Ht]|].
    destruct (ikind i =? SoftLineBreakKind).
    { destruct (softBreak c =? 2); [reflexivity|]. destruct (softBreak c =? 1); [reflexivity|]. destruct (0 <? _); [apply vsafe_hc, Ht|reflexivity]. }
    destruct (ikind i =? HardLineBreakKind); [reflexivity|].
    destruct (ikind i =? EmphasisKind); [apply Hk; hc_tag|]. destruct (ikind i =? StrongKind); [apply Hk; hc_tag|].
    destruct (ikind i =? CodeSpanKind); [apply Hk; hc_tag|]. destruct (ikind i =? LinkKind); [apply Hk; hc_tag|].
    destruct (ikind i =? ImageKind); [apply chkAlt_hc, hceq_ffhead; reflexivity|].
    destruct (ikind i =? AutolinkKind); [reflexivity|]. destruct (ikind i =? IndentKind); [reflexivity|].
    destruct (ikind i =? HTMLTagKind); [apply Hk, Ht|reflexivity].
  Qed.

  Lemma chkB_hc : forall fuel pt b t t', hceq t t' -> chkB fuel c refs src pt b t = chkB fuel c' refs src pt b t'.
  Proof.
    destruct G as (Gs & Gi & Gf & Gf').
    induction fuel as [|f IH]; intros pt b t t' Ht; [reflexivity|]. cbn [chkB]. cbv zeta. rewrite Gi.
    assert (Hk : forall u u', hceq u u' ->
      (match bkids b with
       | [] => chkL (fun i => renderI (isize i) c refs src i) (fun i => chkI (isize i) c refs src i) (bik b)
       | _ :: _ => chkL (renderB f c refs src (isTightList b)) (chkB f c refs src (isTightList b)) (bkids b) end) u =
      (match bkids b with
       | [] => chkL (fun i => renderI (isize i) c' refs src i) (fun i => chkI (isize i) c' refs src i) (bik b)
       | _ :: _ => chkL (renderB f c' refs src (isTightList b)) (chkB f c' refs src (isTightList b)) (bkids b) end) u').
    { intros u u' Hu. destruct (bkids b) as [|b0 bs].
      - apply chkL_hc; [intros x _; apply hcI|intros x _; apply chkI_hc|exact Hu].
      - apply chkL_hc; [intros x _; apply hcB|intros x _; apply IH|exact Hu]. }
    destruct (bkind b =? ParagraphKind); [destruct pt; [apply Hk, Ht|apply Hk; hc_tag]|].
    destruct (bkind b =? ThematicBreakKind); [reflexivity|].
    destruct (isHeading (bkind b)); [apply Hk; hc_tag|].
    destruct (isCode (bkind b)); [apply Hk; hc_tag|].
    destruct (bkind b =? BlockQuoteKind); [apply Hk; hc_tag|].
    destruct (bkind b =? ListKind); [destruct (isOrdered b); apply Hk; hc_tag|].
    destruct (bkind b =? ListItemKind); [apply Hk; hc_tag|].
    destruct (bkind b =? HTMLBlockKind); [|reflexivity]. destruct (ignoreRaw c); [reflexivity|apply Hk, Ht].
  Qed.
End HC.

(* ================= necessity on whole trees ================= *)
(* "bad for N": under every configuration that rejects exactly the name N, the output (placed anywhere) violates ltokb *)
Definition Bad (c : cfg) (N : bytes) (out : cfg -> bytes) (t0 : bytes) : Prop :=
  forall c', sameButP c c' -> filterP c' = p_exact (map toLowerASCII N) ->
  forall pre t', hceq t0 t' -> ltokb (filterP c') (pre ++ out c' ++ t') = false.

Definition ctxOf (K L A B : bytes) : Prop := L = A ++ K ++ B.
Lemma ctx_here K R : ctxOf K (K ++ R) [] R. Proof. reflexivity. Qed.
Lemma ctx_later K X R A B : ctxOf K R A B -> ctxOf K (X ++ R) (X ++ A) B.
Proof. unfold ctxOf. intros ->. rewrite app_assoc. reflexivity. Qed.
Ltac findctx :=
  lazymatch goal with
  | |- ctxOf ?K (?K' ++ _) _ _ => first [ constr_eq K K'; apply ctx_here | unify K K'; apply ctx_here | eapply ctx_later; findctx ]
  end.

Lemma Bad_ctx c N (out full : cfg -> bytes) tB t :
  Bad c N out tB ->
  (forall c', sameButP c c' -> forall t', hceq t t' -> exists A B', ctxOf (out c') (full c' ++ t') A B' /\ hceq tB B') ->
  Bad c N full t.
Proof.
  intros H Hctx c' G P pre t' Ht. destruct (Hctx c' G t' Ht) as (A & B' & E & HB). rewrite E.
  specialize (H c' G P (pre ++ A) B' HB). rewrite <- app_assoc in H. exact H.
Qed.

Lemma nec_chkL {A} c (g : cfg -> A -> bytes) (chk : A -> bytes -> bool) l :
  (forall x, In x l -> forall c', sameButP c c' -> forall t t', hceq t t' -> hceq (g c x ++ t) (g c' x ++ t')) ->
  (forall x, In x l -> forall t0, chk x t0 = false -> exists N, forallb nameCh N = true /\ Bad c N (fun c' => g c' x) t0) ->
  forall t, chkL (g c) chk l t = false -> exists N, forallb nameCh N = true /\ Bad c N (fun c' => flat_map (g c') l) t.
Proof.
  induction l as [|x r IH]; intros Hg Hn t Hc; [discriminate|]. cbn [chkL] in Hc. apply andb_false_iff in Hc. destruct Hc as [Hc|Hc].
  - destruct (Hn x (or_introl eq_refl) _ Hc) as (N & HN & HB). exists N. split; [exact HN|].
    intros c' G P pre t' Ht. cbn [flat_map]. rewrite <- app_assoc. apply (HB c' G P).
    apply hceq_flat_map; [|exact Ht]. intros y Hy. apply Hg; [right; exact Hy|exact G].
  - destruct (IH (fun y Hy => Hg y (or_intror Hy)) (fun y Hy => Hn y (or_intror Hy)) t Hc) as (N & HN & HB).
    exists N. split; [exact HN|]. intros c' G P pre t' Ht. cbn [flat_map].
    specialize (HB c' G P (pre ++ g c' x) t' Ht). rewrite <- !app_assoc in *. exact HB.
Qed.

Section Nec.
  Variable c : cfg.
  Variable refs : list (bytes * linkDef).
  Variable src : bytes.

  Lemma Bad_verb s t : vsafe s t = false -> exists N, forallb nameCh N = true /\ Bad c N (fun _ => s) t.
  Proof.
    intros H. destruct (vsafe_necessary s t H) as (N & HN & HF). exists N. split; [exact HN|].
    intros c' G P pre t' Ht. rewrite P. apply HF, Ht.
  Qed.
  Lemma Bad_raw s t : joinOK s t = false -> exists N, forallb nameCh N = true /\ Bad c N (fun c' => filterRaw c' s) t.
  Proof.
    intros H. destruct (joinOK_necessary s t H) as (N & HN & HF). exists N. split; [exact HN|].
    intros c' G P pre t' Ht. apply HF; assumption.
  Qed.

  Lemma necAlt : forall fuel i t, chkAlt fuel src i t = false -> exists N, forallb nameCh N = true /\ Bad c N (fun _ => altText fuel src i) t.
  Proof.
    induction fuel as [|f IH]; intros i t; [discriminate|]. cbn [chkAlt altText]. cbv zeta.
    destruct (ikind i =? TextKind); [discriminate|].
    destruct (ikind i =? CharacterReferenceKind); [apply Bad_verb|].
    destruct (_ || _); [discriminate|]. destruct (_ || _); [discriminate|].
    apply (nec_chkL c (fun _ => altText f src)).
    - intros x _ c' _ u u' Hu. apply hceq_app_same, Hu.
    - intros x _. apply IH.
  Qed.

  (* pick the branch of the renderer that the recorded kind tests select *)
  Ltac pick :=
    cbv zeta; repeat match goal with E : _ = false |- _ => rewrite E | E : _ = true |- _ => rewrite E end; cbv iota.
  Ltac wrap HB :=
    eapply Bad_ctx; [exact HB|];
    let c' := fresh "c'" in let G' := fresh "G'" in let t' := fresh "t'" in let Ht := fresh "Ht" in
    intros c' G' t' Ht; destruct G' as (Gs & Gi & Gf & Gf').

  Lemma necI : forall fuel i t, chkI fuel c refs src i t = false ->
    exists N, forallb nameCh N = true /\ Bad c N (fun c' => renderI fuel c' refs src i) t.
  Proof.
    induction fuel as [|f IH]; intros i t; [discriminate|]. cbn [chkI]. cbv zeta.
    assert (Hk : forall u, chkL (renderI f c refs src) (chkI f c refs src) (ikids i) u = false ->
                 exists N, forallb nameCh N = true /\ Bad c N (fun c' => flat_map (renderI f c' refs src) (ikids i)) u).
    { apply (nec_chkL c (fun c' => renderI f c' refs src)).
      - intros x _ c' G' u u' Hu. apply hcI; assumption.
      - intros x _. apply IH. }
    destruct ((ikind i =? TextKind) || (ikind i =? UnparsedKind)) eqn:E1; [discriminate|].
    destruct (ikind i =? CharacterReferenceKind) eqn:E2.
    { intros Hc. destruct (Bad_verb _ _ Hc) as (N & HN & HB). exists N. split; [exact HN|]. wrap HB.
      cbn [renderI]. pick. eexists. eexists. split; [findctx|exact Ht]. }
    destruct (ikind i =? RawHTMLKind) eqn:E3.
    { destruct (ignoreRaw c) eqn:Ei; [discriminate|]. intros Hc. destruct (Bad_raw _ _ Hc) as (N & HN & HB). exists N. split; [exact HN|]. wrap HB.
      cbn [renderI]. rewrite Gi. pick. eexists. eexists. split; [findctx|exact Ht]. }
    destruct (ikind i =? SoftLineBreakKind) eqn:E4.
    { destruct (softBreak c =? 2) eqn:Es2; [discriminate|]. destruct (softBreak c =? 1) eqn:Es1; [discriminate|].
      destruct (0 <? iend i - istart i) eqn:Ez; [|discriminate].
      intros Hc. destruct (Bad_verb _ _ Hc) as (N & HN & HB). exists N. split; [exact HN|]. wrap HB.
      cbn [renderI]. rewrite Gs. pick. eexists. eexists. split; [findctx|exact Ht]. }
    destruct (ikind i =? HardLineBreakKind) eqn:E5; [discriminate|].
    destruct (ikind i =? EmphasisKind) eqn:E6.
    { intros Hc. destruct (Hk _ Hc) as (N & HN & HB). exists N. split; [exact HN|]. wrap HB.
      cbn [renderI]. pick. eexists. eexists. split; [rewrite <- !app_assoc; findctx|apply hceq_ffhead; apply ffhead_closeTag]. }
    destruct (ikind i =? StrongKind) eqn:E7.
    { intros Hc. destruct (Hk _ Hc) as (N & HN & HB). exists N. split; [exact HN|]. wrap HB.
      cbn [renderI]. pick. eexists. eexists. split; [rewrite <- !app_assoc; findctx|apply hceq_ffhead; apply ffhead_closeTag]. }
    destruct (ikind i =? CodeSpanKind) eqn:E8.
    { intros Hc. destruct (Hk _ Hc) as (N & HN & HB). exists N. split; [exact HN|]. wrap HB.
      cbn [renderI]. pick. eexists. eexists. split; [rewrite <- !app_assoc; findctx|apply hceq_ffhead; apply ffhead_closeTag]. }
    destruct (ikind i =? LinkKind) eqn:E9.
    { intros Hc. destruct (Hk _ Hc) as (N & HN & HB). exists N. split; [exact HN|]. wrap HB.
      cbn [renderI]. pick. eexists. eexists. split; [rewrite <- !app_assoc; findctx|apply hceq_ffhead; apply ffhead_closeTag]. }
    destruct (ikind i =? ImageKind) eqn:E10.
    { intros Hc. destruct (necAlt _ _ _ Hc) as (N & HN & HB). exists N. split; [exact HN|]. wrap HB.
      cbn [renderI]. pick. unfold attr at 3. eexists. eexists. split; [rewrite <- !app_assoc; findctx|apply hceq_ffhead; reflexivity]. }
    destruct (ikind i =? AutolinkKind) eqn:E11; [discriminate|].
    destruct (ikind i =? IndentKind) eqn:E12; [discriminate|].
    destruct (ikind i =? HTMLTagKind) eqn:E13; [|discriminate].
    intros Hc. destruct (Hk _ Hc) as (N & HN & HB). exists N. split; [exact HN|]. wrap HB.
    cbn [renderI]. pick. eexists. eexists. split; [findctx|exact Ht].
  Qed.

  Lemma necB : forall fuel pt b t, chkB fuel c refs src pt b t = false ->
    exists N, forallb nameCh N = true /\ Bad c N (fun c' => renderB fuel c' refs src pt b) t.
  Proof.
    induction fuel as [|f IH]; intros pt b t; [discriminate|]. cbn [chkB]. cbv zeta.
    assert (Hk : forall u,
      (match bkids b with
       | [] => chkL (fun i => renderI (isize i) c refs src i) (fun i => chkI (isize i) c refs src i) (bik b)
       | _ :: _ => chkL (renderB f c refs src (isTightList b)) (chkB f c refs src (isTightList b)) (bkids b) end) u = false ->
      exists N, forallb nameCh N = true /\
        Bad c N (fun c' => match bkids b with
                           | [] => flat_map (fun i => renderI (isize i) c' refs src i) (bik b)
                           | _ :: _ => flat_map (renderB f c' refs src (isTightList b)) (bkids b) end) u).
    { intros u. destruct (bkids b) as [|b0 bs].
      - apply (nec_chkL c (fun c' i => renderI (isize i) c' refs src i)).
        + intros x _ c' G' v v' Hv. apply hcI; assumption.
        + intros x _. apply necI.
      - apply (nec_chkL c (fun c' => renderB f c' refs src (isTightList b))).
        + intros x _ c' G' v v' Hv. apply hcB; assumption.
        + intros x _. apply IH. }
    destruct (bkind b =? ParagraphKind) eqn:E1.
    { destruct pt; intros Hc; destruct (Hk _ Hc) as (N & HN & HB); exists N; (split; [exact HN|]); wrap HB; cbn [renderB]; pick.
      - eexists. eexists. split; [findctx|exact Ht].
      - eexists. eexists. split; [rewrite <- !app_assoc; findctx|apply hceq_ffhead; apply ffhead_closeTag]. }
    destruct (bkind b =? ThematicBreakKind) eqn:E2; [discriminate|].
    destruct (isHeading (bkind b)) eqn:E3.
    { intros Hc. destruct (Hk _ Hc) as (N & HN & HB). exists N. split; [exact HN|]. wrap HB. cbn [renderB]. pick.
      eexists. eexists. split; [rewrite <- !app_assoc; findctx|apply hceq_ffhead; apply ffhead_closeTag]. }
    destruct (isCode (bkind b)) eqn:E4.
    { intros Hc. destruct (Hk _ Hc) as (N & HN & HB). exists N. split; [exact HN|]. wrap HB. cbn [renderB]. pick.
      eexists. eexists. split; [rewrite <- !app_assoc; findctx|apply hceq_ffhead; apply ffhead_closeTag]. }
    destruct (bkind b =? BlockQuoteKind) eqn:E5.
    { intros Hc. destruct (Hk _ Hc) as (N & HN & HB). exists N. split; [exact HN|]. wrap HB. cbn [renderB]. pick.
      eexists. eexists. split; [rewrite <- !app_assoc; findctx|apply hceq_ffhead; apply ffhead_closeTag]. }
    destruct (bkind b =? ListKind) eqn:E6.
    { destruct (isOrdered b) eqn:Eo; intros Hc; destruct (Hk _ Hc) as (N & HN & HB); exists N; (split; [exact HN|]); wrap HB; cbn [renderB]; pick;
        (eexists; eexists; split; [rewrite <- !app_assoc; findctx|apply hceq_ffhead; apply ffhead_closeTag]). }
    destruct (bkind b =? ListItemKind) eqn:E7.
    { intros Hc. destruct (Hk _ Hc) as (N & HN & HB). exists N. split; [exact HN|]. wrap HB. cbn [renderB]. pick.
      eexists. eexists. split; [rewrite <- !app_assoc; findctx|apply hceq_ffhead; apply ffhead_closeTag]. }
    destruct (bkind b =? HTMLBlockKind) eqn:E8; [|discriminate].
    destruct (ignoreRaw c) eqn:Ei; [discriminate|].
    intros Hc. destruct (Hk _ Hc) as (N & HN & HB). exists N. split; [exact HN|]. wrap HB. cbn [renderB]. rewrite Gi. pick.
    eexists. eexists. split; [findctx|exact Ht].
  Qed.
End Nec.

(* ---- the side condition is exact ---- *)
Theorem chkB_setP c p' refs src fuel pt b t : filterOn c = true ->
  chkB fuel (setP c p') refs src pt b t = chkB fuel c refs src pt b t.
Proof. intros Hon. symmetry. apply chkB_hc; [apply sameButP_setP, Hon|apply hceq_refl]. Qed.

Theorem chkB_necessary c refs src fuel pt b : filterOn c = true ->
  chkB fuel c refs src pt b [] = false ->
  exists p', prefix_closed p' /\ ltokb p' (renderB fuel (setP c p') refs src pt b) = false.
Proof.
  intros Hon Hc. destruct (necB c refs src fuel pt b [] Hc) as (N & HN & HB).
  exists (p_exact (map toLowerASCII N)). split; [apply p_exact_prefix_closed, HN|].
  specialize (HB (setP c (p_exact (map toLowerASCII N))) (sameButP_setP _ _ Hon) eq_refl [] [] (hceq_refl [])).
  cbn [app filterP setP] in HB. rewrite app_nil_r in HB. exact HB.
Qed.

(* chkB holds  iff  the output invariant holds whatever predicate is configured (equivalently: whatever prefix-closed predicate) *)
Theorem chkB_exact c refs src fuel pt b : filterOn c = true ->
  (chkB fuel c refs src pt b [] = true <-> forall p', ltokb p' (renderB fuel (setP c p') refs src pt b) = true).
Proof.
  intros Hon. split.
  - intros Hc p'. apply (C17_ltok_doc (setP c p')); [reflexivity|]. rewrite chkB_setP by exact Hon. exact Hc.
  - intros H. destruct (chkB fuel c refs src pt b []) eqn:Hc; [reflexivity|].
    destruct (chkB_necessary c refs src fuel pt b Hon Hc) as (p' & _ & Hp). rewrite H in Hp. discriminate.
Qed.
Theorem chkB_exact_prefix_closed c refs src fuel pt b : filterOn c = true ->
  (chkB fuel c refs src pt b [] = true <->
   forall p', prefix_closed p' -> ltokb p' (renderB fuel (setP c p') refs src pt b) = true).
Proof.
  intros Hon. split.
  - intros Hc p' _. apply (chkB_exact c refs src fuel pt b Hon). exact Hc.
  - intros H. destruct (chkB fuel c refs src pt b []) eqn:Hc; [reflexivity|].
    destruct (chkB_necessary c refs src fuel pt b Hon Hc) as (p' & Hpc & Hp). rewrite (H p' Hpc) in Hp. discriminate.
Qed.
Print Assumptions chkB_exact.
Print Assumptions chkB_exact_prefix_closed.

(* C17, second clause, with the side condition evaluated independently of the configured predicate *)
Corollary C17_no_rejected_start_doc_partial' : forall c refs src fuel pt b, filterOn c = true -> prefix_closed (filterP c) ->
  chkB fuel (setP c (fun _ => false)) refs src pt b [] = true ->
  forall n, In n (start_tags (renderB fuel c refs src pt b)) -> filterP c n = false.
Proof.
  intros c refs src fuel pt b Hon Hpc Hc. apply C17_no_rejected_start_doc_partial; [exact Hon|exact Hpc|].
  rewrite chkB_setP in Hc by exact Hon. exact Hc.
Qed.
Print Assumptions C17_no_rejected_start_doc_partial'.

(* the same for whole documents *)
Lemma chkRoots_setP c p' refs roots : filterOn c = true -> chkRoots (setP c p') refs roots = chkRoots c refs roots.
Proof.
  intros Hon. unfold chkRoots. induction roots as [|x r IH]; [reflexivity|]. destruct r as [|y r].
  - cbn [chkJoin]. apply chkB_setP, Hon.
  - set (g := fun r0 : rootB => renderB (bheight (rb_blk r0)) c refs (rb_src r0) false (rb_blk r0)) in *.
    set (g' := fun r0 : rootB => renderB (bheight (rb_blk r0)) (setP c p') refs (rb_src r0) false (rb_blk r0)) in *.
    set (k := fun r0 : rootB => chkB (bheight (rb_blk r0)) c refs (rb_src r0) false (rb_blk r0)) in *.
    set (k' := fun r0 : rootB => chkB (bheight (rb_blk r0)) (setP c p') refs (rb_src r0) false (rb_blk r0)) in *.
    change (chkJoin g' k' (x :: y :: r)) with (k' x ([10; 10] ++ joinBlocks (map g' (y :: r))) && chkJoin g' k' (y :: r)).
    change (chkJoin g k (x :: y :: r)) with (k x ([10; 10] ++ joinBlocks (map g (y :: r))) && chkJoin g k (y :: r)).
    rewrite IH. f_equal. unfold k, k'. symmetry. apply chkB_hc; [apply sameButP_setP, Hon|]. apply hceq_ffhead; reflexivity.
Qed.
Lemma chkDoc_setP c p' input : filterOn c = true -> chkDoc (setP c p') input = chkDoc c input.
Proof. intros Hon. unfold chkDoc. destruct (parseFull input) as [roots code]. apply chkRoots_setP, Hon. Qed.

Corollary C17_no_rejected_start_renderDoc_partial' : forall c input, filterOn c = true -> prefix_closed (filterP c) ->
  chkDoc (setP c (fun _ => false)) input = true ->
  forall n, In n (start_tags (renderDoc c input)) -> filterP c n = false.
Proof.
  intros c input Hon Hpc Hc. apply C17_no_rejected_start_renderDoc_partial; [exact Hon|exact Hpc|].
  rewrite chkDoc_setP in Hc by exact Hon. exact Hc.
Qed.
Print Assumptions C17_no_rejected_start_renderDoc_partial'.
