(* ChkW2.v -- T30, stage 2: the invariant W through the onClose handlers and closeBlock. *)
From Coq Require Import List ZArith Lia Bool.
Import ListNotations.
Require Import Base Tree Rdr Link Collect Html Recog LP Rules Starts Driver L2Kind2 ShapesBase BSOrph ChkW1.
Open Scope Z_scope.

Section W2.
  Variable src : bytes.
  Notation Wb := (Wb src).
  Notation WL := (WL src).
  Notation ents := (ents src).
  Notation loc := (loc src).

  Lemma WL_map x g : (forall y c, Wb y (g c) = Wb y c) -> forall l, WL x (map g l) = WL x l.
  Proof.
    intros Hg. induction l as [|k r IH]; [reflexivity|]. destruct r as [|k2 r]; [cbn [map ChkW1.WL]; apply Hg|].
    change (map g (k :: k2 :: r)) with (g k :: map g (k2 :: r)).
    rewrite !WL_cons by discriminate. rewrite Hg, IH. reflexivity.
  Qed.

  Lemma W_onCloseList x b : Wb x b = true -> Wb x (onCloseList b) = true.
  Proof.
    intros H. unfold onCloseList. cbv zeta. destruct (bloose b || _); [|assumption].
    apply W_set_bkids; [rewrite Wb_set_bloose; assumption|].
    rewrite WL_map by (intros y c; apply Wb_set_bloose). apply Wb_parts in H. tauto.
  Qed.

  Lemma trimBlankTail_suffix s0 : forall rk, exists a, rk = a ++ trimBlankTail s0 rk.
  Proof.
    induction rk as [|c r IH]; [exists []; reflexivity|]. cbn [trimBlankTail].
    destruct (_ && _); [destruct IH as (a & E); exists (c :: a); cbn; f_equal; exact E|exists []; reflexivity].
  Qed.
  Lemma W_onCloseIndented s0 x b : Wb x b = true -> Wb x (onCloseIndented s0 b) = true.
  Proof.
    intros H. unfold onCloseIndented. cbv zeta. apply W_set_bik; [exact H|].
    apply Wb_parts in H. destruct H as [HL _]. unfold ChkW1.loc in HL. apply andb_true_iff in HL. destruct HL as [HE _].
    match goal with |- context [rev (trimBlankTail s0 (rev ?X))] => set (ik1 := X) end.
    assert (H1 : exists t, bik b = ik1 ++ t).
    { unfold ik1. destruct (rev (bik b)) as [|lst [|prev r]] eqn:Er; try (exists []; rewrite app_nil_r; reflexivity).
      destruct (_ && _ && _ && _); [|exists []; rewrite app_nil_r; reflexivity].
      exists [lst]. rewrite <- (rev_involutive (bik b)), Er. cbn [rev]. reflexivity. }
    destruct H1 as (t & Et).
    destruct (trimBlankTail_suffix s0 (rev ik1)) as (a & Ea).
    assert (E2 : ik1 = rev (trimBlankTail s0 (rev ik1)) ++ rev a).
    { rewrite <- (rev_involutive ik1) at 1. rewrite Ea at 1. rewrite rev_app_distr. reflexivity. }
    rewrite Et, E2, <- app_assoc in HE. eapply ents_prefix; [exact HE|]. intros _. split; intros E; exact E.
  Qed.

  Lemma W_refDef y s e kids : forallb freeK kids = true -> Wb y (refDefBlock s e kids) = true.
  Proof.
    intros H. unfold refDefBlock. apply Wb_mk; [|reflexivity]. unfold ChkW1.loc. cbn [bkind bik].
    rewrite (ents_free src _ _ _ _ H). cbn [andb]. change (LinkReferenceDefinitionKind =? SetextHeadingKind) with false.
    rewrite andb_false_r. reflexivity.
  Qed.

  Lemma W_cut x orig pos n : Wb x orig = true -> Wb x (set_bik (set_bstart orig pos) (from_ (bik orig) n)) = true.
  Proof.
    intros H. apply W_set_bik; [rewrite Wb_set_bstart; exact H|].
    apply Wb_parts in H. destruct H as [HL _]. unfold ChkW1.loc in HL. apply andb_true_iff in HL. destruct HL as [HE _].
    replace (bkind (set_bstart orig pos)) with (bkind orig) by (destruct orig; reflexivity).
    replace (isOpen (set_bstart orig pos)) with (isOpen orig) by (destruct orig; reflexivity).
    apply ents_from, HE.
  Qed.

  Lemma W_ocp x : forall fuel rfuel s0 orig r result,
    Wb x orig = true -> WL false result = true ->
    WL x (ocp_loop fuel rfuel s0 orig None r result) = true.
  Proof.
    induction fuel as [|f IH]; intros rfuel s0 orig r result Ho Hr.
    { cbn [ocp_loop]. rewrite WL_app by discriminate. rewrite Hr. exact Ho. }
    assert (Hkeep : WL x (result ++ [orig]) = true) by (rewrite WL_app by discriminate; rewrite Hr; exact Ho).
    assert (Hsn : forall k, Wb false k = true -> WL false (result ++ [k]) = true).
    { intros k Hk. rewrite WL_app by discriminate. rewrite Hr. exact Hk. }
    cbn [ocp_loop]. cbv zeta.
    destruct (parseLinkLabel rfuel r) as [[lspan linner] r1].
    destruct (negb (spanValid lspan)); [assumption|].
    destruct (current r1) as [c r2]. destruct (negb (c =? 58)); [assumption|].
    destruct (next r2) as [? r3]. destruct (skipLinkSpace rfuel r3) as [ok r4]. destruct (negb ok); [assumption|].
    destruct (parseLinkDestination rfuel r4) as [[dspan dtext] r5]. destruct (negb (spanValid dspan)); [assumption|].
    destruct (readEOL rfuel r5) as [destEOL r6]. destruct (current r6) as [c6 r7].
    destruct (_ && _ && _); [assumption|].
    set (labelInline := Inl LinkLabelKind _ _ 0 _ _). set (destInline := Inl LinkDestinationKind _ _ 0 [] _).
    assert (H2 : WL false (result ++ [refDefBlock (fst lspan) destEOL [labelInline; destInline]]) = true).
    { apply Hsn. apply W_refDef. reflexivity. }
    destruct (skipLinkSpace rfuel r7) as [ok2 r8]. destruct (negb ok2); [apply WL_weaken; assumption|].
    destruct (parseLinkTitle rfuel r8) as [[tspan ttext] r9].
    destruct (negb (spanValid tspan)).
    { destruct (destEOL <? 0); [assumption|]. destruct (_ <? 0); [apply WL_weaken; assumption|].
      apply IH; [apply W_cut; assumption|assumption]. }
    destruct (readEOL rfuel r9) as [titleEOL r10].
    destruct (titleEOL <? 0).
    { destruct (destEOL <? 0); [assumption|]. destruct (_ <? 0); [apply WL_weaken; assumption|].
      rewrite app_assoc. rewrite WL_app by discriminate. rewrite H2. cbn [ChkW1.WL]. apply W_cut. assumption. }
    set (titleInline := Inl LinkTitleKind _ _ 0 [] _).
    assert (H3 : WL false (result ++ [refDefBlock (fst lspan) titleEOL [labelInline; destInline; titleInline]]) = true).
    { apply Hsn. apply W_refDef. reflexivity. }
    destruct (_ <? 0); [apply WL_weaken; assumption|]. apply IH; [apply W_cut; assumption|assumption].
  Qed.

  Lemma W_onCloseParagraph_para s0 x orig : bkind orig <> SetextHeadingKind -> Wb x orig = true ->
    WL x (onCloseParagraph s0 orig) = true.
  Proof.
    intros Hk H. unfold onCloseParagraph. destruct (bik orig) as [|first rest] eqn:Eb; [exact H|].
    cbv zeta. rewrite <- Eb. destruct (Z.eqb_spec (bkind orig) SetextHeadingKind) as [E|_]; [contradiction|].
    apply W_ocp; [assumption|reflexivity].
  Qed.

  (* a setext heading made from a paragraph with paragraph content (the guard of startSetext): the orphan is not used *)
  Lemma onCloseParagraph_setext s0 para orig :
    bkind para = ParagraphKind -> bik orig = bik para -> lastIsPara (onCloseParagraph s0 para) = true ->
    onCloseParagraph s0 orig =
      match bik orig with
      | [] => [orig]
      | first :: _ => ocp_loop (S (length (bik orig))) (2 * length s0 + 10)%nat s0 orig None (newReader s0 (bik orig) (istart first)) []
      end.
  Proof.
    intros Hk Hb Hl. unfold onCloseParagraph in Hl. unfold onCloseParagraph. rewrite Hb.
    destruct (bik para) as [|first rest] eqn:Eb; [reflexivity|].
    cbv zeta in *. rewrite Hk in Hl. change (ParagraphKind =? SetextHeadingKind) with false in Hl. cbv iota in Hl.
    apply (ocp_orphan_irrel (S (length (first :: rest))) _ s0 para orig _ _ [] []); [rewrite Hb, Eb; reflexivity|exact Hl].
  Qed.
  Lemma W_onCloseParagraph_setext s0 x para orig :
    bkind para = ParagraphKind -> bik orig = bik para -> lastIsPara (onCloseParagraph s0 para) = true ->
    Wb x orig = true -> WL x (onCloseParagraph s0 orig) = true.
  Proof.
    intros Hk Hb Hl H. rewrite (onCloseParagraph_setext s0 para orig Hk Hb Hl).
    destruct (bik orig); [exact H|]. apply W_ocp; [exact H|reflexivity].
  Qed.

  (* ---- closeBlock ---- *)
  Lemma loc_close x b e : 0 <= e -> ents (bkind b) x (x || negb (isOpen b)) (bik b) = true -> loc x (set_bend b e) = true.
  Proof.
    intros He H. unfold ChkW1.loc.
    replace (isOpen (set_bend b e)) with false by (destruct b; unfold isOpen; cbn [set_bend bend]; symmetry; apply Z.ltb_ge; lia).
    replace (bkind (set_bend b e)) with (bkind b) by (destruct b; reflexivity).
    replace (bik (set_bend b e)) with (bik b) by (destruct b; reflexivity).
    cbn [negb andb]. rewrite andb_true_r.
    revert H. apply ents_mono; [tauto|]. intros _. apply orb_true_r.
  Qed.
  Lemma W_set_bend x b e : 0 <= e -> Wb x b = true -> Wb x (set_bend b e) = true.
  Proof.
    intros He H. apply Wb_parts in H. destruct H as [HL HK]. apply Wb_mk; [|destruct b; exact HK].
    apply loc_close; [exact He|]. unfold ChkW1.loc in HL. apply andb_true_iff in HL. tauto.
  Qed.
  Lemma W_open_notSetext x b : Wb x b = true -> isOpen b = true -> bkind b <> SetextHeadingKind.
  Proof.
    intros H Ho E. apply Wb_parts in H. destruct H as [HL _]. unfold ChkW1.loc in HL. apply andb_true_iff in HL. destruct HL as [_ B].
    rewrite Ho, E in B. discriminate.
  Qed.

  Lemma W_closeBlock s0 e : 0 <= e -> forall fuel x b, Wb x b = true -> WL x (closeBlock fuel s0 b e) = true.
  Proof.
    intros He. induction fuel as [|f IH]; intros x b H; [exact H|]. cbn [closeBlock].
    destruct (isOpen b) eqn:Eo; cbn [negb]; [|exact H]. cbv zeta.
    assert (Hcl : forall y, Wb x y = true ->
              Wb x (match lastBlock y with Some c => set_lastBlocks y (closeBlock f s0 c e) | None => y end) = true).
    { intros y Hy. destruct (lastBlock y) as [c|] eqn:El; [|assumption].
      apply W_set_lastBlocks; [assumption|]. apply IH. eapply W_lastBlock; eassumption. }
    assert (H1 : Wb x (set_bend b e) = true) by (apply W_set_bend; assumption).
    assert (Hns : bkind (set_bend b e) <> SetextHeadingKind).
    { replace (bkind (set_bend b e)) with (bkind b) by (destruct b; reflexivity). eapply W_open_notSetext; eassumption. }
    destruct (bkind (set_bend b e) =? ListKind).
    { cbn [ChkW1.WL]. apply Hcl. apply W_onCloseList. assumption. }
    destruct (bkind (set_bend b e) =? IndentedCodeBlockKind).
    { cbn [ChkW1.WL]. apply Hcl. apply W_onCloseIndented. assumption. }
    destruct (_ || _); [apply W_onCloseParagraph_para; assumption|].
    cbn [ChkW1.WL]. apply Hcl. assumption.
  Qed.
  (* closing an open block, given the invariant of the block once its end is set *)
  Lemma W_closeBlock_closed s0 e f x b : 0 <= e -> isOpen b = true -> bkind b <> SetextHeadingKind ->
    Wb x (set_bend b e) = true -> WL x (closeBlock (S f) s0 b e) = true.
  Proof.
    intros He Eo Hk H1. cbn [closeBlock]. rewrite Eo. cbn [negb]. cbv zeta.
    assert (Hcl : forall y, Wb x y = true ->
              Wb x (match lastBlock y with Some c => set_lastBlocks y (closeBlock f s0 c e) | None => y end) = true).
    { intros y Hy. destruct (lastBlock y) as [c|] eqn:El; [|assumption].
      apply W_set_lastBlocks; [assumption|]. apply W_closeBlock; [exact He|]. eapply W_lastBlock; eassumption. }
    assert (Hns : bkind (set_bend b e) <> SetextHeadingKind) by (replace (bkind (set_bend b e)) with (bkind b) by (destruct b; reflexivity); exact Hk).
    destruct (bkind (set_bend b e) =? ListKind).
    { cbn [ChkW1.WL]. apply Hcl. apply W_onCloseList. assumption. }
    destruct (bkind (set_bend b e) =? IndentedCodeBlockKind).
    { cbn [ChkW1.WL]. apply Hcl. apply W_onCloseIndented. assumption. }
    destruct (_ || _); [apply W_onCloseParagraph_para; assumption|].
    cbn [ChkW1.WL]. apply Hcl. assumption.
  Qed.
  Lemma Wb_closed_entries x b e ik' : 0 <= e -> ents (bkind b) x true ik' = true -> WL x (bkids b) = true ->
    Wb x (set_bend (set_bik b ik') e) = true.
  Proof.
    intros He Hi Hk. apply Wb_mk; [|destruct b; exact Hk]. unfold ChkW1.loc.
    replace (isOpen (set_bend (set_bik b ik') e)) with false by (destruct b; unfold isOpen; cbn [set_bend set_bik bend]; symmetry; apply Z.ltb_ge; lia).
    replace (bkind (set_bend (set_bik b ik') e)) with (bkind b) by (destruct b; reflexivity).
    replace (bik (set_bend (set_bik b ik') e)) with ik' by (destruct b; reflexivity).
    cbn [negb andb]. rewrite andb_true_r. rewrite orb_true_r. exact Hi.
  Qed.
End W2.
