From Coq Require Import List ZArith Lia Bool.
Import ListNotations.
Open Scope Z_scope.

Definition bytes := list Z.
Definition len {A} (l : list A) : Z := Z.of_nat (length l).
Definition at_ (l : bytes) (i : Z) : Z := if i <? 0 then 0 else nth (Z.to_nat i) l 0.
Definition from_ {A} (l : list A) (a : Z) : list A := skipn (Z.to_nat a) l.
Definition upto {A} (l : list A) (b : Z) : list A := firstn (Z.to_nat b) l.
Definition sub {A} (l : list A) (a b : Z) : list A := upto (from_ l a) (b - a).

(* classifiers (parse.go:619-656) *)
Definition isSpaceTabOrLineEnding (c : Z) := (c =? 32) || (c =? 9) || (c =? 10) || (c =? 13).
Definition isSpTab (c : Z) := (c =? 32) || (c =? 9).
Definition isASCIILetter (c : Z) := ((65 <=? c) && (c <=? 90)) || ((97 <=? c) && (c <=? 122)).
Definition isASCIIDigit (c : Z) := (48 <=? c) && (c <=? 57).
Definition isASCIIPunctuation (c : Z) :=
  ((33 <=? c) && (c <=? 47)) || ((58 <=? c) && (c <=? 64)) || ((91 <=? c) && (c <=? 96)) || ((123 <=? c) && (c <=? 126)).
Definition isASCIIControl (c : Z) := (c <=? 31) || (c =? 127).
Definition isHex (c : Z) := ((97 <=? c) && (c <=? 102)) || ((65 <=? c) && (c <=? 70)) || isASCIIDigit c.
Definition toLowerASCII (c : Z) := if (65 <=? c) && (c <=? 90) then c + 32 else c.

Definition isBlankLine (l : bytes) : bool := forallb isSpaceTabOrLineEnding l.
Definition hasTabOrSpacePrefixOrEOL (l : bytes) : bool := match l with [] => true | c :: _ => isSpaceTabOrLineEnding c end.
Fixpoint indentLength (l : bytes) : Z := match l with c :: r => if isSpTab c then 1 + indentLength r else 0 | [] => 0 end.
Fixpoint trimLeftSpTab (l : bytes) : bytes := match l with c :: r => if isSpTab c then trimLeftSpTab r else l | [] => [] end.

Fixpoint hasBytePrefix (b prefix : bytes) : bool :=
  match prefix, b with
  | [], _ => true
  | p :: ps, x :: xs => (p =? x) && hasBytePrefix xs ps
  | _ :: _, [] => false
  end.
Fixpoint hasCIPrefix (b prefix : bytes) : bool :=
  match prefix, b with
  | [], _ => true
  | p :: ps, x :: xs => (toLowerASCII p =? toLowerASCII x) && hasCIPrefix xs ps
  | _ :: _, [] => false
  end.
(* contains / caseInsensitiveContains: for i := 0; i < len(b)-len(search); i++  (sic: a match at the very end is missed) *)
Fixpoint contains_from (pre : bytes -> bytes -> bool) (b search : bytes) (k : nat) : bool :=
  match k with
  | O => false
  | S k' => pre b search || match b with _ :: r => contains_from pre r search k' | [] => false end
  end.
Definition contains (b search : bytes) : bool := contains_from hasBytePrefix b search (Z.to_nat (len b - len search)).
Definition containsCI (b search : bytes) : bool := contains_from hasCIPrefix b search (Z.to_nat (len b - len search)).
Fixpoint hasByteSuffixEOL (l : bytes) : bool :=   (* ends with \n or \r *)
  match l with [] => false | [c] => (c =? 10) || (c =? 13) | _ :: r => hasByteSuffixEOL r end.

(* columnWidth (parse.go:466) *)
Fixpoint columnEnd (e : Z) (b : bytes) : Z :=
  match b with
  | [] => e
  | c :: r => columnEnd (if c =? 9 then (e + 4) - ((e + 4) mod 4) else if c <? 128 then e + 1 else e) r
  end.
Definition columnWidth (start : Z) (b : bytes) : Z := columnEnd start b - start.

(* isEndEscaped *)
Fixpoint trailingBackslashes (r : bytes) : Z := match r with 92 :: t => 1 + trailingBackslashes t | _ => 0 end.
Definition isEndEscaped (s : bytes) : bool := (trailingBackslashes (rev s)) mod 2 =? 1.

Definition str (s : list Z) := s.
