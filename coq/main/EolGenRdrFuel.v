(* onCloseParagraph: the reader fuel of LP.ocp_loop can be replaced by any other sufficient fuel (single run).
   Built from the fuel-independence lemmas of IFLink / IFCollect. *)
From Coq Require Import List ZArith Lia Bool.
Import ListNotations.
Require Import Base Tree Rdr Link Collect LP ShapesBase ShapesR IFBase IFLink IFCollect.
Open Scope Z_scope.

Section F.
Variable src : bytes.
Variables rf1 rf2 : nat.

Lemma ocp_rfuel : forall f orig orphan r result,
  PL src r -> spW src (bik orig) = true ->
  nu src r < Z.of_nat rf1 -> nu src r < Z.of_nat rf2 ->
  len src + ibudget (bik orig) < Z.of_nat rf1 -> len src + ibudget (bik orig) < Z.of_nat rf2 ->
  ocp_loop f rf1 src orig orphan r result = ocp_loop f rf2 src orig orphan r result.
Proof.
  induction f as [|f IH]; intros orig orphan r result HP Hw H1 H2 B1 B2; [reflexivity|].
  cbn [ocp_loop]. cbv zeta.
  rewrite (parseLinkLabel_fuel src rf1 rf2 r HP H1 H2).
  pose proof (parseLinkLabel_prog src rf2 r HP) as (P1 & _ & N1 & _).
  destruct (parseLinkLabel rf2 r) as [[lspan linner] r1]. cbn [snd] in P1, N1.
  destruct (negb (spanValid lspan)); [reflexivity|].
  pose proof (prog_current src r1 P1) as (P2 & _ & N2 & _). destruct (current r1) as [c r2]. cbn [snd] in P2, N2.
  destruct (negb (c =? 58)); [reflexivity|].
  pose proof (prog_next src r2 P2) as (P3 & _ & N3 & _). destruct (next r2) as [okn r3]. cbn [snd] in P3, N3.
  rewrite (skipLinkSpace_fuel src rf1 rf2 r3 P3) by lia.
  pose proof (skipLinkSpace_prog src rf2 r3 P3) as (P4 & _ & N4 & _). destruct (skipLinkSpace rf2 r3) as [ok r4]. cbn [snd] in P4, N4.
  destruct (negb ok); [reflexivity|].
  rewrite (parseLinkDestination_fuel src rf1 rf2 r4 P4) by lia.
  pose proof (parseLinkDestination_prog src rf2 r4 P4) as (P5 & _ & N5 & _).
  destruct (parseLinkDestination rf2 r4) as [[dspan dtext] r5]. cbn [snd] in P5, N5.
  destruct (negb (spanValid dspan)); [reflexivity|].
  rewrite (readEOL_fuel src rf1 rf2 r5 P5) by lia.
  pose proof (readEOL_prog src rf2 r5 P5) as (P6 & _ & N6 & _). destruct (readEOL rf2 r5) as [destEOL r6]. cbn [snd] in P6, N6.
  pose proof (prog_current src r6 P6) as (P7 & _ & N7 & _). destruct (current r6) as [c6 r7]. cbn [snd] in P7, N7.
  destruct (_ && _ && _); [reflexivity|].
  rewrite !(transformLinkReferenceSpan_fuel src rf1 rf2 (bik orig) _ _ Hw B1 B2).
  rewrite !(collectTextNodes_new_fuel src rf1 rf2 (bik orig) _ _ _ _ Hw B1 B2).
  rewrite (skipLinkSpace_fuel src rf1 rf2 r7 P7) by lia.
  pose proof (skipLinkSpace_prog src rf2 r7 P7) as (P8 & _ & N8 & _). destruct (skipLinkSpace rf2 r7) as [ok2 r8]. cbn [snd] in P8, N8.
  destruct (negb ok2); [reflexivity|].
  rewrite (parseLinkTitle_fuel src rf1 rf2 r8 P8) by lia.
  pose proof (parseLinkTitle_prog src rf2 r8 P8) as (P9 & _ & N9 & _).
  destruct (parseLinkTitle rf2 r8) as [[tspan ttext] r9]. cbn [snd] in P9, N9.
  assert (Hrec : forall pos fc x res, PL src x -> nu src x <= nu src r ->
     ocp_loop f rf1 src (set_bik (set_bstart orig pos) (from_ (bik orig) fc)) orphan x res =
     ocp_loop f rf2 src (set_bik (set_bstart orig pos) (from_ (bik orig) fc)) orphan x res).
  { intros pos fc x res Px Nx.
    assert (Eb : bik (set_bik (set_bstart orig pos) (from_ (bik orig) fc)) = from_ (bik orig) fc) by (destruct orig; reflexivity).
    pose proof (ibudget_skipn (Z.to_nat fc) (bik orig)) as Hib. fold (from_ (bik orig) fc) in Hib.
    apply IH; rewrite ?Eb; try assumption; try lia. apply spW_from, Hw. }
  destruct (negb (spanValid tspan)).
  { destruct (destEOL <? 0); [reflexivity|]. destruct (_ <? 0); [reflexivity|]. apply Hrec; [exact P6|lia]. }
  rewrite (readEOL_fuel src rf1 rf2 r9 P9) by lia.
  pose proof (readEOL_prog src rf2 r9 P9) as (P10 & _ & N10 & _). destruct (readEOL rf2 r9) as [titleEOL r10]. cbn [snd] in P10, N10.
  destruct (titleEOL <? 0); [reflexivity|].
  rewrite !(collectTextNodes_new_fuel src rf1 rf2 (bik orig) _ _ _ _ Hw B1 B2).
  destruct (_ <? 0); [reflexivity|]. apply Hrec; [exact P10|lia].
Qed.
End F.
Print Assumptions ocp_rfuel.
