From Coq Require Import List ZArith Lia Bool.
Import ListNotations.
Require Import Base Tables Utf8 Tree Rdr Link Collect Html Recog Inl3a Inl3b.
Require Import ShapesBase LA2 Leaf3a EolCRInlA.
Require Import EolCRLFDefs EolCRLFSimBytes EolCRLFSimStream EolGenCrlfRdrStep EolGenCrlfRdrColl EolGenCrlfRdrLink EolCRLFFullBytes EolCRLFFullBytes1.
Open Scope Z_scope.

(* C14 (ii), CRLF clause, inline layer.  Part 4: UTF-8 decoding next to a line ending, emphasisFlags. *)

(* ---------------------------------------------------------------- decodeRune *)
(* two byte strings that agree up to (and excluding) the first position where both hold an ASCII byte *)
Inductive agr : bytes -> bytes -> Prop :=
| agr_nil : agr [] []
| agr_same x r r' : agr r r' -> agr (x :: r) (x :: r')
| agr_lo x y r r' : x < 128 -> y < 128 -> agr (x :: r) (y :: r').

Lemma agr_crlf : forall l, agr l (crlf l).
Proof.
  induction l as [|c r IH]; [constructor|]. destruct (Z.eqb_spec c 10) as [->|N].
  - rewrite crlf_c10. apply agr_lo; lia.
  - rewrite (crlf_cN c r N). apply agr_same, IH.
Qed.
Lemma isCont_lo x : x < 128 -> isCont x = false.
Proof. intros H. unfold isCont. destruct (Z.leb_spec 128 x); [lia|reflexivity]. Qed.
Lemma range_lo lo hi x : 128 <= lo -> x < 128 -> (lo <=? x) && (x <=? hi) = false.
Proof. intros H1 H2. destruct (Z.leb_spec lo x); [lia|reflexivity]. Qed.

Lemma decodeRune_agr b0 r r' : agr r r' -> decodeRune (b0 :: r) = decodeRune (b0 :: r').
Proof.
  intros H. unfold decodeRune. destruct (b0 <? 128); [reflexivity|].
  destruct ((194 <=? b0) && (b0 <=? 223)).
  { destruct H as [|b1 r r' H|x y r r' Hx Hy]; [reflexivity|reflexivity|]. rewrite (isCont_lo x Hx), (isCont_lo y Hy). reflexivity. }
  destruct ((224 <=? b0) && (b0 <=? 239)).
  { cbv zeta. set (lo := if b0 =? 224 then 160 else 128). set (hi := if b0 =? 237 then 159 else 191).
    assert (L : 128 <= lo) by (unfold lo; destruct (b0 =? 224); lia).
    destruct H as [|b1 r r' H|x y r r' Hx Hy]; [reflexivity| |].
    - destruct H as [|b2 r r' H|x y r r' Hx Hy]; [reflexivity|reflexivity|].
      rewrite (isCont_lo x Hx), (isCont_lo y Hy), !andb_false_r. reflexivity.
    - destruct r as [|b2 r]; destruct r' as [|b2' r']; rewrite ?(range_lo lo hi x L Hx), ?(range_lo lo hi y L Hy); reflexivity. }
  destruct ((240 <=? b0) && (b0 <=? 244)); [|reflexivity].
  cbv zeta. set (lo := if b0 =? 240 then 144 else 128). set (hi := if b0 =? 244 then 143 else 191).
  assert (L : 128 <= lo) by (unfold lo; destruct (b0 =? 240); lia).
  destruct H as [|b1 r r' H|x y r r' Hx Hy]; [reflexivity| |].
  - destruct H as [|b2 r r' H|x y r r' Hx Hy]; [reflexivity| |].
    + destruct H as [|b3 r r' H|x y r r' Hx Hy]; [reflexivity|reflexivity|].
      rewrite (isCont_lo x Hx), (isCont_lo y Hy), !andb_false_r. reflexivity.
    + destruct r as [|b3 r]; destruct r' as [|b3' r']; rewrite ?(isCont_lo x Hx), ?(isCont_lo y Hy), ?andb_false_r; cbn [andb]; reflexivity.
  - destruct r as [|b2 [|b3 r]]; destruct r' as [|b2' [|b3' r']]; rewrite ?(range_lo lo hi x L Hx), ?(range_lo lo hi y L Hy); reflexivity.
Qed.

(* unless the string starts with LF, decoding its first rune does not see the difference *)
Lemma decodeRune_crlf l : at_ l 0 <> 10 -> decodeRune (crlf l) = decodeRune l.
Proof.
  destruct l as [|c r]; [reflexivity|]. change (at_ (c :: r) 0) with c. intros N. rewrite (crlf_cN c r N).
  symmetry. apply decodeRune_agr, agr_crlf.
Qed.
Lemma decodeRune_ascii l x : l <> [] -> at_ l 0 = x -> x < 128 -> decodeRune l = (x, 1).
Proof.
  destruct l as [|c r]; [intros H; contradiction|]. intros _. change (at_ (c :: r) 0) with c. intros -> H.
  unfold decodeRune. destruct (Z.ltb_spec x 128); [reflexivity|lia].
Qed.
Lemma decodeRune_crlf_rnR l : rnR (fst (decodeRune l)) (fst (decodeRune (crlf l))).
Proof.
  destruct (Z.eq_dec (at_ l 0) 10) as [E|N]; [|rewrite (decodeRune_crlf l N); right; reflexivity].
  destruct l as [|c r]; [discriminate E|]. change (at_ (c :: r) 0) with c in E. subst c. rewrite crlf_c10. left. split; reflexivity.
Qed.

(* ---------------------------------------------------------------- decodeLastRune *)
Section Last.
  Variable t : bytes.
  Notation P := (phiP t).
  Notation T := (crlf t).
  Notation ln := (len t).

  Definition noLFfrom (q : Z) : Prop := forall k, q <= k < ln -> at_ t k <> 10.
  Lemma noLF_tail q : 0 <= q <= ln -> noLFfrom q -> P ln = P q + (ln - q).
  Proof.
    intros Hq H. replace ln with (q + Z.of_nat (Z.to_nat (ln - q))) at 1 by lia.
    rewrite P_add_noLF; [lia|]. intros k Hk. apply H. lia.
  Qed.
  Lemma noLF_step q : 0 <= q -> at_ t q <> 10 -> noLFfrom (q + 1) -> noLFfrom q.
  Proof. intros Hq N H k Hk. destruct (Z.eq_dec k q) as [->|D]; [exact N|apply H; lia]. Qed.

  Definition Out (r r' : Z) : Prop :=
    (0 <= r /\ noLFfrom r /\ r' = P r) \/
    (0 <= r /\ at_ t r = 10 /\ noLFfrom (r + 1) /\ r' = P r + 1) \/
    (r = -1 /\ r' = -1 /\ noLFfrom 0).

  Lemma classify q : -1 <= q -> noLFfrom (q + 1) -> Out q (P (q + 1) - 1).
  Proof.
    intros Hq H. destruct (Z.eq_dec q (-1)) as [->|D].
    { right. right. change (-1 + 1) with 0 in *. rewrite phiP_0. split; [reflexivity|]. split; [reflexivity|exact H]. }
    destruct (Z.eq_dec (at_ t q) 10) as [E|N].
    - right. left. rewrite (P_succ_lf t q E). split; [lia|]. split; [exact E|]. split; [exact H|lia].
    - left. rewrite (P_succ_n t q N). split; [lia|]. split; [apply noLF_step; [lia|exact N|exact H]|lia].
  Qed.

  Definition limOf (e : Z) : Z := if e - 4 <? 0 then 0 else e - 4.

  Lemma stop_sync q : -1 <= q <= ln - 2 -> noLFfrom (q + 1) -> (P (q + 1) - 1 <? limOf (P ln)) = (q <? limOf ln).
  Proof.
    intros Hq H. pose proof (noLF_tail (q + 1) ltac:(lia) H) as E. pose proof (phiP_ge t (q + 1) ltac:(lia)) as G.
    assert (Z0 : q = -1 -> P (q + 1) = 0) by (intros ->; apply phiP_0).
    unfold limOf. destruct (Z.ltb_spec (P ln - 4) 0); destruct (Z.ltb_spec (ln - 4) 0);
      destruct (Z.ltb_spec (P (q + 1) - 1) 0); destruct (Z.ltb_spec q 0);
      try destruct (Z.ltb_spec (P (q + 1) - 1) (P ln - 4)); try destruct (Z.ltb_spec q (ln - 4)); try reflexivity; lia.
  Qed.

  Lemma dlr_sim : forall f q, -1 <= q <= ln - 2 -> noLFfrom (q + 1) ->
    Out (dlr_back f t q (limOf ln)) (dlr_back f T (P (q + 1) - 1) (limOf (P ln))) /\ dlr_back f t q (limOf ln) <= q.
  Proof.
    induction f as [|f IH]; intros q Hq H; cbn [dlr_back]; [split; [apply classify; [lia|exact H]|lia]|].
    rewrite (stop_sync q Hq H). destruct (Z.ltb_spec q (limOf ln)) as [L|L]; [split; [apply classify; [lia|exact H]|lia]|].
    assert (Q0 : 0 <= q) by (unfold limOf in L; destruct (Z.ltb_spec (ln - 4) 0); lia).
    destruct (Z.eq_dec (at_ t q) 10) as [E|N].
    - rewrite (P_succ_lf t q E). replace (P q + 2 - 1) with (P q + 1) by lia. rewrite (at_P1 t q E), E.
      change (runeStart 10) with true. cbv iota. split; [|lia]. right. left. split; [exact Q0|]. split; [exact E|]. split; [exact H|reflexivity].
    - rewrite (P_succ_n t q N). replace (P q + 1 - 1) with (P q) by lia. rewrite at_m13, (m13_n _ N).
      destruct (runeStart (at_ t q)).
      + split; [|lia]. left. split; [exact Q0|]. split; [apply noLF_step; assumption|reflexivity].
      + pose proof (IH (q - 1) ltac:(lia)) as G. replace (q - 1 + 1) with q in G by lia.
        destruct (G (noLF_step q Q0 N H)) as [G1 G2]. split; [exact G1|lia].
  Qed.

  Lemma sub_first (l : bytes) a b : 0 <= a -> a < b -> b <= len l -> sub l a b <> [] /\ at_ (sub l a b) 0 = at_ l a.
  Proof.
    intros Ha Hab Hb. split.
    - intros E. pose proof (len_sub l a b ltac:(lia) Hb) as G. rewrite E in G. unfold len in G. cbn [length] in G. lia.
    - rewrite (at_sub l a b) by lia. f_equal. lia.
  Qed.

  Theorem decodeLastRune_crlf : decodeLastRune T = decodeLastRune t.
  Proof.
    unfold decodeLastRune. cbv zeta. rewrite len_R'.
    destruct (Z.eqb_spec ln 0) as [Z0|NZ].
    { rewrite Z0, phiP_0. reflexivity. }
    assert (Hn : 0 < ln) by (pose proof (len_nonneg t); lia).
    replace (P ln =? 0) with false by (symmetry; apply Z.eqb_neq; pose proof (phiP_ge t ln ltac:(lia)); lia).
    pose proof (P_succ t (ln - 1)) as S1. replace (ln - 1 + 1) with ln in S1 by lia.
    destruct (Z.eq_dec (at_ t (ln - 1)) 10) as [E|N].
    { rewrite E in *. change (10 =? 10) with true in S1. cbv iota in S1. replace (P ln - 1) with (P (ln - 1) + 1) by lia.
      rewrite (at_P1 t (ln - 1) E). reflexivity. }
    destruct (Z.eqb_spec (at_ t (ln - 1)) 10) as [?|_]; [contradiction|].
    replace (P ln - 1) with (P (ln - 1)) by lia. rewrite at_m13, (m13_n _ N).
    destruct (at_ t (ln - 1) <? 128); [reflexivity|].
    fold (limOf (P ln)). fold (limOf ln).
    assert (H0 : noLFfrom (ln - 2 + 1)) by (intros k Hk; replace k with (ln - 1) by lia; exact N).
    destruct (dlr_sim 4 (ln - 2) ltac:(lia) H0) as [O Le].
    replace (P (ln - 2 + 1) - 1) with (P (ln - 1) - 1) in O by (f_equal; f_equal; lia).
    set (r := dlr_back 4 t (ln - 1 - 1) (limOf ln)) in *.
    replace (ln - 2) with (ln - 1 - 1) in O, Le by lia. fold r in O, Le.
    set (r' := dlr_back 4 T (P (ln - 1) - 1) (limOf (P ln))) in *.
    clearbody r r'. destruct O as [(A1 & A2 & A3)|[(A1 & A2 & A3 & A4)|(A1 & A2 & A3)]].
    - (* a rune start that is not LF *)
      pose proof (phiP_ge t r A1) as G. destruct (Z.ltb_spec r 0); [lia|]. destruct (Z.ltb_spec r' 0); [lia|]. subst r'.
      rewrite (crlf_sub t r ln) by lia. rewrite decodeRune_crlf.
      2:{ destruct (sub_first t r ln A1 ltac:(lia) ltac:(lia)) as [_ F]. rewrite F. apply A2. lia. }
      destruct (decodeRune (sub t r ln)) as [rn size]. pose proof (noLF_tail r ltac:(lia) A2) as E.
      replace (P r + size =? P ln) with (r + size =? ln); [reflexivity|].
      destruct (Z.eqb_spec (r + size) ln); destruct (Z.eqb_spec (P r + size) (P ln)); try reflexivity; lia.
    - (* the scan stopped at LF *)
      pose proof (phiP_ge t r A1) as G. destruct (Z.ltb_spec r 0); [lia|]. destruct (Z.ltb_spec r' 0); [lia|].
      destruct (sub_first t r ln A1 ltac:(lia) ltac:(lia)) as [F1 F2]. rewrite A2 in F2.
      rewrite (decodeRune_ascii _ 10 F1 F2) by lia.
      pose proof (P_succ_lf t r A2) as S2. pose proof (phiP_mono t (r + 1) ln ltac:(lia)) as G2.
      pose proof (phiP_lt t (r + 1) ln ltac:(lia)) as G3.
      destruct (sub_first T r' (P ln) ltac:(lia) ltac:(lia) ltac:(rewrite len_R'; lia)) as [F3 F4].
      rewrite A4 in F4 at 2. rewrite (at_P1 t r A2) in F4. rewrite (decodeRune_ascii _ 10 F3 F4) by lia.
      destruct (Z.eqb_spec (r + 1) ln); [lia|]. destruct (Z.eqb_spec (r' + 1) (P ln)); [lia|]. reflexivity.
    - (* the scan fell off the front: t contains no LF *)
      rewrite A1, A2. change (-1 <? 0) with true. cbv iota.
      pose proof (noLF_tail 0 ltac:(lia) A3) as E. rewrite phiP_0 in E.
      rewrite <- (phiP_0 t) at 1. rewrite (crlf_sub t 0 ln) by lia. rewrite decodeRune_crlf.
      2:{ destruct (sub_first t 0 ln ltac:(lia) ltac:(lia) ltac:(lia)) as [_ F]. rewrite F. apply A3. lia. }
      replace (P ln) with ln by lia. reflexivity.
  Qed.
End Last.
Print Assumptions decodeLastRune_crlf.

(* ---------------------------------------------------------------- emphasisFlags *)
Theorem emphasisFlags_crlf R s e : ~ In 13 R -> 0 <= s -> 0 <= e ->
  emphasisFlags (crlf R) (phiP R s) (phiP R e) = emphasisFlags R s e.
Proof.
  intros R13 Hs He. unfold emphasisFlags. cbv zeta.
  rewrite (crlf_upto R s Hs), (crlf_from R e He), decodeLastRune_crlf, len_R', P_ltb'.
  assert (E0 : (0 <? phiP R s) = (0 <? s)) by (rewrite <- (P_ltb' R 0 s), phiP_0; reflexivity). rewrite E0.
  rewrite at_m13, m13_eqb by discriminate.
  assert (NX : rnR (if e <? len R then fst (decodeRune (from_ R e)) else 32) (if e <? len R then fst (decodeRune (crlf (from_ R e))) else 32)).
  { destruct (e <? len R); [apply decodeRune_crlf_rnR|right; reflexivity]. }
  rewrite (cr_isUnicodeWhitespace _ _ NX), (cr_isUnicodePunctuation _ _ NX). reflexivity.
Qed.
Print Assumptions emphasisFlags_crlf.
