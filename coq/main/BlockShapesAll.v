From Coq Require Import List ZArith Lia Bool.
Import ListNotations.
Require Import Base Tables Utf8 Tree Rdr Link Collect Html Recog Inl3a Inl3b Inl3c Inl3d Inl3e LP Rules Starts Driver Props Leaf3e RdrBound
  L2Kind L2CC L2CCfull L2Bnd L2BndS Rec16 Rec17 Rec18
  BSDef BSRdr BSTree BSOcp BSOrph BSClose BSLine1 BSLine2 BSLine3 BSLine4 BSLine5 BSLine6 BSLine7 BSLine8 BSErase BSLine9 BSLine10 BSShift BlockSpans.
Require Import BShDef ShDef ShSetext ShLine4 BlockShapes BlockShapesNul.
Require Import ShapesBase EntBase EntOcpDefs EntOcp EntTree EntCur EntLP1 EntLP8 EntDrv.
Open Scope Z_scope.

(* ================================================================================================
   T48: block shapes (C13, block level) for EVERY input, NUL bytes included.
   BlockShapes.v proves the shapes of every block node on the root's text before the NUL filling (`pre`), BlockShapesNul.v
   that filling keeps them when `pre` is cut at NUL-triple boundaries (`tri pre`), and EntDrv.v (T28) that the buffer stays
   NUL-triple aligned (`tri (buf s)`) because every end of a root block is a boundary (`bdy`).  The two whole-run
   invariants are run together here (same stream state, same buffer), so that the text of BlockShapes and the aligned
   text of EntDrv are literally the same `upto (buf s) (bend b)`.
   ================================================================================================ *)

Definition okRC (r : rootB) : Prop := bshapes (rb_src r) (rb_blk r) = true.
Definition TT : bytes -> Prop := fun _ => True.
Definition CJ (s : bpst) (ch : list block) (ns : bool) : Prop := SJS TT s ch ns /\ EJ s ch.
Definition okNC (x : nb) : Prop :=
  match x with NBBlock r s' => okRC r /\ exists ns, CJ s' (pending s') ns | _ => True end.

Lemma CJ_makeRoot s children ns r s' : CJ s children ns -> makeRoot children s = Some (r, s') -> okRC r /\ CJ s' (pending s') ns.
Proof.
  intros [HS HE] Hm. pose proof HS as (HJ & [Hsa Hsc] & _).
  destruct (SJS_makeRoot TT ltac:(intros; exact I) ltac:(intros; exact I) _ _ _ _ _ HS Hm) as [_ HS'].
  destruct (EJ_makeRoot _ _ _ _ _ HJ HE Hm) as [_ HE'].
  split; [|split; assumption].
  destruct HJ as ((Hb & _) & Hcc & Ha & Hch). destruct HE as (He & Hp & Ht).
  unfold makeRoot in Hm. destruct children as [|b rest]; [discriminate|].
  destruct (isOpen b) eqn:Eo; [discriminate|]. inversion Hm; subst. clear Hm.
  unfold isOpen in Eo. apply Z.ltb_ge in Eo. destruct Ha as [Sb _]. destruct Hsa as [Qb _]. destruct He as [Eb _].
  pose proof (sp_bounds _ _ Sb) as Hbd.
  destruct (tri_cut (buf s) Ht (bend b) (en_end_bdy _ _ _ Eb Eo)) as [T1 _].
  unfold okRC. cbn [rb_src rb_blk]. eapply bshapes_sim; [apply fill_tri, T1|].
  eapply sh_bshapes; [lia|exact Sb|exact Qb|lia].
Qed.

Lemma CJ_lineLoop : forall fuel st children ls s ns, 0 <= ls <= len (buf s) -> bi s = lineEnd (buf s) ls ->
  bndL ls ns children = true -> (ns = false -> ls = len (buf s)) -> ccF children = true -> kidsOK ls children ->
  shKids (buf s) ls children -> allP (en (buf s) ls) children -> prevOK (buf s) ls -> tri (buf s) ->
  okNC (lineLoop fuel st children ls s).
Proof.
  induction fuel as [|f IH]; intros st children ls s ns Hls Hbi Hc Hn Hcc Hk Hsk He Hp Ht; [exact I|]. cbn [lineLoop].
  destruct (lineEnd_spec (buf s) ls Hls) as [A B]. rewrite <- Hbi in A, B.
  set (ln := from_ (upto (buf s) (bi s)) ls).
  destruct (line_of (buf s) ls (bi s) ltac:(lia) ltac:(lia)) as [Ll _]. fold ln in Ll.
  set (ns' := if ns then hasByteSuffixEOL ln else false).
  assert (Hc' : bndL (bi s) ns' children = true).
  { unfold ns'. destruct ns.
    - pose proof (bndL_mono ls (bi s) children ltac:(lia) Hc) as Hm. destruct (hasByteSuffixEOL ln); [exact Hm|apply bndL_weaken, Hm].
    - rewrite (Hn eq_refl) in *. replace (bi s) with (len (buf s)) by lia. exact Hc. }
  assert (Hn' : ns' = false -> bi s = len (buf s)).
  { unfold ns'. destruct ns; [|intros _; rewrite (Hn eq_refl) in *; lia].
    intros Ee. destruct (Z.lt_ge_cases (bi s) (len (buf s))) as [Lt|Ge]; [|lia].
    exfalso. rewrite Hbi in Lt. pose proof (line_hasEOL (buf s) ls Hls Lt) as Hh. rewrite <- Hbi in Hh. fold ln in Hh. congruence. }
  assert (Hlu : len (upto (buf s) (bi s)) = bi s) by (apply L2BndS.len_upto; lia).
  pose proof (bnd_processLine (bi s) ns' st children ls (upto (buf s) (bi s)) ltac:(lia) ltac:(lia) ltac:(fold ln; lia)
                ltac:(rewrite Hlu; lia) ltac:(unfold ns'; fold ln; destruct ns; [tauto|discriminate]) Hc') as H1.
  pose proof (sp_processLine (bi s) ns' st children ls (upto (buf s) (bi s)) ltac:(lia) ltac:(lia) ltac:(fold ln; lia)
                ltac:(rewrite Hlu; lia) ltac:(unfold ns'; fold ln; destruct ns; [tauto|discriminate]) Hc' Hcc Hk) as H2.
  pose proof (cc_processLine st children ls (upto (buf s) (bi s)) Hcc) as H3.
  pose proof (ent_processLine (buf s) (bi s) st children ls ltac:(lia) ltac:(lia) ltac:(lia) Hp
                ltac:(rewrite Hbi; apply lineEnd_lineOK, Hls) Hcc Hk He) as H4.
  assert (Hag : agree (buf s) (upto (buf s) (bi s)) (bi s)) by (unfold agree; rewrite ShDef.upto_upto by lia; reflexivity).
  assert (Hsk' : shKids (upto (buf s) (bi s)) ls children).
  { eapply shKids_agree; [exact Hag|lia| |exact Hsk]. eapply allP_sp_mono; [|apply Hk]. lia. }
  pose proof (sh_processLine (bi s) ns' st children ls (upto (buf s) (bi s)) ltac:(lia) ltac:(rewrite Hlu; lia) ltac:(fold ln; lia)
                ltac:(rewrite Hlu; lia) ltac:(unfold ns'; fold ln; destruct ns; [tauto|discriminate]) Hc' Hcc Hk
                ltac:(rewrite Hbi; apply line_shape; exact Hls) Hsk') as H5.
  rewrite Hlu in H5.
  destruct (processLine st children ls (upto (buf s) (bi s))) as [[children' st'] pn]. cbn [fst] in H1, H2, H3, H4, H5.
  destruct (negb (pn =? 0)); [exact I|].
  assert (H5' : shKids (buf s) (bi s) children').
  { eapply shKids_agree; [unfold agree; symmetry; exact Hag|lia|apply H2|exact H5]. }
  assert (HS : SJ s children' ns') by (split; [repeat split; try lia; assumption|split; assumption]).
  assert (Hp' : prevOK (buf s) (bi s)).
  { destruct (Z.lt_ge_cases (bi s) (len (buf s))) as [Lt|Ge]; [|right; right; lia]. destruct (B Lt) as [_ D]. right. left. apply isEOLb_z, D. }
  assert (HC : CJ s children' ns').
  { split; [split; [exact HS|split; [exact H5'|exact I]]|split; [assumption|split; assumption]]. }
  destruct (makeRoot children' s) as [[r s']|] eqn:Em.
  - cbn [okNC]. destruct (CJ_makeRoot _ _ _ _ _ HC Em) as [Hr Hs']. split; [exact Hr|eauto].
  - apply (IH st' children' (bi s) _ ns'); cbn [buf bi]; try assumption; try lia; reflexivity.
Qed.

Lemma CJ_skipLoop : forall fuel s, bi s = 0 -> tri (buf s) -> okNC (skipLoop fuel s).
Proof.
  induction fuel as [|f IH]; intros s Hb Ht; [exact I|]. cbn [skipLoop]. cbv zeta.
  destruct (negb _); [exact I|].
  assert (Hls : 0 <= bi s <= len (buf s)) by (pose proof (Rec17.len_nonneg (buf s)); lia).
  destruct (isBlankLine _).
  - apply IH; [reflexivity|]. cbn [buf]. apply tri_cut; [exact Ht|]. apply prevOK_bdy.
    destruct (lineEnd_spec (buf s) (bi s) Hls) as [A B]. destruct (Z.lt_ge_cases (lineEnd (buf s) (bi s)) (len (buf s))) as [Lt|Ge]; [|right; right; lia].
    destruct (B Lt) as [_ D]. right. left. apply isEOLb_z, D.
  - apply (CJ_lineLoop f 0 [] 0 _ true); cbn [buf bi];
      [lia|rewrite Hb; reflexivity|reflexivity|discriminate|reflexivity|split; exact I|split; exact I|exact I|left; reflexivity|exact Ht].
Qed.

Lemma CJ_nextBlock fuel s ns : CJ s (pending s) ns -> okNC (nextBlock fuel s).
Proof.
  intros HC. unfold nextBlock. destruct (makeRoot (pending s) s) as [[r s']|] eqn:Em.
  - cbn [okNC]. destruct (CJ_makeRoot _ _ _ _ _ HC Em) as [Hr Hs']. split; [exact Hr|eauto].
  - destruct HC as [(((Hb & Hc & Hn) & Hcc & Hk) & Hsk & _) (He & Hp & Ht)]. destruct (pending s) as [|b0 rest] eqn:Ep.
    + apply CJ_skipLoop; [reflexivity|]. cbn [buf]. apply tri_cut; [exact Ht|apply prevOK_bdy, Hp].
    + apply (CJ_lineLoop fuel 0 (b0 :: rest) (bi s) _ ns); cbn [buf bi]; try assumption; try lia; reflexivity.
Qed.

Lemma CJ_allBlocks : forall fuel s acc ns, CJ s (pending s) ns -> Forall okRC acc -> Forall okRC (fst (allBlocks fuel s acc)).
Proof.
  induction fuel as [|f IH]; intros s acc ns HC Ha; [exact Ha|]. cbn [allBlocks].
  pose proof (CJ_nextBlock (3 + length (buf s)) s ns HC) as Hn.
  destruct (nextBlock _ s) as [r s'| | |]; try exact Ha.
  destruct Hn as (Hr & (ns' & Hs')). apply (IH s' _ ns'); [exact Hs'|]. apply Forall_app. split; [exact Ha|]. constructor; [exact Hr|constructor].
Qed.

(* the statement of BlockShapes.parseBlocks_block_shapes_statement, for every input *)
Theorem parseBlocks_block_shapes : forall input, Forall (fun r => bshapes (rb_src r) (rb_blk r) = true) (fst (parseBlocks input)).
Proof.
  intros input. unfold parseBlocks. apply (CJ_allBlocks _ _ _ true); [|constructor].
  split.
  - split; [|split; [split; exact I|exact I]]. split; [|split; [reflexivity|split; exact I]].
    unfold SI. cbn [buf bi pending]. pose proof (Rec17.len_nonneg (pad input)). repeat split; try lia.
  - split; [exact I|split; [left; reflexivity|apply tri_pad]].
Qed.
Print Assumptions parseBlocks_block_shapes.

Theorem parseBlocks_block_shapes_holds : parseBlocks_block_shapes_statement.
Proof. exact parseBlocks_block_shapes. Qed.

(* the statement of BlockShapes.parseFull_block_shapes_statement (= parseFull_block_shapes_partial without its hypothesis) *)
Theorem parseFull_block_shapes : forall input, Forall (fun r => bshapes (rb_src r) (rb_blk r) = true) (fst (parseFull input)).
Proof.
  intros input. apply (parseFull_transfer (fun src b => bshapes src b = true)); [|apply parseBlocks_block_shapes].
  intros src src' m f b H. rewrite bshapes_rewriteB. exact H.
Qed.
Print Assumptions parseFull_block_shapes.

Theorem parseFull_block_shapes_holds : parseFull_block_shapes_statement.
Proof. exact parseFull_block_shapes. Qed.

(* boolean form *)
Corollary parseFull_block_shapes_b : forall input, forallb (fun r => bshapes (rb_src r) (rb_blk r)) (fst (parseFull input)) = true.
Proof. intros input. apply forallb_forall. intros r Hr. pose proof (parseFull_block_shapes input) as H. rewrite Forall_forall in H. apply H, Hr. Qed.
Print Assumptions parseFull_block_shapes_b.
