(* QS2FlagH.v -- T58b part H (towards the invariant TopPara): what a block start leaves behind.
   SP2 f: from the state stOpening, f either returns its argument unchanged, or the container afterwards is not a paragraph and
   either the state is stOpenMatched with the container below the document, or the line is consumed. *)
From Coq Require Import List ZArith Lia Bool.
Import ListNotations.
Require Import Base Tree Rdr Link Collect Html Recog LP Rules Starts Driver L2Kind2 L2CC TDefs TOcp TInv TDesc TStarts NoPanic47 QS2FlagA QS2FlagB QS2FlagC.
Open Scope Z_scope.

(* ---- a block with block children is not a paragraph ---- *)
Lemma kids_np x : cc x = true -> bkids x <> [] -> bkind x <> ParagraphKind.
Proof.
  intros Hc Hk E. apply cc_parts in Hc. destruct Hc as [H1 _]. rewrite E in H1. destruct (bkids x) as [|y l]; [congruence|].
  cbn [forallb] in H1. apply andb_true_iff in H1. destruct H1 as [H1 _]. vm_compute in H1. discriminate.
Qed.
Lemma cc_getAt : forall d r x, cc r = true -> getAt d r = Some x -> cc x = true.
Proof.
  induction d as [|d IH]; intros r x Hc H; [inversion H; subst; exact Hc|]. rewrite getAt_S in H.
  destruct (lastBlock r) as [c|] eqn:El; [|discriminate]. apply (IH c x); [apply (cc_lastBlock r c Hc El)|exact H].
Qed.

(* the top-level last child is not an open paragraph *)
Definition TopNP (r : block) : Prop := forall c, lastBlock r = Some c -> isOpen c = true -> bkind c <> ParagraphKind.

Lemma TopNP_deep p : ccP p -> (2 <= cdepth p)%nat -> TopNP (root p).
Proof.
  intros (_ & Hc & (x & Hx)) Hd c Hl _.
  destruct (getAt_le (cdepth p) 2 (root p) x Hd Hx) as (y & Hy). rewrite getAt_S, Hl in Hy. rewrite getAt_1 in Hy.
  apply kids_np; [apply (cc_lastBlock _ _ Hc Hl)|eapply lastBlock_ne; exact Hy].
Qed.
Lemma TopNP_cont p : ccP p -> cdepth p = 1%nat -> containerKind p <> ParagraphKind -> TopNP (root p).
Proof.
  intros (_ & _ & (x & Hx)) Hd Hk c Hl _. unfold containerKind, contBlock in Hk. rewrite Hd in *. rewrite getAt_1 in *. rewrite Hl in Hk. exact Hk.
Qed.
Lemma TopNP_done M r : topDone M r -> TopNP r.
Proof. intros H c Hl Ho. destruct (H c Hl) as [A _]. congruence. Qed.

(* ---- the container after endBlock has a child ---- *)
Lemma bkids_closeF_ne p e x c : lastBlock x = Some c -> bkids (TInv.closeF p e x) <> [].
Proof.
  intros El. unfold TInv.closeF. rewrite El. unfold set_lastBlocks. destruct x as [K s e0 bk ik a n ch l lb]. cbn [set_bkids bkids].
  apply app_ne_r. apply closeBlock_ne.
Qed.
Lemma endBlock_np q : ccP q -> st3 q -> (1 <= cdepth q)%nat -> containerKind (endBlock q) <> ParagraphKind.
Proof.
  intros Hc Hs Hd. pose proof (ccP_endBlock q Hc) as Hc'.
  unfold endBlock in *. rewrite (st3_notdesc' q Hs) in *. cbv zeta in *.
  set (q0 := if state q =? stOpening then withState q stOpenMatched else q) in *.
  assert (E0 : cdepth q0 = cdepth q /\ root q0 = root q) by (unfold q0; destruct (_ =? _); split; reflexivity). destruct E0 as [E1 E2].
  destruct (cdepth q0) as [|d] eqn:Ed; [lia|].
  destruct Hc as (_ & _ & (x & Hx)). rewrite <- E1, <- E2 in Hx.
  rewrite closeLastChildAt_eq in *. destruct Hc' as (_ & Hcc & _). cbn [root withCont withRoot setLP] in Hcc.
  unfold containerKind, contBlock. cbn [root cdepth container withCont withRoot setLP].
  rewrite getAt_updAt_same. rewrite getAt_S in Hx. destruct (getAt_prefix d (root q0) x ltac:(rewrite getAt_S; exact Hx)) as (y & Hy).
  rewrite Hy. cbn [option_map].
  assert (Hl : exists c, lastBlock y = Some c).
  { clear - Hx Hy. revert Hx Hy. generalize (root q0). induction d as [|d IH]; intros r Hx Hy.
    - cbn [getAt] in Hy. inversion Hy; subst. destruct (lastBlock y) as [c|]; [eauto|discriminate].
    - rewrite getAt_S in Hy. destruct (lastBlock r) as [c|] eqn:El; [|discriminate]. apply (IH c); [|exact Hy]. rewrite getAt_S in Hx. exact Hx. }
  destruct Hl as (c & Hl).
  apply kids_np; [|eapply bkids_closeF_ne; exact Hl].
  apply (cc_getAt d _ _ Hcc). rewrite getAt_updAt_same, Hy. reflexivity.
Qed.

(* ---- the record carried after the first openBlock of a start ---- *)
Definition P2 (q : lp) (K0 : Z) : Prop := E q /\ containerKind q = K0 /\ state q = stOpenMatched /\ (1 <= cdepth q)%nat.

Lemma P2_openBlock p K0 : E p -> st_open p -> K0 <> ListItemKind -> P2 (openBlock p K0) K0.
Proof.
  intros He Hs Hk. destruct (E_openBlock p K0 He Hk) as [He' Hd]. split; [exact He'|]. split; [|split; [apply state_openBlock, Hs|exact Hd]].
  apply containerKind_of; [apply He'|apply ckind_openBlock3, He].
Qed.
Lemma P2_openBlock' p K0 : E p -> st_open p -> canContain (containerKind p) K0 = true -> P2 (openBlock p K0) K0.
Proof.
  intros He Hs Hk. destruct (E_openBlock' p K0 He Hk) as [He' Hd]. split; [exact He'|]. split; [|split; [apply state_openBlock, Hs|exact Hd]].
  apply containerKind_of; [apply He'|apply ckind_openBlock3, He].
Qed.
Lemma P2_advance q K0 n : P2 q K0 -> P2 (advance q n) K0.
Proof.
  intros (a & b & c & d). split; [apply E_advance, a|]. split; [rewrite (containerKind_same q); [exact b|apply same_advance]|].
  split; [rewrite state_advance_ne0; [exact c|rewrite c; discriminate]|rewrite cd_advance; exact d].
Qed.
Lemma P2_consumeIndent q K0 n : P2 q K0 -> P2 (consumeIndent q n) K0.
Proof.
  intros (a & b & c & d). split; [apply E_consumeIndent, a|]. split; [rewrite (containerKind_same q); [exact b|apply same_consumeIndent]|].
  split; [rewrite state_consumeIndent_ne0; [exact c|rewrite c; discriminate]|rewrite cd_consumeIndent; exact d].
Qed.
Lemma P2_setters q K0 f : P2 q K0 -> setterK f -> P2 (updCont q f) K0.
Proof.
  intros (a & b & c & d) Hf. split; [apply E_setters; [exact a|intros x; destruct (Hf x) as (A & B & _); tauto]|].
  split; [rewrite containerKind_updCont; [exact b|intros x; apply Hf]|]. split; [exact c|exact d].
Qed.
Lemma P2_collectInline q K0 kind n : P2 q K0 -> P2 (collectInline q kind n) K0.
Proof.
  intros (a & b & c & d). pose proof (E_collectInline q kind n a) as a'. split; [exact a'|].
  split; [apply containerKind_of; [apply a'|apply ckind_collectInline; rewrite <- b; apply ckind_self]|].
  split; [rewrite state_collectInline_ne0; [exact c|rewrite c; discriminate]|rewrite cdepth_collectInline; exact d].
Qed.
(* after consumeLine: the line is consumed *)
Definition P3 (q : lp) (K0 : Z) : Prop := E q /\ containerKind q = K0 /\ state q = stLineConsumed /\ (1 <= cdepth q)%nat.
Lemma P3_consumeLine q K0 : P2 q K0 -> P3 (consumeLine q) K0.
Proof.
  intros (a & b & c & d). split; [apply E_consumeLine, a|]. split; [rewrite (containerKind_same q); [exact b|apply same_consumeLine]|].
  split; [apply state_consumeLine_open; right; exact c|rewrite cd_consumeLine; exact d].
Qed.
Lemma P3_end q K0 : P3 q K0 -> containerKind (endBlock q) <> ParagraphKind /\ state (endBlock q) = stLineConsumed.
Proof.
  intros (a & b & c & d). split; [apply endBlock_np; [apply a|apply a|exact d]|]. rewrite state_endBlock_ne0; [exact c|rewrite c; discriminate].
Qed.

Definition SP2 (f : lp -> lp) : Prop := forall p, state p = stOpening -> E p ->
  f p = p \/ (containerKind (f p) <> ParagraphKind /\
              ((state (f p) = stOpenMatched /\ (1 <= cdepth (f p))%nat) \/ state (f p) = stLineConsumed)).

Lemma SP2_of_P2 q K0 : P2 q K0 -> K0 <> ParagraphKind ->
  containerKind q <> ParagraphKind /\ ((state q = stOpenMatched /\ (1 <= cdepth q)%nat) \/ state q = stLineConsumed).
Proof. intros (a & b & c & d) Hk. split; [rewrite b; exact Hk|left; split; assumption]. Qed.
Lemma SP2_of_P3 q K0 : P3 q K0 -> K0 <> ParagraphKind ->
  containerKind q <> ParagraphKind /\ ((state q = stOpenMatched /\ (1 <= cdepth q)%nat) \/ state q = stLineConsumed).
Proof. intros (a & b & c & d) Hk. split; [rewrite b; exact Hk|right; exact c]. Qed.
Lemma SP2_of_end q K0 : P3 q K0 ->
  containerKind (endBlock q) <> ParagraphKind /\ ((state (endBlock q) = stOpenMatched /\ (1 <= cdepth (endBlock q))%nat) \/ state (endBlock q) = stLineConsumed).
Proof. intros H. destruct (P3_end q K0 H) as [A B]. split; [exact A|right; exact B]. Qed.

Lemma E_st_open_ci p n : state p = stOpening -> E p -> E (consumeIndent p n) /\ st_open (consumeIndent p n).
Proof. intros Hs He. split; [apply E_consumeIndent, He|apply st_open_consumeIndent; left; exact Hs]. Qed.

Lemma SP2_startBlockQuote : SP2 startBlockQuote.
Proof.
  intros p Hs He. unfold startBlockQuote. cbv zeta. destruct (_ <=? _); [left; reflexivity|]. destruct (negb _); [left; reflexivity|]. right.
  destruct (E_st_open_ci p (indent p) Hs He) as [H1 S1].
  pose proof (P2_advance _ _ 1 (P2_openBlock _ BlockQuoteKind H1 S1 ltac:(discriminate))) as H3.
  destruct (0 <? _); [apply (SP2_of_P2 _ BlockQuoteKind); [apply P2_consumeIndent, H3|discriminate]|apply (SP2_of_P2 _ BlockQuoteKind); [exact H3|discriminate]].
Qed.
Lemma SP2_startATX : SP2 startATX.
Proof.
  intros p Hs He. unfold startATX. cbv zeta. destruct (_ <=? _); [left; reflexivity|].
  destruct (parseATXHeading _) as [[level cs] ce]. destruct (level <? 1); [left; reflexivity|]. right.
  destruct (E_st_open_ci p (indent p) Hs He) as [H1 S1].
  apply (SP2_of_end _ ATXHeadingKind). apply P3_consumeLine, P2_collectInline, P2_advance, P2_setters; [|settersK].
  apply P2_openBlock; [exact H1|exact S1|discriminate].
Qed.
Lemma SP2_startFenced : SP2 startFenced.
Proof.
  intros p Hs He. unfold startFenced. cbv zeta. destruct (_ <=? _); [left; reflexivity|].
  destruct (parseCodeFence _) as [[[fc fnn] is_] ie]. destruct (fnn =? 0); [left; reflexivity|]. right.
  destruct (E_st_open_ci p (indent p) Hs He) as [H1 S1].
  assert (H4 : P2 (updCont (updCont (openBlock (consumeIndent p (indent p)) FencedCodeBlockKind) (fun b => set_bn (set_bchar b fc) fnn))
                      (fun b => set_bindent b (indent p))) FencedCodeBlockKind).
  { apply P2_setters; [apply P2_setters; [apply P2_openBlock; [exact H1|exact S1|discriminate]|settersK]|settersK]. }
  apply (SP2_of_P3 _ FencedCodeBlockKind); [|discriminate]. apply P3_consumeLine.
  destruct (spanValid _); [apply P2_collectInline, P2_advance, H4|exact H4].
Qed.
Lemma SP2_startHTML : SP2 startHTML.
Proof.
  intros p Hs He. unfold startHTML. cbv zeta. destruct (_ <=? _); [left; reflexivity|]. destruct (negb _); [left; reflexivity|].
  destruct (_ <? 0); [left; reflexivity|]. destruct (negb _ && _); [left; reflexivity|]. right.
  assert (H3 : P2 (updCont (openBlock p HTMLBlockKind) (fun b => set_bn b (firstHtmlCond 0 7 (bytesAfterIndent p)))) HTMLBlockKind).
  { apply P2_setters; [apply P2_openBlock; [exact He|left; exact Hs|discriminate]|settersK]. }
  match goal with |- context [if ?c then _ else _] => destruct c end.
  - apply (SP2_of_end _ HTMLBlockKind). apply P3_consumeLine, P2_collectInline, H3.
  - apply (SP2_of_P2 _ HTMLBlockKind); [exact H3|discriminate].
Qed.
Lemma SP2_startThematic : SP2 startThematic.
Proof.
  intros p Hs He. unfold startThematic. cbv zeta. destruct (_ <=? _); [left; reflexivity|]. destruct (_ <? 0); [left; reflexivity|]. right.
  destruct (E_st_open_ci p (indent p) Hs He) as [H1 S1].
  apply (SP2_of_end _ ThematicBreakKind). apply P3_consumeLine, P2_advance, P2_openBlock; [exact H1|exact S1|discriminate].
Qed.
Lemma SP2_startIndented : SP2 startIndented.
Proof.
  intros p Hs He. unfold startIndented. destruct (_ || _ || _); [left; reflexivity|]. right.
  destruct (E_st_open_ci p codeBlockIndentLimit Hs He) as [H1 S1].
  apply (SP2_of_P2 _ IndentedCodeBlockKind); [apply P2_openBlock; [exact H1|exact S1|discriminate]|discriminate].
Qed.
Lemma SP2_startSetext : SP2 startSetext.
Proof.
  intros p Hs He. unfold startSetext. cbv zeta. destruct (negb (containerKind p =? ParagraphKind)) eqn:Ek; [left; reflexivity|].
  destruct (_ <=? _); [left; reflexivity|]. destruct (_ =? 0); [left; reflexivity|].
  destruct (negb (containerHasParagraphContent p)); [left; reflexivity|]. right.
  apply negb_false_iff, Z.eqb_eq in Ek.
  pose proof (blockStarts_okE) as HB. unfold blockStarts in HB.
  assert (Hd : (1 <= cdepth p)%nat).
  { destruct (cdepth p) eqn:Ed; [|lia]. exfalso. rewrite (containerKind_root p Ed) in Ek. destruct He as (_ & (A & _) & _). rewrite A in Ek. discriminate. }
  set (q := updCont p (fun b => set_bn (set_bkind b SetextHeadingKind) (parseSetextHeadingUnderline (bytesAfterIndent p)))).
  assert (Eq : E q).
  { destruct He as [s [a0 b0]]. split; [exact s|]. split; [|exact b0].
    apply ccP_updCont_compat; [exact a0| |].
    - intros x Hx Hc. pose proof (ckind_self p x Hx) as Ex. rewrite Ek in Ex.
      apply cc_parts in Hc. destruct Hc as [C1 _]. rewrite Ex in C1.
      assert (Ekids : bkids x = []) by (apply forallb_false_nil; exact C1).
      destruct x as [K0 s0 e bk ik a1 n c0 l lb]. cbn [bkids bkind] in *. subst bk K0. split; [reflexivity|]. right. split; discriminate.
    - intros E0. exfalso. lia. }
  assert (H3 : P3 (consumeLine q) (containerKind (consumeLine q))).
  { split; [apply E_consumeLine, Eq|]. split; [reflexivity|]. split; [apply state_consumeLine_open; left; exact Hs|rewrite cd_consumeLine; exact Hd]. }
  apply (SP2_of_end _ _ H3).
Qed.
Lemma SP2_startListItem : SP2 startListItem.
Proof.
  intros p Hs He. unfold startListItem. cbv zeta. destruct (_ <=? _); [left; reflexivity|].
  destruct (parseListMarker _) as [[delim n] mend]. destruct (_ || _); [left; reflexivity|]. destruct (_ && _); [left; reflexivity|]. right.
  set (p1 := consumeIndent p (indent p)). destruct (E_st_open_ci p (indent p) Hs He) as [H1 S1]. fold p1 in H1, S1.
  set (cdelim := if (containerKind p1 =? ListKind) || (containerKind p1 =? ListItemKind) then bchar (contBlock p1) else 0).
  set (p2 := if negb (containerKind p1 =? ListKind) || negb (cdelim =? delim) then _ else p1).
  assert (H2 : E p2 /\ st_open p2 /\ containerKind p2 = ListKind).
  { unfold p2. destruct (negb (containerKind p1 =? ListKind) || negb (cdelim =? delim)) eqn:Ec.
    - destruct (P2_setters _ ListKind (fun b => set_bchar b delim) (P2_openBlock p1 ListKind H1 S1 ltac:(discriminate)) ltac:(settersK)) as (a & b & c & d).
      split; [exact a|]. split; [right; exact c|exact b].
    - apply orb_false_iff in Ec. destruct Ec as [Ec _]. apply negb_false_iff, Z.eqb_eq in Ec. split; [exact H1|]. split; [exact S1|exact Ec]. }
  destruct H2 as (H2 & S2 & K2).
  pose proof (P2_setters _ ListItemKind (fun b => set_bchar b delim) (P2_openBlock' p2 ListItemKind H2 S2 ltac:(rewrite K2; reflexivity)) ltac:(settersK)) as H3.
  set (p3 := updCont (openBlock p2 ListItemKind) (fun b => set_bchar b delim)) in *.
  pose proof (P2_advance _ ListMarkerKind mend (P2_openBlock p3 ListMarkerKind (proj1 H3) (or_intror (proj1 (proj2 (proj2 H3)))) ltac:(discriminate))) as H5.
  set (p5 := advance (openBlock p3 ListMarkerKind) mend) in *.
  assert (D5 : cdepth p5 = S (cdepth p3)).
  { unfold p5. rewrite cd_advance. apply cdepth_openBlock_in; [right; apply H3|]. destruct H3 as (_ & K3 & _). rewrite K3. reflexivity. }
  destruct H5 as (a5 & b5 & c5 & d5).
  assert (Eq : E (endBlock p5)) by (apply E_endBlock; assumption).
  assert (Dq : cdepth (endBlock p5) = cdepth p3) by (apply cdepth_endBlock; [apply a5|exact D5]).
  assert (Sq : state (endBlock p5) = stOpenMatched) by (rewrite state_endBlock_ne0; [exact c5|rewrite c5; discriminate]).
  assert (Nq : containerKind (endBlock p5) <> ParagraphKind) by (apply endBlock_np; [apply a5|apply a5|exact d5]).
  assert (Hq : P2 (endBlock p5) (containerKind (endBlock p5))).
  { split; [exact Eq|]. split; [reflexivity|]. split; [exact Sq|]. rewrite Dq. apply H3. }
  set (q := endBlock p5) in *.
  destruct (isRestBlank q).
  { apply (SP2_of_P3 _ (containerKind q)); [|exact Nq]. apply P3_consumeLine. apply P2_setters; [exact Hq|settersK]. }
  destruct (indent q <? 1); [apply (SP2_of_P2 _ (containerKind q)); [apply P2_setters; [exact Hq|settersK]|exact Nq]|].
  destruct (4 <? indent q); (apply (SP2_of_P2 _ (containerKind q)); [apply P2_setters; [apply P2_consumeIndent, Hq|settersK]|exact Nq]).
Qed.

Lemma blockStarts_SP2 : Forall SP2 blockStarts.
Proof.
  unfold blockStarts.
  repeat (apply Forall_cons; [first [exact SP2_startBlockQuote|exact SP2_startATX|exact SP2_startFenced|exact SP2_startHTML|exact SP2_startSetext|exact SP2_startThematic|exact SP2_startListItem|exact SP2_startIndented]|]).
  apply Forall_nil.
Qed.
