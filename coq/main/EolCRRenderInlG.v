From Coq Require Import List ZArith Lia Bool.
Import ListNotations.
Require Import Base Tree Rdr Link Collect Inl3a Inl3e EolCRRdr EolCRRenderDefs.
Open Scope Z_scope.

(* ====================================================================================================
   The per-node predicate G on parse-time forests that implies dokI after toInline, and its
   preservation by the tree surgery of Inl3a (updNode / wrapIn / removeId) for identities <> 0.
   The protected nodes (the children of a destination, the first child of an autolink) carry the
   identity 0 and have no children.
   ==================================================================================================== *)
Definition knil {A} (l : list A) : bool := match l with [] => true | _ :: _ => false end.
Lemma knil_true {A} (l : list A) : knil l = true -> l = [].
Proof. destruct l; [reflexivity|discriminate]. Qed.

Definition zero (x : pn) : bool := (pid x =? 0) && knil (pkids x).
Definition zq (src : bytes) (x : pn) : bool :=
  zero x && (if isTC (pkind x) then noEolb (sub src (ps x) (pe x)) else true).
Definition zqa (src : bytes) (x : pn) : bool := zero x && noEolb (sub src (ps x) (pe x)).

Fixpoint G (src : bytes) (n : pn) : bool :=
  match n with PN id k s e _ _ ks =>
    if k =? LinkDestinationKind then (id =? 0) && forallb (zq src) ks
    else if k =? AutolinkKind then match ks with x :: r => zqa src x && forallb (G src) r | [] => false end
    else forallb (G src) ks
  end.
Lemma G_eq src n : G src n =
  if pkind n =? LinkDestinationKind then (pid n =? 0) && forallb (zq src) (pkids n)
  else if pkind n =? AutolinkKind then match pkids n with x :: r => zqa src x && forallb (G src) r | [] => false end
  else forallb (G src) (pkids n).
Proof. destruct n; reflexivity. Qed.

(* a leaf of a harmless kind *)
Definition lf (x : pn) : bool := knil (pkids x) && negb (pkind x =? AutolinkKind) && negb (pkind x =? LinkDestinationKind).
Lemma lf_G src x : lf x = true -> G src x = true.
Proof.
  unfold lf. rewrite !andb_true_iff, !negb_true_iff. intros ((A & B) & C). rewrite G_eq, C, B. apply knil_true in A. rewrite A. reflexivity.
Qed.
Lemma lfF_G src l : forallb lf l = true -> forallb (G src) l = true.
Proof. rewrite !forallb_forall. intros H x Hx. apply lf_G, H, Hx. Qed.

Lemma zero_spec x : zero x = true -> pid x = 0 /\ pkids x = [].
Proof. unfold zero. rewrite andb_true_iff, Z.eqb_eq. intros [A B]. split; [exact A|apply knil_true, B]. Qed.
Lemma zq_zero src x : zq src x = true -> zero x = true.
Proof. unfold zq. rewrite andb_true_iff. tauto. Qed.
Lemma zqa_zero src x : zqa src x = true -> zero x = true.
Proof. unfold zqa. rewrite andb_true_iff. tauto. Qed.
Lemma zqF_zero src l : forallb (zq src) l = true -> forallb zero l = true.
Proof. rewrite !forallb_forall. intros H x Hx. eapply zq_zero, H, Hx. Qed.

Lemma setKids_nil_zero x : zero x = true -> setKids x [] = x.
Proof. intros H. apply zero_spec in H. destruct H as [_ H]. destruct x; cbn in *. subst. reflexivity. Qed.

(* ---- a generic step: rewriting the children of a node by a list transformer T ---- *)
Lemma G_setKids_T src (T : list pn -> list pn) n :
  (forall l, forallb zero l = true -> T l = l) ->
  (forall x r, zero x = true -> exists r', T (x :: r) = x :: r' /\ (forallb (G src) r = true -> forallb (G src) r' = true)) ->
  (forall l, forallb (G src) l = true -> forallb (G src) (T l) = true) ->
  G src n = true -> G src (setKids n (T (pkids n))) = true.
Proof.
  intros HZ HH HG. destruct n as [id k s e ind rf ks]. cbn [setKids pkids]. rewrite !G_eq. cbn [pkind pid pkids].
  destruct (k =? LinkDestinationKind).
  - rewrite andb_true_iff. intros [A B]. rewrite (HZ ks (zqF_zero src ks B)). rewrite A, B. reflexivity.
  - destruct (k =? AutolinkKind).
    + destruct ks as [|x r]; [discriminate|]. rewrite andb_true_iff. intros [A B].
      destruct (HH x r (zqa_zero src x A)) as (r' & E & F). rewrite E, A. cbn [andb]. apply F, B.
    + apply HG.
Qed.

(* ---- updNode ---- *)
Lemma updNode_nil f id g : updNode f id g [] = [].
Proof. destruct f; reflexivity. Qed.
Lemma updNode_cons f id g x r : updNode f id g (x :: r) =
  (match f with O => x | S f' => if pid x =? id then g x else setKids x (updNode f' id g (pkids x)) end) :: updNode f id g r.
Proof. destruct f; reflexivity. Qed.
Lemma updNode_zeroN f id g x : id <> 0 -> zero x = true ->
  (match f with O => x | S f' => if pid x =? id then g x else setKids x (updNode f' id g (pkids x)) end) = x.
Proof.
  intros Hid Hx. destruct f as [|f']; [reflexivity|]. pose proof (zero_spec x Hx) as [A B].
  replace (pid x =? id) with false by (symmetry; apply Z.eqb_neq; lia). rewrite B, updNode_nil. apply setKids_nil_zero, Hx.
Qed.
Lemma updNode_zero f id g : id <> 0 -> forall l, forallb zero l = true -> updNode f id g l = l.
Proof.
  intros Hid. induction l as [|x r IH]; intros H; [apply updNode_nil|]. cbn [forallb] in H. apply andb_true_iff in H. destruct H as [A B].
  rewrite updNode_cons, (updNode_zeroN f id g x Hid A), (IH B). reflexivity.
Qed.

Lemma G_updNode src id g : id <> 0 ->
  (forall n, G src n = true -> pkind n <> LinkDestinationKind -> G src (g n) = true) ->
  forall f l, forallb (G src) l = true -> forallb (G src) (updNode f id g l) = true.
Proof.
  intros Hid Hg. induction f as [|f IH]; intros l H; [exact H|]. cbn [updNode].
  rewrite forallb_forall in *. intros y Hy. apply in_map_iff in Hy. destruct Hy as (n & <- & Hn). specialize (H n Hn).
  destruct (Z.eqb_spec (pid n) id) as [E|E].
  - apply Hg; [exact H|]. intros Ek. rewrite G_eq in H. apply Z.eqb_eq in Ek. rewrite Ek in H. apply andb_true_iff in H. destruct H as [H _].
    apply Z.eqb_eq in H. lia.
  - apply (G_setKids_T src (updNode f id g) n).
    + apply updNode_zero, Hid.
    + intros x r Hx. exists (updNode f id g r). split; [rewrite updNode_cons, (updNode_zeroN f id g x Hid Hx); reflexivity|]. intros X. apply IH, X.
    + intros l0 X. apply IH, X.
    + exact H.
Qed.

(* ---- wrapIn ---- *)
Lemma splitAtId_app id : forall l, l = fst (splitAtId id l) ++ snd (splitAtId id l).
Proof.
  induction l as [|n r IH]; [reflexivity|]. cbn [splitAtId]. destruct (pid n =? id); [reflexivity|].
  destruct (splitAtId id r) as [a b]. cbn [fst snd] in *. rewrite IH at 1. reflexivity.
Qed.
Lemma splitBeforeId_app id : forall l, l = fst (splitBeforeId id l) ++ snd (splitBeforeId id l).
Proof.
  induction l as [|n r IH]; [reflexivity|]. cbn [splitBeforeId]. destruct id as [i|].
  - destruct (pid n =? i); [reflexivity|]. destruct (splitBeforeId (Some i) r) as [a b]. cbn [fst snd] in *. rewrite IH at 1. reflexivity.
  - destruct (splitBeforeId None r) as [a b]. cbn [fst snd] in *. rewrite IH at 1. reflexivity.
Qed.
Lemma forallb_app_iff {A} (p : A -> bool) a b : forallb p (a ++ b) = true <-> forallb p a = true /\ forallb p b = true.
Proof. rewrite forallb_app, andb_true_iff. tauto. Qed.

Lemma wrapLevel_shape newId kind startId endId endStart pEnd l :
  exists pre mid rest s e, l = pre ++ mid ++ rest /\
    wrapLevel newId kind startId endId endStart pEnd l = pre ++ [PN newId kind s e 0 [] mid] ++ rest /\
    pre = fst (splitAtId startId l).
Proof.
  unfold wrapLevel. pose proof (splitAtId_app startId l) as E1. destruct (splitAtId startId l) as [pre post]. cbn [fst snd] in E1.
  pose proof (splitBeforeId_app endId post) as E2. destruct (splitBeforeId endId post) as [mid rest]. cbn [fst snd] in E2.
  eexists pre, mid, rest, _, _. split; [rewrite E1, E2; reflexivity|]. split; reflexivity.
Qed.
Lemma G_new src newId kind s e mid : kind <> LinkDestinationKind -> kind <> AutolinkKind ->
  G src (PN newId kind s e 0 [] mid) = forallb (G src) mid.
Proof. intros A B. rewrite G_eq. cbn [pkind pkids]. apply Z.eqb_neq in A, B. rewrite A, B. reflexivity. Qed.
Lemma G_wrapLevel src newId kind startId endId endStart pEnd l : kind <> LinkDestinationKind -> kind <> AutolinkKind ->
  forallb (G src) l = true -> forallb (G src) (wrapLevel newId kind startId endId endStart pEnd l) = true.
Proof.
  intros K1 K2 H. destruct (wrapLevel_shape newId kind startId endId endStart pEnd l) as (pre & mid & rest & s & e & E1 & E2 & _).
  rewrite E2. rewrite E1 in H. rewrite !forallb_app_iff in H. destruct H as (A & B & C).
  rewrite !forallb_app_iff. cbn [forallb]. rewrite (G_new src newId kind s e mid K1 K2), B. tauto.
Qed.
Lemma wrapLevel_head src newId kind startId endId endStart pEnd x r : kind <> LinkDestinationKind -> kind <> AutolinkKind ->
  startId <> 0 -> zero x = true ->
  exists r', wrapLevel newId kind startId endId endStart pEnd (x :: r) = x :: r' /\ (forallb (G src) r = true -> forallb (G src) r' = true).
Proof.
  intros K1 K2 Hs Hx. destruct (wrapLevel_shape newId kind startId endId endStart pEnd (x :: r)) as (pre & mid & rest & s & e & E1 & E2 & E3).
  pose proof (zero_spec x Hx) as [Px _].
  cbn [splitAtId] in E3. replace (pid x =? startId) with false in E3 by (symmetry; apply Z.eqb_neq; lia).
  destruct (splitAtId startId r) as [a b]. cbn [fst] in E3. subst pre. cbn [app] in E1, E2. injection E1 as E1'.
  exists (a ++ [PN newId kind s e 0 [] mid] ++ rest). split; [exact E2|]. intros H. rewrite E1' in H.
  rewrite !forallb_app_iff in H. destruct H as (A & B & C). rewrite !forallb_app_iff. cbn [forallb]. rewrite (G_new src newId kind s e mid K1 K2), B. tauto.
Qed.

Lemma hasId_zero id l : id <> 0 -> forallb zero l = true -> hasId id l = false.
Proof.
  intros Hid. unfold hasId. induction l as [|x r IH]; intros H; [reflexivity|]. cbn [forallb existsb] in *. apply andb_true_iff in H. destruct H as [A B].
  pose proof (zero_spec x A) as [Px _]. replace (pid x =? id) with false by (symmetry; apply Z.eqb_neq; lia). apply IH, B.
Qed.
Lemma hasId_cons_zero id x r : id <> 0 -> zero x = true -> hasId id (x :: r) = hasId id r.
Proof.
  intros Hid Hx. unfold hasId. cbn [existsb]. pose proof (zero_spec x Hx) as [Px _].
  replace (pid x =? id) with false by (symmetry; apply Z.eqb_neq; lia). reflexivity.
Qed.
Lemma wrapIn_nil f newId kind sId eId es pEnd : wrapIn f newId kind sId eId es pEnd [] = [].
Proof. destruct f; reflexivity. Qed.
Lemma map_zero_id (T : pn -> list pn -> list pn) : (forall n, T n [] = []) ->
  forall l, forallb zero l = true -> map (fun n => setKids n (T n (pkids n))) l = l.
Proof.
  intros HT. induction l as [|x r IH]; intros H; [reflexivity|]. cbn [forallb map] in *. apply andb_true_iff in H. destruct H as [A B].
  rewrite (IH B). pose proof (zero_spec x A) as [_ Kx]. rewrite Kx, HT, (setKids_nil_zero x A). reflexivity.
Qed.
Lemma wrapIn_zero f newId kind sId eId es pEnd l : sId <> 0 -> forallb zero l = true -> wrapIn f newId kind sId eId es pEnd l = l.
Proof.
  intros Hs H. destruct f as [|f]; [reflexivity|]. cbn [wrapIn]. rewrite (hasId_zero sId l Hs H).
  apply (map_zero_id (fun n => wrapIn f newId kind sId eId es (pe n))); [intros n; apply wrapIn_nil|exact H].
Qed.
Lemma wrapIn_head src f newId kind sId eId es : kind <> LinkDestinationKind -> kind <> AutolinkKind -> sId <> 0 ->
  (forall pEnd l, forallb (G src) l = true -> forallb (G src) (wrapIn f newId kind sId eId es pEnd l) = true) ->
  forall pEnd x r, zero x = true ->
  exists r', wrapIn f newId kind sId eId es pEnd (x :: r) = x :: r' /\ (forallb (G src) r = true -> forallb (G src) r' = true).
Proof.
  intros K1 K2 Hs IH pEnd x r Hx. destruct f as [|f]; [exists r; split; [reflexivity|tauto]|].
  cbn [wrapIn]. rewrite (hasId_cons_zero sId x r Hs Hx). destruct (hasId sId r) eqn:Eh.
  - apply wrapLevel_head; assumption.
  - exists (wrapIn (S f) newId kind sId eId es pEnd r). split.
    + cbn [wrapIn map]. rewrite Eh. f_equal. pose proof (zero_spec x Hx) as [_ Kx]. rewrite Kx, wrapIn_nil. apply setKids_nil_zero, Hx.
    + apply IH.
Qed.
Lemma G_wrapIn src newId kind sId eId es : kind <> LinkDestinationKind -> kind <> AutolinkKind -> sId <> 0 ->
  forall f pEnd l, forallb (G src) l = true -> forallb (G src) (wrapIn f newId kind sId eId es pEnd l) = true.
Proof.
  intros K1 K2 Hs. induction f as [|f IH]; intros pEnd l H; [exact H|]. cbn [wrapIn].
  destruct (hasId sId l); [apply G_wrapLevel; assumption|].
  rewrite forallb_forall in *. intros y Hy. apply in_map_iff in Hy. destruct Hy as (n & <- & Hn). specialize (H n Hn).
  apply (G_setKids_T src (wrapIn f newId kind sId eId es (pe n)) n).
  - intros l0. apply wrapIn_zero, Hs.
  - intros x r Hx. apply (wrapIn_head src f newId kind sId eId es K1 K2 Hs IH (pe n) x r Hx).
  - apply IH.
  - exact H.
Qed.

(* ---- removeId ---- *)
Lemma removeId_nil f id : removeId f id [] = [].
Proof. destruct f; reflexivity. Qed.
Lemma removeId_zero f id l : id <> 0 -> forallb zero l = true -> removeId f id l = l.
Proof.
  intros Hs H. destruct f as [|f]; [reflexivity|]. cbn [removeId]. rewrite (hasId_zero id l Hs H).
  apply (map_zero_id (fun _ => removeId f id)); [intros _; apply removeId_nil|exact H].
Qed.
Lemma G_filter src (p : pn -> bool) l : forallb (G src) l = true -> forallb (G src) (filter p l) = true.
Proof. rewrite !forallb_forall. intros H x Hx. apply filter_In in Hx. apply H. tauto. Qed.
Lemma removeId_head src f id : id <> 0 ->
  (forall l, forallb (G src) l = true -> forallb (G src) (removeId f id l) = true) ->
  forall x r, zero x = true ->
  exists r', removeId f id (x :: r) = x :: r' /\ (forallb (G src) r = true -> forallb (G src) r' = true).
Proof.
  intros Hs IH x r Hx. destruct f as [|f]; [exists r; split; [reflexivity|tauto]|].
  cbn [removeId]. rewrite (hasId_cons_zero id x r Hs Hx). pose proof (zero_spec x Hx) as [Px Kx]. destruct (hasId id r) eqn:Eh.
  - exists (filter (fun n => negb (pid n =? id)) r). split; [|apply G_filter].
    cbn [filter]. replace (pid x =? id) with false by (symmetry; apply Z.eqb_neq; lia). reflexivity.
  - exists (removeId (S f) id r). split.
    + cbn [removeId map]. rewrite Eh. f_equal. rewrite Kx, removeId_nil. apply setKids_nil_zero, Hx.
    + apply IH.
Qed.
Lemma G_removeId src id : id <> 0 -> forall f l, forallb (G src) l = true -> forallb (G src) (removeId f id l) = true.
Proof.
  intros Hs. induction f as [|f IH]; intros l H; [exact H|]. cbn [removeId].
  destruct (hasId id l); [apply G_filter, H|].
  rewrite forallb_forall in *. intros y Hy. apply in_map_iff in Hy. destruct Hy as (n & <- & Hn). specialize (H n Hn).
  apply (G_setKids_T src (removeId f id) n).
  - intros l0. apply removeId_zero, Hs.
  - intros x r Hx. apply (removeId_head src f id Hs IH x r Hx).
  - apply IH.
  - exact H.
Qed.

(* ---- the updates the parser performs ---- *)
Lemma G_setSpan src n s e : G src (setSpan n s e) = G src n.
Proof. destruct n; reflexivity. Qed.
Lemma G_setRef src n r : G src (setRef n r) = G src n.
Proof. destruct n; reflexivity. Qed.
Lemma G_setInd src n v : G src (setInd n v) = G src n.
Proof. destruct n; reflexivity. Qed.
Lemma G_appendKid src n k : G src n = true -> pkind n <> LinkDestinationKind -> G src k = true -> G src (setKids n (pkids n ++ [k])) = true.
Proof.
  destruct n as [id kd s e ind rf ks]. cbn [setKids pkids pkind]. intros H Hk Gk. rewrite G_eq in H. rewrite G_eq. cbn [pkind pid pkids] in H |- *.
  apply Z.eqb_neq in Hk. rewrite Hk in H |- *. destruct (kd =? AutolinkKind).
  - destruct ks as [|x r]; [discriminate|]. cbn [app]. apply andb_true_iff in H. destruct H as [A B]. rewrite A. cbn [andb].
    apply forallb_app_iff. split; [exact B|]. cbn [forallb]. rewrite Gk. reflexivity.
  - apply forallb_app_iff. split; [exact H|]. cbn [forallb]. rewrite Gk. reflexivity.
Qed.

(* ---- from G to dokI ---- *)
Lemma zero_dokI src x : zero x = true -> dokI src (toInline x) = true.
Proof.
  intros H. apply zero_spec in H. destruct H as [_ H]. destruct x as [id k s e ind rf ks]. cbn [pkids] in H. subst ks.
  cbn [toInline map dokI forallb]. destruct (k =? LinkDestinationKind); destruct (k =? AutolinkKind); reflexivity.
Qed.
Lemma ikind_toInline x : ikind (toInline x) = pkind x. Proof. destruct x; reflexivity. Qed.
Lemma istart_toInline x : istart (toInline x) = ps x. Proof. destruct x; reflexivity. Qed.
Lemma iend_toInline x : iend (toInline x) = pe x. Proof. destruct x; reflexivity. Qed.
Lemma zq_kidNoEol src x : zq src x = true -> kidNoEol src (toInline x) = true.
Proof.
  unfold zq, kidNoEol. rewrite ikind_toInline, istart_toInline, iend_toInline. rewrite andb_true_iff. tauto.
Qed.
Lemma zqa_spanNoEol src x : zqa src x = true -> spanNoEol src (toInline x) = true.
Proof.
  unfold zqa, spanNoEol. rewrite istart_toInline, iend_toInline. rewrite andb_true_iff. tauto.
Qed.
Lemma G_dokI src : forall n, G src n = true -> dokI src (toInline n) = true.
Proof.
  fix IH 1. intros [id k s e ind rf ks] H. rewrite G_eq in H. cbn [pkind pid pkids] in H. cbn [toInline dokI].
  assert (HF : forall l, forallb (G src) l = true -> forallb (dokI src) (map toInline l) = true).
  { induction l as [|x l IHl]; intros X; [reflexivity|]. cbn [forallb map] in *. apply andb_true_iff in X. destruct X as [A B].
    rewrite (IH x A), (IHl B). reflexivity. }
  destruct (k =? LinkDestinationKind) eqn:E1.
  - apply andb_true_iff in H. destruct H as [_ H].
    assert (E2 : k =? AutolinkKind = false) by (apply Z.eqb_eq in E1; subst k; reflexivity). rewrite E2.
    assert (H1 : forallb (kidNoEol src) (map toInline ks) = true /\ forallb (dokI src) (map toInline ks) = true).
    { clear - H. induction ks as [|x l IHl]; [split; reflexivity|]. cbn [forallb map] in *. apply andb_true_iff in H. destruct H as [A B].
      destruct (IHl B) as [C D]. rewrite (zq_kidNoEol src x A), (zero_dokI src x (zq_zero src x A)), C, D. split; reflexivity. }
    destruct H1 as [-> ->]. reflexivity.
  - destruct (k =? AutolinkKind) eqn:E2.
    + destruct ks as [|x r]; [discriminate|]. apply andb_true_iff in H. destruct H as [A B]. cbn [map forallb].
      rewrite (zqa_spanNoEol src x A), (zero_dokI src x (zqa_zero src x A)), (HF r B). reflexivity.
    + rewrite (HF ks H). reflexivity.
Qed.
Lemma GF_dokI src l : forallb (G src) l = true -> forallb (dokI src) (map toInline l) = true.
Proof.
  induction l as [|x l IHl]; intros X; [reflexivity|]. cbn [forallb map] in *. apply andb_true_iff in X. destruct X as [A B].
  rewrite (G_dokI src x A), (IHl B). reflexivity.
Qed.
