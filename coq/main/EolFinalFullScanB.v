From Coq Require Import List ZArith Lia Bool.
Import ListNotations.
Require Import Base Tables Utf8 Tree Rdr Link Collect Html Recog Inl3a Inl3b Inl3c Inl3d LP ShapesBase ShapesR IFBase EolFinalDefs LADef
  EolGenRdrBase EolGenRdrLink EolGenRdrCollect IFLink IFHtml EolFinalFullRdrE EolFinalFullLinkE EolFinalFullScanE.
Open Scope Z_scope.

(* C14 (i), final newline, inline pass, "bumped mode": the code-span and HTML-tag scanners in the two runs of EolGenRdrBase
   (run 1 over src with spans sp, run 2 over src ++ [10] with spans map (bumpI L) sp). *)
Section SB.
Variable src : bytes.
Local Notation L := (len src).
Local Notation src2 := (src ++ [10]).
Hypothesis HL : 0 < L.
Hypothesis Hlast : isEOLz (at_ src (L - 1)) = false.
Local Notation Rin := (Rin src).
Local Notation T0 := (T0 src).
Local Notation T1 := (T1 src).
Local Notation E1 := (E1 src).
Local Notation E2 := (E2 src).
Local Notation A2 := (A2 src).
Local Notation Rel0 := (Rel0 src).
Local Notation Rel := (Rel src).

Ltac stc H c r1' r2' H1 Hc0 Hce Hpc :=
  match type of H with EolGenRdrBase.Rin _ ?r1 ?r2 =>
    let Ec := fresh "Ec" in let c' := fresh "c'" in
    pose proof (Rin_current src HL Hlast r1 r2 H) as (Ec & H1 & Hc0 & Hce);
    pose proof (pos_current r1) as Hpc;
    destruct (current r1) as [c r1']; destruct (current r2) as [c' r2']; cbn [fst snd] in Ec, H1, Hc0, Hce, Hpc; subst c' end.
Ltac stn H ok ok' r1' r2' HN :=
  match type of H with EolGenRdrBase.Rin _ ?r1 ?r2 =>
    pose proof (Rin_next src HL Hlast r1 r2 H) as HN;
    destruct (next r1) as [ok r1']; destruct (next r2) as [ok' r2']; cbn [fst snd] in HN end.

Lemma A2_cur r : A2 r -> cur r = 10 /\ snd (current r) = r.
Proof. intros H. unfold cur. rewrite (A2_current src HL Hlast r H). split; reflexivity. Qed.
Lemma Rin_cur r1 r2 : Rin r1 r2 -> cur r2 = cur r1 /\ Rin (snd (current r1)) (snd (current r2)) /\ cur r1 <> 0.
Proof. intros H. destruct (Rin_current src HL Hlast r1 r2 H) as (A & B & C & _). unfold cur. tauto. Qed.
Lemma E1_cur r : E1 r -> cur r = 0 /\ snd (current r) = r.
Proof. intros H. unfold cur. rewrite (E1_current src HL Hlast r H). split; reflexivity. Qed.
Lemma E2_cur r : E2 r -> cur r = 0 /\ snd (current r) = r.
Proof. intros H. unfold cur. rewrite (E2_current src HL Hlast r H). split; reflexivity. Qed.

(* ---------------- code spans ---------------- *)
Lemma A2_cs_close f r blen : A2 r -> cs_close f r blen = (-1, -1).
Proof.
  intros H. destruct f as [|f]; [reflexivity|]. cbn [cs_close]. destruct (A2_cur r H) as [C1 C2]. rewrite C1, C2. change (10 =? 96) with false. cbn [negb].
  destruct (A2_next src HL Hlast r H) as (r' & En & _). rewrite En. reflexivity.
Qed.
Definition CsO (x y : option (reader * Z * Z) * Z) : Prop :=
  match x, y with
  | (Some (a, n, c), d), (Some (a', n', c'), d') => n' = n /\ c' = c /\ d' = d /\ Rin a a'
  | (None, d), (None, d') => d' = d
  | (None, d), (Some (a', n', c'), d') => c' = d /\ A2 a'
  | _, _ => False
  end.
Lemma g_cs_open : forall f r1 r2 n c, Rin r1 r2 -> CsO (cs_open f r1 n c) (cs_open f r2 n c).
Proof.
  induction f as [|f IH]; intros r1 r2 n c H; [reflexivity|]. cbn [cs_open]. destruct (Rin_cur r1 r2 H) as (C1 & C2 & _). rewrite C1.
  destruct (cur r1 =? 96); [|cbn [CsO]; tauto]. stn C2 ok ok' ra ra' HN. destruct HN as [(Eo & Ha & _)|(Eo1 & Eo2 & HT & _)].
  - subst ok'. destruct (Rin_pos src HL Hlast ra ra' Ha) as [Pa _]. rewrite Pa. destruct ok; cbn [negb]; [apply IH, Ha|reflexivity].
  - subst ok ok'. cbn [negb]. destruct (T0_pos src HL Hlast ra ra' HT) as [P1 P2]. rewrite P1, P2. destruct HT as (_ & HA & _).
    destruct f as [|f]; [reflexivity|]. cbn [cs_open]. destruct (A2_cur ra' HA) as [D1 D2]. rewrite D1. change (10 =? 96) with false. cbv iota. split; [reflexivity|exact HA].
Qed.
(* cs_run: the reader, the count; the third component is not used by cs_close *)
Definition CsR (x y : reader * Z * bool) : Prop :=
  snd (fst y) = snd (fst x) /\ (Rin (fst (fst x)) (fst (fst y)) \/ T0 (fst (fst x)) (fst (fst y))).
Lemma g_cs_run : forall f r1 r2 k, Rin r1 r2 -> CsR (cs_run f r1 k) (cs_run f r2 k).
Proof.
  induction f as [|f IH]; intros r1 r2 k H; [split; [reflexivity|left; exact H]|]. cbn [cs_run]. stn H ok ok' ra ra' HN.
  destruct HN as [(Eo & Ha & _)|(Eo1 & Eo2 & HT & _)].
  - subst ok'. destruct ok; cbn [negb]; [|split; [reflexivity|left; exact Ha]]. destruct (Rin_cur ra ra' Ha) as (C1 & C2 & _). rewrite C1.
    destruct (cur ra =? 96); [apply IH, C2|split; [reflexivity|left; exact C2]].
  - subst ok ok'. cbn [negb]. pose proof HT as (_ & HA & _). destruct (A2_cur ra' HA) as [D1 D2]. rewrite D1, D2. change (10 =? 96) with false. cbv iota.
    split; [reflexivity|right; exact HT].
Qed.
Lemma g_cs_close : forall f r1 r2 blen, Rin r1 r2 -> cs_close f r2 blen = cs_close f r1 blen.
Proof.
  induction f as [|f IH]; intros r1 r2 blen H; [reflexivity|]. cbn [cs_close]. destruct (Rin_cur r1 r2 H) as (C1 & C2 & _). rewrite C1.
  destruct (Rin_pos src HL Hlast r1 r2 H) as [P0 _]. rewrite P0.
  destruct (negb (cur r1 =? 96)).
  - stn C2 ok ok' ra ra' HN. destruct HN as [(Eo & Ha & _)|(Eo1 & Eo2 & HT & _)].
    + subst ok'. destruct ok; cbn [negb]; [apply IH, Ha|reflexivity].
    + subst ok ok'. cbn [negb]. apply A2_cs_close, HT.
  - pose proof (g_cs_run (S f) (snd (current r1)) (snd (current r2)) 1 C2) as HR.
    destruct (cs_run (S f) (snd (current r1)) 1) as [[ra k] al]. destruct (cs_run (S f) (snd (current r2)) 1) as [[ra' k'] al']. unfold CsR in HR. cbn [fst snd] in HR. destruct HR as [Ek HR]. subst k'.
    destruct HR as [Ha|HT].
    + destruct (Rin_prev src HL Hlast ra ra' Ha) as [Pp _]. rewrite Pp. destruct (k =? blen); [reflexivity|].
      stn Ha ok ok' rb rb' HN. destruct HN as [(Eo & Hb & _)|(Eo1 & Eo2 & HT & _)].
      * subst ok'. destruct ok; cbn [negb]; [apply IH, Hb|reflexivity].
      * subst ok ok'. cbn [negb]. apply A2_cs_close, HT.
    + destruct (T0_prev src HL Hlast ra ra' HT) as [Pp _]. rewrite Pp. destruct (k =? blen); [reflexivity|].
      destruct HT as (HE & HA & _). rewrite (E1_next src HL Hlast ra HE). destruct (A2_next src HL Hlast ra' HA) as (r' & En & _). rewrite En. reflexivity.
Qed.
Definition csBody (f : nat) (r : reader) (start : Z) : Z * Z * Z :=
  match cs_open f r 0 start with
  | (None, cstart) => (cstart, -1, -1)
  | (Some (r1, n, cstart), _) => let '(ce, se) := cs_close f r1 n in (cstart, ce, se)
  end.
Lemma g_csBody f r1 r2 start : Rin r1 r2 -> csBody f r2 start = csBody f r1 start.
Proof.
  intros H. unfold csBody. pose proof (g_cs_open f r1 r2 0 start H) as HO.
  destruct (cs_open f r1 0 start) as [[[[a n] c]|] d]; destruct (cs_open f r2 0 start) as [[[[a' n'] c']|] d']; cbn [CsO] in HO; try contradiction.
  - destruct HO as (-> & -> & -> & Ha). rewrite (g_cs_close f a a' n Ha). reflexivity.
  - (* run 1 ran out of input inside the backtick run, run 2 saw the final LF: still unterminated *)
    destruct HO as [-> HA]. rewrite (A2_cs_close f a' n' HA). reflexivity.
  - subst d'. reflexivity.
Qed.

(* ---------------- HTML tags: the scanners of Html.v ---------------- *)
Lemma PL2_Rel r1 r2 : Rel r1 r2 -> PL src2 r2.
Proof.
  intros [H|[H|H]]; [apply (Rin_PL2 src HL Hlast r1 r2 H)|apply (A2_PL src HL Hlast), H|].
  destruct H as (_ & (A & _ & C)). split; [exact A|rewrite C; reflexivity].
Qed.
Lemma A2_tagName_loop f r : A2 r -> tagName_loop f r = r.
Proof. intros H. destruct f as [|f]; [reflexivity|]. cbn [tagName_loop]. rewrite (A2_current src HL Hlast r H). reflexivity. Qed.
Lemma g_tagName_loop : forall f r1 r2, Rin r1 r2 -> Rel0 (tagName_loop f r1) (tagName_loop f r2).
Proof.
  induction f as [|f IH]; intros r1 r2 H; [left; exact H|]. cbn [tagName_loop]. stc H c ra ra' Ha Hc0 Hce Hpc.
  destruct (_ || _ || _); [|left; exact Ha]. stn Ha ok ok' rb rb' HN. destruct HN as [(Eo & Hb & _)|(Eo1 & Eo2 & HT & _)].
  - subst ok'. destruct ok; [apply IH, Hb|left; exact Hb].
  - subst ok ok'. rewrite (A2_tagName_loop f rb' ltac:(apply HT)). right. exact HT.
Qed.
Lemma g_parseHTMLTagName f r1 r2 : Rin r1 r2 ->
  fst (parseHTMLTagName f r2) = fst (parseHTMLTagName f r1) /\ Rel0 (snd (parseHTMLTagName f r1)) (snd (parseHTMLTagName f r2)).
Proof.
  intros H. unfold parseHTMLTagName. stc H c ra ra' Ha Hc0 Hce Hpc. destruct (negb (isASCIILetter c)); [cbn [fst snd]; split; [reflexivity|left; exact Ha]|].
  stn Ha ok ok' rb rb' HN. destruct HN as [(Eo & Hb & _)|(Eo1 & Eo2 & HT & _)].
  - subst ok'. destruct ok; cbn [negb fst snd]; [split; [reflexivity|apply g_tagName_loop, Hb]|split; [reflexivity|left; exact Hb]].
  - subst ok ok'. cbn [negb fst snd]. rewrite (A2_tagName_loop f rb' ltac:(apply HT)). split; [reflexivity|right; exact HT].
Qed.
Lemma A2_attrName_loop f r : A2 r -> attrName_loop f r = (true, r).
Proof. intros H. destruct f as [|f]; [reflexivity|]. cbn [attrName_loop]. rewrite (A2_current src HL Hlast r H). reflexivity. Qed.
Lemma g_attrName_loop : forall f r1 r2, Rin r1 r2 ->
  (fst (attrName_loop f r2) = fst (attrName_loop f r1) /\ Rin (snd (attrName_loop f r1)) (snd (attrName_loop f r2))) \/
  (fst (attrName_loop f r1) = false /\ fst (attrName_loop f r2) = true /\ T0 (snd (attrName_loop f r1)) (snd (attrName_loop f r2))).
Proof.
  induction f as [|f IH]; intros r1 r2 H; [left; split; [reflexivity|exact H]|]. cbn [attrName_loop]. stc H c ra ra' Ha Hc0 Hce Hpc.
  destruct (isAttrNameChar c); [|left; split; [reflexivity|exact Ha]]. stn Ha ok ok' rb rb' HN. destruct HN as [(Eo & Hb & _)|(Eo1 & Eo2 & HT & _)].
  - subst ok'. destruct ok; [apply IH, Hb|left; split; [reflexivity|exact Hb]].
  - subst ok ok'. rewrite (A2_attrName_loop f rb' ltac:(apply HT)). right. cbn [fst snd]. tauto.
Qed.
Lemma A2_untilQuote f r q : A2 r -> q <> 10 -> fst (untilQuote f r q) = false /\ (snd (untilQuote f r q) = r \/ E2 (snd (untilQuote f r q))).
Proof.
  intros H Hq. destruct f as [|f]; [cbn; tauto|]. cbn [untilQuote]. rewrite (A2_current src HL Hlast r H).
  replace (10 =? q) with false by (symmetry; apply Z.eqb_neq; lia). destruct (A2_next src HL Hlast r H) as (r' & En & He & _). rewrite En. cbn [fst snd]. tauto.
Qed.
Lemma g_untilQuote : forall f r1 r2 q, Rin r1 r2 -> q <> 10 ->
  fst (untilQuote f r2 q) = fst (untilQuote f r1 q) /\ Rel (snd (untilQuote f r1 q)) (snd (untilQuote f r2 q)).
Proof.
  induction f as [|f IH]; intros r1 r2 q H Hq; [cbn [untilQuote fst snd]; split; [reflexivity|left; exact H]|]. cbn [untilQuote]. stc H c ra ra' Ha Hc0 Hce Hpc.
  destruct (c =? q).
  - cbn [fst snd]. split; [reflexivity|apply (Rel_next src HL Hlast); left; exact Ha].
  - stn Ha ok ok' rb rb' HN. destruct HN as [(Eo & Hb & _)|(Eo1 & Eo2 & HT & _)].
    + subst ok'. destruct ok; [apply IH; assumption|cbn [fst snd]; split; [reflexivity|left; exact Hb]].
    + subst ok ok'. pose proof HT as (HE & HA & _). destruct (A2_untilQuote f rb' q HA Hq) as [F1 F2]. cbn [fst snd]. rewrite F1. split; [reflexivity|].
      destruct F2 as [F2|F2]; [rewrite F2; right; left; exact HT|right; right; split; assumption].
Qed.
Lemma A2_unquoted_loop f r : A2 r -> unquoted_loop f r = r \/ E2 (unquoted_loop f r).
Proof.
  intros H. destruct f as [|f]; [left; reflexivity|]. cbn [unquoted_loop]. destruct (A2_next src HL Hlast r H) as (r' & En & He & _). rewrite En. right. exact He.
Qed.
Lemma g_unquoted_loop : forall f r1 r2, Rin r1 r2 -> Rel (unquoted_loop f r1) (unquoted_loop f r2).
Proof.
  induction f as [|f IH]; intros r1 r2 H; [left; exact H|]. cbn [unquoted_loop]. stn H ok ok' ra ra' HN. destruct HN as [(Eo & Ha & _)|(Eo1 & Eo2 & HT & _)].
  - subst ok'. destruct ok; cbn [negb]; [|left; exact Ha]. stc Ha c rb rb' Hb Hc0 Hce Hpc. destruct (isUnquotedAttributeValueChar c); [apply IH, Hb|left; exact Hb].
  - subst ok ok'. cbn [negb]. pose proof HT as (HE & HA & _). rewrite (A2_current src HL Hlast ra' HA). change (isUnquotedAttributeValueChar 10) with false. cbv iota. right; left; exact HT.
Qed.
(* the potential of run 2 along a scanner *)
Definition big (f : nat) (r : reader) : Prop := nu src2 r < Z.of_nat f.
Lemma big_prog f r r' : prog src2 r r' -> big f r -> big f r'.
Proof. intros (_ & _ & A & _) B. unfold big in *. lia. Qed.
Lemma big_current f r : big f r -> big f (snd (current r)). Proof. unfold big. rewrite nu_current. tauto. Qed.
Lemma big_next f r : PL src2 r -> big f r -> big f (snd (next r)).
Proof. intros HP B. destruct (next_W src2 r HP) as (_ & _ & A & _). unfold big in *. lia. Qed.
Lemma tail_sls f r1 r2 : T0 r1 r2 \/ T1 r1 r2 -> big f r2 -> fst (skipLinkSpace f r1) = false /\ fst (skipLinkSpace f r2) = false.
Proof.
  intros HT Hb. destruct (g_skipLinkSpace src HL Hlast f r1 r2 ltac:(right; exact HT) Hb) as [E R].
  assert (E1f : fst (skipLinkSpace f r1) = false).
  { unfold skipLinkSpace. assert (HE : E1 r1) by (destruct HT as [HT|HT]; apply HT). rewrite (E1_current src HL Hlast r1 HE). reflexivity. }
  rewrite E, E1f. tauto.
Qed.

Definition tailQ (r : reader) : Prop := A2 r \/ E2 r.
Definition URel (r1 r2 : reader) : Prop := Rin r1 r2 \/ (E1 r1 /\ tailQ r2).
Lemma Rel_URel r1 r2 : Rel r1 r2 -> URel r1 r2.
Proof. intros [H|[H|H]]; [left; exact H|right; split; [apply H|left; apply H]|right; split; [apply H|right; apply H]]. Qed.
Lemma Rel0_URel r1 r2 : Rel0 r1 r2 -> URel r1 r2.
Proof. intros [H|H]; [left; exact H|right; split; [apply H|left; apply H]]. Qed.
Lemma E1_sls f r : E1 r -> skipLinkSpace f r = (false, r).
Proof. intros H. unfold skipLinkSpace. rewrite (E1_current src HL Hlast r H). reflexivity. Qed.
Lemma tq_PL r : tailQ r -> PL src2 r.
Proof. intros [H|H]; [apply (A2_PL src HL Hlast), H|]. destruct H as (A & _ & C). split; [exact A|rewrite C; reflexivity]. Qed.
Lemma tq_sls f r : tailQ r -> big f r -> exists r', skipLinkSpace f r = (false, r') /\ E2 r'.
Proof.
  intros [H|H] Hb.
  - pose proof (A2_nu src HL Hlast r H) as Hn. unfold big in Hb. unfold skipLinkSpace. rewrite (A2_current src HL Hlast r H). change (10 =? 0) with false. cbv iota.
    apply (A2_sls_loop src HL Hlast f r H). lia.
  - exists r. split; [|exact H]. unfold skipLinkSpace. rewrite (E2_current src HL Hlast r H). reflexivity.
Qed.

Lemma g_parseHTMLAttribute f r1 r2 : Rin r1 r2 -> big f r2 ->
  fst (parseHTMLAttribute f r2) = fst (parseHTMLAttribute f r1) /\ URel (snd (parseHTMLAttribute f r1)) (snd (parseHTMLAttribute f r2)).
Proof.
  intros H Hb. unfold parseHTMLAttribute. pose proof (Rin_PL2 src HL Hlast r1 r2 H) as P0. pose proof (big_current f r2 Hb) as B1. pose proof (PL_current src2 r2 P0) as P1.
  stc H c ra ra' Ha Hc0 Hce Hpc.
  destruct (_ && _ && _); [cbn [fst snd]; split; [reflexivity|left; exact Ha]|].
  pose proof (big_next f ra' P1 B1) as B2. pose proof (proj1 (next_W src2 ra' P1)) as P2.
  stn Ha ok ok' rb rb' HN. destruct HN as [(Eo & Hb2 & _)|(Eo1 & Eo2 & HT & _)].
  2:{ (* run 1 exhausted after the first name byte *)
      subst ok ok'. cbn [negb fst snd] in *. pose proof HT as (HE & HA & _). rewrite (A2_attrName_loop f rb' HA). cbn [negb].
      destruct (tq_sls f rb' (or_introl HA) B2) as (r' & Es & _). rewrite Es. cbn [negb fst snd]. split; [reflexivity|right; split; [exact HE|left; exact HA]]. }
  subst ok'. cbn [fst snd] in *. destruct ok; cbn [negb]; [|cbn [fst snd]; split; [reflexivity|left; exact Hb2]].
  pose proof (attrName_loop_prog src2 f rb' P2) as G3. pose proof (g_attrName_loop f rb rb' Hb2) as HA.
  destruct (attrName_loop f rb) as [cont r3]. destruct (attrName_loop f rb') as [cont' r3']. cbn [fst snd] in HA, G3.
  pose proof (big_prog f rb' r3' G3 B2) as B3.
  destruct HA as [(Ec & H3)|(Ec1 & Ec2 & HT)].
  2:{ subst cont cont'. cbn [negb fst snd]. pose proof HT as (HE & HA & _). destruct (tq_sls f r3' (or_introl HA) B3) as (r' & Es & _). rewrite Es. cbn [negb fst snd].
      split; [reflexivity|right; split; [exact HE|left; exact HA]]. }
  subst cont'. destruct cont; cbn [negb]; [|cbn [fst snd]; split; [reflexivity|left; exact H3]].
  pose proof (skipLinkSpace_prog src2 f r3' (proj1 G3)) as G4.
  destruct (g_skipLinkSpace src HL Hlast f r3 r3' (or_introl H3) B3) as [E4 R4].
  destruct (skipLinkSpace f r3) as [ok2 r4]. destruct (skipLinkSpace f r3') as [ok2' r4']. cbn [fst snd] in E4, R4, G4. subst ok2'.
  destruct ok2; cbn [negb]; [|cbn [fst snd]; split; [reflexivity|left; exact H3]].
  destruct R4 as [H4|[X _]]; [|discriminate X]. pose proof (big_prog f r3' r4' G4 B3) as B4.
  pose proof (big_current f r4' B4) as B5. pose proof (PL_current src2 r4' (proj1 G4)) as P5.
  stc H4 c2 r5 r5' H5 Hc0' Hce' Hpc'. destruct (negb (c2 =? 61)); [cbn [fst snd]; split; [reflexivity|left; exact H3]|].
  pose proof (big_next f r5' P5 B5) as B6. pose proof (proj1 (next_W src2 r5' P5)) as P6.
  stn H5 ok3 ok3' r6 r6' HN. destruct HN as [(Eo & H6 & _)|(Eo1 & Eo2 & HT & _)].
  2:{ subst ok3 ok3'. cbn [negb fst snd] in *. pose proof HT as (HE & HA & _). destruct (tq_sls f r6' (or_introl HA) B6) as (r' & Es & He2). rewrite Es. cbn [negb fst snd].
      split; [reflexivity|right; split; [exact HE|right; exact He2]]. }
  subst ok3'. cbn [fst snd] in *. destruct ok3; cbn [negb]; [|cbn [fst snd]; split; [reflexivity|left; exact H6]].
  pose proof (skipLinkSpace_prog src2 f r6' P6) as G7.
  destruct (g_skipLinkSpace src HL Hlast f r6 r6' (or_introl H6) B6) as [E7 R7].
  destruct (skipLinkSpace f r6) as [ok4 r7]. destruct (skipLinkSpace f r6') as [ok4' r7']. cbn [fst snd] in E7, R7, G7. subst ok4'.
  destruct ok4; cbn [negb].
  2:{ cbn [fst snd]. split; [reflexivity|]. destruct R7 as [R7|[_ R7]]; [left; exact R7|right; split; [apply R7|right; apply R7]]. }
  destruct R7 as [H7|[X _]]; [|discriminate X].
  stc H7 c3 r8 r8' H8 Hc0'' Hce'' Hpc''.
  destruct ((c3 =? 39) || (c3 =? 34)) eqn:Eq.
  - assert (Hq : c3 <> 10) by (intros ->; discriminate Eq).
    stn H8 ok5 ok5' r9 r9' HN. destruct HN as [(Eo & H9 & _)|(Eo1 & Eo2 & HT & _)].
    + subst ok5'. destruct ok5; cbn [negb]; [|cbn [fst snd]; split; [reflexivity|left; exact H9]].
      destruct (g_untilQuote f r9 r9' c3 H9 Hq) as [Eu Ru]. split; [exact Eu|apply Rel_URel, Ru].
    + subst ok5 ok5'. cbn [negb fst snd]. pose proof HT as (HE & HA & _). destruct (A2_untilQuote f r9' c3 HA Hq) as [F1 F2]. rewrite F1. split; [reflexivity|].
      right. split; [exact HE|]. destruct F2 as [F2|F2]; [rewrite F2; left; exact HA|right; exact F2].
  - destruct (isUnquotedAttributeValueChar c3); [|cbn [fst snd]; split; [reflexivity|left; exact H8]].
    cbn [fst snd]. split; [reflexivity|apply Rel_URel, g_unquoted_loop, H8].
Qed.

Lemma g_openTag_loop : forall f r1 r2, URel r1 r2 -> big f r2 -> fst (openTag_loop f r2) = fst (openTag_loop f r1).
Proof.
  induction f as [|f IH]; intros r1 r2 H Hb; [reflexivity|]. cbn [openTag_loop]. destruct H as [H|[HE HQ]].
  2:{ rewrite (E1_sls (S f) r1 HE). destruct (tq_sls (S f) r2 HQ Hb) as (r' & Es & _). rewrite Es. reflexivity. }
  pose proof (Rin_PL2 src HL Hlast r1 r2 H) as P0. destruct (Rin_pos src HL Hlast r1 r2 H) as [Ep0 _]. rewrite Ep0.
  pose proof (skipLinkSpace_prog src2 (S f) r2 P0) as G1.
  destruct (g_skipLinkSpace src HL Hlast (S f) r1 r2 (or_introl H) Hb) as [E1' R1].
  destruct (skipLinkSpace (S f) r1) as [ok ra]. destruct (skipLinkSpace (S f) r2) as [ok' ra']. cbn [fst snd] in E1', R1, G1. subst ok'.
  destruct ok; cbn [negb]; [|reflexivity]. destruct R1 as [Ha|[X _]]; [|discriminate X].
  pose proof (big_prog (S f) r2 ra' G1 Hb) as B1. pose proof (big_current (S f) ra' B1) as B2. pose proof (PL_current src2 ra' (proj1 G1)) as P2.
  pose proof (nu_current src2 ra') as Nc0. pose proof (pos_current ra') as Pc0.
  stc Ha c rb rb' Hb2 Hc0 Hce Hpc. cbn [snd] in Nc0, Pc0. destruct (Rin_pos src HL Hlast rb rb' Hb2) as [Epb _].
  destruct (c =? 47).
  - stn Hb2 ok2 ok2' rc rc' HN. destruct HN as [(Eo & Hc & _)|(Eo1 & Eo2 & HT & _)].
    + subst ok2'. rewrite (Rin_jumped src HL Hlast rc rc' Hc). destruct (negb ok2 || jumped rc); [reflexivity|].
      stc Hc c2 rd rd' Hd Hc0' Hce' Hpc'. destruct (negb (c2 =? 62)); [reflexivity|]. destruct (Rin_pos src HL Hlast rd rd' Hd) as [Epd _]. rewrite Epd. reflexivity.
    + subst ok2 ok2'. cbn [negb orb]. pose proof HT as (HE & HA & _). destruct (jumped rc'); [reflexivity|]. rewrite (A2_current src HL Hlast rc' HA). reflexivity.
  - rewrite Epb. destruct (c =? 62); [reflexivity|]. destruct (r_pos rb =? r_pos r1) eqn:Eqp; [reflexivity|].
    pose proof (parseHTMLAttribute_prog src2 (S f) rb' P2) as G3.
    destruct (g_parseHTMLAttribute (S f) rb rb' Hb2 B2) as [E3 R3].
    destruct (parseHTMLAttribute (S f) rb) as [ok3 r3]. destruct (parseHTMLAttribute (S f) rb') as [ok3' r3']. cbn [fst snd] in E3, R3, G3. subst ok3'.
    destruct ok3; cbn [negb]; [|reflexivity]. apply IH; [exact R3|].
    (* the white space before the attribute was not empty: the potential of run 2 went down *)
    apply Z.eqb_neq in Eqp. destruct (Rin_pos src HL Hlast ra ra' Ha) as [Epa _]. destruct G1 as (_ & Gp & Gn & Gs). destruct G3 as (_ & _ & G3n & _).
    assert (Hlt : r_pos r2 < r_pos ra') by lia. specialize (Gs Hlt). unfold big in *. lia.
Qed.

Lemma g_parseHTMLOpenTag f r1 r2 : Rin r1 r2 -> big f r2 -> fst (parseHTMLOpenTag f r2) = fst (parseHTMLOpenTag f r1).
Proof.
  intros H Hb. unfold parseHTMLOpenTag. pose proof (parseHTMLTagName_prog src2 f r2 (Rin_PL2 src HL Hlast r1 r2 H)) as G1.
  destruct (g_parseHTMLTagName f r1 r2 H) as [E1' R1]. destruct (parseHTMLTagName f r1) as [ok ra]. destruct (parseHTMLTagName f r2) as [ok' ra']. cbn [fst snd] in *. subst ok'.
  destruct ok; cbn [negb]; [|reflexivity]. apply g_openTag_loop; [apply Rel0_URel, R1|apply (big_prog f r2 ra' G1 Hb)].
Qed.
Lemma A2_parseHTMLTagName f r : A2 r -> parseHTMLTagName f r = (false, r).
Proof. intros H. unfold parseHTMLTagName. rewrite (A2_current src HL Hlast r H). reflexivity. Qed.
Lemma g_parseHTMLClosingTag f r1 r2 : Rin r1 r2 -> big f r2 -> fst (parseHTMLClosingTag f r2) = fst (parseHTMLClosingTag f r1).
Proof.
  intros H Hb. unfold parseHTMLClosingTag. pose proof (Rin_PL2 src HL Hlast r1 r2 H) as P0. pose proof (big_current f r2 Hb) as B1. pose proof (PL_current src2 r2 P0) as P1.
  stc H c ra ra' Ha Hc0 Hce Hpc. destruct (negb (c =? 47)); [reflexivity|].
  pose proof (big_next f ra' P1 B1) as B2. pose proof (proj1 (next_W src2 ra' P1)) as P2.
  stn Ha ok ok' rb rb' HN. destruct HN as [(Eo & Hb2 & _)|(Eo1 & Eo2 & HT & _)].
  2:{ subst ok ok'. cbn [negb orb fst snd] in *. destruct (jumped rb'); [reflexivity|]. rewrite (A2_parseHTMLTagName f rb' ltac:(apply HT)). reflexivity. }
  subst ok'. cbn [fst snd] in *. rewrite (Rin_jumped src HL Hlast rb rb' Hb2). destruct (negb ok || jumped rb); [reflexivity|].
  pose proof (parseHTMLTagName_prog src2 f rb' P2) as G3.
  destruct (g_parseHTMLTagName f rb rb' Hb2) as [E3 R3]. destruct (parseHTMLTagName f rb) as [ok2 r3]. destruct (parseHTMLTagName f rb') as [ok2' r3']. cbn [fst snd] in *. subst ok2'.
  destruct ok2; cbn [negb]; [|reflexivity]. pose proof (big_prog f rb' r3' G3 B2) as B3.
  destruct R3 as [H3|HT].
  2:{ rewrite (E1_sls f r3 (proj1 HT)). destruct (tq_sls f r3' (or_introl (proj1 (proj2 HT))) B3) as (r' & Es & _). rewrite Es. reflexivity. }
  destruct (g_skipLinkSpace src HL Hlast f r3 r3' (or_introl H3) B3) as [E4 R4].
  destruct (skipLinkSpace f r3) as [ok3 r4]. destruct (skipLinkSpace f r3') as [ok3' r4']. cbn [fst snd] in *. subst ok3'.
  destruct ok3; cbn [negb]; [|reflexivity]. destruct R4 as [H4|[X _]]; [|discriminate X].
  stc H4 c2 r5 r5' H5 Hc0' Hce' Hpc'. destruct (negb (c2 =? 62)); [reflexivity|]. destruct (Rin_pos src HL Hlast r5 r5' H5) as [E5 _]. rewrite E5. reflexivity.
Qed.

(* ---------------- parseHTMLTag (Inl3d) ---------------- *)
Lemma A2_ht_pi f r start : A2 r -> ht_pi f r start = nullSpan.
Proof.
  intros H. destruct f as [|f]; [reflexivity|]. cbn [ht_pi]. destruct (A2_cur r H) as [C1 C2]. rewrite C1, C2. change (10 =? 63) with false. cbn [negb].
  destruct (A2_next src HL Hlast r H) as (r' & En & _). rewrite En. reflexivity.
Qed.
Lemma g_ht_pi : forall f r1 r2 start, Rin r1 r2 -> ht_pi f r2 start = ht_pi f r1 start.
Proof.
  induction f as [|f IH]; intros r1 r2 start H; [reflexivity|]. cbn [ht_pi]. destruct (Rin_cur r1 r2 H) as (C1 & C2 & _). rewrite C1.
  destruct (negb (cur r1 =? 63)).
  - stn C2 ok ok' ra ra' HN. destruct HN as [(Eo & Ha & _)|(Eo1 & Eo2 & HT & _)].
    + subst ok'. destruct ok; cbn [negb]; [apply IH, Ha|reflexivity].
    + subst ok ok'. cbn [negb]. apply A2_ht_pi, HT.
  - stn C2 ok ok' ra ra' HN. destruct HN as [(Eo & Ha & _)|(Eo1 & Eo2 & HT & _)].
    + subst ok'. rewrite (Rin_jumped src HL Hlast ra ra' Ha). destruct (negb ok || jumped ra); [reflexivity|].
      destruct (Rin_cur ra ra' Ha) as (D1 & _ & _). rewrite D1. destruct (Rin_pos src HL Hlast ra ra' Ha) as [Ep _]. rewrite Ep.
      destruct (cur ra =? 62); [reflexivity|apply IH, Ha].
    + subst ok ok'. cbn [negb orb]. destruct (jumped ra'); [reflexivity|]. pose proof HT as (_ & HA & _). destruct (A2_cur ra' HA) as [D1 _]. rewrite D1.
      change (10 =? 62) with false. cbv iota. apply A2_ht_pi, HA.
Qed.
Lemma tail_ht_until f r1 r2 c : E1 r1 -> tailQ r2 -> c <> 0 -> c <> 10 -> ht_until f r1 c = None /\ ht_until f r2 c = None.
Proof.
  intros HE HQ N0 N10. destruct f as [|f]; [split; reflexivity|]. cbn [ht_until]. destruct (E1_cur r1 HE) as [C1 C2]. rewrite C1, C2.
  replace (0 =? c) with false by (symmetry; apply Z.eqb_neq; lia). rewrite (E1_next src HL Hlast r1 HE). split; [reflexivity|].
  destruct HQ as [HA|HE2].
  - destruct (A2_cur r2 HA) as [D1 D2]. rewrite D1, D2. replace (10 =? c) with false by (symmetry; apply Z.eqb_neq; lia).
    destruct (A2_next src HL Hlast r2 HA) as (r' & En & _). rewrite En. reflexivity.
  - destruct (E2_cur r2 HE2) as [D1 D2]. rewrite D1, D2. replace (0 =? c) with false by (symmetry; apply Z.eqb_neq; lia). rewrite (E2_next src HL Hlast r2 HE2). reflexivity.
Qed.
Definition OptR (x y : option reader) : Prop := match x, y with Some a, Some a' => Rin a a' | None, None => True | _, _ => False end.
Lemma g_ht_until : forall f r1 r2 c, Rin r1 r2 -> c <> 0 -> c <> 10 -> OptR (ht_until f r1 c) (ht_until f r2 c).
Proof.
  induction f as [|f IH]; intros r1 r2 c H N0 N10; [exact I|]. cbn [ht_until]. destruct (Rin_cur r1 r2 H) as (C1 & C2 & _). rewrite C1.
  destruct (cur r1 =? c); [exact C2|]. stn C2 ok ok' ra ra' HN. destruct HN as [(Eo & Ha & _)|(Eo1 & Eo2 & HT & _)].
  - subst ok'. destruct ok; cbn [negb]; [apply IH; assumption|exact I].
  - subst ok ok'. cbn [negb]. pose proof HT as (HE & HA & _). rewrite (proj2 (tail_ht_until f ra ra' c HE (or_introl HA) N0 N10)). exact I.
Qed.

Lemma hbp_app10 : forall p x, ~ In 10 p -> hasBytePrefix (x ++ [10]) p = hasBytePrefix x p.
Proof.
  induction p as [|a p IH]; intros x Hn; [destruct x; reflexivity|]. destruct x as [|b x]; cbn [app hasBytePrefix].
  - replace (a =? 10) with false by (symmetry; apply Z.eqb_neq; intros ->; apply Hn; left; reflexivity). reflexivity.
  - rewrite IH; [reflexivity|]. intros Hi. apply Hn. right. exact Hi.
Qed.
Lemma len_sub_le0 (l : bytes) a b : len (sub l a b) <= Z.max 0 (b - a).
Proof. unfold sub, upto, len. rewrite firstn_length. lia. Qed.
Lemma Rin_rem r1 r2 : Rin r1 r2 ->
  Rin (snd (remainingNodeBytes r1)) (snd (remainingNodeBytes r2)) /\
  (fst (remainingNodeBytes r2) = fst (remainingNodeBytes r1) \/ fst (remainingNodeBytes r2) = fst (remainingNodeBytes r1) ++ [10]) /\
  len (fst (remainingNodeBytes r1)) <= L - r_pos r1.
Proof.
  intros H. pose proof (Rin_curNode src HL Hlast r1 r2 H) as (Hn & Hr & Hin). unfold remainingNodeBytes.
  destruct (Rin_pos src HL Hlast r1 r2 H) as [Ep Hlt]. assert (Es1 : r_src r1 = src) by apply H. assert (Es2 : r_src r2 = src2) by apply H.
  destruct (curNode r1) as [n ra]. destruct (curNode r2) as [n' ra']. cbn [fst snd] in Hn, Hr, Hin. subst n'.
  destruct n as [node|]; cbn [option_map fst snd]; [|split; [exact Hr|split; [left; reflexivity|change (len (@nil Z)) with 0; lia]]]. split; [exact Hr|].
  rewrite Es1, Es2, Ep. destruct (Hin node eq_refl) as ((G1 & G2 & G3 & G4) & Hpos & _). split.
  - rewrite bumpI_end. destruct (ikind node =? IndentKind); [apply g_sub_app10_any|].
    unfold bump. destruct (Z.eqb_spec (iend node) L) as [Ee|Ee]; [|apply g_sub_app10_any].
    rewrite Ee. assert (Esub : sub src (r_pos r1) (L + 1) = sub src (r_pos r1) L)
      by (unfold sub, upto; rewrite !firstn_all2; [reflexivity| |]; unfold from_; rewrite skipn_length; unfold len; lia).
    destruct (g_sub_app10_any src (r_pos r1) (L + 1)) as [E|E]; rewrite E, Esub; [left|right]; reflexivity.
  - pose proof (len_sub_le0 src (r_pos r1) (iend node)). lia.
Qed.
Lemma A2_rem r : A2 r -> remainingNodeBytes r = ([10], r).
Proof.
  intros H. destruct (A2_curNode src HL Hlast r H) as (n & Ec & Ek & Ee & Es). destruct H as (A & B & _). unfold remainingNodeBytes. rewrite Ec, A, B, Ee.
  f_equal. unfold sub. replace (L + 1 - L) with 1 by lia. unfold from_, upto. rewrite skipn_app, skipn_all2 by (unfold len; lia).
  replace (Z.to_nat L - length src)%nat with O by (unfold len; lia). reflexivity.
Qed.
Lemma A2_ht_comment f r start : A2 r -> ht_comment f r start = nullSpan.
Proof.
  intros H. destruct f as [|f]; [reflexivity|]. cbn [ht_comment]. rewrite (A2_rem r H). cbn [hasBytePrefix Z.eqb andb]. change (45 =? 10) with false. cbv iota.
  destruct (A2_next src HL Hlast r H) as (r' & En & _). rewrite En. reflexivity.
Qed.
Lemma A2_ht_cdata f r start : A2 r -> ht_cdata f r start = nullSpan.
Proof.
  intros H. destruct f as [|f]; [reflexivity|]. cbn [ht_cdata]. rewrite (A2_rem r H). cbn [hasBytePrefix]. change (93 =? 10) with false. cbv iota.
  destruct (A2_next src HL Hlast r H) as (r' & En & _). rewrite En. reflexivity.
Qed.
Lemma hbp_len : forall p x, hasBytePrefix x p = true -> len p <= len x.
Proof.
  induction p as [|a p IH]; intros x H; [unfold len; cbn; lia|]. destruct x as [|b x]; [discriminate H|]. cbn [hasBytePrefix] in H. apply andb_true_iff in H. destruct H as [_ H].
  specialize (IH x H). unfold len in *. cbn [length]. lia.
Qed.
(* two steps forward from a position with at least three bytes left in the node: the positions of the two runs agree *)
Lemma two_next_pos r1 r2 : Rin r1 r2 -> r_pos r1 < L - 1 ->
  r_pos (snd (next (snd (next r2)))) = r_pos (snd (next (snd (next r1)))).
Proof.
  intros H Hp. stn H ok ok' ra ra' HN. destruct HN as [(Eo & Ha & _)|(_ & _ & _ & Hq & _)]; [|lia]. cbn [snd].
  pose proof (Rel_next src HL Hlast ra ra' (or_introl Ha)) as [Hb|[Hb|Hb]].
  - apply (Rin_pos src HL Hlast _ _ Hb).
  - destruct (T0_pos src HL Hlast _ _ Hb) as [P1 P2]. rewrite P1, P2. reflexivity.
  - exfalso. destruct (Rin_next src HL Hlast ra ra' Ha) as [(_ & Hc & _)|(_ & _ & Hc & _)].
    + destruct Hb as [(_ & Pb & _) _]. destruct (Rin_pos src HL Hlast _ _ Hc). lia.
    + destruct Hb as [_ (_ & Pb & _)]. destruct (T0_pos src HL Hlast _ _ Hc). lia.
Qed.
Lemma g_ht_comment : forall f r1 r2 start, Rin r1 r2 -> ht_comment f r2 start = ht_comment f r1 start.
Proof.
  induction f as [|f IH]; intros r1 r2 start H; [reflexivity|]. cbn [ht_comment]. destruct (Rin_rem r1 r2 H) as (Hr & Er & Hl).
  pose proof (pos_remaining r1) as Pr.
  destruct (remainingNodeBytes r1) as [rem ra]. destruct (remainingNodeBytes r2) as [rem' ra']. cbn [fst snd] in *.
  assert (E3 : hasBytePrefix rem' [45; 45; 62] = hasBytePrefix rem [45; 45; 62]) by (destruct Er as [->| ->]; [reflexivity|apply hbp_app10; intros [X|[X|[X|[]]]]; discriminate X]).
  assert (E2' : hasBytePrefix rem' [45; 45] = hasBytePrefix rem [45; 45]) by (destruct Er as [->| ->]; [reflexivity|apply hbp_app10; intros [X|[X|[]]]; discriminate X]).
  rewrite E3, E2'. destruct (hasBytePrefix rem [45; 45; 62]) eqn:Eh.
  - apply hbp_len in Eh. change (len [45; 45; 62]) with 3 in Eh. rewrite (two_next_pos ra ra' Hr) by lia. reflexivity.
  - destruct (hasBytePrefix rem [45; 45]); [reflexivity|]. stn Hr ok ok' rb rb' HN. destruct HN as [(Eo & Hb & _)|(Eo1 & Eo2 & HT & _)].
    + subst ok'. destruct ok; cbn [negb]; [apply IH, Hb|reflexivity].
    + subst ok ok'. cbn [negb]. apply A2_ht_comment, HT.
Qed.
Lemma g_ht_cdata : forall f r1 r2 start, Rin r1 r2 -> ht_cdata f r2 start = ht_cdata f r1 start.
Proof.
  induction f as [|f IH]; intros r1 r2 start H; [reflexivity|]. cbn [ht_cdata]. destruct (Rin_rem r1 r2 H) as (Hr & Er & Hl).
  pose proof (pos_remaining r1) as Pr.
  destruct (remainingNodeBytes r1) as [rem ra]. destruct (remainingNodeBytes r2) as [rem' ra']. cbn [fst snd] in *.
  assert (E3 : hasBytePrefix rem' [93; 93; 62] = hasBytePrefix rem [93; 93; 62]) by (destruct Er as [->| ->]; [reflexivity|apply hbp_app10; intros [X|[X|[X|[]]]]; discriminate X]).
  rewrite E3. destruct (hasBytePrefix rem [93; 93; 62]) eqn:Eh.
  - apply hbp_len in Eh. change (len [93; 93; 62]) with 3 in Eh. rewrite (two_next_pos ra ra' Hr) by lia. reflexivity.
  - stn Hr ok ok' rb rb' HN. destruct HN as [(Eo & Hb & _)|(Eo1 & Eo2 & HT & _)].
    + subst ok'. destruct ok; cbn [negb]; [apply IH, Hb|reflexivity].
    + subst ok ok'. cbn [negb]. apply A2_ht_cdata, HT.
Qed.

Definition OptU (x y : option reader) : Prop :=
  match x, y with Some a, Some a' => Rin a a' | None, None => True | None, Some a' => A2 a' | Some _, None => False end.
Lemma g_nextNok : forall n r1 r2, Rin r1 r2 -> OptU (nextNok n r1) (nextNok n r2).
Proof.
  induction n as [|n IH]; intros r1 r2 H; [exact H|]. cbn [nextNok]. stn H ok ok' ra ra' HN. destruct HN as [(Eo & Ha & _)|(Eo1 & Eo2 & HT & _)].
  - subst ok'. destruct ok; [apply IH, Ha|exact I].
  - subst ok ok'. pose proof HT as (_ & HA & _). destruct n as [|n]; [exact HA|]. cbn [nextNok]. destruct (A2_next src HL Hlast ra' HA) as (r' & En & _). rewrite En. exact I.
Qed.
Lemma cond1_app10 (rem : bytes) : (0 <? len (rem ++ [10])) && isASCIILetter (at_ (rem ++ [10]) 0) = (0 <? len rem) && isASCIILetter (at_ rem 0).
Proof. destruct rem as [|a r]; [reflexivity|]. cbn [app]. unfold len. cbn [length]. change (at_ (a :: r ++ [10]) 0) with a. change (at_ (a :: r) 0) with a. destruct (Z.ltb_spec 0 (Z.of_nat (S (length (r ++ [10]))))); destruct (Z.ltb_spec 0 (Z.of_nat (S (length r)))); try lia; reflexivity. Qed.
Lemma A2_parseHTMLOpenTag f r : A2 r -> fst (parseHTMLOpenTag f r) = -1.
Proof. intros H. unfold parseHTMLOpenTag. rewrite (A2_parseHTMLTagName f r H). reflexivity. Qed.

Lemma g_parseHTMLTag f r1 r2 : Rin r1 r2 -> big f r2 -> parseHTMLTag f r2 = parseHTMLTag f r1.
Proof.
  intros H Hb. unfold parseHTMLTag. pose proof (Rin_PL2 src HL Hlast r1 r2 H) as P0. destruct (Rin_cur r1 r2 H) as (C1 & C2 & _). rewrite C1.
  destruct (negb (cur r1 =? 60)); [reflexivity|]. destruct (Rin_pos src HL Hlast r1 r2 H) as [Ep0 _]. rewrite Ep0.
  pose proof (big_current f r2 Hb) as B1. pose proof (PL_current src2 r2 P0) as P1.
  pose proof (big_next f _ P1 B1) as B2. pose proof (proj1 (next_W src2 _ P1)) as P2.
  stn C2 ok ok' ra ra' HN. destruct HN as [(Eo & Ha & _)|(Eo1 & Eo2 & HT & _)].
  2:{ subst ok ok'. cbn [negb orb fst snd] in *. destruct (jumped ra'); [reflexivity|]. pose proof HT as (_ & HA & _). destruct (A2_cur ra' HA) as [D1 D2]. rewrite D1, D2.
      change (10 =? 63) with false. change (10 =? 33) with false. change (10 =? 47) with false. cbv iota.
      pose proof (A2_parseHTMLOpenTag f ra' HA) as Eo. destruct (parseHTMLOpenTag f ra') as [e x]. cbn [fst] in Eo. subst e. reflexivity. }
  subst ok'. cbn [fst snd] in *. rewrite (Rin_jumped src HL Hlast ra ra' Ha). destruct (negb ok || jumped ra); [reflexivity|].
  destruct (Rin_cur ra ra' Ha) as (D1 & D2 & _). rewrite D1. pose proof (big_current f ra' B2) as B3. pose proof (PL_current src2 ra' P2) as P3.
  destruct (cur ra =? 63).
  { stn D2 ok2 ok2' rb rb' HN. destruct HN as [(Eo & Hb2 & _)|(Eo1 & Eo2 & HT & _)].
    - subst ok2'. destruct ok2; cbn [negb]; [apply g_ht_pi, Hb2|reflexivity].
    - subst ok2 ok2'. cbn [negb]. apply A2_ht_pi, HT. }
  destruct (cur ra =? 33).
  { stn D2 ok2 ok2' rb rb' HN. destruct HN as [(Eo & Hb2 & _)|(Eo1 & Eo2 & HT & _)].
    2:{ subst ok2 ok2'. cbn [negb orb]. destruct (jumped rb'); [reflexivity|]. rewrite (A2_rem rb' ltac:(apply HT)). reflexivity. }
    subst ok2'. rewrite (Rin_jumped src HL Hlast rb rb' Hb2). destruct (negb ok2 || jumped rb); [reflexivity|].
    destruct (Rin_rem rb rb' Hb2) as (Hr & Er & Hl). destruct (remainingNodeBytes rb) as [rem r3]. destruct (remainingNodeBytes rb') as [rem' r3']. cbn [fst snd] in *.
    assert (Ec1 : (0 <? len rem') && isASCIILetter (at_ rem' 0) = (0 <? len rem) && isASCIILetter (at_ rem 0)) by (destruct Er as [->| ->]; [reflexivity|apply cond1_app10]).
    assert (Ec2 : hasBytePrefix rem' [45; 45] = hasBytePrefix rem [45; 45]) by (destruct Er as [->| ->]; [reflexivity|apply hbp_app10; intros [X|[X|[]]]; discriminate X]).
    assert (Ec3 : hasBytePrefix rem' [91;67;68;65;84;65;91] = hasBytePrefix rem [91;67;68;65;84;65;91])
      by (destruct Er as [->| ->]; [reflexivity|apply hbp_app10; intros [X|[X|[X|[X|[X|[X|[X|[]]]]]]]]; discriminate X]).
    rewrite Ec1, Ec2, Ec3. destruct ((0 <? len rem) && isASCIILetter (at_ rem 0)).
    { pose proof (Rel_next src HL Hlast r3 r3' (or_introl Hr)) as [R4|R4].
      - pose proof (g_ht_until f _ _ 62 R4 ltac:(discriminate) ltac:(discriminate)) as HU.
        destruct (ht_until f (snd (next r3)) 62) as [a|]; destruct (ht_until f (snd (next r3')) 62) as [a'|]; cbn [OptR] in HU; try contradiction; [|reflexivity].
        destruct (Rin_pos src HL Hlast a a' HU) as [Ea _]. rewrite Ea. reflexivity.
      - assert (HE : E1 (snd (next r3))) by (destruct R4 as [R4|R4]; apply R4).
        assert (HQ : tailQ (snd (next r3'))) by (destruct R4 as [R4|R4]; [left|right]; apply R4).
        destruct (tail_ht_until f _ _ 62 HE HQ ltac:(discriminate) ltac:(discriminate)) as [U1 U2]. rewrite U1, U2. reflexivity. }
    destruct (hasBytePrefix rem [45; 45]).
    { stn Hr ok3 ok3' r4 r4' HN. cbn [snd]. destruct HN as [(Eo & H4 & _)|(Eo1 & Eo2 & HT & _)].
      2:{ pose proof HT as (HE & HA & _). rewrite (E1_next src HL Hlast r4 HE). destruct (A2_next src HL Hlast r4' HA) as (r' & En & _). rewrite En. reflexivity. }
      stn H4 ok4 ok4' r5 r5' HN. destruct HN as [(Eo2 & H5 & _)|(Eo1 & Eo2 & HT & _)].
      2:{ subst ok4 ok4'. cbn [negb orb]. destruct (jumped r5'); [reflexivity|]. rewrite (A2_rem r5' ltac:(apply HT)). cbn [hasBytePrefix Z.eqb]. change (62 =? 10) with false. change (45 =? 10) with false. cbn [andb orb].
          apply A2_ht_comment, HT. }
      subst ok4'. rewrite (Rin_jumped src HL Hlast r5 r5' H5). destruct (negb ok4 || jumped r5); [reflexivity|].
      destruct (Rin_rem r5 r5' H5) as (Hr6 & Er6 & _). destruct (remainingNodeBytes r5) as [ts r6]. destruct (remainingNodeBytes r5') as [ts' r6']. cbn [fst snd] in *.
      assert (Et : hasBytePrefix ts' [62] || hasBytePrefix ts' [45; 62] = hasBytePrefix ts [62] || hasBytePrefix ts [45; 62]).
      { destruct Er6 as [->| ->]; [reflexivity|]. rewrite !hbp_app10; [reflexivity|intros [X|[X|[]]]; discriminate X|intros [X|[]]; discriminate X]. }
      rewrite Et. clear Et. destruct (hasBytePrefix ts [62] || hasBytePrefix ts [45; 62]); [reflexivity|apply g_ht_comment, Hr6]. }
    destruct (hasBytePrefix rem _); [|reflexivity].
    pose proof (g_nextNok 7 r3 r3' Hr) as HK. destruct (nextNok 7 r3) as [a|]; destruct (nextNok 7 r3') as [a'|]; cbn [OptU] in HK; try contradiction.
    - apply g_ht_cdata, HK.
    - apply A2_ht_cdata, HK.
    - reflexivity. }
  destruct (cur ra =? 47).
  { pose proof (g_parseHTMLClosingTag f _ _ D2 B3) as E. destruct (parseHTMLClosingTag f (snd (current ra))) as [e x]. destruct (parseHTMLClosingTag f (snd (current ra'))) as [e' x']. cbn [fst] in E. subst e'. reflexivity. }
  pose proof (g_parseHTMLOpenTag f _ _ D2 B3) as E. destruct (parseHTMLOpenTag f (snd (current ra))) as [e x]. destruct (parseHTMLOpenTag f (snd (current ra'))) as [e' x']. cbn [fst] in E. subst e'. reflexivity.
Qed.

(* ---------------- parseInlineLink ---------------- *)
Lemma u_ld_angle : forall f start r1 r2, Rin r1 r2 ->
  fst (ld_angle f r2 start) = fst (ld_angle f r1 start) /\ URel (snd (ld_angle f r1 start)) (snd (ld_angle f r2 start)).
Proof.
  induction f as [|f IH]; intros start r1 r2 H; [cbn [ld_angle fst snd]; split; [reflexivity|left; exact H]|].
  cbn [ld_angle]. stn H ok ok' ra ra' HN. destruct HN as [(Eo & Ha & _)|(Eo1 & Eo2 & HT & _)].
  2:{ subst ok ok'. cbn [negb]. pose proof HT as (HE & HA & _). rewrite (A2_current src HL Hlast ra' HA). change ((10 =? 13) || (10 =? 10)) with true. cbv iota.
      cbn [fst snd]. split; [reflexivity|right; split; [exact HE|left; exact HA]]. }
  subst ok'. destruct (negb ok); [cbn [fst snd]; split; [reflexivity|left; exact Ha]|].
  stc Ha c rb rb' Hb Hc0 Hce Hpc. destruct (_ || _); [cbn [fst snd]; split; [reflexivity|left; exact Hb]|].
  destruct (c =? 92).
  - stn Hb ok2 ok2' rc rc' HN. destruct HN as [(Eo & Hc & _)|(Eo1 & Eo2 & HT & _)].
    2:{ subst ok2 ok2'. cbn [negb]. pose proof HT as (HE & HA & _). rewrite (A2_current src HL Hlast rc' HA). change ((10 =? 10) || (10 =? 13)) with true. cbv iota.
        cbn [fst snd]. split; [reflexivity|right; split; [exact HE|left; exact HA]]. }
    subst ok2'. destruct (negb ok2); [cbn [fst snd]; split; [reflexivity|left; exact Hc]|].
    stc Hc c2 rd rd' Hd Hc0' Hce' Hpc'. destruct (_ || _); [cbn [fst snd]; split; [reflexivity|left; exact Hd]|]. apply IH, Hd.
  - destruct (c =? 62); [|apply IH, Hb]. stn Hb ok2 ok2' rc rc' HN. cbn [fst snd].
    destruct HN as [(_ & Hc & _)|(_ & _ & HT & _)].
    + destruct (Rin_prev src HL Hlast rc rc' Hc) as [P1 P2]. rewrite P1. split; [reflexivity|left; exact Hc].
    + destruct (T0_prev src HL Hlast rc rc' HT) as [P1 P2]. rewrite P1. split; [reflexivity|right; split; [apply HT|left; apply HT]].
Qed.
Lemma u_parseLinkDestination f r1 r2 : Rin r1 r2 ->
  fst (parseLinkDestination f r2) = fst (parseLinkDestination f r1) /\ URel (snd (parseLinkDestination f r1)) (snd (parseLinkDestination f r2)).
Proof.
  intros H. unfold parseLinkDestination. stc H c ra ra' Ha Hc0 Hce Hpc.
  destruct (Rin_pos src HL Hlast ra ra' Ha) as [Pa Pa']. rewrite Pa.
  destruct (c =? 60); [apply u_ld_angle, Ha|].
  destruct (_ && _ && _); [|cbn [fst snd]; split; [reflexivity|left; exact Ha]].
  pose proof (g_ld_bare src HL Hlast f 0 ra ra' Ha) as Hb. destruct (Rel0_pos src HL Hlast _ _ Hb) as [Pb Pb']. cbn [fst snd]. rewrite Pb.
  split; [reflexivity|apply Rel0_URel, Hb].
Qed.
Lemma A2_lt_loop_rd f r start term : A2 r -> tailQ (snd (lt_loop f r start term)).
Proof.
  intros H. destruct f as [|f]; [left; exact H|]. cbn [lt_loop]. destruct (A2_next src HL Hlast r H) as (r' & En & He & _). rewrite En. cbn [negb snd]. right. exact He.
Qed.
Lemma u_lt_loop : forall f start term r1 r2, term <> 10 -> Rin r1 r2 ->
  fst (lt_loop f r2 start term) = fst (lt_loop f r1 start term) /\ URel (snd (lt_loop f r1 start term)) (snd (lt_loop f r2 start term)).
Proof.
  induction f as [|f IH]; intros start term r1 r2 Ht H; [cbn [lt_loop fst snd]; split; [reflexivity|left; exact H]|].
  cbn [lt_loop]. stn H ok ok' ra ra' HN. destruct HN as [(Eo & Ha & _)|(Eo1 & Eo2 & HT & _)].
  2:{ subst ok ok'. cbn [negb]. pose proof HT as (HE & HA & _). rewrite (A2_current src HL Hlast ra' HA). change (10 =? 92) with false. cbv iota.
      replace (10 =? term) with false by (symmetry; apply Z.eqb_neq; congruence).
      pose proof (A2_lt_loop src HL Hlast f ra' start term HA) as E. pose proof (A2_lt_loop_rd f ra' start term HA) as Q.
      destruct (lt_loop f ra' start term) as [sp rr]. cbn [fst snd] in *. subst sp. split; [reflexivity|right; split; assumption]. }
  subst ok'. destruct (negb ok); [cbn [fst snd]; split; [reflexivity|left; exact Ha]|].
  stc Ha c rb rb' Hb Hc0 Hce Hpc.
  destruct (c =? 92).
  - stn Hb ok2 ok2' rc rc' HN. destruct HN as [(Eo & Hc & _)|(Eo1 & Eo2 & HT & _)].
    2:{ subst ok2 ok2'. cbn [negb]. pose proof HT as (HE & HA & _).
        pose proof (A2_lt_loop src HL Hlast f rc' start term HA) as E. pose proof (A2_lt_loop_rd f rc' start term HA) as Q.
        destruct (lt_loop f rc' start term) as [sp rr]. cbn [fst snd] in *. subst sp. split; [reflexivity|right; split; assumption]. }
    subst ok2'. destruct (negb ok2); [cbn [fst snd]; split; [reflexivity|left; exact Hc]|]. apply IH; assumption.
  - destruct (c =? term); [|apply IH; assumption]. stn Hb ok2 ok2' rc rc' HN. cbn [fst snd].
    destruct HN as [(_ & Hc & _)|(_ & _ & HT & _)].
    + destruct (Rin_prev src HL Hlast rc rc' Hc) as [P1 P2]. rewrite P1. split; [reflexivity|left; exact Hc].
    + destruct (T0_prev src HL Hlast rc rc' HT) as [P1 P2]. rewrite P1. split; [reflexivity|right; split; [apply HT|left; apply HT]].
Qed.
Lemma u_parseLinkTitle f r1 r2 : URel r1 r2 ->
  fst (parseLinkTitle f r2) = fst (parseLinkTitle f r1) /\ URel (snd (parseLinkTitle f r1)) (snd (parseLinkTitle f r2)).
Proof.
  intros [H|[HE HQ]]; unfold parseLinkTitle.
  - stc H c ra ra' Ha Hc0 Hce Hpc.
    destruct ((c =? 39) || (c =? 34) || (c =? 40)) eqn:Eq; cbn [negb]; [|cbn [fst snd]; split; [reflexivity|left; exact Ha]].
    destruct (Rin_pos src HL Hlast ra ra' Ha) as [Pa Pa']. rewrite Pa. apply u_lt_loop; [|exact Ha].
    destruct (Z.eqb_spec c 40); [discriminate|]. intros ->. discriminate Eq.
  - rewrite (E1_current src HL Hlast r1 HE). destruct HQ as [HA|HE2].
    + rewrite (A2_current src HL Hlast r2 HA). cbn [fst snd]. split; [reflexivity|right; split; [exact HE|left; exact HA]].
    + rewrite (E2_current src HL Hlast r2 HE2). cbn [fst snd]. split; [reflexivity|right; split; [exact HE|right; exact HE2]].
Qed.
Lemma u_sls f r1 r2 : URel r1 r2 -> big f r2 ->
  fst (skipLinkSpace f r2) = fst (skipLinkSpace f r1) /\ URel (snd (skipLinkSpace f r1)) (snd (skipLinkSpace f r2)) /\
  (fst (skipLinkSpace f r1) = true -> Rin (snd (skipLinkSpace f r1)) (snd (skipLinkSpace f r2))).
Proof.
  intros [H|[HE HQ]] Hb.
  - destruct (g_skipLinkSpace src HL Hlast f r1 r2 (or_introl H) Hb) as [E R]. split; [exact E|]. split.
    + destruct R as [R|[_ R]]; [left; exact R|right; split; [apply R|right; apply R]].
    + intros Ht. destruct R as [R|[X _]]; [exact R|rewrite Ht in X; discriminate X].
  - rewrite (E1_sls f r1 HE). destruct (tq_sls f r2 HQ Hb) as (r' & Es & He2). rewrite Es. cbn [fst snd]. split; [reflexivity|]. split; [right; split; [exact HE|right; exact He2]|discriminate].
Qed.
Lemma u_cur41 r1 r2 : URel r1 r2 -> (cur r2 =? 41) = (cur r1 =? 41) /\ ((cur r1 =? 41) = true -> r_pos r2 = r_pos r1).
Proof.
  intros [H|[HE HQ]].
  - destruct (Rin_cur r1 r2 H) as (C1 & _ & _). rewrite C1. split; [reflexivity|intros _; apply (Rin_pos src HL Hlast r1 r2 H)].
  - destruct (E1_cur r1 HE) as [C1 _]. rewrite C1. destruct HQ as [HA|HE2].
    + destruct (A2_cur r2 HA) as [D1 _]. rewrite D1. split; [reflexivity|discriminate].
    + destruct (E2_cur r2 HE2) as [D1 _]. rewrite D1. split; [reflexivity|discriminate].
Qed.
Lemma URel_PL2 r1 r2 : URel r1 r2 -> PL src2 r2.
Proof. intros [H|[_ HQ]]; [apply (Rin_PL2 src HL Hlast r1 r2 H)|apply tq_PL, HQ]. Qed.
Lemma g_pilBody f r1 r2 start : Rin r1 r2 -> big f r2 -> pilBody f r2 start = pilBody f r1 start.
Proof.
  intros H Hb. unfold pilBody. cbv zeta. pose proof (Rin_PL2 src HL Hlast r1 r2 H) as P0.
  pose proof (skipLinkSpace_prog src2 f r2 P0) as G1. destruct (u_sls f r1 r2 (or_introl H) Hb) as (E1' & _ & A1).
  destruct (skipLinkSpace f r1) as [ok ra]. destruct (skipLinkSpace f r2) as [ok' ra']. cbn [fst snd] in *. subst ok'.
  destruct ok; cbn [negb]; [|reflexivity]. specialize (A1 eq_refl). pose proof (big_prog f r2 ra' G1 Hb) as B1.
  pose proof (parseLinkDestination_prog src2 f ra' (proj1 G1)) as G2. destruct (u_parseLinkDestination f ra ra' A1) as [E2' R2].
  destruct (parseLinkDestination f ra) as [[dspan dtext] rb]. destruct (parseLinkDestination f ra') as [[dspan' dtext'] rb']. cbn [fst snd] in *. inversion E2'; subst dspan' dtext'. clear E2'.
  pose proof (big_prog f ra' rb' G2 B1) as B2.
  assert (H3 : fst (if spanValid dspan then skipLinkSpace f rb' else (true, rb')) = fst (if spanValid dspan then skipLinkSpace f rb else (true, rb)) /\
               URel (snd (if spanValid dspan then skipLinkSpace f rb else (true, rb))) (snd (if spanValid dspan then skipLinkSpace f rb' else (true, rb'))) /\
               big f (snd (if spanValid dspan then skipLinkSpace f rb' else (true, rb')))).
  { destruct (spanValid dspan).
    - destruct (u_sls f rb rb' R2 B2) as (A & B & _). split; [exact A|split; [exact B|]]. apply (big_prog f rb' _ (skipLinkSpace_prog src2 f rb' (proj1 G2)) B2).
    - cbn [fst snd]. tauto. }
  destruct H3 as (E3 & R3 & B3). destruct (if spanValid dspan then skipLinkSpace f rb else (true, rb)) as [ok2 rc]. destruct (if spanValid dspan then skipLinkSpace f rb' else (true, rb')) as [ok2' rc']. cbn [fst snd] in *. subst ok2'.
  destruct ok2; cbn [negb]; [|reflexivity].
  pose proof (parseLinkTitle_prog src2 f rc' (URel_PL2 rc rc' R3)) as G4. destruct (u_parseLinkTitle f rc rc' R3) as [E4 R4].
  destruct (parseLinkTitle f rc) as [[tspan ttext] rd]. destruct (parseLinkTitle f rc') as [[tspan' ttext'] rd']. cbn [fst snd] in *. inversion E4; subst tspan' ttext'. clear E4.
  pose proof (big_prog f rc' rd' G4 B3) as B4.
  assert (H5 : fst (if spanValid tspan then skipLinkSpace f rd' else (true, rd')) = fst (if spanValid tspan then skipLinkSpace f rd else (true, rd)) /\
               URel (snd (if spanValid tspan then skipLinkSpace f rd else (true, rd))) (snd (if spanValid tspan then skipLinkSpace f rd' else (true, rd')))).
  { destruct (spanValid tspan); [destruct (u_sls f rd rd' R4 B4) as (A & B & _); tauto|cbn [fst snd]; tauto]. }
  destruct H5 as (E5 & R5). destruct (if spanValid tspan then skipLinkSpace f rd else (true, rd)) as [ok3 re]. destruct (if spanValid tspan then skipLinkSpace f rd' else (true, rd')) as [ok3' re']. cbn [fst snd] in *. subst ok3'.
  destruct ok3; cbn [negb]; [|reflexivity]. destruct (u_cur41 re re' R5) as [C1 C2]. rewrite C1. destruct (cur re =? 41); cbn [negb]; [|reflexivity]. rewrite (C2 eq_refl). reflexivity.
Qed.
End SB.
