(* LabelNormEntries.v -- label_norm_spans under the boolean entry conditions that the block layer establishes for the
   inline entries of every block (IFBase.spW, InlineSpans.kindsOK / indentsOK / linesOK), plus closed examples showing
   that the remaining side conditions cannot be dropped, and instances on entries produced by parseBlocks (T60). *)
From Coq Require Import List ZArith Lia Bool.
Import ListNotations.
Require Import Base Tables Utf8 Tree Rdr Link Collect Driver Inl3e Render SliceBase ShapesR IFBase SpanRdr InlineSpans LabelNorm RefSliceFold LabelNormSpans.
Open Scope Z_scope.

Lemma kindsOK_okK3 U : kindsOK U = true -> Forall okK3 U.
Proof.
  unfold kindsOK. intros H. apply Forall_forall. intros u Hu. rewrite forallb_forall in H. specialize (H u Hu).
  apply orb_true_iff in H. destruct H as [H|H]; apply Z.eqb_eq in H; unfold okK3; tauto.
Qed.
Lemma indentsOK_width U : indentsOK U = true -> forall u, In u U -> ikind u = IndentKind -> iend u = istart u + 1.
Proof.
  unfold indentsOK. intros H u Hu Hk. rewrite forallb_forall in H. specialize (H u Hu). rewrite Hk in H.
  change (IndentKind =? IndentKind) with true in H. cbv iota in H. apply andb_true_iff in H. destruct H as [H _].
  apply Z.eqb_eq in H. exact H.
Qed.
Lemma linesOK_cons2 src x y l : linesOK src (x :: y :: l) =
  (istart x <? iend x) && (if ikind x =? IndentKind then true else isEOLb (at_ src (iend x - 1))) && linesOK src (y :: l).
Proof. reflexivity. Qed.
Lemma linesOK_nonlast src : forall a u b, linesOK src (a ++ u :: b) = true -> b <> [] -> istart u < iend u.
Proof.
  induction a as [|x a IH]; intros u b H Hb.
  - destruct b as [|v b]; [contradiction|]. cbn [app] in H. rewrite linesOK_cons2 in H.
    apply andb_true_iff in H. destruct H as [H _]. apply andb_true_iff in H. destruct H as [H _]. apply Z.ltb_lt in H. exact H.
  - cbn [app] in H. destruct (a ++ u :: b) as [|y l] eqn:E; [destruct a; discriminate E|].
    rewrite linesOK_cons2 in H. apply andb_true_iff in H. destruct H as [_ H]. rewrite <- E in H. apply (IH u b H Hb).
Qed.

(* the theorem for the entries of a block *)
Theorem label_norm_entries : forall src U s e (fuel : nat),
  spW src U = true -> kindsOK U = true -> indentsOK U = true -> linesOK src U = true ->
  (s < e -> exists i, In i U /\ istart i <= s < iend i) ->          (* the label starts inside an entry *)
  (s < e -> exists j, In j U /\ e <= iend j) ->                     (* and does not end beyond the entries *)
  (forall j p, In j U -> istart j <= p < iend j -> s <= p < e -> at_ src p <> 0) ->
  len src + ibudget U < Z.of_nat fuel ->
  transformLinkReferenceSpan fuel src U s e = norm_label (labelBytes src U s e).
Proof.
  intros src U s e fuel W K I L HS HE NZ Hfuel.
  destruct (Z.le_gt_cases e s) as [Les|Lse].
  { unfold transformLinkReferenceSpan, norm_label. rewrite tlr_loop_done by (cbn [r_pos newReader]; lia).
    rewrite (labelBytes_empty_range src U s e Les). reflexivity. }
  apply label_norm_spans_fuel; try assumption; [apply kindsOK_okK3, K|].
  intros j Hj Hlt. split; [|apply (indentsOK_width U I j Hj)].
  destruct (in_split j U Hj) as (a & b & E). destruct b as [|v b].
  - (* the last entry: it reaches e *)
    destruct (HE ltac:(lia)) as (x & Hx & Ex). rewrite E in Hx. apply in_app_or in Hx. destruct Hx as [Hx|[<-|[]]]; [|lia].
    rewrite E in W. destruct (spW_pre_sorted src a j [] W x Hx). lia.
  - rewrite E in L. apply (linesOK_nonlast src a j (v :: b) L). discriminate.
Qed.
Print Assumptions label_norm_entries.

(* ---- all side conditions as one boolean ---- *)
Definition labelRangeOK (src : bytes) (U : list inline) (s e : Z) : bool :=
  ((e <=? s) || (existsb (fun i => (istart i <=? s) && (s <? iend i)) U && existsb (fun j => e <=? iend j) U)) &&
  forallb (fun j => forallb (fun c => negb (c =? 0)) (sub src (Z.max s (istart j)) (Z.min e (iend j)))) U.
Definition entriesWF (src : bytes) (U : list inline) : bool := spW src U && kindsOK U && indentsOK U && linesOK src U.

Theorem label_norm_entries_b : forall src U s e (fuel : nat),
  entriesWF src U = true -> labelRangeOK src U s e = true -> len src + ibudget U < Z.of_nat fuel ->
  transformLinkReferenceSpan fuel src U s e = norm_label (labelBytes src U s e).
Proof.
  intros src U s e fuel HW HR Hfuel. unfold entriesWF in HW. apply andb_true_iff in HW. destruct HW as [HW L].
  apply andb_true_iff in HW. destruct HW as [HW I]. apply andb_true_iff in HW. destruct HW as [W K].
  unfold labelRangeOK in HR. apply andb_true_iff in HR. destruct HR as [HSE HN].
  assert (HSE' : s < e -> (exists i, In i U /\ istart i <= s < iend i) /\ (exists j, In j U /\ e <= iend j)).
  { intros Hlt. apply orb_true_iff in HSE. destruct HSE as [H|H]; [apply Z.leb_le in H; lia|].
    apply andb_true_iff in H. destruct H as [H1 H2]. apply existsb_exists in H1. apply existsb_exists in H2.
    destruct H1 as (i & Hi & Hi'). destruct H2 as (j & Hj & Hj'). apply andb_true_iff in Hi'. destruct Hi' as [A B].
    apply Z.leb_le in A. apply Z.ltb_lt in B. apply Z.leb_le in Hj'.
    split; [exists i; split; [exact Hi|lia]|exists j; split; assumption]. }
  apply label_norm_entries; try assumption; try (intros Hlt; apply HSE', Hlt).
  intros j p Hj Hp Hse. rewrite forallb_forall in HN. specialize (HN j Hj).
  destruct (spW_valid src U W j Hj) as (V0 & V1 & V2).
  assert (HF : Forall (fun c => c <> 0) (sub src (Z.max s (istart j)) (Z.min e (iend j)))).
  { apply Forall_forall. intros c Hc. rewrite forallb_forall in HN. specialize (HN c Hc). apply negb_true_iff in HN.
    apply Z.eqb_neq in HN. exact HN. }
  apply (Forall_sub_at (fun c => c <> 0) src (Z.min e (iend j)) ltac:(lia) _ (Z.max s (istart j)) eq_refl ltac:(lia) HF). lia.
Qed.
Print Assumptions label_norm_entries_b.

(* ---- the full-reference path of parseEndBracket normalises the collected label nodes with transformLinkReference ---- *)
Corollary transformLinkReference_norm : forall src nodes (fuel : nat) f l,
  hd_error nodes = Some f -> hd_error (rev nodes) = Some l ->
  spW src nodes = true -> Forall okK3 nodes ->
  (forall j, In j nodes -> istart j < iend j /\ (ikind j = IndentKind -> iend j = istart j + 1)) ->
  (forall j p, In j nodes -> istart j <= p < iend j -> at_ src p <> 0) ->
  len src + ibudget nodes < Z.of_nat fuel ->
  transformLinkReference fuel src nodes = norm_label (labelBytes src nodes (istart f) (iend l)).
Proof.
  intros src nodes fuel f l Hf Hl W K NE NZ Hfuel. unfold transformLinkReference.
  destruct nodes as [|f' r]; [discriminate|]. cbn [hd_error] in Hf. inversion Hf; subst f'.
  destruct (rev (f :: r)) as [|l' rr] eqn:Er; [discriminate|]. cbn [hd_error] in Hl. inversion Hl; subst l'.
  assert (Hlin : In l (f :: r)) by (apply in_rev; rewrite Er; left; reflexivity).
  apply label_norm_spans_fuel; try assumption.
  - intros j Hj _. apply NE, Hj.
  - intros _. exists f. split; [left; reflexivity|]. destruct (NE f (or_introl eq_refl)). lia.
  - intros _. exists l. split; [exact Hlin|lia].
  - intros j p Hj Hp _. apply (NZ j p Hj Hp).
Qed.
Print Assumptions transformLinkReference_norm.
