From Coq Require Import List ZArith Lia Bool.
Import ListNotations.
Require Import Base Tree Rdr Link.
Open Scope Z_scope.

(* parseHTMLTagName (parse_html.go:190) *)
Fixpoint tagName_loop (fuel : nat) (r : reader) : reader :=
  match fuel with
  | O => r
  | S f =>
    let '(c, r1) := current r in
    if isASCIILetter c || isASCIIDigit c || (c =? 45) then
      let '(ok, r2) := next r1 in if ok then tagName_loop f r2 else r2
    else r1
  end.
Definition parseHTMLTagName (fuel : nat) (r : reader) : bool * reader :=
  let '(c, r1) := current r in
  if negb (isASCIILetter c) then (false, r1) else
  let '(ok, r2) := next r1 in
  if negb ok then (true, r2) else (true, tagName_loop fuel r2).

Definition isUnquotedAttributeValueChar (c : Z) : bool :=
  negb (isSpaceTabOrLineEnding c) && negb ((c =? 34) || (c =? 39) || (c =? 61) || (c =? 60) || (c =? 62) || (c =? 96)).
Definition isAttrNameChar (c : Z) := isASCIILetter c || isASCIIDigit c || (c =? 95) || (c =? 46) || (c =? 58) || (c =? 45).

Fixpoint attrName_loop (fuel : nat) (r : reader) : bool * reader :=   (* false = reader exhausted (returns true from parseHTMLAttribute) *)
  match fuel with
  | O => (true, r)
  | S f =>
    let '(c, r1) := current r in
    if isAttrNameChar c then
      let '(ok, r2) := next r1 in if ok then attrName_loop f r2 else (false, r2)
    else (true, r1)
  end.
Fixpoint untilQuote (fuel : nat) (r : reader) (q : Z) : bool * reader :=
  match fuel with
  | O => (false, r)
  | S f =>
    let '(c, r1) := current r in
    if c =? q then (true, snd (next r1)) else
    let '(ok, r2) := next r1 in if ok then untilQuote f r2 q else (false, r2)
  end.
Fixpoint unquoted_loop (fuel : nat) (r : reader) : reader :=
  match fuel with
  | O => r
  | S f => let '(ok, r1) := next r in
           if negb ok then r1 else
           let '(c, r2) := current r1 in
           if isUnquotedAttributeValueChar c then unquoted_loop f r2 else r2
  end.

(* parseHTMLAttribute (parse_html.go:220) *)
Definition parseHTMLAttribute (fuel : nat) (r : reader) : bool * reader :=
  let '(c, r1) := current r in
  if negb (isASCIILetter c) && negb (c =? 95) && negb (c =? 58) then (false, r1) else
  let '(ok, r2) := next r1 in
  if negb ok then (true, r2) else
  let '(cont, r3) := attrName_loop fuel r2 in
  if negb cont then (true, r3) else
  let prevState := r3 in
  let '(ok2, r4) := skipLinkSpace fuel r3 in
  if negb ok2 then (true, prevState) else
  let '(c2, r5) := current r4 in
  if negb (c2 =? 61) then (true, prevState) else
  let '(ok3, r6) := next r5 in
  if negb ok3 then (false, r6) else
  let '(ok4, r7) := skipLinkSpace fuel r6 in
  if negb ok4 then (false, r7) else
  let '(c3, r8) := current r7 in
  if (c3 =? 39) || (c3 =? 34) then
    let '(ok5, r9) := next r8 in
    if negb ok5 then (false, r9) else untilQuote fuel r9 c3
  else if isUnquotedAttributeValueChar c3 then (true, unquoted_loop fuel r8)
  else (false, r8).

(* parseHTMLOpenTag (parse_html.go:140): end or -1 *)
Fixpoint openTag_loop (fuel : nat) (r : reader) : Z * reader :=
  match fuel with
  | O => (-1, r)
  | S f =>
    let beforeSpace := r_pos r in
    let '(ok, r1) := skipLinkSpace fuel r in
    if negb ok then (-1, r1) else
    let '(c, r2) := current r1 in
    if c =? 47 then
      let '(ok2, r3) := next r2 in
      if negb ok2 || jumped r3 then (-1, r3) else
      let '(c2, r4) := current r3 in
      if negb (c2 =? 62) then (-1, r4) else
      let e := r_pos r4 + 1 in (e, snd (next r4))
    else if c =? 62 then
      let e := r_pos r2 + 1 in (e, snd (next r2))
    else if r_pos r2 =? beforeSpace then (-1, r2) else
      let '(ok3, r3) := parseHTMLAttribute fuel r2 in
      if negb ok3 then (-1, r3) else openTag_loop f r3
  end.
Definition parseHTMLOpenTag (fuel : nat) (r : reader) : Z * reader :=
  let '(ok, r1) := parseHTMLTagName fuel r in
  if negb ok then (-1, r1) else openTag_loop fuel r1.

(* parseHTMLClosingTag (parse_html.go:171) *)
Definition parseHTMLClosingTag (fuel : nat) (r : reader) : Z * reader :=
  let '(c, r1) := current r in
  if negb (c =? 47) then (-1, r1) else
  let '(ok, r2) := next r1 in
  if negb ok || jumped r2 then (-1, r2) else
  let '(ok2, r3) := parseHTMLTagName fuel r2 in
  if negb ok2 then (-1, r3) else
  let '(ok3, r4) := skipLinkSpace fuel r3 in
  if negb ok3 then (-1, r4) else
  let '(c2, r5) := current r4 in
  if negb (c2 =? 62) then (-1, r5) else
  let e := r_pos r5 + 1 in (e, snd (next r5)).

(* htmlBlockConditions (parse_html.go:300) *)
Definition s_ (l : list Z) := l.
Definition starters1 : list bytes :=
  [[60;112;114;101]; [60;115;99;114;105;112;116]; [60;115;116;121;108;101]; [60;116;101;120;116;97;114;101;97]].
Definition enders1 : list bytes :=
  [[60;47;112;114;101;62]; [60;47;115;99;114;105;112;116;62]; [60;47;115;116;121;108;101;62]; [60;47;116;101;120;116;97;114;101;97;62]].
(* the 62 tag names of start condition 6, as generated from the atom table in the real model *)
Definition ascii (s : list Z) := s.
Definition starters6 : list bytes :=
  [ [97;100;100;114;101;115;115]; [97;114;116;105;99;108;101]; [97;115;105;100;101]; [98;97;115;101]; [98;97;115;101;102;111;110;116];
    [98;108;111;99;107;113;117;111;116;101]; [98;111;100;121]; [99;97;112;116;105;111;110]; [99;101;110;116;101;114]; [99;111;108];
    [99;111;108;103;114;111;117;112]; [100;100]; [100;101;116;97;105;108;115]; [100;105;97;108;111;103]; [100;105;114]; [100;105;118];
    [100;108]; [100;116]; [102;105;101;108;100;115;101;116]; [102;105;103;99;97;112;116;105;111;110]; [102;105;103;117;114;101];
    [102;111;111;116;101;114]; [102;111;114;109]; [102;114;97;109;101]; [102;114;97;109;101;115;101;116]; [104;49]; [104;50]; [104;51];
    [104;52]; [104;53]; [104;54]; [104;101;97;100]; [104;101;97;100;101;114]; [104;114]; [104;116;109;108]; [105;102;114;97;109;101];
    [108;101;103;101;110;100]; [108;105]; [108;105;110;107]; [109;97;105;110]; [109;101;110;117]; [109;101;110;117;105;116;101;109];
    [110;97;118]; [110;111;102;114;97;109;101;115]; [111;108]; [111;112;116;103;114;111;117;112]; [111;112;116;105;111;110]; [112];
    [112;97;114;97;109]; [115;101;99;116;105;111;110]; [115;111;117;114;99;101]; [115;117;109;109;97;114;121]; [116;97;98;108;101];
    [116;98;111;100;121]; [116;100]; [116;102;111;111;116]; [116;104]; [116;104;101;97;100]; [116;105;116;108;101]; [116;114];
    [116;114;97;99;107]; [117;108] ].

Definition afterStarter (rest : bytes) (allowSlashGt : bool) : bool :=
  match rest with
  | [] => true
  | c :: _ => isSpaceTabOrLineEnding c || (c =? 62) || (allowSlashGt && hasBytePrefix rest [47; 62])
  end.
Definition startCond1 (line : bytes) : bool :=
  existsb (fun st => hasCIPrefix line st && afterStarter (from_ line (len st)) false) starters1.
Definition startCond6 (line : bytes) : bool :=
  let l := if hasBytePrefix line [60; 47] then Some (from_ line 2) else if hasBytePrefix line [60] then Some (from_ line 1) else None in
  match l with
  | None => false
  | Some l => existsb (fun st => hasCIPrefix l st && afterStarter (from_ l (len st)) true) starters6
  end.
Definition startCond7 (line : bytes) : bool :=
  if negb (hasBytePrefix line [60]) then false else
  let fake := Inl UnparsedKind 1 (len line) 0 [] [] in
  let r := newReader line [fake] 1 in
  let fuel := (2 * length line + 10)%nat in
  let '(e, r1) := if hasBytePrefix line [60; 47] then parseHTMLClosingTag fuel r else parseHTMLOpenTag fuel r in
  if e <? 0 then false else negb (fst (skipLinkSpace fuel r1)).
Definition hasHTMLDeclarationPrefix (b : bytes) := hasBytePrefix b [60; 33] && (3 <=? len b) && isASCIILetter (at_ b 2).

Definition cdataPrefix := [60;33;91;67;68;65;84;65;91]. Definition cdataSuffix := [93;93;62].
Definition commentPrefix := [60;33;45;45]. Definition commentSuffix := [45;45;62].
Definition piPrefix := [60;63]. Definition piSuffix := [63;62].

Definition htmlStart (i : Z) (line : bytes) : bool :=
  if i =? 0 then startCond1 line
  else if i =? 1 then hasBytePrefix line commentPrefix
  else if i =? 2 then hasBytePrefix line piPrefix
  else if i =? 3 then hasHTMLDeclarationPrefix line
  else if i =? 4 then hasBytePrefix line cdataPrefix
  else if i =? 5 then startCond6 line
  else startCond7 line.
Definition htmlEnd (i : Z) (line : bytes) : bool :=
  if i =? 0 then existsb (containsCI line) enders1
  else if i =? 1 then contains line commentSuffix
  else if i =? 2 then contains line piSuffix
  else if i =? 3 then contains line [62]
  else if i =? 4 then contains line cdataSuffix
  else isBlankLine line.
Definition htmlCanInterrupt (i : Z) : bool := negb (i =? 6).
