(* MainTok.v — the WHATWG data-state tokenizer fragment of /tmp/proof/T14/Tokenizer.v, ported over Base.bytes,
   with the part of Filter.v it depends on (byte classes, take_while, cm_name) and the tokenizer-side
   theorems of TokProof.v (start_tag_origin, take_name_tokrest, prefix_closed and its instances).
   The definitions are textually those of Filter.v / Tokenizer.v; bridging lemmas to the main development's
   own names (isASCIILetter, toLowerASCII, Render.takeName, Render.cmName) are at the end. *)
From Coq Require Import List ZArith Lia Bool.
Import ListNotations.
Require Import Base Render.
Open Scope Z_scope.

(* ---- from Filter.v ---- *)
Definition is_upper (c : Z) := (65 <=? c) && (c <=? 90).
Definition is_alpha (c : Z) := ((65 <=? c) && (c <=? 90)) || ((97 <=? c) && (c <=? 122)).
Definition is_digit (c : Z) := (48 <=? c) && (c <=? 57).
Definition is_name_char (c : Z) := is_alpha c || is_digit c || (c =? 45).
Definition lower (c : Z) := if is_upper c then c + 32 else c.

Fixpoint take_while (f : Z -> bool) (l : bytes) : bytes :=
  match l with [] => [] | c :: r => if f c then c :: take_while f r else [] end.
Fixpoint drop_while (f : Z -> bool) (l : bytes) : bytes :=
  match l with [] => [] | c :: r => if f c then drop_while f r else l end.

Definition cm_name (l : bytes) : bytes :=
  match l with
  | c :: _ => if is_alpha c then take_while is_name_char l else []
  | [] => []
  end.

Definition LT : Z := 60.

(* ---- from Tokenizer.v ---- *)
Definition is_ws (c : Z) := (c =? 9) || (c =? 10) || (c =? 12) || (c =? 13) || (c =? 32).
Definition GT : Z := 62.
Definition SOL : Z := 47.
Definition is_delim (c : Z) := is_ws c || (c =? SOL) || (c =? GT).
Definition lower_nul (c : Z) : bytes := if c =? 0 then [239; 191; 189] else [lower c].

Inductive cst := CStart | CStartDash | CMain | CLT | CLTBang | CLTBangDash | CLTBangDashDash | CEndDash | CEnd | CEndBang.

Inductive tstate :=
| SData | STagOpen | SEndTagOpen
| STagName (start : bool) (acc : bytes)
| SBeforeAttrName (start : bool) (name : bytes)
| SAttrName (start : bool) (name : bytes)
| SAfterAttrName (start : bool) (name : bytes)
| SBeforeAttrValue (start : bool) (name : bytes)
| SAttrValDQ (start : bool) (name : bytes)
| SAttrValSQ (start : bool) (name : bytes)
| SAttrValUnq (start : bool) (name : bytes)
| SAfterAttrValQ (start : bool) (name : bytes)
| SSelfClosing (start : bool) (name : bytes)
| SBogus
| SMarkupDecl (seen : bytes)
| SComment (c : cst)
| SDoctype.

Definition emit (start : bool) (name : bytes) : list bytes := if start then [name] else [].

Definition data_step (c : Z) : tstate := if c =? LT then STagOpen else SData.

Definition before_attr_name (s : bool) (n : bytes) (c : Z) : tstate * list bytes :=
  if is_ws c then (SBeforeAttrName s n, [])
  else if c =? SOL then (SSelfClosing s n, [])
  else if c =? GT then (SData, emit s n)
  else (SAttrName s n, []).

(* comment sub-machine; "reconsume" is resolved by calling the target state's handler *)
Definition c_main (c : Z) : tstate :=
  if c =? LT then SComment CLT else if c =? 45 then SComment CEndDash else SComment CMain.
Definition c_enddash (c : Z) : tstate := if c =? 45 then SComment CEnd else c_main c.
Definition c_end (c : Z) : tstate :=
  if c =? GT then SData else if c =? 33 then SComment CEndBang else if c =? 45 then SComment CEnd else c_main c.
Definition comment_step (s : cst) (c : Z) : tstate :=
  match s with
  | CStart => if c =? 45 then SComment CStartDash else if c =? GT then SData else c_main c
  | CStartDash => if c =? 45 then SComment CEnd else if c =? GT then SData else c_main c
  | CMain => c_main c
  | CLT => if c =? 33 then SComment CLTBang else if c =? LT then SComment CLT else c_main c
  | CLTBang => if c =? 45 then SComment CLTBangDash else c_main c
  | CLTBangDash => if c =? 45 then SComment CLTBangDashDash else c_enddash c
  | CLTBangDashDash => c_end c
  | CEndDash => c_enddash c
  | CEnd => c_end c
  | CEndBang => if c =? 45 then SComment CEndDash else if c =? GT then SData else c_main c
  end.

Fixpoint is_prefix_by (eq : Z -> Z -> bool) (a b : bytes) : bool :=
  match a, b with
  | [], _ => true
  | x :: a', y :: b' => eq x y && is_prefix_by eq a' b'
  | _ :: _, [] => false
  end.
Definition kw_doctype : bytes := [100; 111; 99; 116; 121; 112; 101].       (* "doctype" *)
Definition kw_cdata : bytes := [91; 67; 68; 65; 84; 65; 91].                (* "[CDATA[" *)
Definition eq_ci (x y : Z) := lower x =? y.

Definition markup_step (seen : bytes) (c : Z) : tstate :=
  let seen' := seen ++ [c] in
  if is_prefix_by Z.eqb seen' [45; 45] then (if (length seen' =? 2)%nat then SComment CStart else SMarkupDecl seen')
  else if is_prefix_by eq_ci seen' kw_doctype then (if (length seen' =? 7)%nat then SDoctype else SMarkupDecl seen')
  else if is_prefix_by Z.eqb seen' kw_cdata then (if (length seen' =? 7)%nat then SBogus else SMarkupDecl seen')
  else if c =? GT then SData else SBogus.

Definition step (st : tstate) (c : Z) : tstate * list bytes :=
  match st with
  | SData => (data_step c, [])
  | STagOpen =>
    if c =? 33 then (SMarkupDecl [], [])
    else if c =? SOL then (SEndTagOpen, [])
    else if is_alpha c then (STagName true (lower_nul c), [])
    else if c =? 63 then (SBogus, [])
    else (data_step c, [])
  | SEndTagOpen =>
    if is_alpha c then (STagName false (lower_nul c), [])
    else if c =? GT then (SData, [])
    else (SBogus, [])
  | STagName s acc =>
    if is_ws c then (SBeforeAttrName s acc, [])
    else if c =? SOL then (SSelfClosing s acc, [])
    else if c =? GT then (SData, emit s acc)
    else (STagName s (acc ++ lower_nul c), [])
  | SBeforeAttrName s n => before_attr_name s n c
  | SAttrName s n =>
    if is_ws c then (SAfterAttrName s n, [])
    else if c =? SOL then (SSelfClosing s n, [])
    else if c =? GT then (SData, emit s n)
    else if c =? 61 then (SBeforeAttrValue s n, [])
    else (SAttrName s n, [])
  | SAfterAttrName s n =>
    if is_ws c then (SAfterAttrName s n, [])
    else if c =? SOL then (SSelfClosing s n, [])
    else if c =? 61 then (SBeforeAttrValue s n, [])
    else if c =? GT then (SData, emit s n)
    else (SAttrName s n, [])
  | SBeforeAttrValue s n =>
    if is_ws c then (SBeforeAttrValue s n, [])
    else if c =? 34 then (SAttrValDQ s n, [])
    else if c =? 39 then (SAttrValSQ s n, [])
    else if c =? GT then (SData, emit s n)
    else (SAttrValUnq s n, [])
  | SAttrValDQ s n => if c =? 34 then (SAfterAttrValQ s n, []) else (SAttrValDQ s n, [])
  | SAttrValSQ s n => if c =? 39 then (SAfterAttrValQ s n, []) else (SAttrValSQ s n, [])
  | SAttrValUnq s n =>
    if is_ws c then (SBeforeAttrName s n, [])
    else if c =? GT then (SData, emit s n)
    else (SAttrValUnq s n, [])
  | SAfterAttrValQ s n => before_attr_name s n c
  | SSelfClosing s n => if c =? GT then (SData, emit s n) else before_attr_name s n c
  | SBogus => ((if c =? GT then SData else SBogus), [])
  | SMarkupDecl seen => (markup_step seen c, [])
  | SComment s => (comment_step s c, [])
  | SDoctype => ((if c =? GT then SData else SDoctype), [])
  end.

(* start-tag names emitted while reading l from state st *)
Fixpoint run (st : tstate) (l : bytes) : list bytes :=
  match l with
  | [] => []
  | c :: r => let '(st', e) := step st c in e ++ run st' r
  end.
Definition start_tags (l : bytes) : list bytes := run SData l.

(* the name a tag opened at the head of r will have *)
Definition tokrest (r : bytes) : bytes := flat_map lower_nul (take_while (fun c => negb (is_delim c)) r).
Definition pend_open (r : bytes) : list bytes :=
  match r with c :: _ => if is_alpha c then [tokrest r] else [] | [] => [] end.
(* all names a '<'+letter in l could give rise to *)
Fixpoint cands (l : bytes) : list bytes :=
  match l with
  | [] => []
  | c :: r => (if c =? LT then pend_open r else []) ++ cands r
  end.

(* ---- from TokProof.v (tokenizer side) ---- *)
Definition pend (st : tstate) (r : bytes) : list bytes :=
  match st with
  | STagOpen => pend_open r
  | STagName true acc => [acc ++ tokrest r]
  | SBeforeAttrName true n | SAttrName true n | SAfterAttrName true n | SBeforeAttrValue true n
  | SAttrValDQ true n | SAttrValSQ true n | SAttrValUnq true n | SAfterAttrValQ true n
  | SSelfClosing true n => [n]
  | _ => []
  end.

Lemma delim_cases c : is_delim c = true ->
  c = 9 \/ c = 10 \/ c = 12 \/ c = 13 \/ c = 32 \/ c = 47 \/ c = 62.
Proof.
  unfold is_delim, is_ws, SOL, GT. rewrite !orb_true_iff, !Z.eqb_eq. tauto.
Qed.

Lemma alpha_not_delim c : is_alpha c = true -> is_delim c = false.
Proof.
  intros Ha. destruct (is_delim c) eqn:E; [|reflexivity].
  apply delim_cases in E. destruct E as [->|[->|[->|[->|[->|[->| ->]]]]]]; discriminate.
Qed.

Lemma alpha_not_lt c : is_alpha c = true -> (c =? LT) = false.
Proof. intros Ha. destruct (Z.eqb_spec c LT) as [->|]; [discriminate|reflexivity]. Qed.

Lemma tokrest_delim c r : is_delim c = true -> tokrest (c :: r) = [].
Proof. intros H. unfold tokrest. cbn [take_while]. rewrite H. reflexivity. Qed.

Lemma tokrest_nondelim c r : is_delim c = false -> tokrest (c :: r) = lower_nul c ++ tokrest r.
Proof. intros H. unfold tokrest. cbn [take_while]. rewrite H. reflexivity. Qed.

Lemma incl_nil_l' {A} (l : list A) : incl [] l. Proof. intros x []. Qed.

Ltac triv := first [ apply incl_nil_l' | apply incl_refl | (apply incl_appl; apply incl_refl) | (apply incl_appr; apply incl_refl)
                   | (let x := fresh in let H := fresh in intros x H; cbn [In app] in *; rewrite ?in_app_iff in *; cbn [In] in *; tauto) ].

Lemma before_attr_ok s n c r X :
  let '(st', e) := before_attr_name s n c in incl (e ++ pend st' r) (emit s n ++ X).
Proof.
  unfold before_attr_name.
  destruct (is_ws c); [|destruct (c =? SOL); [|destruct (c =? GT)]];
    destruct s; cbn [emit pend app]; triv.
Qed.

Lemma step_ok st c r :
  let '(st', e) := step st c in
  incl (e ++ pend st' r) (pend st (c :: r) ++ (if c =? LT then pend_open r else [])).
Proof.
  destruct st; cbn [step].
  - unfold data_step. destruct (c =? LT); cbn [pend app]; triv.
  - cbn [pend]. change (pend_open (c :: r)) with (if is_alpha c then [tokrest (c :: r)] else []).
    destruct (c =? 33); [cbn [pend app]; triv|].
    destruct (c =? SOL); [cbn [pend app]; triv|].
    destruct (is_alpha c) eqn:Ea.
    + cbn [pend app]. rewrite (tokrest_nondelim c r (alpha_not_delim c Ea)). triv.
    + destruct (c =? 63); [cbn [pend app]; triv|].
      unfold data_step. destruct (c =? LT); cbn [pend app]; triv.
  - destruct (is_alpha c); [cbn [pend app]; triv|]. destruct (c =? GT); cbn [pend app]; triv.
  - destruct (is_ws c) eqn:E1.
    { destruct start; cbn [pend app]; [|triv].
      rewrite tokrest_delim by (unfold is_delim; rewrite E1; reflexivity). rewrite app_nil_r. triv. }
    destruct (c =? SOL) eqn:E2.
    { destruct start; cbn [pend app]; [|triv].
      rewrite tokrest_delim by (unfold is_delim; rewrite E1, E2; reflexivity). rewrite app_nil_r. triv. }
    destruct (c =? GT) eqn:E3.
    { destruct start; cbn [pend emit app]; [|triv].
      rewrite tokrest_delim by (unfold is_delim; rewrite E1, E2, E3; reflexivity). rewrite app_nil_r. triv. }
    destruct start; cbn [pend app]; [|triv].
    rewrite tokrest_nondelim by (unfold is_delim; rewrite E1, E2, E3; reflexivity).
    rewrite app_assoc. triv.
  - pose proof (before_attr_ok start name c r (if c =? LT then pend_open r else [])) as H.
    destruct (before_attr_name start name c) as [st' e]. destruct start; cbn [pend emit app] in *; exact H.
  - destruct (is_ws c); [|destruct (c =? SOL); [|destruct (c =? GT); [|destruct (c =? 61)]]];
      destruct start; cbn [pend emit app]; triv.
  - destruct (is_ws c); [|destruct (c =? SOL); [|destruct (c =? 61); [|destruct (c =? GT)]]];
      destruct start; cbn [pend emit app]; triv.
  - destruct (is_ws c); [|destruct (c =? 34); [|destruct (c =? 39); [|destruct (c =? GT)]]];
      destruct start; cbn [pend emit app]; triv.
  - destruct (c =? 34); destruct start; cbn [pend app]; triv.
  - destruct (c =? 39); destruct start; cbn [pend app]; triv.
  - destruct (is_ws c); [|destruct (c =? GT)]; destruct start; cbn [pend emit app]; triv.
  - pose proof (before_attr_ok start name c r (if c =? LT then pend_open r else [])) as H.
    destruct (before_attr_name start name c) as [st' e]. destruct start; cbn [pend emit app] in *; exact H.
  - destruct (c =? GT) eqn:E.
    { destruct start; cbn [pend emit app]; triv. }
    pose proof (before_attr_ok start name c r (if c =? LT then pend_open r else [])) as H.
    destruct (before_attr_name start name c) as [st' e]. destruct start; cbn [pend emit app] in *; exact H.
  - destruct (c =? GT); cbn [pend app]; triv.
  - unfold markup_step.
    repeat match goal with |- context [if ?b then _ else _] => destruct b end; cbn [pend app]; triv.
  - destruct c0; cbn [comment_step]; unfold c_end, c_enddash, c_main;
      repeat match goal with |- context [if ?b then _ else _] => destruct b end; cbn [pend app]; triv.
  - destruct (c =? GT); cbn [pend app]; triv.
Qed.

Theorem run_incl : forall l st, incl (run st l) (pend st l ++ cands l).
Proof.
  induction l as [|c r IH]; intros st; cbn [run]; [apply incl_nil_l'|].
  pose proof (step_ok st c r) as Hs. destruct (step st c) as [st' e].
  cbn [cands].
  intros x Hx. apply in_app_or in Hx. destruct Hx as [Hx|Hx].
  - specialize (Hs x (in_or_app _ _ _ (or_introl Hx))).
    apply in_app_or in Hs. destruct Hs as [Hs|Hs]; apply in_or_app; [left; assumption|].
    right. apply in_or_app. left. assumption.
  - apply IH in Hx. apply in_app_or in Hx. destruct Hx as [Hx|Hx].
    + specialize (Hs x (in_or_app _ _ _ (or_intror Hx))).
      apply in_app_or in Hs. destruct Hs as [Hs|Hs]; apply in_or_app; [left; assumption|].
      right. apply in_or_app. left. assumption.
    + apply in_or_app. right. apply in_or_app. right. assumption.
Qed.

Lemma cands_in l n : In n (cands l) ->
  exists pre c post, l = pre ++ LT :: c :: post /\ is_alpha c = true /\ n = tokrest (c :: post).
Proof.
  induction l as [|a r IH]; cbn [cands]; [intros []|].
  intros H. apply in_app_or in H. destruct H as [H|H].
  - destruct (Z.eqb_spec a LT) as [->|]; [|destruct H].
    unfold pend_open in H. destruct r as [|c post]; [destruct H|].
    destruct (is_alpha c) eqn:Ea; [|destruct H]. destruct H as [<-|[]].
    exists [], c, post. repeat split; assumption.
  - destruct (IH H) as (pre & c & post & -> & Ha & Hn). exists (a :: pre), c, post. repeat split; assumption.
Qed.

(* Every start tag the tokenizer emits was opened by a '<' followed by a letter. *)
Corollary start_tag_origin l n : In n (start_tags l) ->
  exists pre c post, l = pre ++ LT :: c :: post /\ is_alpha c = true /\ n = tokrest (c :: post).
Proof. intros H. apply run_incl in H. cbn [pend app] in H. apply cands_in. exact H. Qed.

Lemma name_char_facts c : is_name_char c = true ->
  is_delim c = false /\ lower_nul c = [lower c] /\ is_name_char (lower c) = true.
Proof.
  intros H. split; [|split].
  - destruct (is_delim c) eqn:E; [|reflexivity]. apply delim_cases in E.
    destruct E as [->|[->|[->|[->|[->|[->| ->]]]]]]; discriminate.
  - unfold lower_nul. destruct (Z.eqb_spec c 0) as [->|]; [discriminate|reflexivity].
  - unfold lower. destruct (is_upper c) eqn:Eu; [|assumption].
    unfold is_upper in Eu. apply andb_true_iff in Eu. destruct Eu as [E1 E2].
    apply Z.leb_le in E1, E2. unfold is_name_char, is_alpha.
    replace (97 <=? c + 32) with true by (symmetry; apply Z.leb_le; lia).
    replace (c + 32 <=? 122) with true by (symmetry; apply Z.leb_le; lia).
    rewrite orb_true_r. reflexivity.
Qed.

Lemma non_name_head c : is_name_char c = false -> is_delim c = false ->
  match lower_nul c with x :: _ => is_name_char x = false | [] => True end.
Proof.
  intros Hn Hd. unfold lower_nul. destruct (Z.eqb_spec c 0); [reflexivity|].
  unfold lower. destruct (is_upper c) eqn:Eu; [|assumption].
  unfold is_name_char, is_alpha in Hn. unfold is_upper in Eu. rewrite Eu in Hn. discriminate.
Qed.

(* The tokenizer's name extends the CommonMark tag name. *)
Lemma take_name_tokrest l :
  take_while is_name_char (tokrest l) = map lower (take_while is_name_char l).
Proof.
  induction l as [|c r IH]; [reflexivity|].
  destruct (is_name_char c) eqn:En.
  - destruct (name_char_facts c En) as (Hd & Hl & Hnl).
    rewrite (tokrest_nondelim c r Hd), Hl. cbn [app take_while map]. rewrite Hnl, En. cbn [map]. f_equal. exact IH.
  - cbn [take_while]. rewrite En. cbn [map].
    destruct (is_delim c) eqn:Ed.
    + rewrite (tokrest_delim c r Ed). reflexivity.
    + rewrite (tokrest_nondelim c r Ed). pose proof (non_name_head c En Ed) as H.
      destruct (lower_nul c) as [|x xs] eqn:El; [|cbn [app take_while]; rewrite H; reflexivity].
      unfold lower_nul in El. destruct (c =? 0); discriminate.
Qed.

Definition prefix_closed (p : bytes -> bool) : Prop :=
  forall n, p n = true -> p (take_while is_name_char n) = true.

Lemma prefix_closed_all : prefix_closed (fun _ => true). Proof. intros n _. reflexivity. Qed.
Lemma prefix_closed_none : prefix_closed (fun _ => false). Proof. intros n H. discriminate. Qed.
Lemma take_while_all f l : forallb f l = true -> take_while f l = l.
Proof. induction l as [|c r IH]; [reflexivity|]. cbn. destruct (f c); [cbn; intros H; f_equal; auto | discriminate]. Qed.
Lemma prefix_closed_names (names : list bytes) :
  Forall (fun n => forallb is_name_char n = true) names ->
  prefix_closed (fun n => existsb (fun m => if list_eq_dec Z.eq_dec m n then true else false) names).
Proof.
  intros HF n H. apply existsb_exists in H. destruct H as (m & Hin & Hm).
  destruct (list_eq_dec Z.eq_dec m n) as [->|]; [|discriminate].
  rewrite Forall_forall in HF. rewrite (take_while_all _ _ (HF _ Hin)).
  apply existsb_exists. exists n. split; [assumption|]. destruct (list_eq_dec Z.eq_dec n n); [reflexivity|contradiction].
Qed.

(* ---- bridges to the main development's names ---- *)
Lemma is_alpha_letter c : is_alpha c = isASCIILetter c. Proof. reflexivity. Qed.
Lemma lower_toLower c : lower c = toLowerASCII c. Proof. reflexivity. Qed.
Lemma is_name_char_main c : is_name_char c = (isASCIILetter c || isASCIIDigit c || (c =? 45)). Proof. reflexivity. Qed.
Lemma take_while_takeName l : take_while is_name_char l = takeName l.
Proof. induction l as [|c r IH]; [reflexivity|]. cbn [take_while takeName]. rewrite is_name_char_main, IH. reflexivity. Qed.
Lemma cm_name_cmName l : cm_name l = cmName l.
Proof. destruct l as [|c r]; [reflexivity|]. unfold cm_name, cmName. rewrite is_alpha_letter, take_while_takeName. reflexivity. Qed.
Lemma map_lower_toLower l : map lower l = map toLowerASCII l. Proof. reflexivity. Qed.

(* the observer-side consequence used by C17tags.v: a start tag whose name p rejects sits at a '<' + letter whose
   lower-cased CommonMark tag name p rejects as well *)
Lemma rejected_start_tag_origin p l n : prefix_closed p -> In n (start_tags l) -> p n = true ->
  exists pre a post, l = pre ++ 60 :: a :: post /\ isASCIILetter a = true /\ p (map toLowerASCII (cmName (a :: post))) = true.
Proof.
  intros Hpc Hn Ep. destruct (start_tag_origin _ _ Hn) as (pre & a & post & Hl & Ha & ->).
  exists pre, a, post. split; [exact Hl|]. split; [exact Ha|].
  apply Hpc in Ep. rewrite take_name_tokrest in Ep. rewrite <- cm_name_cmName. unfold cm_name. rewrite Ha. exact Ep.
Qed.
Print Assumptions start_tag_origin.
Print Assumptions rejected_start_tag_origin.
