(* QuoteSimDefs.v -- property C09, block-quote clause, at the block layer (task T51): definitions and the statement.

   quote D            : "> " in front of every line of D (lines end with LF; a last line without LF is a line).
   sigma D p          : the position in quote D of the byte at position p of D      (p + 2 * (number of the line of p, from 1))
   epsilon D s e      : the end of the image of the non-empty span [s, e) : sigma (e - 1) + 1 ; of an empty span: sigma s
   qI / qB D          : the tree maps. Every span is mapped by (sigma, epsilon), EXCEPT that a Text node which covers several lines of D
                        (this happens only inside the label / title of a link reference definition, where collectTextNodes merges
                        the adjacent per-line spans of D because they are contiguous) is split at the line ends: in quote D the
                        per-line spans are no longer contiguous (the "> " of the next line is in between), and the reader reports a jump.  *)
From Coq Require Import List ZArith Lia Bool.
Import ListNotations.
Require Import Base Tree LP Driver.
Open Scope Z_scope.

Fixpoint quoteAux (atStart : bool) (l : bytes) : bytes :=
  match l with [] => [] | c :: r => (if atStart then [62; 32] else []) ++ c :: quoteAux (c =? 10) r end.
Definition quote (D : bytes) : bytes := quoteAux true D.

Fixpoint nlc (l : bytes) : Z := match l with [] => 0 | c :: r => (if c =? 10 then 1 else 0) + nlc r end.
Definition nl (D : bytes) (p : Z) : Z := nlc (upto D p).
Definition sigma (D : bytes) (p : Z) : Z := p + 2 * (nl D p + 1).
Definition epsilon (D : bytes) (s e : Z) : Z := if e <? 0 then e else if s <? e then sigma D (e - 1) + 1 else sigma D s.
(* the end of a block (blocks are never empty; an open block keeps its end -1) *)
Definition epsB (D : bytes) (e : Z) : Z := if e <=? 0 then e else sigma D (e - 1) + 1.

(* the pieces of the Text span [s, e) : one per line of D that it meets *)
Fixpoint splitAt (D : bytes) (fuel : nat) (s e : Z) : list (Z * Z) :=
  match fuel with
  | O => [(s, e)]
  | S f =>
    let le := lineEnd D s in
    if (s <? le) && (le <? e) then (s, le) :: splitAt D f le e else [(s, e)]
  end.

Fixpoint qI (D : bytes) (i : inline) : list inline :=
  match i with Inl k s e ind r kids =>
    let kids' := flat_map (qI D) kids in
    if (k =? TextKind) && (s <? e) then map (fun se => Inl k (sigma D (fst se)) (epsilon D (fst se) (snd se)) ind r kids') (splitAt D (Z.to_nat (e - s)) s e)
    else [Inl k (sigma D s) (epsilon D s e) ind r kids']
  end.
Fixpoint qB (D : bytes) (b : block) : block :=
  match b with Blk k s e bk ik a nn c l lb =>
    Blk k (sigma D s) (epsB D e) (map (qB D) bk) (flat_map (qI D) ik) a nn c l lb end.

(* the root blocks of D as children of the quote: positions made absolute, then mapped; a root that is followed by (skipped) blank lines
   has its lastLineBlank flag set in the quoted run, where these lines are seen by the line parser *)
Fixpoint quoteKids (D : bytes) (roots : list rootB) : list block :=
  match roots with
  | [] => []
  | r :: rest =>
    let nextStart := match rest with r' :: _ => rb_start r' | [] => len D end in
    let b := qB D (shiftB (rb_start r) (rb_blk r)) in
    (if rb_end r <? nextStart then set_blast b true else b) :: quoteKids D rest
  end.

Definition quoteRoot (D : bytes) (lb : bool) (kids : list block) : rootB :=
  let Q := quote D in
  {| rb_line := 1; rb_start := 0; rb_end := len Q; rb_src := Q;
     rb_blk := Blk BlockQuoteKind 0 (len Q) kids [] 0 0 0 false lb |}.

Definition tabFree (D : bytes) : Prop := Forall (fun c => c <> 9 /\ c <> 13 /\ c <> 0) D.

(* the statement: D <> [] is necessary (quote [] = [] has no root). The lastLineBlank flag lb of the quote itself is whatever the
   last text line left on the open spine (it is true e.g. for D = "    code\n\n\n"); nothing reads it. *)
Definition parseBlocks_quote_statement : Prop := forall D, tabFree D -> D <> [] ->
  exists lb, parseBlocks (quote D) = ([quoteRoot D lb (quoteKids D (fst (parseBlocks D)))], 0).

(* the naive version (pure position map, no splitting of multi-line Text nodes, flags copied) *)
Fixpoint nI (D : bytes) (i : inline) : inline :=
  match i with Inl k s e ind r kids => Inl k (sigma D s) (epsilon D s e) ind r (map (nI D) kids) end.
Fixpoint nB (D : bytes) (b : block) : block :=
  match b with Blk k s e bk ik a nn c l lb => Blk k (sigma D s) (epsilon D s e) (map (nB D) bk) (map (nI D) ik) a nn c l lb end.
Definition parseBlocks_quote_naive_statement : Prop := forall D, tabFree D -> D <> [] ->
  exists lb, parseBlocks (quote D) = ([quoteRoot D lb (map (fun r => nB D (shiftB (rb_start r) (rb_blk r))) (fst (parseBlocks D)))], 0).
