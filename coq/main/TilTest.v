From Coq Require Import List ZArith Lia Bool String Ascii.
Import ListNotations.
Require Import Base Tree LP Driver Props BSTest.
Open Scope Z_scope.
Definition z := String (ascii_of_nat 0) "".
Definition c01 (input : bytes) : bool * Z := (chk_C01 input (fst (parseBlocks input)), snd (parseBlocks input)).
Definition ranges (input : bytes) := map (fun r => (rb_start r, rb_end r, rb_line r)) (fst (parseBlocks input)).
Open Scope string_scope.
Definition u1 := bs ("***   " ++ nl ++ "# h ##  " ++ nl ++ "- a" ++ nl ++ "- b" ++ nl ++ nl ++ nl ++ "[a]: b" ++ nl ++ "para" ++ nl ++ "```" ++ nl ++ "x" ++ nl ++ "```  " ++ nl ++ "<div>" ++ nl ++ nl ++ "end").
Definition u2 := bs ("a" ++ z ++ nl ++ z ++ "b" ++ nl ++ z ++ nl ++ nl ++ z ++ z ++ nl ++ "[a]: b" ++ z ++ nl ++ "[c]: d" ++ nl ++ z).
Definition u3 := bs ("[a]: b" ++ nl ++ "[c]: d  " ++ cr ++ nl ++ "  " ++ nl ++ "[e]: f 'x'  " ++ nl ++ "   " ++ cr ++ "x" ++ cr ++ cr ++ nl ++ "y").
Definition u4 := bs ("[a]: b" ++ z).
Definition u5 := bs ("[a]: b " ++ z ++ nl ++ "[a]: b 't'" ++ z ++ nl ++ "[c]: d" ++ nl ++ z ++ z).
Definition u6 := bs ("- a" ++ nl ++ "  " ++ nl ++ " " ++ tab ++ nl ++ "b" ++ nl ++ "===" ++ nl ++ "   " ++ nl ++ ">" ++ nl ++ "> " ++ nl ++ nl ++ "    code" ++ nl ++ "   " ++ nl ++ "    " ++ nl ++ "x").
Definition u7 := bs ("[a]: b" ++ nl ++ "'t" ++ nl ++ "t'" ++ nl ++ "===" ++ nl ++ "[a]: b" ++ nl ++ "===" ++ nl).
Definition u8 := bs (z ++ z ++ z ++ nl ++ "  " ++ z ++ nl ++ "<!--" ++ nl ++ z ++ "-->" ++ z ++ nl ++ "<?" ++ nl ++ "?>" ++ nl ++ "   ").
Definition u9 := bs ("[a]: b" ++ nl ++ "[c]: d").
Definition u10 := bs ("[a]: b" ++ cr ++ "[c]: d   ").
Definition u11 := bs ("[a]:" ++ nl ++ "b" ++ nl ++ "  'c'   " ++ nl ++ "  " ++ tab ++ nl).
Definition u12 := bs ("~~~" ++ nl ++ "x" ++ nl ++ "~~~~  " ++ tab ++ nl ++ "  " ++ nl ++ "<pre>" ++ nl ++ "</pre> x  " ++ nl ++ " " ++ nl).
Definition us := [u1;u2;u3;u4;u5;u6;u7;u8;u9;u10;u11;u12].
Time Eval vm_compute in map c01 (BSTest.all ++ [t16;t17;t18]).
Time Eval vm_compute in map c01 us.
Eval vm_compute in ranges u2.
Eval vm_compute in ranges u5.
