From Coq Require Import List ZArith Lia Bool.
Import ListNotations.
Require Import Base Tree Rdr Link Collect Html Recog LP Rules Starts Driver L2Kind2 L2CC GramTree GramLP GramLP2 TDefs TOcp StreamFuel BSLine1
  ReparseSwap ReparseOpen.
Open Scope Z_scope.

(* T50 continuation, file 3: the eight block starts run on the state p (the open root child c still there, container the root
   or c) and on sw p (c replaced by its closing L, container the root).  Each start does nothing on both, or fires on both and
   gives the same state, or is one of the listed exceptions (in which c is not closed at the line start by this line). *)

Lemma tipDepth_root0_closed h K : K <> [] -> Forall closedB K -> tipDepth (S h) (root0 K) = O.
Proof.
  intros Hn Hc. destruct (snoc_of_ne K Hn) as (pre & x & ->). cbn [tipDepth]. rewrite root0_snoc_last.
  apply Forall_app in Hc. destruct Hc as [_ Hx]. inversion Hx as [|? ? Hx' _]; subst. rewrite Hx'. reflexivity.
Qed.
Lemma bheight_S b : exists n, bheight b = S n. Proof. destruct b. eexists. reflexivity. Qed.

(* recognisers on a line that begins with '<' *)
Lemma prefix60 b : hasBytePrefix b [60] = true -> exists r, b = 60 :: r.
Proof. destruct b as [|x r]; [discriminate|]. cbn [hasBytePrefix]. intros H. apply andb_true_iff in H. destruct H as [H _]. apply Z.eqb_eq in H. subst x. eexists. reflexivity. Qed.
Lemma setext60 r : parseSetextHeadingUnderline (60 :: r) = 0. Proof. reflexivity. Qed.
Lemma thematic60 r : parseThematicBreak (60 :: r) = -1. Proof. reflexivity. Qed.
Lemma marker60 r : parseListMarker (60 :: r) = (0, 0, -1). Proof. reflexivity. Qed.

Section Starts.
  Variables (src : bytes) (T : Z) (c : block) (L : list block).
  Hypothesis HL : L = closeBlock (bheight (root0 [c])) src c T.
  Hypothesis Lne : L <> [].
  Hypothesis Lcl : Forall closedB L.
  Notation RO := (ReparseOpen.RO src T c).
  Notation sw := (ReparseOpen.sw L).

  (* the scenarios in which an openBlock closes c: container the root, or container c with c unable to contain anything *)
  Definition scen (d : nat) : Prop := d = O \/ (d = 1%nat /\ forall K, K <> ListItemKind -> canContain (bkind c) K = false).
  Lemma scen_K d K : scen d -> K <> ListItemKind -> d = O \/ (d = 1%nat /\ canContain (bkind c) K = false).
  Proof. intros [H|[H1 H2]] HK; [left; exact H|right; split; [exact H1|apply H2, HK]]. Qed.

  Lemma RO_cstep d p p' : cstep p p' -> RO d p -> RO d p'.
  Proof. intros ([A B] & (C & D & E) & _) (E1 & E2 & E3 & E4). unfold ReparseOpen.RO. rewrite A, B, C, E. tauto. Qed.

  Lemma sw_consumeIndent p n : consumeIndent (sw p) n = sw (consumeIndent p n). Proof. apply consumeIndent_swapRC. Qed.
  Lemma sw_advance p n : advance (sw p) n = sw (advance p n). Proof. apply advance_swapRC. Qed.
  Lemma ck_sw p : containerKind (sw p) = documentKind. Proof. reflexivity. Qed.
  Lemma tk_sw p : tipKind (sw p) = documentKind.
  Proof.
    unfold tipKind. change (root (sw p)) with (root0 L). destruct (bheight_S (root0 L)) as [n ->].
    rewrite (tipDepth_root0_closed n L Lne Lcl). reflexivity.
  Qed.
  Lemma bchar_cont_sw p : bchar (contBlock (sw p)) = 0. Proof. reflexivity. Qed.

  Lemma collapse d p K : RO d p -> st_open p -> scen d -> K <> ListItemKind -> openBlock (sw p) K = openBlock p K.
  Proof. intros HR Hs Hd HK. apply (openBlock_collapse src T c L HL Lne Lcl d p K HR Hs HK). apply scen_K; assumption. Qed.

  (* ---- block quote, ATX heading, fenced code, thematic break: the decision does not look at the tree ---- *)
  Lemma sim_BQ d p : RO d p -> st_open p -> scen d ->
    (startBlockQuote p = p /\ startBlockQuote (sw p) = sw p) \/ startBlockQuote (sw p) = startBlockQuote p.
  Proof.
    intros HR Hs Hd. unfold startBlockQuote. cbv zeta.
    change (indent (sw p)) with (indent p). change (bytesAfterIndent (sw p)) with (bytesAfterIndent p).
    destruct (codeBlockIndentLimit <=? indent p); [left; split; reflexivity|].
    destruct (negb (hasBytePrefix (bytesAfterIndent p) [62])); [left; split; reflexivity|]. right.
    rewrite sw_consumeIndent.
    rewrite (collapse d (consumeIndent p (indent p)) BlockQuoteKind); [reflexivity| | |exact Hd|discriminate].
    - eapply RO_cstep; [apply cstep_consumeIndent|exact HR].
    - apply st_open_consumeIndent, Hs.
  Qed.

  Lemma sim_ATX d p : RO d p -> st_open p -> scen d ->
    (startATX p = p /\ startATX (sw p) = sw p) \/ startATX (sw p) = startATX p.
  Proof.
    intros HR Hs Hd. unfold startATX. cbv zeta.
    change (indent (sw p)) with (indent p). change (bytesAfterIndent (sw p)) with (bytesAfterIndent p).
    destruct (codeBlockIndentLimit <=? indent p); [left; split; reflexivity|].
    destruct (parseATXHeading (bytesAfterIndent p)) as [[level cs] ce].
    destruct (level <? 1); [left; split; reflexivity|]. right.
    rewrite sw_consumeIndent.
    rewrite (collapse d (consumeIndent p (indent p)) ATXHeadingKind); [reflexivity| | |exact Hd|discriminate].
    - eapply RO_cstep; [apply cstep_consumeIndent|exact HR].
    - apply st_open_consumeIndent, Hs.
  Qed.

  Lemma sim_Fenced d p : RO d p -> st_open p -> scen d ->
    (startFenced p = p /\ startFenced (sw p) = sw p) \/ startFenced (sw p) = startFenced p.
  Proof.
    intros HR Hs Hd. unfold startFenced. cbv zeta.
    change (indent (sw p)) with (indent p). change (bytesAfterIndent (sw p)) with (bytesAfterIndent p).
    destruct (codeBlockIndentLimit <=? indent p); [left; split; reflexivity|].
    destruct (parseCodeFence (bytesAfterIndent p)) as [[[fc fnn] is] ie].
    destruct (fnn =? 0); [left; split; reflexivity|]. right.
    rewrite sw_consumeIndent.
    rewrite (collapse d (consumeIndent p (indent p)) FencedCodeBlockKind); [reflexivity| | |exact Hd|discriminate].
    - eapply RO_cstep; [apply cstep_consumeIndent|exact HR].
    - apply st_open_consumeIndent, Hs.
  Qed.

  Lemma sim_Thematic d p : RO d p -> st_open p -> scen d ->
    (startThematic p = p /\ startThematic (sw p) = sw p) \/ startThematic (sw p) = startThematic p.
  Proof.
    intros HR Hs Hd. unfold startThematic. cbv zeta.
    change (indent (sw p)) with (indent p). change (bytesAfterIndent (sw p)) with (bytesAfterIndent p).
    destruct (codeBlockIndentLimit <=? indent p); [left; split; reflexivity|].
    destruct (parseThematicBreak (bytesAfterIndent p) <? 0); [left; split; reflexivity|]. right.
    rewrite sw_consumeIndent.
    rewrite (collapse d (consumeIndent p (indent p)) ThematicBreakKind); [reflexivity| | |exact Hd|discriminate].
    - eapply RO_cstep; [apply cstep_consumeIndent|exact HR].
    - apply st_open_consumeIndent, Hs.
  Qed.

  (* ---- HTML: a type-7 start does not interrupt a paragraph ---- *)
  Definition htmlBlocked (p : lp) : Prop :=
    startHTML p = p /\ indent p < codeBlockIndentLimit /\ hasBytePrefix (bytesAfterIndent p) [60] = true /\
    (containerKind p = ParagraphKind \/ tipKind p = ParagraphKind).
  Lemma sim_HTML d p : RO d p -> st_open p -> scen d ->
    (startHTML p = p /\ startHTML (sw p) = sw p) \/ startHTML (sw p) = startHTML p \/ htmlBlocked p.
  Proof.
    intros HR Hs Hd. unfold htmlBlocked, startHTML. cbv zeta.
    change (indent (sw p)) with (indent p). change (bytesAfterIndent (sw p)) with (bytesAfterIndent p).
    rewrite ck_sw, tk_sw.
    destruct (Z.leb_spec codeBlockIndentLimit (indent p)) as [Hi|Hi]; [left; split; reflexivity|].
    destruct (hasBytePrefix (bytesAfterIndent p) [60]) eqn:Hp; cbn [negb]; [|left; split; reflexivity].
    destruct (firstHtmlCond 0 7 (bytesAfterIndent p) <? 0); [left; split; reflexivity|].
    change (documentKind =? ParagraphKind) with false. cbn [orb]. rewrite andb_false_r.
    destruct (negb (htmlCanInterrupt (firstHtmlCond 0 7 (bytesAfterIndent p))) && ((containerKind p =? ParagraphKind) || (tipKind p =? ParagraphKind))) eqn:Hb.
    - right. right. split; [reflexivity|]. split; [exact Hi|]. split; [reflexivity|].
      apply andb_true_iff in Hb. destruct Hb as [_ Hb]. apply orb_true_iff in Hb. destruct Hb as [Hb|Hb]; apply Z.eqb_eq in Hb; tauto.
    - right. left. rewrite (collapse d p HTMLBlockKind HR Hs Hd); [reflexivity|discriminate].
  Qed.

  (* ---- setext: only when the container is a paragraph ---- *)
  Lemma sim_Setext_np p : containerKind p <> ParagraphKind -> startSetext p = p /\ startSetext (sw p) = sw p.
  Proof.
    intros Hk. unfold startSetext. rewrite ck_sw. change (documentKind =? ParagraphKind) with false. cbn [negb].
    replace (containerKind p =? ParagraphKind) with false by (symmetry; apply Z.eqb_neq; exact Hk). split; reflexivity.
  Qed.
  Lemma sim_Setext_sw p : startSetext (sw p) = sw p.
  Proof. unfold startSetext. rewrite ck_sw. reflexivity. Qed.

  (* ---- list item ---- *)
  Definition itemBlocked (p : lp) : Prop := startListItem p = p /\ containerKind p = ParagraphKind /\ indent p < codeBlockIndentLimit.
  Definition itemTouch (p : lp) : Prop :=
    containerKind p = ListKind /\ indent p < codeBlockIndentLimit /\
    exists delim n mend, parseListMarker (bytesAfterIndent p) = (delim, n, mend) /\ 0 <= mend /\ bchar (contBlock p) = delim.
  Lemma sim_ListItem d p : RO d p -> st_open p -> scen d ->
    (containerKind p = documentKind \/ containerKind p = ParagraphKind \/ containerKind p = ListKind) ->
    (startListItem p = p /\ startListItem (sw p) = sw p) \/ startListItem (sw p) = startListItem p \/ itemBlocked p \/ itemTouch p.
  Proof.
    intros HR Hs Hd Hck. unfold itemBlocked, itemTouch, startListItem. cbv zeta.
    change (indent (sw p)) with (indent p). change (bytesAfterIndent (sw p)) with (bytesAfterIndent p).
    rewrite ck_sw.
    destruct (Z.leb_spec codeBlockIndentLimit (indent p)) as [Hi|Hi]; [left; split; reflexivity|].
    destruct (parseListMarker (bytesAfterIndent p)) as [[delim n] mend] eqn:Epm.
    change (documentKind =? ParagraphKind) with false. cbn [andb]. rewrite orb_false_r.
    destruct (Z.ltb_spec mend 0) as [Hm|Hm]; cbn [orb]; [left; split; reflexivity|].
    destruct ((containerKind p =? ParagraphKind) && lmIsOrdered delim && negb (n =? 1)) eqn:G1.
    { right. right. left. split; [reflexivity|]. split; [|exact Hi].
      apply andb_true_iff in G1. destruct G1 as [G1 _]. apply andb_true_iff in G1. destruct G1 as [G1 _]. apply Z.eqb_eq, G1. }
    destruct ((containerKind p =? ParagraphKind) && isBlankLine (from_ (bytesAfterIndent p) mend)) eqn:G2.
    { right. right. left. split; [reflexivity|]. split; [|exact Hi].
      apply andb_true_iff in G2. destruct G2 as [G2 _]. apply Z.eqb_eq, G2. }
    rewrite sw_consumeIndent. set (p1 := consumeIndent p (indent p)).
    assert (HR1 : RO d p1) by (eapply RO_cstep; [apply cstep_consumeIndent|exact HR]).
    assert (Hs1 : st_open p1) by (apply st_open_consumeIndent, Hs).
    assert (Ek1 : containerKind p1 = containerKind p).
    { unfold containerKind, contBlock, cdepth, p1. rewrite root_consumeIndent, container_consumeIndent. reflexivity. }
    assert (Ec1 : contBlock p1 = contBlock p).
    { unfold contBlock, cdepth, p1. rewrite root_consumeIndent, container_consumeIndent. reflexivity. }
    rewrite ck_sw. change (documentKind =? ListKind) with false. change (documentKind =? ListItemKind) with false. cbn [orb negb].
    rewrite (collapse d p1 ListKind HR1 Hs1 Hd ltac:(discriminate)).
    rewrite Ek1.
    destruct (Z.eqb_spec (containerKind p) ListKind) as [El|Nl]; cbn [negb orb].
    - (* the container is a list *)
      rewrite Ec1. destruct (Z.eqb_spec (bchar (contBlock p)) delim) as [Ed|Nd]; cbn [negb].
      + right. right. right. split; [exact El|]. split; [exact Hi|]. exists delim, n, mend. repeat split; assumption.
      + right. left. reflexivity.
    - right. left. reflexivity.
  Qed.

  (* ---- indented code: never when the tip is a paragraph ---- *)
  Definition indBlocked (p : lp) : Prop := startIndented p = p /\ isRestBlank p = false /\ tipKind p = ParagraphKind.
  Lemma sim_Indented d p : RO d p -> st_open p -> scen d ->
    (startIndented p = p /\ startIndented (sw p) = sw p) \/ startIndented (sw p) = startIndented p \/ indBlocked p.
  Proof.
    intros HR Hs Hd. unfold indBlocked, startIndented.
    change (indent (sw p)) with (indent p). change (isRestBlank (sw p)) with (isRestBlank p). rewrite tk_sw.
    change (documentKind =? ParagraphKind) with false. rewrite orb_false_r.
    destruct ((indent p <? codeBlockIndentLimit) || isRestBlank p) eqn:G; cbn [orb]; [left; split; reflexivity|].
    destruct (Z.eqb_spec (tipKind p) ParagraphKind) as [Et|Nt].
    - right. right. split; [reflexivity|]. split; [|exact Et]. apply orb_false_iff in G. tauto.
    - right. left. rewrite sw_consumeIndent.
      rewrite (collapse d (consumeIndent p codeBlockIndentLimit) IndentedCodeBlockKind); [reflexivity| | |exact Hd|discriminate].
      + eapply RO_cstep; [apply cstep_consumeIndent|exact HR].
      + apply st_open_consumeIndent, Hs.
  Qed.
End Starts.
