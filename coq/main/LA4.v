From Coq Require Import List ZArith Lia Bool.
Import ListNotations.
Require Import Base Tree Rdr Link Collect Html Recog LP Rules Starts Driver Rec17 Rec18 L2Kind L2CC BSDef BSRdr BSTree BSOrph BSClose BSLine1 BSLine2 BSLine3
  BSLine7 LADef LA1 LA2 LA3.
Open Scope Z_scope.

(* ===== closing, opening, adding entries (mirrors BSLine2-3) ===== *)

Lemma okRepl_cc k L : okRepl k L -> ccL L = true.
Proof. intros H. unfold ccL. apply forallb_forall. intros x Hx. unfold okRepl in H. rewrite Forall_forall in H. apply (H x Hx). Qed.
Lemma allQ_closed_mono src M M' L : M <= M' -> ccL L = true -> (forall c, In c L -> 0 <= bend c) -> allQ (la src M) L -> allQ (la src M') L.
Proof. apply la_kids_closed_mono. Qed.

Section CloseF.
  Variable src : bytes.
  Hypothesis HO : OcpLoopSpec src.

  (* closing the last child c of the open block x at e <= M *)
  Lemma la_closeF M fuel e x c : 0 <= e <= M -> M <= len src -> bnd0 src e -> cc x = true -> la src M x -> bend x < 0 -> lastBlock x = Some c ->
    (bend c < 0 -> la src e c) -> (bheight c <= fuel)%nat ->
    la src M (set_lastBlocks x (closeBlock fuel src c e)) /\
    (forall z, In z (closeBlock fuel src c e) -> 0 <= bend z).
  Proof.
    intros He HM Hbe Hcc Hx Ox El Hc Hf.
    destruct (cc_lastBlock x c Hcc El) as [Cc Kc].
    pose proof (la_lastBlock src M x c Hx El) as Lc.
    destruct (Z.ltb_spec (bend c) 0) as [L|L].
    - destruct (la_closeBlock src HO e ltac:(lia) Hbe fuel c Cc (Hc L) L Hf) as [Q1 Q2].
      pose proof (tchain_false_closed _ _ _ _ Q2) as Hcl.
      split; [|exact Hcl].
      eapply la_set_lastBlocks; [exact Hx|exact El| |].
      + apply (allQ_closed_mono src e M); [lia|eapply okRepl_cc, cc_closeBlock; exact Cc|exact Hcl|exact Q1].
      + intros Ek lo Hlo. rewrite hiOf_open in * by exact Ox. cbn [tchain] in Hlo. destruct Hlo as (P1 & P2 & _).
        pose proof (la_gap src e M ltac:(lia) c L (Hc L) Lc) as Hg.
        eapply tchain_lo; [|exact P1|exact P2]. eapply tchain_op; [exact Hcl|]. eapply tchain_hi; [exact Q2|lia|exact Hg].
    - rewrite closeBlock_closed by exact L. split; [|intros z [<-|[]]; exact L].
      eapply la_set_lastBlocks; [exact Hx|exact El|split; [exact Lc|exact I]|]. intros _. apply repl_same; reflexivity.
  Qed.
End CloseF.

Lemma la_closeAt M p d e : OcpLoopSpec (source p) -> la (source p) M (root p) -> cc (root p) = true -> 0 <= e <= M -> M <= len (source p) -> bnd0 (source p) e ->
  (forall x c, getAt d (root p) = Some x -> lastBlock x = Some c -> bend x < 0 /\ (bend c < 0 -> la (source p) e c)) ->
  la (source p) M (updAt d (closeF p e) (root p)).
Proof.
  intros HO Hs Hc He HM Hbe Hx. apply (la_updAt_at (source p) M (closeF p e) d (root p) Hs).
  intros x Ex Sx. split; [|split; [apply closeF_bstart|apply closeF_bend]].
  unfold closeF. destruct (lastBlock x) as [c|] eqn:El; [|exact Sx].
  destruct (Hx x c Ex El) as [Ox Oc].
  apply (la_closeF (source p) HO M (bheight (root p)) e x c); try assumption.
  - eapply cc_getAt; eassumption.
  - assert (E2 : getAt (S d) (root p) = Some c) by (rewrite getAt_S_last, Ex; exact El).
    pose proof (bheight_getAt _ _ _ E2). lia.
Qed.

Lemma LB_closeAt M p d e d' : LB M p -> 0 <= e <= M -> M <= len (source p) -> bnd0 (source p) e -> (d' <= d)%nat -> (d <= cdepth p)%nat ->
  (forall x c, getAt d (root p) = Some x -> lastBlock x = Some c -> bend c < 0 -> la (source p) e c) ->
  LB M (withCont (closeLastChildAt p d e) (Some d')).
Proof.
  intros (A & St & B & C & D) He HM Hbe H1 H2 Hc. pose proof St as (_ & _ & HO & Hb0). split; [exact A|]. split; [exact St|]. split; [|split].
  - rewrite closeLastChildAt_eq. cbn [root source withCont withRoot setLP]. apply la_closeAt; [exact HO|exact B|apply D|exact He|exact HM|exact Hbe|].
    intros x c Ex El. split; [apply (C d x H2 Ex)|apply (Hc x c Ex El)].
  - rewrite closeLastChildAt_eq. apply spineOpen_upd; [intros x; apply closeF_bend|exact C|exact H1|lia].
  - apply ccP_closeAt; [exact D|exact H1|apply wf_le; [exact D|lia]].
Qed.

(* after closing at position e >= 0 the new last child of the block at depth d is closed *)
Lemma closeAt_last_closed M p d e z : LB M p -> 0 <= e <= M -> M <= len (source p) -> bnd0 (source p) e -> (d <= cdepth p)%nat ->
  (forall x c, getAt d (root p) = Some x -> lastBlock x = Some c -> bend c < 0 -> la (source p) e c) ->
  getAt (S d) (updAt d (closeF p e) (root p)) = Some z -> 0 <= bend z.
Proof.
  intros (A & St & B & C & D) He HM Hbe H2 Hc Ez. pose proof St as (_ & _ & HO & Hb0).
  destruct (closeAt_child p d e z Ez) as (x & c & Ex & El & Hin).
  assert (Sx : la (source p) M x) by (eapply la_getAt; eassumption).
  assert (E2 : getAt (S d) (root p) = Some c) by (rewrite getAt_S_last, Ex; exact El).
  destruct (la_closeF (source p) HO M (bheight (root p)) e x c He HM Hbe ltac:(eapply cc_getAt; [apply D|exact Ex]) Sx (C d x H2 Ex) El (Hc x c Ex El)
              ltac:(pose proof (bheight_getAt _ _ _ E2); lia)) as [_ Q].
  apply Q, Hin.
Qed.

(* ---- C1 / LI after closing at the line start ---- *)
Lemma LC1_closeAt_ls p d : OcpLoopSpec (source p) -> ccP p -> 0 <= lineStart p <= len (source p) -> bnd0 (source p) (lineStart p) ->
  (forall x c, getAt d (root p) = Some x -> lastBlock x = Some c -> bend c < 0 -> la (source p) (lineStart p) c) ->
  LC1 (withCont (closeLastChildAt p d (lineStart p)) (Some d)).
Proof.
  intros HO D Hls Hbe Hc y Ey Oy. unfold cdepth in Ey. cbn [container root lineStart source withCont closeLastChildAt withRoot setLP] in *.
  fold (closeF p (lineStart p)) in Ey.
  destruct (closeAt_child p d (lineStart p) y Ey) as (x & c & Ex & El & Hin).
  destruct (Z.ltb_spec (bend c) 0) as [L|L].
  - assert (Cc : cc c = true) by (eapply cc_lastBlock; [eapply cc_getAt; [apply D|exact Ex]|exact El]).
    assert (E2 : getAt (S d) (root p) = Some c) by (rewrite getAt_S_last, Ex; exact El).
    destruct (la_closeBlock (source p) HO (lineStart p) ltac:(lia) Hbe (bheight (root p)) c Cc (Hc x c Ex El L) L
                ltac:(pose proof (bheight_getAt _ _ _ E2); lia)) as [Q1 _].
    eapply allQ_In; eassumption.
  - rewrite closeBlock_closed in Hin by exact L. destruct Hin as [<-|[]]. lia.
Qed.

Lemma LLI_closeHere p : LBP p -> LC1 p -> LLI p -> LLI (closeLastChildAt p (cdepth p) (lineStart p)).
Proof.
  intros (A & St & B & C & D) H1 HL y Ey. pose proof St as (_ & _ & HO & Hb0). unfold cdepth in Ey. cbn [container root lineStart source closeLastChildAt withRoot setLP] in *.
  fold (cdepth p) in Ey. fold (closeF p (lineStart p)) in Ey. rewrite getAt_closeAt in Ey.
  destruct (getAt (cdepth p) (root p)) as [x|] eqn:Ex; [|discriminate]. cbn in Ey. inversion Ey; subst y. clear Ey.
  rewrite closeF_kind. destruct (HL x Ex) as [Hs|Hw]; [left|right; exact Hw].
  unfold closeF. destruct (lastBlock x) as [c|] eqn:El; [|exact Hs].
  assert (Ox : bend x < 0) by (apply (C (cdepth p) x); [lia|exact Ex]).
  assert (E2 : getAt (S (cdepth p)) (root p) = Some c) by (rewrite getAt_S_last, Ex; exact El).
  destruct A as (A1 & A2). destruct St as (S1 & S2 & _ & _).
  apply (la_closeF (source p) HO (lineStart p) (bheight (root p)) (lineStart p) x c); try assumption; try lia.
  - eapply cc_getAt; [apply D|exact Ex].
  - intros Oc. apply H1; assumption.
  - pose proof (bheight_getAt _ _ _ E2). lia.
Qed.

(* ---- openBlock ---- *)
Lemma la_newBlock src M kind : 0 <= M -> kind <> SetextHeadingKind -> la src M (newBlock kind M).
Proof.
  intros H N. unfold newBlock. cbn [la allQ]. change (-1 <? 0) with true. cbv iota.
  split; [lia|]. split; [left; lia|]. split; [intros _; exact N|]. split; [|exact I].
  destruct (isLeafK kind); [split; [cbn [map tileS]; split; [lia|apply NT_empty; lia]|split; [constructor|intros _; exact I]]|].
  destruct (kind =? ListMarkerKind); [split; [intros _; apply NT_empty; lia|reflexivity]|].
  destruct (kind =? LinkReferenceDefinitionKind); cbn [defSpans flat_map tileS tchain ordIn]; [split; [split; [lia|apply NT_empty; lia]|lia]|split; [split; [lia|apply NT_empty; lia]|reflexivity]].
Qed.

Lemma tchain_snoc_open src lo hi l nb : tchain src true lo hi l -> (forall c, In c l -> 0 <= bend c) -> bstart nb = hi -> bend nb < 0 ->
  forall hi', tchain src true lo hi' (l ++ [nb]).
Proof.
  intros H Hc Es Ho hi'. revert lo H. induction l as [|c r IH]; intros lo H; cbn [app tchain] in *.
  - destruct H as [H1 H2]. rewrite Es. split; [exact H1|]. split; [exact H2|]. destruct (Z.ltb_spec (bend nb) 0); [split; reflexivity|lia].
  - destruct H as (H1 & H2 & H3). split; [exact H1|]. split; [exact H2|].
    destruct (Z.ltb_spec (bend c) 0) as [L|L]; [specialize (Hc c (or_introl eq_refl)); lia|].
    destruct H3 as [H3 H4]. split; [exact H3|]. apply IH; [intros x Hx; apply Hc; right; exact Hx|exact H4].
Qed.

Lemma LOP_openBlock_up : forall fuel p kind, LOP p ->
  (canContain (containerKind p) kind = true \/ (kind <> ListItemKind /\ LcleanC p)) ->
  LOP (openBlock_up fuel p kind).
Proof.
  induction fuel as [|f IH]; intros p kind H Pre; [exact H|]. cbn [openBlock_up].
  destruct (canContain (containerKind p) kind) eqn:Ec; [exact H|].
  destruct Pre as [Pre|[Nk Hcl]]; [discriminate|].
  destruct (cdepth p) as [|d] eqn:Ed; [exact H|].
  destruct H as [HB H1]. pose proof HB as (A & St & B & C & D).
  destruct (wf_le p (S d) D ltac:(lia)) as (x & Ex). destruct (wf_le p d D ltac:(lia)) as (y & Ey).
  assert (Hclean : forall x0 c, getAt d (root p) = Some x0 -> lastBlock x0 = Some c -> bend c < 0 -> la (source p) (lineStart p) c).
  { intros x0 c E0 El _. apply Hcl. rewrite Ed, getAt_S_last, E0. exact El. }
  pose proof (Mc_le p A St) as HM. destruct A as (A1 & A2). destruct St as (S1 & S2 & HO & Hb0').
  apply IH.
  - split.
    + change (LB (Mc p) (withCont (closeLastChildAt p d (lineStart p)) (Some d))).
      apply LB_closeAt; [exact HB|unfold Mc; lia|lia|exact Hb0'|lia|lia|exact Hclean].
    + apply LC1_closeAt_ls; [exact HO|exact D|lia|exact Hb0'|exact Hclean].
  - left. pose proof (cc_spine d (root p) y x ltac:(apply D) Ey Ex) as Hyx.
    assert (Kx : containerKind p = bkind x) by (apply containerKind_at; rewrite Ed; exact Ex).
    rewrite Kx in Ec. pose proof (reject_not_item _ _ Ec Nk) as Nx.
    assert (Ky : containerKind (withCont (closeLastChildAt p d (lineStart p)) (Some d)) = bkind y).
    { unfold containerKind, contBlock, cdepth. cbn [container root withCont closeLastChildAt withRoot setLP].
      fold (closeF p (lineStart p)). rewrite getAt_closeAt, Ey. cbn. apply closeF_kind. }
    rewrite Ky. apply wide_accepts; [eapply wide_of_child; eassumption|exact Nk].
Qed.

Lemma tchain_all_closed src op lo hi l : tchain src op lo hi l -> (forall z, last l (newBlock 0 0) = z -> l <> [] -> 0 <= bend z) ->
  forall c, In c l -> 0 <= bend c.
Proof.
  revert lo. induction l as [|c r IH]; intros lo H Hl x Hx; [destruct Hx|]. destruct H as (_ & _ & H).
  destruct (Z.ltb_spec (bend c) 0) as [L|L].
  - destruct H as [_ ->]. specialize (Hl c eq_refl ltac:(discriminate)). lia.
  - destruct Hx as [->|Hx]; [exact L|]. destruct H as [_ H]. apply (IH _ H); [|exact Hx].
    intros z Ez Hr. apply Hl; [|discriminate]. destruct r; [contradiction|exact Ez].
Qed.
Lemma lastBlock_last b z : lastBlock b = Some z -> last (bkids b) (newBlock 0 0) = z.
Proof. intros H. rewrite (lastBlock_split b z H). apply last_last. Qed.
Lemma lastBlock_none b : lastBlock b = None -> bkids b = [].
Proof. unfold lastBlock. intros H. destruct (rev (bkids b)) as [|x r] eqn:Er; [|discriminate]. rewrite <- (rev_involutive (bkids b)), Er. reflexivity. Qed.
Lemma lastBlock_some b : bkids b <> [] -> exists z, lastBlock b = Some z.
Proof. intros H. unfold lastBlock. destruct (rev (bkids b)) as [|x r] eqn:Er; [|eauto]. exfalso. apply H. rewrite <- (rev_involutive (bkids b)), Er. reflexivity. Qed.

Lemma LOP_openBlock_ns p kind : LOP p -> kind <> SetextHeadingKind ->
  (canContain (containerKind p) kind = true \/ (kind <> ListItemKind /\ LcleanC p)) ->
  LOP (openBlock p kind).
Proof.
  intros H Nk Pre.
  assert (Hcc : ccP (openBlock p kind)).
  { apply ccP_openBlock; [apply H|]. destruct Pre as [Pre|[Pre _]]; [right; exact Pre|left; exact Pre]. }
  revert Hcc. unfold openBlock.
  destruct ((state p =? stDescending) || (state p =? stDescendTerminated)); [intros _; apply (LOP_ntstep p); [apply ntstep_of_cstep; [apply cstep_panic|reflexivity]|exact H]|].
  cbv zeta. set (p0 := if state p =? stOpening then withState p stOpenMatched else p).
  pose proof (ntstep_opened p) as Hn0. fold p0 in Hn0. pose proof (proj1 Hn0) as Hc0.
  assert (H0 : LOP p0) by (eapply LOP_ntstep; eassumption).
  assert (Pre0 : canContain (containerKind p0) kind = true \/ (kind <> ListItemKind /\ LcleanC p0)).
  { destruct Hc0 as ((E1 & E2) & (E3 & _ & E5) & _). unfold containerKind, contBlock, LcleanC, cdepth. rewrite E1, E2, E3, E5. exact Pre. }
  set (p2 := openBlock_up (S (cdepth p0)) p0 kind).
  assert (H2 : LOP p2) by (apply LOP_openBlock_up; assumption).
  assert (A2 : canContain (containerKind p2) kind = true).
  { apply openBlock_up_accepts; [apply H0|lia|]. destruct Pre0 as [Q|[Q _]]; [right; exact Q|left; exact Q]. }
  set (p3 := closeLastChildAt p2 (cdepth p2) (lineStart p2)).
  destruct H2 as [HB2 H12]. pose proof HB2 as (Acur & St2 & _ & _ & D2). pose proof (Mc_le p2 Acur St2) as HM2.
  assert (Hcl2 : forall x c, getAt (cdepth p2) (root p2) = Some x -> lastBlock x = Some c -> bend c < 0 -> la (source p2) (lineStart p2) c).
  { intros x c Ex El Oc. apply H12; [|exact Oc]. rewrite getAt_S_last, Ex. exact El. }
  assert (HB3 : LB (Mc p2) (withCont p3 (Some (cdepth p2)))).
  { apply LB_closeAt; [exact HB2|unfold Mc; destruct Acur; lia|lia|apply St2|lia|lia|exact Hcl2]. }
  assert (K3 : containerKind p3 = containerKind p2) by apply containerKind_closeHere.
  pose proof HB3 as (A3 & St3 & B3 & C3' & D3).
  assert (C3 : forall j y, (j <= cdepth p2)%nat -> getAt j (root p3) = Some y -> bend y < 0) by exact C3'.
  change (cdepth (withCont p3 (Some (cdepth p2)))) with (cdepth p2) in *. change (root (withCont p3 (Some (cdepth p2)))) with (root p3) in *.
  change (source (withCont p3 (Some (cdepth p2)))) with (source p3) in *.
  destruct (wf_le _ (cdepth p2) D3 ltac:(change (cdepth (withCont p3 (Some (cdepth p2)))) with (cdepth p2); lia)) as (x & Ex).
  change (root (withCont p3 (Some (cdepth p2)))) with (root p3) in Ex.
  set (nb := newBlock kind (lineStart p3 + li p3)).
  set (f := fun b : block => set_bkids b (bkids b ++ [nb])).
  intros Hcc. change (lineStart p3 + li p3) with (Mc p2) in nb.
  assert (Snb : la (source p3) (Mc p2) nb) by (apply la_newBlock; [lia|exact Nk]).
  assert (Kx : isContK (bkind x) = true).
  { eapply canContain_cont. rewrite <- (containerKind_at p3 x); [rewrite K3; exact A2|exact Ex]. }
  assert (Ox : bend x < 0) by (apply (C3 (cdepth p2) x); [lia|exact Ex]).
  assert (Hlast : forall z, lastBlock x = Some z -> 0 <= bend z).
  { intros z Ez. apply (closeAt_last_closed (Mc p2) p2 (cdepth p2) (lineStart p2) z HB2); [unfold Mc; destruct Acur; lia|lia|apply St2|lia|exact Hcl2|].
    fold (closeF p2 (lineStart p2)). change (updAt (cdepth p2) (closeF p2 (lineStart p2)) (root p2)) with (root p3). rewrite getAt_S_last, Ex. exact Ez. }
  assert (Hroot : la (source p3) (Mc p2) (updAt (cdepth p2) f (root p3))).
  { apply (la_updAt_at (source p3) (Mc p2) f (cdepth p2) (root p3) B3). intros y Ey Sy.
    rewrite Ex in Ey. inversion Ey; subst y. clear Ey.
    split; [|split; [apply bstart_set_bkids|apply bend_set_bkids]].
    pose proof Sy as Sy'. rewrite la_eq in Sy'. destruct Sy' as (Y1 & Y2 & Y3 & Y4 & Y5).
    apply la_set_bkids; [exact Sy|apply allQ_app; split; [exact Y5|split; [exact Snb|exact I]]|].
    intros _. rewrite body_cont in Y4 by exact Kx. destruct Y4 as [Y4 _]. rewrite hiOf_open in * by exact Ox.
    replace (bend x <? 0) with true in * by (symmetry; apply Z.ltb_lt; exact Ox).
    apply (tchain_snoc_open _ _ (Mc p2)); [exact Y4| |reflexivity|cbn; lia].
    apply (tchain_all_closed _ _ _ _ _ Y4). intros z Ez Hne. destruct (lastBlock_some x Hne) as (z' & Ez').
    rewrite (lastBlock_last x z' Ez') in Ez. subst z'. apply Hlast, Ez'. }
  split; [split; [exact A3|split; [exact St3|split; [exact Hroot|split; [|exact Hcc]]]]|].
  - intros j y Hj Ey. assert (Hj' : (j <= S (cdepth p2))%nat) by exact Hj. clear Hj. cbn [container root withCont updCont withRoot setLP] in Ey. fold (cdepth p3) in Ey. change (cdepth p3) with (cdepth p2) in Ey.
    destruct (Nat.eq_dec j (S (cdepth p2))) as [->|Nj].
    + unfold f in Ey. rewrite (getAt_S_append_some nb (cdepth p2) (root p3) x Ex) in Ey. inversion Ey; subst y. unfold nb, newBlock. cbn [bend]. lia.
    + destruct (getAt_updAt_low f ltac:(intros; apply bend_set_bkids) (cdepth p2) j (root p3) y ltac:(lia) Ey) as (x0 & E0 & Eb & _).
      rewrite Eb. apply (C3 j x0); [lia|exact E0].
  - intros y Ey _.
    assert (Ey' : getAt (S (S (cdepth p2))) (updAt (cdepth p2) (fun b => set_bkids b (bkids b ++ [nb])) (root p3)) = Some y) by exact Ey.
    rewrite getAt_S_last, (getAt_S_append_some nb (cdepth p2) (root p3) x Ex) in Ey'. discriminate.
Qed.
