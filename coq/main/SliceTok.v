(* SliceTok.v -- the inline tokeniser on one Unparsed span holding an "escaped text line", with the EXACT list of nodes it produces.
   Generalises SliceText.iloop_text in three directions: (i) the span may start at any offset s (quoted / list-item paragraphs),
   (ii) the set E of bytes written with a backslash is a parameter (E = all ASCII punctuation: the input style of SliceText;
   E = Fmt.needsEscape: the formatter's output style), raw bytes must be inert for the tokeniser ('!' is allowed because the byte
   after it is never a raw '['), (iii) the result is the node list tokSpec, not only its rendering. *)
From Coq Require Import List ZArith Lia Bool.
Import ListNotations.
Require Import Base Tables Utf8 Tree Rdr Link Collect Html Recog LP Rules Starts Driver Inl3a Inl3b Inl3c Inl3d Inl3e Render Fmt SliceBase SlicePara SliceText.
Open Scope Z_scope.

Definition ISs (st : ist) (L : bytes) (s : Z) : Prop :=
  isrc st = L /\ unp st = [mkI UnparsedKind s (len L)] /\ upos st = 0 /\ stk st = [].
Lemma ISs_spanEnd st L s : ISs st L s -> spanEnd st = len L.
Proof. intros (H1 & H2 & H3 & H4). unfold spanEnd. rewrite H2, H3. reflexivity. Qed.
Lemma ISs_isLast st L s : ISs st L s -> isLastSpan st = true.
Proof. intros (H1 & H2 & H3 & H4). unfold isLastSpan. rewrite H2, H3. reflexivity. Qed.
Lemma ISs_inspan st L s : ISs st L s -> (upos st <? len (unp st)) = true.
Proof. intros (H1 & H2 & H3 & H4). rewrite H2, H3. reflexivity. Qed.

Definition textNode (s e : Z) : list inline := if e - s =? 0 then [] else [mkI TextKind s e].

Lemma addText_nodes st L s0 s e : ISs st L s0 -> 0 <= s <= e ->
  ISs (addText st s e) L s0 /\ map toInline (rk (addText st s e)) = map toInline (rk st) ++ textNode s e.
Proof.
  intros HI Hse. unfold addText, addNode, spanLen, textNode.
  assert (E : (0 <=? s) && (0 <=? e) && (s <=? e) = true).
  { repeat (apply andb_true_iff; split); apply Z.leb_le; lia. }
  rewrite E. destruct (Z.eqb_spec (e - s) 0) as [Z0|NZ]; cbn [fst].
  - split; [exact HI|]. rewrite app_nil_r. reflexivity.
  - split; [exact HI|]. cbn [rk bumpId setRk]. rewrite map_app. reflexivity.
Qed.

Lemma istep_bang st pos plainStart : at_ (isrc st) pos = 33 -> at_ (isrc st) (pos + 1) <> 91 ->
  istep st pos plainStart = (st, pos + 1, plainStart).
Proof.
  intros Hc Hn. unfold istep. cbv zeta. rewrite Hc.
  change (33 =? 42) with false. change (33 =? 95) with false. change (33 =? 91) with false. change (33 =? 93) with false.
  change (33 =? 33) with true. cbn [orb]. cbv iota.
  destruct (Z.eqb_spec (at_ (isrc st) (pos + 1)) 91); [contradiction|]. cbn [negb]. rewrite orb_true_r. reflexivity.
Qed.

(* ---- E-escaped text ---- *)
Section Esc.
Variable E : Z -> bool.

Definition genEsc (t : bytes) : bytes := flat_map (fun c => if E c then [92; c] else [c]) t.
Definition rawOK (c : Z) : bool := inertByte c || (c =? 33).
Fixpoint okTextE (prevSp : bool) (t : bytes) : bool :=
  match t with
  | [] => negb prevSp
  | c :: r => if c =? 32 then negb prevSp && okTextE true r
              else (if E c then isASCIIPunctuation c else rawOK c) && okTextE false r
  end.

Lemma genEsc_E c r : E c = true -> genEsc (c :: r) = 92 :: c :: genEsc r.
Proof. intros H. unfold genEsc. cbn [flat_map]. rewrite H. reflexivity. Qed.
Lemma genEsc_raw c r : E c = false -> genEsc (c :: r) = c :: genEsc r.
Proof. intros H. unfold genEsc. cbn [flat_map]. rewrite H. reflexivity. Qed.

(* the nodes the tokeniser emits: plainStart ps, position pos, remaining text t *)
Fixpoint tokSpec (ps pos : Z) (t : bytes) : list inline :=
  match t with
  | [] => textNode ps pos
  | c :: r => if E c then textNode ps pos ++ [mkI TextKind (pos + 1) (pos + 2)] ++ tokSpec (pos + 2) (pos + 2) r
              else tokSpec ps (pos + 1) r
  end.

Hypothesis E32 : E 32 = false.

Lemma rawOK_first c : rawOK c = true -> c <> 32 -> forall y, (c = 33 -> y <> 91) -> forall st pos plainStart,
  at_ (isrc st) pos = c -> at_ (isrc st) (pos + 1) = y -> istep st pos plainStart = (st, pos + 1, plainStart).
Proof.
  intros Hr N32 y Hy st pos plainStart Hat Hat1. unfold rawOK in Hr. destruct (Z.eqb_spec c 33) as [E33|N33].
  - apply istep_bang; [rewrite Hat; exact E33|rewrite Hat1; apply Hy; exact E33].
  - rewrite orb_false_r in Hr. apply istep_inert. rewrite Hat. exact Hr.
Qed.

(* the first byte of an E-escaped suffix is never a raw '[' *)
Lemma genEsc_hd_ne91 : forall r p, okTextE p r = true -> hd 0 (genEsc r ++ [10]) <> 91.
Proof.
  intros r p H. destruct r as [|c r']; [cbn; lia|]. cbn [okTextE] in H.
  destruct (Z.eqb_spec c 32) as [->|N32].
  - rewrite (genEsc_raw 32 r' E32). cbn. lia.
  - apply andb_true_iff in H. destruct H as [H _]. destruct (E c) eqn:Ec.
    + rewrite (genEsc_E c r' Ec). cbn. lia.
    + rewrite (genEsc_raw c r' Ec). cbn [app hd]. intros ->. discriminate H.
Qed.

Lemma iloop_gen : forall t prevSp, okTextE prevSp t = true ->
  forall pre0 mid L fuel st s0, L = pre0 ++ mid ++ genEsc t ++ [10] ->
  ISs st L s0 -> (length (genEsc t) < fuel)%nat ->
  exists st', iloop fuel st (len pre0 + len mid) (len pre0) = (st', len L) /\ ISs st' L s0 /\
              map toInline (rk st') = map toInline (rk st) ++ tokSpec (len pre0) (len pre0 + len mid) t.
Proof.
  induction t as [|c r IH]; intros prevSp Hok pre0 mid L fuel st s0 HL HI Hfuel.
  - destruct fuel as [|f]; [cbn in Hfuel; lia|]. cbn [genEsc flat_map app] in HL.
    assert (Hlen : len L = len pre0 + len mid + 1) by (rewrite HL; lensimp; lia).
    pose proof (sl_len_nonneg pre0) as Hp0. pose proof (sl_len_nonneg mid) as Hm0.
    rewrite iloop_S. rewrite (ISs_inspan st L s0 HI), (ISs_spanEnd st L s0 HI).
    destruct (Z.ltb_spec (len pre0 + len mid) (len L)); [|lia]. cbn [andb].
    assert (Hat : at_ (isrc st) (len pre0 + len mid) = 10).
    { destruct HI as (Hsrc & _). rewrite Hsrc, HL. apply at_mid. }
    rewrite (istep_lf st _ _ Hat (ISs_isLast st L s0 HI)).
    destruct (addText_nodes st L s0 (len pre0) (len pre0 + len mid) HI ltac:(lia)) as (HI' & HR').
    exists (addText st (len pre0) (len pre0 + len mid)).
    split.
    { destruct f as [|f]; [cbn [iloop]; rewrite Hlen; reflexivity|].
      rewrite iloop_S. rewrite (ISs_inspan _ L s0 HI'), (ISs_spanEnd _ L s0 HI').
      destruct (Z.ltb_spec (len pre0 + len mid + 1) (len L)); [lia|]. cbn [andb]. rewrite Hlen. reflexivity. }
    split; [exact HI'|]. exact HR'.
  - cbn [okTextE] in Hok.
    pose proof (sl_len_nonneg pre0) as Hp0. pose proof (sl_len_nonneg mid) as Hm0.
    destruct (Z.eqb_spec c 32) as [E32'|N32].
    + subst c. apply andb_true_iff in Hok. destruct Hok as [_ Hok].
      rewrite (genEsc_raw 32 r E32) in HL, Hfuel. cbn [length] in Hfuel. destruct fuel as [|f]; [lia|].
      assert (Hlen : len L = len pre0 + len mid + 1 + len (genEsc r ++ [10])) by (rewrite HL; lensimp; lia).
      pose proof (sl_len_nonneg (genEsc r ++ [10])) as Hr0.
      rewrite iloop_S. rewrite (ISs_inspan st L s0 HI), (ISs_spanEnd st L s0 HI).
      destruct (Z.ltb_spec (len pre0 + len mid) (len L)); [|lia]. cbn [andb].
      assert (Hat : at_ (isrc st) (len pre0 + len mid) = 32).
      { destruct HI as (Hsrc & _). rewrite Hsrc, HL. cbn [app]. apply at_mid. }
      assert (Hh : parseHardLineBreakSpace (sub (isrc st) (len pre0 + len mid) (spanEnd st)) = (1, false)).
      { rewrite (ISs_spanEnd st L s0 HI). destruct HI as (Hsrc & _). rewrite Hsrc. rewrite HL. rewrite sub_to_end. cbn [app].
        destruct r as [|c' r']; [discriminate Hok|]. cbn [okTextE] in Hok.
        destruct (Z.eqb_spec c' 32) as [->|Nc']; [discriminate Hok|].
        destruct (E c') eqn:Ep.
        - rewrite (genEsc_E c' r' Ep). cbn [app]. apply hlbs_single. lia.
        - rewrite (genEsc_raw c' r' Ep). cbn [app]. apply hlbs_single. exact Nc'. }
      rewrite (istep_space st _ _ Hat Hh).
      destruct (IH true Hok pre0 (mid ++ [32]) L f st s0) as (st' & Hrun & HI' & HR').
      { rewrite HL. rewrite <- !app_assoc. reflexivity. }
      { exact HI. } { lia. }
      exists st'. rewrite sl_len_app in Hrun, HR'. change (len [32]) with 1 in Hrun, HR'. rewrite Z.add_assoc in Hrun, HR'.
      split; [exact Hrun|]. split; [exact HI'|]. cbn [tokSpec]. rewrite E32. exact HR'.
    + apply andb_true_iff in Hok. destruct Hok as [Hcl Hok].
      destruct (E c) eqn:Ep.
      * rewrite (genEsc_E c r Ep) in HL, Hfuel. cbn [length] in Hfuel. destruct fuel as [|f]; [lia|].
        assert (Hlen : len L = len pre0 + len mid + 2 + len (genEsc r ++ [10])) by (rewrite HL; lensimp; lia).
        pose proof (sl_len_nonneg (genEsc r ++ [10])) as Hr0.
        rewrite iloop_S. rewrite (ISs_inspan st L s0 HI), (ISs_spanEnd st L s0 HI).
        destruct (Z.ltb_spec (len pre0 + len mid) (len L)); [|lia]. cbn [andb].
        assert (Hat : at_ (isrc st) (len pre0 + len mid) = 92).
        { destruct HI as (Hsrc & _). rewrite Hsrc, HL. cbn [app]. apply at_mid. }
        assert (Hat1 : at_ (isrc st) (len pre0 + len mid + 1) = c).
        { destruct HI as (Hsrc & _). rewrite Hsrc, HL. cbn [app]. apply at_mid1. }
        rewrite (istep_escape st _ _ c Hat Hat1 Hcl) by (rewrite (ISs_spanEnd st L s0 HI); lia).
        destruct (addText_nodes st L s0 (len pre0) (len pre0 + len mid) HI ltac:(lia)) as (HI1 & HR1).
        destruct (addText_nodes _ L s0 (len pre0 + len mid + 1) (len pre0 + len mid + 2) HI1 ltac:(lia)) as (HI2 & HR2).
        destruct (IH false Hok (pre0 ++ mid ++ [92; c]) [] L f
                     (addText (addText st (len pre0) (len pre0 + len mid)) (len pre0 + len mid + 1) (len pre0 + len mid + 2)) s0)
          as (st' & Hrun & HI' & HR').
        { rewrite HL. rewrite <- !app_assoc. reflexivity. }
        { exact HI2. } { lia. }
        exists st'. rewrite !sl_len_app in Hrun, HR'. change (len [92; c]) with 2 in Hrun, HR'. rewrite sl_len_nil in Hrun, HR'.
        rewrite Z.add_0_r in Hrun, HR'. rewrite Z.add_assoc in Hrun, HR'.
        split; [exact Hrun|]. split; [exact HI'|]. cbn [tokSpec]. rewrite Ep. rewrite HR', HR2, HR1.
        unfold textNode at 2. replace (len pre0 + len mid + 2 - (len pre0 + len mid + 1)) with 1 by lia. change (1 =? 0) with false. cbv iota.
        rewrite <- !app_assoc. reflexivity.
      * rewrite (genEsc_raw c r Ep) in HL, Hfuel. cbn [length] in Hfuel. destruct fuel as [|f]; [lia|].
        assert (Hlen : len L = len pre0 + len mid + 1 + len (genEsc r ++ [10])) by (rewrite HL; lensimp; lia).
        pose proof (sl_len_nonneg (genEsc r ++ [10])) as Hr0.
        rewrite iloop_S. rewrite (ISs_inspan st L s0 HI), (ISs_spanEnd st L s0 HI).
        destruct (Z.ltb_spec (len pre0 + len mid) (len L)); [|lia]. cbn [andb].
        assert (Hat : at_ (isrc st) (len pre0 + len mid) = c).
        { destruct HI as (Hsrc & _). rewrite Hsrc, HL. cbn [app]. apply at_mid. }
        assert (Hat1 : at_ (isrc st) (len pre0 + len mid + 1) = hd 0 (genEsc r ++ [10])).
        { destruct HI as (Hsrc & _). rewrite Hsrc, HL. cbn [app]. destruct (genEsc r ++ [10]) as [|y z] eqn:Ey.
          - destruct (genEsc r); discriminate Ey.
          - cbn [hd]. apply at_mid1. }
        rewrite (rawOK_first c Hcl N32 _ (fun _ => genEsc_hd_ne91 r false Hok) st _ _ Hat Hat1).
        destruct (IH false Hok pre0 (mid ++ [c]) L f st s0) as (st' & Hrun & HI' & HR').
        { rewrite HL. rewrite <- !app_assoc. reflexivity. }
        { exact HI. } { lia. }
        exists st'. rewrite sl_len_app in Hrun, HR'. change (len [c]) with 1 in Hrun, HR'. rewrite Z.add_assoc in Hrun, HR'.
        split; [exact Hrun|]. split; [exact HI'|]. cbn [tokSpec]. rewrite Ep. exact HR'.
Qed.

(* ---- parseInlines on a paragraph whose only inline is one Unparsed span [s, len L) ---- *)
Lemma parseInlines_gen t pre0 L m (b : block) : okTextE true t = true -> L = pre0 ++ genEsc t ++ [10] ->
  bik b = [mkI UnparsedKind (len pre0) (len L)] ->
  parseInlines L m b = tokSpec (len pre0) (len pre0) t.
Proof.
  intros Hok HL Hb. unfold parseInlines. rewrite Hb. cbn [length].
  set (st0 := {| rk := []; isrc := L; unp := [mkI UnparsedKind (len pre0) (len L)]; upos := 0; stk := []; ign := false; nid := 1;
                 rootEnd := bend b; matcher := m |}).
  assert (HI0 : ISs (setIgn st0 false) L (len pre0)) by (repeat split).
  destruct (iloop_gen t true Hok pre0 [] L (S (length L)) (setIgn st0 false) (len pre0)) as (st' & Hrun & HI' & HR').
  { exact HL. } { exact HI0. }
  { rewrite HL, !app_length. cbn [length]. lia. }
  rewrite sl_len_nil, Z.add_0_r in Hrun, HR'.
  assert (Hout : outer 2 st0 = setUpos st' 1).
  { cbn [outer]. change (len (unp st0) <=? upos st0) with false. cbv iota.
    change (nth (Z.to_nat (upos st0)) (unp st0) (mkI 0 0 0)) with (mkI UnparsedKind (len pre0) (len L)).
    change (ikind (mkI UnparsedKind (len pre0) (len L))) with UnparsedKind.
    change (UnparsedKind =? 0) with false. change (UnparsedKind =? IndentKind) with false. change (UnparsedKind =? UnparsedKind) with true.
    cbv iota. change (ign st0) with false. cbv iota. change (istart (mkI UnparsedKind (len pre0) (len L))) with (len pre0).
    change (isrc (setIgn st0 false)) with L. rewrite Hrun.
    rewrite (ISs_spanEnd st' L _ HI').
    assert (Ea : addText st' (len L) (len L) = st').
    { unfold addText, addNode, spanLen. rewrite Z.sub_diag. destruct ((0 <=? len L) && (0 <=? len L) && (len L <=? len L)); reflexivity. }
    rewrite Ea. destruct HI' as (H1 & H2 & H3 & H4).
    change (unp (setUpos st' (upos st' + 1))) with (unp st'). change (upos (setUpos st' (upos st' + 1))) with (upos st' + 1).
    rewrite H2, H3. reflexivity. }
  rewrite Hout. rewrite processEmphasis_nostack by (destruct HI' as (H1 & H2 & H3 & H4); exact H4).
  change (rk (setUpos st' 1)) with (rk st'). rewrite HR'. reflexivity.
Qed.

(* ---- facts about the node list ---- *)
Definition isTextI (i : inline) : Prop := exists s e, i = mkI TextKind s e.
Lemma textNode_isText s e : Forall isTextI (textNode s e).
Proof. unfold textNode. destruct (e - s =? 0); [constructor|]. constructor; [exists s, e; reflexivity|constructor]. Qed.
Lemma tokSpec_isText : forall t ps pos, Forall isTextI (tokSpec ps pos t).
Proof.
  induction t as [|c r IH]; intros ps pos; cbn [tokSpec]; [apply textNode_isText|].
  destruct (E c); [|apply IH]. apply Forall_app. split; [apply textNode_isText|].
  constructor; [eexists; eexists; reflexivity|apply IH].
Qed.

(* the spans of the nodes, concatenated, spell the unescaped text *)
Definition spansOf (L : bytes) (l : list inline) : bytes := flat_map (spanOf L) l.
Lemma spansOf_app L a b : spansOf L (a ++ b) = spansOf L a ++ spansOf L b.
Proof. unfold spansOf. apply flat_map_app. Qed.
Lemma spansOf_textNode (pre0 mid rest : bytes) : spansOf (pre0 ++ mid ++ rest) (textNode (len pre0) (len pre0 + len mid)) = mid.
Proof.
  unfold textNode. replace (len pre0 + len mid - len pre0) with (len mid) by lia.
  destruct (Z.eqb_spec (len mid) 0) as [Z0|NZ].
  - destruct mid; [reflexivity|]. rewrite sl_len_cons in Z0. pose proof (sl_len_nonneg mid). lia.
  - cbn [spansOf flat_map]. unfold spanOf. cbn [mkI istart iend]. rewrite sl_sub_app. apply app_nil_r.
Qed.
Lemma tokSpec_spans : forall t pre0 mid rest L, L = pre0 ++ mid ++ genEsc t ++ rest ->
  spansOf L (tokSpec (len pre0) (len pre0 + len mid) t) = mid ++ t.
Proof.
  induction t as [|c r IH]; intros pre0 mid rest L HL; cbn [tokSpec].
  - rewrite HL. cbn [genEsc flat_map app]. rewrite spansOf_textNode. rewrite app_nil_r. reflexivity.
  - destruct (E c) eqn:Ec.
    + rewrite (genEsc_E c r Ec) in HL. rewrite !spansOf_app.
      assert (S1 : spansOf L (textNode (len pre0) (len pre0 + len mid)) = mid) by (rewrite HL; apply spansOf_textNode).
      assert (S2 : spansOf L [mkI TextKind (len pre0 + len mid + 1) (len pre0 + len mid + 2)] = [c]).
      { cbn [spansOf flat_map]. unfold spanOf. cbn [mkI istart iend]. rewrite app_nil_r.
        assert (HL2 : L = (pre0 ++ mid ++ [92]) ++ [c] ++ genEsc r ++ rest) by (rewrite HL; rewrite <- !app_assoc; reflexivity).
        rewrite HL2. apply sl_sub_app'; lensimp; lia. }
      rewrite S1, S2.
      assert (S3 : spansOf L (tokSpec (len pre0 + len mid + 2) (len pre0 + len mid + 2) r) = [] ++ r).
      { replace (len pre0 + len mid + 2) with (len (pre0 ++ mid ++ [92; c])) by (lensimp; lia).
        rewrite <- (Z.add_0_r (len (pre0 ++ mid ++ [92; c]))) at 2. change 0 with (len (@nil Z)).
        apply (IH _ [] rest). rewrite HL. rewrite <- !app_assoc. reflexivity. }
      rewrite S3. reflexivity.
    + rewrite (genEsc_raw c r Ec) in HL.
      replace (len pre0 + len mid + 1) with (len pre0 + len (mid ++ [c])) by (lensimp; lia).
      rewrite (IH pre0 (mid ++ [c]) rest L). { rewrite <- app_assoc. reflexivity. }
      rewrite HL. rewrite <- !app_assoc. reflexivity.
Qed.

(* shifting the text by k shifts every node by k *)
Lemma textNode_shift k s e : 0 <= s <= e -> textNode (s + k) (e + k) = map (shiftI k) (textNode s e).
Proof.
  intros H. unfold textNode. replace (e + k - (s + k)) with (e - s) by lia. destruct (e - s =? 0); [reflexivity|].
  cbn [map shiftI mkI]. destruct (Z.leb_spec 0 e); [reflexivity|lia].
Qed.
Lemma tokSpec_shift k : forall t ps pos, 0 <= ps <= pos -> tokSpec (ps + k) (pos + k) t = map (shiftI k) (tokSpec ps pos t).
Proof.
  induction t as [|c r IH]; intros ps pos H; cbn [tokSpec]; [apply textNode_shift; exact H|].
  destruct (E c).
  - rewrite !map_app. rewrite (textNode_shift k ps pos H). f_equal. cbn [map app]. f_equal.
    + cbn [shiftI mkI]. destruct (Z.leb_spec 0 (pos + 2)); [|lia]. unfold mkI. cbn [map]. f_equal; lia.
    + replace (pos + k + 2) with (pos + 2 + k) by lia. apply IH. lia.
  - replace (pos + k + 1) with (pos + 1 + k) by lia. apply IH. lia.
Qed.
End Esc.

(* ---- the two instances ---- *)
Lemma esc_genEsc t : esc t = genEsc isASCIIPunctuation t. Proof. reflexivity. Qed.

Lemma okText_punct : forall t p, okText p t = true -> okTextE isASCIIPunctuation p t = true.
Proof.
  induction t as [|c r IH]; intros p H; [exact H|]. cbn [okText okTextE] in *. destruct (c =? 32).
  - apply andb_true_iff in H. destruct H as [H1 H2]. rewrite H1, (IH true H2). reflexivity.
  - apply andb_true_iff in H. destruct H as [H1 H2]. rewrite (IH false H2), andb_true_r.
    destruct (isASCIIPunctuation c); [reflexivity|]. rewrite orb_false_r in H1. unfold rawOK. rewrite (plain_inert c H1). reflexivity.
Qed.

(* the formatter's escaping style *)
Definition fescNE (t : bytes) : bytes := genEsc needsEscape t.   (* escaping every needsEscape byte and nothing else *)

Lemma needsEscape_ne c x : needsEscape c = false -> In x [92;91;93;42;95;45;61;60;62;38;35;126;96] -> c <> x.
Proof.
  unfold needsEscape. intros Hc Hx E. subst x.
  assert (existsb (Z.eqb c) [92;91;93;42;95;45;61;60;62;38;35;126;96] = true) by (apply existsb_exists; exists c; split; [exact Hx|apply Z.eqb_refl]).
  congruence.
Qed.
Lemma needsEscape_punct c : needsEscape c = true -> isASCIIPunctuation c = true.
Proof.
  unfold needsEscape. intros H. apply existsb_exists in H. destruct H as (x & Hx & E). apply Z.eqb_eq in E. subst x.
  cbn [In] in Hx. repeat (destruct Hx as [<-|Hx]; [reflexivity|]). contradiction.
Qed.
Lemma punct_raw_ok c : isASCIIPunctuation c = true -> needsEscape c = false -> rawOK c = true.
Proof.
  intros Hp Hn. pose proof (punct_range c Hp) as R. unfold rawOK. destruct (Z.eqb_spec c 33) as [|N33]; [apply orb_true_r|].
  rewrite orb_false_r. unfold inertByte. cbn [existsb].
  pose proof (fun x Hx => needsEscape_ne c x Hn Hx) as Hne.
  assert (c <> 42) by (apply Hne; cbn; tauto). assert (c <> 95) by (apply Hne; cbn; tauto).
  assert (c <> 91) by (apply Hne; cbn; tauto). assert (c <> 93) by (apply Hne; cbn; tauto).
  assert (c <> 96) by (apply Hne; cbn; tauto). assert (c <> 60) by (apply Hne; cbn; tauto).
  assert (c <> 92) by (apply Hne; cbn; tauto). assert (c <> 38) by (apply Hne; cbn; tauto).
  repeat match goal with |- context [c =? ?k] => destruct (Z.eqb_spec c k); [exfalso; lia|] end. reflexivity.
Qed.
Lemma plain_noEscape c : plainCh c = true -> needsEscape c = false.
Proof.
  intros H. apply plainCh_range in H. unfold needsEscape. cbn [existsb].
  repeat match goal with |- context [c =? ?k] => destruct (Z.eqb_spec c k); [exfalso; lia|] end. reflexivity.
Qed.
Lemma okText_fmt : forall t p, okText p t = true -> okTextE needsEscape p t = true.
Proof.
  induction t as [|c r IH]; intros p H; [exact H|]. cbn [okText okTextE] in *. destruct (c =? 32).
  - apply andb_true_iff in H. destruct H as [H1 H2]. rewrite H1, (IH true H2). reflexivity.
  - apply andb_true_iff in H. destruct H as [H1 H2]. rewrite (IH false H2), andb_true_r.
    destruct (needsEscape c) eqn:En; [apply needsEscape_punct; exact En|].
    destruct (isASCIIPunctuation c) eqn:Ep; [apply punct_raw_ok; assumption|].
    rewrite orb_false_r in H1. unfold rawOK. rewrite (plain_inert c H1). reflexivity.
Qed.

(* a text line: the escaped text followed by LF *)
Definition tline (t : bytes) : bytes := esc t ++ [10].

(* ---------------------------------------------------------------------------------------------- *)
(* MARKED text: every byte carries a flag "written with a backslash".  Needed for the formatter's   *)
(* output style after the list-marker repair, where '+', '.' and ')' are escaped only at the start   *)
(* of a line (position-dependent), so that no per-byte predicate E describes it.                     *)
(* ---------------------------------------------------------------------------------------------- *)
Definition genEscM (mt : list (Z * bool)) : bytes := flat_map (fun cb : Z * bool => if snd cb then [92; fst cb] else [fst cb]) mt.
Definition plainOf (mt : list (Z * bool)) : bytes := map fst mt.
Fixpoint okTextM (prevSp : bool) (mt : list (Z * bool)) : bool :=
  match mt with
  | [] => negb prevSp
  | (c, b) :: r => if c =? 32 then negb b && negb prevSp && okTextM true r
                   else (if b then isASCIIPunctuation c else rawOK c) && okTextM false r
  end.
Fixpoint tokSpecM (ps pos : Z) (mt : list (Z * bool)) : list inline :=
  match mt with
  | [] => textNode ps pos
  | (c, b) :: r => if b then textNode ps pos ++ [mkI TextKind (pos + 1) (pos + 2)] ++ tokSpecM (pos + 2) (pos + 2) r
                   else tokSpecM ps (pos + 1) r
  end.
Lemma genEscM_E c r : genEscM ((c, true) :: r) = 92 :: c :: genEscM r. Proof. reflexivity. Qed.
Lemma genEscM_raw c r : genEscM ((c, false) :: r) = c :: genEscM r. Proof. reflexivity. Qed.

Lemma genEscM_hd_ne91 : forall r p, okTextM p r = true -> hd 0 (genEscM r ++ [10]) <> 91.
Proof.
  intros r p H. destruct r as [|[c b] r']; [cbn; lia|]. cbn [okTextM] in H.
  destruct (Z.eqb_spec c 32) as [->|N32].
  - destruct b; [discriminate H|]. cbn. lia.
  - apply andb_true_iff in H. destruct H as [H _]. destruct b.
    + cbn. lia.
    + rewrite genEscM_raw. cbn [app hd]. intros ->. discriminate H.
Qed.

Lemma iloop_genM : forall mt prevSp, okTextM prevSp mt = true ->
  forall pre0 mid L fuel st s0, L = pre0 ++ mid ++ genEscM mt ++ [10] ->
  ISs st L s0 -> (length (genEscM mt) < fuel)%nat ->
  exists st', iloop fuel st (len pre0 + len mid) (len pre0) = (st', len L) /\ ISs st' L s0 /\
              map toInline (rk st') = map toInline (rk st) ++ tokSpecM (len pre0) (len pre0 + len mid) mt.
Proof.
  induction mt as [|[c b] r IH]; intros prevSp Hok pre0 mid L fuel st s0 HL HI Hfuel.
  - destruct fuel as [|f]; [cbn in Hfuel; lia|]. cbn [genEscM flat_map app] in HL.
    assert (Hlen : len L = len pre0 + len mid + 1) by (rewrite HL; lensimp; lia).
    pose proof (sl_len_nonneg pre0) as Hp0. pose proof (sl_len_nonneg mid) as Hm0.
    rewrite iloop_S. rewrite (ISs_inspan st L s0 HI), (ISs_spanEnd st L s0 HI).
    destruct (Z.ltb_spec (len pre0 + len mid) (len L)); [|lia]. cbn [andb].
    assert (Hat : at_ (isrc st) (len pre0 + len mid) = 10).
    { destruct HI as (Hsrc & _). rewrite Hsrc, HL. apply at_mid. }
    rewrite (istep_lf st _ _ Hat (ISs_isLast st L s0 HI)).
    destruct (addText_nodes st L s0 (len pre0) (len pre0 + len mid) HI ltac:(lia)) as (HI' & HR').
    exists (addText st (len pre0) (len pre0 + len mid)).
    split.
    { destruct f as [|f]; [cbn [iloop]; rewrite Hlen; reflexivity|].
      rewrite iloop_S. rewrite (ISs_inspan _ L s0 HI'), (ISs_spanEnd _ L s0 HI').
      destruct (Z.ltb_spec (len pre0 + len mid + 1) (len L)); [lia|]. cbn [andb]. rewrite Hlen. reflexivity. }
    split; [exact HI'|]. exact HR'.
  - cbn [okTextM] in Hok.
    pose proof (sl_len_nonneg pre0) as Hp0. pose proof (sl_len_nonneg mid) as Hm0.
    destruct (Z.eqb_spec c 32) as [E32'|N32].
    + subst c. apply andb_true_iff in Hok. destruct Hok as [Hok1 Hok]. apply andb_true_iff in Hok1. destruct Hok1 as [Hb _].
      destruct b; [discriminate Hb|].
      rewrite genEscM_raw in HL, Hfuel. cbn [length] in Hfuel. destruct fuel as [|f]; [lia|].
      assert (Hlen : len L = len pre0 + len mid + 1 + len (genEscM r ++ [10])) by (rewrite HL; lensimp; lia).
      pose proof (sl_len_nonneg (genEscM r ++ [10])) as Hr0.
      rewrite iloop_S. rewrite (ISs_inspan st L s0 HI), (ISs_spanEnd st L s0 HI).
      destruct (Z.ltb_spec (len pre0 + len mid) (len L)); [|lia]. cbn [andb].
      assert (Hat : at_ (isrc st) (len pre0 + len mid) = 32).
      { destruct HI as (Hsrc & _). rewrite Hsrc, HL. cbn [app]. apply at_mid. }
      assert (Hh : parseHardLineBreakSpace (sub (isrc st) (len pre0 + len mid) (spanEnd st)) = (1, false)).
      { rewrite (ISs_spanEnd st L s0 HI). destruct HI as (Hsrc & _). rewrite Hsrc. rewrite HL. rewrite sub_to_end. cbn [app].
        destruct r as [|[c' b'] r']; [discriminate Hok|]. cbn [okTextM] in Hok.
        destruct (Z.eqb_spec c' 32) as [->|Nc']; [destruct b'; discriminate Hok|].
        destruct b'.
        - rewrite genEscM_E. cbn [app]. apply hlbs_single. lia.
        - rewrite genEscM_raw. cbn [app]. apply hlbs_single. exact Nc'. }
      rewrite (istep_space st _ _ Hat Hh).
      destruct (IH true Hok pre0 (mid ++ [32]) L f st s0) as (st' & Hrun & HI' & HR').
      { rewrite HL. rewrite <- !app_assoc. reflexivity. }
      { exact HI. } { lia. }
      exists st'. rewrite sl_len_app in Hrun, HR'. change (len [32]) with 1 in Hrun, HR'. rewrite Z.add_assoc in Hrun, HR'.
      split; [exact Hrun|]. split; [exact HI'|]. cbn [tokSpecM]. exact HR'.
    + apply andb_true_iff in Hok. destruct Hok as [Hcl Hok].
      destruct b.
      * rewrite genEscM_E in HL, Hfuel. cbn [length] in Hfuel. destruct fuel as [|f]; [lia|].
        assert (Hlen : len L = len pre0 + len mid + 2 + len (genEscM r ++ [10])) by (rewrite HL; lensimp; lia).
        pose proof (sl_len_nonneg (genEscM r ++ [10])) as Hr0.
        rewrite iloop_S. rewrite (ISs_inspan st L s0 HI), (ISs_spanEnd st L s0 HI).
        destruct (Z.ltb_spec (len pre0 + len mid) (len L)); [|lia]. cbn [andb].
        assert (Hat : at_ (isrc st) (len pre0 + len mid) = 92).
        { destruct HI as (Hsrc & _). rewrite Hsrc, HL. cbn [app]. apply at_mid. }
        assert (Hat1 : at_ (isrc st) (len pre0 + len mid + 1) = c).
        { destruct HI as (Hsrc & _). rewrite Hsrc, HL. cbn [app]. apply at_mid1. }
        rewrite (istep_escape st _ _ c Hat Hat1 Hcl) by (rewrite (ISs_spanEnd st L s0 HI); lia).
        destruct (addText_nodes st L s0 (len pre0) (len pre0 + len mid) HI ltac:(lia)) as (HI1 & HR1).
        destruct (addText_nodes _ L s0 (len pre0 + len mid + 1) (len pre0 + len mid + 2) HI1 ltac:(lia)) as (HI2 & HR2).
        destruct (IH false Hok (pre0 ++ mid ++ [92; c]) [] L f
                     (addText (addText st (len pre0) (len pre0 + len mid)) (len pre0 + len mid + 1) (len pre0 + len mid + 2)) s0)
          as (st' & Hrun & HI' & HR').
        { rewrite HL. rewrite <- !app_assoc. reflexivity. }
        { exact HI2. } { lia. }
        exists st'. rewrite !sl_len_app in Hrun, HR'. change (len [92; c]) with 2 in Hrun, HR'. rewrite sl_len_nil in Hrun, HR'.
        rewrite Z.add_0_r in Hrun, HR'. rewrite Z.add_assoc in Hrun, HR'.
        split; [exact Hrun|]. split; [exact HI'|]. cbn [tokSpecM]. rewrite HR', HR2, HR1.
        unfold textNode at 2. replace (len pre0 + len mid + 2 - (len pre0 + len mid + 1)) with 1 by lia. change (1 =? 0) with false. cbv iota.
        rewrite <- !app_assoc. reflexivity.
      * rewrite genEscM_raw in HL, Hfuel. cbn [length] in Hfuel. destruct fuel as [|f]; [lia|].
        assert (Hlen : len L = len pre0 + len mid + 1 + len (genEscM r ++ [10])) by (rewrite HL; lensimp; lia).
        pose proof (sl_len_nonneg (genEscM r ++ [10])) as Hr0.
        rewrite iloop_S. rewrite (ISs_inspan st L s0 HI), (ISs_spanEnd st L s0 HI).
        destruct (Z.ltb_spec (len pre0 + len mid) (len L)); [|lia]. cbn [andb].
        assert (Hat : at_ (isrc st) (len pre0 + len mid) = c).
        { destruct HI as (Hsrc & _). rewrite Hsrc, HL. cbn [app]. apply at_mid. }
        assert (Hat1 : at_ (isrc st) (len pre0 + len mid + 1) = hd 0 (genEscM r ++ [10])).
        { destruct HI as (Hsrc & _). rewrite Hsrc, HL. cbn [app]. destruct (genEscM r ++ [10]) as [|y z] eqn:Ey.
          - destruct (genEscM r); discriminate Ey.
          - cbn [hd]. apply at_mid1. }
        rewrite (rawOK_first c Hcl N32 _ (fun _ => genEscM_hd_ne91 r false Hok) st _ _ Hat Hat1).
        destruct (IH false Hok pre0 (mid ++ [c]) L f st s0) as (st' & Hrun & HI' & HR').
        { rewrite HL. rewrite <- !app_assoc. reflexivity. }
        { exact HI. } { lia. }
        exists st'. rewrite sl_len_app in Hrun, HR'. change (len [c]) with 1 in Hrun, HR'. rewrite Z.add_assoc in Hrun, HR'.
        split; [exact Hrun|]. split; [exact HI'|]. cbn [tokSpecM]. exact HR'.
Qed.

Lemma parseInlines_genM mt pre0 L m (b : block) : okTextM true mt = true -> L = pre0 ++ genEscM mt ++ [10] ->
  bik b = [mkI UnparsedKind (len pre0) (len L)] ->
  parseInlines L m b = tokSpecM (len pre0) (len pre0) mt.
Proof.
  intros Hok HL Hb. unfold parseInlines. rewrite Hb. cbn [length].
  set (st0 := {| rk := []; isrc := L; unp := [mkI UnparsedKind (len pre0) (len L)]; upos := 0; stk := []; ign := false; nid := 1;
                 rootEnd := bend b; matcher := m |}).
  assert (HI0 : ISs (setIgn st0 false) L (len pre0)) by (repeat split).
  destruct (iloop_genM mt true Hok pre0 [] L (S (length L)) (setIgn st0 false) (len pre0)) as (st' & Hrun & HI' & HR').
  { exact HL. } { exact HI0. }
  { rewrite HL, !app_length. cbn [length]. lia. }
  rewrite sl_len_nil, Z.add_0_r in Hrun, HR'.
  assert (Hout : outer 2 st0 = setUpos st' 1).
  { cbn [outer]. change (len (unp st0) <=? upos st0) with false. cbv iota.
    change (nth (Z.to_nat (upos st0)) (unp st0) (mkI 0 0 0)) with (mkI UnparsedKind (len pre0) (len L)).
    change (ikind (mkI UnparsedKind (len pre0) (len L))) with UnparsedKind.
    change (UnparsedKind =? 0) with false. change (UnparsedKind =? IndentKind) with false. change (UnparsedKind =? UnparsedKind) with true.
    cbv iota. change (ign st0) with false. cbv iota. change (istart (mkI UnparsedKind (len pre0) (len L))) with (len pre0).
    change (isrc (setIgn st0 false)) with L. rewrite Hrun.
    rewrite (ISs_spanEnd st' L _ HI').
    assert (Ea : addText st' (len L) (len L) = st').
    { unfold addText, addNode, spanLen. rewrite Z.sub_diag. destruct ((0 <=? len L) && (0 <=? len L) && (len L <=? len L)); reflexivity. }
    rewrite Ea. destruct HI' as (H1 & H2 & H3 & H4).
    change (unp (setUpos st' (upos st' + 1))) with (unp st'). change (upos (setUpos st' (upos st' + 1))) with (upos st' + 1).
    rewrite H2, H3. reflexivity. }
  rewrite Hout. rewrite processEmphasis_nostack by (destruct HI' as (H1 & H2 & H3 & H4); exact H4).
  change (rk (setUpos st' 1)) with (rk st'). rewrite HR'. reflexivity.
Qed.

Lemma tokSpecM_isText : forall mt ps pos, Forall isTextI (tokSpecM ps pos mt).
Proof.
  induction mt as [|[c b] r IH]; intros ps pos; cbn [tokSpecM]; [apply textNode_isText|].
  destruct b; [|apply IH]. apply Forall_app. split; [apply textNode_isText|].
  constructor; [eexists; eexists; reflexivity|apply IH].
Qed.

(* the spans of the nodes, one by one: maximal raw runs and single escaped bytes *)
Definition chunk (mid : bytes) : list bytes := match mid with [] => [] | _ => [mid] end.
Fixpoint chunksM (mid : bytes) (mt : list (Z * bool)) : list bytes :=
  match mt with
  | [] => chunk mid
  | (c, b) :: r => if b then chunk mid ++ [[c]] ++ chunksM [] r else chunksM (mid ++ [c]) r
  end.
Lemma spans_textNode (pre0 mid rest : bytes) : map (spanOf (pre0 ++ mid ++ rest)) (textNode (len pre0) (len pre0 + len mid)) = chunk mid.
Proof.
  unfold textNode. replace (len pre0 + len mid - len pre0) with (len mid) by lia.
  destruct mid as [|x mid']; [reflexivity|]. destruct (Z.eqb_spec (len (x :: mid')) 0) as [Z0|NZ].
  - rewrite sl_len_cons in Z0. pose proof (sl_len_nonneg mid'). lia.
  - cbn [map chunk]. unfold spanOf. cbn [mkI istart iend]. rewrite sl_sub_app. reflexivity.
Qed.
Lemma tokSpecM_chunks : forall mt pre0 mid rest L, L = pre0 ++ mid ++ genEscM mt ++ rest ->
  map (spanOf L) (tokSpecM (len pre0) (len pre0 + len mid) mt) = chunksM mid mt.
Proof.
  induction mt as [|[c b] r IH]; intros pre0 mid rest L HL; cbn [tokSpecM chunksM].
  - rewrite HL. cbn [genEscM flat_map app]. apply spans_textNode.
  - destruct b.
    + rewrite genEscM_E in HL. rewrite !map_app.
      assert (S1 : map (spanOf L) (textNode (len pre0) (len pre0 + len mid)) = chunk mid) by (rewrite HL; apply spans_textNode).
      assert (S2 : map (spanOf L) [mkI TextKind (len pre0 + len mid + 1) (len pre0 + len mid + 2)] = [[c]]).
      { cbn [map]. unfold spanOf. cbn [mkI istart iend]. f_equal.
        assert (HL2 : L = (pre0 ++ mid ++ [92]) ++ [c] ++ genEscM r ++ rest) by (rewrite HL; rewrite <- !app_assoc; reflexivity).
        rewrite HL2. apply sl_sub_app'; lensimp; lia. }
      rewrite S1, S2. f_equal. f_equal.
      replace (len pre0 + len mid + 2) with (len (pre0 ++ mid ++ [92; c])) by (lensimp; lia).
      pose proof (IH (pre0 ++ mid ++ [92; c]) [] rest L) as IHr. rewrite sl_len_nil, Z.add_0_r in IHr. apply IHr.
      rewrite HL. rewrite <- !app_assoc. reflexivity.
    + rewrite genEscM_raw in HL.
      replace (len pre0 + len mid + 1) with (len pre0 + len (mid ++ [c])) by (lensimp; lia).
      apply (IH pre0 (mid ++ [c]) rest L). rewrite HL. rewrite <- !app_assoc. reflexivity.
Qed.
Lemma concat_chunksM : forall mt mid, concat (chunksM mid mt) = mid ++ plainOf mt.
Proof.
  induction mt as [|[c b] r IH]; intros mid; cbn [chunksM plainOf map].
  - destruct mid; [reflexivity|]. cbn [chunk concat]. rewrite !app_nil_r. reflexivity.
  - destruct b.
    + rewrite !concat_app. cbn [concat]. rewrite IH. cbn [app plainOf]. destruct mid; [reflexivity|]. cbn [chunk concat]. rewrite app_nil_r. reflexivity.
    + rewrite IH. rewrite <- app_assoc. reflexivity.
Qed.

(* the E-style is the marked style with flags E c *)
Definition markE (E : Z -> bool) (t : bytes) : list (Z * bool) := map (fun c => (c, E c)) t.
Lemma tokSpec_markE E : forall t ps pos, tokSpec E ps pos t = tokSpecM ps pos (markE E t).
Proof. induction t as [|c r IH]; intros ps pos; [reflexivity|]. cbn [tokSpec markE map tokSpecM]. fold (markE E r). rewrite !IH. reflexivity. Qed.
Lemma genEsc_markE E t : genEsc E t = genEscM (markE E t).
Proof. induction t as [|c r IH]; [reflexivity|]. unfold genEsc, genEscM, markE in *. cbn [map flat_map fst snd]. rewrite IH. reflexivity. Qed.
Lemma plainOf_markE E t : plainOf (markE E t) = t.
Proof. unfold plainOf, markE. rewrite map_map. cbn [fst]. apply map_id. Qed.
