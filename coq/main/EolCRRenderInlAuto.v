From Coq Require Import List ZArith Lia Bool.
Import ListNotations.
Require Import Base Tables Utf8 Tree Rdr Link Collect Html Recog Inl3a Inl3b ShapesBase ShapesA EolCRRdr.
Open Scope Z_scope.

(* ====================================================================================================
   Pure byte lemma: the text between the angle brackets of an autolink contains no line ending.
   ==================================================================================================== *)
Definition okE (c : Z) : bool := negb (c =? 10) && negb (c =? 13).
Lemma okE_spec c : okE c = true <-> c <> 10 /\ c <> 13.
Proof. unfold okE. destruct (Z.eqb_spec c 10), (Z.eqb_spec c 13); cbn; split; intros H; try discriminate; try tauto; lia. Qed.
Lemma okE_of (p : Z -> bool) c : p 10 = false -> p 13 = false -> p c = true -> okE c = true.
Proof. intros H1 H2 H. apply okE_spec. split; intros ->; congruence. Qed.
Lemma label_okE c : isLabelChar c = true -> okE c = true. Proof. apply okE_of; reflexivity. Qed.
Lemma local_okE c : isEmailLocal c = true -> okE c = true. Proof. apply okE_of; reflexivity. Qed.
Lemma scheme_okE c : isSchemeChar c = true -> okE c = true. Proof. apply okE_of; reflexivity. Qed.
Lemma letter_okE c : isASCIILetter c = true -> okE c = true. Proof. apply okE_of; reflexivity. Qed.
Lemma notctrl_okE c : isASCIIControl c = false -> okE c = true.
Proof.
  unfold isASCIIControl. intros H. apply orb_false_iff in H. destruct H as [H _]. apply Z.leb_gt in H. apply okE_spec. lia.
Qed.

Lemma em_labels_okE t : forall fuel e0 r, em_labels fuel t e0 = r -> 0 <= r -> 0 <= e0 <= len t ->
  e0 <= r <= len t /\ forall i, e0 <= i < r -> okE (at_ t i) = true.
Proof.
  induction fuel as [|f IH]; intros e0 r H Hr He0; cbn [em_labels] in H; [subst; split; [lia|intros; lia]|].
  destruct (Z.ltb_spec e0 (len t)) as [L|L]; cbn [andb] in H; [|subst; split; [lia|intros; lia]].
  destruct (Z.eqb_spec (at_ t e0) 46) as [E|E]; [|subst; split; [lia|intros; lia]].
  destruct (Z.ltb_spec (parseDomainLabel (from_ t (e0 + 1))) 0) as [L2|L2]; [lia|].
  destruct (parseDomainLabel_spec _ _ eq_refl L2) as (Hn & Hall). rewrite len_from in Hn by lia.
  destruct (IH _ _ H Hr ltac:(lia)) as (H1 & H2). split; [lia|].
  intros i Hi. destruct (Z.eq_dec i e0) as [->|Hne]; [rewrite E; reflexivity|].
  destruct (Z.lt_ge_cases i (e0 + 1 + parseDomainLabel (from_ t (e0 + 1)))) as [Hlt|Hge]; [|apply H2; lia].
  apply label_okE. specialize (Hall (i - (e0 + 1)) ltac:(lia)). rewrite at_from in Hall by lia.
  replace (e0 + 1 + (i - (e0 + 1))) with i in Hall by lia. exact Hall.
Qed.
Lemma parseEmail_okE t r : parseEmail t = r -> 0 <= r ->
  3 <= r <= len t /\ forall i, 0 <= i < r -> okE (at_ t i) = true.
Proof.
  unfold parseEmail. intros H Hr. destruct (countWhile_spec isEmailLocal t) as (Hc1 & Hc2).
  set (e := countWhile isEmailLocal t) in *.
  destruct (Z.eqb_spec e 0) as [E0|E0]; [lia|].
  destruct (Z.leb_spec (len t) e) as [L|L]; cbn [orb] in H; [lia|].
  destruct (Z.eqb_spec (at_ t e) 64) as [E|E]; cbn [negb] in H; [|lia].
  destruct (Z.ltb_spec (parseDomainLabel (from_ t (e + 1))) 0) as [L2|L2]; [lia|].
  destruct (parseDomainLabel_spec _ _ eq_refl L2) as (Hn & Hall). rewrite len_from in Hn by lia.
  destruct (em_labels_okE _ _ _ _ H Hr ltac:(lia)) as (H1 & H2). split; [lia|].
  intros i Hi.
  destruct (Z.lt_ge_cases i e) as [Hlt|Hge]; [apply local_okE, Hc2; lia|].
  destruct (Z.eq_dec i e) as [->|Hne]; [rewrite E; reflexivity|].
  destruct (Z.lt_ge_cases i (e + 1 + parseDomainLabel (from_ t (e + 1)))) as [Hlt|Hge2]; [|apply H2; lia].
  apply label_okE. specialize (Hall (i - (e + 1)) ltac:(lia)). rewrite at_from in Hall by lia.
  replace (e + 1 + (i - (e + 1))) with i in Hall by lia. exact Hall.
Qed.
Lemma al_uri_okE : forall l e0 r, al_uri l e0 = r -> 0 <= r -> 0 <= e0 ->
  exists j, 0 <= j < len l /\ r = e0 + j + 1 /\ at_ l j = 62 /\ forall k, 0 <= k < j -> okE (at_ l k) = true.
Proof.
  induction l as [|c rr IH]; intros e0 r H Hr He0; cbn [al_uri] in H; [lia|].
  rewrite len_cons. pose proof (len_nonneg rr).
  destruct (Z.eqb_spec c 62) as [E|E].
  - exists 0. repeat split; try lia; try (rewrite at_0; exact E).
  - destruct (isASCIIControl c || (c =? 32) || (c =? 60)) eqn:Eb; [lia|].
    destruct (IH _ _ H Hr ltac:(lia)) as (j & Hj & -> & Hat & Hall).
    exists (j + 1). repeat split; try lia; [rewrite at_S by lia; exact Hat|].
    intros k Hk. destruct (Z.eq_dec k 0) as [->|Hne]; [|rewrite at_S' by lia; apply Hall; lia].
    rewrite at_0. apply orb_false_iff in Eb. destruct Eb as [Eb _]. apply orb_false_iff in Eb. destruct Eb as [Eb _].
    apply notctrl_okE, Eb.
Qed.

Theorem parseAutolink_noEol t e : parseAutolink t = e -> 0 <= e ->
  5 <= e <= len t /\ forall i, 0 < i < e - 1 -> at_ t i <> 10 /\ at_ t i <> 13.
Proof.
  unfold parseAutolink. intros H He.
  destruct (Z.ltb_spec (len t) 5) as [L|L]; cbn [orb] in H; [lia|].
  destruct (Z.eqb_spec (at_ t 0) 60) as [E0|E0]; cbn [negb] in H; [|lia].
  destruct ((0 <=? parseEmail (from_ t 1)) && (1 + parseEmail (from_ t 1) <? len t) && (at_ t (1 + parseEmail (from_ t 1)) =? 62)) eqn:Em.
  - apply andb_true_iff in Em. destruct Em as [Em E62]. apply andb_true_iff in Em. destruct Em as [Ege Elt].
    apply Z.leb_le in Ege. apply Z.ltb_lt in Elt. apply Z.eqb_eq in E62.
    destruct (parseEmail_okE _ _ eq_refl Ege) as (Hr & Hall). subst e. split; [lia|].
    intros i Hi. apply okE_spec. specialize (Hall (i - 1) ltac:(lia)). rewrite at_from in Hall by lia.
    replace (1 + (i - 1)) with i in Hall by lia. exact Hall.
  - clear Em. destruct (isASCIILetter (at_ t 1)) eqn:El; cbn [negb] in H; [|lia].
    destruct (countWhile_spec isSchemeChar (from_ t 2)) as (Hc1 & Hc2). rewrite len_from in Hc1 by lia.
    set (n := countWhile isSchemeChar (from_ t 2)) in *.
    destruct (Z.ltb_spec (2 + n) 3) as [L3|L3]; cbn [orb] in H; [lia|].
    destruct (Z.ltb_spec 33 (2 + n)) as [L33|L33]; [lia|].
    destruct (Z.leb_spec (len t) (2 + n)) as [Ln|Ln]; cbn [orb] in H; [lia|].
    destruct (Z.eqb_spec (at_ t (2 + n)) 58) as [E58|E58]; cbn [negb] in H; [|lia].
    destruct (al_uri_okE _ _ _ H He ltac:(lia)) as (j & Hj & -> & Hat & Hall).
    rewrite len_from in Hj by lia. split; [lia|].
    intros i Hi. apply okE_spec.
    destruct (Z.eq_dec i 1) as [->|N1]; [apply letter_okE, El|].
    destruct (Z.lt_ge_cases i (2 + n)) as [Hlt|Hge].
    { apply scheme_okE. specialize (Hc2 (i - 2) ltac:(lia)). rewrite at_from in Hc2 by lia.
      replace (2 + (i - 2)) with i in Hc2 by lia. exact Hc2. }
    destruct (Z.eq_dec i (2 + n)) as [->|Nn]; [rewrite E58; reflexivity|].
    specialize (Hall (i - (2 + n + 1)) ltac:(lia)). rewrite at_from in Hall by lia.
    replace (2 + n + 1 + (i - (2 + n + 1))) with i in Hall by lia. exact Hall.
Qed.

(* as the child is created in istep: [pos + 1, pos + ae - 1) of the source *)
Lemma noEolb_range (src : bytes) a b : 0 <= a ->
  (forall i, a <= i < b -> at_ src i <> 10 /\ at_ src i <> 13) -> EolCRRdr.noEolb (sub src a b) = true.
Proof.
  intros Ha H. unfold EolCRRdr.noEolb. apply forallb_at. intros i Hi. pose proof (len_sub_le src a b).
  rewrite at_sub by lia. destruct (H (a + i) ltac:(lia)) as [A B]. apply Z.eqb_neq in A, B. rewrite A, B. reflexivity.
Qed.
Corollary autolink_child_noEol (src : bytes) pos lim ae : 0 <= pos -> parseAutolink (sub src pos lim) = ae -> 0 <= ae ->
  EolCRRdr.noEolb (sub src (pos + 1) (ae + pos - 1)) = true.
Proof.
  intros Hp H He. destruct (parseAutolink_noEol _ ae H He) as ((A1 & A2) & A3).
  apply noEolb_range; [lia|]. intros i Hi. pose proof (len_sub_le src pos lim).
  specialize (A3 (i - pos) ltac:(lia)). rewrite at_sub in A3 by lia. replace (pos + (i - pos)) with i in A3 by lia. exact A3.
Qed.
Print Assumptions autolink_child_noEol.
