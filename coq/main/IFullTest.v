(* IFullTest.v -- T71: vm_compute tests of IFullDefs.parseFull_item_statement and renderDoc_item_statement, run before proving:
   the documents of ItemSimTest and 37 documents with inline constructs over several lines, 8 markers (bullets, "1." "1)" "123."
   "123456789)" "0."), N in 1..4 for the tree and N in {1,4} for the renderer (two safe-mode configurations); every instance that
   satisfies the hypotheses (okD, notTB) is checked. *)
From Coq Require Import List ZArith Lia Bool String Ascii.
Import ListNotations.
Require Import Base Tree Recog LP Driver Inl3e Render QuoteSimDefs ItemSimDefs ItemSimTest IFullDefs.
Open Scope Z_scope.
Definition checkF (mk : bytes) (N : Z) (D : bytes) : bool :=
  let '(delim, _, _) := parseListMarker (mk ++ [32]) in
  let '(l, c) := parseFull (item mk N D) in
  let K := len mk + N in
  let kids := itemKids K D (fst (parseBlocks D)) in
  let lbL := match l with r :: _ => blastBlank (rb_blk r) | [] => false end in
  let lbI := match l with r :: _ => match bkids (rb_blk r) with i :: _ => blastBlank i | [] => false end | [] => false end in
  (c =? 0) && leqb reqb l [itemRoot mk N delim D (looseOf kids) lbL lbI (itemKids3 K D (fst (parseFull D)))].
Definition cS (sb : Z) (fo : bool) : cfg := {| softBreak := sb; ignoreRaw := true; filterOn := fo; filterP := fun nm => leqb Z.eqb nm [112] || leqb Z.eqb nm [108;105] |}.
Definition checkR (c : cfg) (mk : bytes) (N : Z) (D : bytes) : bool :=
  let '(delim, _, _) := parseListMarker (mk ++ [32]) in
  let K := len mk + N in
  let loose := looseOf (itemKids K D (fst (parseBlocks D))) in
  leqb Z.eqb (renderDoc c (item mk N D)) (listOpen c mk delim ++ openTag c s_li ++ List.concat (renderPiecesT c D (negb loose)) ++ closeTag c s_li ++ listClose c delim).
Local Open Scope string_scope.
Definition docs3 : list string := [
  "a *b" ++ n ++ "c* d" ++ n; "[x](/u" ++ n ++ "'t" ++ n ++ "u')" ++ n; "`a" ++ n ++ "b`" ++ n; "a <b" ++ n ++ "c> d" ++ n; "<http://x.y> z" ++ n;
  "![a" ++ n ++ "b](/u)" ++ n; "[f]: /u 't'" ++ n ++ "[f]" ++ n; "[a" ++ n ++ "b][f]" ++ n ++ "[F]: /u" ++ n; "a  " ++ n ++ "b\" ++ n ++ "c" ++ n;
  "**a" ++ n ++ "_b_" ++ n ++ "c**" ++ n; "- [x](</a b>" ++ n ++ "  't')" ++ n; "&amp; &#35; \* x" ++ n; "a <!-- c" ++ n ++ "d --> e" ++ n; "``a" ++ n ++ " b`` c" ++ n;
  "[a]: /u" ++ n ++ "  'x" ++ n ++ "   y'" ++ n ++ "[a] and [a][] and [b][a]" ++ n; "# h *e*" ++ n ++ "t" ++ n ++ "===" ++ n; "1. a" ++ n ++ "   `b" ++ n ++ "   c`" ++ n;
  "> q *e" ++ n ++ "> f*" ++ n; "<div>" ++ n ++ "*x*" ++ n; "```" ++ n ++ "*c*" ++ n ++ "```" ++ n; 
  "[a](<b>) [c](d 'e') [f](g (h))" ++ n; "[![i](j)](k)" ++ n; "a<br/>b" ++ n ++ "<x y='z" ++ n ++ "w'>" ++ n; "[a](b 'c" ++ n; "[a](b 'c" ++ n ++ "d" ++ n;
  "\" ++ n ++ "x  " ++ n; "[a]: <b" ++ n ++ "c>" ++ n; "[a][b" ++ n ++ "c]" ++ n ++ "[b c]: /u" ++ n; 
  "a <?p" ++ n ++ "q" ++ n ++ "r?> b" ++ n; "a <![CDATA[x" ++ n ++ "y]]> b" ++ n; "a </b" ++ n ++ "  > c" ++ n; "- a <b" ++ n ++ "  c" ++ n ++ "  d='e'> f" ++ n;
  "# *a*" ++ n ++ "## `b` [c](d) #" ++ n; "# a <b" ++ n; "### ![x](y 'z')"; "> - a" ++ n ++ ">" ++ n ++ "b *c" ++ n ++ "d*"; "p" ++ n ++ "> - a" ++ n ++ ">" ++ n ++ "*b*"
].
Local Close Scope string_scope.
Definition allDocs := docs ++ docs3.
Definition failsF := flat_map (fun mk => flat_map (fun N => flat_map (fun d => let D := s2b d in
     if okD D && notTB mk N D && negb (checkF mk N D) then [(mk, N, D)] else []) allDocs) [1;2;3;4]) mks.
Definition failsR := flat_map (fun mk => flat_map (fun N => flat_map (fun d => let D := s2b d in
     if okD D && notTB mk N D && negb (checkR (cS 0 false) mk N D && checkR (cS 2 true) mk N D) then [(mk, N, D)] else []) allDocs) [1;4]) mks.
Example tree_statement_holds : failsF = []. Proof. vm_compute. reflexivity. Qed.
Example render_statement_holds : failsR = []. Proof. vm_compute. reflexivity. Qed.
Definition countedF : Z := len (flat_map (fun mk => flat_map (fun N => flat_map (fun d => let D := s2b d in if okD D && notTB mk N D then [tt] else []) allDocs) [1;2;3;4]) mks).
Example counted_ok : 25 <=? countedF = true. Proof. vm_compute. reflexivity. Qed.
