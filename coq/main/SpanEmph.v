From Coq Require Import List ZArith Lia Bool Permutation.
Import ListNotations.
Require Import Base Tables Utf8 Tree Rdr Link Collect Html Recog Inl3a Inl3b Inl3c Inl3d SpanForest SpanIds SpanStack.
Open Scope Z_scope.

(* ================================================================================================
   Layer 2: processEmphasis preserves "valid + nested + ordered" on the level its delimiter nodes live on.
   ================================================================================================ *)

(* ---- state-level forms of the identity-directed operations ---- *)
Section StLevel.
  Variables (c : ctx) (pre : list pn) (n : pn) (post : list pn) (id : Z) (st : ist).
  Hypothesis Hrk : rk st = plug c (pre ++ n :: post).
  Hypothesis Hid : 0 < id.
  Hypothesis Hn : pid n = id.
  Hypothesis Hnd : NoDup (pidsF (rk st)).

  Lemma st_nodeOf : nodeOf st id = n.
  Proof. unfold nodeOf. rewrite Hrk in *. rewrite (find_plug c pre n post id Hid Hn Hnd). reflexivity. Qed.
  Lemma st_updN g : rk (updN st id g) = plug c (pre ++ g n :: post).
  Proof. unfold updN. cbn [rk setRk]. rewrite Hrk in *. apply upd_plug; assumption. Qed.
  Lemma st_remove : rk (removeNode st id) = plug c (pre ++ post).
  Proof. unfold removeNode. cbn [rk setRk]. rewrite Hrk in *. apply remove_plug; assumption. Qed.
End StLevel.

Lemma st_wrap_some c pa a pm b pr sid eid st kind :
  rk st = plug c (pa ++ a :: pm ++ b :: pr) -> 0 < sid -> 0 < eid -> pid a = sid -> pid b = eid -> NoDup (pidsF (rk st)) ->
  rk (fst (wrap st kind sid (Some eid))) = plug c (pa ++ a :: PN (nid st) kind (pe a) (ps b) 0 [] pm :: b :: pr).
Proof.
  intros Hrk Hs He Ea Eb Hnd. unfold wrap. cbn [fst rk bumpId setRk].
  assert (Hb : nodeOf st eid = b).
  { apply (st_nodeOf c (pa ++ a :: pm) b pr eid st); try assumption. rewrite Hrk. rewrite <- app_assoc. reflexivity. }
  rewrite Hb. rewrite Hrk in *. rewrite (wrap_plug c pa a (pm ++ b :: pr) sid Hs Ea Hnd). f_equal.
  apply wrapLevel_some; try assumption.
  - apply (lvl_pre_top c pa a (pm ++ b :: pr) sid Hs Ea Hnd).
  - assert (Hnd' : NoDup (pidsF (plug c ((pa ++ a :: pm) ++ b :: pr)))) by (rewrite <- app_assoc; exact Hnd).
    pose proof (lvl_pre c (pa ++ a :: pm) b pr eid He Eb Hnd') as H. apply top_not_in; [exact He|].
    intros Hin. apply H. rewrite pidsF_app, pidsF_cons. apply in_or_app. right. apply in_or_app. right. exact Hin.
Qed.

(* identities of a level after the surgery steps *)
Lemma pidsF_plug_eq c L L' : pidsF L' = pidsF L -> pidsF (plug c L') = pidsF (plug c L).
Proof. intros E. rewrite !pidsF_plug. destruct c; rewrite ?E; reflexivity. Qed.
Lemma pidsF_plug_perm c L L' : Permutation (pidsF L') (pidsF L) -> Permutation (pidsF (plug c L')) (pidsF (plug c L)).
Proof. intros E. rewrite !pidsF_plug. destruct c; [exact E|]. apply Permutation_app_head, Permutation_app_head, E. Qed.
Lemma pidsF_replace pre n n' post : pidsN n' = pidsN n -> pidsF (pre ++ n' :: post) = pidsF (pre ++ n :: post).
Proof. intros E. rewrite !pidsF_app, !pidsF_cons, E. reflexivity. Qed.

Lemma pidsF_wrapped pa a pm b pr newId kind s e : 0 < newId ->
  Permutation (pidsF (pa ++ a :: PN newId kind s e 0 [] pm :: b :: pr)) (newId :: pidsF (pa ++ a :: pm ++ b :: pr)).
Proof.
  intros Hn. rewrite !pidsF_app, !pidsF_cons. cbn [pidsN]. apply Z.ltb_lt in Hn. rewrite Hn. fold (pidsF pm).
  rewrite pidsF_app, pidsF_cons.
  rewrite <- !app_assoc. cbn [app].
  rewrite !(app_assoc (pidsF pa) (pidsN a)). apply Permutation_sym.
  exact (Permutation_middle (pidsF pa ++ pidsN a) (pidsF pm ++ pidsN b ++ pidsF pr) newId).
Qed.

(* ---- numeric facts about the scans over the stack ---- *)
Lemma pe_findCloser_spec : forall fuel stack cp, 0 <= cp ->
  pe_findCloser fuel stack cp = -1 \/ (cp <= pe_findCloser fuel stack cp < len stack).
Proof.
  induction fuel as [|f IH]; intros stack cp Hcp; [left; reflexivity|]. cbn [pe_findCloser].
  destruct (Z.leb_spec (len stack) cp) as [A|A]; [left; reflexivity|].
  destruct (_ && _); [right; lia|]. destruct (IH stack (cp + 1) ltac:(lia)) as [E|E]; [left; exact E|right; lia].
Qed.
Lemma pe_findOpener_spec : forall fuel stack oi lo c, lo <= pe_findOpener fuel stack oi lo c -> pe_findOpener fuel stack oi lo c <= oi.
Proof.
  induction fuel as [|f IH]; intros stack oi lo c H; cbn [pe_findOpener] in *; [lia|].
  destruct (_ && _); [|lia]. specialize (IH stack (oi - 1) lo c H). lia.
Qed.
Lemma obIndex_range d : 0 <= obIndex d < 14.
Proof.
  unfold obIndex. destruct (_ || _).
  - pose proof (Z.mod_pos_bound (d_n d) 3 ltac:(lia)). destruct (hasFlag d fOpener); destruct (d_typ d =? tUnder); lia.
  - destruct (_ =? tLink); lia.
Qed.
Definition OBI (sb : Z) (ob : list Z) : Prop := length ob = 14%nat /\ Forall (fun b => sb <= b) ob.
Lemma getOB_ge sb ob i : OBI sb ob -> 0 <= i < 14 -> sb <= getOB ob i.
Proof.
  intros [Hl Hf] Hi. unfold getOB. rewrite Forall_forall in Hf. apply Hf. apply nth_In. lia.
Qed.
Lemma OBI_setOB sb ob i v : OBI sb ob -> 0 <= i < 14 -> sb <= v -> OBI sb (setOB ob i v).
Proof.
  intros [Hl Hf] Hi Hv. unfold setOB, upto, from_. split.
  - rewrite !app_length, firstn_length, skipn_length. cbn [length]. lia.
  - apply Forall_app. split; [|apply Forall_app; split; [constructor; [exact Hv|constructor]|]].
    + rewrite Forall_forall in *. intros x Hx. apply Hf.
      rewrite <- (firstn_skipn (Z.to_nat i) ob). apply in_or_app. left. exact Hx.
    + rewrite Forall_forall in *. intros x Hx. apply Hf.
      rewrite <- (firstn_skipn (Z.to_nat (i + 1)) ob). apply in_or_app. right. exact Hx.
Qed.
Lemma OBI_map sb ob f : OBI sb ob -> (forall b, sb <= b -> sb <= f b) -> OBI sb (map f ob).
Proof.
  intros [Hl Hf] H. split; [rewrite map_length; exact Hl|]. rewrite Forall_forall in *. intros x Hx.
  apply in_map_iff in Hx. destruct Hx as (y & <- & Hy). apply H, Hf, Hy.
Qed.
Lemma OBI_repeat sb : OBI sb (repeat sb 14).
Proof. split; [reflexivity|]. rewrite Forall_forall. intros x Hx. apply repeat_spec in Hx. lia. Qed.

(* ---- identity bookkeeping of a state ---- *)
Definition IdsOK (st : ist) : Prop :=
  NoDup (pidsF (rk st)) /\ Forall (fun i => i < nid st) (pidsF (rk st)) /\ 0 < nid st.

Lemma IdsOK_setStk st v : IdsOK st -> IdsOK (setStk st v). Proof. exact (fun H => H). Qed.

Lemma IdsOK_upd c pre n post id st g :
  rk st = plug c (pre ++ n :: post) -> 0 < id -> pid n = id -> IdsOK st -> pidsN (g n) = pidsN n ->
  rk (updN st id g) = plug c (pre ++ g n :: post) /\ IdsOK (updN st id g).
Proof.
  intros Hrk Hid Hn (A & B & C) Hg.
  pose proof (st_updN c pre n post id st Hrk Hid Hn A g) as E. split; [exact E|].
  unfold IdsOK. rewrite E. change (nid (updN st id g)) with (nid st).
  rewrite (pidsF_plug_eq c (pre ++ n :: post)) by (apply pidsF_replace; exact Hg).
  rewrite <- Hrk. tauto.
Qed.
Lemma IdsOK_remove c pre n post id st :
  rk st = plug c (pre ++ n :: post) -> 0 < id -> pid n = id -> IdsOK st ->
  rk (removeNode st id) = plug c (pre ++ post) /\ IdsOK (removeNode st id).
Proof.
  intros Hrk Hid Hn (A & B & C).
  pose proof (st_remove c pre n post id st Hrk Hid Hn A) as E. split; [exact E|].
  unfold IdsOK. rewrite E. change (nid (removeNode st id)) with (nid st). rewrite Hrk in A, B.
  rewrite pidsF_plug in *. rewrite pidsF_app, pidsF_cons in A, B. rewrite pidsF_app.
  destruct c as [|pre0 n0].
  - split; [eapply NoDup_remove_mid; exact A|]. split; [eapply Forall_app_mid; exact B|exact C].
  - rewrite !app_assoc in A, B. rewrite !app_assoc. split; [|split; [|exact C]].
    + rewrite <- (app_assoc _ (pidsN n)) in A. eapply NoDup_remove_mid. exact A.
    + rewrite <- (app_assoc _ (pidsN n)) in B. eapply Forall_app_mid. exact B.
Qed.
Lemma IdsOK_wrap c pa a pm b pr sid eid st kind :
  rk st = plug c (pa ++ a :: pm ++ b :: pr) -> 0 < sid -> 0 < eid -> pid a = sid -> pid b = eid -> IdsOK st ->
  rk (fst (wrap st kind sid (Some eid))) = plug c (pa ++ a :: PN (nid st) kind (pe a) (ps b) 0 [] pm :: b :: pr) /\
  IdsOK (fst (wrap st kind sid (Some eid))) /\ nid (fst (wrap st kind sid (Some eid))) = nid st + 1 /\
  stk (fst (wrap st kind sid (Some eid))) = stk st.
Proof.
  intros Hrk Hs He Ea Eb (A & B & C).
  pose proof (st_wrap_some c pa a pm b pr sid eid st kind Hrk Hs He Ea Eb A) as E. split; [exact E|].
  split; [|split; reflexivity].
  unfold IdsOK. rewrite E. change (nid (fst (wrap st kind sid (Some eid)))) with (nid st + 1).
  assert (P : Permutation (pidsF (plug c (pa ++ a :: PN (nid st) kind (pe a) (ps b) 0 [] pm :: b :: pr))) (nid st :: pidsF (rk st))).
  { rewrite Hrk. rewrite !pidsF_plug. destruct c as [|pre0 n0]; [apply pidsF_wrapped; exact C|].
    eapply Permutation_trans; [apply Permutation_app_head, Permutation_app_head, pidsF_wrapped; exact C|].
    rewrite !app_assoc. apply Permutation_sym, Permutation_middle. }
  split; [|split; [|lia]].
  - eapply Permutation_NoDup; [apply Permutation_sym; exact P|]. constructor; [|exact A].
    intros Hin. rewrite Forall_forall in B. specialize (B _ Hin). lia.
  - eapply Forall_perm; [apply Permutation_sym; exact P|]. constructor; [lia|].
    rewrite Forall_forall in *. intros x Hx. specialize (B x Hx). lia.
Qed.

(* ---- the invariant of pe_loop on a level ---- *)
Record PEI (c : ctx) (sb : Z) (st : ist) (L : list pn) : Prop := mkPEI {
  pei_rk : rk st = plug c L;
  pei_ids : IdsOK st;
  pei_sub : subIds (map d_node (from_ (stk st) sb)) L;
  pei_sb : 0 <= sb <= len (stk st) }.

Definition frameE (st st' : ist) : Prop :=
  isrc st' = isrc st /\ unp st' = unp st /\ upos st' = upos st /\ ign st' = ign st /\ rootEnd st' = rootEnd st /\
  matcher st' = matcher st /\ nid st <= nid st'.
Lemma frameE_refl st : frameE st st. Proof. unfold frameE. repeat split; lia. Qed.
Lemma frameE_trans a b c : frameE a b -> frameE b c -> frameE a c.
Proof. unfold frameE. intros (A1&A2&A3&A4&A5&A6&A7) (B1&B2&B3&B4&B5&B6&B7). repeat split; try congruence. lia. Qed.

Lemma nthD_app_l (Y T : list delim) i : 0 <= i < len Y -> nthD (Y ++ T) i = nthD Y i.
Proof. intros H. unfold nthD, len in *. apply app_nth1. lia. Qed.

Lemma stack_split2 (D : list delim) sb oi cp : 0 <= sb <= oi -> oi < cp -> cp < len D ->
  exists X1 A M R, D = X1 ++ A ++ nthD D oi :: M ++ nthD D cp :: R /\ len X1 = sb /\ len A = oi - sb /\ len M = cp - oi - 1.
Proof.
  intros H1 H2 H3.
  destruct (stack_split D cp ltac:(lia)) as (Y & R & ED & LY).
  destruct (stack_split Y oi ltac:(lia)) as (Z & M & EY & LZ).
  destruct (split_pre Z sb ltac:(lia)) as (X1 & A & EZ & LX).
  exists X1, A, M, R.
  assert (Eo : nthD D oi = nthD Y oi) by (rewrite ED at 1; apply nthD_app_l; lia).
  split; [|split; [exact LX|split]].
  - rewrite Eo. rewrite ED at 1. rewrite EY at 1. rewrite EZ. rewrite <- !app_assoc. reflexivity.
  - subst Z. rewrite len_app in LZ. lia.
  - rewrite EY in LY. rewrite len_app, len_cons in LY. lia.
Qed.

(* dropping a closer that is not an opener from the stack *)
Lemma PEI_delcloser c sb st L cp : PEI c sb st L -> sb <= cp < len (stk st) ->
  PEI c sb (setStk st (delStack (stk st) cp (cp + 1))) L /\
  upto (stk (setStk st (delStack (stk st) cp (cp + 1)))) sb = upto (stk st) sb.
Proof.
  intros [Hrk Hids Hsub Hsb] Hcp. cbn [stk setStk].
  destruct (stack_split (stk st) cp ltac:(lia)) as (X & R & ED & LX).
  destruct (split_pre X sb ltac:(lia)) as (X1 & X2 & EX & LX1).
  assert (LX2 : len X1 + len X2 = cp) by (rewrite <- LX, EX, len_app; reflexivity).
  set (d := nthD (stk st) cp) in *.
  assert (E1 : delStack (stk st) cp (cp + 1) = X1 ++ X2 ++ R).
  { rewrite ED, EX. change (d :: R) with ([d] ++ R).
    rewrite (delStack_spec (X1 ++ X2) [d] R cp (cp + 1)); [symmetry; apply app_assoc|rewrite len_app; lia|rewrite len_app, len_cons, len_nil; lia]. }
  assert (E2 : from_ (stk st) sb = X2 ++ d :: R).
  { rewrite ED, EX, <- app_assoc. apply from_app_len. lia. }
  rewrite E1. split.
  - constructor; cbn [rk stk setStk]; try assumption.
    + rewrite (from_app_len X1 (X2 ++ R)) by lia. rewrite E2 in Hsub. rewrite map_app in *. cbn [map] in Hsub.
      apply subIds_split in Hsub. destruct Hsub as (pre & n & post & -> & _ & _ & H1 & H2).
      apply subIds_app; [exact H1|]. apply (subIds_appl _ _ [n]). exact H2.
    + rewrite !len_app. pose proof (len_nonneg X2). pose proof (len_nonneg R). lia.
  - rewrite ED, EX, <- app_assoc. rewrite !upto_app_len by lia. reflexivity.
Qed.

Lemma leafy_pidsN n : leafy n -> pidsN n = [pid n].
Proof. intros (A & B & _). rewrite pidsN_eq, A. apply Z.ltb_lt in B. rewrite B. reflexivity. Qed.

(* the state after shrinking opener and closer, wrapping, and deleting the delimiters in between *)
Lemma pe_wrapped c sb st L oi cp k kind :
  PEI c sb st L -> 0 <= sb <= oi -> oi < cp -> cp < len (stk st) ->
  let o := nthD (stk st) oi in let c0 := nthD (stk st) cp in
  let st1 := updN st (d_node o) (fun n => setSpan n (ps n) (pe n - k)) in
  let st2 := updN st1 (d_node c0) (fun n => setSpan n (ps n + k) (pe n)) in
  let st3 := fst (wrap st2 kind (d_node o) (Some (d_node c0))) in
  let st4 := setStk st3 (delStack (stk st) (oi + 1) cp) in
  exists pa on pm cn pr X1 A R,
    L = pa ++ on :: pm ++ cn :: pr /\ leafy on /\ leafy cn /\ pid on = d_node o /\ pid cn = d_node c0 /\
    nodeOf st (d_node o) = on /\ nodeOf st (d_node c0) = cn /\
    subIds (map d_node A) pa /\ subIds (map d_node R) pr /\ len X1 = sb /\ len A = oi - sb /\ upto (stk st) sb = X1 /\
    rk st4 = plug c (pa ++ setSpan on (ps on) (pe on - k) ::
                     PN (nid st) kind (pe on - k) (ps cn + k) 0 [] pm :: setSpan cn (ps cn + k) (pe cn) :: pr) /\
    IdsOK st4 /\ stk st4 = X1 ++ A ++ o :: c0 :: R /\ frameE st st4.
Proof.
  intros [Hrk Hids Hsub Hsb] H1 H2 H3 o c0 st1 st2 st3 st4.
  destruct (stack_split2 (stk st) sb oi cp H1 H2 H3) as (X1 & A & M & R & ED & LX & LA & LM).
  fold o c0 in ED.
  assert (Efrom : from_ (stk st) sb = A ++ o :: M ++ c0 :: R) by (rewrite ED; apply from_app_len; lia).
  rewrite Efrom in Hsub. rewrite map_app in Hsub. cbn [map] in Hsub.
  apply subIds_split in Hsub. destruct Hsub as (pa & on & L2 & EL & Eon & Lon & SA & S2).
  rewrite map_app in S2. cbn [map] in S2.
  apply subIds_split in S2. destruct S2 as (pm & cn & pr & EL2 & Ecn & Lcn & SM & SR).
  subst L2. exists pa, on, pm, cn, pr, X1, A, R.
  assert (Po : 0 < d_node o) by (rewrite <- Eon; apply Lon).
  assert (Pc : 0 < d_node c0) by (rewrite <- Ecn; apply Lcn).
  assert (Hrk' : rk st = plug c (pa ++ on :: pm ++ cn :: pr)) by (rewrite Hrk, EL; reflexivity).
  assert (Hrk2 : rk st = plug c ((pa ++ on :: pm) ++ cn :: pr)) by (rewrite Hrk'; rewrite <- app_assoc; reflexivity).
  destruct Hids as (Hnd & Hlt & Hnid).
  split; [exact EL|]. split; [exact Lon|]. split; [exact Lcn|]. split; [exact Eon|]. split; [exact Ecn|].
  split; [apply (st_nodeOf c pa on (pm ++ cn :: pr)); assumption|].
  split; [apply (st_nodeOf c (pa ++ on :: pm) cn pr); assumption|].
  split; [exact SA|]. split; [exact SR|]. split; [exact LX|]. split; [exact LA|].
  split; [rewrite ED; apply upto_app_len; lia|].
  (* st1 *)
  destruct (IdsOK_upd c pa on (pm ++ cn :: pr) (d_node o) st (fun n => setSpan n (ps n) (pe n - k)) Hrk' Po Eon
              (conj Hnd (conj Hlt Hnid)) (pidsN_setSpan _ _ _)) as [R1 I1].
  fold st1 in R1, I1.
  (* st2 *)
  assert (R1' : rk st1 = plug c ((pa ++ setSpan on (ps on) (pe on - k) :: pm) ++ cn :: pr)) by (rewrite R1, <- app_assoc; reflexivity).
  destruct (IdsOK_upd c (pa ++ setSpan on (ps on) (pe on - k) :: pm) cn pr (d_node c0) st1 (fun n => setSpan n (ps n + k) (pe n)) R1' Pc Ecn
              I1 (pidsN_setSpan _ _ _)) as [R2 I2].
  fold st2 in R2, I2. rewrite <- app_assoc in R2. cbn [app] in R2.
  (* st3 *)
  destruct (IdsOK_wrap c pa (setSpan on (ps on) (pe on - k)) pm (setSpan cn (ps cn + k) (pe cn)) pr (d_node o) (d_node c0) st2 kind
              R2 Po Pc ltac:(rewrite pid_setSpan; exact Eon) ltac:(rewrite pid_setSpan; exact Ecn) I2) as (R3 & I3 & N3 & S3).
  fold st3 in R3, I3, N3, S3. rewrite pe_setSpan, ps_setSpan in R3.
  change (nid st2) with (nid st) in R3, N3.
  split; [exact R3|]. split; [exact I3|]. split.
  - cbn [stk setStk st4]. rewrite ED.
    rewrite (app_assoc X1 A). change (o :: M ++ c0 :: R) with ([o] ++ M ++ c0 :: R). rewrite (app_assoc (X1 ++ A) [o]).
    rewrite (delStack_spec ((X1 ++ A) ++ [o]) M (c0 :: R)); [rewrite <- !app_assoc; reflexivity| |].
    + rewrite !len_app, len_cons, len_nil. lia.
    + rewrite !len_app, len_cons, len_nil. lia.
  - unfold frameE. cbn. repeat split; try reflexivity. change (nid st <= nid st3). rewrite N3. lia.
Qed.

(* removing a delimiter node from the level and from the stack *)
Lemma remove_both c pre n post st X d R' i :
  rk st = plug c (pre ++ n :: post) -> IdsOK st -> 0 < d_node d -> pid n = d_node d -> stk st = X ++ d :: R' -> i = len X ->
  let st' := setStk (removeNode st (d_node d)) (delStack (stk st) i (i + 1)) in
  rk st' = plug c (pre ++ post) /\ IdsOK st' /\ stk st' = X ++ R' /\ frameE st st'.
Proof.
  intros Hrk Hids Hd Hn Hs -> st'.
  destruct (IdsOK_remove c pre n post (d_node d) st Hrk Hd Hn Hids) as [R1 I1].
  split; [exact R1|]. split; [exact I1|]. split.
  - cbn [stk setStk st']. rewrite Hs. change (d :: R') with ([d] ++ R').
    rewrite (delStack_spec X [d] R' (len X) (len X + 1)); [reflexivity|reflexivity|rewrite len_cons, len_nil; lia].
  - unfold frameE. cbn. repeat split; try reflexivity; try lia.
Qed.

(* the span arithmetic of one emphasis match *)
Lemma okF_pe_step pa on pm cn pr k id kind lo hi :
  leafy on -> leafy cn -> 1 <= k -> k <= pe on - ps on -> k <= pe cn - ps cn ->
  okF lo hi (pa ++ on :: pm ++ cn :: pr) ->
  okF lo hi (pa ++ setSpan on (ps on) (pe on - k) :: PN id kind (pe on - k) (ps cn + k) 0 [] pm :: setSpan cn (ps cn + k) (pe cn) :: pr).
Proof.
  intros (Ko & _ & Po & _) (Kc & _ & Pc & _) Hk Hko Hkc H.
  apply okF_app in H. destruct H as (m & H1 & H2). cbn [okF] in H2. destruct H2 as (A1 & A2 & A3).
  apply okF_app in A3. destruct A3 as (m2 & B1 & B2). cbn [okF] in B2. destruct B2 as (C1 & C2 & C3).
  pose proof (okF_le _ _ _ B1) as Vm.
  apply okF_app. exists m. split; [exact H1|]. cbn [okF]. rewrite !ps_setSpan, !pe_setSpan. cbn [ps pe].
  split; [exact A1|]. split; [apply okN_setSpan_leaf; [exact Ko|lia|lia]|].
  split; [lia|]. split.
  - apply okN_eq. split; [lia|]. split; [lia|]. eapply okF_weaken; [exact B1|lia|lia].
  - split; [lia|]. split; [apply okN_setSpan_leaf; [exact Kc|lia|lia]|exact C3].
Qed.

Definition optD (d : delim) (n : pn) (ds : list delim) (ns : list pn) : Prop :=
  (ds = [d] /\ ns = [n] /\ leafy n /\ pid n = d_node d) \/ (ds = [] /\ ns = []).
Lemma optD_some d n : leafy n -> pid n = d_node d -> optD d n [d] [n].
Proof. intros A B. left. tauto. Qed.
Lemma optD_none d n : optD d n [] [].
Proof. right. tauto. Qed.
Lemma subIds_build A pa o on os ons c0 cn cs cns R pr W :
  subIds (map d_node A) pa -> optD o on os ons -> optD c0 cn cs cns -> subIds (map d_node R) pr ->
  subIds (map d_node (A ++ os ++ cs ++ R)) (pa ++ ons ++ W :: cns ++ pr).
Proof.
  intros HA Ho Hc HR. rewrite map_app. apply subIds_app; [exact HA|].
  assert (H2 : subIds (map d_node (cs ++ R)) (W :: cns ++ pr)).
  { apply (subIds_appl _ _ [W]). destruct Hc as [(-> & -> & Lc & Ec)|(-> & ->)]; cbn [app map].
    - rewrite <- Ec. apply subIds_cons; assumption.
    - exact HR. }
  destruct Ho as [(-> & -> & Lo & Eo)|(-> & ->)]; cbn [app map].
  - rewrite <- Eo. apply subIds_cons; assumption.
  - exact H2.
Qed.

(* assembling the invariant after a match from the shape of the final state *)
Lemma PEI_build c sb st X1 A os cs R pa ons W cns pr o on c0 cn :
  rk st = plug c (pa ++ ons ++ W :: cns ++ pr) -> IdsOK st -> stk st = X1 ++ A ++ os ++ cs ++ R -> len X1 = sb ->
  subIds (map d_node A) pa -> optD o on os ons -> optD c0 cn cs cns -> subIds (map d_node R) pr ->
  PEI c sb st (pa ++ ons ++ W :: cns ++ pr) /\ upto (stk st) sb = X1.
Proof.
  intros Hrk Hids Hs HX HA Ho Hc HR. split.
  - constructor; [exact Hrk|exact Hids| |].
    + rewrite Hs, (from_app_len X1) by lia. apply (subIds_build A pa o on os ons c0 cn cs cns R pr W); assumption.
    + rewrite Hs, len_app. pose proof (len_nonneg X1). pose proof (len_nonneg (A ++ os ++ cs ++ R)). lia.
  - rewrite Hs. apply upto_app_len. lia.
Qed.

Lemma leafy_setSpan n s e : leafy n -> 0 <= s -> s < e -> leafy (setSpan n s e).
Proof. intros (A & B & _) C D. unfold leafy. rewrite pkids_setSpan, pid_setSpan, ps_setSpan, pe_setSpan. tauto. Qed.
Lemma plen_setSpan_zero n s e : 0 <= s -> s <= e -> (plen (setSpan n s e) =? 0) = true -> s = e.
Proof. intros A B H. apply Z.eqb_eq in H. rewrite plen_ok in H; rewrite ?ps_setSpan, ?pe_setSpan in *; lia. Qed.
Lemma plen_setSpan_pos n s e : 0 <= s -> s <= e -> (plen (setSpan n s e) =? 0) = false -> s < e.
Proof. intros A B H. apply Z.eqb_neq in H. rewrite plen_ok in H; rewrite ?ps_setSpan, ?pe_setSpan in *; lia. Qed.

Lemma pe_loop_level c sb : forall fuel st ob cp L,
  PEI c sb st L -> sb <= cp -> OBI sb ob ->
  exists L', PEI c sb (pe_loop fuel st ob cp) L' /\ (forall lo hi, okF lo hi L -> okF lo hi L') /\
             frameE st (pe_loop fuel st ob cp) /\ upto (stk (pe_loop fuel st ob cp)) sb = upto (stk st) sb.
Proof.
  induction fuel as [|f IH]; intros st ob cp L HP Hcp Hob.
  { exists L. cbn [pe_loop]. split; [exact HP|]. split; [tauto|]. split; [apply frameE_refl|reflexivity]. }
  assert (Hclose : forall stF obF cpF LF, PEI c sb stF LF -> (forall lo hi, okF lo hi L -> okF lo hi LF) -> frameE st stF ->
            upto (stk stF) sb = upto (stk st) sb -> sb <= cpF -> OBI sb obF ->
            exists L', PEI c sb (pe_loop f stF obF cpF) L' /\ (forall lo hi, okF lo hi L -> okF lo hi L') /\
                       frameE st (pe_loop f stF obF cpF) /\ upto (stk (pe_loop f stF obF cpF)) sb = upto (stk st) sb).
  { intros stF obF cpF LF H1 H2 H3 H4 H5 H6. destruct (IH stF obF cpF LF H1 H5 H6) as (L' & G1 & G2 & G3 & G4).
    exists L'. split; [exact G1|]. split; [intros lo hi Hok; apply G2, H2, Hok|]. split; [eapply frameE_trans; eassumption|].
    rewrite G4. exact H4. }
  cbn [pe_loop].
  pose proof (pe_findCloser_spec (S (length (stk st))) (stk st) cp ltac:(destruct HP; lia)) as Hfc.
  set (cp1 := pe_findCloser (S (length (stk st))) (stk st) cp) in *.
  destruct (Z.ltb_spec cp1 0) as [Hneg|Hpos].
  { exists L. split; [exact HP|]. split; [tauto|]. split; [apply frameE_refl|reflexivity]. }
  destruct Hfc as [Hfc|Hfc]; [lia|].
  set (c0 := nthD (stk st) cp1).
  pose proof (obIndex_range c0) as Hobi.
  pose proof (getOB_ge sb ob (obIndex c0) Hob Hobi) as Hlo.
  set (lo := getOB ob (obIndex c0)) in *.
  pose proof (pe_findOpener_spec (S (length (stk st))) (stk st) (cp1 - 1) lo c0) as Hfo.
  set (oi := pe_findOpener (S (length (stk st))) (stk st) (cp1 - 1) lo c0) in *.
  destruct (Z.leb_spec lo oi) as [Hm|Hnm].
  - specialize (Hfo Hm).
    set (o := nthD (stk st) oi) in *.
    set (strong := (2 <=? plen (nodeOf st (d_node o))) && (2 <=? plen (nodeOf st (d_node c0)))) in *.
    set (k := if strong then 2 else 1) in *. set (kind := if strong then StrongKind else EmphasisKind) in *.
    assert (Hsb0 : 0 <= sb) by (destruct HP; lia).
    destruct (pe_wrapped c sb st L oi cp1 k kind HP ltac:(lia) ltac:(lia) ltac:(lia))
      as (pa & on & pm & cn & pr & X1 & A & R & EL & Lon & Lcn & Eon & Ecn & Non & Ncn & SA & SR & LX & LA & EX1 & R4 & I4 & S4 & F4).
    fold o c0 in Eon, Ecn, Non, Ncn, R4, I4, S4, F4.
    set (st2 := updN (updN st (d_node o) (fun n => setSpan n (ps n) (pe n - k))) (d_node c0) (fun n => setSpan n (ps n + k) (pe n))) in *.
    destruct (wrap st2 kind (d_node o) (Some (d_node c0))) as [st3 wid] eqn:Ew.
    assert (E3 : st3 = fst (wrap st2 kind (d_node o) (Some (d_node c0)))) by (rewrite Ew; reflexivity).
    assert (Es : stk st3 = stk st) by (rewrite E3; reflexivity).
    rewrite Es. cbn [fst] in R4, I4, S4, F4.
    set (st4 := setStk st3 (delStack (stk st) (oi + 1) cp1)) in *.
    (* arithmetic of k *)
    pose proof Lon as (Kon & Pon & Son & Ton). pose proof Lcn as (Kcn & Pcn & Scn & Tcn).
    assert (Hk : 1 <= k /\ k <= pe on - ps on /\ k <= pe cn - ps cn).
    { unfold k, strong. rewrite Non, Ncn. rewrite !plen_ok by lia.
      destruct (Z.leb_spec 2 (pe on - ps on)); destruct (Z.leb_spec 2 (pe cn - ps cn)); cbn [andb]; lia. }
    set (on' := setSpan on (ps on) (pe on - k)) in *. set (cn' := setSpan cn (ps cn + k) (pe cn)) in *.
    set (W := PN (nid st) kind (pe on - k) (ps cn + k) 0 [] pm) in *.
    assert (Hw : forall lo hi, okF lo hi L -> okF lo hi (pa ++ on' :: W :: cn' :: pr)).
    { intros lo' hi' Hok. rewrite EL in Hok. apply okF_pe_step; try assumption; lia. }
    assert (Po : 0 < d_node o) by (rewrite <- Eon; exact Pon).
    assert (Pc : 0 < d_node c0) by (rewrite <- Ecn; exact Pcn).
    assert (Non4 : nodeOf st4 (d_node o) = on').
    { apply (st_nodeOf c pa on' (W :: cn' :: pr)); [exact R4|exact Po|unfold on'; rewrite pid_setSpan; exact Eon|apply I4]. }
    rewrite Non4.
    assert (OB1 : OBI sb (map (fun b : Z => if oi + 1 <? b then oi + 1 else b) ob)).
    { apply OBI_map; [exact Hob|]. intros b Hb. destruct (oi + 1 <? b); lia. }
    destruct (plen on' =? 0) eqn:E1.
    + (* the opener node is used up *)
      apply plen_setSpan_zero in E1; [|lia|lia].
      destruct (remove_both c pa on' (W :: cn' :: pr) st4 (X1 ++ A) o (c0 :: R) oi R4 I4 Po ltac:(unfold on'; rewrite pid_setSpan; exact Eon)
                  ltac:(rewrite S4, <- app_assoc; reflexivity) ltac:(rewrite len_app; lia)) as (R5 & I5 & S5 & F5).
      set (st5 := setStk (removeNode st4 (d_node o)) (delStack (stk st4) oi (oi + 1))) in *.
      assert (OB2 : OBI sb (map (fun b : Z => if oi <? b then b - 1 else b) (map (fun b : Z => if oi + 1 <? b then oi + 1 else b) ob))).
      { apply OBI_map; [exact OB1|]. intros b Hb. destruct (Z.ltb_spec oi b); lia. }
      assert (Ncn5 : nodeOf st5 (d_node c0) = cn').
      { apply (st_nodeOf c (pa ++ [W]) cn' pr); [rewrite R5, <- app_assoc; reflexivity|exact Pc|unfold cn'; rewrite pid_setSpan; exact Ecn|apply I5]. }
      rewrite Ncn5.
      destruct (plen cn' =? 0) eqn:E2.
      * apply plen_setSpan_zero in E2; [|lia|lia].
        destruct (remove_both c (pa ++ [W]) cn' pr st5 (X1 ++ A) c0 R (oi + 1 - 1) ltac:(rewrite R5, <- app_assoc; reflexivity) I5 Pc
                    ltac:(unfold cn'; rewrite pid_setSpan; exact Ecn) S5 ltac:(rewrite len_app; lia)) as (R6 & I6 & S6 & F6).
        rewrite <- app_assoc in R6. cbn [app] in R6. rewrite <- app_assoc in S6.
        destruct (PEI_build c sb _ X1 A [] [] R pa [] W [] pr o on' c0 cn' R6 I6 S6 LX SA (optD_none _ _) (optD_none _ _) SR) as [P6 U6].
        eapply Hclose; [exact P6| | |rewrite U6, EX1; reflexivity|lia|exact OB2].
        -- intros lo' hi' Hok. apply Hw in Hok. apply okF_remove in Hok. change (W :: cn' :: pr) with ([W] ++ cn' :: pr) in Hok.
           rewrite app_assoc in Hok. apply okF_remove in Hok. rewrite <- app_assoc in Hok. exact Hok.
        -- eapply frameE_trans; [exact F4|]. eapply frameE_trans; [exact F5|exact F6].
      * apply plen_setSpan_pos in E2; [|lia|lia].
        destruct (PEI_build c sb st5 X1 A [] [c0] R pa [] W [cn'] pr o on' c0 cn' R5 I5 ltac:(rewrite S5, <- app_assoc; reflexivity) LX SA
                    (optD_none _ _) (optD_some c0 cn' ltac:(apply leafy_setSpan; [exact Lcn|lia|lia]) ltac:(unfold cn'; rewrite pid_setSpan; exact Ecn)) SR) as [P6 U6].
        eapply Hclose; [exact P6| | |rewrite U6, EX1; reflexivity|lia|exact OB2].
        -- intros lo' hi' Hok. apply Hw in Hok. apply okF_remove in Hok. exact Hok.
        -- eapply frameE_trans; [exact F4|exact F5].
    + apply plen_setSpan_pos in E1; [|lia|lia].
      assert (Lon' : leafy on') by (apply leafy_setSpan; [exact Lon|lia|lia]).
      assert (Ncn4 : nodeOf st4 (d_node c0) = cn').
      { apply (st_nodeOf c (pa ++ [on'; W]) cn' pr); [rewrite R4, <- app_assoc; reflexivity|exact Pc|unfold cn'; rewrite pid_setSpan; exact Ecn|apply I4]. }
      rewrite Ncn4.
      destruct (plen cn' =? 0) eqn:E2.
      * apply plen_setSpan_zero in E2; [|lia|lia].
        destruct (remove_both c (pa ++ [on'; W]) cn' pr st4 (X1 ++ A ++ [o]) c0 R (oi + 1) ltac:(rewrite R4, <- app_assoc; reflexivity) I4 Pc
                    ltac:(unfold cn'; rewrite pid_setSpan; exact Ecn) ltac:(rewrite S4, <- !app_assoc; reflexivity) ltac:(rewrite !len_app, len_cons, len_nil; lia)) as (R6 & I6 & S6 & F6).
        rewrite <- app_assoc in R6. cbn [app] in R6. rewrite <- !app_assoc in S6.
        destruct (PEI_build c sb _ X1 A [o] [] R pa [on'] W [] pr o on' c0 cn' R6 I6 S6 LX SA
                    (optD_some o on' Lon' ltac:(unfold on'; rewrite pid_setSpan; exact Eon)) (optD_none _ _) SR) as [P6 U6].
        eapply Hclose; [exact P6| | |rewrite U6, EX1; reflexivity|lia|exact OB1].
        -- intros lo' hi' Hok. apply Hw in Hok. change (on' :: W :: cn' :: pr) with ([on'; W] ++ cn' :: pr) in Hok.
           rewrite app_assoc in Hok. apply okF_remove in Hok. rewrite <- app_assoc in Hok. exact Hok.
        -- eapply frameE_trans; [exact F4|exact F6].
      * apply plen_setSpan_pos in E2; [|lia|lia].
        destruct (PEI_build c sb st4 X1 A [o] [c0] R pa [on'] W [cn'] pr o on' c0 cn' R4 I4 S4 LX SA
                    (optD_some o on' Lon' ltac:(unfold on'; rewrite pid_setSpan; exact Eon))
                    (optD_some c0 cn' ltac:(apply leafy_setSpan; [exact Lcn|lia|lia]) ltac:(unfold cn'; rewrite pid_setSpan; exact Ecn)) SR) as [P6 U6].
        eapply Hclose; [exact P6|exact Hw|exact F4|rewrite U6, EX1; reflexivity|lia|exact OB1].
  - (* no opener: move the bound, drop a pure closer *)
    assert (OB1 : OBI sb (setOB ob (obIndex c0) cp1)) by (apply OBI_setOB; [exact Hob|exact Hobi|lia]).
    destruct (negb (hasFlag c0 fOpener)).
    + destruct (PEI_delcloser c sb st L cp1 HP ltac:(lia)) as [HP' Hup].
      eapply Hclose; [exact HP'|tauto| |exact Hup|lia|exact OB1].
      unfold frameE. cbn. repeat split; try reflexivity; try lia.
    + eapply Hclose; [exact HP|tauto|apply frameE_refl|reflexivity|lia|exact OB1].
Qed.

Lemma processEmphasis_level c sb st L : PEI c sb st L ->
  exists L', rk (processEmphasis st sb) = plug c L' /\ IdsOK (processEmphasis st sb) /\
             (forall lo hi, okF lo hi L -> okF lo hi L') /\ frameE st (processEmphasis st sb) /\
             stk (processEmphasis st sb) = upto (stk st) sb.
Proof.
  intros HP. unfold processEmphasis.
  destruct (pe_loop_level c sb (4 * (length (stk st) + length (isrc st)) + 8) st (repeat sb 14) sb L HP ltac:(lia) (OBI_repeat sb))
    as (L' & [R1 I1 S1 B1] & Hok & Hfr & Hup).
  exists L'. cbn [rk stk setStk]. split; [exact R1|]. split; [exact I1|]. split; [exact Hok|]. split; [exact Hfr|exact Hup].
Qed.

(* ---- Layer 2, stated for the root level: the stack invariant the tokeniser maintains ---- *)
Definition StkInv (st : ist) : Prop := IdsOK st /\ subIds (map d_node (stk st)) (rk st).

Theorem processEmphasis_spans_partial st lo hi :
  StkInv st -> okF lo hi (rk st) ->
  okF lo hi (rk (processEmphasis st 0)) /\ StkInv (processEmphasis st 0) /\ stk (processEmphasis st 0) = [].
Proof.
  intros [Hids Hsub] Hok.
  assert (HP : PEI CRoot 0 st (rk st)).
  { constructor; [reflexivity|exact Hids|exact Hsub|]. pose proof (len_nonneg (stk st)). lia. }
  destruct (processEmphasis_level CRoot 0 st (rk st) HP) as (L' & R1 & I1 & Hok' & _ & S1).
  cbn [plug] in R1. rewrite R1. split; [apply Hok', Hok|]. split; [|exact S1].
  split; [exact I1|]. rewrite S1. exact I.
Qed.
Print Assumptions processEmphasis_spans_partial.
