From Coq Require Import List ZArith Lia Bool.
Import ListNotations.
Require Import Base Tables Utf8 Tree Rdr Link Collect Html Recog Inl3a Inl3b Inl3c Inl3d Inl3e Props PEProof.
Require Import Leaf3e RdrBound GI0 GI1 GI2 GI3 GI4 GI5 GI6 ShapesBase ShapesR IS0 IS2 IS1 IS3 IS4 IS5a IS5b IS6a IS8b IS8c IS5.
Require Import BndDefs BndPE BndRdr BndScan BndLink.
Open Scope Z_scope.

(* ================================================================== *)
(* BndEB: parseEndBracket keeps the boundary predicate (in tandem with *)
(* IS5.parseEndBracket_J, whose proof this one follows).               *)
(* ================================================================== *)
Section EB.
  Variable src : bytes.
  Variable U : list inline.
  Hypothesis HV : asciiOK src.
  Hypothesis HU : forall u, In u U -> ikids u = [].
  Hypothesis HOK : spOK src U = true.
  Hypothesis HUg : GS src U.
  Hypothesis HBud : ibudget U <= len src + 9.
  Notation J := (J src U).
  Notation BP := (BP src).
  Notation bok := (boundary_ok src).
  Notation LS := (LS).

  Lemma GS_unpFrom st : unp st = U -> GS src (unpFrom st).
  Proof. intros Eu x Hx. apply HUg. unfold unpFrom, from_ in Hx. rewrite Eu in Hx. eapply sublist_skipn, Hx. Qed.
  Lemma fuel_ok st pos : isrc st = src -> unp st = U -> 0 <= pos -> len src - pos + ibudget (unpFrom st) < Z.of_nat (rfuelOf st).
  Proof.
    intros Es Eu Hp. unfold unpFrom, from_, rfuelOf. rewrite Es, Eu. pose proof (ibudget_skipn (Z.to_nat (upos st)) U).
    unfold len in *. lia.
  Qed.
  Lemma kids_good st fuel pos e esc : isrc st = src /\ unp st = U -> bok pos = true -> bok e = true ->
    bpF src (kidsOf (collectTextNodes fuel (newReader src (unpFrom st) pos) e TextKind esc)) = true.
  Proof.
    intros [Es Eu] Hp He. apply kids_bp. apply (collectTextNodes_good src HV); [|exact Hp|exact He].
    apply QR_newReader; [unfold unpFrom; rewrite Eu; apply spOK_from, HOK|apply GS_unpFrom, Eu|exact Hp].
  Qed.

  Lemma parseEndBracket_BP tw hi st start : MI tw U st -> J hi st -> hi <= start -> at_ src start = 93 -> BP st ->
    BP (fst (parseEndBracket st start)).
  Proof.
    intros HM HJ Hhi H93 HB. pose proof (j_src _ _ _ _ HJ) as Esrc. pose proof (j_unp _ _ _ _ HJ) as Eunp.
    assert (Hs93 : 0 <= start < len src) by (apply in_src; rewrite H93; discriminate).
    assert (Bst : bok start = true) by (apply (bok_byte src _ 93 H93); lia).
    assert (Bst1 : bok (start + 1) = true) by (apply (bok_after src _ 93 HV); [replace (start + 1 - 1) with start by lia; exact H93|lia|lia]).
    unfold parseEndBracket. cbv zeta. unfold lookForLinkOrImage.
    destruct (lfl_spec (S (length (stk st))) st (len (stk st) - 1) ltac:(lia)) as [(Er & Hst1)|(Hr & E1 & Htyp & Hact)].
    { destruct (lfl (S (length (stk st))) st (len (stk st) - 1)) as [st1 odi]. cbn [fst snd] in *. subst odi.
      cbn [Z.ltb Z.compare]. cbn [fst]. apply BP_addText; [|exact Bst|exact Bst1].
      destruct Hst1 as [->|(j & Hj & ->)]; [exact HB|apply BP_setStk, HB]. }
    destruct (lfl (S (length (stk st))) st (len (stk st) - 1)) as [st1 odi]. cbn [fst snd] in *. subst st1.
    replace (odi <? 0) with false by (symmetry; apply Z.ltb_ge; lia).
    destruct (split_at1 (stk st) odi Hr) as (low & high & Es & Hlow).
    remember (nthD (stk st) odi) as od eqn:Eod.
    remember (if d_typ od =? tImage then ImageKind else LinkKind) as kind eqn:Ekind.
    pose proof HM as [M1 M2 M3 M4 M5 M6 M7 M8 M9 M10].
    assert (Hod_in : In od (stk st)) by (rewrite Es; apply in_or_app; right; left; reflexivity).
    assert (Hod : In (d_node od) (ids (rk st))).
    { apply (al_In _ _ _ M6). unfold GI3.sids. apply in_map, Hod_in. }
    destruct (splitAtId (d_node od) (rk st)) as [pre M] eqn:Esplit.
    assert (Erk : rk st = pre ++ M) by (pose proof (sAt_app (d_node od) (rk st)) as Happ; rewrite Esplit in Happ; exact Happ).
    assert (Hpre : forallb (idb (nid st)) pre = true).
    { pose proof (j_idb _ _ _ _ HJ) as D. rewrite Erk, idbF_app in D. apply andb_true_iff in D. tauto. }
    destruct (wrap_None_LS st kind (d_node od) pre M Hod Esplit) as (s0 & e0 & LS0).
    (* the bracket node *)
    destruct (chain_In src _ _ _ _ od (j_chain _ _ _ _ HJ) Hod_in) as (sb & eb & Ob & Hsb & Hseb & Hebhi & Dob).
    pose proof (nodeOf_occ st _ _ Ob) as Sb.
    assert (Epsb : ps (nodeOf st (d_node od)) = sb) by (unfold sig in Sb; inversion Sb; reflexivity).
    assert (Hshape : forall E, start + 1 <= E -> (at_ src (E - 1) = 93 \/ at_ src (E - 1) = 41) -> isC kind = true -> nOK src kind sb E = true).
    { intros E HE Hlast _. subst kind. unfold IS3.dOK, tStar, tUnder, tLink, tImage in *.
      destruct Dob as [(T & _)|[(T & _)|[(T & Ee & A1)|(T & Ee & A1 & A2)]]]; try (destruct Htyp as [Ht|Ht]; rewrite Ht in T; discriminate).
      - rewrite T. cbn [Z.eqb]. apply link_shape; try assumption; lia.
      - rewrite T. cbn [Z.eqb]. apply image_shape; try assumption; lia. }
    assert (Hfail : BP (setStk (addText st start (start + 1)) (delStack (stk st) odi (odi + 1)))).
    { apply BP_setStk, BP_addText; assumption. }
    assert (HkC : isC kind = true) by (subst kind; destruct (_ =? tImage); reflexivity).
    assert (Bsb : bok sb = true) by (rewrite <- Epsb; apply (bp_parts src (nodeOf st (d_node od))), nodeOf_bp, HB).
    assert (Hfinish : forall T rf E st3, LS st pre M kind T rf sb E st3 -> start + 1 <= E ->
              (at_ src (E - 1) = 93 \/ at_ src (E - 1) = 41) -> forallb (zok src) T = true -> vokF src T = true ->
              bpF src T = true -> rootEnd st3 = rootEnd st -> BP (finishLink st3 kind odi)).
    { intros T rf E st3 HLS HE Hlast HT HTv HTb Ere.
      assert (HJ3 : J hi st3).
      { pose proof (Hshape E HE Hlast HkC) as Hn. pose proof Hn as Hn2. unfold nOK in Hn2. apply andb_true_iff in Hn2. destruct Hn2 as [Hsv _].
        apply (J_of_LS src U hi st pre M kind T rf sb E st3 HJ Erk HLS); [intros _; exact Hn|exact HT|exact Hsv|exact HTv]. }
      apply (finishLink_BP src U hi st3 kind odi HJ3 ltac:(lia)).
      destruct HB as [HB1 HB2]. rewrite Erk, bpF_app in HB1. apply andb_true_iff in HB1. destruct HB1 as [Bpre BM].
      destruct HLS as ((ind & Er3) & _). split; [|rewrite Ere; exact HB2].
      rewrite Er3, bpF_app, Bpre. cbn [bpF forallb andb]. rewrite andb_true_r. apply bp_mk; [exact Bsb| |].
      - destruct Hlast as [Hl|Hl]; [apply (bok_after src _ 93 HV Hl)|apply (bok_after src _ 41 HV Hl)]; lia.
      - rewrite bpF_app, BM. exact HTb. }
    assert (HokF : spOK (isrc st) (unpFrom st) = true) by (rewrite Esrc; unfold unpFrom; rewrite Eunp; apply spOK_from, HOK).
    match goal with |- context [match ?X with Some _ => _ | None => _ end] => destruct X as [[[[[ispan dspan] dtext] tspan] ttext]|] eqn:Etry end.
    - (* inline link *)
      destruct ((start + 1 <? spanEnd st) && (at_ (isrc st) (start + 1) =? 40)) eqn:Ecnd; [|discriminate].
      destruct (parseInlineLink (rfuelOf st) st (start + 1)) as [[is0 [ds0 dt0]] [ts0 tt0]] eqn:Ep.
      destruct (spanValid is0) eqn:Ev; [|discriminate]. inversion Etry; subst is0 ds0 dt0 ts0 tt0. clear Etry.
      destruct (parseInlineLink_end _ _ _ _ _ _ HokF Ep Ev) as (Pf & P41 & Pge). rewrite Esrc in P41.
      assert (Hs1 : start + 1 + 1 <= len (isrc st)).
      { rewrite Esrc. pose proof (in_src src (snd ispan - 1) ltac:(rewrite P41; discriminate)). lia. }
      destruct (parseInlineLink_res _ _ _ _ _ _ _ _ HokF Hs1 Ep Ev) as (Bd & Bt). rewrite Esrc in Bd, Bt.
      assert (H40 : at_ src (start + 1) = 40).
      { apply andb_true_iff in Ecnd. destruct Ecnd as [_ E40]. apply Z.eqb_eq in E40. rewrite Esrc in E40. exact E40. }
      destruct (parseInlineLink_good src HV (rfuelOf st) st (start + 1) _ _ _ _ _ Esrc ltac:(rewrite <- Esrc; exact HokF) (GS_unpFrom st Eunp)
                  ltac:(apply (bok_after src _ 40 HV); [replace (start + 1 + 1 - 1) with (start + 1) by lia; exact H40|lia|lia])
                  (fuel_ok st (start + 1 + 1) Esrc Eunp ltac:(lia)) Ep Ev) as (PGd & PGt).
      destruct (wrap st kind (d_node od) None) as [st2 lid] eqn:Ew.
      assert (Elid : lid = nid st) by (change lid with (snd (st2, lid)); rewrite <- Ew; reflexivity).
      assert (LS2 : LS st pre M kind [] [] s0 e0 st2) by exact LS0.
      assert (Ere2 : rootEnd st2 = rootEnd st) by (change st2 with (fst (st2, lid)); rewrite <- Ew; reflexivity).
      subst lid. rewrite Epsb. cbn [fst].
      pose proof (LS_span st pre M kind Hpre [] [] s0 e0 sb (snd ispan) st2 LS2) as LS3.
      set (st3 := updN st2 (nid st) (fun n => setSpan n sb (snd ispan))) in *.
      set (Td := if spanValid dspan then
                   [PN 0 LinkDestinationKind (fst dspan) (snd dspan) 0 []
                      (if spanValid dtext then kidsOf (collectTextNodes (rfuelOf st) (newReader (isrc st) (unpFrom st3) (fst dtext)) (snd dtext) TextKind true) else [])]
                 else []).
      set (st4 := if spanValid dspan then appendKid st3 (nid st) (PN 0 LinkDestinationKind (fst dspan) (snd dspan) 0 []
                      (if spanValid dtext then kidsOf (collectTextNodes (rfuelOf st) (newReader (isrc st) (unpFrom st3) (fst dtext)) (snd dtext) TextKind true) else [])) else st3).
      assert (U3 : isrc st3 = src /\ unp st3 = U) by (destruct LS3 as (_ & _ & _ & -> & ->); split; assumption).
      assert (LS4 : LS st pre M kind Td [] sb (snd ispan) st4).
      { unfold st4, Td. destruct (spanValid dspan); [|exact LS3]. apply (LS_append st pre M kind Hpre [] [] sb (snd ispan)). exact LS3. }
      assert (HTd : forallb (zok src) Td = true).
      { unfold Td. destruct (spanValid dspan); [|reflexivity]. cbn [forallb zok]. change (isC LinkDestinationKind) with false. cbv iota.
        rewrite andb_true_r. cbn [Z.eqb andb]. destruct (spanValid dtext); [|reflexivity]. rewrite Esrc. apply (kids_part src U HU); apply U3. }
      assert (HTdv : vokF src Td = true).
      { unfold Td. destruct (spanValid dspan) eqn:Evd; [|reflexivity]. destruct (Bd eq_refl) as (Bd1 & Bd2). destruct (spanValid_elim _ Evd) as (V1 & V2 & V3).
        cbn [vokF forallb vok]. rewrite span_valid_intro by lia. cbn [andb]. rewrite andb_true_r.
        destruct (spanValid dtext) eqn:Evt; [|reflexivity]. destruct (spanValid_elim _ Evt) as (W1 & W2 & W3).
        rewrite Esrc. apply (kids_valid src U HU HOK); [apply U3|apply U3|lia|lia]. }
      assert (HTdb : bpF src Td = true).
      { unfold Td. destruct (spanValid dspan) eqn:Evd; [|reflexivity]. destruct (PGd Evd) as (D1 & D2 & D3 & D4).
        cbn [bpF forallb]. rewrite andb_true_r. apply bp_mk; [exact D1|exact D2|].
        destruct (spanValid dtext); [|reflexivity]. rewrite Esrc. apply kids_good; [apply U3|exact D3|exact D4]. }
      assert (U4 : isrc st4 = src /\ unp st4 = U) by (destruct LS4 as (_ & _ & _ & -> & ->); split; assumption).
      set (kt := PN 0 LinkTitleKind (fst tspan) (snd tspan) 0 []
                    (if spanValid ttext then kidsOf (collectTextNodes (rfuelOf st) (newReader (isrc st) (unpFrom st4) (fst ttext)) (snd ttext) TextKind true) else [])).
      set (Tt := if spanValid tspan then Td ++ [kt] else Td).
      set (st5 := if spanValid tspan then appendKid st4 (nid st) kt else st4).
      assert (LS5 : LS st pre M kind Tt [] sb (snd ispan) st5).
      { unfold st5, Tt. destruct (spanValid tspan); [|exact LS4]. apply (LS_append st pre M kind Hpre Td [] sb (snd ispan)). exact LS4. }
      assert (HTt : forallb (zok src) Tt = true).
      { unfold Tt. destruct (spanValid tspan); [|exact HTd]. rewrite forallb_app, HTd. cbn [andb forallb]. rewrite andb_true_r.
        unfold kt. cbn [zok]. change (isC LinkTitleKind) with false. cbv iota. cbn [Z.eqb andb].
        destruct (spanValid ttext); [|reflexivity]. rewrite Esrc. apply (kids_part src U HU); apply U4. }
      assert (HTtv : vokF src Tt = true).
      { unfold Tt. destruct (spanValid tspan) eqn:Evd; [|exact HTdv]. rewrite vokF_app, HTdv. cbn [andb vokF forallb]. rewrite andb_true_r.
        destruct (Bt eq_refl) as (Bt1 & Bt2). destruct (spanValid_elim _ Evd) as (V1 & V2 & V3).
        unfold kt. cbn [vok]. rewrite span_valid_intro by lia. cbn [andb].
        destruct (spanValid ttext) eqn:Evt; [|reflexivity]. destruct (spanValid_elim _ Evt) as (W1 & W2 & W3).
        rewrite Esrc. apply (kids_valid src U HU HOK); [apply U4|apply U4|lia|lia]. }
      assert (HTtb : bpF src Tt = true).
      { unfold Tt. destruct (spanValid tspan) eqn:Evd; [|exact HTdb]. rewrite bpF_app, HTdb. cbn [andb bpF forallb]. rewrite andb_true_r.
        destruct (PGt Evd) as (D1 & D2 & D3 & D4). unfold kt. apply bp_mk; [exact D1|exact D2|].
        destruct (spanValid ttext); [|reflexivity]. rewrite Esrc. apply kids_good; [apply U4|exact D3|exact D4]. }
      apply (Hfinish Tt [] (snd ispan)); [apply LS_advanceTo; exact LS5|lia|right; exact P41|exact HTt|exact HTtv|exact HTtb|].
      unfold advanceTo, st5, st4, st3. repeat match goal with |- context [if ?c then _ else _] => destruct c end; exact Ere2.
    - match goal with |- BP (fst (match ?X with pair _ _ => _ end)) => destruct X as [lspan linner] eqn:Elab end.
      destruct ((start + 2 <? spanEnd st) && (at_ (isrc st) (start + 1) =? 91) && (at_ (isrc st) (start + 2) =? 93)) eqn:Ecoll.
      + (* collapsed reference *)
        destruct (negb (matchRef _ _)); [cbn [fst]; exact Hfail|].
        destruct (wrap st kind (d_node od) None) as [st2 lid] eqn:Ew.
        assert (Elid : lid = nid st) by (change lid with (snd (st2, lid)); rewrite <- Ew; reflexivity).
        assert (LS2 : LS st pre M kind [] [] s0 e0 st2) by exact LS0.
        assert (Ere2 : rootEnd st2 = rootEnd st) by (change st2 with (fst (st2, lid)); rewrite <- Ew; reflexivity).
        subst lid. rewrite Epsb. cbn [fst].
        apply andb_true_iff in Ecoll. destruct Ecoll as [_ E93']. apply Z.eqb_eq in E93'. rewrite Esrc in E93'.
        eapply (Hfinish [] _ (start + 3)); [apply (LS_spanRef st pre M kind Hpre [] [] s0 e0); exact LS2|lia| |reflexivity|reflexivity|reflexivity|exact Ere2].
        left. replace (start + 3 - 1) with (start + 2) by lia. exact E93'.
      + destruct (spanValid lspan) eqn:Evl.
        * (* full reference *)
          destruct (negb (matchRef _ _)); [cbn [fst]; exact Hfail|].
          cbn [negb andb] in Elab.
          destruct ((start + 1 <? spanEnd st) && (at_ (isrc st) (start + 1) =? 91)); [|inversion Elab; subst; discriminate].
          destruct (parseLinkLabel (rfuelOf st) (newReader (isrc st) (unpFrom st) (start + 1))) as [[a b] r'] eqn:Epl.
          inversion Elab; subst a b. clear Elab.
          assert (HRI0 : RI (isrc st) (newReader (isrc st) (unpFrom st) (start + 1))) by (split; [reflexivity|exact HokF]).
          destruct (parseLinkLabel_end (isrc st) _ _ _ _ _ HRI0 Epl Evl) as (Pf & P93 & Pge).
          cbn [newReader r_pos] in Pf, Pge. rewrite Esrc in P93.
          pose proof (parseLinkLabel_inner_ge (isrc st) _ _ _ _ _ HRI0 Epl Evl) as Hig. cbn [newReader r_pos] in Hig.
          assert (HRB0 : RB (len src) (newReader (isrc st) (unpFrom st) (start + 1))).
          { rewrite Esrc. apply RB_newReader; [rewrite <- Esrc; exact HokF|lia]. }
          assert (HBl : -1 <= len src) by (pose proof (ShapesBase.len_nonneg src); lia).
          pose proof (parseLinkLabel_inner (len src) HBl _ _ _ _ _ HRB0 Epl Evl) as Hie.
          pose proof (parseLinkLabel_inner_le (len src) _ _ _ _ _ HRB0 Epl Evl) as Hile.
          destruct (wrap st kind (d_node od) None) as [st2 lid] eqn:Ew.
          assert (Elid : lid = nid st) by (change lid with (snd (st2, lid)); rewrite <- Ew; reflexivity).
          assert (LS2 : LS st pre M kind [] [] s0 e0 st2) by exact LS0.
          assert (Ere2 : rootEnd st2 = rootEnd st) by (change st2 with (fst (st2, lid)); rewrite <- Ew; reflexivity).
          subst lid. rewrite Epsb. cbn [fst].
          eapply (Hfinish _ [] (snd lspan)).
          -- apply LS_advanceTo. apply (LS_span st pre M kind Hpre _ [] s0 e0). apply (LS_append st pre M kind Hpre [] [] s0 e0). exact LS2.
          -- lia.
          -- left. exact P93.
          -- cbn [app forallb zok]. change (isC LinkLabelKind) with false. cbv iota. cbn [Z.eqb andb]. rewrite andb_true_r.
             rewrite Esrc. apply (kids_part src U HU); assumption.
          -- cbn [app vokF forallb vok]. rewrite andb_true_r. destruct (spanValid_elim _ Evl) as (V1 & V2 & V3).
             pose proof (in_src src (snd lspan - 1) ltac:(rewrite P93; discriminate)).
             rewrite span_valid_intro by lia. cbn [andb]. rewrite Esrc. apply (kids_valid src U HU HOK); [exact Esrc|exact Eunp|lia|lia].
          -- cbn [app bpF forallb]. rewrite andb_true_r.
             pose proof (parseLinkLabel_good src HV (rfuelOf st) (newReader (isrc st) (unpFrom st) (start + 1))) as HG.
             rewrite Epl in HG. destruct HG as [_ HG].
             { rewrite Esrc. apply QR_newReader; [rewrite <- Esrc; exact HokF|apply GS_unpFrom; exact Eunp|exact Bst1]. }
             destruct (HG Evl) as (D1 & D2 & D3 & D4). cbn [fst snd] in *.
             apply bp_mk; [exact D1|exact D2|]. rewrite Esrc. apply kids_good; [split; [exact Esrc|exact Eunp]|exact D3|exact D4].
          -- unfold advanceTo. repeat match goal with |- context [if ?c then _ else _] => destruct c end; exact Ere2.
        * (* shortcut reference *)
          destruct (negb (matchRef _ _)); [cbn [fst]; exact Hfail|].
          destruct (wrap st kind (d_node od) None) as [st2 lid] eqn:Ew.
          assert (Elid : lid = nid st) by (change lid with (snd (st2, lid)); rewrite <- Ew; reflexivity).
          assert (LS2 : LS st pre M kind [] [] s0 e0 st2) by exact LS0.
          assert (Ere2 : rootEnd st2 = rootEnd st) by (change st2 with (fst (st2, lid)); rewrite <- Ew; reflexivity).
          subst lid. rewrite Epsb. cbn [fst].
          eapply (Hfinish [] _ (start + 1)); [apply (LS_spanRef st pre M kind Hpre [] [] s0 e0); exact LS2|lia| |reflexivity|reflexivity|reflexivity|exact Ere2].
          left. replace (start + 1 - 1) with start by lia. exact H93.
  Qed.
End EB.
