From Coq Require Import List ZArith Lia Bool.
Import ListNotations.
Require Import Base Tree Rdr Link Collect Html Recog LP Rules.
Open Scope Z_scope.

(* ---- blockStarts (blocks.go:626), in order ---- *)
Definition startBlockQuote (p : lp) : lp :=
  let ind := indent p in
  if codeBlockIndentLimit <=? ind then p else
  if negb (hasBytePrefix (bytesAfterIndent p) [62]) then p else
  let p := consumeIndent p ind in
  let p := openBlock p BlockQuoteKind in
  let p := advance p 1 in
  if 0 <? indent p then consumeIndent p 1 else p.

Definition startATX (p : lp) : lp :=
  let ind := indent p in
  if codeBlockIndentLimit <=? ind then p else
  let '(level, cs, ce) := parseATXHeading (bytesAfterIndent p) in
  if level <? 1 then p else
  let p := consumeIndent p ind in
  let p := openBlock p ATXHeadingKind in
  let p := updCont p (fun b => set_bn b level) in
  let p := advance p cs in
  let p := collectInline p UnparsedKind (ce - cs) in
  let p := consumeLine p in
  endBlock p.

Definition startFenced (p : lp) : lp :=
  let ind := indent p in
  if codeBlockIndentLimit <=? ind then p else
  let '(fc, fnn, is, ie) := parseCodeFence (bytesAfterIndent p) in
  if fnn =? 0 then p else
  let p := consumeIndent p ind in
  let p := openBlock p FencedCodeBlockKind in
  let p := updCont p (fun b => set_bn (set_bchar b fc) fnn) in
  let p := updCont p (fun b => set_bindent b ind) in
  let p := if spanValid (is, ie) then collectInline (advance p is) InfoStringKind (ie - is) else p in
  consumeLine p.

Fixpoint firstHtmlCond (i : Z) (k : nat) (line : bytes) : Z :=
  match k with O => -1 | S k' => if htmlStart i line then i else firstHtmlCond (i + 1) k' line end.
Definition startHTML (p : lp) : lp :=
  let ind := indent p in
  if codeBlockIndentLimit <=? ind then p else
  let ln := bytesAfterIndent p in
  if negb (hasBytePrefix ln [60]) then p else
  let i := firstHtmlCond 0 7 ln in
  if i <? 0 then p else
  if negb (htmlCanInterrupt i) && ((containerKind p =? ParagraphKind) || (tipKind p =? ParagraphKind)) then p else
  let p := openBlock p HTMLBlockKind in
  let p := updCont p (fun b => set_bn b i) in
  if htmlEnd i ln then
    let p := collectInline p RawHTMLKind (len (bytesAfterIndent p)) in
    endBlock (consumeLine p)
  else p.

(* ContainerHasParagraphContent (repair D13) *)
Definition containerHasParagraphContent (p : lp) : bool :=
  if negb (containerKind p =? ParagraphKind) then false else
  let b := contBlock p in
  match rev (onCloseParagraph (source p) b) with
  | l :: _ => bkind l =? ParagraphKind
  | [] => false
  end.

Definition startSetext (p : lp) : lp :=
  if negb (containerKind p =? ParagraphKind) then p else
  let ind := indent p in
  if codeBlockIndentLimit <=? ind then p else
  let level := parseSetextHeadingUnderline (bytesAfterIndent p) in
  if level =? 0 then p else
  if negb (containerHasParagraphContent p) then p else
  let p := updCont p (fun b => set_bn (set_bkind b SetextHeadingKind) level) in
  endBlock (consumeLine p).

Definition startThematic (p : lp) : lp :=
  let ind := indent p in
  if codeBlockIndentLimit <=? ind then p else
  let e := parseThematicBreak (bytesAfterIndent p) in
  if e <? 0 then p else
  let p := consumeIndent p ind in
  let p := openBlock p ThematicBreakKind in
  let p := advance p e in
  endBlock (consumeLine p).

Definition startListItem (p : lp) : lp :=
  let ind := indent p in
  if codeBlockIndentLimit <=? ind then p else
  let '(delim, n, mend) := parseListMarker (bytesAfterIndent p) in
  if (mend <? 0) || ((containerKind p =? ParagraphKind) && lmIsOrdered delim && negb (n =? 1)) then p else
  if (containerKind p =? ParagraphKind) && isBlankLine (from_ (bytesAfterIndent p) mend) then p else
  let p := consumeIndent p ind in
  let cdelim := if (containerKind p =? ListKind) || (containerKind p =? ListItemKind) then bchar (contBlock p) else 0 in
  let p := if negb (containerKind p =? ListKind) || negb (cdelim =? delim)
           then updCont (openBlock p ListKind) (fun b => set_bchar b delim) else p in
  let p := updCont (openBlock p ListItemKind) (fun b => set_bchar b delim) in
  let p := openBlock p ListMarkerKind in
  let p := advance p mend in
  let p := endBlock p in
  if isRestBlank p then
    consumeLine (updCont p (fun b => set_bindent b (ind + mend + 1)))
  else
    let padding := indent p in
    let '(padding, p) :=
      if padding <? 1 then (1, p)
      else if 4 <? padding then (1, consumeIndent p 1)
      else (padding, consumeIndent p padding) in
    updCont p (fun b => set_bindent b (ind + mend + padding)).

Definition startIndented (p : lp) : lp :=
  if (indent p <? codeBlockIndentLimit) || isRestBlank p || (tipKind p =? ParagraphKind) then p else
  let p := consumeIndent p codeBlockIndentLimit in
  openBlock p IndentedCodeBlockKind.

Definition blockStarts : list (lp -> lp) :=
  [startBlockQuote; startATX; startFenced; startHTML; startSetext; startThematic; startListItem; startIndented].

(* one pass over the start functions: Some p = a function changed the state (matched or consumed), None = hit the text *)
Fixpoint tryStarts (fs : list (lp -> lp)) (p : lp) : bool * lp :=
  match fs with
  | [] => (false, p)
  | f :: r =>
    let p1 := f (withState p stOpening) in
    if (state p1 =? stOpenMatched) || (state p1 =? stLineConsumed) then (true, p1) else tryStarts r p1
  end.

(* openNewBlocks (parse.go:221): (hasText, p); the deferred close is applied by the caller *)
Fixpoint opening_loop (fuel : nat) (p : lp) : bool * lp :=
  match fuel with
  | O => (true, p)
  | S f =>
    if (containerKind p =? ParagraphKind) || negb (acceptsLines (containerKind p)) then
      match tryStarts blockStarts p with
      | (true, p1) => if state p1 =? stLineConsumed then (false, p1) else opening_loop f p1
      | (false, p1) => (true, p1)
      end
    else (true, p)
  end.

Definition deferredClose (p : lp) : lp :=
  let tipD := tipDepth (bheight (root p)) (root p) in
  if negb (isRestBlank p) &&
     (match getAt tipD (root p) with Some t => bkind t =? ParagraphKind | None => false end)
  then withCont p (Some tipD)
  else closeLastChildAt p (cdepth p) (lineStart p).

Definition openNewBlocks (p : lp) (allMatched : bool) : bool * lp :=
  if len (line p) =? 0 then
    (* EOF: close the document block *)
    let rt := match closeBlock (bheight (root p)) (source p) (root p) (lineStart p) with b :: _ => b | [] => root p end in
    (false, withCont (withRoot p rt) None)
  else
    let '(hasText, p1) := opening_loop (S (length (line p))) p in
    if allMatched then (hasText, p1) else (hasText, deferredClose p1).
