From Coq Require Import List ZArith Lia Bool.
Import ListNotations.
Require Import Base Tables Utf8 Tree Rdr Link Collect Html Recog Inl3a Inl3b Inl3c Inl3d Inl3e Props PEProof.
Require Import Leaf3e GI0 GI6 ShapesBase ShapesR IS5b IS6a.
Open Scope Z_scope.

(* ================================================================== *)
(* IS6c: the cursor after parseEndBracket: either untouched, or moved  *)
(* to the entry holding the closing ")" / "]" of the link.             *)
(* ================================================================== *)

Definition movedTo (st : ist) (p : Z) (st' : ist) : Prop :=
  upos st' = upos (advanceTo st p) /\ unp st' = unp st /\ isrc st' = isrc st.

Lemma movedTo_intro st st2 p kind odi : sameF st st2 -> movedTo st p (finishLink (advanceTo st2 p) kind odi).
Proof.
  intros H. destruct (advanceTo_sameF st st2 p H) as (A & (_ & B & C)).
  destruct (finishLink_sameF (advanceTo st2 p) kind odi) as (F1 & F2 & F3).
  cbn [setUpos unp isrc] in B, C. repeat split; congruence.
Qed.

Lemma peb_frame st start : spOK (isrc st) (unpFrom st) = true -> at_ (isrc st) start = 93 ->
  let r := parseEndBracket st start in
  (sameF st (fst r) /\ start + 1 <= snd r) \/
  (movedTo st (snd r - 1) (fst r) /\ start < snd r - 1 /\ (at_ (isrc st) (snd r - 1) = 41 \/ at_ (isrc st) (snd r - 1) = 93)).
Proof.
  intros HokF H93. cbv zeta. unfold parseEndBracket. cbv zeta. unfold lookForLinkOrImage.
  destruct (lfl_spec (S (length (stk st))) st (len (stk st) - 1) ltac:(lia)) as [(Er & Hst1)|(Hr & E1 & Htyp & Hact)].
  { destruct (lfl (S (length (stk st))) st (len (stk st) - 1)) as [st1 odi]. cbn [fst snd] in *. subst odi.
    cbn [Z.ltb Z.compare]. cbn [fst snd]. left. split; [|lia].
    eapply sameF_trans; [|apply addText_sameF]. destruct Hst1 as [->|(j & Hj & ->)]; repeat split. }
  destruct (lfl (S (length (stk st))) st (len (stk st) - 1)) as [st1 odi]. cbn [fst snd] in *. subst st1.
  replace (odi <? 0) with false by (symmetry; apply Z.ltb_ge; lia).
  set (od := nthD (stk st) odi). set (kind := if d_typ od =? tImage then ImageKind else LinkKind).
  assert (Hfail : sameF st (setStk (addText st start (start + 1)) (delStack (stk st) odi (odi + 1)))).
  { destruct (addText_sameF st start (start + 1)) as (A & B & C). repeat split; assumption. }
  match goal with |- context [match ?X with Some _ => _ | None => _ end] => destruct X as [[[[[ispan dspan] dtext] tspan] ttext]|] eqn:Etry end.
  - destruct ((start + 1 <? spanEnd st) && (at_ (isrc st) (start + 1) =? 40)); [|discriminate].
    destruct (parseInlineLink (rfuelOf st) st (start + 1)) as [[is0 [ds0 dt0]] [ts0 tt0]] eqn:Ep.
    destruct (spanValid is0) eqn:Ev; [|discriminate]. inversion Etry; subst is0 ds0 dt0 ts0 tt0. clear Etry.
    destruct (parseInlineLink_end _ _ _ _ _ _ HokF Ep Ev) as (Pf & P41 & Pge).
    destruct (wrap st kind (d_node od) None) as [st2 lid] eqn:Ew.
    assert (S2 : sameF st st2) by (change st2 with (fst (st2, lid)); rewrite <- Ew; repeat split).
    cbn [fst snd]. right. split; [|split; [lia|left; exact P41]]. apply movedTo_intro.
    destruct S2 as (A & B & C). destruct (spanValid dspan); destruct (spanValid tspan); repeat split; assumption.
  - match goal with |- context [match ?X with pair _ _ => _ end] => destruct X as [lspan linner] eqn:Elab end.
    destruct ((start + 2 <? spanEnd st) && (at_ (isrc st) (start + 1) =? 91) && (at_ (isrc st) (start + 2) =? 93)) eqn:Ecoll.
    + destruct (negb (matchRef _ _)); [cbn [fst snd]; left; split; [exact Hfail|lia]|].
      destruct (wrap st kind (d_node od) None) as [st2 lid] eqn:Ew.
      assert (S2 : sameF st st2) by (change st2 with (fst (st2, lid)); rewrite <- Ew; repeat split).
      cbn [fst snd]. left. split; [|lia]. eapply sameF_trans; [|apply finishLink_sameF]. destruct S2 as (A & B & C). repeat split; assumption.
    + destruct (spanValid lspan) eqn:Evl.
      * destruct (negb (matchRef _ _)); [cbn [fst snd]; left; split; [exact Hfail|lia]|].
        cbn [negb andb] in Elab.
        destruct ((start + 1 <? spanEnd st) && (at_ (isrc st) (start + 1) =? 91)); [|inversion Elab; subst; discriminate].
        destruct (parseLinkLabel (rfuelOf st) (newReader (isrc st) (unpFrom st) (start + 1))) as [[a b] r'] eqn:Epl.
        inversion Elab; subst a b. clear Elab.
        assert (HRI0 : RI (isrc st) (newReader (isrc st) (unpFrom st) (start + 1))) by (split; [reflexivity|exact HokF]).
        destruct (parseLinkLabel_end (isrc st) _ _ _ _ _ HRI0 Epl Evl) as (Pf & P93 & Pge). cbn [newReader r_pos] in Pf, Pge.
        destruct (wrap st kind (d_node od) None) as [st2 lid] eqn:Ew.
        assert (S2 : sameF st st2) by (change st2 with (fst (st2, lid)); rewrite <- Ew; repeat split).
        cbn [fst snd]. right. split; [|split; [lia|right; exact P93]]. apply movedTo_intro.
        destruct S2 as (A & B & C). repeat split; assumption.
      * destruct (negb (matchRef _ _)); [cbn [fst snd]; left; split; [exact Hfail|lia]|].
        destruct (wrap st kind (d_node od) None) as [st2 lid] eqn:Ew.
        assert (S2 : sameF st st2) by (change st2 with (fst (st2, lid)); rewrite <- Ew; repeat split).
        cbn [fst snd]. left. split; [|lia]. eapply sameF_trans; [|apply finishLink_sameF]. destruct S2 as (A & B & C). repeat split; assumption.
Qed.
