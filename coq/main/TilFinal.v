From Coq Require Import List ZArith Lia Bool.
Import ListNotations.
Require Import Base Tables Utf8 Tree Rdr Link Collect Html Recog LP Rules Starts Driver Render L2Kind L2CC L2Bnd L2BndS GramDefs GramTree GramLP4 GramBlocks
  Rec17 Rec18 Cursor C01a C01b Props BSDef BSRdr BSTree BSShift BSLine10 BlockSpans StreamFuel
  TilBase TilDefs TilLP2 TilLP6 TilLP12 TilShift TilStream TilStream2 TilStream3.
Open Scope Z_scope.

(* ================= C01 for the whole run, relative to the two facts about closing a paragraph ================= *)

Section Final.
  Hypothesis HOP : OcpPara.
  Hypothesis HOS : OcpSetext.

  Theorem parseBlocks_tiles input :
    tilesP input 0 (fst (parseBlocks input)) = true /\
    (snd (parseBlocks input) = 0 -> chk_C01 input (fst (parseBlocks input)) = true).
  Proof.
    unfold parseBlocks, chk_C01.
    apply (allBlocks_ok HOP HOS input (S (length (pad input))) _ [] true [] input).
    - unfold BK. cbn [buf boff bline app]. repeat split. apply nosplit_nil_l.
    - unfold NB. cbn [buf bi pending]. pose proof (len_nonneg (pad input)). split; [|split; [reflexivity|split; [left; reflexivity|split]]].
      + split; [|split; [reflexivity|split; exact I]]. unfold SI. cbn [buf bi pending]. repeat split; try lia.
      + apply KS_nil.
      + intros _. apply blankR_empty. lia.
    - reflexivity.
    - reflexivity.
  Qed.
End Final.
