(* QFull3b.v -- T64: from positions relative to a root block of D to absolute positions.
     cuts_shift    the pieces of a span of the root source are the pieces of the span of D, moved;
     qI3_shift     qI3 (rb_src r) (sgO D o) i = qI3D D (shiftI o i) for a forest with valid spans;
     leaf_entriesOKX   every leaf (isLeafU) below a root of D satisfies SpanHypDef.entriesOKX;
     leaf_valid    the forest that parseInlines returns for it has valid spans. *)
From Coq Require Import List ZArith Lia Bool.
Import ListNotations.
Require Import Base Tree LP Driver Inl3a Inl3e Props IS1 SpanHypDef SpanHyp SpanBridge InlineSpans ComposeSpans2
  QuoteSimDefs QuoteSimDrv1 QCutsDef QIRdrBase QInlDefs QFullDefs QFull1.
Open Scope Z_scope.

Section Shift.
  Variables (D sD : bytes) (o : Z).
  Hypothesis Ho : 0 <= o.
  Hypothesis Hat : forall x, 0 <= x < len sD -> at_ sD x = at_ D (o + x).

  Definition mvP (p : Z * Z) : Z * Z := (o + fst p, o + snd p).

  Lemma cutsF_shift : forall n a x e, 0 <= x -> e <= len sD ->
    cutsF D n (o + a) (o + x) (o + e) = map mvP (cutsF sD n a x e).
  Proof.
    induction n as [|n IH]; intros a x e Hx He; [reflexivity|]. cbn [cutsF].
    replace (o + e <=? o + x + 1) with (e <=? x + 1) by (destruct (Z.leb_spec e (x + 1)), (Z.leb_spec (o + e) (o + x + 1)); lia).
    destruct (Z.leb_spec e (x + 1)) as [L|L]; [reflexivity|].
    rewrite <- (Hat x) by lia.
    destruct (at_ sD x =? 10).
    - cbn [map]. unfold mvP at 1. cbn [fst snd]. replace (o + x + 1) with (o + (x + 1)) by lia. rewrite IH by lia. reflexivity.
    - replace (o + x + 1) with (o + (x + 1)) by lia. apply IH; lia.
  Qed.
  Lemma cuts_shift a e : 0 <= a -> e <= len sD -> cuts D (o + a) (o + e) = map mvP (cuts sD a e).
  Proof. intros Ha He. unfold cuts. replace (o + e - (o + a)) with (e - a) by lia. apply cutsF_shift; assumption. Qed.

  Lemma sgO_sigma x : 0 <= x -> sgO D o x = sigma D (o + x).
  Proof. intros Hx. unfold sgO. cbv zeta. destruct (Z.ltb_spec (o + x) 0); [lia|reflexivity]. Qed.

  Lemma qI3_shift : forall i, validI sD i = true -> qI3 sD (sgO D o) i = qI3D D (shiftI o i).
  Proof.
    fix IH 1. intros [k s e ind rf ks] H. cbn [validI] in H. apply andb_true_iff in H. destruct H as [Hv Hk].
    unfold span_valid in Hv. apply andb_true_iff in Hv. destruct Hv as [Hv H3]. apply andb_true_iff in Hv. destruct Hv as [H1 H2].
    apply Z.leb_le in H1, H2, H3.
    unfold qI3D. cbn [shiftI qI3]. cbv zeta.
    destruct (Z.leb_spec 0 e) as [_|X]; [|lia].
    assert (Ek : flat_map (qI3 sD (sgO D o)) ks = flat_map (qI3 D (sigma D)) (map (shiftI o) ks)).
    { clear -IH Hk. induction ks as [|c r IHr]; [reflexivity|]. cbn [forallb] in Hk. apply andb_true_iff in Hk. destruct Hk as [Hc Hr].
      cbn [flat_map map]. rewrite (IH c Hc), (IHr Hr). reflexivity. }
    rewrite Ek.
    replace (s + o <? e + o) with (s <? e) by (destruct (Z.ltb_spec s e), (Z.ltb_spec (s + o) (e + o)); lia).
    destruct (splitK k && (s <? e)) eqn:Es.
    - apply andb_true_iff in Es. destruct Es as [_ Es]. apply Z.ltb_lt in Es.
      replace (s + o) with (o + s) by lia. replace (e + o) with (o + e) by lia.
      rewrite (cuts_shift s e H1 H3), map_map. apply map_ext_in. intros p Hp.
      destruct (QCuts.cuts_bounds sD s e p Es Hp) as (B1 & B2 & B3). unfold mvP. cbn [fst snd].
      rewrite !sgO_sigma by lia. replace (o + snd p - 1) with (o + (snd p - 1)) by lia. reflexivity.
    - unfold eE. replace (s + o <? e + o) with (s <? e) by (destruct (Z.ltb_spec s e), (Z.ltb_spec (s + o) (e + o)); lia).
      rewrite sgO_sigma by lia. replace (s + o) with (o + s) by lia.
      destruct (Z.ltb_spec s e) as [L|L]; [|reflexivity].
      rewrite sgO_sigma by lia. replace (e + o - 1) with (o + (e - 1)) by lia. reflexivity.
  Qed.
  Lemma qI3_shift_list l : forallb (validI sD) l = true -> flat_map (qI3 sD (sgO D o)) l = flat_map (qI3D D) (map (shiftI o) l).
  Proof.
    induction l as [|x r IH]; intros H; [reflexivity|]. cbn [forallb] in H. apply andb_true_iff in H. destruct H as [Hx Hr].
    cbn [flat_map map]. rewrite (qI3_shift x Hx), (IH Hr). reflexivity.
  Qed.
End Shift.

(* spansI implies validI *)
Lemma spansI_validI src : forall i ps pe, spansI false src ps pe i = true -> validI src i = true.
Proof.
  fix IH 1. intros [k s e ind rf ks] ps pe H. cbn [spansI] in H. cbn [validI].
  apply andb_true_iff in H. destruct H as [H Hgo]. apply andb_true_iff in H. destruct H as [H _].
  apply andb_true_iff in H. destruct H as [H _]. apply andb_true_iff in H. destruct H as [Hv _]. rewrite Hv. cbn [andb].
  assert (G : forall l prev,
    (fix go (prev : Z) (l : list inline) {struct l} : bool :=
       match l with [] => true | k :: r => (prev <=? istart k) && spansI false src s e k && go (iend k) r end) prev l = true ->
    forallb (validI src) l = true).
  { clear Hgo. induction l as [|c r IHr]; intros prev Hgo; [reflexivity|].
    apply andb_true_iff in Hgo. destruct Hgo as [Hgo Hr]. apply andb_true_iff in Hgo. destruct Hgo as [_ Hc].
    cbn [forallb]. rewrite (IH c s e Hc). cbn [andb]. exact (IHr (iend c) Hr). }
  exact (G ks s Hgo).
Qed.

(* ---- entriesOKX for every leaf below a root ---- *)
Lemma entriesOKB_sub src : forall b0 b, subB b b0 -> (forall x, subB x b0 -> isLeafU x = true -> bkids x = []) ->
  forall f0, (bheight b0 <= f0)%nat -> entriesOKB f0 src b0 = true -> exists f, (bheight b <= f)%nat /\ entriesOKB f src b = true.
Proof.
  intros b0 b Hs HK f0 Hf0 H0. induction Hs as [b|b c b0 Hs IH Hc].
  - exists f0. split; assumption.
  - destruct (IH HK Hf0 H0) as (f & Hf & H). destruct f as [|f]; [pose proof (bheight_pos' b); lia|]. cbn [entriesOKB] in H.
    destruct (isLeafU b) eqn:E0.
    + rewrite (HK b Hs E0) in Hc. destruct Hc.
    + rewrite forallb_forall in H. exists f. split; [pose proof (bheight_kid' b c Hc); lia|apply H, Hc].
Qed.

Lemma leaf_entriesOKX D : KidsNilAt D -> forall r b, In r (fst (parseBlocks D)) -> subB b (rb_blk r) -> isLeafU b = true ->
  entriesOKX (rb_src r) b = true.
Proof.
  intros HK r b Hr Hs HL. pose proof (parseBlocks_entriesOKroots D) as H. unfold entriesOKroots in H. rewrite forallb_forall in H.
  destruct (entriesOKB_sub (rb_src r) (rb_blk r) b Hs (fun x Hx => HK r x Hr Hx) (bheight (rb_blk r)) (le_n _) (H r Hr)) as (f & Hf & He).
  destruct f as [|f]; [pose proof (bheight_pos' b); lia|]. cbn [entriesOKB] in He. rewrite HL in He. exact He.
Qed.

Lemma leaf_valid D : KidsNilAt D -> forall r b m, In r (fst (parseBlocks D)) -> subB b (rb_blk r) -> isLeafU b = true ->
  forallb (validI (rb_src r)) (parseInlines (rb_src r) m b) = true.
Proof.
  intros HK r b m Hr Hs HL. pose proof (leaf_entriesOKX D HK r b Hr Hs HL) as H. rewrite entriesOKX_eq in H.
  destruct (parseInlines_spans (rb_src r) m b H) as [_ H2]. apply forallb_forall. intros i Hi. rewrite forallb_forall in H2.
  apply (spansI_validI (rb_src r) i _ _ (H2 i Hi)).
Qed.
