From Coq Require Import List ZArith Lia Bool.
Import ListNotations.
Require Import Base Tables Utf8 Tree Rdr Link Collect Html Recog Inl3a Inl3b.
Require Import ShapesBase Rec17 IFSmall SpanSmall.
Require Import EolCRLFDefs EolCRLFSimBytes EolCRLFSimStream EolGenCrlfRdrStep EolGenCrlfRdrColl EolGenCrlfRdrLink EolCRLFFullBytes EolCRLFFullBytes1.
Open Scope Z_scope.

(* C14 (ii), CRLF clause, inline layer.  Part 5: autolinks.  The scanners never move past a line ending, so before the
   position they reach the two sources coincide. *)

Definition pre10 (t : bytes) (k : Z) : Prop := forall j, 0 <= j < k -> at_ t j <> 10.

Lemma m13_pred (p : Z -> bool) c : p 13 = p 10 -> p (m13 c) = p c.
Proof. intros H. unfold m13. destruct (Z.eqb_spec c 10) as [->|N]; [exact H|reflexivity]. Qed.

Lemma pre10_le t k k' : k' <= k -> pre10 t k -> pre10 t k'.
Proof. intros L H j Hj. apply H. lia. Qed.
Lemma pre10_succ t k : 0 <= k -> pre10 t k -> at_ t k <> 10 -> pre10 t (k + 1).
Proof. intros Hk H N j Hj. destruct (Z.eq_dec j k) as [->|D]; [exact N|apply H; lia]. Qed.
Lemma pre10_from t a k : 0 <= a -> pre10 t a -> pre10 (from_ t a) k -> pre10 t (a + k).
Proof.
  intros Ha H1 H2 j Hj. destruct (Z.lt_ge_cases j a) as [L|L]; [apply H1; lia|].
  replace j with (a + (j - a)) by lia. rewrite <- (Rec17.at_from t a (j - a)) by lia. apply H2. lia.
Qed.

Section Pre.
  Variable t : bytes.
  Variable k : Z.
  Hypothesis Hk : 0 <= k.
  Hypothesis Hp : pre10 t k.
  Lemma pre_P : phiP t k = k.
  Proof.
    pose proof (P_add_noLF t 0 (Z.to_nat k)) as H. rewrite phiP_0 in H. replace (0 + Z.of_nat (Z.to_nat k)) with k in H by lia.
    apply H. intros j Hj. apply Hp. lia.
  Qed.
  Lemma pre_at : at_ (crlf t) k = m13 (at_ t k).
  Proof. rewrite <- pre_P at 1. apply at_m13. Qed.
  Lemma pre_from : from_ (crlf t) k = crlf (from_ t k).
  Proof. rewrite <- pre_P at 1. apply crlf_from. exact Hk. Qed.
  Lemma pre_leb : (len (crlf t) <=? k) = (len t <=? k).
  Proof. rewrite len_R'. rewrite <- pre_P at 1. apply P_leb. Qed.
  Lemma pre_ltb : (k <? len (crlf t)) = (k <? len t).
  Proof. rewrite !Z.ltb_antisym, pre_leb. reflexivity. Qed.
End Pre.

(* ---------------------------------------------------------------- countWhile *)
Lemma countWhile_crlf p : p 10 = false -> p 13 = false -> forall l,
  countWhile p (crlf l) = countWhile p l /\ pre10 l (countWhile p l).
Proof.
  intros P10 P13. induction l as [|c r IH].
  - split; [reflexivity|]. intros j Hj. cbn [countWhile] in Hj. lia.
  - destruct (Z.eqb_spec c 10) as [->|N].
    + rewrite crlf_c10. cbn [countWhile]. rewrite P10, P13. split; [reflexivity|]. intros j Hj. lia.
    + rewrite (crlf_cN c r N). cbn [countWhile]. destruct IH as [IH1 IH2]. rewrite IH1. split; [reflexivity|].
      destruct (p c); [|intros j Hj; lia]. intros j Hj. destruct (Z.eq_dec j 0) as [->|D]; [exact N|].
      rewrite SpanSmall.at_consS by lia. apply IH2. lia.
Qed.

(* ---------------------------------------------------------------- parseDomainLabel *)
Lemma isLabelChar_10 c : isLabelChar c = true -> c <> 10.
Proof. intros H ->. discriminate H. Qed.

Lemma dl_run_crlf t : forall f e, 0 <= e -> pre10 t e ->
  dl_run f (crlf t) e = dl_run f t e /\ pre10 t (dl_run f t e) /\ e <= dl_run f t e.
Proof.
  induction f as [|f IH]; intros e He Hp; cbn [dl_run]; [split; [reflexivity|split; [exact Hp|lia]]|].
  rewrite (pre_ltb t e He Hp), (pre_at t e He Hp), (m13_pred isLabelChar) by reflexivity.
  destruct ((e <? 63) && (e <? len t) && isLabelChar (at_ t e)) eqn:C; [|split; [reflexivity|split; [exact Hp|lia]]].
  apply andb_true_iff in C. destruct C as [_ C].
  destruct (IH (e + 1) ltac:(lia) (pre10_succ t e He Hp (isLabelChar_10 _ C))) as (A & B & D).
  split; [exact A|split; [exact B|lia]].
Qed.

Lemma parseDomainLabel_crlf t : parseDomainLabel (crlf t) = parseDomainLabel t /\
  (0 <= parseDomainLabel t -> pre10 t (parseDomainLabel t) /\ 1 <= parseDomainLabel t).
Proof.
  unfold parseDomainLabel. cbv zeta.
  assert (P0 : pre10 t 0) by (intros j Hj; lia).
  rewrite (pre_leb t 0 ltac:(lia) P0), (pre_at t 0 ltac:(lia) P0), (m13_pred isASCIILetter), (m13_pred isASCIIDigit) by reflexivity.
  destruct ((len t <=? 0) || negb (isASCIILetter (at_ t 0) || isASCIIDigit (at_ t 0))) eqn:C; [split; [reflexivity|lia]|].
  apply orb_false_iff in C. destruct C as [_ C]. apply negb_false_iff in C.
  assert (N0 : at_ t 0 <> 10) by (intros E; rewrite E in C; discriminate C).
  assert (P1 : pre10 t 1) by (apply (pre10_succ t 0); [lia|exact P0|exact N0]).
  destruct (dl_run_crlf t 64 1 ltac:(lia) P1) as (A & B & D). rewrite A. set (e := dl_run 64 t 1) in *.
  rewrite (pre_at t (e - 1) ltac:(lia) (pre10_le t e (e - 1) ltac:(lia) B)), m13_eqb by discriminate.
  destruct (at_ t (e - 1) =? 45); [split; [reflexivity|lia]|].
  rewrite (pre_ltb t e ltac:(lia) B), (pre_at t e ltac:(lia) B), (m13_pred isLabelChar) by reflexivity.
  destruct ((e <? len t) && isLabelChar (at_ t e)); [split; [reflexivity|lia]|]. split; [reflexivity|intros _; split; [exact B|exact D]].
Qed.

(* ---------------------------------------------------------------- em_labels (same fuel) *)
Lemma em_labels_crlf t : forall f e, 0 <= e -> pre10 t e ->
  em_labels f (crlf t) e = em_labels f t e /\ (0 <= em_labels f t e -> pre10 t (em_labels f t e) /\ e <= em_labels f t e).
Proof.
  induction f as [|f IH]; intros e He Hp; cbn [em_labels]; [split; [reflexivity|intros _; split; [exact Hp|lia]]|]. cbv zeta.
  rewrite (pre_ltb t e He Hp), (pre_at t e He Hp), m13_eqb by discriminate.
  destruct ((e <? len t) && (at_ t e =? 46)) eqn:C; [|split; [reflexivity|intros _; split; [exact Hp|lia]]].
  apply andb_true_iff in C. destruct C as [_ C]. apply Z.eqb_eq in C.
  assert (P1 : pre10 t (e + 1)) by (apply pre10_succ; [exact He|exact Hp|rewrite C; discriminate]).
  rewrite (pre_from t (e + 1) ltac:(lia) P1).
  destruct (parseDomainLabel_crlf (from_ t (e + 1))) as [A B]. rewrite A.
  destruct (Z.ltb_spec (parseDomainLabel (from_ t (e + 1))) 0) as [L|L]; [split; [reflexivity|lia]|].
  destruct (B L) as [B1 B2].
  destruct (IH (e + 1 + parseDomainLabel (from_ t (e + 1))) ltac:(lia) ltac:(apply pre10_from; [lia|exact P1|exact B1])) as [X Y].
  split; [exact X|]. intros H. destruct (Y H) as [Y1 Y2]. split; [exact Y1|lia].
Qed.

(* ---------------------------------------------------------------- parseEmail *)
Lemma parseEmail_crlf t : parseEmail (crlf t) = parseEmail t /\ (0 <= parseEmail t -> pre10 t (parseEmail t) /\ 3 <= parseEmail t).
Proof.
  unfold parseEmail. cbv zeta.
  destruct (countWhile_crlf isEmailLocal eq_refl eq_refl t) as [A B]. rewrite A. set (e := countWhile isEmailLocal t) in *.
  destruct (countWhile_spec isEmailLocal t) as ((E0 & E1) & _). fold e in E0, E1.
  destruct (e =? 0) eqn:Ee; [split; [reflexivity|lia]|].
  rewrite (pre_leb t e E0 B), (pre_at t e E0 B), m13_eqb by discriminate.
  destruct ((len t <=? e) || negb (at_ t e =? 64)) eqn:C; [split; [reflexivity|lia]|].
  apply orb_false_iff in C. destruct C as [_ C]. apply negb_false_iff in C. apply Z.eqb_eq in C.
  assert (P1 : pre10 t (e + 1)) by (apply pre10_succ; [exact E0|exact B|rewrite C; discriminate]).
  rewrite (pre_from t (e + 1) ltac:(lia) P1).
  destruct (parseDomainLabel_crlf (from_ t (e + 1))) as [A2 B2]. rewrite A2.
  destruct (Z.ltb_spec (parseDomainLabel (from_ t (e + 1))) 0) as [L|L]; [split; [reflexivity|lia]|].
  destruct (B2 L) as [B21 B22].
  assert (P2 : pre10 t (e + 1 + parseDomainLabel (from_ t (e + 1)))) by (apply pre10_from; [lia|exact P1|exact B21]).
  destruct (em_labels_crlf t (S (length (crlf t))) (e + 1 + parseDomainLabel (from_ t (e + 1))) ltac:(lia) P2) as [A3 B3].
  assert (F : em_labels (S (length (crlf t))) t (e + 1 + parseDomainLabel (from_ t (e + 1))) =
              em_labels (S (length t)) t (e + 1 + parseDomainLabel (from_ t (e + 1)))).
  { apply em_labels_fuel.
    - pose proof (len_crlf t) as G1. pose proof (count10_nonneg t) as G2. unfold len in *. lia.
    - unfold len. lia. }
  assert (E2 : e <> 0) by (intros Q; rewrite Q in Ee; discriminate Ee).
  rewrite A3, F. split; [reflexivity|]. rewrite <- F. intros H. destruct (B3 H) as [Y1 Y2]. split; [exact Y1|lia].
Qed.

(* ---------------------------------------------------------------- al_uri *)
Lemma al_uri_crlf : forall l e, al_uri (crlf l) e = al_uri l e /\ (0 <= e -> 0 <= al_uri l e -> pre10 l (al_uri l e - e)).
Proof.
  induction l as [|c r IH]; intros e; [split; [reflexivity|cbn [al_uri]; lia]|].
  destruct (Z.eqb_spec c 10) as [->|N].
  - rewrite crlf_c10. cbn [al_uri]. change (13 =? 62) with false. change (10 =? 62) with false.
    change (isASCIIControl 13) with true. change (isASCIIControl 10) with true. cbn [orb]. split; [reflexivity|lia].
  - rewrite (crlf_cN c r N). cbn [al_uri]. destruct (c =? 62).
    { split; [reflexivity|]. intros _ _ j Hj. replace j with 0 by lia. exact N. }
    destruct (isASCIIControl c || (c =? 32) || (c =? 60)); [split; [reflexivity|lia]|].
    destruct (IH (e + 1)) as [A B]. split; [exact A|]. intros He H j Hj.
    destruct (Z.eq_dec j 0) as [->|D]; [exact N|]. rewrite SpanSmall.at_consS by lia. apply (B ltac:(lia) H). lia.
Qed.

(* ---------------------------------------------------------------- parseAutolink *)
Definition alBody (t : bytes) : Z :=
  if negb (at_ t 0 =? 60) then -1 else
  let ee := parseEmail (from_ t 1) in
  if (0 <=? ee) && (1 + ee <? len t) && (at_ t (1 + ee) =? 62) then 2 + ee else
  if negb (isASCIILetter (at_ t 1)) then -1 else
  let e := 2 + countWhile isSchemeChar (from_ t 2) in
  if (e <? 3) || (33 <? e) then -1 else
  if (len t <=? e) || negb (at_ t e =? 58) then -1 else
  al_uri (from_ t (e + 1)) (e + 1).
Lemma parseAutolink_eq t : parseAutolink t = if len t <? 5 then -1 else alBody t.
Proof. unfold parseAutolink, alBody. destruct (len t <? 5); [reflexivity|]. cbn [orb]. reflexivity. Qed.

Lemma alBody_crlf t : alBody (crlf t) = alBody t /\ (0 <= alBody t -> 5 <= alBody t <= len t /\ pre10 t (alBody t)).
Proof.
  unfold alBody. cbv zeta.
  assert (P0 : pre10 t 0) by (intros j Hj; lia).
  rewrite (pre_at t 0 ltac:(lia) P0), m13_eqb by discriminate.
  destruct (Z.eqb_spec (at_ t 0) 60) as [E0|N0]; cbn [negb]; [|split; [reflexivity|lia]].
  assert (P1 : pre10 t 1) by (apply (pre10_succ t 0); [lia|exact P0|rewrite E0; discriminate]).
  rewrite (pre_from t 1 ltac:(lia) P1).
  destruct (parseEmail_crlf (from_ t 1)) as [A B]. rewrite A. set (ee := parseEmail (from_ t 1)) in *.
  assert (C1 : (0 <=? ee) && (1 + ee <? len (crlf t)) && (at_ (crlf t) (1 + ee) =? 62) = (0 <=? ee) && (1 + ee <? len t) && (at_ t (1 + ee) =? 62)).
  { destruct (Z.leb_spec 0 ee) as [L|L]; [|reflexivity]. cbn [andb]. destruct (B L) as [B1 B2].
    assert (Pe : pre10 t (1 + ee)) by (apply pre10_from; [lia|exact P1|exact B1]).
    rewrite (pre_ltb t (1 + ee) ltac:(lia) Pe), (pre_at t (1 + ee) ltac:(lia) Pe), m13_eqb by discriminate. reflexivity. }
  rewrite C1. destruct ((0 <=? ee) && (1 + ee <? len t) && (at_ t (1 + ee) =? 62)) eqn:C.
  { split; [reflexivity|]. intros _. apply andb_true_iff in C. destruct C as [C C3]. apply andb_true_iff in C. destruct C as [C2 C4].
    apply Z.leb_le in C2. apply Z.ltb_lt in C4. apply Z.eqb_eq in C3. destruct (B C2) as [B1 B2].
    split; [lia|]. replace (2 + ee) with (1 + ee + 1) by lia. apply pre10_succ; [lia| |rewrite C3; discriminate].
    apply pre10_from; [lia|exact P1|exact B1]. }
  clear C C1.
  rewrite (pre_at t 1 ltac:(lia) P1), (m13_pred isASCIILetter) by reflexivity.
  destruct (isASCIILetter (at_ t 1)) eqn:L1; cbn [negb]; [|split; [reflexivity|lia]].
  assert (P2 : pre10 t 2) by (apply (pre10_succ t 1); [lia|exact P1|intros Q; rewrite Q in L1; discriminate L1]).
  rewrite (pre_from t 2 ltac:(lia) P2).
  destruct (countWhile_crlf isSchemeChar eq_refl eq_refl (from_ t 2)) as [A2 B2]. rewrite A2.
  destruct (countWhile_spec isSchemeChar (from_ t 2)) as ((E1 & _) & _).
  set (e := 2 + countWhile isSchemeChar (from_ t 2)) in *.
  destruct (Z.ltb_spec e 3) as [L3|L3]; cbn [orb]; [split; [reflexivity|lia]|].
  destruct (33 <? e); [split; [reflexivity|lia]|].
  assert (Pe : pre10 t e) by (apply pre10_from; [lia|exact P2|exact B2]).
  rewrite (pre_leb t e ltac:(lia) Pe), (pre_at t e ltac:(lia) Pe), m13_eqb by discriminate.
  destruct (Z.leb_spec (len t) e) as [Le|Le]; cbn [orb]; [split; [reflexivity|lia]|].
  destruct (Z.eqb_spec (at_ t e) 58) as [E58|N58]; cbn [negb]; [|split; [reflexivity|lia]].
  assert (Pe1 : pre10 t (e + 1)) by (apply pre10_succ; [lia|exact Pe|rewrite E58; discriminate]).
  rewrite (pre_from t (e + 1) ltac:(lia) Pe1).
  destruct (al_uri_crlf (from_ t (e + 1)) (e + 1)) as [A3 B3]. rewrite A3. split; [reflexivity|]. intros H.
  destruct (al_uri_bounds (from_ t (e + 1)) (e + 1)) as [X|X]; [lia|].
  rewrite (ShapesBase.len_from t (e + 1)) in X by lia. split; [lia|].
  replace (al_uri (from_ t (e + 1)) (e + 1)) with (e + 1 + (al_uri (from_ t (e + 1)) (e + 1) - (e + 1))) by lia.
  apply pre10_from; [lia|exact Pe1|apply B3; lia].
Qed.

Lemma alBody_m1 t : alBody t = -1 \/ 0 <= alBody t.
Proof.
  unfold alBody. cbv zeta. destruct (negb (at_ t 0 =? 60)); [left; reflexivity|].
  pose proof (proj1 (proj1 (countWhile_spec isSchemeChar (from_ t 2)))) as CW.
  assert (U : forall l e, 0 <= e -> al_uri l e = -1 \/ 0 <= al_uri l e)
    by (intros l e He; destruct (al_uri_bounds l e) as [X|X]; [left; exact X|right; lia]).
  destruct (Z.leb_spec 0 (parseEmail (from_ t 1))) as [L|L]; cbn [andb].
  - destruct (_ && _); [right; lia|]. destruct (negb _); [left; reflexivity|]. destruct (_ || _); [left; reflexivity|].
    destruct (_ || _); [left; reflexivity|]. apply U. lia.
  - destruct (negb _); [left; reflexivity|]. destruct (_ || _); [left; reflexivity|].
    destruct (_ || _); [left; reflexivity|]. apply U. lia.
Qed.

Theorem parseAutolink_crlf t : ~ In 13 t -> parseAutolink (crlf t) = parseAutolink t /\
  (0 <= parseAutolink t -> 2 <= parseAutolink t <= len t /\ forall k, 0 <= k < parseAutolink t -> at_ t k <> 10).
Proof.
  intros _. rewrite !parseAutolink_eq. destruct (alBody_crlf t) as [A B]. rewrite A.
  pose proof (len_crlf t) as G1. pose proof (count10_nonneg t) as G2.
  destruct (Z.ltb_spec (len t) 5) as [L|L].
  - split; [|lia]. destruct (Z.ltb_spec (len (crlf t)) 5) as [L'|L']; [reflexivity|].
    destruct (alBody_m1 t) as [Q|Q]; [exact Q|]. destruct (B Q) as [B1 _]. lia.
  - destruct (Z.ltb_spec (len (crlf t)) 5) as [L'|L']; [lia|]. split; [reflexivity|].
    intros H. destruct (B H) as [B1 B2]. split; [lia|exact B2].
Qed.
Print Assumptions parseAutolink_crlf.
