From Coq Require Import List ZArith Lia Bool.
Import ListNotations.
Require Import Base Tables Utf8 Tree Rdr Link Collect Html Recog Inl3a Inl3b Inl3c Inl3d Inl3e Driver.
Require Import ShapesBase ShapesR ShapesCS Leaf3e RdrBound IFBase IFLink IFCode IFTokDef IFFrame IFTokAux.
Open Scope Z_scope.

(* ================================================================ where the scanners used by the tokeniser end *)
Section Res.
  Variable src : bytes.
  Notation PL := (PL src).
  Notation prog := (prog src).

  (* a valid inline-link span ends at least two bytes after the '(' it was started on *)
  Lemma pil_end f (st : ist) s res : isrc st = src -> spW src (unpFrom st) = true ->
    parseInlineLink f st s = res -> spanValid (fst (fst res)) = true -> s + 2 <= snd (fst (fst res)).
  Proof.
    intros Es Hw. unfold parseInlineLink. rewrite Es.
    pose proof (PL_new src (unpFrom st) (s + 1) Hw) as HP0.
    assert (Hr : r_pos (newReader src (unpFrom st) (s + 1)) = s + 1) by reflexivity.
    set (r := newReader src (unpFrom st) (s + 1)) in *.
    subp skipLinkSpace (skipLinkSpace_prog src). dok; [|intros <-; cbn; discriminate].
    match goal with |- context [parseLinkDestination f ?x] =>
      pose proof (parseLinkDestination_prog src f x ltac:(assumption)) as (? & ? & ? & ?);
      destruct (parseLinkDestination f x) as [[ds dt] r2]; cbn [snd] in * end.
    assert (Hpg : prog r2 (snd (if spanValid ds then skipLinkSpace f r2 else (true, r2)))).
    { destruct (spanValid ds); [apply skipLinkSpace_prog; assumption|apply prog_refl; assumption]. }
    destruct Hpg as (? & ? & ? & ?).
    destruct (if spanValid ds then skipLinkSpace f r2 else (true, r2)) as [ok2 r3]. cbn [snd] in *. dok; [|intros <-; cbn; discriminate].
    match goal with |- context [parseLinkTitle f ?x] =>
      pose proof (parseLinkTitle_prog src f x ltac:(assumption)) as (? & ? & ? & ?);
      destruct (parseLinkTitle f x) as [[ts tt] r4]; cbn [snd] in * end.
    assert (Hpg : prog r4 (snd (if spanValid ts then skipLinkSpace f r4 else (true, r4)))).
    { destruct (spanValid ts); [apply skipLinkSpace_prog; assumption|apply prog_refl; assumption]. }
    destruct Hpg as (? & ? & ? & ?).
    destruct (if spanValid ts then skipLinkSpace f r4 else (true, r4)) as [ok3 r5]. cbn [snd] in *. dok; [|intros <-; cbn; discriminate].
    destruct (negb _); [intros <-; cbn; discriminate|]. intros <-. cbn [fst snd]. intros _. lia.
  Qed.

  (* a valid link-label span ends after the position it was started on *)
  Lemma label_end f r : PL r -> spanValid (fst (fst (parseLinkLabel f r))) = true -> r_pos r + 1 <= snd (fst (fst (parseLinkLabel f r))).
  Proof.
    intros H. unfold parseLinkLabel. rstep src. destruct (negb (_ =? 91)); [cbn; discriminate|].
    match goal with |- context [ll_skip f ?x 0] => destruct (ll_skip f x 0) as [[r1 chars]|] eqn:E1; [|cbn; discriminate] end.
    pose proof (ll_skip_prog src _ _ _ _ _ ltac:(eassumption) E1) as (? & ? & ? & ?).
    destruct (ll_body f r1 chars (-1)) as [[r2 ie]|] eqn:E2; [|cbn; discriminate].
    pose proof (ll_body_prog src _ _ _ _ _ _ ltac:(eassumption) E2) as (? & ? & ? & ?). rstep src.
    destruct (negb (_ =? 93)); [cbn; discriminate|]. rstep src. cbn [fst snd]. intros _. lia.
  Qed.
End Res.

(* ================================================================ code spans, under ShapesR.spOK *)
Section CSin.
  Variable src : bytes.
  Variable sp0 : list inline.
  Notation RJ := (RJ src sp0).

  Lemma RJ_exhausted r r1 : RJ r -> next r = (false, r1) -> RJ r1.
  Proof.
    intros ((Hs & _) & _) E. destruct (next_false r r1 E) as (A & B & _). split; [split; [congruence|rewrite A; reflexivity]|].
    rewrite A. apply sublist_nil.
  Qed.
  Lemma RJ_step r r1 : RJ r -> next r = (true, r1) -> RJ r1 /\ InNode r1.
  Proof.
    intros HJ E. pose proof HJ as (HRI & _). destruct (next_step src r r1 HRI E) as (A & B & _).
    split; [split; [exact A|eapply RJ_next; eassumption]|exact B].
  Qed.

  Lemma cs_run_RJ : forall fuel r k, RJ r -> RJ (fst (fst (cs_run fuel r k))).
  Proof.
    induction fuel as [|f IH]; intros r k HJ; [exact HJ|]. cbn [cs_run]. destruct (next r) as [ok r1] eqn:E.
    destruct ok; cbn [negb]; [|cbn [fst]; eapply RJ_exhausted; eassumption].
    destruct (RJ_step r r1 HJ E) as [HJ1 _].
    destruct (cur r1 =? 96); [apply IH; apply RJ_current; exact HJ1|cbn [fst]; apply RJ_current; exact HJ1].
  Qed.

  Lemma cs_close_in blen : forall fuel r ce se, RJ r -> InNode r -> cs_close fuel r blen = (ce, se) -> 0 <= se ->
    exists r', RJ r' /\ InNode r' /\ r_pos r' = ce.
  Proof.
    induction fuel as [|f IH]; intros r ce se HJ HI H Hse; [inversion H; lia|]. cbn [cs_close] in H.
    destruct (cur r =? 96); cbn [negb] in H.
    - pose proof (cs_run_RJ (S f) (snd (current r)) 1 (RJ_current _ _ _ HJ)) as HJ1.
      destruct (cs_run (S f) (snd (current r)) 1) as [[r1 k] alive]. cbn [fst] in HJ1.
      destruct (k =? blen); [inversion H; subst; exists r; split; [exact HJ|split; [exact HI|reflexivity]]|].
      destruct (next r1) as [ok r2] eqn:E. destruct ok; cbn [negb] in H; [|inversion H; lia].
      destruct (RJ_step r1 r2 HJ1 E) as [HJ2 HI2]. exact (IH r2 ce se HJ2 HI2 H Hse).
    - rewrite next_current in H. destruct (next r) as [ok r'] eqn:E. destruct ok; cbn [negb] in H; [|inversion H; lia].
      destruct (RJ_step r r' HJ E) as [HJ2 HI2]. exact (IH r' ce se HJ2 HI2 H Hse).
  Qed.
End CSin.

Lemma parseCodeSpan_cE_in fuel (st : ist) start cS cE sE : spOK (isrc st) (unpFrom st) = true ->
  parseCodeSpan fuel st start = (cS, cE, sE) -> 0 <= sE ->
  exists node, In node (unpFrom st) /\ spanHas node cE = true.
Proof.
  intros Hok H Hse. unfold parseCodeSpan in H. set (src := isrc st) in *. set (sp0 := unpFrom st) in *.
  set (r0 := newReader src sp0 start) in *.
  assert (HJ0 : RJ src sp0 r0) by (split; [split; [reflexivity|exact Hok]|apply sublist_refl]).
  destruct (cs_open fuel r0 0 start) as [[[[r1 n] c1]|] c2] eqn:Eo; [|inversion H; lia].
  destruct (cs_open_spec src sp0 _ _ _ _ _ _ _ _ HJ0 Eo) as (A & B & C & D & E & F & G & M).
  destruct (cs_close fuel r1 n) as [ce se] eqn:Ecl. inversion H; subst cS cE sE. clear H.
  destruct (Z.lt_ge_cases n 1) as [Hn|Hn]; [rewrite (cs_close_zero n Hn) in Ecl; inversion Ecl; lia|].
  destruct (F ltac:(lia)) as (HI1 & _).
  destruct (cs_close_in src sp0 n fuel r1 ce se A HI1 Ecl Hse) as (r' & (_ & Hsub) & (node & Hnode) & Hp).
  exists node. split; [apply Hsub; eapply curNode_in; exact Hnode|]. rewrite <- Hp. eapply curNode_has; exact Hnode.
Qed.

(* the reader placed on a byte of a non-blank entry reports that byte *)
Lemma cur_new_at src (u : inline) rest pos c : spOK src (u :: rest) = true -> istart u <= pos < iend u ->
  at_ src pos = c -> c <> 0 -> isSpTab c = false -> cur (newReader src (u :: rest) pos) = c.
Proof.
  intros Hok Hp Hc Hc0 Hb. pose proof (spOK_cons _ _ _ Hok) as (A & B & _ & D & _). pose proof (spOK_iend _ _ _ Hok) as He.
  assert (Hh : spanHas u pos = true) by (apply spanHas_intro; lia).
  unfold cur, current. cbn [newReader r_src r_pos r_vpos].
  destruct (Z.leb_spec (len src) pos); [lia|].
  rewrite (curNode_head u rest (newReader src (u :: rest) pos)) by (first [reflexivity|exact Hh]). cbn [okind].
  destruct (Z.eqb_spec (ikind u) IndentKind) as [Ek|Ek].
  - exfalso. destruct (indent_blank src u pos (D Ek) Hh) as [L|L]; [lia|]. rewrite Hc in L. congruence.
  - rewrite Hc. destruct (Z.eqb_spec c 0); [congruence|reflexivity].
Qed.

(* cs_open never moves the content start backwards *)
Lemma cs_open_cstart src : forall fuel r n c, PL src r -> c <= r_pos r ->
  c <= snd (cs_open fuel r n c) /\ (forall r1 n1 c1, fst (cs_open fuel r n c) = Some (r1, n1, c1) -> c <= c1).
Proof.
  induction fuel as [|f IH]; intros r n c H Hc; [cbn; split; [lia|discriminate]|]. cbn [cs_open]. unfold cur. rstep src.
  cbn [fst snd]. destruct (_ =? 96); [|cbn [fst snd]; split; [lia|intros ? ? ? E; inversion E; subst; lia]].
  rstep src. dok; [|cbn [fst snd]; split; [lia|discriminate]].
  match goal with |- context [cs_open f ?x ?m ?d] => destruct (IH x m d ltac:(assumption) ltac:(lia)) as [I1 I2] end.
  split; [lia|]. intros r1' n1 c1 E. specialize (I2 _ _ _ E). lia.
Qed.

(* an unterminated or terminated code span: the content start lies after the opening backtick *)
Lemma parseCodeSpan_cS fuel (st : ist) pos u rest : (0 < fuel)%nat -> unpFrom st = u :: rest -> spOK (isrc st) (u :: rest) = true ->
  istart u <= pos < iend u -> at_ (isrc st) pos = 96 -> pos < fst (fst (parseCodeSpan fuel st pos)).
Proof.
  intros Hf Eu Hok Hp H96. unfold parseCodeSpan. rewrite Eu. set (src := isrc st) in *.
  pose proof (cur_new_at src u rest pos 96 Hok Hp H96 ltac:(lia) eq_refl) as Hcur.
  pose proof (PL_new src (u :: rest) pos (spOK_spW _ _ Hok)) as HP0.
  assert (Hh : spanHas u pos = true) by (apply spanHas_intro; pose proof (spOK_cons _ _ _ Hok); lia).
  assert (Hcn : curNode (newReader src (u :: rest) pos) = (Some u, newReader src (u :: rest) pos)) by (apply (curNode_head u rest); [reflexivity|exact Hh]).
  assert (HJ0 : RJ src (u :: rest) (newReader src (u :: rest) pos)) by (split; [split; [reflexivity|exact Hok]|apply sublist_refl]).
  set (r := newReader src (u :: rest) pos) in *. assert (Hrp : r_pos r = pos) by reflexivity.
  destruct fuel as [|f]; [lia|]. cbn [cs_open]. rewrite Hcur. cbn [Z.eqb Pos.eqb]. rewrite next_current.
  destruct (next r) as [ok r1] eqn:En. destruct ok; cbn [negb].
  - destruct (tick_step src (u :: rest) r r1 HJ0 ltac:(rewrite Hrp; exact H96) En) as ((HRI1 & _) & _ & _ & Hp1 & _).
    assert (HP1 : PL src r1) by (destruct HRI1 as [X Y]; split; [exact X|apply spOK_spW, Y]).
    destruct (cs_open_cstart src f r1 (0 + 1) (r_pos r1) HP1 ltac:(lia)) as [I1 I2].
    destruct (cs_open f r1 (0 + 1) (r_pos r1)) as [[[[r2 n2] c2]|] c3] eqn:Eo; cbn [fst snd] in *.
    + destruct (cs_close (S f) r2 n2) as [ce se]. cbn [fst]. specialize (I2 _ _ _ eq_refl). lia.
    + lia.
  - cbn [fst]. destruct (next_false r r1 En) as (_ & _ & C). destruct (C u ltac:(rewrite Hcn; reflexivity)) as (_ & P & _). lia.
Qed.
