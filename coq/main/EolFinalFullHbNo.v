(* T63-F1, direction D1: when the source of the last root does not end in two spaces the inline forests of its paragraphs are
   unchanged, and the requested statement holds literally (parseFull_final_newline_nohb). *)
From Coq Require Import List ZArith Lia Bool.
Import ListNotations.
Require Import Base Tables Utf8 Tree Rdr Link Collect Html Recog Inl3a Inl3b Inl3c Inl3d Driver Inl3e Props Rules.
Require L2Kind2.
Require Import IFPe IFTokDef IFTk1 IFTk2 IFTk5 IFTokTf L2CC ShapesBase ShapesR ShapesComp3 EntBase EntDefs En2Tree ComposeBase ComposeGram SpanHypDef SpanHyp ComposeSpans2 InlineSpans GramInline InlineFuelAll.
Require Import SpanTok SpanRdr.
Require Import LADef EolFinalDefs EolGenRdrBase EolFinalGenMain EolFinalFullDefs EolFinalFullRdrE EolFinalFullTokB EolFinalFullLeaf EolFinalFullMain EolFinalFullHbHtml EolFinalFullHbAdv.
Open Scope Z_scope.

Lemma at_last2 (a : bytes) x y : at_ (a ++ [x; y]) (len (a ++ [x; y]) - 2) = x.
Proof.
  unfold at_, len. rewrite app_length. cbn [length]. destruct (Z.ltb_spec (Z.of_nat (length a + 2) - 2) 0); [lia|].
  replace (Z.to_nat (Z.of_nat (length a + 2) - 2)) with (length a) by lia. rewrite app_nth2 by lia. rewrite Nat.sub_diag. reflexivity.
Qed.
Lemma hbFacts_hbTail src ps : hbFacts src ps -> 0 <= ps -> hbTail src = true.
Proof.
  intros (A & B & C) Hp. unfold hbTail. destruct (rev src) as [|y [|x r]] eqn:Er.
  - apply (f_equal (@rev Z)) in Er. rewrite rev_involutive in Er. subst src. cbn in C. lia.
  - apply (f_equal (@rev Z)) in Er. rewrite rev_involutive in Er. subst src. cbn in C. lia.
  - assert (E : src = rev r ++ [x; y]) by (rewrite <- (rev_involutive src), Er; cbn [rev]; rewrite <- app_assoc; reflexivity).
    assert (Ey : y = 32). { rewrite E in A. replace (rev r ++ [x; y]) with ((rev r ++ [x]) ++ [y]) in A by (rewrite <- app_assoc; reflexivity). rewrite at_last in A. exact A. }
    assert (Ex : x = 32). { rewrite E in B. rewrite at_last2 in B. exact B. }
    subst x y. reflexivity.
Qed.

Lemma lines_ends B src n : len src = n -> (forall i, 0 <= i < n -> ((at_ src i =? 10) || (at_ src i =? 13)) = ((at_ B i =? 10) || (at_ B i =? 13))) ->
  n <= len B -> forall M, M <= n -> forall ik, lines B M ik -> forall u, In u ik -> ikind u <> IndentKind -> iend u = len src \/ isEOLb (at_ src (iend u - 1)) = true.
Proof.
  intros Hlen Heol HnB M HM. induction ik as [|x r IH]; intros H u Hu Ni; [destruct Hu|]. destruct H as (A & _ & A2). destruct Hu as [->|Hu]; [|apply IH; assumption].
  destruct A as [(K & _ & U1 & U2 & U3 & (_ & _ & _ & _ & Ke) & _)|[(K & _) _]]; [|contradiction].
  destruct Ke as [Ke|(_ & Ke)]; [left; lia|]. right. unfold isEOLb. rewrite (Heol (iend u - 1)) by lia. unfold EntBase.isEOLz in Ke. apply orb_true_iff. destruct Ke as [Ke|Ke]; rewrite Ke; [left|right]; reflexivity.
Qed.

Section NoHb.
  Variables (s : bytes) (r : rootB) (refs : list bytes).
  Hypothesis Hr : In r (fst (parseBlocks s)).
  Local Notation src := (rb_src r).
  Local Notation L := (len (rb_src r)).
  Hypothesis Hend : 0 < L -> LADef.isEOLz (at_ src (L - 1)) = false /\ at_ src (L - 1) <> 62.
  Hypothesis HqAll : forall d, subB d (rb_blk r) -> hasUnparsed d = true -> forall rf tf pf lf ofu,
     (2 * length (src ++ [10%Z]) + 10 <= rf)%nat -> (2 * length (src ++ [10%Z]) + 10 <= tf)%nat -> (8 * length (src ++ [10%Z]) + 8 <= pf)%nat ->
     (S (length (src ++ [10%Z])) <= lf)%nat -> (S (length (bik (finB L d))) <= ofu)%nat ->
     parseInlinesG rf tf pf lf ofu (src ++ [10]) refs (finB L d) = parseInlines (src ++ [10]) refs (finB L d).
  Hypothesis Hnohb : hbTail src = false.

  Lemma entriesOKB_sub : forall d b, subB d b -> subB b (rb_blk r) -> forall f, (bheight b <= f)%nat -> entriesOKB f src b = true -> hasUnparsed d = true ->
    entriesOK src d = true.
  Proof.
    induction 1 as [b|d c b Hin Hs IH]; intros Hb f Hh H Hu.
    - destruct f as [|f]; [destruct b; cbn in Hh; lia|]. cbn [entriesOKB] in H. unfold isLeafU in H. rewrite cond_hasU, Hu in H. rewrite <- entriesOKX_eq. exact H.
    - destruct f as [|f]; [destruct b; cbn in Hh; lia|]. cbn [entriesOKB] in H. unfold isLeafU in H. rewrite cond_hasU in H.
      destruct (hasUnparsed b) eqn:Hub.
      + exfalso. destruct (leaf_kind_nokids s r Hr b Hb Hub) as [_ Hk]. rewrite Hk in Hin. destruct Hin.
      + rewrite forallb_forall in H. apply (IH (subB_kid2 c b _ Hin Hb) f); [|apply H, Hin|exact Hu].
        destruct b as [K s0 e0 bk ik a0 n0 c0 l0 lb0]. cbn [bheight bkids] in *. pose proof (bheight_kid c bk Hin). lia.
  Qed.

  Lemma leaf_nohb d : subB d (rb_blk r) -> hasUnparsed d = true ->
    parseInlines (src ++ [10]) refs (finB L d) = parseInlines src refs d.
  Proof.
    intros Hd Hu. destruct (leaf_final s r d refs Hr Hd Hu Hend (HqAll d Hd Hu)) as [E|(HKp & _)]; [exact E|].
    (* a paragraph: run leaf_rel again, with the fuels in hand *)
    destruct (root_facts s r Hr) as (B & pre' & M & Hn & Es & Ht & Lp & Hf).
    pose proof (facts_sub B pre' M d _ Hd Hf) as Hfd.
    pose proof (leaf_bikOKw B (upto B (bend (rb_blk r))) src pre' M (bend (rb_blk r)) Hn eq_refl Es Ht Lp d Hfd Hu) as Hw.
    pose proof (src_len B (upto B (bend (rb_blk r))) src (bend (rb_blk r)) Hn eq_refl Es) as Hlen.
    pose proof (src_eol B (upto B (bend (rb_blk r))) src (bend (rb_blk r)) eq_refl Es Ht) as Heol.
    set (rf := (2 * length (src ++ [10%Z]) + 10)%nat). set (pf := (8 * length (src ++ [10%Z]) + 8)%nat). set (lf := S (length (src ++ [10%Z]))).
    assert (Hlen2 : length (src ++ [10%Z]) = S (length src)) by (rewrite app_length; cbn; lia).
    assert (Hp : forall ofu, (S (length (bik d)) <= ofu)%nat -> parseInlinesG rf rf pf lf ofu src refs d = parseInlines src refs d).
    { intros ofu Ho. apply (parseFull_fuel_adequate s r d Hr Hd Hu refs); unfold rf, pf, lf; rewrite ?Hlen2; lia. }
    destruct (leaf_cases B pre' M (bend (rb_blk r)) Lp d Hfd Hu) as (Hb0 & Hb1 & Hb2 & [(HPS & HL & _)|(HA & _)]); [|rewrite HA in HKp; discriminate].
    assert (Hok : bikOK src d = true).
    { unfold bikOKw in Hw. apply orb_true_iff in Hw. destruct Hw as [Hw|Hw]; [exact Hw|].
      unfold emptyATX in Hw. apply andb_true_iff in Hw. destruct Hw as [Hk _]. apply Z.eqb_eq in Hk. rewrite HKp in Hk. discriminate. }
    unfold bikOK in Hok. apply andb_true_iff in Hok. destruct Hok as [Hok _]. apply andb_true_iff in Hok. destruct Hok as [H1 H2]. apply Z.leb_le in H2.
    assert (Hne : bik d <> []) by (intros E; unfold hasUnparsed in Hu; rewrite E in Hu; discriminate).
    assert (HL0 : 0 < L).
    { destruct (bik d) as [|u0 r0] eqn:Eik; [congruence|]. destruct (IFTokAux.spOK_In src _ u0 H1 (or_introl eq_refl)) as (A & B' & C). lia. }
    destruct (Hend HL0) as [Hlast H62].
    assert (HM : bend d <= bend (rb_blk r)) by exact Hb2.
    (* the conditions of SpanRdr on the entries *)
    assert (Hent : entriesOK src d = true).
    { pose proof (parseBlocks_entriesOKroots s) as HS. unfold entriesOKroots in HS. rewrite forallb_forall in HS.
      apply (entriesOKB_sub d (rb_blk r) Hd (subB_refl _) (bheight (rb_blk r)) (le_n _) (HS r Hr) Hu). }
    assert (Hns : ~ singleEmpty (bik d)).
    { intros (u & Eu & Ee). rewrite Eu in H1. destruct (IFTokAux.spOK_In src _ u H1 (or_introl eq_refl)) as (_ & B' & _). lia. }
    pose proof (entriesOK_EC src d Hent Hne Hns) as HEC.
    destruct d as [K s0 e0 bk ik a0 n0 c0 l0 lb0]. cbn [bkind bik bend bstart] in *. subst K.
    assert (Efin : finB L (Blk ParagraphKind s0 e0 bk ik a0 n0 c0 l0 lb0) = Blk ParagraphKind s0 (bump L e0) (map (finB L) bk) (finI ParagraphKind L ik) a0 n0 c0 l0 lb0) by reflexivity.
    assert (Eik2 : finI ParagraphKind L ik = mS src true ik) by reflexivity.
    assert (HU : okS src true ik) by (apply (lines_GS B src (bend (rb_blk r)) Hlen e0 HM HL0 ik HL)).
    assert (Hfacts := lines_entry_facts B src (bend (rb_blk r)) Hlen e0 HM ik HL).
    assert (HbigS : bigS src rf ik) by (unfold bigS, rf; rewrite Hlen2; unfold len in *; lia).
    pose proof (leaf_rel src HL0 Hlast true rf ltac:(unfold rf; lia) ik HU HbigS (bump L e0) rf pf H1
                  ltac:(intros i Hi Hk; apply (Hfacts i Hi), Hk) H62
                  ltac:(intros _; apply (lines_noEol B src (bend (rb_blk r)) Hlen Heol e0 HM Hlast ik HL))
                  ltac:(unfold pf; rewrite Hlen2; lia) Hne lf ltac:(unfold lf; rewrite Hlen2; unfold len; lia)
                  ltac:(intros u Hu'; apply (Hfacts u Hu')) refs (Blk ParagraphKind s0 e0 bk ik a0 n0 c0 l0 lb0) (finB L (Blk ParagraphKind s0 e0 bk ik a0 n0 c0 l0 lb0)) (S (length ik)) eq_refl
                  ltac:(rewrite Efin; exact Eik2) ltac:(rewrite Efin; reflexivity)
                  (lines_eok B src (bend (rb_blk r)) Hlen e0 HM ik HL) H2 (lines_ind1 B e0 ik HL)
                  ltac:(unfold rf; rewrite Hlen2; lia) ltac:(unfold rf; rewrite Hlen2; lia) ltac:(unfold len; lia)) as HR.
    destruct HR as [HR|(_ & X & ps & P1 & _ & _ & [P4|P4] & _)].
    - rewrite (Hp (S (length ik)) (le_n _)) in HR.
      rewrite (HqAll _ Hd Hu rf rf pf lf (S (length ik)) (le_n _) (le_n _) (le_n _) (le_n _)) in HR; [exact HR|].
      rewrite Efin. cbn [bik]. rewrite Eik2, mS_map, map_length. lia.
    - exfalso. rewrite (hbFacts_hbTail src ps P4 ltac:(lia)) in Hnohb. discriminate.
    - exfalso. unfold advFail, Pfin in P4.
      assert (Hrf' : len src + ibudget ik < Z.of_nat rf) by (unfold bigS in HbigS; lia).
      assert (HO0 : IFTk5.OI src ik (st0 src refs (Blk ParagraphKind s0 e0 bk ik a0 n0 c0 l0 lb0))).
      { split; [reflexivity|]. split; [reflexivity|]. split; [cbn; lia|]. split.
        - split; [split; [intros x _; cbn; lia|intros h []]|]. split; [cbn; lia|]. split; intros d [].
        - unfold load, Sb. cbn [stk st0 sumW upos]. unfold len at 1. cbn [length].
          destruct (Z.ltb_spec 0 (len ik)) as [Lt|Lt]; [|pose proof (ShapesBase.len_nonneg src); lia].
          destruct (IFTokAux.spOK_In src ik _ H1 (IFTokAux.nth_In_Z ik 0 (mkI 0 0 0) ltac:(lia))) as (A & _). cbn in A |- *. lia. }
      destruct (outerG_eq src ik H1 rf rf pf Hrf' ltac:(unfold pf; rewrite Hlen2; lia) lf (S (length ik)) _ HO0) as [E _]. rewrite E in P4.
      pose proof (P_hi src ik _ _ HEC Hne) as HPhi.
      pose proof (outerF_upos src ik _ _ HEC H1 rf rf Hrf' ltac:(unfold rf; rewrite Hlen2; unfold len in *; lia)
                    ltac:(intros k Hk Ni; apply (lines_ends B src (bend (rb_blk r)) Hlen Heol (proj2 Hn) e0 HM ik HL); [apply nth_In; unfold len in Hk; lia|exact Ni])
                    H62 lf (S (length ik)) (st0 src refs (Blk ParagraphKind s0 e0 bk ik a0 n0 c0 l0 lb0)) eq_refl eq_refl ltac:(cbn [upos st0]; pose proof (ShapesBase.len_nonneg ik); lia)) as Q.
      lia.
  Qed.
  Lemma rewrite_fun_nohb : forall f d, subB d (rb_blk r) -> (bheight d <= f)%nat ->
    rewriteB f (src ++ [10]) refs (finB L d) = finFullB L false (rewriteB f src refs d).
  Proof.
    destruct (root_facts s r Hr) as (B & pre' & M & Hn & Es & Ht & Lp & Hf).
    induction f as [|f IH]; intros d Hd Hh; [destruct d; cbn in Hh; lia|].
    pose proof (facts_sub B pre' M d _ Hd Hf) as Hfd. pose proof (cc_sub d _ Hd (root_cc s r Hr)) as Hcc.
    cbn [rewriteB]. rewrite !cond_hasU, hasUnparsed_F.
    destruct (hasUnparsed d) eqn:Hu.
    - rewrite (leaf_nohb d Hd Hu). destruct (leaf_kind_nokids s r Hr d Hd Hu) as [HKs Hnk].
      destruct d as [K s0 e0 bk ik a0 n0 c0 l0 lb0]. cbn [bkind bkids bik bend bstart] in *. subst bk.
      assert (NK : K <> ListMarkerKind) by (destruct HKs as [[E|E]|E]; rewrite E; discriminate).
      cbn [finB finFullB set_bik]. replace (K =? ListMarkerKind) with false by (symmetry; apply Z.eqb_neq; exact NK). cbn [set_bik map finFullB].
      replace (K =? ListMarkerKind) with false by (symmetry; apply Z.eqb_neq; exact NK). f_equal.
      destruct HKs as [[E|E]|E]; subst K; reflexivity.
    - destruct d as [K s0 e0 bk ik a0 n0 c0 l0 lb0]. cbn [finB]. destruct (Z.eqb_spec K ListMarkerKind) as [EK|NK].
      + assert (Hk : bkids (Blk K s0 e0 bk ik a0 n0 c0 l0 lb0) = []) by (apply (nokids _ Hcc); intros x; cbn [bkind]; rewrite EK; reflexivity).
        cbn [bkids] in Hk. subst bk. cbn [set_bkids map bkids finFullB]. replace (K =? ListMarkerKind) with true by (symmetry; apply Z.eqb_eq; exact EK). reflexivity.
      + cbn [set_bkids bkids finFullB]. replace (K =? ListMarkerKind) with false by (symmetry; apply Z.eqb_neq; exact NK). f_equal.
        * rewrite !map_map. apply map_ext_in. intros c Hc. cbn [bheight] in Hh. pose proof (bheight_kid c bk Hc).
          apply IH; [apply (subB_kid2 c (Blk K s0 e0 bk ik a0 n0 c0 l0 lb0) _ Hc Hd)|lia].
        * unfold finI. destruct ((K =? IndentedCodeBlockKind) || (K =? FencedCodeBlockKind)) eqn:EC.
          -- destruct (K =? ParagraphKind) eqn:EP; [apply Z.eqb_eq in EP; subst K; discriminate|].
             destruct (K =? HTMLBlockKind) eqn:EH; [apply Z.eqb_eq in EH; subst K; discriminate|]. reflexivity.
          -- destruct (K =? HTMLBlockKind) eqn:EH; [rewrite orb_true_r; reflexivity|].
             destruct (Z.eqb_spec K ParagraphKind) as [EP|NP]; [|reflexivity].
             cbn [orb andb]. destruct Hfd as (He & _ & _). cbn [en] in He. destruct He as ((A & _) & _). destruct (A (or_introl EP)) as (Hl & _).
             unfold hasUnparsed in Hu. cbn [bik] in Hu. rewrite (lines_noU_nil B _ ik Hl Hu). reflexivity.
  Qed.
End NoHb.

(* ---------- the theorem ---------- *)
Theorem parseFull_final_newline_nohb_root : forall s, s <> [] -> endsEol s = false -> lastByte s <> 62 ->
  (forall pre r, fst (parseBlocks s) = pre ++ [r] -> rb_end r = len s -> hbTail (rb_src r) = false) ->
  parseFull (s ++ [10]) = (finFullRoots (len s) (fst (parseFull s)), snd (parseFull s)).
Proof.
  intros s Hne Hn H62 Hcl0. rewrite !parseFull_eq. pose proof (parseBlocks_final_newline s Hne Hn H62) as HB. rewrite HB. cbn [fst snd].
  rewrite refs_fin. set (refs := refsOf' (fst (parseBlocks s))). set (roots := fst (parseBlocks s)) in *. f_equal.
  unfold finFullRoots, finRoots. rewrite <- map_rev. destruct (rev roots) as [|r pre] eqn:Er; [reflexivity|].
  cbn [map]. change (rb_end (rw refs r)) with (rb_end r). destruct (Z.eqb_spec (rb_end r) (len s)) as [Ee|Ne]; [|reflexivity].
  assert (E : roots = rev pre ++ [r]) by (rewrite <- (rev_involutive roots), Er; reflexivity).
  rewrite map_app, map_rev. f_equal. cbn [map]. f_equal.
  assert (Hr : In r (fst (parseBlocks s))) by (fold roots; rewrite E; apply in_or_app; right; left; reflexivity).
  assert (Hcl : forall r0, In r0 (fst (parseBlocks s)) -> rb_end r0 = len s -> r0 = r -> hbTail (rb_src r0) = false) by (intros r0 _ _ ->; apply (Hcl0 (rev pre) r E Ee)).
  specialize (Hcl r Hr Ee eq_refl). unfold finFullRoot, rw, finRoot. cbn [rb_line rb_start rb_end rb_src rb_blk]. rewrite Hcl. f_equal. rewrite bheight_F.
  apply (rewrite_fun_nohb s r refs Hr); [| |exact Hcl|apply subB_refl|apply le_n].
  - intros HL. apply (last_src_facts s (rev pre) r); [fold roots; exact E|exact Ee|exact Hn|exact H62|exact HL].
  - intros d Hd Hu rf tf pf lf ofu R T P Lf O.
    apply (parseFull_fuel_adequate (s ++ [10]) (finRoot r) (finB (len (rb_src r)) d)); try assumption.
    + rewrite HB. cbn [fst]. unfold finRoots. fold roots. rewrite Er. replace (rb_end r =? len s) with true by (symmetry; apply Z.eqb_eq; exact Ee). apply in_or_app. right. left. reflexivity.
    + cbn [finRoot rb_blk]. apply subB_F; [exact Hd|apply (root_cc s r Hr)].
    + rewrite hasUnparsed_F. exact Hu.
Qed.
Print Assumptions parseFull_final_newline_nohb_root.

(* the same with the condition on the input itself *)
Lemma hbTail_replaceNul t : hbTail (Props.replaceNul t) = true -> exists r0, rev t = 32 :: 32 :: r0.
Proof.
  destruct (rev t) as [|y [|x r0]] eqn:Er.
  - apply (f_equal (@rev Z)) in Er. rewrite rev_involutive in Er. subst t. cbn. discriminate.
  - apply (f_equal (@rev Z)) in Er. rewrite rev_involutive in Er. subst t. cbn [rev app Props.replaceNul]. unfold hbTail. destruct (y =? 0); cbn; [discriminate|]. intros H. exfalso. destruct y as [|py|py]; try discriminate H. do 6 (destruct py as [py|py|]; try discriminate H).
  - assert (E : t = rev r0 ++ [x] ++ [y]) by (rewrite <- (rev_involutive t), Er; cbn [rev]; rewrite <- app_assoc; reflexivity).
    rewrite E, !replaceNul_app. cbn [Props.replaceNul app]. unfold hbTail. rewrite !rev_app_distr.
    destruct (Z.eqb_spec y 0) as [Y0|Y0]; [cbn; discriminate|]. destruct (Z.eqb_spec x 0) as [X0|X0]; cbn [rev app].
    + destruct y as [|py|py]; try discriminate. do 6 (destruct py as [py|py|]; try discriminate).
    + destruct (Z.eq_dec y 32) as [->|Ny]; [|destruct y as [|py|py]; try discriminate; do 6 (destruct py as [py|py|]; try discriminate); congruence].
      destruct (Z.eq_dec x 32) as [->|Nx]; [intros _; exists r0; reflexivity|]. destruct x as [|px|px]; try discriminate. do 6 (destruct px as [px|px|]; try discriminate). congruence.
Qed.

Theorem parseFull_final_newline_nohb : forall s, s <> [] -> endsEol s = false -> lastByte s <> 62 -> hbTail s = false ->
  parseFull (s ++ [10]) = (finFullRoots (len s) (fst (parseFull s)), snd (parseFull s)).
Proof.
  intros s Hne Hn H62 Hh. apply parseFull_final_newline_nohb_root; try assumption.
  intros pre r E Ee. destruct (hbTail (rb_src r)) eqn:Et; [|reflexivity]. exfalso.
  rewrite (last_root_src s pre r E Ee) in Et. destruct (hbTail_replaceNul _ Et) as (r0 & Er).
  assert (Es : s = firstn (Z.to_nat (rb_start r)) s ++ skipn (Z.to_nat (rb_start r)) s) by (symmetry; apply firstn_skipn).
  unfold hbTail in Hh. rewrite Es, rev_app_distr, Er in Hh. discriminate.
Qed.
Print Assumptions parseFull_final_newline_nohb.
