From Coq Require Import List ZArith Lia Bool String Ascii.
Import ListNotations.
Require Import Base Tree Driver Inl3e Render BSTest EolCRDefs EolCRRenderDefs EolCRRenderTest InlineSpans SpanHypDef.
Open Scope Z_scope.
Open Scope string_scope.
Definition e1 := bs ("[a](/x\" ++ nl ++ "y) [b](<x\" ++ nl ++ "y>) [c](/u" ++ nl ++ "'t') [d](" ++ nl ++ "/v" ++ nl ++ ")" ++ nl).
Definition e2 := bs ("[x]: <a" ++ nl ++ "b>" ++ nl ++ nl ++ "[y]:" ++ nl ++ "/dest\" ++ nl ++ "'t'" ++ nl ++ nl ++ "[z]: /d&#10;e&amp;" ++ nl ++ "[w]: /q 'r" ++ nl ++ nl ++ "[x] [y] [z] [w]" ++ nl).
Definition e3 := bs ("> [l](/a" ++ nl ++ "> b) [m](</a b>" ++ nl ++ "lazy 'x" ++ nl ++ "> y')" ++ nl ++ "> [r]: /u" ++ nl ++ "> 't" ++ nl ++ "lazy'" ++ nl ++ nl ++ "[r]" ++ nl).
Definition e4 := bs ("- [k]: </s p>" ++ nl ++ "  ""t""" ++ nl ++ tab ++ "[k2]:" ++ tab ++ "/x" ++ tab ++ nl ++ "- <a@b.c> <x+y.z:q" ++ tab ++ "r> <ab:c&#10;d> <http://e\" ++ nl ++ ">" ++ nl).
Definition e5 := bs ("[a](x(y" ++ nl ++ ")z) [b](\" ++ nl ++ ") [c](<>) [d]( ) [e](/f ""g"" " ++ nl ++ ") ![i](/j" ++ nl ++ nl ++ "[n]: /o" ++ nl ++ "[p]: <" ++ nl).
Definition edocs := (docs ++ [e1;e2;e3;e4;e5])%list.
Eval vm_compute in map (fun d => forallb (fun r => dokB (rb_src r) (rb_blk r)) (fst (parseFull d))) edocs.
Eval vm_compute in map (fun d => forallb (fun r => destB (rb_src r) (rb_blk r)) (fst (parseBlocks d))) edocs.
Eval vm_compute in map tst [e1;e2;e3;e4;e5].
(* statement (a): on every leaf block of the pre-inline tree *)
Fixpoint leavesU (fuel : nat) (b : block) : list block :=
  match fuel with O => [] | S f => if isLeafU b then [b] else flat_map (leavesU f) (bkids b) end.
Definition chkA (d : bytes) : list (bool * bool) :=
  flat_map (fun r => map (fun b => (entriesOK (rb_src r) b, forallb (dokI (rb_src r)) (parseInlines (rb_src r) [[102;111;111]; [120]; [114]; [107]] b)))
                         (leavesU (bheight (rb_blk r)) (rb_blk r))) (fst (parseBlocks d)).
Eval vm_compute in map chkA edocs.
