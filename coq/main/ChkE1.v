(* ChkE1.v -- T30, stage 3: bounds of the line entries, for documents without link reference definitions.
   Eb M U b (positions only):  every block of the tree starts at or before M; an entry u of kind Unparsed / RawHTML / Indent
   of a block c starts at or after the start of c, ends at or before the end of c when c is closed, and at or before U when
   c is open.  A block that contains a link reference definition (hasRefB) is exempt; in a list of root-level children the
   blocks that come before the first child with a link reference definition satisfy Eb (EP). *)
From Coq Require Import List ZArith Lia Bool.
Import ListNotations.
Require Import Base Tree Rdr Link Collect Html Recog LP Rules Starts Driver L2Kind2 ShapesBase ChkW1.
Open Scope Z_scope.

Definition cons3 (u : inline) : bool := (ikind u =? UnparsedKind) || (ikind u =? RawHTMLKind) || (ikind u =? IndentKind).
Lemma cons3_freeK u : cons3 u = negb (freeK u). Proof. unfold cons3, freeK. rewrite negb_involutive. reflexivity. Qed.

Fixpoint hasRefB (b : block) : bool :=
  match b with Blk K _ _ bk _ _ _ _ _ _ => (K =? LinkReferenceDefinitionKind) || existsb hasRefB bk end.
Definition hasRefL (l : list block) : bool := existsb hasRefB l.
Lemma hasRefB_eq b : hasRefB b = (bkind b =? LinkReferenceDefinitionKind) || hasRefL (bkids b).
Proof. destruct b; reflexivity. Qed.

Definition eb (s e U : Z) (u : inline) : bool :=
  negb (cons3 u) || ((s <=? istart u) && (if e <? 0 then iend u <=? U else iend u <=? e)).
Fixpoint Eb (M U : Z) (b : block) : bool :=
  match b with Blk _ s e bk ik _ _ _ _ _ => (s <=? M) && forallb (eb s e U) ik && forallb (Eb M U) bk end.
Definition EbL (M U : Z) (l : list block) : bool := forallb (Eb M U) l.
Lemma Eb_eq M U b : Eb M U b = (bstart b <=? M) && forallb (eb (bstart b) (bend b) U) (bik b) && EbL M U (bkids b).
Proof. destruct b; reflexivity. Qed.
Lemma Eb_parts M U b : Eb M U b = true -> bstart b <= M /\ forallb (eb (bstart b) (bend b) U) (bik b) = true /\ EbL M U (bkids b) = true.
Proof. rewrite Eb_eq. intros H. apply andb_true_iff in H. destruct H as [H C]. apply andb_true_iff in H. destruct H as [A B]. apply Z.leb_le in A. tauto. Qed.
Lemma Eb_mk M U b : bstart b <= M -> forallb (eb (bstart b) (bend b) U) (bik b) = true -> EbL M U (bkids b) = true -> Eb M U b = true.
Proof. intros A B C. rewrite Eb_eq, B, C. replace (bstart b <=? M) with true by (symmetry; apply Z.leb_le; exact A). reflexivity. Qed.

(* "satisfies Eb, or contains a link reference definition" *)
Definition EbH (M U : Z) (b : block) : Prop := hasRefB b = true \/ Eb M U b = true.
Definition EbHL (M U : Z) (l : list block) : Prop := hasRefL l = true \/ EbL M U l = true.
(* root-level children: the prefix rule *)
Fixpoint EP (M U : Z) (l : list block) : bool :=
  match l with [] => true | c :: r => hasRefB c || (Eb M U c && EP M U r) end.

(* ---- monotonicity ---- *)
Lemma eb_mono s e U U' u : U <= U' -> eb s e U u = true -> eb s e U' u = true.
Proof.
  intros HU. unfold eb. destruct (negb (cons3 u)); [reflexivity|]. cbn [orb]. intros H. apply andb_true_iff in H. destruct H as [A B].
  rewrite A. cbn [andb]. destruct (e <? 0); [|exact B]. apply Z.leb_le in B. apply Z.leb_le. lia.
Qed.
Lemma Eb_mono M U M' U' : M <= M' -> U <= U' -> forall b, Eb M U b = true -> Eb M' U' b = true.
Proof.
  intros HM HU. fix IH 1. intros b H. apply Eb_parts in H. destruct H as (A & B & C). apply Eb_mk; [lia| |].
  - rewrite forallb_forall in *. intros u Hu. eapply eb_mono; [exact HU|apply B, Hu].
  - destruct b as [K s e bk ik a n c l lb]. cbn [bkids] in *. unfold EbL in *. clear A B.
    induction bk as [|k r IHr]; [reflexivity|]. cbn [forallb] in *. apply andb_true_iff in C. destruct C as [C1 C2].
    rewrite (IH k C1). apply IHr, C2.
Qed.
Lemma EbL_mono M U M' U' l : M <= M' -> U <= U' -> EbL M U l = true -> EbL M' U' l = true.
Proof. intros HM HU H. unfold EbL in *. rewrite forallb_forall in *. intros x Hx. eapply Eb_mono; [exact HM|exact HU|apply H, Hx]. Qed.
Lemma EbH_mono M U M' U' b : M <= M' -> U <= U' -> EbH M U b -> EbH M' U' b.
Proof. intros HM HU [H|H]; [left; exact H|right; eapply Eb_mono; eassumption]. Qed.
Lemma EP_mono M U M' U' : M <= M' -> U <= U' -> forall l, EP M U l = true -> EP M' U' l = true.
Proof.
  intros HM HU. induction l as [|c r IH]; intros H; [reflexivity|]. cbn [EP] in *. apply orb_true_iff in H. destruct H as [H|H]; [rewrite H; reflexivity|].
  apply andb_true_iff in H. destruct H as [A B]. rewrite (Eb_mono M U M' U' HM HU c A), (IH B). apply orb_true_r.
Qed.

(* ---- lists ---- *)
Lemma hasRefL_app a b : hasRefL (a ++ b) = hasRefL a || hasRefL b. Proof. apply existsb_app. Qed.
Lemma EbL_app M U a b : EbL M U (a ++ b) = EbL M U a && EbL M U b. Proof. apply forallb_app. Qed.
Lemma EP_app_noref M U a b : hasRefL a = false -> EP M U (a ++ b) = EbL M U a && EP M U b.
Proof.
  induction a as [|c r IH]; intros H; [reflexivity|]. cbn [hasRefL existsb] in H. apply orb_false_iff in H. destruct H as [H1 H2].
  cbn [app EP EbL forallb]. rewrite H1. cbn [orb]. rewrite (IH H2). unfold EbL. rewrite andb_assoc. reflexivity.
Qed.
Lemma EP_ref M U a b : hasRefL a = true -> EP M U a = true -> EP M U (a ++ b) = true.
Proof.
  induction a as [|c r IH]; intros H HE; [discriminate|]. cbn [hasRefL existsb] in H. cbn [app EP] in *.
  destruct (hasRefB c); [reflexivity|]. cbn [orb] in *. apply andb_true_iff in HE. destruct HE as [A B]. rewrite A. cbn [andb].
  apply IH; assumption.
Qed.
Lemma EP_of_EbL M U l : EbL M U l = true -> EP M U l = true.
Proof.
  induction l as [|c r IH]; intros H; [reflexivity|]. cbn [EbL forallb EP] in *. apply andb_true_iff in H. destruct H as [A B].
  rewrite A, (IH B). apply orb_true_r.
Qed.
Lemma removelast_app_last {A} (l : list A) x : removelast (l ++ [x]) = l.
Proof. apply removelast_last. Qed.

Lemma EP_cases M U : forall l, EP M U l = true -> hasRefL l = true \/ EbL M U l = true.
Proof.
  induction l as [|c r IH]; intros H; [right; reflexivity|]. cbn [EP hasRefL existsb EbL forallb] in *.
  destruct (hasRefB c); [left; reflexivity|]. cbn [orb] in *. apply andb_true_iff in H. destruct H as [A B].
  destruct (IH B) as [R|R]; [left; exact R|right; rewrite A; exact R].
Qed.
Lemma EP_replace M U l c repl : EP M U (l ++ [c]) = true -> EP M U repl = true -> (hasRefB c = true -> hasRefL repl = true) ->
  EP M U (l ++ repl) = true.
Proof.
  intros H Hr Hp. destruct (hasRefL l) eqn:E.
  - apply EP_ref; [exact E|]. revert E H. clear. induction l as [|k r IH]; intros E H; [discriminate|]. cbn [app EP hasRefL existsb] in *.
    destruct (hasRefB k); [reflexivity|]. cbn [orb] in *. apply andb_true_iff in H. destruct H as [A B]. rewrite A. apply IH; assumption.
  - rewrite EP_app_noref in * by exact E. apply andb_true_iff in H. destruct H as [A _]. rewrite A, Hr. reflexivity.
Qed.
Lemma EP_snoc M U l c : EP M U l = true -> Eb M U c = true -> EP M U (l ++ [c]) = true.
Proof.
  intros H Hc. destruct (hasRefL l) eqn:E; [apply EP_ref; assumption|]. rewrite EP_app_noref by exact E.
  destruct (EP_cases M U l H) as [R|R]; [congruence|]. rewrite R. cbn [EP andb]. rewrite Hc. apply orb_true_r.
Qed.
Lemma EP_last M U l c : EP M U (l ++ [c]) = true -> hasRefL l = true \/ EbH M U c.
Proof.
  intros H. destruct (hasRefL l) eqn:E; [left; reflexivity|right]. rewrite EP_app_noref in H by exact E.
  apply andb_true_iff in H. destruct H as [_ B]. cbn [EP] in B. apply orb_true_iff in B. destruct B as [B|B]; [left; exact B|right].
  apply andb_true_iff in B. tauto.
Qed.

(* ---- setters ---- *)
Lemma hasRefB_ext b b' : bkind b' = bkind b -> bkids b' = bkids b -> hasRefB b' = hasRefB b.
Proof. intros A B. rewrite !hasRefB_eq, A, B. reflexivity. Qed.
Lemma Eb_ext M U b b' : bstart b' = bstart b -> bend b' = bend b -> bik b' = bik b -> bkids b' = bkids b -> Eb M U b' = Eb M U b.
Proof. intros A B C D. rewrite !Eb_eq, A, B, C, D. reflexivity. Qed.
Lemma hasRefB_set_bkids b ks : hasRefB (set_bkids b ks) = (bkind b =? LinkReferenceDefinitionKind) || hasRefL ks.
Proof. destruct b; reflexivity. Qed.
Lemma lastBlock_split' b c : lastBlock b = Some c -> bkids b = removelast (bkids b) ++ [c].
Proof. apply lastBlock_split. Qed.

(* replacing the last child of an inner block *)
Lemma EbH_set_lastBlocks M U b c repl : lastBlock b = Some c -> EbH M U b -> EP M U repl = true -> (hasRefB c = true -> hasRefL repl = true) ->
  EbH M U (set_lastBlocks b repl).
Proof.
  intros El H Hr Hp. unfold set_lastBlocks. pose proof (lastBlock_split' b c El) as Ek.
  destruct H as [H|H].
  - left. rewrite hasRefB_set_bkids. rewrite hasRefB_eq, Ek, hasRefL_app in H. rewrite hasRefL_app.
    apply orb_true_iff in H. destruct H as [H|H]; [rewrite H; reflexivity|]. apply orb_true_iff in H. destruct H as [H|H].
    + rewrite H. rewrite orb_true_r. reflexivity.
    + cbn [hasRefL existsb] in H. rewrite orb_false_r in H. rewrite (Hp H). rewrite !orb_true_r. reflexivity.
  - apply Eb_parts in H. destruct H as (A & B & C). rewrite Ek, EbL_app in C. apply andb_true_iff in C. destruct C as [C1 _].
    destruct (EP_cases M U repl Hr) as [R|R].
    + left. rewrite hasRefB_set_bkids, hasRefL_app, R. rewrite !orb_true_r. reflexivity.
    + right. apply Eb_mk; [destruct b; exact A|destruct b; exact B|]. destruct b. cbn [set_bkids bkids] in *. rewrite EbL_app, C1, R. reflexivity.
Qed.
Lemma hasRefB_set_lastBlocks b c repl : lastBlock b = Some c -> hasRefB b = true -> (hasRefB c = true -> hasRefL repl = true) ->
  hasRefB (set_lastBlocks b repl) = true.
Proof.
  intros El H Hp. unfold set_lastBlocks. pose proof (lastBlock_split' b c El) as Ek.
  rewrite hasRefB_set_bkids. rewrite hasRefB_eq, Ek, hasRefL_app in H. rewrite hasRefL_app.
  apply orb_true_iff in H. destruct H as [H|H]; [rewrite H; reflexivity|]. apply orb_true_iff in H. destruct H as [H|H].
  - rewrite H. rewrite orb_true_r. reflexivity.
  - cbn [hasRefL existsb] in H. rewrite orb_false_r in H. rewrite (Hp H). rewrite !orb_true_r. reflexivity.
Qed.
Lemma hasRefB_lastBlock_in b c : lastBlock b = Some c -> hasRefB c = true -> hasRefB b = true.
Proof.
  intros El H. rewrite hasRefB_eq, (lastBlock_split' b c El), hasRefL_app. cbn [hasRefL existsb]. rewrite H. rewrite !orb_true_r. reflexivity.
Qed.
Lemma EbH_lastBlock M U b c : lastBlock b = Some c -> Eb M U b = true -> Eb M U c = true.
Proof.
  intros El H. apply Eb_parts in H. destruct H as (_ & _ & C). rewrite (lastBlock_split' b c El), EbL_app in C.
  apply andb_true_iff in C. destruct C as [_ C]. cbn [EbL forallb] in C. rewrite andb_true_r in C. exact C.
Qed.

(* ---- right-spine update of an inner block ---- *)
Lemma hasRefB_updAt g : (forall x, hasRefB x = true -> hasRefB (g x) = true) ->
  forall d b, hasRefB b = true -> hasRefB (updAt d g b) = true.
Proof.
  intros Hg. induction d as [|d IH]; intros b H; [apply Hg, H|]. cbn [updAt].
  destruct (lastBlock b) as [c|] eqn:El; [|exact H].
  apply (hasRefB_set_lastBlocks b c _ El H). intros Hc. cbn [hasRefL existsb]. rewrite (IH c Hc). reflexivity.
Qed.
Lemma EbH_updAt M U g : (forall x, hasRefB x = true -> hasRefB (g x) = true) -> (forall x, Eb M U x = true -> EbH M U (g x)) ->
  forall d b, EbH M U b -> EbH M U (updAt d g b).
Proof.
  intros Hp Hg. induction d as [|d IH]; intros b H.
  - cbn [updAt]. destruct H as [H|H]; [left; apply Hp, H|apply Hg, H].
  - cbn [updAt]. destruct (lastBlock b) as [c|] eqn:El; [|exact H].
    destruct H as [H|H].
    + left. apply (hasRefB_set_lastBlocks b c _ El H). intros Hc. cbn [hasRefL existsb]. rewrite (hasRefB_updAt g Hp d c Hc). reflexivity.
    + apply (EbH_set_lastBlocks M U b c _ El (or_intror H)).
      * cbn [EP]. destruct (IH c (or_intror (EbH_lastBlock M U b c El H))) as [R|R]; [rewrite R; reflexivity|rewrite R; apply orb_true_r].
      * intros Hc. cbn [hasRefL existsb]. rewrite (hasRefB_updAt g Hp d c Hc). reflexivity.
Qed.
Lemma EbH_updAt_at M U g : (forall x, hasRefB x = true -> hasRefB (g x) = true) ->
  forall d b, EbH M U b -> (forall x, getAt d b = Some x -> Eb M U x = true -> EbH M U (g x)) -> EbH M U (updAt d g b).
Proof.
  intros Hp. induction d as [|d IH]; intros b H Hg.
  - cbn [updAt]. destruct H as [H|H]; [left; apply Hp, H|apply Hg; [reflexivity|exact H]].
  - cbn [updAt]. destruct (lastBlock b) as [c|] eqn:El; [|exact H].
    destruct H as [H|H].
    + left. apply (hasRefB_set_lastBlocks b c _ El H). intros Hc. cbn [hasRefL existsb]. rewrite (hasRefB_updAt g Hp d c Hc). reflexivity.
    + apply (EbH_set_lastBlocks M U b c _ El (or_intror H)).
      * cbn [EP]. destruct (IH c (or_intror (EbH_lastBlock M U b c El H)) ltac:(intros x Hx; apply Hg; cbn [getAt]; rewrite El; exact Hx)) as [R|R];
          [rewrite R; reflexivity|rewrite R; apply orb_true_r].
      * intros Hc. cbn [hasRefL existsb]. rewrite (hasRefB_updAt g Hp d c Hc). reflexivity.
Qed.

(* ---- the root of the line parser: its children follow the prefix rule ---- *)
Definition ER (M U : Z) (b : block) : bool :=
  (bstart b <=? M) && forallb (eb (bstart b) (bend b) U) (bik b) && EP M U (bkids b).
Lemma ER_parts M U b : ER M U b = true -> bstart b <= M /\ forallb (eb (bstart b) (bend b) U) (bik b) = true /\ EP M U (bkids b) = true.
Proof. unfold ER. intros H. apply andb_true_iff in H. destruct H as [H C]. apply andb_true_iff in H. destruct H as [A B]. apply Z.leb_le in A. tauto. Qed.
Lemma ER_mk M U b : bstart b <= M -> forallb (eb (bstart b) (bend b) U) (bik b) = true -> EP M U (bkids b) = true -> ER M U b = true.
Proof. intros A B C. unfold ER. rewrite B, C. replace (bstart b <=? M) with true by (symmetry; apply Z.leb_le; exact A). reflexivity. Qed.
Lemma ER_mono M U M' U' b : M <= M' -> U <= U' -> ER M U b = true -> ER M' U' b = true.
Proof.
  intros HM HU H. apply ER_parts in H. destruct H as (A & B & C). apply ER_mk; [lia| |eapply EP_mono; eassumption].
  rewrite forallb_forall in *. intros u Hu. eapply eb_mono; [exact HU|apply B, Hu].
Qed.

Lemma ER_set_lastBlocks M U b c repl : lastBlock b = Some c -> ER M U b = true -> (EbH M U c -> EP M U repl = true) ->
  (hasRefB c = true -> hasRefL repl = true) -> ER M U (set_lastBlocks b repl) = true.
Proof.
  intros El H Hr Hp. apply ER_parts in H. destruct H as (A & B & C). pose proof (lastBlock_split' b c El) as Ek.
  unfold set_lastBlocks. apply ER_mk; [destruct b; exact A|destruct b; exact B|].
  replace (bkids (set_bkids b (removelast (bkids b) ++ repl))) with (removelast (bkids b) ++ repl) by (destruct b; reflexivity).
  rewrite Ek in C. destruct (EP_last M U _ _ C) as [R|R].
  - apply EP_ref; [exact R|]. clear -R C. revert R C. generalize (removelast (bkids b)). induction l as [|k r IH]; intros R C; [discriminate|].
    cbn [app EP hasRefL existsb] in *. destruct (hasRefB k); [reflexivity|]. cbn [orb] in *. apply andb_true_iff in C. destruct C as [C1 C2]. rewrite C1. apply IH; assumption.
  - eapply EP_replace; [exact C|apply Hr, R|exact Hp].
Qed.

Lemma ER_updAt_at M U g : (forall x, hasRefB x = true -> hasRefB (g x) = true) ->
  forall d b, ER M U b = true ->
  (d = O -> ER M U (g b) = true) ->
  (forall x, (0 < d)%nat -> getAt d b = Some x -> Eb M U x = true -> EbH M U (g x)) -> ER M U (updAt d g b) = true.
Proof.
  intros Hp d b H H0 Hg. destruct d as [|d]; [apply H0; reflexivity|]. cbn [updAt].
  destruct (lastBlock b) as [c|] eqn:El; [|exact H].
  apply (ER_set_lastBlocks M U b c _ El H).
  - intros Hc. cbn [EP].
    destruct (EbH_updAt_at M U g Hp d c Hc ltac:(intros x Hx; apply Hg; [lia|cbn [getAt]; rewrite El; exact Hx])) as [R|R];
      [rewrite R; reflexivity|rewrite R; apply orb_true_r].
  - intros Hc. cbn [hasRefL existsb]. rewrite (hasRefB_updAt g Hp d c Hc). reflexivity.
Qed.
