(* QInlDefs.v -- T64: definitions shared by the files of the inline-pass simulation (quote D against D).
   Setting (one leaf block whose entries are parsed by Inl3e.parseInlines):
     sD  the source of the root block of D that contains the leaf (rb_src), positions relative to the root;
     sQ  the whole quoted document quote D;
     sg  the position map (QuoteSimDrv1.sgO D o): strictly increasing, byte preserving, +1 after a byte that is not LF, a gap ("> ") after LF;
         packaged as QIRdrBase.SGood sD sQ sg.
   The entries of the leaf on the quoted side are the entries of the plain side moved each by its own shift (QIRdrBase.mvS).
   Node spans [s, e) are mapped to [sg s, eE s e); Text and RawHTML nodes that span several lines are cut after every line feed
   (QCutsDef.cuts), exactly like the Text nodes of link parts at the block layer. *)
From Coq Require Import List ZArith Lia Bool.
Import ListNotations.
Require Import Base Tables Utf8 Tree Rdr Link Collect Html Recog Inl3a Inl3b Inl3c Inl3d Driver Inl3e QCutsDef QIRdrBase.
Open Scope Z_scope.

Section QInl.
  Variables (sD sQ : bytes) (sg : Z -> Z).

  (* the image of the end of a span that starts at s *)
  Definition eE (s e : Z) : Z := if s <? e then sg (e - 1) + 1 else sg s.
  Definition splitK (k : Z) : bool := (k =? TextKind) || (k =? RawHTMLKind).

  (* nodes during parsing *)
  Fixpoint qP (n : pn) : list pn :=
    match n with PN id k s e ind rf ks =>
      let ks' := flat_map qP ks in
      if splitK k && (s <? e) then map (fun p => PN id k (sg (fst p)) (sg (snd p - 1) + 1) ind rf ks') (cuts sD s e)
      else [PN id k (sg s) (eE s e) ind rf ks']
    end.
  Definition qPs (l : list pn) : list pn := flat_map qP l.

  (* finished nodes *)
  Fixpoint qI3 (i : inline) : list inline :=
    match i with Inl k s e ind rf ks =>
      let ks' := flat_map qI3 ks in
      if splitK k && (s <? e) then map (fun p => Inl k (sg (fst p)) (sg (snd p - 1) + 1) ind rf ks') (cuts sD s e)
      else [Inl k (sg s) (eE s e) ind rf ks']
    end.
  Lemma toInline_qP : forall n, map toInline (qP n) = qI3 (toInline n).
  Proof.
    fix IH 1. intros [id k s e ind rf ks]. cbn [qP toInline qI3]. cbv zeta.
    assert (Ek : map toInline (flat_map qP ks) = flat_map qI3 (map toInline ks)).
    { induction ks as [|c r IHr]; [reflexivity|]. cbn [flat_map map]. rewrite map_app, IHr, IH. reflexivity. }
    destruct (splitK k && (s <? e)).
    - rewrite map_map. apply map_ext. intros p. cbn [toInline]. rewrite Ek. reflexivity.
    - cbn [map toInline]. rewrite Ek. reflexivity.
  Qed.
  Lemma toInline_qPs l : map toInline (qPs l) = flat_map qI3 (map toInline l).
  Proof. induction l as [|n r IH]; [reflexivity|]. unfold qPs in *. cbn [flat_map map]. rewrite map_app, IH, toInline_qP. reflexivity. Qed.
  Lemma ofInline_qI3 : forall i, map ofInline (qI3 i) = qP (ofInline i).
  Proof.
    fix IH 1. intros [k s e ind rf ks]. cbn [qP ofInline qI3]. cbv zeta.
    assert (Ek : map ofInline (flat_map qI3 ks) = flat_map qP (map ofInline ks)).
    { induction ks as [|c r IHr]; [reflexivity|]. cbn [flat_map map]. rewrite map_app, IHr, IH. reflexivity. }
    destruct (splitK k && (s <? e)).
    - rewrite map_map. apply map_ext. intros p. cbn [ofInline]. rewrite Ek. reflexivity.
    - cbn [map ofInline]. rewrite Ek. reflexivity.
  Qed.

  (* a span inside one line: sg is a translation on it *)
  Definition oneLine (s e : Z) : Prop := forall x, s <= x < e -> sg x = sg s + (x - s).

  (* the two tokeniser states *)
  Definition IR (st st' : ist) : Prop :=
    isrc st = sD /\ isrc st' = sQ /\ unp st' = map (mvS sg) (unp st) /\ upos st' = upos st /\ stk st' = stk st /\ ign st' = ign st /\
    nid st' = nid st /\ (0 < rootEnd st /\ rootEnd st' = sg (rootEnd st - 1) + 1) /\ matcher st' = matcher st /\ rk st' = qPs (rk st).
End QInl.
