(* QuoteSimMain.v -- T51 (C09, block-quote clause, block layer): the results, stated against QuoteSimDefs.

   FULL STATEMENT (kept, not proved in general):  QuoteSimDefs.parseBlocks_quote_statement
       forall D, tabFree D -> D <> [] ->
         exists lb, parseBlocks (quote D) = ([quoteRoot D lb (quoteKids D (fst (parseBlocks D)))], 0).
     validated by vm_compute on 90 hand-written documents and exhaustively on small alphabets (QuoteSimTest.v), no failure.
     Necessary features of the statement, found by vm_compute before proving:
       - D <> []  (quote [] = [] has no root);
       - the lastLineBlank flag lb of the quote itself is existential (true e.g. for "    code\n\n\n");
       - a top-level child gets lastLineBlank = true when blank lines follow its root in D (quoteKids): in the plain run these lines are
         skipped between roots, in the quoted run they are processed inside the open quote;
       - Text nodes inside the label / title of a link reference definition that cover several lines are split at the line ends (qI).
     The naive version (pure position map, flags copied: parseBlocks_quote_naive_statement) is REFUTED (QuoteSimTest.v).

   PROVED, for every D without TAB, CR, NUL and without '[' (byte 91), D <> [] :
     parseBlocks_quote_no91_partial (QuoteSimSpec.v, re-stated below as parseBlocks_quote_main_partial)
         exists lb kidsQ, parseBlocks (quote D) = ([quoteRoot D lb kidsQ], 0) /\
                          map er kidsQ = map er (quoteKids D (fst (parseBlocks D)))
       i.e. the full statement up to the lastLineBlank flag of the top-level children of the quote (er = set_blast _ false on these
       children only; every nested flag, every span, every inline entry, kind, indent, n, char, loose is compared exactly).
     parseBlocks_quote_partial: the same with the children given by the map MO of the simulation
           block start  s  |->  sigma D (o + s)        (o = rb_start r: positions made absolute, then line j gets + 2*(j+1))
           block end    e  |->  epsB D (o + e)         ( = sigma D (o + e - 1) + 1 )
           inline entry [s, e) (and its children) |-> translated as a whole by  sigma D (o + s) - s
       (MO_unfold states this equation; QuoteSimSpec.MO_qB proves MO D o b = qB D (shiftB o b) on the root blocks.)
     parseBlocks_quote_single_root_partial: one root, a BlockQuote over [0, len (quote D)), with as many children as D has roots, of the
       same kinds.

   WHAT IS MISSING with respect to the full statement:
     1. documents containing '[' : a paragraph containing '[' may start a link reference definition, whose close hook
        (onCloseParagraph) runs the link reader over the paragraph; in the quoted run that reader works on per-line spans that are no
        longer contiguous, and the Text nodes of a multi-line label / title are split at the line ends (qI in QuoteSimDefs).
        Stage 2 of the simulation (QuoteSimReloc.reloc_line) is already parametric in the hook (hypothesis Hocp and the map lpMap on
        link-part entries); what is not done is the relocation lemma for the reader and the link parsers themselves. Besides the
        simulation of Rdr.next / Link.parse* / collectTextNodes under the per-span shift, this needs fuel adequacy of the reader loops
        (their fuel 2 * length src + 10 differs between D and quote D), which the development does not have.
        With no '[' in D the hook is the identity on both sides (QuoteSimAux.onCloseParagraph_no91).
     2. the lastLineBlank flag of the TOP-LEVEL children (see above): the per-line theorem of stage 1 (QuoteSimQLine.processLine_quoted)
        describes the closed children before the open spine only up to this flag (map er done' = map er done), so the driver cannot
        say which of them carry it. Nothing reads these flags after the quote's children are closed. *)
From Coq Require Import List ZArith Lia Bool.
Import ListNotations.
Require Import Base Tree LP Driver SliceBase QuoteSimDefs QuoteSimNest QuoteSimMap QuoteSimReloc QuoteSimAux QuoteSimLines QuoteSimDrv1 QuoteSimDrv4 QuoteSimSpec.
Open Scope Z_scope.

Lemma MO_unfold D o k s e bk ik a n c l lb :
  MO D o (Blk k s e bk ik a n c l lb) =
  Blk k (sgO D o s) (eBO D o e) (map (MO D o) bk)
      (map (fun u => if isLinkPart (ikind u) then u else mvI (sgO D o (istart u) - istart u) u) ik) a n c l lb.
Proof. reflexivity. Qed.
Lemma sgO_abs D o s : 0 <= o + s -> sgO D o s = sigma D (o + s).
Proof. intros H. unfold sgO. cbv zeta. destruct (Z.ltb_spec (o + s) 0); [lia|reflexivity]. Qed.
Lemma eBO_abs D o e : 0 <= e -> eBO D o e = epsB D (o + e).
Proof. intros H. unfold eBO. destruct (Z.ltb_spec e 0); [lia|reflexivity]. Qed.

Lemma tabFree_split D : tabFree D -> noTab D /\ noCR D /\ noNul D.
Proof.
  unfold tabFree, noTab, noCR, noNul. intros H. repeat split; (eapply Forall_impl; [|exact H]); cbv beta; intros c (A & B & C); assumption.
Qed.

Theorem parseBlocks_quote_partial : forall D, tabFree D -> no91 D -> D <> [] ->
  exists lb kidsQ,
    parseBlocks (quote D) = ([quoteRoot D lb kidsQ], 0) /\
    map er kidsQ = map er (map (fun r => MO D (rb_start r) (rb_blk r)) (fst (parseBlocks D))).
Proof.
  intros D HT H91 Hne. destruct (tabFree_split D HT) as (H9 & H13 & H0).
  destruct (parseBlocks_quote_sim D H9 H13 H91 H0 Hne) as (lb & kidsQ & E & K & _). exists lb, kidsQ. split; [exact E|exact K].
Qed.
Print Assumptions parseBlocks_quote_partial.

(* the single-root consequence *)
Theorem parseBlocks_quote_single_root_partial : forall D, tabFree D -> no91 D -> D <> [] ->
  exists r, parseBlocks (quote D) = ([r], 0) /\ rb_line r = 1 /\ rb_start r = 0 /\ rb_end r = len (quote D) /\ rb_src r = quote D /\
    bkind (rb_blk r) = BlockQuoteKind /\ bstart (rb_blk r) = 0 /\ bend (rb_blk r) = len (quote D) /\ bik (rb_blk r) = [] /\
    length (bkids (rb_blk r)) = length (fst (parseBlocks D)) /\
    map bkind (bkids (rb_blk r)) = map (fun r0 => bkind (rb_blk r0)) (fst (parseBlocks D)).
Proof.
  intros D HT H91 Hne. destruct (parseBlocks_quote_partial D HT H91 Hne) as (lb & kidsQ & E & K).
  exists (quoteRoot D lb kidsQ). split; [exact E|]. unfold quoteRoot. cbv zeta. cbn [rb_line rb_start rb_end rb_src rb_blk bkind bstart bend bik bkids].
  repeat (split; [reflexivity|]).
  assert (Hk : forall b, bkind (er b) = bkind b) by (intros b; destruct b; reflexivity).
  split.
  - apply (f_equal (@length block)) in K. rewrite !map_length in K. exact K.
  - apply (f_equal (map bkind)) in K. rewrite !map_map in K.
    rewrite (map_ext (fun x => bkind (er x)) bkind Hk) in K. rewrite K. apply map_ext. intros r0. rewrite Hk.
    apply (bkind_rB (sgO D (rb_start r0)) (eBO D (rb_start r0)) idI).
Qed.
Print Assumptions parseBlocks_quote_single_root_partial.

(* the headline result (QuoteSimSpec.parseBlocks_quote_no91_partial) *)
Theorem parseBlocks_quote_main_partial : forall D, tabFree D -> no91 D -> D <> [] ->
  exists lb kidsQ, parseBlocks (quote D) = ([quoteRoot D lb kidsQ], 0) /\ map er kidsQ = map er (quoteKids D (fst (parseBlocks D))).
Proof. exact parseBlocks_quote_no91_partial. Qed.
Print Assumptions parseBlocks_quote_main_partial.
