From Coq Require Import List ZArith Lia Bool.
Import ListNotations.
Require Import Base Tables Utf8 Tree Rdr Link Collect Html Recog LP Rules Starts Driver Props.
Require Import Leaf3e RdrBound BSRdr BSOrph GI0 GramTree TilBase TilDefs LADef LA1 LA2 LARec LAR1 LAR2 LAR4 ExOcp DefSpansOcp RootIndentDefs.
Open Scope Z_scope.

(* ================================================================================================
   T56 (b), part 2 (RootIndentOcp): closing a ROOT paragraph.  The definition blocks and the rest paragraph that
   onCloseParagraph makes out of it start at entry starts, and no entry byte lies between the end of one of them and the
   start of the next (LAR2.eolOK); the bytes of the paragraph outside its entries being spaces/tabs (PG), the result is a
   chain in the sense of RootIndentDefs.gaps.  The exit of the loop where skipLinkSpace runs off the paragraph after a
   destination is impossible when every Unparsed entry holds a byte that is not white space (NBk).
   ================================================================================================ *)

Definition NBk (src : bytes) (ik : list inline) : Prop :=
  forall u, In u ik -> ikind u = UnparsedKind -> exists q, istart u <= q < iend u /\ isSpaceTabOrLineEnding (at_ src q) = false.
(* the facts about the open root paragraph with start s and entries ik, at the line start ls *)
Definition RootP (src : bytes) (ls s : Z) (ik : list inline) : Prop :=
  (forall q, s <= q < ls -> ~ inEnt ik q -> isSpTab (at_ src q) = true) /\ NBk src ik.

Section Ocp.
  Variable src : bytes.
  Variable ik : list inline.
  Variables lo hi : Z.
  Hypothesis HG : GoodP src hi lo ik.
  Hypothesis HR : RootP src hi lo ik.
  Let He : ENT src ik := proj1 (proj2 (proj2 (proj2 HG))).
  Let Hlo : 0 <= lo := proj1 HG.
  Let Hhi : hi <= len src := proj1 (proj2 HG).
  Let Ht : tileS src lo hi (map ispan ik) := proj1 (proj2 (proj2 HG)).
  Let Hio : indOK ik := proj2 (proj2 (proj2 (proj2 HG))).
  Let rfuel : nat := (2 * length src + 10)%nat.
  Let Mn := LAR4.mu_next src ik He Hio.
  Let Mc := LAR4.mu_current src ik He.
  Let Mf := LAR4.mu_fuel src ik He.

  Lemma noEnt_spt a b : lo <= a -> b <= hi -> (forall q, a <= q < b -> ~ inEnt ik q) -> sptR src a b.
  Proof. intros A B H i Hi. apply (proj1 HR); [lia|apply H, Hi]. Qed.

  Lemma ws_not_repl c : isSpaceTabOrLineEnding c = true -> c <> 239 /\ c <> 191 /\ c <> 189.
  Proof. unfold isSpaceTabOrLineEnding. intros H. repeat split; intros ->; discriminate. Qed.

  (* skipLinkSpace runs to the end of the entries only over white space *)
  Lemma sls_loop_ws : forall fuel r, RS src ik r -> fst (skipLinkSpace_loop fuel r) = false ->
    forall u q, In u ik -> ikind u = UnparsedKind -> r_pos r <= q -> istart u <= q < iend u -> isSpaceTabOrLineEnding (at_ src q) = true.
  Proof.
    induction fuel as [|f IH]; intros r Hr Hf u q Hu Hk Hq Hin; [cbn in Hf; discriminate|]. cbn [skipLinkSpace_loop] in Hf.
    destruct (RS_current src ik He r Hr) as (c & r1 & Ec & Hr1 & Ep & _ & _). rewrite Ec in Hf.
    destruct (isSpaceTabOrLineEnding c) eqn:Ew; [|cbn in Hf; discriminate].
    pose proof (step1 src ik He (mu src) Mn Mc r c r1 Hr Ec) as (S1 & S2 & S3 & _ & S5).
    assert (Hhere : forall x, In x ik -> ikind x = UnparsedKind -> istart x <= r_pos r < iend x -> isSpaceTabOrLineEnding (at_ src (r_pos r)) = true).
    { intros x Hx Kx Px. destruct S5 as [(u0 & t0 & Hi0 & Hc0 & _)|(Ho & _)].
      - assert (Eu : x = u0).
        { apply (In_uniq src ik He x u0 (r_pos r) Hx (InS_In src ik r u0 t0 Hi0) Px). destruct Hi0 as (_ & _ & P & _). exact P. }
        subst u0. destruct Hc0 as [[K _]|[_ [[N E]|[Z0 E]]]]; [rewrite Kx in K; discriminate|rewrite <- E; exact Ew|].
        destruct (ws_not_repl c Ew) as (A & B & C). destruct E as [E|[E|E]]; contradiction.
      - exfalso. apply (Out_noEnt src ik r (r_pos r) Ho ltac:(lia)). exists x. split; assumption. }
    assert (Hgap : forall q', r_pos r < q' < r_pos (snd (next r1)) -> ~ inEnt ik q').
    { intros q' Hq'. destruct S5 as [(u0 & t0 & _ & _ & G & _)|(Ho & _)]; [apply G, Hq'|apply (Out_noEnt src ik r q' Ho); lia]. }
    destruct (Z.eq_dec q (r_pos r)) as [->|Nq]; [apply (Hhere u Hu Hk Hin)|].
    destruct (Z.lt_ge_cases q (r_pos (snd (next r1)))) as [L|L].
    { exfalso. apply (Hgap q ltac:(lia)). exists u. split; assumption. }
    destruct (next r1) as [ok r2]. cbn [fst snd] in *. destruct ok.
    - apply (IH r2 S1 Hf u q Hu Hk L Hin).
    - exfalso. apply (Out_noEnt src ik r2 q (S3 eq_refl) L). exists u. split; assumption.
  Qed.
  Lemma sls_ws fuel r : RS src ik r -> fst (skipLinkSpace fuel r) = false ->
    forall u q, In u ik -> ikind u = UnparsedKind -> r_pos r <= q -> istart u <= q < iend u -> isSpaceTabOrLineEnding (at_ src q) = true.
  Proof.
    intros Hr Hf u q Hu Hk Hq Hin. unfold skipLinkSpace in Hf.
    destruct (RS_current src ik He r Hr) as (c & r1 & Ec & Hr1 & Ep & _ & _). rewrite Ec in Hf.
    destruct (Z.eqb_spec c 0) as [E0|N0].
    - exfalso. pose proof (RS_In_c0 src ik He r c r1 Hr Ec E0) as Ho. apply (Out_noEnt src ik r1 q Ho ltac:(lia)). exists u. split; assumption.
    - apply (sls_loop_ws fuel r1 Hr1 Hf u q Hu Hk ltac:(lia) Hin).
  Qed.
  (* at the start of an entry there is an Unparsed entry at or after the reader *)
  Lemma unparsed_ahead r u t : InS src ik r u t -> r_pos r = istart u -> exists v, In v ik /\ ikind v = UnparsedKind /\ r_pos r <= istart v.
  Proof.
    intros Hi Ep. pose proof Hi as (_ & (p1 & p2 & Ei & _) & Hp & _). pose proof (InS_In src ik r u t Hi) as Hu.
    destruct (In_entOK src ik He u Hu) as (_ & U2 & _ & [(K1 & K2 & _)|(K1 & _)]).
    2:{ exists u. split; [exact Hu|]. split; [exact K1|]. lia. }
    pose proof Hio as Hio'. rewrite Ei, app_assoc in Hio'. apply indOK_suffix in Hio'. cbn [indOK] in Hio'. destruct Hio' as [Hn _]. specialize (Hn K1).
    destruct t as [|b t']; [destruct Hn|].
    assert (Hb : In b ik) by (rewrite Ei; apply in_or_app; right; apply in_or_app; right; right; left; reflexivity).
    destruct (In_entOK src ik He b Hb) as (_ & B2 & _ & [(K & _)|(K & _)]); [contradiction|].
    assert (Hs : iend u <= istart b).
    { pose proof He as He'. rewrite Ei, app_assoc in He'. apply ENT_app in He'. destruct He' as [_ Hs]. cbn [sortedS] in Hs. apply (proj1 Hs). left. reflexivity. }
    exists b. split; [exact Hb|]. split; [exact K|]. lia.
  Qed.

  Definition RESg (L : list block) : Prop :=
    L <> [] /\ (forall x, In x L -> 0 <= bend x) /\ gaps src lo L /\ (forall x, lastL L = Some x -> sptR src (bend x) hi).
  Lemma RESg_snoc result x : (forall y, In y result -> 0 <= bend y) -> gaps src lo result -> sptR src (runEnd lo result) (bstart x) -> 0 <= bend x ->
    sptR src (bend x) hi -> RESg (result ++ [x]).
  Proof.
    intros Hc Hg Hs Hb Hl. split; [destruct result; discriminate|]. split; [intros y Hy; apply in_app_or in Hy; destruct Hy as [Hy|[<-|[]]]; [apply Hc, Hy|exact Hb]|].
    split; [apply gaps_app; [exact Hg|cbn [gaps]; tauto]|]. intros y Hy. rewrite lastL_snoc in Hy. inversion Hy; subst y. exact Hl.
  Qed.

  Lemma G_ocp : forall fuel orig r u t result, DI src ik orig r u t -> hi <= bend orig -> lo <= bstart orig ->
    (forall x, In x result -> 0 <= bend x) -> gaps src lo result -> sptR src (runEnd lo result) (bstart orig) -> sptR src (bstart orig) (istart u) ->
    RESg (ocp_loop fuel rfuel src orig None r result).
  Proof.
    induction fuel as [|f IH]; intros orig r u t result HI Hbe Hbs Hcl Hg Hrun Hfirst.
    assert (H0e : 0 <= bend orig) by (pose proof (tileS_le _ _ _ _ Ht); lia).
    { cbn [ocp_loop]. apply RESg_snoc; try assumption. apply sptR_empty. lia. }
    assert (H0e : 0 <= bend orig) by (pose proof (tileS_le _ _ _ _ Ht); lia).
    assert (Hexit : RESg (result ++ [orig])) by (apply RESg_snoc; try assumption; apply sptR_empty; lia).
    pose proof HI as ((pre & Ei) & Eb & Hi & Ep).
    assert (Hr : RS src ik r) by (left; eauto). pose proof (rfuel_pos src ik (mu src) rfuel Mf r Hr) as Hfu.
    pose proof (InS_In src ik r u t Hi) as Hu. pose proof (In_lo src ik lo hi Ht u Hu) as Hlu.
    cbn [ocp_loop]. cbv zeta.
    pose proof (parseLinkLabel_spec src ik He lo hi Hhi Ht (mu src) Mn Mc rfuel r Hr) as PL. cbv zeta in PL.
    destruct (parseLinkLabel rfuel r) as [[lspan linner] r1]. cbn [fst snd] in PL.
    destruct (spanValid lspan) eqn:Evl; cbn [negb]; [|exact Hexit].
    destruct (PL eq_refl) as (_ & Hr1 & L1 & L2 & L3 & L4 & L5 & L6 & L7 & L8). clear PL.
    destruct lspan as [ls le]. destruct linner as [is ie]. cbn [fst snd] in *.
    destruct (RS_current src ik He r1 Hr1) as (c & r2 & Ec & Hr2 & Ep2 & Ev2 & Hm2). rewrite Ec.
    destruct (Z.eqb_spec c 58) as [E58|N58]; cbn [negb]; [|exact Hexit].
    assert (Htx58 : tx c = false) by (rewrite E58; reflexivity).
    pose proof (step_NX src ik He ie r1 c r2 Hr1 Ec Htx58 ltac:(lia) L7) as (Hr3 & C2 & C3 & _).
    destruct (next r2) as [ok3 r3]. cbn [fst snd] in *.
    pose proof (sls_spec src ik He rfuel r3 Hr3) as (Hr4 & W2 & W3 & _).
    destruct (skipLinkSpace rfuel r3) as [ok4 r4]. cbn [fst snd] in *. destruct ok4; cbn [negb]; [|exact Hexit].
    destruct Hr4 as [Hin4|Ho4].
    2:{ destruct (pld_Out src ik rfuel r4 Hfu Ho4) as (c4 & Ec4 & [E|(E & H1 & H2)]); rewrite E; cbv beta iota.
        - rewrite spanValid_null. cbn [negb]. exact Hexit.
        - pose proof (RS_pos0 src ik He r4 (or_intror Ho4)) as H0.
          assert (Ev : spanValid (r_pos r4, r_pos r4) = true).
          { unfold spanValid. cbn [fst snd]. rewrite !andb_true_iff, !Z.leb_le. lia. }
          rewrite Ev. cbn [negb]. rewrite (readEOL_Out src ik rfuel r4 c4 Hfu Ho4 Ec4 H1 H2). cbv beta iota. rewrite Ec4.
          assert (N0 : (c4 =? 0) = false).
          { apply Z.eqb_neq. intros ->. discriminate H1. }
          rewrite N0, Z.eqb_refl. cbn [Z.ltb Z.compare andb negb]. exact Hexit. }
    pose proof (parseLinkDestination_spec src ik He lo hi Hhi Ht (mu src) Mn Mc rfuel Mf r4 (or_introl Hin4) Hin4) as PD. cbv zeta in PD.
    destruct (parseLinkDestination rfuel r4) as [[dspan dtext] r5]. cbn [fst snd] in PD.
    destruct (spanValid dspan) eqn:Evd; cbn [negb]; [|exact Hexit].
    destruct (PD eq_refl) as (D1 & D2 & D3 & D4 & D5 & D6 & Hr5 & D8 & D9 & D10 & D11 & D12). clear PD.
    destruct dspan as [ds de]. destruct dtext as [ts te]. cbn [fst snd] in *.
    pose proof (readEOL_spec src ik He lo hi Hhi Ht (mu src) Mn Mc rfuel Mf r5 Hr5) as (Hr6 & Q2 & Q3 & Q4).
    pose proof (readEOL_neg src ik He lo hi Hhi Ht (mu src) Mn Mc rfuel r5 Hr5) as Qn.
    destruct (readEOL rfuel r5) as [destEOL r6]. cbn [fst snd] in *.
    destruct (RS_current src ik He r6 Hr6) as (c6 & r7 & Ec6 & Hr7 & Ep7 & Ev7 & Hm7). rewrite Ec6.
    destruct ((destEOL <? 0) && (r_pos r6 =? r_pos r5) && negb (c6 =? 0)) eqn:Econd; [exact Hexit|].
    rewrite Eb. subst ls. rewrite Ep in *.
    set (LI := Inl LinkLabelKind is ie 0 _ _). set (DI' := Inl LinkDestinationKind ds de 0 [] _).
    assert (Hh6 : r_pos r6 <= hi) by (apply (RS_pos_hi src ik lo hi Ht); [exact Hr6|lia]).
    (* the chain up to a definition that starts at the current entry *)
    assert (Hdef : forall eol kids, istart u <= eol -> (forall y, In y (result ++ [refDefBlock (istart u) eol kids]) -> 0 <= bend y) /\
              gaps src lo (result ++ [refDefBlock (istart u) eol kids]) /\ runEnd lo (result ++ [refDefBlock (istart u) eol kids]) = eol).
    { intros eol kids Hle. split; [intros y Hy; apply in_app_or in Hy; destruct Hy as [Hy|[<-|[]]]; [apply Hcl, Hy|cbn [refDefBlock bend]; lia]|].
      split; [apply gaps_app; [exact Hg|cbn [gaps refDefBlock bstart]; split; [eapply sptR_app; eassumption|exact I]]|apply runEnd_snoc]. }
    (* after a definition ending at eol, the reader being r' *)
    assert (Hcut : forall eol kids r', istart u <= eol -> eol <= r_pos r' -> RS src ik r' -> (forall q, eol <= q < r_pos r' -> ~ inEnt ik q) ->
              (forall u' t', InS src ik r' u' t' -> r_pos r' = istart u') ->
              forall (k : block -> list block),
              (forall orig' u' t', DI src ik orig' r' u' t' -> bend orig' = bend orig -> bstart orig' = r_pos r' -> istart u' = r_pos r' -> RESg (k orig')) ->
              RESg (if nodeIndexForPosition (u :: t) (r_pos r') <? 0 then result ++ [refDefBlock (istart u) eol kids]
                    else k (set_bik (set_bstart orig (r_pos r')) (from_ (u :: t) (nodeIndexForPosition (u :: t) (r_pos r')))))).
    { intros eol kids r' Hle Hle' Hr' Hgap Hst' k Hkk. destruct (Hdef eol kids Hle) as (A1 & A2 & A3).
      assert (Hh' : r_pos r' <= hi) by (apply (RS_pos_hi src ik lo hi Ht); [exact Hr'|lia]).
      destruct Hr' as [(u' & t' & Hi')|Ho'].
      - destruct (cut_in src ik He pre u t r' u' t' Ei Hi' ltac:(lia)) as [K1 K2]. rewrite K1, K2.
        apply (Hkk _ u' t'); [|destruct orig; reflexivity|destruct orig; reflexivity|symmetry; apply (Hst' u' t' Hi')].
        split; [destruct Hi' as (_ & (p1 & p2 & Ei' & _) & _); exists (p1 ++ p2); rewrite <- app_assoc; exact Ei'|].
        split; [destruct orig; reflexivity|]. split; [exact Hi'|apply (Hst' u' t' Hi')].
      - rewrite (cut_out src ik pre u t r' Ei Ho'). split; [destruct result; discriminate|]. split; [exact A1|]. split; [exact A2|].
        intros y Hy. rewrite lastL_snoc in Hy. inversion Hy; subst y. cbn [refDefBlock bend].
        apply noEnt_spt; [lia|lia|]. intros q Hq. destruct (Z.lt_ge_cases q (r_pos r')) as [L|L]; [apply Hgap; lia|apply (Out_noEnt src ik r' q Ho' L)]. }
    pose proof (current_idem src ik He lo hi Hhi Ht r6 c6 r7 Hr6 Ec6) as Eid7.
    pose proof (sls_spec src ik He rfuel r7 Hr7) as (Hr8 & X2 & X3 & X4).
    pose proof (LAR2.sls_true rfuel r7 c6 Eid7) as Hst.
    pose proof (sls_ws rfuel r7 Hr7) as Hws.
    destruct (skipLinkSpace rfuel r7) as [ok2 r8]. cbn [fst snd] in *.
    assert (Hneg : destEOL < 0 -> ok2 = true).
    { intros L. destruct (Qn L) as (c' & Ec' & Hw & N0). rewrite Ec6 in Ec'. inversion Ec'; subst c'. specialize (Hst N0 Hw). inversion Hst. reflexivity. }
    assert (HD : 0 <= destEOL -> istart u <= destEOL /\ destEOL <= r_pos r6 /\ (forall q, destEOL <= q < r_pos r6 -> ~ inEnt ik q) /\
                 (forall u' t', InS src ik r6 u' t' -> r_pos r6 = istart u')).
    { intros L. destruct (Q3 L) as ((O1a & O1b) & _ & O3 & _ & O5). split; [lia|]. split; [lia|]. split; [exact O3|exact O5]. }
    destruct ok2; cbn [negb].
    2:{ (* skipLinkSpace ran off the paragraph: only possible when the reader was already beyond the entries *)
        assert (L : 0 <= destEOL) by (destruct (Z.lt_ge_cases destEOL 0) as [L|L]; [specialize (Hneg L); discriminate Hneg|exact L]).
        destruct (HD L) as (P1 & P2 & P3 & P4). destruct (Hdef destEOL [LI; DI'] P1) as (A1 & A2 & A3).
        assert (Ho6 : OutS src ik r6).
        { destruct Hr6 as [(u6 & t6 & Hi6)|Ho6]; [exfalso|exact Ho6].
          assert (Hi7 : InS src ik r7 u6 t6).
          { destruct Hm7 as [(u7 & t7 & I6 & I7 & _)|(Ho & _)]; [|exfalso; eapply Out_not_In; eassumption].
            destruct (InS_uniq src ik He r6 u7 t7 u6 t6 I6 Hi6) as [<- <-]. exact I7. }
          destruct (unparsed_ahead r7 u6 t6 Hi7 ltac:(rewrite Ep7; apply (P4 u6 t6 Hi6))) as (v & Hv & Kv & Hv1).
          destruct (proj2 HR v Hv Kv) as (q0 & Hq0 & Hnw).
          rewrite (Hws eq_refl v q0 Hv Kv ltac:(lia) Hq0) in Hnw. discriminate. }
        split; [destruct result; discriminate|]. split; [exact A1|]. split; [exact A2|].
        intros y Hy. rewrite lastL_snoc in Hy. inversion Hy; subst y. cbn [refDefBlock bend].
        apply noEnt_spt; [lia|lia|]. intros q Hq. destruct (Z.lt_ge_cases q (r_pos r6)) as [Lq|Lq]; [apply P3; lia|apply (Out_noEnt src ik r6 q Ho6 Lq)]. }
    (* the continuation after a cut *)
    assert (Hcont : forall eol kids r', istart u <= eol -> eol <= r_pos r' -> r_pos r' <= hi -> (forall q, eol <= q < r_pos r' -> ~ inEnt ik q) ->
              forall orig' u' t', DI src ik orig' r' u' t' -> bend orig' = bend orig -> bstart orig' = r_pos r' -> istart u' = r_pos r' ->
              RESg (ocp_loop f rfuel src orig' None r' (result ++ [refDefBlock (istart u) eol kids]))).
    { intros eol kids r' Hle Hle' Hh' Hgap orig' u' t' HI' B1 B2 B3. destruct (Hdef eol kids Hle) as (A1 & A2 & A3).
      apply (IH orig' r' u' t' _ HI'); [rewrite B1; exact Hbe|rewrite B2; lia|exact A1|exact A2| |rewrite B2, B3; apply sptR_empty; lia].
      rewrite A3, B2. apply noEnt_spt; [lia|exact Hh'|exact Hgap]. }
    pose proof (parseLinkTitle_spec src ik He (mu src) Mn Mc rfuel r8 Hr8) as PT. cbv zeta in PT.
    destruct (parseLinkTitle rfuel r8) as [[tspan ttext] r9]. cbn [fst snd] in PT.
    destruct (spanValid tspan) eqn:Evt; cbn [negb].
    2:{ destruct (Z.ltb_spec destEOL 0) as [L|L]; [exact Hexit|]. destruct (HD L) as (P1 & P2 & P3 & P4).
        apply (Hcut destEOL [LI; DI'] r6 P1 P2 Hr6 P3 P4 (fun orig' => ocp_loop f rfuel src orig' None r6 (result ++ [refDefBlock (istart u) destEOL [LI; DI']]))).
        intros orig' u' t' HI' B1 B2 B3. apply (Hcont destEOL [LI; DI'] r6 P1 P2 Hh6 P3 orig' u' t' HI' B1 B2 B3). }
    destruct (PT eq_refl) as (P1 & P2 & P3 & P4 & P5 & P6 & P7 & Hr9 & P9 & P10 & P11). clear PT.
    destruct tspan as [tss tse]. destruct ttext as [tts tte]. cbn [fst snd] in *.
    pose proof (readEOL_spec src ik He lo hi Hhi Ht (mu src) Mn Mc rfuel Mf r9 Hr9) as (Hr10 & Y2 & Y3 & _).
    destruct (readEOL rfuel r9) as [titleEOL r10]. cbn [fst snd] in *.
    destruct (Z.ltb_spec titleEOL 0) as [Lt|Lt].
    { destruct (Z.ltb_spec destEOL 0) as [L|L]; [exact Hexit|]. destruct (HD L) as (B1 & B2 & B3 & B4).
      apply (Hcut destEOL [LI; DI'] r6 B1 B2 Hr6 B3 B4 (fun orig' => result ++ [refDefBlock (istart u) destEOL [LI; DI']] ++ [orig'])).
      intros orig' u' t' HI' A1 A2 A3. destruct (Hdef destEOL [LI; DI'] B1) as (E1 & E2 & E3). rewrite app_assoc.
      apply RESg_snoc; [exact E1|exact E2| |rewrite A1; lia|apply sptR_empty; rewrite A1; lia].
      rewrite E3, A2. apply noEnt_spt; [lia|exact Hh6|exact B3]. }
    set (TI := Inl LinkTitleKind tss tse 0 [] _).
    destruct (Y3 Lt) as ((O1a & O1b) & _ & O3 & _ & O5).
    assert (Hh10 : r_pos r10 <= hi) by (apply (RS_pos_hi src ik lo hi Ht); [exact Hr10|lia]).
    assert (Ht1 : istart u <= titleEOL) by lia.
    apply (Hcut titleEOL [LI; DI'; TI] r10 Ht1 O1b Hr10 O3 O5 (fun orig' => ocp_loop f rfuel src orig' None r10 (result ++ [refDefBlock (istart u) titleEOL [LI; DI'; TI]]))).
    intros orig' u' t' HI' A1 A2 A3. apply (Hcont titleEOL [LI; DI'; TI] r10 Ht1 O1b Hh10 O3 orig' u' t' HI' A1 A2 A3).
  Qed.
End Ocp.

(* ---- closing a root child ---- *)
Section RClose.
  Variable src : bytes.
  Variables ls s0 : Z.
  Variable ik0 : list inline.
  Hypothesis HG0 : ik0 <> [] -> GoodP src ls s0 ik0.
  Hypothesis HR0 : ik0 <> [] -> RootP src ls s0 ik0.

  Lemma RES_one c x e : bstart x = bstart c -> bend x = e -> ls <= e -> 0 <= e -> RES src ls c [x].
  Proof.
    intros Es Ee Hle H0. split; [discriminate|]. split; [intros y [<-|[]]; lia|]. split; [cbn [gaps]; split; [apply sptR_empty; lia|exact I]|].
    intros y Hy. inversion Hy; subst y. apply sptR_empty. lia.
  Qed.

  Lemma G_onCloseParagraph orig : ls <= bend orig -> 0 <= bend orig -> isPSb (bkind orig) = true ->
    ((bstart orig = s0 /\ bik orig = ik0) \/ bik orig = []) -> (bkind orig = SetextHeadingKind -> lpok src (bik orig) = true) ->
    RES src ls orig (onCloseParagraph src orig).
  Proof.
    intros Hle H0 Hk Hid Hl. unfold onCloseParagraph. destruct (bik orig) as [|first rest] eqn:Eb.
    - apply (RES_one orig orig (bend orig)); auto.
    - cbv zeta. destruct Hid as [[Es Ei]|Hid]; [|discriminate].
      assert (Hne : ik0 <> []) by (rewrite <- Ei; discriminate). pose proof (HG0 Hne) as HG. pose proof (HR0 Hne) as HR. rewrite <- Ei in HG, HR.
      assert (HI : DI src (first :: rest) orig (newReader src (first :: rest) (istart first)) first rest).
      { split; [exists []; reflexivity|]. split; [exact Eb|]. split; [|reflexivity].
        destruct HG as (_ & _ & _ & [Hfa _] & _). pose proof (Forall_inv Hfa) as Hf1. destruct Hf1 as (F1 & F2 & _).
        split; [reflexivity|]. split; [exists [], []; split; reflexivity|]. cbn [r_pos r_vpos newReader]. lia. }
      assert (Hfirst : sptR src (bstart orig) (istart first)).
      { rewrite Es. pose proof HG as (G1 & G2 & G3 & [Hfa Hso] & _). cbn [map tileS ispan fst snd] in G3. destruct G3 as (T1 & _ & T3 & T4).
        pose proof (tileS_le _ _ _ _ T4) as Hle2.
        apply (noEnt_spt src (first :: rest) s0 ls HR); [lia|lia|]. intros q Hq (x & Hx & Hqx). destruct Hx as [<-|Hx]; [lia|].
        cbn [sortedS] in Hso. pose proof (proj1 Hso x Hx). pose proof (Forall_inv Hfa) as (F1 & F2 & _). lia. }
      assert (Hgo : RES src ls orig (ocp_loop (S (length (first :: rest))) (2 * length src + 10) src orig None (newReader src (first :: rest) (istart first)) [])).
      { pose proof (G_ocp src (first :: rest) s0 ls HG HR (S (length (first :: rest))) orig _ first rest [] HI Hle ltac:(lia)
                      ltac:(intros x []) I ltac:(apply sptR_empty; unfold runEnd; cbn; lia) Hfirst) as Hr.
        unfold RESg in Hr. unfold RES. rewrite Es. exact Hr. }
      destruct (Z.eqb_spec (bkind orig) SetextHeadingKind) as [Ek|Ek]; [|exact Hgo].
      rewrite (ocp_orphan_irrel _ _ src (paraOf (first :: rest)) orig _ _ [] []); [exact Hgo|cbn [paraOf bik]; symmetry; exact Eb|].
      specialize (Hl Ek). unfold lpok, onCloseParagraph in Hl. cbn [paraOf bik bkind] in Hl.
      change (ParagraphKind =? SetextHeadingKind) with false in Hl. cbv iota zeta in Hl. exact Hl.
  Qed.

  Lemma bstart_closeLast f e x : bstart (match lastBlock x with Some c => set_lastBlocks x (closeBlock f src c e) | None => x end) = bstart x /\
    bend (match lastBlock x with Some c => set_lastBlocks x (closeBlock f src c e) | None => x end) = bend x.
  Proof. destruct (lastBlock x); [destruct x; split; reflexivity|split; reflexivity]. Qed.
  Lemma span_onCloseList b : bstart (onCloseList b) = bstart b /\ bend (onCloseList b) = bend b.
  Proof. unfold onCloseList. cbv zeta. destruct (bloose b || _); [destruct b; split; reflexivity|split; reflexivity]. Qed.

  Lemma G_closeBlock e f c : ls <= e -> 0 <= e -> bend c < 0 ->
    (isPSb (bkind c) = true -> ((bstart c = s0 /\ bik c = ik0) \/ bik c = []) /\ (bkind c = SetextHeadingKind -> lpok src (bik c) = true)) ->
    RES src ls c (closeBlock (S f) src c e).
  Proof.
    intros Hle H0 Ho Hid. cbn [closeBlock]. unfold isOpen. destruct (Z.ltb_spec (bend c) 0) as [_|]; [|lia]. cbn [negb]. cbv zeta.
    assert (Eb : bstart (set_bend c e) = bstart c /\ bend (set_bend c e) = e /\ bkind (set_bend c e) = bkind c /\ bik (set_bend c e) = bik c) by (destruct c; repeat split).
    destruct Eb as (E1 & E2 & E3 & E4). rewrite E3.
    destruct (bkind c =? ListKind).
    { destruct (bstart_closeLast f e (onCloseList (set_bend c e))) as [A B]. destruct (span_onCloseList (set_bend c e)) as [C D].
      apply (RES_one c _ e); [rewrite A, C; exact E1|rewrite B, D; exact E2|exact Hle|exact H0]. }
    destruct (bkind c =? IndentedCodeBlockKind).
    { destruct (bstart_closeLast f e (onCloseIndented src (set_bend c e))) as [A B].
      apply (RES_one c _ e); [rewrite A; unfold onCloseIndented; destruct c; reflexivity|rewrite B; unfold onCloseIndented; destruct c; reflexivity|exact Hle|exact H0]. }
    destruct ((bkind c =? ParagraphKind) || (bkind c =? SetextHeadingKind)) eqn:Ep.
    { change ((bkind c =? ParagraphKind) || (bkind c =? SetextHeadingKind)) with (isPSb (bkind c)) in Ep. destruct (Hid Ep) as [I1 I2].
      pose proof (G_onCloseParagraph (set_bend c e)) as G. rewrite E1, E2, E3, E4 in G. specialize (G Hle H0 Ep I1 I2).
      unfold RES in *. rewrite E1 in G. exact G. }
    destruct (bstart_closeLast f e (set_bend c e)) as [A B]. apply (RES_one c _ e); [rewrite A; exact E1|rewrite B; exact E2|exact Hle|exact H0].
  Qed.
End RClose.
Print Assumptions G_closeBlock.
