From Coq Require Import List ZArith Lia Bool.
Import ListNotations.
Require Import Base Tree Rdr Link Collect Html Recog LP Rules Starts Driver Props L2Kind L2CC GramTree GramLP GramLP2 Cursor CursorX NoPanic12
  Rec15 Rec16 Rec17 Rec18 RecBounds EolInv L2Bnd BSDef BSRdr BSTree BSOcp BSOrph BSClose
  BSLine1 BSLine2 BSLine3 BSLine4 BSLine5 BSLine6 BSLine7 BSLine8 BSErase BSLine9 BSLine10
  BShDef ShDef ShRdr ShClose ShEnv ShLine1 ShLine2 ShFresh ShRecog ShSetext ShStarts1 ShStarts2 ShStarts3 ShStarts4 ShLine3.
Open Scope Z_scope.

(* ---- match rules and the descent ---- *)
Lemma ScleanR_updCont p f : ScleanR p -> (forall M x, sh (source p) M x -> sh (source p) M (f x)) -> (forall x, bend (f x) = bend x) ->
  ScleanR (updCont p f).
Proof.
  intros Hs Hf Hb. unfold ScleanR. cbn [root source lineStart updCont withRoot setLP].
  apply (sh_updAt_at (source p) (lineStart p) f (cdepth p) (root p) Hs). intros x _ Sx. split; [apply Hf, Sx|rewrite Hb; tauto].
Qed.
Lemma ScleanR_cstep p p' : cstep p p' -> ScleanR p -> ScleanR p'.
Proof. intros H. apply ScleanR_ext; [apply (cd_of_cstep _ _ H)|apply env_of_cstep, H]. Qed.
Lemma ScleanR_collectInline p kind n : ScleanR p -> ScleanR (collectInline p kind n).
Proof.
  intros H. unfold collectInline. destruct (_ =? stDescendTerminated); [eapply ScleanR_cstep; [apply cstep_panic|exact H]|]. cbv zeta.
  set (p0 := if state p =? stOpening then withState p stOpenMatched else p).
  assert (H0 : ScleanR p0) by (eapply ScleanR_cstep; [apply cstep_opened|exact H]).
  set (p1 := if 0 <? indent p0 then _ else p0).
  assert (H1 : ScleanR p1).
  { unfold p1. destruct (0 <? indent p0); [|exact H0].
    apply ScleanR_updCont; [eapply ScleanR_cstep; [apply cstep_advance|exact H0]|intros M x; apply sh_set_bik|intros x; apply bend_set_bik]. }
  apply ScleanR_updCont; [eapply ScleanR_cstep; [apply cstep_advance|exact H1]|intros M x; apply sh_set_bik|intros x; apply bend_set_bik].
Qed.
Lemma ScleanR_matchRule q : ScleanR q -> ScleanR (snd (matchRule q)).
Proof.
  intros H. destruct (matchRule_cases q) as [Hc|[Ek Eq]]; [eapply ScleanR_cstep; eassumption|]. rewrite Eq.
  eapply ScleanR_cstep; [apply cstep_consumeLine|]. apply ScleanR_collectInline, H.
Qed.

Lemma descend_sh : forall fuel p d, BP p -> cleanR p -> EV p -> ScleanR p -> cdepth p = d ->
  (state (snd (descend_loop fuel p d)) = stDescendTerminated /\ SR (snd (descend_loop fuel p d))) \/
  ScleanR (snd (descend_loop fuel p d)).
Proof.
  induction fuel as [|f IH]; intros p d HB Hcl Hev Hscl Ed; [right; exact Hscl|].
  cbn [descend_loop]. cbv zeta.
  destruct (getAt (S d) (root p)) as [c|] eqn:Ec; [|right; exact Hscl].
  destruct (isOpen c) eqn:Eo; cbn [negb]; [|right; exact Hscl].
  destruct (negb (hasMatch (bkind c))); [right; exact Hscl|].
  unfold isOpen in Eo. apply Z.ltb_lt in Eo.
  set (q := withState (withCont p (Some (S d))) stDescending).
  assert (HBq : BP q).
  { destruct HB as (A & B & C & D). split; [exact A|split; [exact B|split]].
    - intros j x Hj Ex. change (cdepth q) with (S d) in Hj. destruct (Nat.eq_dec j (S d)) as [->|N].
      + change (root q) with (root p) in Ex. rewrite Ec in Ex. inversion Ex; subst x. exact Eo.
      + apply (C j x); [lia|exact Ex].
    - apply (ccP_withCont p (S d) D). eauto. }
  assert (Hq : OPx q) by (split; [exact HBq|apply clean_C1; exact Hcl]).
  assert (Hsq : ScleanR q) by exact Hscl.
  pose proof (OPx_matchRule q Hq) as H2. pose proof (cdepth_matchRule q) as Ecd. pose proof (matchRule_term q eq_refl) as Ht.
  pose proof (ScleanR_matchRule q Hsq) as Hs2. pose proof (env_matchRule q) as He2.
  destruct (matchRule q) as [ok p2]. cbn [snd] in H2, Ecd, Ht, Hs2, He2. change (cdepth q) with (S d) in Ecd.
  assert (Hev2 : EV p2) by (eapply EV_env; [exact He2|exact Hev]).
  destruct (Z.eqb_spec (state p2) stDescendTerminated) as [Et|Et].
  { left. cbn [snd]. split; [exact Et|]. destruct H2 as [HB2 _]. pose proof HB2 as (A2 & B2 & C2 & D2).
    pose proof (len_line_src p2 Hev2) as Hll.
    apply SR_closeAt; [exact D2|exact C2|lia|exact Hev2|apply ScleanR_SR; assumption|destruct A2; lia|].
    intros x c' Ex El _. split; [eapply sp_getAt; [exact B2|]; rewrite getAt_S_last, Ex; exact El|].
    eapply sh_mono; [|eapply sh_getAt; [exact Hs2|rewrite getAt_S_last, Ex; exact El]]. destruct A2; lia. }
  destruct Ht as [Hc|Ht]; [|contradiction].
  assert (Hcl2 : cleanR p2).
  { destruct Hc as ((E1 & _) & (E2 & _) & _). unfold cleanR. rewrite E1, E2. exact Hcl. }
  destruct (negb ok); [right; exact Hs2|].
  apply IH; [apply H2|exact Hcl2|exact Hev2|exact Hs2|exact Ecd].
Qed.

(* ---- the flags do not matter ---- *)
Lemma sh_erase src M : forall b, sh src M (eraseB b) <-> sh src M b.
Proof.
  fix IH 1. intros [k s e bk ik a n c l lb]. cbn [eraseB sh].
  assert (Hb : forall x, bend (eraseB x) = bend x) by (intros x; destruct x; reflexivity).
  assert (Ha : allP (sh src M) (map eraseB bk) <-> allP (sh src M) bk).
  { induction bk as [|x r IHr]; [tauto|]. cbn [map allP]. rewrite (IH x), IHr. tauto. }
  rewrite removelast_map, !(closedL_map eraseB _ Hb), Ha. tauto.
Qed.
Lemma sh_transfer src M x x' : eraseB x = eraseB x' -> sh src M x -> sh src M x'.
Proof. intros E H. apply sh_erase. rewrite <- E. apply sh_erase. exact H. Qed.

Lemma SApre_transfer p p' : eraseB (root p') = eraseB (root p) -> cdepth p' = cdepth p -> envOf p' = envOf p -> containerKind p' = containerKind p ->
  SApre p -> SApre p'.
Proof.
  intros E E2 Ee K (A & B & C). destruct (env_parts _ _ Ee) as (E3 & E4 & _). split; [|split].
  - unfold SR. rewrite E3. eapply sh_transfer; [symmetry; exact E|exact A].
  - intros c' Ec' Oc'. rewrite E2 in Ec'. destruct (getAt_transfer _ _ _ _ E Ec') as (c & Ec & Ee').
    rewrite E3, E4. eapply sh_transfer; [exact Ee'|]. apply B; [exact Ec|]. rewrite <- (bend_transfer _ _ Ee'). exact Oc'.
  - rewrite K. intros Ea c' Ec'. rewrite E2 in Ec'. destruct (getAt_transfer _ _ _ _ E Ec') as (c & Ec & Ee').
    rewrite E3, E4, (bkind_transfer _ _ Ee'). destruct (C Ea c Ec) as [S|Wd]; [left; eapply sh_transfer; eassumption|right; exact Wd].
Qed.

(* ---- opening a paragraph from any state ---- *)
Lemma SR_openBlock_para p : AllI p -> LI p -> SLI p -> SR (openBlock p ParagraphKind).
Proof.
  intros HA HL HSL. destruct ((state p =? stDescending) || (state p =? stDescendTerminated)) eqn:Et.
  - unfold openBlock. rewrite Et. eapply SR_cstep; [apply cstep_panic|apply HA].
  - pose proof HA as (HO & HG & Hev & HS & HS1).
    destruct (obPre_ok p ParagraphKind HO Hev HS HS1 (SPre_of p ParagraphKind ltac:(apply HO) HL HSL ltac:(discriminate))) as (A & B & C & D & E).
    eapply (SR_fresh (obPre p ParagraphKind) _ (newBlock ParagraphKind (obPos p ParagraphKind))); try eassumption.
    + unfold openBlock. rewrite Et. reflexivity.
    + rewrite env_openBlock, env_obPre. reflexivity.
    + apply sh_open_leaf; [cbn; lia|reflexivity|]. apply openOK_other; discriminate.
Qed.

Lemma SR_go q : SR q ->
  SR (let k := containerKind q in
      let inlineKind := if isCode k then TextKind else if k =? HTMLBlockKind then RawHTMLKind else UnparsedKind in
      let q' := updCont q (fun b => set_bik b (bik b ++ [mkI inlineKind (lineStart q + li q) (lineStart q + len (line q))])) in
      if isCode k && negb (hasByteSuffixEOL (line q')) then
        updCont q' (fun b => set_bik b (bik b ++ [mkI SoftLineBreakKind (lineStart q' + len (line q')) (lineStart q' + len (line q'))]))
      else q').
Proof.
  intros H. cbv zeta.
  assert (Hf : forall r g, SR r -> SR (updCont r (fun b => set_bik b (g b)))).
  { intros r g Hr. apply SR_updCont; [exact Hr|intros x; apply sh_set_bik|intros x; apply bend_set_bik]. }
  destruct (_ && _); [apply (Hf _ (fun b => bik b ++ [_]))|]; apply (Hf _ (fun b => bik b ++ [_])); exact H.
Qed.

Lemma addLineText_sh p : Apre p -> SApre p -> G p -> EV p -> SR (addLineText p).
Proof.
  intros HA HSA HG Hev. unfold addLineText. cbv zeta.
  set (p1 := if isRestBlank p then _ else p).
  assert (H1 : (Apre p1 /\ containerKind p1 = containerKind p) /\ SApre p1 /\ G p1 /\ EV p1).
  { unfold p1. destruct (isRestBlank p); [|tauto]. change (updCont p _) with (updCont p fblast).
    assert (Ee : eraseB (root (updCont p fblast)) = eraseB (root p)) by (cbn [root updCont withRoot setLP]; apply erase_updAt, erase_fblast).
    assert (X : Apre (updCont p fblast) /\ containerKind (updCont p fblast) = containerKind p).
    { apply Apre_transfer; try reflexivity; [exact Ee| |exact HA].
      apply ccP_updCont; [apply HA|]. intros b _ Hb. unfold fblast. destruct (lastBlock b) as [c|] eqn:El; [|tauto]. split; [|apply bkind_set_lastBlocks].
      eapply cc_set_lastBlocks; [exact Hb|exact El|]. constructor; [|constructor].
      rewrite cc_set_blast, bkind_set_blast. split; [eapply cc_lastBlock; eassumption|apply compat_refl]. }
    split; [exact X|]. split; [apply (SApre_transfer p); try reflexivity; [exact Ee|apply X|exact HSA]|split; [apply G_updCont, HG|exact Hev]]. }
  destruct H1 as ([H1 K1] & HS1 & HG1 & Hev1).
  set (llb := isRestBlank p && _).
  set (p2 := withRoot p1 (setLastBlankUpTo (cdepth p1) llb (root p1))).
  assert (H2 : (Apre p2 /\ containerKind p2 = containerKind p1) /\ SApre p2 /\ G p2 /\ EV p2).
  { assert (Ee : eraseB (root p2) = eraseB (root p1)) by (cbn [root p2 withRoot setLP]; apply erase_setLastBlankUpTo).
    assert (X : Apre p2 /\ containerKind p2 = containerKind p1).
    { apply Apre_transfer; try reflexivity; [exact Ee| |exact H1].
      destruct H1 as ((_ & _ & _ & (A & B & C)) & _). unfold p2, ccP, wf, cdepth. cbn [root container withRoot setLP]. fold (cdepth p1).
      destruct (cc_setLastBlankUpTo llb (cdepth p1) (root p1) (cdepth p1) B C) as (A' & B' & C').
      split; [rewrite B'; exact A|split; [exact A'|exact C']]. }
    split; [exact X|]. split; [apply (SApre_transfer p1); try reflexivity; [exact Ee|apply X|exact HS1]|split; [apply (G_tree p1); [repeat split|reflexivity|exact HG1]|exact Hev1]]. }
  destruct H2 as ([(HB2 & C12 & L2) K2] & (S2 & S12 & SL2) & HG2 & Hev2).
  change (bkind (contBlock p1)) with (containerKind p1).
  destruct (acceptsLines (containerKind p1)) eqn:Ea.
  - apply SR_go.
    destruct ((li p2 <? len (line p2)) && (at_ (line p2) (li p2) =? 9) && (0 <? tabRem p2) && (tabRem p2 <? 4)); [|exact S2].
    eapply SR_cstep; [apply cstep_consumeIndent|].
    apply (SR_updCont p2 (fun b => set_bik b (bik b ++ [_]))); [exact S2|intros x; apply sh_set_bik|intros x; apply bend_set_bik].
  - destruct (negb (isRestBlank p)); [|exact S2].
    apply SR_go. eapply SR_cstep; [apply cstep_consumeIndent|].
    apply SR_openBlock_para; [split; [split; assumption|split; [exact HG2|split; [exact Hev2|split; assumption]]]| |].
    + apply L2. rewrite K2. exact Ea.
    + apply SL2. rewrite K2. exact Ea.
Qed.

Lemma env_addLineText p : envOf (addLineText p) = envOf p.
Proof.
  unfold addLineText. cbv zeta.
  set (p1 := if isRestBlank p then _ else p). assert (E1 : envOf p1 = envOf p) by (unfold p1; destruct (isRestBlank p); reflexivity).
  set (p2 := withRoot p1 _). assert (E2 : envOf p2 = envOf p) by exact E1.
  assert (Hgo : forall q, envOf (let k := containerKind q in
       let inlineKind := if isCode k then TextKind else if k =? HTMLBlockKind then RawHTMLKind else UnparsedKind in
       let q' := updCont q (fun b => set_bik b (bik b ++ [mkI inlineKind (lineStart q + li q) (lineStart q + len (line q))])) in
       if isCode k && negb (hasByteSuffixEOL (line q')) then
         updCont q' (fun b => set_bik b (bik b ++ [mkI SoftLineBreakKind (lineStart q' + len (line q')) (lineStart q' + len (line q'))]))
       else q') = envOf q).
  { intros q. cbv zeta. match goal with |- envOf (if ?c then _ else _) = _ => destruct c end; reflexivity. }
  destruct (acceptsLines _).
  - rewrite Hgo. match goal with |- envOf (if ?c then _ else _) = _ => destruct c end; [rewrite env_consumeIndent|]; exact E2.
  - match goal with |- envOf (if ?c then _ else _) = _ => destruct c end; [|exact E2]. rewrite Hgo, env_consumeIndent, env_openBlock. exact E2.
Qed.

(* ---- one line ---- *)
Definition shKids (src : bytes) (M : Z) (l : list block) : Prop := allP (sh src M) l /\ closedL (removelast l).

Theorem sh_processLine H ns st children ls src : 0 <= H -> 0 <= ls <= len src -> ls + len (from_ src ls) = H -> len src <= H ->
  (ns = true -> hasByteSuffixEOL (from_ src ls) = true) -> bndL H ns children = true ->
  ccF children = true -> kidsOK ls children -> lineOK (from_ src ls) -> shKids src ls children ->
  shKids src (len src) (fst (fst (processLine st children ls src))).
Proof.
  intros H0 Hls Hhi Hsrc Hns Hbnd Hcc [Ha Hch] Hlk [Hsa Hsc]. unfold processLine. cbv zeta.
  set (p0 := resetLP st children ls src).
  assert (Hlen : 0 <= len (from_ src ls)) by (unfold len; lia).
  assert (Hroot : sp ls (root p0)).
  { cbn [p0 resetLP root sp]. repeat split; try lia; try discriminate; assumption. }
  assert (HB0 : BP p0).
  { split; [split; [cbn [p0 resetLP lineStart]; lia|cbn [p0 resetLP li line]; lia]|]. split; [unfold Mc; cbn [p0 resetLP li lineStart]; replace (ls + 0) with ls by lia; exact Hroot|]. split.
    - intros j x Hj Ex. change (cdepth p0) with O in Hj. replace j with O in Ex by lia. cbn in Ex. inversion Ex; subst x. cbn. lia.
    - unfold ccP, wf, cdepth. cbn [p0 resetLP root container]. split; [reflexivity|split; [exact Hcc|eexists; reflexivity]]. }
  assert (HG0 : G p0).
  { unfold p0, resetLP. split; [split; [cbn; lia|]|split; [cbn; apply len_nonneg|split; cbn; discriminate]].
    cbn [li line col tabRem]. intros Hl Hat. apply computeTabRem_spec; [lia|exact Hl|exact Hat]. }
  assert (Hev0 : EV p0) by (split; [reflexivity|cbn [p0 resetLP lineStart source]; lia]).
  assert (Hscl0 : ScleanR p0).
  { unfold ScleanR. cbn [p0 resetLP root source lineStart sh]. split; [intros; lia|]. split; [|exact Hsa].
    intros _. split; [apply openOK_other; discriminate|exact Hsc]. }
  assert (Hlk0 : lineOK (line p0)) by exact Hlk.
  pose proof (descend_ok (bheight (root p0)) p0 O HB0 Hroot eq_refl) as D1.
  pose proof (descend_sh (bheight (root p0)) p0 O HB0 Hroot Hev0 Hscl0 eq_refl) as D2.
  pose proof (G_descend_loop (bheight (root p0)) p0 O HG0) as G1.
  pose proof (env_descend_loop (bheight (root p0)) p0 O) as E1.
  fold (descendOpenBlocks p0) in D1, D2, G1, E1. destruct (descendOpenBlocks p0) as [am p1]. cbn [snd] in D1, D2, G1, E1.
  assert (Hev1 : EV p1) by (eapply EV_env; eassumption).
  assert (Hlk1 : lineOK (line p1)) by (rewrite (line_env _ _ E1); exact Hlk0).
  assert (Hfin : SR (let '(hasText, q) := if negb (state p1 =? stDescendTerminated) then openNewBlocks p1 am else (false, p1) in
                     if hasText then addLineText q else q)).
  { destruct D1 as [[Et Hw]|[HB1 Hc1]].
    - rewrite Et. cbn [negb Z.eqb Pos.eqb]. destruct D2 as [[_ D2]|D2]; [exact D2|apply ScleanR_SR; assumption].
    - destruct (Z.eqb_spec (state p1) stDescendTerminated) as [Et|Et]; cbn [negb].
      + destruct D2 as [[_ D2]|D2]; [exact D2|apply ScleanR_SR; assumption].
      + destruct D2 as [[Et' _]|D2]; [contradiction|].
        destruct (openNewBlocks_ok p1 am HB1 Hc1) as [Hw Hx]. destruct (openNewBlocks_sh p1 am Hlk1 HB1 Hc1 G1 Hev1 D2) as [Hsw Hsx].
        pose proof (G_openNewBlocks p1 am G1) as G2. pose proof (env_openNewBlocks p1 am) as E2.
        destruct (openNewBlocks p1 am) as [ht p2]. cbn [fst snd] in *.
        destruct ht; [|exact Hsw]. apply addLineText_sh; [apply Hx; reflexivity|apply Hsx; reflexivity|exact G2|eapply EV_env; eassumption]. }
  destruct (if negb (state p1 =? stDescendTerminated) then openNewBlocks p1 am else (false, p1)) as [ht p2] eqn:Ep2. cbn [fst].
  assert (Es : source (if ht then addLineText p2 else p2) = src).
  { assert (E2 : envOf p2 = envOf p0).
    { pose proof (env_openNewBlocks p1 am) as E2. destruct (negb _); [|inversion Ep2; subst; exact E1].
      rewrite Ep2 in E2. cbn [snd] in E2. congruence. }
    assert (E3 : envOf (if ht then addLineText p2 else p2) = envOf p0) by (destruct ht; [rewrite env_addLineText|]; exact E2).
    apply (env_parts _ _ E3). }
  unfold SR in Hfin. rewrite Es in Hfin. rewrite sh_eq in Hfin. destruct Hfin as (A & B & C).
  split; [exact C|]. destruct (Z.lt_ge_cases (bend (root (if ht then addLineText p2 else p2))) 0) as [L|L]; [apply B, L|apply closedL_removelast, A, L].
Qed.
