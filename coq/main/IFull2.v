(* IFull2.v -- T71: the two inline maps of the item (ItemSimDefs.iI, which cuts Text nodes only, and IFullDefs.iI3) agree on trees whose
   RawHTML nodes lie in one line; hence EntSameAtI K D for every tab-free document (the entries are those of D: QFull2.entry_okE). *)
From Coq Require Import List ZArith Lia Bool.
Import ListNotations.
Require Import Base Tree LP Driver Inl3a Inl3e SpanHypDef QuoteSimDefs QuoteSimLines ItemSimDefs QCutsDef QCuts QIRdrBase QInlDefs QFullDefs QFull1 QFull2 IFullDefs IFull1.
Open Scope Z_scope.

Section General.
  Variables (K : Z) (D : bytes).
  Hypothesis D_cr : noCR D.
  Lemma epsK_eE s e : 0 <= e -> epsilonK K D s e = eE (sigmaK K D) s e.
  Proof. intros He. unfold epsilonK, eE. destruct (Z.ltb_spec e 0); [lia|reflexivity]. Qed.

  Lemma iI_iI3 : forall i, okE D i -> iI K D i = iI3 K D i.
  Proof.
    fix IH 1. intros i H. apply okE_eq in H. destruct H as (Hse & He & Hr & Hk). destruct i as [k s e ind rf ks]. cbn [istart iend ikind ikids] in *.
    unfold iI3. cbn [iI qI3]. cbv zeta.
    assert (Ek : flat_map (iI K D) ks = flat_map (qI3 D (sigmaK K D)) ks).
    { clear -IH Hk. induction ks as [|c r IHr]; [reflexivity|]. inversion Hk as [|? ? Hc Hrest]; subst. cbn [flat_map]. rewrite (IH c Hc), (IHr Hrest). reflexivity. }
    rewrite Ek. unfold splitK.
    destruct (Z.eqb_spec k TextKind) as [Et|Nt]; cbn [orb andb].
    - destruct (Z.ltb_spec s e) as [L|L]; [|rewrite epsK_eE by lia; reflexivity].
      rewrite <- (cuts_splitAt D s e (D_crat D D_cr) ltac:(lia) L He). apply map_ext_in. intros p Hp.
      destruct (cuts_bounds D s e p L Hp) as (B1 & B2 & B3). f_equal. unfold epsilonK. destruct (Z.ltb_spec (snd p) 0); [lia|]. destruct (Z.ltb_spec (fst p) (snd p)); [reflexivity|lia].
    - destruct (Z.eqb_spec k RawHTMLKind) as [Er|Nr]; cbn [andb].
      + destruct (Z.ltb_spec s e) as [L|L]; [|rewrite epsK_eE by lia; reflexivity].
        rewrite (cuts_single D s e L (Hr Er)). cbn [map fst snd]. unfold epsilonK. destruct (Z.ltb_spec e 0); [lia|]. destruct (Z.ltb_spec s e); [reflexivity|lia].
      + rewrite epsK_eE by lia. reflexivity.
  Qed.
  Lemma iI_iI3_list l : Forall (okE D) l -> flat_map (iI K D) l = flat_map (iI3 K D) l.
  Proof. induction 1 as [|x r Hx Hr IH]; [reflexivity|]. cbn [flat_map]. rewrite (iI_iI3 x Hx), IH. reflexivity. Qed.
End General.

Theorem EntSameI_holds K D : tabFree D -> D <> [] -> EntSameAtI K D.
Proof.
  intros HT Hne r b Hr Hb _. apply (iI_iI3_list K D (QFull2.D_cr D HT)). apply Forall_forall. intros v Hv. apply in_map_iff in Hv. destruct Hv as (u & <- & Hu).
  apply (entry_okE D HT Hne r b u Hr Hb Hu).
Qed.
Print Assumptions EntSameI_holds.
