(* QInlTree5.v -- T64 (tree): one round of pe_loop in a form that separates the tree surgery from the stack arithmetic
   (pe_stepC = IFPe.pe_step), and the round on the two sides. *)
From Coq Require Import List ZArith Lia Bool.
Import ListNotations.
Require Import Base Tables Utf8 Tree Rdr Link Collect Html Recog Inl3a Inl3b Inl3c Inl3d Driver Inl3e QCutsDef QCuts QIRdrBase QInlDefs.
Require Import Props PEProof GI0 GI1 GI2 GI3 IFTree IFPe IS0 IS2 IS1 IS3 IS4 QInlTree1 QInlTree2 QInlTree3 QInlTree4.
Open Scope Z_scope.

(* ---------------------------------------------------------------- the tree surgery of a matched pair *)
Definition peS (st : ist) (o c : delim) : bool := (2 <=? plen (nodeOf st (d_node o))) && (2 <=? plen (nodeOf st (d_node c))).
Definition peA (st : ist) (o c : delim) : ist :=
  fst (wrap (updN (updN st (d_node o) (fun n => setSpan n (ps n) (pe n - (if peS st o c then 2 else 1)))) (d_node c)
                  (fun n => setSpan n (ps n + (if peS st o c then 2 else 1)) (pe n)))
            (if peS st o c then StrongKind else EmphasisKind) (d_node o) (Some (d_node c))).
Definition peB1 (st : ist) (o c : delim) : bool := plen (nodeOf (peA st o c) (d_node o)) =? 0.
Definition pe5 (st : ist) (o c : delim) : ist := if peB1 st o c then removeNode (peA st o c) (d_node o) else peA st o c.
Definition peB2 (st : ist) (o c : delim) : bool := plen (nodeOf (pe5 st o c) (d_node c)) =? 0.
Definition pe6 (st : ist) (o c : delim) : ist := if peB2 st o c then removeNode (pe5 st o c) (d_node c) else pe5 st o c.
(* the stack, the openers-bottom table and the position after the pair *)
Definition peStk (stack : list delim) (ob : list Z) (oi cp : Z) (b1 b2 : bool) : list delim * list Z * Z :=
  let S1 := delStack stack (oi + 1) cp in
  let ob1 := map (fun b => if oi + 1 <? b then oi + 1 else b) ob in
  let S2 := if b1 then delStack S1 oi (oi + 1) else S1 in
  let cp2 := if b1 then oi + 1 - 1 else oi + 1 in
  let ob2 := if b1 then map (fun b => if oi <? b then b - 1 else b) ob1 else ob1 in
  let S3 := if b2 then delStack S2 cp2 (cp2 + 1) else S2 in
  (S3, ob2, cp2).

Definition pe_stepC (st : ist) (ob : list Z) (cp : Z) : option (ist * list Z * Z) :=
  let stack := stk st in
  let cp := pe_findCloser (S (length stack)) stack cp in
  if cp <? 0 then None else
  let c := nthD stack cp in
  let obi := obIndex c in
  let lo := getOB ob obi in
  let oi := pe_findOpener (S (length stack)) stack (cp - 1) lo c in
  if lo <=? oi then
    let o := nthD stack oi in
    Some (setStk (pe6 st o c) (fst (fst (peStk stack ob oi cp (peB1 st o c) (peB2 st o c)))),
          snd (fst (peStk stack ob oi cp (peB1 st o c) (peB2 st o c))),
          snd (peStk stack ob oi cp (peB1 st o c) (peB2 st o c)))
  else
    let ob := setOB ob obi cp in
    if negb (hasFlag c fOpener) then Some (setStk st (delStack (stk st) cp (cp + 1)), ob, cp)
    else Some (st, ob, cp + 1).

Lemma nodeOf_removeNode_setStk st v a id : nodeOf (removeNode (setStk st v) a) id = nodeOf (removeNode st a) id.
Proof. reflexivity. Qed.

Lemma pair_branch_eq st (ob : list Z) (oi cp : Z) (o c : delim) :
  (let on := nodeOf st (d_node o) in let cn := nodeOf st (d_node c) in
   let strong := (2 <=? plen on) && (2 <=? plen cn) in
   let k := if strong then 2 else 1 in
   let st0 := updN st (d_node o) (fun n => setSpan n (ps n) (pe n - k)) in
   let st1 := updN st0 (d_node c) (fun n => setSpan n (ps n + k) (pe n)) in
   let '(st2, _) := wrap st1 (if strong then StrongKind else EmphasisKind) (d_node o) (Some (d_node c)) in
   let st3 := setStk st2 (delStack (stk st2) (oi + 1) cp) in
   let cp0 := oi + 1 in
   let ob0 := map (fun b => if oi + 1 <? b then oi + 1 else b) ob in
   let '(st4, cp1, ob1) :=
     if plen (nodeOf st3 (d_node o)) =? 0 then
       (setStk (removeNode st3 (d_node o)) (delStack (stk st3) oi (oi + 1)), cp0 - 1,
        map (fun b => if oi <? b then b - 1 else b) ob0)
     else (st3, cp0, ob0) in
   let st5 :=
     if plen (nodeOf st4 (d_node c)) =? 0 then
       setStk (removeNode st4 (d_node c)) (delStack (stk st4) cp1 (cp1 + 1))
     else st4 in
   Some (st5, ob1, cp1)) =
  Some (setStk (pe6 st o c) (fst (fst (peStk (stk st) ob oi cp (peB1 st o c) (peB2 st o c)))),
        snd (fst (peStk (stk st) ob oi cp (peB1 st o c) (peB2 st o c))),
        snd (peStk (stk st) ob oi cp (peB1 st o c) (peB2 st o c))).
Proof.
  cbv zeta.
  destruct (wrap _ _ _ _) as [stA w] eqn:Ew.
  assert (EA : stA = peA st o c) by (unfold peA, peS; rewrite Ew; reflexivity). subst stA. clear Ew.
  rewrite !nodeOf_setStk. change (plen (nodeOf (peA st o c) (d_node o)) =? 0) with (peB1 st o c).
  unfold pe6, peB2, pe5, peStk. cbv zeta.
  assert (Es : stk (peA st o c) = stk st) by reflexivity. rewrite Es.
  destruct (peB1 st o c); cbv beta iota.
  - rewrite !nodeOf_setStk, nodeOf_removeNode_setStk.
    destruct (plen (nodeOf (removeNode (peA st o c) (d_node o)) (d_node c)) =? 0); reflexivity.
  - rewrite !nodeOf_setStk.
    destruct (plen (nodeOf (peA st o c) (d_node c)) =? 0); reflexivity.
Qed.

Lemma pe_step_C st ob cp : pe_step st ob cp = pe_stepC st ob cp.
Proof.
  unfold pe_step, pe_stepC. cbv zeta.
  destruct (pe_findCloser _ _ _ <? 0); [reflexivity|].
  destruct (_ <=? _); [|reflexivity].
  exact (pair_branch_eq st ob _ _ _ _).
Qed.

Section StepQ.
  Variables (sD sQ : bytes) (sg : Z -> Z).
  Hypothesis SG : SGood sD sQ sg.
  Variable U : list inline.
  Notation SL := (QInlTree1.SL sD).
  Notation IR := (QInlDefs.IR sD sQ sg).
  Notation J := (IS3.J sD U).

  (* the matched pair in the separated form *)
  Lemma pe_pair_C hi st st' P o D2 c D3 :
    J hi st -> SL (rk st) -> IR st st' -> stk st = P ++ o :: D2 ++ c :: D3 -> d_typ o = d_typ c -> (d_typ c = tStar \/ d_typ c = tUnder) ->
    peB1 st' o c = peB1 st o c /\ peB2 st' o c = peB2 st o c /\ IR (pe6 st o c) (pe6 st' o c) /\ SL (rk (pe6 st o c)).
  Proof.
    intros HJ HS HI Es Ht Htc. pose proof (pe_pair_q sD sQ sg SG U hi st st' P o D2 c D3 HJ HS HI Es Ht Htc) as H. cbv zeta in H.
    destruct H as (P1 & I3 & P3 & I5 & P5 & I6 & S6).
    assert (ES : peS st' o c = peS st o c) by exact P1.
    assert (EB1 : peB1 st' o c = peB1 st o c) by (unfold peB1, peA; rewrite ES; exact P3).
    assert (EB2 : peB2 st' o c = peB2 st o c) by (unfold peB2, pe5; rewrite EB1; unfold peA; rewrite ES; exact P5).
    split; [exact EB1|]. split; [exact EB2|]. split; [|exact S6].
    unfold pe6. rewrite EB2. unfold pe5. rewrite EB1. unfold peA. rewrite ES. exact I6.
  Qed.

  Lemma OBI_weaken sb ob : 0 <= sb -> OBI sb ob -> OBI 0 ob.
  Proof. intros Hsb [A B]. split; [exact A|]. intros b Hb. specialize (B b Hb). lia. Qed.

  (* one round on the two sides *)
  Lemma pe_step_q hi st st' ob cp : J hi st -> SL (rk st) -> IR st st' -> OBI 0 ob -> 0 <= cp ->
    match pe_step st ob cp with
    | None => pe_step st' ob cp = None
    | Some (s1, ob1, cp1) => exists s1', pe_step st' ob cp = Some (s1', ob1, cp1) /\ IR s1 s1' /\ SL (rk s1) /\ OBI 0 ob1 /\ 0 <= cp1
    end.
  Proof.
    intros HJ HS HI HO Hcp. rewrite !pe_step_C. unfold pe_stepC. cbv zeta. rewrite (IR_stk sD sQ sg st st' HI).
    remember (pe_findCloser (S (length (stk st))) (stk st) cp) as cp1 eqn:Ecp1.
    destruct (Z.ltb_spec cp1 0) as [Hneg|Hpos]; [reflexivity|].
    destruct (findCloser_spec _ _ _ _ (eq_sym Ecp1) Hpos) as [Hcp1 Hcl].
    remember (nthD (stk st) cp1) as c eqn:Ec.
    pose proof (obIndex_range c Hcl) as Hobi.
    remember (getOB ob (obIndex c)) as lo eqn:Elo.
    assert (Hlo : 0 <= lo) by (subst lo; apply HO; unfold OBN; lia).
    remember (pe_findOpener (S (length (stk st))) (stk st) (cp1 - 1) lo c) as oi eqn:Eoi.
    destruct (Z.leb_spec lo oi) as [Hfound|Hnone].
    - pose proof (findOpener_spec (stk st) c lo (S (length (stk st))) (cp1 - 1)) as Hs.
      assert (Hf : (Z.to_nat (cp1 - 1 - lo + 1) < S (length (stk st)))%nat) by (unfold len in *; lia).
      specialize (Hs Hf). cbn zeta in Hs. rewrite <- Eoi in Hs.
      destruct Hs as [(A1 & _)|(Hoi & Hmatch & _)]; [lia|].
      remember (nthD (stk st) oi) as o eqn:Eo.
      destruct (split_at2 (stk st) oi cp1 ltac:(lia) ltac:(lia) ltac:(lia)) as (P & D2s & D3s & Esplit & HlenP & HlenD2).
      rewrite <- Eo, <- Ec in Esplit.
      destruct (pe_pair_C hi st st' P o D2s c D3s HJ HS HI Esplit (isEmphMatch_typ o c Hmatch) (closerLike_typ c Hcl)) as (EB1 & EB2 & I6 & S6).
      rewrite EB1, EB2. eexists. split; [reflexivity|]. split; [apply (IR_setStk sD sQ sg), I6|]. split; [exact S6|].
      unfold peStk. cbn [fst snd].
      assert (HOB1 : OBI 0 (map (fun b : Z => if oi + 1 <? b then oi + 1 else b) ob)).
      { apply OBI_map; [exact HO|]. intros b Hb. destruct (oi + 1 <? b); lia. }
      destruct (peB1 st o c); [split; [|lia]|split; [exact HOB1|lia]].
      apply OBI_map; [exact HOB1|]. intros b Hb. destruct (Z.ltb_spec oi b); lia.
    - assert (HOB' : OBI 0 (setOB ob (obIndex c) cp1)) by (apply OBI_set; [exact HO|unfold OBN; lia|lia]).
      destruct (negb (hasFlag c fOpener)); eexists; (split; [reflexivity|]).
      + split; [apply (IR_setStk sD sQ sg), HI|]. split; [exact HS|]. split; [exact HOB'|lia].
      + split; [exact HI|]. split; [exact HS|]. split; [exact HOB'|lia].
  Qed.

  (* the loop with a common fuel *)
  Lemma pe_loop_q : forall f hi st st' ob cp, J hi st -> SL (rk st) -> IR st st' -> OBI 0 ob -> 0 <= cp ->
    IR (pe_loop f st ob cp) (pe_loop f st' ob cp) /\ SL (rk (pe_loop f st ob cp)).
  Proof.
    induction f as [|f IH]; intros hi st st' ob cp HJ HS HI HO Hcp; [split; assumption|]. rewrite !pe_loop_step.
    pose proof (pe_step_q hi st st' ob cp HJ HS HI HO Hcp) as Hs.
    pose proof (pe_loop_J sD U 1 hi st ob cp HJ HO Hcp) as HJ1. rewrite pe_loop_step in HJ1.
    destruct (pe_step st ob cp) as [[[s1 ob1] cp1]|].
    - destruct Hs as (s1' & -> & I1 & S1 & O1 & C1). cbn [pe_loop] in HJ1. apply (IH hi); assumption.
    - rewrite Hs. split; assumption.
  Qed.
End StepQ.
