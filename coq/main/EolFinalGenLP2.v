From Coq Require Import List ZArith Lia Bool.
Import ListNotations.
Require Import Base Tree Rdr Link Collect Html Recog LP Rules Starts Driver Rec16 Rec17 Rec18 RecBounds Cursor CursorX L2Kind L2CC SpanSmall NoPanic12
  ShEnv GramTree GramLP GramLP2 EolInv EolCRBytes EolHtmlInv EolCRLFSimTree EolFinalDefs EolFinalSimBytes EolFinalSimTree EolFinalGenOcp EolFinalGenTree EolFinalGenClose EolFinalGenInv EolFinalGenLP.
Open Scope Z_scope.

Section GenLP2.
Context {HO : OcpFinC}.

(* C14 (i), final newline: tree updates of the line parser in the two runs. *)

Lemma allB_getAt P : forall d r x, allB P r = true -> getAt d r = Some x -> allB P x = true.
Proof.
  induction d as [|d IH]; intros r x H E; [inversion E; subst; exact H|]. cbn [getAt] in E.
  destruct (lastBlock r) as [c|] eqn:El; [|discriminate]. apply (IH c x); [eapply allB_lastBlock; eassumption|exact E].
Qed.
Lemma F_append L b nb : cc b = true -> finB L nb = nb -> finB L (set_bkids b (bkids b ++ [nb])) = set_bkids (finB L b) (bkids (finB L b) ++ [nb]).
Proof.
  intros Hc Hn. destruct (Z.eq_dec (bkind b) ListMarkerKind) as [E|N].
  - rewrite (F_LM L b E), (F_LM L (set_bkids b (bkids b ++ [nb]))) by (destruct b; exact E). reflexivity.
  - rewrite (F_set_bkids L b _ N), map_app, (bkids_F L b Hc). cbn [map]. rewrite Hn. reflexivity.
Qed.

Lemma FQ_updCont_at L p q f f' : FQ L p q -> cc (root p) = true ->
  (forall x, getAt (cdepth p) (root p) = Some x -> finB L (f x) = f' (finB L x)) -> FQ L (updCont p f) (updCont q f').
Proof.
  intros H Hc Hf. fqsplit H. unfold updCont, withRoot. flds. cbv beta iota delta [cdepth container root] in Hf, Hc.
  rewrite <- (updAt_F_at L f f' _ rt Hc Hf). apply FQ_mk; assumption.
Qed.
Lemma FQ_flag L p q f : (forall b, finB L (f b) = f (finB L b)) -> FQ L p q -> cc (root p) = true -> FQ L (updCont p f) (updCont q f).
Proof. intros A H Hc. apply FQ_updCont_at; [exact H|exact Hc|intros x _; apply A]. Qed.
Lemma FQ_ls L p q : FQ L p q -> lineStart q = lineStart p. Proof. intros H. apply H. Qed.
Lemma FQ_ls0 L p q : FQ L p q -> 0 <= lineStart p. Proof. intros H. apply H. Qed.
Lemma FQ_li L p q : FQ L p q -> 0 <= li p <= len (line p). Proof. intros H. apply H. Qed.
Lemma FQ_end L p q : FQ L p q -> lineStart p + len (line p) = L. Proof. intros H. apply H. Qed.

Lemma FQ_closeLastChildAt L p q d e e' : FQ L p q -> cc (root p) = true -> QP L p -> 0 <= e ->
  ((e' = e /\ (e <> L \/ forall c, getAt (S d) (root p) = Some c -> bkind c = ListMarkerKind)) \/
   (e = L /\ e' = L + 1 /\ forall c, getAt (S d) (root p) = Some c -> lmB c = true)) ->
  FQ L (closeLastChildAt p d e) (closeLastChildAt q d e').
Proof.
  intros H Hc HQ He Hcond. pose proof (FQ_ls_lt L p q H) as Hlt. destruct HQ as [(SS & Hq & Hev) _].
  pose proof (qB_scB L _ (qB2_qB L SS _ _ Hq)) as Hs. pose proof (qB2_peB L SS _ _ Hq) as Hpe.
  fqsplit H. subst L. unfold closeLastChildAt, withRoot. flds. cbv beta iota delta [root source lineStart] in Hc, Hs, Hcond, Hpe, Hev, Hlt. clear Hq. rewrite bheight_F.
  assert (E : finB (len S) (updAt d (fun b => match lastBlock b with Some c => set_lastBlocks b (closeBlock (bheight rt) S c e) | None => b end) rt) =
              updAt d (fun b => match lastBlock b with Some c => set_lastBlocks b (closeBlock (bheight rt) (S ++ [10]) c e') | None => b end) (finB (len S) rt)).
  { apply updAt_F_at; [exact Hc|]. intros x Hx. pose proof (cc_getAt d rt x Hc Hx) as Hcx. rewrite (lastBlock_F _ x Hcx).
    destruct (lastBlock x) as [c|] eqn:El; cbn [option_map]; [|reflexivity].
    rewrite (F_set_lastBlocks _ x _ (lastBlock_nonLM x c Hcx El)). f_equal. symmetry.
    assert (Hg : getAt (Datatypes.S d) rt = Some c) by (rewrite getAt_snoc, Hx; exact El).
    apply (closeBlock_F S SS ls); [exact Hev|apply (cc_lastBlock x c Hcx El)|apply (allB_lastBlock _ x c); [apply (allB_getAt _ d rt x Hs Hx)|exact El]|apply (allB_lastBlock _ x c); [apply (allB_getAt _ d rt x Hpe Hx)|exact El]|left; exact Hlt| |exact He].
    destruct Hcond as [[E1 [E2|E2]]|(E1 & E2 & E3)];
      [left; split; [exact E1|left; exact E2]|left; split; [exact E1|right; apply E2, Hg]|right; split; [exact E1|split; [exact E2|apply E3, Hg]]]. }
  rewrite <- E. apply FQ_mk; try assumption; reflexivity.
Qed.

Lemma li_openBlock_up : forall fuel p k, li (openBlock_up fuel p k) = li p.
Proof.
  induction fuel as [|f IH]; intros p k; [reflexivity|]. cbn [openBlock_up]. destruct (canContain _ _); [reflexivity|].
  destruct (cdepth p); [reflexivity|]. rewrite IH. reflexivity.
Qed.
Lemma QP_scB L p : QP L p -> scB L (root p) = true. Proof. intros H. apply qB_scB, QP_qB, H. Qed.
Lemma ccP_cc p : ccP p -> cc (root p) = true. Proof. intros (_ & H & _). exact H. Qed.

Lemma FQ_openBlock_up L : forall fuel p q k, FQ L p q -> ccP p -> QP L p -> FQ L (openBlock_up fuel p k) (openBlock_up fuel q k).
Proof.
  induction fuel as [|f IH]; intros p q k H Hc Hq; [exact H|]. cbn [openBlock_up].
  rewrite (FQ_containerKind L p q H (ccP_cc p Hc)), (FQ_cdepth L p q H).
  destruct (canContain _ _); [exact H|]. destruct (cdepth p) as [|d] eqn:Ed; [apply FQ_panic, H|].
  rewrite (FQ_ls L p q H). apply IH.
  - apply FQ_withCont. apply FQ_closeLastChildAt; [exact H|apply ccP_cc, Hc|exact Hq|apply (FQ_ls0 L p q H)|].
    left. split; [reflexivity|left]. pose proof (FQ_ls_lt L p q H). lia.
  - pose proof Hc as (_ & _ & (x & Hx)). rewrite Ed in Hx. apply ccP_closeAt; [exact Hc|lia|]. eapply getAt_prefix. exact Hx.
  - apply QP_withCont, QP_closeLastChildAt; [apply (QP_ls L p Hq)|exact Hq].
Qed.

Lemma FQ_openBlock L p q k : FQ L p q -> li q = li p -> ccP p -> QP L p -> FQ L (openBlock p k) (openBlock q k).
Proof.
  intros H Es Hc Hq. pose proof (FQ_L0 L p q H) as L0. unfold openBlock. pose proof (FQ_opened L p q H) as H1. rewrite (FQ_state L p q H) in H1 |- *.
  destruct (_ || _); [apply FQ_panic, H|]. cbv zeta.
  assert (C0 : ccP (if state p =? stOpening then withState p stOpenMatched else p)) by (apply ccP_opened, Hc).
  assert (Q0 : QP L (if state p =? stOpening then withState p stOpenMatched else p)) by (apply QP_opened, Hq).
  assert (Es0 : li (if state p =? stOpening then withState q stOpenMatched else q) = li (if state p =? stOpening then withState p stOpenMatched else p))
    by (destruct (state p =? stOpening); exact Es).
  set (p0 := if state p =? stOpening then withState p stOpenMatched else p) in *.
  set (q0 := if state p =? stOpening then withState q stOpenMatched else q) in *. clearbody p0 q0.
  rewrite (FQ_cdepth L p0 q0 H1).
  pose proof (FQ_openBlock_up L (S (cdepth p0)) p0 q0 k H1 C0 Q0) as H2.
  pose proof (ccP_openBlock_up (S (cdepth p0)) p0 k C0) as C2. pose proof (QP_openBlock_up L (S (cdepth p0)) p0 k Q0) as Q2.
  assert (Es2 : li (openBlock_up (S (cdepth p0)) q0 k) = li (openBlock_up (S (cdepth p0)) p0 k)) by (rewrite !li_openBlock_up; exact Es0).
  set (u := openBlock_up (S (cdepth p0)) p0 k) in *. set (u' := openBlock_up (S (cdepth p0)) q0 k) in *. clearbody u u'.
  rewrite (FQ_cdepth L u u' H2), (FQ_ls L u u' H2).
  assert (H3 : FQ L (closeLastChildAt u (cdepth u) (lineStart u)) (closeLastChildAt u' (cdepth u) (lineStart u))).
  { apply FQ_closeLastChildAt; [exact H2|apply ccP_cc, C2|exact Q2|apply (FQ_ls0 L u u' H2)|].
    left. split; [reflexivity|left]. pose proof (FQ_ls_lt L u u' H2). lia. }
  pose proof (ccP_closeHere u (lineStart u) C2) as C3.
  set (v := closeLastChildAt u (cdepth u) (lineStart u)) in *. set (v' := closeLastChildAt u' (cdepth u) (lineStart u)) in *.
  assert (Ev : lineStart v' + li v' = lineStart v + li v).
  { change (lineStart v') with (lineStart u'). change (li v') with (li u'). change (lineStart v) with (lineStart u). change (li v) with (li u).
    rewrite (FQ_ls L u u' H2), Es2. reflexivity. }
  clearbody v v'. rewrite Ev. apply FQ_withCont. apply FQ_updCont_at; [exact H3|apply ccP_cc, C3|].
  intros x Hx. apply F_append; [eapply cc_getAt; [apply ccP_cc, C3|exact Hx]|apply F_newBlock, L0].
Qed.

Lemma lmB_leaf c : bkind c <> ListMarkerKind -> bkids c = [] -> lmB c = true.
Proof.
  intros N E. unfold lmB. rewrite allB_eq, E. cbn [forallb]. rewrite andb_true_r. unfold lmP.
  replace (bkind c =? ListMarkerKind) with false by (symmetry; apply Z.eqb_neq; exact N). reflexivity.
Qed.

Lemma FQ_endBlock L p q : FQ L p q -> ccP p -> QP L p ->
  ((li q = li p /\ (li p < len (line p) \/ containerKind p = ListMarkerKind)) \/
   (li p = len (line p) /\ li q = len (line p) + 1 /\ forall c, getAt (cdepth p) (root p) = Some c -> lmB c = true)) ->
  FQ L (endBlock p) (endBlock q).
Proof.
  intros H Hc Hq Hend. unfold endBlock. pose proof (FQ_opened L p q H) as H1. rewrite (FQ_state L p q H) in H1 |- *.
  destruct (_ || _); [apply FQ_panic, H|]. cbv zeta.
  assert (C0 : ccP (if state p =? stOpening then withState p stOpenMatched else p)) by (apply ccP_opened, Hc).
  assert (Q0 : QP L (if state p =? stOpening then withState p stOpenMatched else p)) by (apply QP_opened, Hq).
  assert (E0 : li (if state p =? stOpening then withState p stOpenMatched else p) = li p /\
               line (if state p =? stOpening then withState p stOpenMatched else p) = line p /\
               root (if state p =? stOpening then withState p stOpenMatched else p) = root p /\
               cdepth (if state p =? stOpening then withState p stOpenMatched else p) = cdepth p /\
               containerKind (if state p =? stOpening then withState p stOpenMatched else p) = containerKind p /\
               li (if state p =? stOpening then withState q stOpenMatched else q) = li q)
    by (destruct (state p =? stOpening); repeat split).
  set (p0 := if state p =? stOpening then withState p stOpenMatched else p) in *.
  set (q0 := if state p =? stOpening then withState q stOpenMatched else q) in *. clearbody p0 q0.
  destruct E0 as (E1 & E2 & E3 & E4 & E5 & E6). rewrite <- E1, <- E2, <- E3, <- E4, <- E5, <- E6 in Hend. clear E1 E2 E3 E4 E5 E6 H Hc Hq.
  rewrite (FQ_cdepth L p0 q0 H1). destruct (cdepth p0) as [|d] eqn:Ed; [apply FQ_panic, H1|]. rewrite (FQ_ls L p0 q0 H1).
  apply FQ_withCont. pose proof (FQ_li L p0 q0 H1) as Hli. pose proof (FQ_ls0 L p0 q0 H1) as Hls. pose proof (FQ_end L p0 q0 H1) as He.
  apply FQ_closeLastChildAt; [exact H1|apply ccP_cc, C0|exact Q0|lia|].
  destruct Hend as [(Es & [Hlt|Hk])|(A & B & Cc)].
  - left. split; [rewrite Es; reflexivity|left; lia].
  - left. split; [rewrite Es; reflexivity|right]. intros c Hg. unfold containerKind, contBlock in Hk. rewrite Ed, Hg in Hk. exact Hk.
  - right. rewrite A, B. split; [lia|split; [lia|exact Cc]].
Qed.

(* ---- parseInfoString reads only the bytes before its end ---- *)
Lemma infoString_app10 (src : bytes) e : e <= len src -> forall fuel i ps acc, 0 <= i ->
  infoString_loop fuel (src ++ [10]) i e ps acc = infoString_loop fuel src i e ps acc.
Proof.
  intros He. induction fuel as [|f IH]; intros i ps acc Hi; [reflexivity|]. cbn [infoString_loop].
  destruct (Z.leb_spec e i) as [Le|Lt]; [reflexivity|]. cbv zeta. rewrite (at_app10_lt src i) by lia.
  destruct (at_ src i =? 92).
  - destruct (Z.leb_spec e (i + 1)) as [Le1|Lt1]; cbn [orb]; [apply IH; lia|]. rewrite (at_app10_lt src (i + 1)) by lia.
    destruct (negb _); apply IH; lia.
  - destruct (at_ src i =? 38); [|apply IH; lia]. rewrite (sub_app10 src i e) by lia.
    destruct (Z.ltb_spec (parseCharacterEscape (sub src i e)) 0) as [Ln|Ln]; [apply IH; lia|].
    pose proof (parseCharacterEscape_bounds (sub src i e) Ln) as [B1 B2]. apply IH; lia.
Qed.
Lemma parseInfoString_app10 (src : bytes) s e : 0 <= s -> e <= len src -> parseInfoString (src ++ [10]) s e = parseInfoString src s e.
Proof. intros Hs He. unfold parseInfoString. rewrite (infoString_app10 src e He) by exact Hs. reflexivity. Qed.

(* ---- appending an entry to the container ---- *)
Definition appOK (L K : Z) (u u' : inline) : Prop :=
  if (K =? ParagraphKind) || (K =? HTMLBlockKind) then u' = bumpI L u
  else if isCode K then u' = u /\ ikind u <> SoftLineBreakKind
  else u' = u.
Lemma F_add_ik L b u u' : bkind b <> ListMarkerKind -> qP L b = true -> appOK L (bkind b) u u' ->
  finB L (set_bik b (bik b ++ [u])) = set_bik (finB L b) (bik (finB L b) ++ [u']).
Proof.
  intros N Hq Ha. rewrite (F_set_bik L b _ N), bik_F. replace (bkind b =? ListMarkerKind) with false by (symmetry; apply Z.eqb_neq; exact N).
  f_equal. unfold appOK in Ha. unfold finI. destruct ((bkind b =? ParagraphKind) || (bkind b =? HTMLBlockKind)).
  - rewrite map_app. cbn [map]. rewrite Ha. reflexivity.
  - unfold isCode in Ha. destruct ((bkind b =? IndentedCodeBlockKind) || (bkind b =? FencedCodeBlockKind)) eqn:Ec.
    + destruct Ha as [-> Hk]. unfold qP in Hq. apply andb_true_iff in Hq. destruct Hq as [Hq _]. unfold isCode in Hq. rewrite Ec in Hq. cbn in Hq.
      rewrite (finCode_nslb L _ Hq). apply finCode_last, Hk.
    + rewrite Ha. reflexivity.
Qed.
Lemma FQ_append L p q K u u' : FQ L p q -> ccP p -> qB L (root p) = true -> ckind p K -> K <> ListMarkerKind -> appOK L K u u' ->
  FQ L (updCont p (fun b => set_bik b (bik b ++ [u]))) (updCont q (fun b => set_bik b (bik b ++ [u']))).
Proof.
  intros H Hc Hq Hk N Ha. apply FQ_updCont_at; [exact H|apply ccP_cc, Hc|]. intros x Hx.
  pose proof (Hk x Hx) as Ex. apply F_add_ik; [rewrite Ex; exact N| |rewrite Ex; exact Ha].
  pose proof (allB_getAt (qP L) _ _ _ Hq Hx) as Hqx. apply (allB_parts (qP L)) in Hqx. tauto.
Qed.
End GenLP2.
