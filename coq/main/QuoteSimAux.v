(* QuoteSimAux.v -- T51: single-run facts used by the driver.
   1. a source without '[' : onCloseParagraph leaves every block alone (no link reference definition can start);
   2. the state carried over from the previous line does not matter, unless it is stDescendTerminated and nothing re-enters the descent;
   3. a blank line processed with no children leaves no children. *)
From Coq Require Import List ZArith Lia Bool Arith.
Import ListNotations.
Require Import Base Tree Rdr Link Collect Html Recog LP Rules Starts Driver Cursor CursorX L2Kind L2CC NoPanic47 SlicePara
  QuoteSimTree QuoteSimNest QuoteSimQLine.
Open Scope Z_scope.

(* ---- 1. no '[' ---- *)
Definition no91 (l : bytes) : Prop := Forall (fun c => c <> 91) l.
Lemma no91_at l i : no91 l -> at_ l i <> 91.
Proof.
  unfold no91. intros H. unfold at_. destruct (i <? 0); [discriminate|]. destruct (nth_in_or_default (Z.to_nat i) l 0) as [Hin|E]; [|rewrite E; discriminate].
  rewrite Forall_forall in H. apply H, Hin.
Qed.
Lemma current_ne91 r : no91 (r_src r) -> fst (current r) <> 91.
Proof.
  intros H. unfold current. destruct (len (r_src r) <=? r_pos r); [cbn; discriminate|]. destruct (curNode r) as [n r'].
  destruct (okind n =? IndentKind); [cbn; discriminate|]. destruct (at_ (r_src r) (r_pos r) =? 0).
  - cbn [fst]. unfold nullRepl. destruct (_ =? 0); [discriminate|]. destruct (_ =? 1); discriminate.
  - cbn [fst]. apply no91_at, H.
Qed.
Lemma parseLinkLabel_no91 fuel r : no91 (r_src r) -> fst (fst (parseLinkLabel fuel r)) = nullSpan.
Proof.
  intros H. unfold parseLinkLabel. pose proof (current_ne91 r H) as Hc. destruct (current r) as [c r0]. cbn [fst] in Hc.
  destruct (Z.eqb_spec c 91); [contradiction|]. reflexivity.
Qed.
Lemma ocp_loop_no91 fuel rf src orig orphan r result : no91 (r_src r) -> ocp_loop fuel rf src orig orphan r result = result ++ [orig].
Proof.
  intros H. destruct fuel as [|f]; [reflexivity|]. cbn [ocp_loop]. pose proof (parseLinkLabel_no91 rf r H) as E.
  destruct (parseLinkLabel rf r) as [[lspan linner] r1]. cbn [fst] in E. subst lspan. reflexivity.
Qed.
Lemma onCloseParagraph_no91 src b : no91 src -> onCloseParagraph src b = [b].
Proof. intros H. unfold onCloseParagraph. destruct (bik b) as [|first rest]; [reflexivity|]. cbv zeta. apply ocp_loop_no91. exact H. Qed.

(* ---- 2. the carried state ---- *)
Definition HMk (ks : list block) : Prop := match rev ks with c :: _ => isOpen c = true /\ hasMatch (bkind c) = true | [] => False end.

Lemma tryStarts_state fs p s : fs <> [] -> tryStarts fs (withState p s) = tryStarts fs p.
Proof. intros Hn. destruct fs as [|f r]; [contradiction|]. destruct p. reflexivity. Qed.
Lemma blockStarts_ne : blockStarts <> []. Proof. discriminate. Qed.

Lemma processLine_state st ks ls src : from_ src ls <> [] -> (st = stDescendTerminated -> HMk ks) ->
  processLine st ks ls src = processLine stDescending ks ls src.
Proof.
  intros Hl Hst. rewrite !processLine_tail. unfold processTail, descendOpenBlocks.
  set (p0 := resetLP st ks ls src). set (p0' := resetLP stDescending ks ls src).
  assert (Er : root p0' = root p0) by reflexivity. rewrite Er.
  destruct (bheight (root p0)) as [|f] eqn:Ef; [pose proof (bheight_pos (root p0)); lia|]. cbn [descend_loop].
  change (getAt 1 (root p0')) with (getAt 1 (root p0)).
  assert (Hcase : st = stDescendTerminated -> exists c, getAt 1 (root p0) = Some c /\ isOpen c = true /\ hasMatch (bkind c) = true).
  { intros E4. specialize (Hst E4). unfold HMk in Hst. cbn [getAt]. unfold lastBlock. change (bkids (root p0)) with ks.
    destruct (rev ks) as [|x r]; [contradiction|]. exists x. tauto. }
  assert (Same : forall b, st <> stDescendTerminated ->
            (let '(hasText, p) := (if negb (state (withCont p0 (Some O)) =? stDescendTerminated) then openNewBlocks (withCont p0 (Some O)) b else (false, withCont p0 (Some O))) in
             let p := if hasText then addLineText p else p in (bkids (root p), state p, panicked p)) =
            (let '(hasText, p) := (if negb (state (withCont p0' (Some O)) =? stDescendTerminated) then openNewBlocks (withCont p0' (Some O)) b else (false, withCont p0' (Some O))) in
             let p := if hasText then addLineText p else p in (bkids (root p), state p, panicked p))).
  { intros b N4.
    change (state (withCont p0 (Some O))) with st. change (state (withCont p0' (Some O))) with stDescending.
    replace (st =? stDescendTerminated) with false by (symmetry; apply Z.eqb_neq, N4). change (stDescending =? stDescendTerminated) with false. cbn [negb].
    unfold openNewBlocks. change (line (withCont p0 (Some O))) with (from_ src ls). change (line (withCont p0' (Some O))) with (from_ src ls).
    destruct (Z.eqb_spec (len (from_ src ls)) 0) as [E0|_]; [exfalso; apply Hl; destruct (from_ src ls); [reflexivity|unfold len in E0; cbn in E0; lia]|].
    cbn [opening_loop].
    change (containerKind (withCont p0 (Some O))) with documentKind. change (containerKind (withCont p0' (Some O))) with documentKind.
    change ((documentKind =? ParagraphKind) || negb (acceptsLines documentKind)) with true. cbv iota.
    change (withCont p0 (Some O)) with (withState (withCont p0' (Some O)) st). rewrite (tryStarts_state blockStarts _ st blockStarts_ne). reflexivity. }
  destruct (getAt 1 (root p0)) as [c|] eqn:Ec.
  - destruct (isOpen c) eqn:Eo; cbn [negb].
    + cbv zeta. destruct (hasMatch (bkind c)) eqn:Eh; cbn [negb].
      * change (withState (withCont p0 (Some 1%nat)) stDescending) with (withState (withCont p0' (Some 1%nat)) stDescending). reflexivity.
      * change (withCont (withCont p0 (Some 1%nat)) (Some O)) with (withCont p0 (Some O)). change (withCont (withCont p0' (Some 1%nat)) (Some O)) with (withCont p0' (Some O)).
        apply Same. intros E4. destruct (Hcase E4) as (c' & E1 & _ & E3). inversion E1; subst c'. congruence.
    + apply Same. intros E4. destruct (Hcase E4) as (c' & E1 & E2 & _). inversion E1; subst c'. congruence.
  - apply Same. intros E4. destruct (Hcase E4) as (c' & E1 & _). discriminate.
Qed.

(* ---- 3. a blank line with no children ---- *)
Lemma processLine_blank_nokids ls src :
  from_ src ls <> [] -> isBlankLine (from_ src ls) = true ->
  (trimLeftSpTab (from_ src ls) = [] \/ trimLeftSpTab (from_ src ls) = [10]) ->
  fst (fst (processLine stDescending [] ls src)) = [] /\ snd (processLine stDescending [] ls src) = 0.
Proof.
  intros Hne Hbl Hb. rewrite processLine_tail. unfold processTail, descendOpenBlocks.
  set (p0 := resetLP stDescending [] ls src).
  change (descend_loop (bheight (root p0)) p0 0) with (true, withCont p0 (Some O)). cbv beta iota zeta.
  change (state (withCont p0 (Some O))) with stDescending. change (stDescending =? stDescendTerminated) with false. cbn [negb].
  unfold openNewBlocks. change (line (withCont p0 (Some O))) with (from_ src ls).
  destruct (Z.eqb_spec (len (from_ src ls)) 0) as [E0|_]; [exfalso; apply Hne; destruct (from_ src ls); [reflexivity|unfold len in E0; cbn in E0; lia]|].
  cbn [opening_loop]. change (containerKind (withCont p0 (Some O))) with documentKind.
  change ((documentKind =? ParagraphKind) || negb (acceptsLines documentKind)) with true. cbv iota.
  set (q := withState (withCont p0 (Some O)) stOpening).
  assert (Eb : bytesAfterIndent q = trimLeftSpTab (from_ src ls)) by reflexivity.
  assert (Er : isRestBlank q = true) by exact Hbl.
  assert (Ek : containerKind q = documentKind) by reflexivity.
  assert (Et : tryStarts blockStarts (withCont p0 (Some O)) = (false, q)).
  { apply tryStarts_id; [|discriminate]. fold q. intros f Hin. unfold blockStarts in Hin. cbn [In] in Hin.
    destruct Hin as [<-|[<-|[<-|[<-|[<-|[<-|[<-|[<-|[]]]]]]]]].
    - unfold startBlockQuote. cbv zeta. destruct (_ <=? _); [reflexivity|]. rewrite Eb. destruct Hb as [-> | ->]; reflexivity.
    - unfold startATX. cbv zeta. destruct (_ <=? _); [reflexivity|]. rewrite Eb. destruct Hb as [-> | ->]; reflexivity.
    - unfold startFenced. cbv zeta. destruct (_ <=? _); [reflexivity|]. rewrite Eb. destruct Hb as [-> | ->]; reflexivity.
    - unfold startHTML. cbv zeta. destruct (_ <=? _); [reflexivity|]. rewrite Eb. destruct Hb as [-> | ->]; reflexivity.
    - unfold startSetext. cbv zeta. rewrite Ek. reflexivity.
    - unfold startThematic. cbv zeta. destruct (_ <=? _); [reflexivity|]. rewrite Eb. destruct Hb as [-> | ->]; reflexivity.
    - unfold startListItem. cbv zeta. destruct (_ <=? _); [reflexivity|]. rewrite Eb. destruct Hb as [-> | ->]; reflexivity.
    - unfold startIndented. rewrite Er. rewrite orb_true_r. reflexivity. }
  rewrite Et. cbv beta iota zeta. rewrite addLineText_eq. rewrite Er.
  assert (E1 : alt_blank q = q).
  { unfold alt_blank. rewrite Er. unfold updCont, withRoot, q, p0, resetLP. reflexivity. }
  rewrite E1. change (containerKind q) with documentKind.
  unfold alt_tail. change (acceptsLines documentKind) with false. cbv iota. cbn [negb]. split; reflexivity.
Qed.
Print Assumptions processLine_blank_nokids.
Print Assumptions processLine_state.
