From Coq Require Import List ZArith Lia Bool.
Import ListNotations.
Require Import Base Tables Utf8 Tree Rdr Link Collect Html Recog Inl3a Inl3b Inl3c Inl3d Driver Inl3e PEProof IFBase IFTree IFPe IFTk1 IFTk2 IFTk3 IFTk5
  ShapesBase ShapesR IFTokDef IFFrame IFTokAux IFLabel IS5b GI5 GI6.
Require Import EolCRLFDefs EolCRLFSimBytes EolCRLFSimStream EolGenCrlfRdrDefs EolGenCrlfRdrStep EolGenCrlfRdrNext EolGenCrlfRdrLink EolGenCrlfRdrLink2 EolGenCrlfRdrLink3
  EolGenCrlfRdrColl EolGenCrlfRdrColl2 EolGenCrlfRdrTlr.
Require Import EolCRLFFullNode EolCRLFFullSt EolCRLFFullPe EolCRLFFullTok1 EolCRLFFullScanLink EolCRLFFullScanLabel EolCRLFFullScanRef
  EolCRLFFullScanCode EolCRLFFullScanCodeRange EolCRLFFullHtml5 EolCRLFFullBytes EolCRLFFullBytes1 EolCRLFFullBytes2 EolCRLFFullBytes3 EolCRLFFullBytes4 EolCRInlB GI7 IFTokLoop IFTk4 IFTokFuel IS6.
Open Scope Z_scope.

(* C14 (ii), CRLF clause, inline layer: parseEndBracket (all fuels explicit: IFTk5.parseEndBracketG). *)

Section Tok2.
  Variable R : bytes.
  Variable U : list inline.
  Hypothesis R13 : ~ In 13 R.
  Hypothesis HOK : spOK R U = true.
  Hypothesis HSPI : SPI R (len R) U.
  Variables rf tf rf' tf' pf : nat.
  Hypothesis Hrf : len R + ibudget U < Z.of_nat rf.
  Hypothesis Hrf' : len (crlf R) + ibudget U < Z.of_nat rf'.
  Hypothesis Htf : len R + ibudget U < Z.of_nat tf.
  Hypothesis Htf' : len (crlf R) + ibudget U < Z.of_nat tf'.
  Hypothesis H999 : len (crlf R) + ibudget U < 999.
  Notation P := (phiP R).
  Notation R' := (crlf R).
  Notation F := (phiI R).
  Notation N := (phiN R).
  Notation stC := (stC R).
  Notation QS := (QS R).
  Notation pairE := (@pairE R).
  Notation pairP := (pairP R).
  Notation SPI := (SPI R (len R)).
  Notation RR := (RR R (len R)).
  Notation Good := IFTk2.Good.

  Lemma lenR_le : len R <= len R'.
  Proof. rewrite len_crlf. pose proof (count10_nonneg R). lia. Qed.
  Lemma P1 x : at_ R x <> 10 -> P x + 1 = P (x + 1).
  Proof. intros H. symmetry. apply P_succ_n, H. Qed.
  Lemma atR'_eqb x k : k <> 10 -> k <> 13 -> (at_ R' (P x) =? k) = (at_ R x =? k).
  Proof. intros A B. rewrite at_P. apply (m13_eqb (at_ R x) k A B). Qed.

  (* ---- the reader over the entries from the cursor on ---- *)
  Lemma SPI_unpFrom st : unp st = U -> SPI (unpFrom st).
  Proof.
    intros E. unfold unpFrom, from_. rewrite E. rewrite <- (firstn_skipn (Z.to_nat (upos st)) U) in HSPI. eapply SPI_app_r; exact HSPI.
  Qed.
  Lemma ib_unpFrom st : unp st = U -> ibudget (unpFrom st) <= ibudget U.
  Proof. intros E. unfold unpFrom, from_. rewrite E. apply ibudget_skipn. Qed.
  Lemma SPI_spW sp : SPI sp -> spW R sp = true. Proof. intros H. apply H. Qed.
  Lemma rd_new st st' p : stC st st' -> unp st = U ->
    RR (newReader R (unpFrom st) p) (newReader R' (unpFrom st') (P p)) /\
    nu R (newReader R (unpFrom st) p) <= len R + ibudget U /\ nu R' (newReader R' (unpFrom st') (P p)) <= len R' + ibudget U.
  Proof.
    intros H E. pose proof (SPI_unpFrom st E) as HS. pose proof (ib_unpFrom st E) as Hb. rewrite (cC_unpFrom R _ _ H).
    split; [apply RR_new, HS|]. split.
    - pose proof (nu_new R (unpFrom st) p (SPI_spW _ HS)). lia.
    - pose proof (nu_new R' (map F (unpFrom st)) (P p) (spW_F R _ (SPI_spW _ HS))) as Hn. rewrite ibudget_F in Hn. lia.
  Qed.
  Lemma kidsOf_F l : kidsOf (map F l) = map N (kidsOf l).
  Proof. unfold kidsOf. apply map_ofInline_F. Qed.
  Lemma ctn_sim st st' a b tk esc : stC st st' -> unp st = U ->
    collectTextNodes rf' (newReader R' (unpFrom st') (P a)) (P b) tk esc = map F (collectTextNodes rf (newReader R (unpFrom st) a) b tk esc).
  Proof.
    intros H E. destruct (rd_new st st' a H E) as (Hr & N1 & N2). apply (collectTextNodes_sim R (len R) R13); [exact Hr|lia|lia].
  Qed.

  (* ---- the bundle of invariants of the run over R inside one call ---- *)
  Definition GJ (b : Z) (st0 st : ist) : Prop := Good b st0 st /\ QS st /\ ND st /\ unp st = U /\ isrc st = R.
  Lemma GJ_SB b st0 st : GJ b st0 st -> SB st. Proof. intros ((T & _) & _). eapply TKb_SB; exact T. Qed.
  Lemma GJ_TI b st0 st : GJ b st0 st -> TI st. Proof. intros ((T & _) & _). eapply TKb_TI; exact T. Qed.
  Lemma GJ_stack_lt b st0 st : GJ b st0 st -> forall d, In d (stk st) -> 0 < d_node d < b.
  Proof. intros (((_ & _ & S1 & _) & _) & _). exact S1. Qed.
  Lemma GJ_addText b st0 st s e : GJ b st0 st -> GJ b st0 (addText st s e).
  Proof.
    intros HG. pose proof (GJ_SB _ _ _ HG) as HB. destruct HG as (G & Q & D & E1 & E2).
    split; [apply G_addText, G|]. split; [apply QS_addText; assumption|]. split; [apply ND_addText, D|].
    destruct (fr_addText st s e) as [A B]. split; congruence.
  Qed.
  Lemma GJ_setStk b st0 st v : GJ b st0 st -> Subl v (stk st) -> GJ b st0 (setStk st v).
  Proof.
    intros (G & Q & D & E1 & E2) HS. split; [apply G_setStk; [exact G|apply Subl_map, HS]|]. split; [apply QS_setStk_Subl; assumption|].
    split; [apply ND_setStk; assumption|]. split; assumption.
  Qed.
  Lemma GJ_wrap b st0 st kind o eid : GJ b st0 st -> 0 < o -> GJ b st0 (fst (wrap st kind o eid)).
  Proof.
    intros HG Ho. pose proof (GJ_SB _ _ _ HG) as HB. destruct HG as (G & Q & D & E1 & E2).
    split; [apply G_wrap; assumption|]. split; [apply QS_wrap; assumption|]. split; [exact D|]. split; assumption.
  Qed.
  Lemma GJ_updSpan b st0 st id a c : GJ b st0 st -> b <= id -> GJ b st0 (updN st id (fun n => setSpan n a c)).
  Proof.
    intros HG Hb. pose proof (GJ_stack_lt _ _ _ HG) as HL. destruct HG as (G & Q & D & E1 & E2).
    split; [apply G_updSpan; assumption|]. split; [apply QS_updSpan; [exact Q|intros d Hd; specialize (HL d Hd); lia]|]. split; [exact D|]. split; assumption.
  Qed.
  Lemma GJ_updSpanRef b st0 st id a c lab : GJ b st0 st -> b <= id -> GJ b st0 (updN st id (fun n => setRef (setSpan n a c) lab)).
  Proof.
    intros HG Hb. pose proof (GJ_stack_lt _ _ _ HG) as HL. destruct HG as (G & Q & D & E1 & E2).
    split; [apply G_updSpanRef; assumption|]. split; [apply QS_updSpanRef; [exact Q|intros d Hd; specialize (HL d Hd); lia]|]. split; [exact D|]. split; assumption.
  Qed.
  Lemma GJ_appendKid b st0 st id K s e r l : GJ b st0 st -> b <= id -> GJ b st0 (appendKid st id (PN 0 K s e 0 r (kidsOf l))).
  Proof.
    intros HG Hb. pose proof (GJ_stack_lt _ _ _ HG) as HL. pose proof (GJ_SB _ _ _ HG) as HB. destruct HG as (G & Q & D & E1 & E2).
    split; [apply G_appendKid; [exact G|apply zkeys_kidsOf]|]. split.
    - apply QS_appendKid; [exact Q|exact HB|intros d Hd; specialize (HL d Hd); lia|]. apply faN_eq. split; [unfold np; cbn [pid]; lia|apply faL_kidsOf].
    - split; [exact D|]. split; assumption.
  Qed.
  Lemma GJ_appendKid_nil b st0 st id K s e r : GJ b st0 st -> b <= id -> GJ b st0 (appendKid st id (PN 0 K s e 0 r [])).
  Proof. intros HG Hb. exact (GJ_appendKid b st0 st id K s e r [] HG Hb). Qed.
  Lemma GJ_advanceTo b st0 st p : GJ b st0 st -> GJ b st0 (advanceTo st p).
  Proof.
    intros (G & Q & D & E1 & E2). split; [apply G_advanceTo, G|]. destruct (fr_advanceTo st p) as [A B].
    assert (Er : rk (advanceTo st p) = rk st) by (unfold advanceTo; cbv zeta; destruct (0 <=? _); reflexivity).
    assert (Es : stk (advanceTo st p) = stk st) by (unfold advanceTo; cbv zeta; destruct (0 <=? _); reflexivity).
    split; [eapply QS_same; eassumption|]. split; [eapply ND_same; eassumption|]. split; congruence.
  Qed.
  Lemma stC_appendKid st st' id k : stC st st' -> stC (appendKid st id k) (appendKid st' id (N k)).
  Proof.
    intros H. unfold appendKid. apply stC_updN_all; [exact H|]. intros n. destruct n as [i0 k0 s0 e0 ind0 r0 ks0].
    cbn [phiN setKids pkids]. rewrite map_app. reflexivity.
  Qed.
  Lemma part_sim st st' lid K sp tx : stC st st' -> unp st = U ->
    stC (if spanValid sp then appendKid st lid (PN 0 K (fst sp) (snd sp) 0 []
           (if spanValid tx then kidsOf (collectTextNodes rf (newReader R (unpFrom st) (fst tx)) (snd tx) TextKind true) else [])) else st)
        (if spanValid (mapS R sp) then appendKid st' lid (PN 0 K (fst (mapS R sp)) (snd (mapS R sp)) 0 []
           (if spanValid (mapS R tx) then kidsOf (collectTextNodes rf' (newReader R' (unpFrom st') (fst (mapS R tx))) (snd (mapS R tx)) TextKind true) else [])) else st').
  Proof.
    intros H E. rewrite !spanValid_mapS. destruct (spanValid sp); [|exact H]. unfold mapS. cbn [fst snd].
    replace (if spanValid tx then kidsOf (collectTextNodes rf' (newReader R' (unpFrom st') (P (fst tx))) (P (snd tx)) TextKind true) else [])
      with (map N (if spanValid tx then kidsOf (collectTextNodes rf (newReader R (unpFrom st) (fst tx)) (snd tx) TextKind true) else []))
      by (destruct (spanValid tx); [rewrite (ctn_sim st st' _ _ _ _ H E), kidsOf_F|]; reflexivity).
    apply (stC_appendKid st st' lid (PN 0 K (fst sp) (snd sp) 0 [] _) H).
  Qed.
  Lemma part_GJ b st0 st lid K sp tx : GJ b st0 st -> b <= lid ->
    GJ b st0 (if spanValid sp then appendKid st lid (PN 0 K (fst sp) (snd sp) 0 []
           (if spanValid tx then kidsOf (collectTextNodes rf (newReader R (unpFrom st) (fst tx)) (snd tx) TextKind true) else [])) else st).
  Proof.
    intros HG Hb. destruct (spanValid sp); [|exact HG]. destruct (spanValid tx); [apply GJ_appendKid; assumption|apply GJ_appendKid_nil; assumption].
  Qed.
  Lemma GJ_unp b st0 st : GJ b st0 st -> unp st = U. Proof. intros (_ & _ & _ & E & _). exact E. Qed.

  Lemma spanEnd_le st : unp st = U -> upos st < len U -> 0 <= upos st -> spanEnd st <= len R /\ spanEnd st <= endOf U.
  Proof.
    intros E Hu H0. rewrite spanEnd_nth by (rewrite E; exact Hu). rewrite E.
    assert (Hin : In (nth (Z.to_nat (upos st)) U (mkI 0 0 0)) U) by (apply nth_In; unfold len in Hu; lia).
    split; [|apply (in_le_last R); [apply HSPI|exact Hin]].
    destruct (spW_in R U _ (SPI_spW _ HSPI) Hin) as (_ & _ & A). exact A.
  Qed.
  Lemma Pm1 x : at_ R (x - 1) <> 10 -> P x - 1 = P (x - 1).
  Proof. intros H. pose proof (P1 (x - 1) H) as E. replace (x - 1 + 1) with x in E by lia. lia. Qed.
  Lemma mapS_null : mapS R nullSpan = nullSpan.
  Proof. unfold mapS, nullSpan. cbn [fst snd]. rewrite phiP_neg by lia. reflexivity. Qed.

  (* the common end: finishLink and the returned position *)
  Lemma finish_sim b st0 sx sx' kind odi e : GJ b st0 sx -> stC sx sx' -> 0 <= odi ->
    pairP (finishLinkG pf sx kind odi, e) (finishLinkG pf sx' kind odi, P e) /\
    QS (fst (finishLinkG pf sx kind odi, e)) /\ ND (fst (finishLinkG pf sx kind odi, e)).
  Proof.
    intros HG H Ho. pose proof (GJ_TI _ _ _ HG) as HT. destruct HG as (_ & Q & D & _).
    destruct (finishLinkG_sim R pf sx sx' kind odi H HT Q D Ho) as (A & B & C). cbn [fst]. split; [apply pairP_mk, A|split; assumption].
  Qed.

  Definition map5 (t : (Z * Z) * (Z * Z) * (Z * Z) * (Z * Z) * (Z * Z)) :=
    let '(i, d, dt, t1, tt1) := t in (mapS R i, mapS R d, mapS R dt, mapS R t1, mapS R tt1).

  Lemma parseEndBracketG_sim st st' start : stC st st' -> unp st = U -> TKb (nid st) st -> QS st -> ND st ->
    0 <= start -> start < spanEnd st -> 0 <= upos st < len U -> at_ R start = 93 ->
    pairP (parseEndBracketG rf tf pf st start) (parseEndBracketG rf' tf' pf st' (P start)) /\
    QS (fst (parseEndBracketG rf tf pf st start)) /\ ND (fst (parseEndBracketG rf tf pf st start)).
  Proof.
    intros H EU HT HQ HN Hs0 Hlim Hup H93.
    assert (ER : isrc st = R) by apply H.
    destruct (spanEnd_le st EU ltac:(lia) ltac:(lia)) as [Hse1 Hse2].
    assert (Hp1 : P start + 1 = P (start + 1)) by (apply P1; rewrite H93; discriminate).
    assert (HG0 : GJ (nid st) st st) by (split; [apply Good_refl, HT|]; split; [exact HQ|]; split; [exact HN|]; split; assumption).
    assert (HokF : spOK R (unpFrom st) = true) by (unfold unpFrom; rewrite EU; apply spOK_from, HOK).
    pose proof (ib_unpFrom st EU) as Hib. pose proof (SPI_unpFrom st EU) as HSF.
    unfold parseEndBracketG. cbv zeta. rewrite ER, (stC_src' R _ _ H).
    (* lookForLinkOrImage *)
    pose proof (lookForLinkOrImage_sim R st st' H) as [Eo H1].
    pose proof (lfl_spec (S (length (stk st))) st (len (stk st) - 1) ltac:(lia)) as Hsp.
    unfold lookForLinkOrImage in *. destruct (lfl (S (length (stk st))) st (len (stk st) - 1)) as [s1 odi].
    destruct (lfl (S (length (stk st'))) st' (len (stk st') - 1)) as [s1' odi']. cbn [fst snd] in Eo, H1, Hsp. subst odi'.
    destruct (Z.ltb_spec odi 0) as [Hneg|Hodi].
    { rewrite Hp1. split; [apply pairP_mk, stC_addText, H1|]. cbn [fst].
      assert (HJ1 : QS s1 /\ ND s1 /\ SB s1).
      { destruct Hsp as [(_ & [E|(j & Hj & E)])|(Hr & _)]; [| |lia]; rewrite E.
        - split; [exact HQ|]. split; [exact HN|eapply TKb_SB; exact HT].
        - destruct (GJ_setStk _ _ _ (delStack (stk st) j (j + 1)) HG0 ltac:(apply Subl_delStack; lia)) as (G & Q & D & _).
          split; [exact Q|]. split; [exact D|]. destruct G as [T _]. eapply TKb_SB; exact T. }
      destruct HJ1 as (Q1 & D1 & B1). split; [apply QS_addText; assumption|apply ND_addText, D1]. }
    destruct Hsp as [(E & _)|(Hr & E1 & _)]; [lia|]. subst s1.
    rewrite (stC_stk R _ _ H1), (cC_nodeOf R _ _ _ H1), (cC_spanEnd R _ _ H1), (cC_unpFrom R _ _ H1), (stC_unp R _ _ H1).
    set (od := nthD (stk st) odi). set (kind := if d_typ od =? tImage then ImageKind else LinkKind).
    set (bracket := nodeOf st (d_node od)). rewrite ps_N, pe_N.
    assert (Hod : 0 < d_node od < nid st) by (destruct HT as (_ & _ & S1 & _); apply (S1 od), nthD_In; exact Hr).
    assert (Hfail : pairP (setStk (addText st start (start + 1)) (delStack (stk st) odi (odi + 1)), start + 1)
                          (setStk (addText s1' (P start) (P (start + 1))) (delStack (stk st) odi (odi + 1)), P (start + 1)) /\
                    QS (fst (setStk (addText st start (start + 1)) (delStack (stk st) odi (odi + 1)), start + 1)) /\
                    ND (fst (setStk (addText st start (start + 1)) (delStack (stk st) odi (odi + 1)), start + 1))).
    { split; [apply pairP_mk, stC_setStk, stC_addText, H1|]. cbn [fst].
      assert (Es : stk (addText st start (start + 1)) = stk st) by apply stk_addNode'.
      destruct (GJ_setStk _ _ _ (delStack (stk st) odi (odi + 1)) (GJ_addText _ _ _ start (start + 1) HG0) ltac:(rewrite Es; apply Subl_delStack; lia)) as (_ & Q & D & _).
      split; assumption. }
    (* the wrapped link node, common to all successful forms *)
    pose proof (cC_wrap R st s1' kind (d_node od) None H1) as [El H2].
    pose proof (GJ_wrap _ _ _ kind (d_node od) None HG0 ltac:(lia)) as G2.
    pose proof (snd_wrap st kind (d_node od) None) as Elid.
    destruct (wrap st kind (d_node od) None) as [s2 lid]. destruct (wrap s1' kind (d_node od) None) as [s2' lid']. cbn [fst snd] in El, H2, G2, Elid. subst lid' lid.
    (* the position tests *)
    rewrite Hp1, phiP_ltb, (atR'_eqb (start + 1) 40) by discriminate. rewrite (atR'_eqb (start + 1) 91) by discriminate.
    assert (Hc2 : ((P start + 2 <? P (spanEnd st)) && (at_ R (start + 1) =? 91) && (at_ R' (P start + 2) =? 93)) =
                  ((start + 2 <? spanEnd st) && (at_ R (start + 1) =? 91) && (at_ R (start + 2) =? 93))).
    { destruct (Z.eqb_spec (at_ R (start + 1)) 91) as [E91|N91]; [|rewrite !andb_false_r; reflexivity].
      assert (Hp2 : P start + 2 = P (start + 2)) by (replace (start + 2) with (start + 1 + 1) by lia; rewrite <- P1 by (rewrite E91; discriminate); lia).
      rewrite Hp2, phiP_ltb, (atR'_eqb (start + 2) 93) by discriminate. reflexivity. }
    rewrite Hc2.
    (* the inline form *)
    match goal with |- pairP (match ?X with _ => _ end) (match ?X' with _ => _ end) /\ _ =>
      assert (EX : X' = option_map map5 X);
      [|assert (HX : forall i d dt t1 tt1, X = Some (i, d, dt, t1, tt1) -> spanValid i = true /\ parseInlineLink rf st (start + 1) = (i, (d, dt), (t1, tt1)));
        [|rewrite EX; destruct X as [[[[[ispan dspan] dtext] tspan] ttext]|]]] end.
    { destruct ((start + 1 <? spanEnd st) && (at_ R (start + 1) =? 40)) eqn:Einl; [|reflexivity].
      apply andb_true_iff in Einl. destruct Einl as [_ E40]. apply Z.eqb_eq in E40.
      rewrite (parseInlineLink_sim R (len R) R13 rf rf' st s1' (start + 1) ER (stC_src' R _ _ H1) (cC_unpFrom R _ _ H1) HSF ltac:(rewrite E40; discriminate) ltac:(lia) ltac:(lia)).
      destruct (parseInlineLink rf st (start + 1)) as [[i0 [d0 dt0]] [t0 tt0]]. rewrite spanValid_mapS. destruct (spanValid i0); reflexivity. }
    { intros i d dt t1 tt1 E. destruct ((start + 1 <? spanEnd st) && (at_ R (start + 1) =? 40)); [|discriminate E].
      destruct (parseInlineLink rf st (start + 1)) as [[i0 [d0 dt0]] [t0 tt0]]. destruct (spanValid i0) eqn:Ev; [|discriminate E].
      injection E as -> -> -> -> ->. split; [exact Ev|reflexivity]. }
    - (* inline link *)
      cbn [option_map map5]. destruct (HX _ _ _ _ _ eq_refl) as [Evi Epi]. clear HX EX.
      destruct (parseInlineLink_end rf st (start + 1) ispan (dspan, dtext) (tspan, ttext) ltac:(rewrite ER; exact HokF) Epi Evi) as (_ & E41 & Hge). rewrite ER in E41.
      change (snd (mapS R ispan)) with (P (snd ispan)).
      pose proof (stC_updN_all R s2 s2' (nid st) (fun n => setSpan n (ps bracket) (snd ispan)) (fun n => setSpan n (P (ps bracket)) (P (snd ispan))) H2 ltac:(intros n; apply setSpan_N)) as H3.
      pose proof (GJ_updSpan _ _ _ (nid st) (ps bracket) (snd ispan) G2 ltac:(lia)) as G3.
      set (s3 := updN s2 (nid st) (fun n => setSpan n (ps bracket) (snd ispan))) in *.
      set (s3' := updN s2' (nid st) (fun n => setSpan n (P (ps bracket)) (P (snd ispan)))) in *. clearbody s3 s3'.
      pose proof (part_sim s3 s3' (nid st) LinkDestinationKind dspan dtext H3 (GJ_unp _ _ _ G3)) as H4.
      pose proof (part_GJ _ _ _ (nid st) LinkDestinationKind dspan dtext G3 ltac:(lia)) as G4.
      match type of H4 with stC ?A ?B => set (s4 := A) in *; set (s4' := B) in * end. clearbody s4 s4'.
      pose proof (part_sim s4 s4' (nid st) LinkTitleKind tspan ttext H4 (GJ_unp _ _ _ G4)) as H5.
      pose proof (part_GJ _ _ _ (nid st) LinkTitleKind tspan ttext G4 ltac:(lia)) as G5.
      match type of H5 with stC ?A ?B => set (s5 := A) in *; set (s5' := B) in * end. clearbody s5 s5'.
      rewrite (Pm1 (snd ispan)) by (rewrite E41; discriminate).
      apply (finish_sim _ _ _ _ kind odi (snd ispan) (GJ_advanceTo _ _ _ (snd ispan - 1) G5) (stC_advanceTo R _ _ (snd ispan - 1) H5) Hodi).
    - (* reference forms *)
      cbn [option_map]. clear HX EX.
      set (cnd := negb ((start + 2 <? spanEnd st) && (at_ R (start + 1) =? 91) && (at_ R (start + 2) =? 93)) && (start + 1 <? spanEnd st) && (at_ R (start + 1) =? 91)).
      destruct (rd_new st s1' (start + 1) H1 EU) as (Hr0 & Nu1 & Nu2). rewrite (cC_unpFrom R _ _ H1) in Hr0, Nu2.
      pose proof (parseLinkLabel_sim R (len R) R13 rf rf' _ _ Hr0 ltac:(lia) ltac:(lia) ltac:(pose proof lenR_le; lia) ltac:(lia)) as (L1 & L2 & _).
      assert (HLe : forall a b r0, parseLinkLabel rf (newReader R (unpFrom st) (start + 1)) = (a, b, r0) -> spanValid a = true ->
                    at_ R (snd a - 1) = 93 /\ 0 <= fst b <= len R /\ snd b <= len R).
      { intros a b r0 E Hv. destruct (parseLinkLabel_end R rf (newReader R (unpFrom st) (start + 1)) a b r0 ltac:(split; [reflexivity|exact HokF]) E Hv) as (_ & A & _).
        pose proof (label_inner R rf (newReader R (unpFrom st) (start + 1)) (PL_new R (unpFrom st) (start + 1) (SPI_spW _ HSF))) as Hin. rewrite E in Hin. cbn [fst snd] in Hin. split; [exact A|apply Hin, Hv]. }
      destruct (parseLinkLabel rf (newReader R (unpFrom st) (start + 1))) as [[la lb] lr]. destruct (parseLinkLabel rf' (newReader R' (map F (unpFrom st)) (P (start + 1)))) as [[la' lb'] lr'].
      cbn [fst snd] in L1, L2. subst la' lb'. specialize (HLe la lb lr eq_refl).
      assert (EL : (if cnd then (mapS R la, mapS R lb) else (nullSpan, nullSpan)) = (mapS R (fst (if cnd then (la, lb) else (nullSpan, nullSpan))), mapS R (snd (if cnd then (la, lb) else (nullSpan, nullSpan)))))
        by (destruct cnd; cbn [fst snd]; [reflexivity|rewrite mapS_null; reflexivity]).
      rewrite EL.
      assert (HLv : spanValid (fst (if cnd then (la, lb) else (nullSpan, nullSpan))) = true ->
                    at_ R (snd (fst (if cnd then (la, lb) else (nullSpan, nullSpan))) - 1) = 93 /\
                    0 <= fst (snd (if cnd then (la, lb) else (nullSpan, nullSpan))) <= len R /\ snd (snd (if cnd then (la, lb) else (nullSpan, nullSpan))) <= len R).
      { destruct cnd; cbn [fst snd]; [exact HLe|discriminate]. }
      destruct (if cnd then (la, lb) else (nullSpan, nullSpan)) as [lspan linner]. cbn [fst snd] in HLv |- *. clear EL HLe.
      (* the label read from the entries *)
      rewrite EU, (tlrs_sim R (len R) R13 rf rf' U (pe bracket) start HSPI ltac:(right; lia) Hrf Hrf'), !(cC_matchRef R _ _ _ H1).
      set (label := transformLinkReferenceSpan rf R U (pe bracket) start).
      destruct ((start + 2 <? spanEnd st) && (at_ R (start + 1) =? 91) && (at_ R (start + 2) =? 93)) eqn:Ecol.
      + (* collapsed *)
        fold label. destruct (negb (matchRef st label)); [exact Hfail|].
        apply andb_true_iff in Ecol. destruct Ecol as [Ecol E93]. apply andb_true_iff in Ecol. destruct Ecol as [_ E91]. apply Z.eqb_eq in E91, E93.
        replace (P start + 3) with (P (start + 3)).
        2:{ replace (start + 3) with (start + 2 + 1) by lia. rewrite <- (P1 (start + 2)) by (rewrite E93; discriminate).
            replace (start + 2) with (start + 1 + 1) by lia. rewrite <- (P1 (start + 1)) by (rewrite E91; discriminate). lia. }
        apply (finish_sim _ _ _ _ kind odi (start + 3) (GJ_updSpanRef _ _ _ (nid st) (ps bracket) (start + 3) label G2 ltac:(lia))); [|exact Hodi].
        apply stC_updN_all; [exact H2|]. intros n. rewrite setSpan_N, setRef_N. reflexivity.
      + rewrite spanValid_mapS. destruct (spanValid lspan) eqn:Evl.
        * (* full reference *)
          destruct (HLv eq_refl) as (E93 & Hl1 & Hl2). unfold mapS. cbn [fst snd].
          assert (Ect : collectTextNodes rf' (newReader R' (map F (unpFrom st)) (P (fst linner))) (P (snd linner)) TextKind false =
                        map F (collectTextNodes rf (newReader R (unpFrom st) (fst linner)) (snd linner) TextKind false))
            by (rewrite <- (cC_unpFrom R _ _ H1); apply ctn_sim; assumption).
          rewrite Ect.
          destruct (collected_nodeOK R (len R) rf (unpFrom st) (fst linner) (snd linner) HSF Hl1 Hl2 ltac:(lia)) as (K1 & K2 & K3). cbv zeta in K1, K2, K3.
          set (lkids := collectTextNodes rf (newReader R (unpFrom st) (fst linner)) (snd linner) TextKind false) in *.
          rewrite (transformLinkReference_sim R R13 tf tf' lkids K1 K3 ltac:(lia) ltac:(lia)).
          set (lref := transformLinkReference tf R lkids).
          destruct (negb (matchRef st lref)); [exact Hfail|].
          rewrite kidsOf_F.
          change (PN 0 LinkLabelKind (P (fst lspan)) (P (snd lspan)) 0 lref (map N (kidsOf lkids))) with (N (PN 0 LinkLabelKind (fst lspan) (snd lspan) 0 lref (kidsOf lkids))).
          rewrite (Pm1 (snd lspan)) by (rewrite E93; discriminate).
          apply (finish_sim _ _ _ _ kind odi (snd lspan)
                   (GJ_advanceTo _ _ _ (snd lspan - 1) (GJ_updSpan _ _ _ (nid st) (ps bracket) (snd lspan) (GJ_appendKid _ _ _ (nid st) LinkLabelKind (fst lspan) (snd lspan) lref lkids G2 ltac:(lia)) ltac:(lia)))); [|exact Hodi].
          apply stC_advanceTo. apply stC_updN_all; [apply stC_appendKid, H2|]. intros n. apply setSpan_N.
        * (* shortcut *)
          fold label. destruct (negb (matchRef st label)); [exact Hfail|].
          apply (finish_sim _ _ _ _ kind odi (start + 1) (GJ_updSpanRef _ _ _ (nid st) (ps bracket) (start + 1) label G2 ltac:(lia))); [|exact Hodi].
          apply stC_updN_all; [exact H2|]. intros n. rewrite setSpan_N, setRef_N. reflexivity.
  Qed.
  (* ================================================================ parseBackslash, parseDelimiterRun, collectCodeSpan *)
  Lemma lenR_fuel : len R <= Z.of_nat (length R). Proof. unfold len. lia. Qed.
  Lemma lenR'_fuel : len R' <= Z.of_nat (length R'). Proof. unfold len. lia. Qed.
  Lemma atR_n13 x : (at_ R x =? 13) = false. Proof. apply Z.eqb_neq, (at_not13 R R13). Qed.
  Lemma QS_setIgn st v : QS st -> QS (setIgn st v). Proof. intros H. eapply QS_same; [exact H|reflexivity|reflexivity]. Qed.
  Lemma ND_setIgn st v : ND st -> ND (setIgn st v). Proof. intros H. eapply ND_same; [exact H|reflexivity]. Qed.
  Lemma SB_addText st s e : SB st -> SB (addText st s e).
  Proof. intros H d Hd. unfold addText in *. rewrite stk_addNode' in Hd. specialize (H d Hd). pose proof (nid_addNode_le st TextKind s e []). lia. Qed.

  Lemma parseBackslash_sim st st' start : stC st st' -> unp st = U -> QS st -> ND st -> SB st ->
    0 <= start -> start < spanEnd st -> 0 <= upos st < len U -> at_ R start = 92 ->
    pairP (parseBackslash st start) (parseBackslash st' (P start)) /\ QS (fst (parseBackslash st start)) /\ ND (fst (parseBackslash st start)).
  Proof.
    intros H EU HQ HN HB Hs0 Hlim Hup H92. assert (ER : isrc st = R) by apply H.
    destruct (spanEnd_le st EU ltac:(lia) ltac:(lia)) as [Hse1 _].
    assert (Hp1 : P start + 1 = P (start + 1)) by (apply P1; rewrite H92; discriminate).
    unfold parseBackslash. cbv zeta. rewrite ER, (stC_src' R _ _ H), (cC_spanEnd R _ _ H), (cC_isLastSpan R _ _ H), Hp1, P_leb, at_m13.
    set (a := at_ R (start + 1)).
    assert (Ea : (spanEnd st <=? start + 1) || (m13 a =? 10) || (m13 a =? 13) = (spanEnd st <=? start + 1) || (a =? 10) || (a =? 13)).
    { rewrite <- !orb_assoc. f_equal. unfold a. rewrite (m13_10 _ (at_not13 R R13 _)), (m13_13 _ (at_not13 R R13 _)), atR_n13, orb_false_r. reflexivity. }
    rewrite Ea, m13_punct. destruct ((spanEnd st <=? start + 1) || (a =? 10) || (a =? 13)) eqn:Ec.
    - destruct (isLastSpan st).
      + split; [apply pairP_mk, stC_addText, H|]. cbn [fst]. split; [apply QS_addText; assumption|apply ND_addText, HN].
      + rewrite (eolRun_crlf R (length R) (length R') (start + 1) (spanEnd st) R13 ltac:(lia) Hse1 lenR_fuel lenR'_fuel).
        set (e := eolRun (length R) R (start + 1) (spanEnd st)).
        destruct (cC_addNode R _ _ HardLineBreakKind start e [] (stC_setIgn R _ _ true H)) as [_ H1]. cbn [map] in H1.
        split; [split; [reflexivity|exact H1]|]. cbn [fst]. split; [apply QS_addNode; [apply QS_setIgn, HQ|exact HB|exact I]|apply ND_addNode, ND_setIgn, HN].
    - destruct (isASCIIPunctuation a) eqn:Ep.
      + assert (Hp2 : P start + 2 = P (start + 2)).
        { replace (start + 2) with (start + 1 + 1) by lia. rewrite <- (P1 (start + 1)) by (fold a; intros E; rewrite E in Ep; discriminate Ep). lia. }
        rewrite Hp2. split; [apply pairP_mk, stC_addText, H|]. cbn [fst]. split; [apply QS_addText; assumption|apply ND_addText, HN].
      + split; [apply pairP_mk, stC_addText, H|]. cbn [fst]. split; [apply QS_addText; assumption|apply ND_addText, HN].
  Qed.

  Lemma NoDup_snoc {A} (l : list A) x : NoDup l -> ~ In x l -> NoDup (l ++ [x]).
  Proof.
    induction l as [|y l IH]; intros Hn Hx; [constructor; [intros []|constructor]|]. inversion Hn as [|a b Hy Hl]; subst. cbn [app]. constructor.
    - intros Hi. apply in_app_or in Hi. destruct Hi as [Hi|[E|[]]]; [contradiction|]. apply Hx. left. symmetry. exact E.
    - apply IH; [exact Hl|]. intros Hi. apply Hx. right. exact Hi.
  Qed.
  Lemma ND_push st st1 d : ND st -> SB st -> stk st1 = stk st -> d_node d = nid st -> ND (setStk st1 (stk st1 ++ [d])).
  Proof.
    intros HN HB Es Ed. unfold ND. change (stk (setStk st1 ?v)) with v. rewrite Es, map_app. cbn [map]. apply NoDup_snoc; [exact HN|].
    intros Hi. apply in_map_iff in Hi. destruct Hi as (d0 & E & Hd0). specialize (HB d0 Hd0). lia.
  Qed.
  Lemma rk_lt st : (forall h, In h (Hs st) -> key h < nid st) -> faL (fun n => pid n < nid st) (rk st).
  Proof. intros HB. eapply faL_impl; [|apply rk_inHdr]. intros n Hn. apply (HB _ Hn). Qed.
  Lemma QS_push st k s e d : QS st -> SB st -> (forall h, In h (Hs st) -> key h < nid st) -> spanLen s e <> 0 -> d_node d = nid st ->
    (emphD d = true -> fpN R (PN (nid st) k s e 0 [] [])) ->
    QS (setStk (fst (addNode st k s e [])) (stk (fst (addNode st k s e [])) ++ [d])) /\ snd (addNode st k s e []) = nid st.
  Proof.
    intros HQ HB HF Hne Ed Hfp. unfold addNode. destruct (Z.eqb_spec (spanLen s e) 0) as [E|_]; [contradiction|]. cbv zeta. cbn [fst snd]. split; [|reflexivity].
    unfold EolCRLFFullPe.QS. change (stk (setStk ?x ?v)) with v. change (rk (setStk (bumpId (setRk st ?v)) ?w)) with v. change (stk (bumpId (setRk st ?v))) with (stk st).
    apply faL_app. split.
    - eapply faL_impl; [|apply (faL_and _ _ _ HQ (rk_lt st HF))]. cbv beta. intros n [A B] d0 Hd0 He Hp. apply in_app_or in Hd0. destruct Hd0 as [Hd0|[<-|[]]]; [apply (A d0 Hd0 He Hp)|lia].
    - split; [|exact I]. apply faN_eq. split; [|exact I]. intros d0 Hd0 He Hp. cbn [pid] in Hp. apply in_app_or in Hd0. destruct Hd0 as [Hd0|[<-|[]]]; [specialize (HB d0 Hd0); lia|apply Hfp, He].
  Qed.

  Lemma parseDelimiterRun_sim st st' start : stC st st' -> unp st = U -> QS st -> ND st -> SB st -> (forall h, In h (Hs st) -> key h < nid st) ->
    0 <= start -> start < spanEnd st -> 0 <= upos st < len U -> at_ R start = 42 \/ at_ R start = 95 ->
    pairP (parseDelimiterRun st start) (parseDelimiterRun st' (P start)) /\ QS (fst (parseDelimiterRun st start)) /\ ND (fst (parseDelimiterRun st start)).
  Proof.
    intros H EU HQ HN HB HF Hs0 Hlim Hup Hc. assert (ER : isrc st = R) by apply H.
    destruct (spanEnd_le st EU ltac:(lia) ltac:(lia)) as [Hse1 _].
    assert (Hc10 : at_ R start <> 10 /\ at_ R start <> 13) by (destruct Hc as [-> | ->]; split; discriminate). destruct Hc10 as [C10 C13].
    assert (Hp1 : P start + 1 = P (start + 1)) by (apply P1, C10).
    unfold parseDelimiterRun. cbv zeta. rewrite ER, (stC_src' R _ _ H), (cC_spanEnd R _ _ H), Hp1, at_m13, (m13_n _ C10).
    destruct (runEnd_crlf R (length R) (length R') (start + 1) (spanEnd st) (at_ R start) R13 C10 C13 ltac:(lia) Hse1 lenR_fuel lenR'_fuel) as [Er Hall].
    rewrite Er. set (e := runEnd (length R) R (start + 1) (spanEnd st) (at_ R start)) in *.
    pose proof (runEnd_ge (length R) R (start + 1) (spanEnd st) (at_ R start)) as Hge. fold e in Hge.
    rewrite (emphasisFlags_crlf R start e R13 Hs0 ltac:(lia)).
    assert (Hflat : noLF R start e).
    { intros k Hk. destruct (Z.eq_dec k start) as [->|Nk]; [exact C10|]. rewrite (Hall k ltac:(lia)). exact C10. }
    assert (Esl : spanLen (P start) (P e) = spanLen start e).
    { pose proof (phiP_ge R start Hs0). pose proof (phiP_lt R start e ltac:(lia)). rewrite !spanLen_eq by lia. rewrite (P_flat R start e start e Hflat); lia. }
    rewrite Esl. assert (Hsl : spanLen start e <> 0) by (rewrite spanLen_eq by lia; lia).
    set (typ := if at_ R start =? 42 then tStar else tUnder).
    destruct (cC_addNode R st st' TextKind start e [] H) as [Eid H1]. cbn [map] in Eid, H1.
    set (dn := fun id : Z => {| d_typ := typ; d_flags := fActive + emphasisFlags R start e; d_n := spanLen start e; d_node := id |}).
    destruct (QS_push st TextKind start e (dn (nid st)) HQ HB HF Hsl eq_refl) as [HQ1 Eid1].
    { intros _. split; [cbn [ps]; exact Hs0|]. split; [cbn [ps pe]; lia|exact Hflat]. }
    pose proof (ND_push st (fst (addNode st TextKind start e [])) (dn (nid st)) HN HB (stk_addNode' _ _ _ _ _) eq_refl) as HN1.
    destruct (addNode st TextKind start e []) as [s1 id]. destruct (addNode st' TextKind (P start) (P e) []) as [s1' id']. cbn [fst snd] in *. subst id' id.
    rewrite (stC_stk R _ _ H1). fold (dn (nid st)).
    split; [apply pairP_mk, stC_setStk, H1|]. split; [exact HQ1|exact HN1].
  Qed.
  (* ---- collectCodeSpan ---- *)
  Lemma unpAt_rng i : 0 <= istart (nth (Z.to_nat i) U (mkI 0 0 0)) /\ iend (nth (Z.to_nat i) U (mkI 0 0 0)) <= len R.
  Proof.
    destruct (Nat.lt_ge_cases (Z.to_nat i) (length U)) as [L|L].
    - destruct (spW_in R U _ (SPI_spW _ HSPI) (nth_In U (mkI 0 0 0) L)) as (A & B & C). lia.
    - rewrite nth_overflow by exact L. cbn [mkI istart iend]. pose proof (len_nonneg R). lia.
  Qed.
  Definition goodK (acc : list pn) : Prop := Forall leaf0 acc /\ (forall n, In n acc -> 0 <= ps n).
  Lemma goodK_nil : goodK []. Proof. split; [constructor|intros n []]. Qed.
  Lemma goodK_add src acc s e : goodK acc -> 0 <= s -> goodK (cs_addSpan src acc s e).
  Proof. intros [A B] Hs. split; [apply cs_addSpan_leaf0, A|apply cs_addSpan_ps; assumption]. Qed.
  Lemma ccs_mid_good src unpAt : (forall i, 0 <= istart (unpAt i)) -> forall k acc up, goodK acc -> goodK (fst (ccs_mid src unpAt k acc up)).
  Proof.
    intros Hu. induction k as [|k IH]; intros acc up Ha; [exact Ha|]. cbn [ccs_mid]. cbv zeta. apply IH.
    destruct (_ =? UnparsedKind); [apply goodK_add; [exact Ha|apply Hu]|exact Ha].
  Qed.
  Lemma ccs_mid_ext src (f g : Z -> inline) : (forall i, f i = g i) -> forall k acc up, ccs_mid src f k acc up = ccs_mid src g k acc up.
  Proof. intros E. induction k as [|k IH]; intros acc up; [reflexivity|]. cbn [ccs_mid]. cbv zeta. rewrite E. apply IH. Qed.
  Lemma ccs_mid_sim unpAt : (forall i, 0 <= istart (unpAt i) /\ iend (unpAt i) <= len R) -> forall k acc up,
    ccs_mid R' (fun i => F (unpAt i)) k (map N acc) up = (map N (fst (ccs_mid R unpAt k acc up)), snd (ccs_mid R unpAt k acc up)).
  Proof.
    intros Hu. induction k as [|k IH]; intros acc up; [reflexivity|]. cbn [ccs_mid]. cbv zeta. rewrite ikind_phiI, istart_phiI, iend_phiI.
    destruct (Hu (up + 1)) as [A B]. destruct (_ =? UnparsedKind); [rewrite (cs_addSpan_crlf R acc _ _ R13 A B)|]; apply IH.
  Qed.

  Lemma collectCodeSpan_sim st st' a b cS cE : stC st st' -> unp st = U -> QS st -> ND st -> SB st -> 0 <= cS -> cE <= len R ->
    stC (collectCodeSpan st a b cS cE) (collectCodeSpan st' (P a) (P b) (P cS) (P cE)) /\
    QS (collectCodeSpan st a b cS cE) /\ ND (collectCodeSpan st a b cS cE).
  Proof.
    intros H EU HQ HN HB HcS HcE. assert (ER : isrc st = R) by apply H.
    rewrite !collectCodeSpan_eq. cbv zeta. rewrite ER, (stC_src' R _ _ H), (cC_unpFrom R _ _ H), nifp_F, (stC_unp R _ _ H), (stC_upos R _ _ H), EU.
    set (unpAt := fun i : Z => nth (Z.to_nat i) U (mkI 0 0 0)).
    assert (Hfin : forall kids sx sx', goodK kids -> stC sx sx' -> QS sx -> ND sx -> SB sx ->
              stC (fst (addNode sx CodeSpanKind a b (stripCodeSpanSpace R kids))) (fst (addNode sx' CodeSpanKind (P a) (P b) (stripCodeSpanSpace R' (map N kids)))) /\
              QS (fst (addNode sx CodeSpanKind a b (stripCodeSpanSpace R kids))) /\ ND (fst (addNode sx CodeSpanKind a b (stripCodeSpanSpace R kids)))).
    { intros kids sx sx' [K1 K2] Hx Qx Dx Bx. rewrite (stripCodeSpanSpace_crlf R kids R13 K2).
      split; [apply cC_addNode, Hx|]. split; [apply QS_addNode; [exact Qx|exact Bx|apply faL_leaf0, strip_leaf0, K1]|apply ND_addNode, Dx]. }
    destruct (nodeIndexForPosition (unpFrom st) cE =? 0).
    - pose proof (cs_addSpan_crlf R [] cS cE R13 HcS HcE) as E0. cbn [map] in E0. rewrite E0. apply Hfin; try assumption. apply goodK_add; [apply goodK_nil|exact HcS].
    - rewrite (nth_map_F R), iend_phiI. fold (unpAt (upos st)).
      destruct (unpAt_rng (upos st)) as [A0 B0]. fold (unpAt (upos st)) in A0, B0.
      pose proof (cs_addSpan_crlf R [] cS (iend (unpAt (upos st))) R13 HcS B0) as E0. cbn [map] in E0. rewrite E0.
      rewrite (ccs_mid_ext R' (fun i : Z => nth (Z.to_nat i) (map F U) (mkI 0 0 0)) (fun i => F (unpAt i)) (fun i => nth_map_F R (Z.to_nat i) U)).
      rewrite (ccs_mid_sim unpAt unpAt_rng).
      pose proof (ccs_mid_good R unpAt (fun i => proj1 (unpAt_rng i)) (Z.to_nat (nodeIndexForPosition (unpFrom st) cE - 1)) (cs_addSpan R [] cS (iend (unpAt (upos st)))) (upos st)
                    (goodK_add R [] cS _ goodK_nil HcS)) as Hg.
      destruct (ccs_mid R unpAt (Z.to_nat (nodeIndexForPosition (unpFrom st) cE - 1)) (cs_addSpan R [] cS (iend (unpAt (upos st)))) (upos st)) as [acc up]. cbn [fst snd] in Hg |- *.
      rewrite (nth_map_F R), istart_phiI. fold (unpAt (up + 1)). destruct (unpAt_rng (up + 1)) as [A1 _]. fold (unpAt (up + 1)) in A1.
      rewrite (cs_addSpan_crlf R acc _ cE R13 A1 HcE).
      apply Hfin; [apply goodK_add; assumption|apply stC_setUpos, H| | |].
      + eapply QS_same; [exact HQ|reflexivity|reflexivity].
      + eapply ND_same; [exact HN|reflexivity].
      + exact HB.
  Qed.
  (* ================================================================ one step of the tokeniser *)
  Hypothesis Hpf : (8 * length R + 8 <= pf)%nat.
  Notation K := (IFTokLoop.K R U).
  Notation TKL := (IFTk4.TKL R U).

  Definition tripP (x y : ist * Z * Z) : Prop := stC (fst (fst x)) (fst (fst y)) /\ snd (fst y) = P (snd (fst x)) /\ snd y = P (snd x).
  Lemma fin3 sx sx' a b : stC sx sx' -> QS sx -> ND sx ->
    tripP (sx, a, b) (sx', P a, P b) /\ QS (fst (fst (sx, a, b))) /\ ND (fst (fst (sx, a, b))).
  Proof. intros H Q D. split; [split; [exact H|split; reflexivity]|split; assumption]. Qed.

  Lemma addText_facts st a b : unp st = U -> isrc st = R -> TKb (nid st) st -> QS st -> ND st ->
    unp (addText st a b) = U /\ isrc (addText st a b) = R /\ TKb (nid (addText st a b)) (addText st a b) /\ QS (addText st a b) /\ ND (addText st a b) /\
    spanEnd (addText st a b) = spanEnd st /\ upos (addText st a b) = upos st /\ isLastSpan (addText st a b) = isLastSpan st /\ unpFrom (addText st a b) = unpFrom st.
  Proof.
    intros EU ER HT HQ HN. destruct (fr_addText st a b) as [A B].
    assert (Eu : upos (addText st a b) = upos st) by (unfold addText, addNode; destruct (_ =? 0); reflexivity).
    split; [congruence|]. split; [congruence|]. split.
    { pose proof (G_nid _ _ _ (G_addText _ _ _ a b (Good_refl _ _ HT))) as [T _]. exact T. }
    split; [apply QS_addText; [exact HQ|eapply TKb_SB; exact HT]|]. split; [apply ND_addText, HN|].
    split; [unfold spanEnd; rewrite A, B, Eu; reflexivity|]. split; [exact Eu|]. split; [unfold isLastSpan; rewrite B, Eu; reflexivity|unfold unpFrom; rewrite B, Eu; reflexivity].
  Qed.
  Lemma TKb_keys b st : TKb b st -> forall h, In h (Hs st) -> key h < nid st.
  Proof. intros ((_ & B) & _). exact B. Qed.
  Lemma push_plain st st' k s e typ : stC st st' -> QS st -> ND st -> TKb (nid st) st -> 0 <= s -> s < e -> typ <> tStar -> typ <> tUnder ->
    let X := (let '(s1, id) := addNode st k s e [] in setStk s1 (stk s1 ++ [{| d_typ := typ; d_flags := fActive; d_n := 0; d_node := id |}])) in
    let X' := (let '(s1, id) := addNode st' k (P s) (P e) [] in setStk s1 (stk s1 ++ [{| d_typ := typ; d_flags := fActive; d_n := 0; d_node := id |}])) in
    stC X X' /\ QS X /\ ND X.
  Proof.
    intros H HQ HN HT Hs Hse T1 T2. cbv zeta.
    assert (Hsl : spanLen s e <> 0) by (rewrite spanLen_eq by lia; lia).
    destruct (cC_addNode R st st' k s e [] H) as [Eid H1]. cbn [map] in Eid, H1.
    set (d := {| d_typ := typ; d_flags := fActive; d_n := 0; d_node := nid st |}).
    destruct (QS_push st k s e d HQ (TKb_SB _ _ HT) (TKb_keys _ _ HT) Hsl eq_refl) as [HQ1 Eid1].
    { intros He. unfold emphD in He. cbn [d d_typ] in He. apply orb_true_iff in He. destruct He as [He|He]; apply Z.eqb_eq in He; contradiction. }
    pose proof (ND_push st (fst (addNode st k s e [])) d HN (TKb_SB _ _ HT) (stk_addNode' _ _ _ _ _) eq_refl) as HN1.
    destruct (addNode st k s e []) as [s1 id]. destruct (addNode st' k (P s) (P e) []) as [s1' id']. cbn [fst snd] in *. subst id' id.
    rewrite (stC_stk R _ _ H1). fold d. split; [apply stC_setStk, H1|split; assumption].
  Qed.

  Lemma istepG_sim st st' pos ps : stC st st' -> K st pos -> TKL st pos -> QS st -> ND st -> upos st < len U -> pos < spanEnd st ->
    tripP (istepG rf tf pf st pos ps) (istepG rf' tf' pf st' (P pos) (P ps)) /\
    QS (fst (fst (istepG rf tf pf st pos ps))) /\ ND (fst (fst (istepG rf tf pf st pos ps))).
  Proof.
    intros H (ER & EU & Hp0 & Hu0 & _) (HT & _) HQ HN Hu Hlim.
    destruct (spanEnd_le st EU Hu Hu0) as [Hse1 _].
    pose proof (TKb_SB _ _ HT) as HB.
    destruct (addText_facts st ps pos EU ER HT HQ HN) as (EU1 & ER1 & HT1 & HQ1 & HN1 & Ese1 & Eup1 & Els1 & Euf1).
    pose proof (stC_addText R _ _ ps pos H) as Ht.
    pose proof (SPI_unpFrom st EU) as HSF. pose proof (ib_unpFrom st EU) as Hib.
    unfold istepG. rewrite ER, (stC_src' R _ _ H), at_m13.
    set (c := at_ R pos).
    assert (Hc13 : c <> 13) by apply (at_not13 R R13).
    destruct (Z.eqb_spec c 93) as [E93|N93].
    { rewrite E93. change (m13 93 =? 93) with true. cbv iota.
      destruct (parseEndBracketG_sim (addText st ps pos) (addText st' (P ps) (P pos)) pos Ht EU1 HT1 HQ1 HN1 Hp0 ltac:(lia) ltac:(lia) E93) as ([Ee H1] & Q1 & D1).
      destruct (parseEndBracketG rf tf pf (addText st ps pos) pos) as [s1 e]. destruct (parseEndBracketG rf' tf' pf (addText st' (P ps) (P pos)) (P pos)) as [s1' e'].
      cbn [fst snd] in *. subst e'. apply fin3; assumption. }
    rewrite (m13_eqb c 93) by discriminate. replace (c =? 93) with false by (symmetry; apply Z.eqb_neq, N93).
    unfold istepF. cbv zeta. rewrite ER, (stC_src' R _ _ H), at_m13. fold c.
    rewrite !(m13_eqb c) by discriminate. replace (c =? 93) with false by (symmetry; apply Z.eqb_neq, N93).
    rewrite (cC_spanEnd R _ _ H), (cC_isLastSpan R _ _ H), (cC_unpFrom R _ _ H).
    (* delimiter runs *)
    destruct ((c =? 42) || (c =? 95)) eqn:Edl.
    { assert (Hc : at_ R pos = 42 \/ at_ R pos = 95) by (apply orb_true_iff in Edl; destruct Edl as [E|E]; apply Z.eqb_eq in E; [left|right]; exact E).
      destruct (parseDelimiterRun_sim (addText st ps pos) (addText st' (P ps) (P pos)) pos Ht EU1 HQ1 HN1 (TKb_SB _ _ HT1) (TKb_keys _ _ HT1) Hp0 ltac:(lia) ltac:(lia) Hc) as ([Ee H1] & Q1 & D1).
      destruct (parseDelimiterRun (addText st ps pos) pos) as [s1 e]. destruct (parseDelimiterRun (addText st' (P ps) (P pos)) (P pos)) as [s1' e'].
      cbn [fst snd] in *. subst e'. apply fin3; assumption. }
    destruct (Z.eqb_spec c 91) as [E91|N91].
    { assert (Hp1 : P pos + 1 = P (pos + 1)) by (apply P1; fold c; rewrite E91; discriminate). rewrite Hp1.
      destruct (push_plain (addText st ps pos) (addText st' (P ps) (P pos)) TextKind pos (pos + 1) tLink Ht HQ1 HN1 HT1 Hp0 ltac:(lia) ltac:(discriminate) ltac:(discriminate)) as (A & B & C).
      cbv zeta in A, B, C. destruct (addNode (addText st ps pos) TextKind pos (pos + 1) []) as [s1 id]. destruct (addNode (addText st' (P ps) (P pos)) TextKind (P pos) (P (pos + 1)) []) as [s1' id'].
      apply fin3; assumption. }
    destruct (Z.eqb_spec c 33) as [E33|N33].
    { assert (Hp1 : P pos + 1 = P (pos + 1)) by (apply P1; fold c; rewrite E33; discriminate). rewrite Hp1, P_leb, (atR'_eqb (pos + 1) 91) by discriminate.
      destruct ((spanEnd st <=? pos + 1) || negb (at_ R (pos + 1) =? 91)) eqn:Eb; [apply fin3; assumption|].
      apply orb_false_iff in Eb. destruct Eb as [_ Eb]. apply negb_false_iff, Z.eqb_eq in Eb.
      assert (Hp2 : P pos + 2 = P (pos + 2)) by (replace (pos + 2) with (pos + 1 + 1) by lia; rewrite <- (P1 (pos + 1)) by (rewrite Eb; discriminate); lia). rewrite Hp2.
      destruct (push_plain (addText st ps pos) (addText st' (P ps) (P pos)) TextKind pos (pos + 2) tImage Ht HQ1 HN1 HT1 Hp0 ltac:(lia) ltac:(discriminate) ltac:(discriminate)) as (A & B & C).
      cbv zeta in A, B, C. destruct (addNode (addText st ps pos) TextKind pos (pos + 2) []) as [s1 id]. destruct (addNode (addText st' (P ps) (P pos)) TextKind (P pos) (P (pos + 2)) []) as [s1' id'].
      apply fin3; assumption. }
    destruct (Z.eqb_spec c 32) as [E32|N32].
    { rewrite (crlf_sub R pos (spanEnd st) Hp0 ltac:(lia)).
      set (t := sub R pos (spanEnd st)).
      destruct (phlbs_crlf t ltac:(unfold t, sub; apply notIn_upto, notIn_from, R13)) as (B1 & B2 & B3).
      destruct (parseHardLineBreakSpace t) as [e ok]. destruct (parseHardLineBreakSpace (crlf t)) as [e' ok']. cbn [fst snd] in B1, B2, B3. subst ok' e'.
      assert (Hpe : P pos + phiP t e = P (pos + e)).
      { rewrite (phiP_add R pos e Hp0 ltac:(lia)). f_equal. unfold t, sub. apply phiP_upto.
        assert (len t <= spanEnd st - pos) by (unfold t; pose proof (len_sub_le R pos (spanEnd st)); lia). lia. }
      rewrite Hpe. destruct (ok && negb (isLastSpan st)); [|apply fin3; assumption].
      destruct (cC_addNode R _ _ HardLineBreakKind pos (pos + e) [] Ht) as [_ H1]. cbn [map] in H1.
      apply fin3; [apply stC_setIgn, H1|apply QS_setIgn, QS_addNode; [exact HQ1|eapply TKb_SB; exact HT1|exact I]|apply ND_setIgn, ND_addNode, HN1]. }
    destruct (Z.eqb_spec c 96) as [E96|N96].
    { rewrite (parseCodeSpan_sim R (len R) R13 rf rf' st st' pos ER (stC_src' R _ _ H) (cC_unpFrom R _ _ H) HSF ltac:(lia) ltac:(lia)).
      pose proof (parseCodeSpan_range R (len R) rf st pos ER HSF Hp0) as Hrg.
      destruct (parseCodeSpan rf st pos) as [[cS cE] sE]. destruct Hrg as [HcS Hrg]. rewrite P_nonneg_b.
      destruct (Z.leb_spec 0 sE) as [L|L]; [|apply fin3; assumption]. destruct (Hrg L) as (A1 & A2 & A3).
      destruct (collectCodeSpan_sim (addText st ps pos) (addText st' (P ps) (P pos)) pos sE cS cE Ht EU1 HQ1 HN1 (TKb_SB _ _ HT1) HcS ltac:(lia)) as (A & B & C).
      apply fin3; assumption. }
    destruct (Z.eqb_spec c 60) as [E60|N60].
    { assert (Hp1 : P pos + 1 = P (pos + 1)) by (apply P1; fold c; rewrite E60; discriminate).
      rewrite (crlf_sub R pos (spanEnd st) Hp0 ltac:(lia)). set (t := sub R pos (spanEnd st)).
      assert (Ht13 : ~ In 13 t) by (unfold t, sub; apply notIn_upto, notIn_from, R13).
      destruct (parseAutolink_crlf t Ht13) as [Ea Hal]. rewrite Ea.
      destruct (Z.leb_spec 0 (parseAutolink t)) as [L|L].
      - destruct (Hal L) as ((A1 & A2) & A3). set (ae := parseAutolink t) in *.
        assert (Hlt : len t <= spanEnd st - pos) by (unfold t; pose proof (len_sub_le R pos (spanEnd st)); lia).
        assert (Hnl : noLF R pos (pos + ae)).
        { intros k Hk. specialize (A3 (k - pos) ltac:(lia)). unfold t in A3. rewrite at_sub in A3 by lia. replace (pos + (k - pos)) with k in A3 by lia. exact A3. }
        assert (Epe : ae + P pos = P (ae + pos)) by (rewrite (P_flat R pos (pos + ae) pos (ae + pos) Hnl); lia).
        rewrite Epe, Hp1.
        replace (P (ae + pos) - 1) with (P (ae + pos - 1)) by (rewrite (P_flat R pos (pos + ae) (ae + pos - 1) (ae + pos) Hnl); lia).
        destruct (cC_addNode R _ _ AutolinkKind pos (ae + pos) [PN 0 TextKind (pos + 1) (ae + pos - 1) 0 [] []] Ht) as [_ H1]. cbn [map phiN] in H1.
        apply fin3; [exact H1|apply QS_addNode; [exact HQ1|eapply TKb_SB; exact HT1|]|apply ND_addNode, HN1].
        split; [|exact I]. apply faN_eq. split; [unfold np; cbn [pid]; lia|exact I].
      - destruct (rd_new st st' pos H EU) as (_ & Nu1 & Nu2). rewrite (cC_unpFrom R _ _ H) in Nu2.
        rewrite (parseHTMLTag_sim_new R (len R) (unpFrom st) pos rf rf' R13 HSF ltac:(lia) ltac:(lia)).
        destruct (parseHTMLTag rf (newReader R (unpFrom st) pos)) as [ts te].
        pose proof (spanValid_mapS R (ts, te)) as Esv. unfold mapS in Esv |- *. cbn [fst snd] in Esv |- *. rewrite Esv.
        destruct (negb (spanValid (ts, te))); [rewrite Hp1; apply fin3; assumption|].
        destruct (addText_facts st ps ts EU ER HT HQ HN) as (EU2 & ER2 & HT2 & HQ2 & HN2 & _ & _ & _ & Euf2).
        pose proof (stC_addText R _ _ ps ts H) as Ht2.
        rewrite (ctn_sim (addText st ps ts) (addText st' (P ps) (P ts)) ts te RawHTMLKind false Ht2 EU2), kidsOf_F.
        destruct (cC_addNode R _ _ HTMLTagKind ts te (kidsOf (collectTextNodes rf (newReader R (unpFrom (addText st ps ts)) ts) te RawHTMLKind false)) Ht2) as [_ H1].
        apply fin3; [apply stC_advanceTo, H1| |].
        + eapply QS_same; [apply QS_addNode; [exact HQ2|eapply TKb_SB; exact HT2|apply faL_kidsOf]| |]; unfold advanceTo; cbv zeta; destruct (0 <=? _); reflexivity.
        + eapply ND_same; [apply ND_addNode, HN2|]. unfold advanceTo; cbv zeta; destruct (0 <=? _); reflexivity. }
    destruct (Z.eqb_spec c 92) as [E92|N92].
    { destruct (parseBackslash_sim (addText st ps pos) (addText st' (P ps) (P pos)) pos Ht EU1 HQ1 HN1 (TKb_SB _ _ HT1) Hp0 ltac:(lia) ltac:(lia) E92) as ([Ee H1] & Q1 & D1).
      destruct (parseBackslash (addText st ps pos) pos) as [s1 e]. destruct (parseBackslash (addText st' (P ps) (P pos)) (P pos)) as [s1' e'].
      cbn [fst snd] in *. subst e'. apply fin3; assumption. }
    destruct (Z.eqb_spec c 38) as [E38|N38].
    { assert (Hp1 : P pos + 1 = P (pos + 1)) by (apply P1; fold c; rewrite E38; discriminate).
      rewrite (crlf_sub R pos (spanEnd st) Hp0 ltac:(lia)), pce_crlf. set (t := sub R pos (spanEnd st)).
      destruct (Z.ltb_spec (parseCharacterEscape t) 0) as [L|L]; [rewrite Hp1; apply fin3; assumption|].
      destruct (pce_noLF t L) as ((A1 & A2) & A3). set (e := parseCharacterEscape t) in *.
      assert (Hlt : len t <= spanEnd st - pos) by (unfold t; pose proof (len_sub_le R pos (spanEnd st)); lia).
      assert (Hnl : noLF R pos (pos + e)).
      { intros k Hk. specialize (A3 (k - pos) ltac:(lia)). unfold t in A3. rewrite at_sub in A3 by lia. replace (pos + (k - pos)) with k in A3 by lia. exact A3. }
      replace (P pos + e) with (P (pos + e)) by (rewrite (P_flat R pos (pos + e) pos (pos + e) Hnl); lia).
      destruct (cC_addNode R _ _ CharacterReferenceKind pos (pos + e) [] Ht) as [_ H1]. cbn [map] in H1.
      apply fin3; [exact H1|apply QS_addNode; [exact HQ1|eapply TKb_SB; exact HT1|exact I]|apply ND_addNode, HN1]. }
    (* line endings and plain bytes *)
    rewrite (m13_10 c Hc13), (m13_13 c Hc13). replace (c =? 13) with false by (symmetry; apply Z.eqb_neq, Hc13).
    rewrite (cC_isLastSpan R _ _ Ht), Els1, (cC_spanEnd R _ _ Ht), Ese1.
    destruct (Z.eqb_spec c 10) as [E10|N10].
    - assert (Hp2 : P (pos + 1) = P pos + 2) by (apply P_succ_lf, E10).
      assert (Hw : (P pos + 1 <? P (spanEnd st)) && (at_ R' (P pos + 1) =? 10) = true).
      { rewrite (at_P1 R pos E10). change (10 =? 10) with true. rewrite andb_true_r. apply Z.ltb_lt. pose proof (phiP_mono R (pos + 1) (spanEnd st) ltac:(lia)). lia. }
      rewrite Hw. rewrite <- Hp2.
      destruct (negb (isLastSpan st)); [|apply fin3; assumption].
      destruct (cC_addNode R _ _ SoftLineBreakKind pos (pos + 1) [] Ht) as [_ H1]. cbn [map] in H1.
      apply fin3; [exact H1|apply QS_addNode; [exact HQ1|eapply TKb_SB; exact HT1|exact I]|apply ND_addNode, HN1].
    - rewrite (P1 pos N10). apply fin3; assumption.
  Qed.
  (* ================================================================ the tokeniser loop, the loop over the entries *)
  Lemma iloopG_sim : forall fuel st st' pos ps, stC st st' -> K st pos -> TKL st pos -> QS st -> ND st ->
    pairP (iloopG rf tf pf fuel st pos ps) (iloopG rf' tf' pf fuel st' (P pos) (P ps)) /\
    QS (fst (iloopG rf tf pf fuel st pos ps)) /\ ND (fst (iloopG rf tf pf fuel st pos ps)).
  Proof.
    induction fuel as [|f IH]; intros st st' pos ps H HK HT HQ HN; [split; [apply pairP_mk, H|split; assumption]|]. cbn [iloopG].
    pose proof HK as (ER & EU & _).
    rewrite (stC_upos R _ _ H), (stC_unp R _ _ H), len_map', (cC_spanEnd R _ _ H), phiP_ltb.
    destruct (Z.ltb_spec (upos st) (len (unp st))) as [L|L]; cbn [andb]; [|split; [apply pairP_mk, H|split; assumption]].
    destruct (Z.ltb_spec pos (spanEnd st)) as [L2|L2]; [|split; [apply pairP_mk, H|split; assumption]].
    rewrite EU in L.
    destruct (istepG_sim st st' pos ps H HK HT HQ HN L L2) as ((A1 & A2 & A3) & Q1 & D1).
    pose proof (istepG_eq R U HOK rf tf pf Hpf st pos ps HK HT) as Eg.
    destruct (istepF_prog R U HOK rf tf Hrf st pos ps HK L L2) as [_ P2].
    pose proof (istepF_TKL R U HOK rf tf Hrf st pos ps HK L L2 HT) as P3. rewrite <- Eg in P2, P3.
    destruct (istepG rf tf pf st pos ps) as [[s1 p1] ps1]. destruct (istepG rf' tf' pf st' (P pos) (P ps)) as [[s1' p1'] ps1'].
    cbn [fst snd] in *. subst p1' ps1'. apply IH; assumption.
  Qed.
  Lemma iloopG_KT fuel st pos ps : K st pos -> TKL st pos ->
    exists pos', K (fst (iloopG rf tf pf fuel st pos ps)) pos' /\ TKL (fst (iloopG rf tf pf fuel st pos ps)) pos'.
  Proof. intros HK HT. rewrite (iloopG_eq R U HOK rf tf pf Hrf Hpf fuel st pos ps HK HT). apply (iloopF_KT R U HOK rf tf Hrf); assumption. Qed.

  Notation OI := (IFTk5.OI R U).
  Lemma QS_app_ofInline st u : QS st -> SB st -> QS (setRk st (rk st ++ [ofInline u])).
  Proof.
    intros HQ HB. unfold EolCRLFFullPe.QS. change (stk (setRk st ?v)) with (stk st). change (rk (setRk st ?v)) with v. apply faL_app. split; [exact HQ|].
    split; [|exact I]. eapply faN_impl; [|apply faN_ofInline]. intros n. apply np_Qd. intros d Hd. specialize (HB d Hd). lia.
  Qed.
  Lemma stC_app_ofInline st st' u : stC st st' -> stC (setRk st (rk st ++ [ofInline u])) (setRk st' (rk st' ++ [ofInline (F u)])).
  Proof.
    intros H. rewrite (stC_rk R _ _ H), ofInline_F.
    replace (map N (rk st) ++ [N (ofInline u)]) with (map N (rk st ++ [ofInline u])) by (rewrite map_app; reflexivity). apply stC_setRk, H.
  Qed.

  Lemma obodyG_sim lf st st' : stC st st' -> OI st -> QS st -> ND st -> upos st < len U ->
    stC (obodyG rf tf pf lf st) (obodyG rf' tf' pf lf st') /\ QS (obodyG rf tf pf lf st) /\ ND (obodyG rf tf pf lf st).
  Proof.
    intros H (ER & EU & Hu0 & T & HL) HQ HN Hu. pose proof (TKb_SB _ _ T) as HB.
    unfold obodyG. cbv zeta. rewrite (stC_upos R _ _ H), (stC_unp R _ _ H), (nth_map_F R), ikind_phiI, istart_phiI, (stC_ign R _ _ H), (stC_src' R _ _ H), (cC_spanEnd R _ _ H), ER, EU.
    set (u := nth (Z.to_nat (upos st)) U (mkI 0 0 0)).
    destruct (spOK_In R U u HOK (nth_In_Z U (upos st) (mkI 0 0 0) ltac:(lia))) as (A1 & A2 & A3).
    destruct (spanEnd_le st EU Hu Hu0) as [Hse1 _].
    destruct (ikind u =? 0); [split; [apply stC_setIgn, H|split; [apply QS_setIgn, HQ|apply ND_setIgn, HN]]|].
    destruct (ikind u =? IndentKind).
    { destruct (negb (ign st)); [|split; [exact H|split; assumption]].
      split; [apply stC_app_ofInline, H|]. split; [apply QS_app_ofInline; assumption|eapply ND_same; [exact HN|reflexivity]]. }
    destruct (ikind u =? UnparsedKind).
    - rewrite (skipSpTab_crlf R (length R) (length R') (istart u) (spanEnd st) R13 A1 Hse1 lenR_fuel lenR'_fuel).
      replace (if ign st then P (skipSpTab (length R) R (istart u) (spanEnd st)) else P (istart u))
        with (P (if ign st then skipSpTab (length R) R (istart u) (spanEnd st) else istart u)) by (destruct (ign st); reflexivity).
      set (pos := if ign st then skipSpTab (length R) R (istart u) (spanEnd st) else istart u).
      assert (Hp : istart u <= pos) by (unfold pos; destruct (ign st); [apply IS6.skipSpTab_ge|lia]).
      assert (HK : K (setIgn st false) pos).
      { split; [exact ER|]. split; [exact EU|]. split; [lia|]. split; [exact Hu0|]. intros _. exact Hp. }
      assert (HSb : Sb R U st = istart u) by (unfold Sb; destruct (Z.ltb_spec (upos st) (len U)); [reflexivity|lia]).
      assert (HT : TKL (setIgn st false) pos).
      { destruct (G_setIgn (nid st) st st false (Good_refl _ _ T)) as [TQ Q]. split; [exact TQ|]. split; [lia|].
        unfold IFTk4.Eb. change (upos (setIgn st false)) with (upos st). destruct (Z.ltb_spec (upos st) (len U)); [fold u; lia|lia]. }
      destruct (iloopG_sim lf (setIgn st false) (setIgn st' false) pos pos (stC_setIgn R _ _ false H) HK HT (QS_setIgn _ _ HQ) (ND_setIgn _ _ HN)) as ([Ee H1] & Q1 & D1).
      destruct (iloopG_KT lf (setIgn st false) pos pos HK HT) as (pos' & _ & (T' & _)).
      destruct (iloopG rf tf pf lf (setIgn st false) pos pos) as [s1 ps1]. destruct (iloopG rf' tf' pf lf (setIgn st' false) (P pos) (P pos)) as [s1' ps1'].
      cbn [fst snd] in *. subst ps1'. rewrite (cC_spanEnd R _ _ H1).
      split; [apply stC_addText, H1|]. split; [apply QS_addText; [exact Q1|eapply TKb_SB; exact T']|apply ND_addText, D1].
    - split; [apply (stC_app_ofInline (setIgn st false) (setIgn st' false) u), stC_setIgn, H|].
      split; [apply (QS_app_ofInline (setIgn st false)); [apply QS_setIgn, HQ|exact HB]|eapply ND_same; [exact HN|reflexivity]].
  Qed.

  Lemma outerG_sim lf : forall fuel st st', stC st st' -> OI st -> QS st -> ND st ->
    stC (outerG rf tf pf lf fuel st) (outerG rf' tf' pf lf fuel st') /\ QS (outerG rf tf pf lf fuel st) /\ ND (outerG rf tf pf lf fuel st) /\ OI (outerG rf tf pf lf fuel st).
  Proof.
    induction fuel as [|f IH]; intros st st' H HO HQ HN; [split; [exact H|split; [exact HQ|split; assumption]]|].
    rewrite (outerG_S rf tf pf lf f st), (outerG_S rf' tf' pf lf f st'). pose proof HO as (ER & EU & Hu0 & _).
    rewrite (stC_upos R _ _ H), (stC_unp R _ _ H), len_map'.
    destruct (Z.leb_spec (len (unp st)) (upos st)) as [L|L]; [split; [exact H|split; [exact HQ|split; assumption]]|]. rewrite EU in L.
    destruct (obodyG_sim lf st st' H HO HQ HN L) as (A & B & C).
    destruct (obody_step R U HOK rf tf pf Hrf Hpf lf st HO L) as [Eb0 HO1]. rewrite <- Eb0 in HO1.
    rewrite (stC_upos R _ _ A). apply IH; [apply stC_setUpos, A|exact HO1| |].
    - eapply QS_same; [exact B|reflexivity|reflexivity].
    - eapply ND_same; [exact C|reflexivity].
  Qed.
  (* ================================================================ parseInlines with all fuels explicit *)
  Lemma st0_OI m b : bik b = U -> OI (st0 R m b).
  Proof.
    intros EU. split; [reflexivity|]. split; [exact EU|]. split; [cbn; lia|]. split.
    - split; [split; [intros x _; cbn; lia|intros h []]|]. split; [cbn; lia|]. split; intros d [].
    - unfold load, Sb. cbn [stk st0 sumW upos]. unfold len at 1. cbn [length].
      destruct (Z.ltb_spec 0 (len U)) as [Lt|Lt]; [|pose proof (ShapesBase.len_nonneg R); lia].
      destruct (IFTokAux.spOK_In R U _ HOK (IFTokAux.nth_In_Z U 0 (mkI 0 0 0) ltac:(lia))) as (A & _). cbn in A |- *. lia.
  Qed.
  Lemma bik_phiB b : bik (phiB R b) = map F (bik b). Proof. destruct b; reflexivity. Qed.
  Lemma bend_phiB b : bend (phiB R b) = P (bend b). Proof. destruct b; reflexivity. Qed.
  Theorem parseInlinesG_sim lf ofu m b : bik b = U ->
    parseInlinesG rf' tf' pf lf ofu R' m (phiB R b) = map F (parseInlinesG rf tf pf lf ofu R m b).
  Proof.
    intros EU. unfold parseInlinesG. cbv zeta.
    assert (H0 : stC (st0 R m b) (st0 R' m (phiB R b))).
    { unfold st0. rewrite bik_phiB, bend_phiB. apply (stC_mk R [] (bik b) 0 [] false 1 (bend b) m). }
    assert (HQ0 : QS (st0 R m b)) by exact I.
    assert (HN0 : ND (st0 R m b)) by constructor.
    destruct (outerG_sim lf ofu _ _ H0 (st0_OI m b EU) HQ0 HN0) as (H1 & Q1 & D1 & (_ & _ & _ & T1 & _)).
    destruct (processEmphasisF_sim R pf _ _ 0 H1 (TKb_TI _ _ T1) Q1 D1 ltac:(lia)) as (H2 & _).
    rewrite (stC_rk R _ _ H2). apply map_toInline_N.
  Qed.
End Tok2.
Print Assumptions parseInlinesG_sim.
