(* QuoteSimTree.v -- T51 (C09, block-quote clause): tree facts used by the nesting simulation.
   Heights, right-spine access, and independence of closeBlock / tipDepth from surplus fuel. *)
From Coq Require Import List ZArith Lia Bool Arith.
Import ListNotations.
Require Import Base Tree Rdr Link Collect Html Recog LP Rules Starts Driver.
Open Scope Z_scope.

(* ---- lastBlock / set_lastBlocks on lists ---- *)
Lemma lastBlock_app_ne b pre ks : ks <> [] -> bkids b = pre ++ ks ->
  lastBlock b = match rev ks with x :: _ => Some x | [] => None end.
Proof. intros Hn E. unfold lastBlock. rewrite E, rev_app_distr. destruct (rev ks) eqn:Er; [|reflexivity]. apply (f_equal (@rev block)) in Er. rewrite rev_involutive in Er. cbn in Er. contradiction. Qed.

Lemma lastBlock_some_ne b c : lastBlock b = Some c -> bkids b <> [].
Proof. unfold lastBlock. intros H E. rewrite E in H. discriminate. Qed.
Lemma lastBlock_none_nil b : lastBlock b = None -> bkids b = [].
Proof. unfold lastBlock. intros H. destruct (rev (bkids b)) eqn:E; [|discriminate]. apply (f_equal (@rev block)) in E. rewrite rev_involutive in E. exact E. Qed.
Lemma lastBlock_snoc b pre c : bkids b = pre ++ [c] -> lastBlock b = Some c.
Proof. intros E. unfold lastBlock. rewrite E, rev_app_distr. reflexivity. Qed.
Lemma lastBlock_split b c : lastBlock b = Some c -> bkids b = removelast (bkids b) ++ [c].
Proof.
  unfold lastBlock. intros H. destruct (rev (bkids b)) as [|x r] eqn:E; [discriminate|]. inversion H; subst x.
  apply (f_equal (@rev block)) in E. rewrite rev_involutive in E. cbn [rev] in E. rewrite E. rewrite removelast_last. reflexivity.
Qed.
Lemma removelast_app_ne {A} (a k : list A) : k <> [] -> removelast (a ++ k) = a ++ removelast k.
Proof. intros H. apply removelast_app, H. Qed.
Lemma bkids_set_lastBlocks b repl : bkids (set_lastBlocks b repl) = removelast (bkids b) ++ repl.
Proof. destruct b; reflexivity. Qed.
Lemma bkids_set_bkids b v : bkids (set_bkids b v) = v. Proof. destruct b; reflexivity. Qed.
Lemma set_lastBlocks_same b c : lastBlock b = Some c -> set_lastBlocks b [c] = b.
Proof. intros H. unfold set_lastBlocks. rewrite <- (lastBlock_split b c H). destruct b; reflexivity. Qed.

(* ---- heights ---- *)
Lemma bheight_eq b : bheight b = S (fold_right (fun c acc => Nat.max (bheight c) acc) O (bkids b)).
Proof. destruct b; reflexivity. Qed.
Lemma bheight_pos b : (1 <= bheight b)%nat. Proof. rewrite bheight_eq. lia. Qed.
Lemma fold_max_in (l : list block) c : In c l -> (bheight c <= fold_right (fun c acc => Nat.max (bheight c) acc) O l)%nat.
Proof. induction l as [|x l IH]; intros H; [contradiction|]. cbn [fold_right]. destruct H as [->|H]; [lia|]. specialize (IH H). lia. Qed.
Lemma bheight_kid b c : In c (bkids b) -> (bheight c < bheight b)%nat.
Proof. intros H. rewrite (bheight_eq b). pose proof (fold_max_in _ _ H). lia. Qed.
Lemma lastBlock_in b c : lastBlock b = Some c -> In c (bkids b).
Proof. intros H. rewrite (lastBlock_split b c H). apply in_or_app. right. left. reflexivity. Qed.
Lemma bheight_last b c : lastBlock b = Some c -> (bheight c < bheight b)%nat.
Proof. intros H. apply bheight_kid, lastBlock_in, H. Qed.
Lemma getAt_height : forall d b x, getAt d b = Some x -> (d + bheight x <= bheight b)%nat.
Proof.
  induction d as [|d IH]; intros b x H; cbn [getAt] in H.
  - inversion H; subst. lia.
  - destruct (lastBlock b) as [c|] eqn:E; [|discriminate]. specialize (IH c x H). pose proof (bheight_last b c E). lia.
Qed.

Lemma bheight_kids_eq b b' : map bheight (bkids b) = map bheight (bkids b') -> bheight b = bheight b'.
Proof.
  intros H. rewrite !bheight_eq. f_equal. revert H. generalize (bkids b') as l'. induction (bkids b) as [|x l IH]; intros [|y l'] H; try discriminate; [reflexivity|].
  cbn [map] in H. inversion H as [[Hx Hl]]. cbn [fold_right]. rewrite Hx, (IH l' Hl). reflexivity.
Qed.
Lemma bheight_set_bend b v : bheight (set_bend b v) = bheight b. Proof. destruct b; reflexivity. Qed.
Lemma bheight_set_bik b v : bheight (set_bik b v) = bheight b. Proof. destruct b; reflexivity. Qed.
Lemma bheight_set_bloose b v : bheight (set_bloose b v) = bheight b. Proof. destruct b; reflexivity. Qed.
Lemma bheight_onCloseIndented src b : bheight (onCloseIndented src b) = bheight b.
Proof. unfold onCloseIndented. cbv zeta. apply bheight_set_bik. Qed.
Lemma bkids_onCloseIndented src b : bkids (onCloseIndented src b) = bkids b.
Proof. unfold onCloseIndented. cbv zeta. destruct b; reflexivity. Qed.
Lemma bheight_onCloseList b : bheight (onCloseList b) = bheight b.
Proof.
  unfold onCloseList. cbv zeta. destruct (bloose b || _); [|reflexivity].
  apply bheight_kids_eq. rewrite bkids_set_bkids. rewrite map_map. apply map_ext. intros a. apply bheight_set_bloose.
Qed.
Lemma lastBlock_onCloseList b : lastBlock (onCloseList b) = lastBlock b \/
  exists c, lastBlock b = Some c /\ lastBlock (onCloseList b) = Some (set_bloose c true).
Proof.
  unfold onCloseList. cbv zeta. destruct (bloose b || _); [|left; reflexivity].
  unfold lastBlock. rewrite bkids_set_bkids. rewrite <- map_rev.
  destruct (rev (bkids b)) as [|x r]; [left; reflexivity|]. right. exists x. split; reflexivity.
Qed.

(* ---- closeBlock does not depend on surplus fuel ---- *)
Lemma closeBlock_fuel src e : forall f f' b, (bheight b <= f)%nat -> (bheight b <= f')%nat ->
  closeBlock f src b e = closeBlock f' src b e.
Proof.
  induction f as [|f IH]; intros f' b Hf Hf'; [pose proof (bheight_pos b); lia|].
  destruct f' as [|f']; [pose proof (bheight_pos b); lia|]. cbn [closeBlock].
  destruct (negb (isOpen b)); [reflexivity|]. cbv zeta.
  assert (CL : forall x, bheight x = bheight b ->
            match lastBlock x with Some c => set_lastBlocks x (closeBlock f src c e) | None => x end =
            match lastBlock x with Some c => set_lastBlocks x (closeBlock f' src c e) | None => x end).
  { intros x Hx. destruct (lastBlock x) as [c|] eqn:El; [|reflexivity]. pose proof (bheight_last x c El). rewrite (IH f' c); [reflexivity|lia|lia]. }
  destruct (bkind (set_bend b e) =? ListKind).
  { rewrite CL; [reflexivity|]. rewrite bheight_onCloseList. apply bheight_set_bend. }
  destruct (bkind (set_bend b e) =? IndentedCodeBlockKind).
  { rewrite CL; [reflexivity|]. rewrite bheight_onCloseIndented. apply bheight_set_bend. }
  destruct (_ || _); [reflexivity|]. rewrite CL; [reflexivity|apply bheight_set_bend].
Qed.

(* ---- tipDepth does not depend on surplus fuel ---- *)
Lemma tipDepth_fuel : forall f f' b, (bheight b <= f)%nat -> (bheight b <= f')%nat -> tipDepth f b = tipDepth f' b.
Proof.
  induction f as [|f IH]; intros f' b Hf Hf'; [pose proof (bheight_pos b); lia|].
  destruct f' as [|f']; [pose proof (bheight_pos b); lia|]. cbn [tipDepth].
  destruct (lastBlock b) as [c|] eqn:El; [|reflexivity]. destruct (isOpen c); [|reflexivity].
  pose proof (bheight_last b c El). rewrite (IH f' c); [reflexivity|lia|lia].
Qed.
