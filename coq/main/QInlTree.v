(* QInlTree.v -- T64 (tree): main theorems.  processEmphasis, finishLink, lookForLinkOrImage on the two sides
   (relation QInlDefs.IR), with a common fuel (IFPe.processEmphasisF / IFTk5.finishLinkG) and with the model's own fuels.
   Plain-side invariant  EmphOK U st  :=  (exists hi, IS3.J sD U hi st) /\ QInlTree1.SL sD (rk st)
     IS3.J : every entry of the delimiter stack names exactly one childless Text node of the forest whose span is a non-empty run
             of the delimiter byte inside sD; the spans increase along the stack (proved for the whole tokeniser in IS4 .. IS6);
     SL    : every node with a non-zero identity and kind Text / RawHTML lies in one line (qP maps it to ONE node).
   The forest operations themselves are in QInlTree1 (findNode), QInlTree2 (updNode, splitAtId, splitBeforeId, wrapLevel, wrapIn,
   removeId), QInlTree3 (nodeOf, updN, wrap, removeNode, appendKid, addNode, addText, spanEnd, isLastSpan, unpFrom, advanceTo, lfl),
   QInlTree4 / QInlTree5 (one matched pair, one round of pe_loop). *)
From Coq Require Import List ZArith Lia Bool.
Import ListNotations.
Require Import Base Tables Utf8 Tree Rdr Link Collect Html Recog Inl3a Inl3b Inl3c Inl3d Driver Inl3e QCutsDef QCuts QIRdrBase QInlDefs.
Require Import Props PEProof GI0 GI1 GI2 GI3 IFTree IFPe IFTk5 IS0 IS2 IS1 IS3 IS4 IS5 QInlTree1 QInlTree2 QInlTree3 QInlTree4 QInlTree5.
Open Scope Z_scope.

Section Main.
  Variables (sD sQ : bytes) (sg : Z -> Z).
  Hypothesis SG : SGood sD sQ sg.
  Notation SL := (QInlTree1.SL sD).
  Notation IR := (QInlDefs.IR sD sQ sg).

  Definition EmphOK (U : list inline) (st : ist) : Prop := (exists hi, IS3.J sD U hi st) /\ SL (rk st).

  (* ---------------------------------------------------------------- processEmphasis, common fuel *)
  Lemma processEmphasisF_J U pf hi st sb : IS3.J sD U hi st -> 0 <= sb -> IS3.J sD U hi (processEmphasisF pf st sb).
  Proof.
    intros HJ Hsb. unfold processEmphasisF.
    assert (HO : OBI 0 (repeat sb 14)) by (apply (OBI_weaken sb); [exact Hsb|apply OBI_init]).
    pose proof (pe_loop_J sD U pf hi st (repeat sb 14) sb HJ HO Hsb) as H.
    set (st1 := pe_loop _ st _ sb) in *.
    destruct (Z.le_gt_cases sb (len (stk st1))) as [Hle|Hgt].
    - replace (upto (stk st1) sb) with (delStack (stk st1) sb (len (stk st1))).
      + apply J_delStack; [exact H|lia|lia|lia].
      + unfold delStack. replace (from_ (stk st1) (len (stk st1))) with (@nil delim); [apply app_nil_r|].
        unfold from_, len. rewrite Nat2Z.id. symmetry. apply skipn_all.
    - replace (upto (stk st1) sb) with (stk st1); [eapply J_same; [| | | | |exact H]; reflexivity|].
      unfold upto. symmetry. apply firstn_all2. unfold len in Hgt. lia.
  Qed.

  Theorem IR_processEmphasisF U pf hi st st' b : IR st st' -> IS3.J sD U hi st -> SL (rk st) -> 0 <= b ->
    IR (processEmphasisF pf st b) (processEmphasisF pf st' b) /\
    IS3.J sD U hi (processEmphasisF pf st b) /\ SL (rk (processEmphasisF pf st b)).
  Proof.
    intros HI HJ HS Hb. split; [|split; [apply processEmphasisF_J; assumption|]].
    - unfold processEmphasisF.
      assert (HO : OBI 0 (repeat b 14)) by (apply (OBI_weaken b); [exact Hb|apply OBI_init]).
      destruct (pe_loop_q sD sQ sg SG U pf hi st st' (repeat b 14) b HJ HS HI HO Hb) as [I1 _].
      rewrite (IR_stk sD sQ sg _ _ I1). apply (IR_setStk sD sQ sg), I1.
    - unfold processEmphasisF. cbn [rk setStk].
      assert (HO : OBI 0 (repeat b 14)) by (apply (OBI_weaken b); [exact Hb|apply OBI_init]).
      apply (pe_loop_q sD sQ sg SG U pf hi st st' (repeat b 14) b HJ HS HI HO Hb).
  Qed.
  Corollary EmphOK_processEmphasisF U pf st st' b : IR st st' -> EmphOK U st -> 0 <= b ->
    IR (processEmphasisF pf st b) (processEmphasisF pf st' b) /\ EmphOK U (processEmphasisF pf st b).
  Proof.
    intros HI [(hi & HJ) HS] Hb. destruct (IR_processEmphasisF U pf hi st st' b HI HJ HS Hb) as (A & B & C).
    split; [exact A|]. split; [exists hi; exact B|exact C].
  Qed.

  (* ---------------------------------------------------------------- processEmphasis, the model's own fuels
     (they differ on the two sides: 4 * (length stk + length sD) + 8 against 4 * (length stk + length sQ) + 8);
     IFPe: the plain side does not depend on surplus fuel when TI holds and the stack load is at most len sD *)
  Theorem IR_processEmphasis U hi st st' b : IR st st' -> IS3.J sD U hi st -> SL (rk st) -> 0 <= b ->
    TI st -> sumW st (stk st) <= len (isrc st) ->
    IR (processEmphasis st b) (processEmphasis st' b) /\
    IS3.J sD U hi (processEmphasis st b) /\ SL (rk (processEmphasis st b)).
  Proof.
    intros HI HJ HS Hb HT HW.
    set (pf := (4 * (length (stk st') + length (isrc st')) + 8)%nat).
    assert (E' : processEmphasis st' b = processEmphasisF pf st' b) by reflexivity.
    assert (E : processEmphasis st b = processEmphasisF pf st b).
    { symmetry. apply processEmphasis_adequate; try assumption. unfold pf. rewrite (IR_stk sD sQ sg st st' HI).
      destruct HI as (A & B & _). rewrite A, B. pose proof (len_sD_sQ sD sQ sg SG). unfold len in *. lia. }
    rewrite E, E'. apply IR_processEmphasisF; assumption.
  Qed.

  (* ---------------------------------------------------------------- finishLink *)
  Lemma finishLink_tail st st' kind odi bracketId : IR st st' ->
    IR (let st := removeNode st bracketId in
        let st := setStk st (delStack (stk st) odi (odi + 1)) in
        if kind =? LinkKind then
          setStk st (map (fun id : Z * delim => let '(i, d) := id in
                           if (i <? odi) && (d_typ d =? tLink) then clearFlag d fActive else d)
                         (combine (map Z.of_nat (seq 0 (length (stk st)))) (stk st)))
        else st)
       (let st := removeNode st' bracketId in
        let st := setStk st (delStack (stk st) odi (odi + 1)) in
        if kind =? LinkKind then
          setStk st (map (fun id : Z * delim => let '(i, d) := id in
                           if (i <? odi) && (d_typ d =? tLink) then clearFlag d fActive else d)
                         (combine (map Z.of_nat (seq 0 (length (stk st)))) (stk st)))
        else st).
  Proof.
    intros HI. cbv zeta. pose proof (IR_removeNode sD sQ sg st st' bracketId HI) as I1.
    rewrite (IR_stk sD sQ sg _ _ I1).
    pose proof (IR_setStk sD sQ sg _ _ (delStack (stk (removeNode st bracketId)) odi (odi + 1)) I1) as I2.
    destruct (kind =? LinkKind); [|exact I2]. rewrite (IR_stk sD sQ sg _ _ I2). apply (IR_setStk sD sQ sg), I2.
  Qed.
  Lemma finishLink_tail_rk st kind odi bracketId :
    rk (let st := removeNode st bracketId in
        let st := setStk st (delStack (stk st) odi (odi + 1)) in
        if kind =? LinkKind then
          setStk st (map (fun id : Z * delim => let '(i, d) := id in
                           if (i <? odi) && (d_typ d =? tLink) then clearFlag d fActive else d)
                         (combine (map Z.of_nat (seq 0 (length (stk st)))) (stk st)))
        else st) = rk (removeNode st bracketId).
  Proof. cbv zeta. destruct (kind =? LinkKind); reflexivity. Qed.

  Theorem IR_finishLinkG U pf hi st st' kind odi : IR st st' -> IS3.J sD U hi st -> SL (rk st) -> 0 <= odi ->
    IR (finishLinkG pf st kind odi) (finishLinkG pf st' kind odi) /\ SL (rk (finishLinkG pf st kind odi)).
  Proof.
    intros HI HJ HS Ho. destruct (IR_processEmphasisF U pf hi st st' (odi + 1) HI HJ HS ltac:(lia)) as (I1 & _ & S1).
    unfold finishLinkG. rewrite (IR_stk sD sQ sg st st' HI). split.
    - apply (finishLink_tail _ _ kind odi _ I1).
    - cbv zeta. rewrite (finishLink_tail_rk (processEmphasisF pf st (odi + 1)) kind odi). apply (SL_removeNode sD), S1.
  Qed.
  Theorem IR_finishLink U hi st st' kind odi : IR st st' -> IS3.J sD U hi st -> SL (rk st) -> 0 <= odi ->
    TI st -> sumW st (stk st) <= len (isrc st) ->
    IR (finishLink st kind odi) (finishLink st' kind odi) /\ SL (rk (finishLink st kind odi)).
  Proof.
    intros HI HJ HS Ho HT HW. destruct (IR_processEmphasis U hi st st' (odi + 1) HI HJ HS ltac:(lia) HT HW) as (I1 & _ & S1).
    unfold finishLink. rewrite (IR_stk sD sQ sg st st' HI). split.
    - apply (finishLink_tail _ _ kind odi _ I1).
    - cbv zeta. rewrite (finishLink_tail_rk (processEmphasis st (odi + 1)) kind odi). apply (SL_removeNode sD), S1.
  Qed.

  (* J after finishLinkG (IS5.finishLink_J with the fuel as a parameter) *)
  Lemma processEmphasisF_stk pf st low od high : stk st = low ++ od :: high -> stk (processEmphasisF pf st (len low + 1)) = low ++ [od].
  Proof.
    intros Es. unfold processEmphasisF. cbn [stk setStk]. pose proof (PEProof.len_nonneg low) as Hl.
    rewrite (pe_loop_prefix (len low + 1)); [| lia | |lia].
    - rewrite Es. replace (low ++ od :: high) with ((low ++ [od]) ++ high) by (rewrite <- app_assoc; reflexivity).
      replace (len low + 1) with (len (low ++ [od])) by (rewrite PEProof.len_app; reflexivity). apply GI0.upto_app_len.
    - destruct (OBI_init (len low + 1)) as [A B]. split; assumption.
  Qed.
  Lemma finishLinkG_J U pf hi st kind low od high : IS3.J sD U hi st -> stk st = low ++ od :: high ->
    IS3.J sD U hi (finishLinkG pf st kind (len low)).
  Proof.
    intros HJ Es. unfold finishLinkG. pose proof (PEProof.len_nonneg low) as Hl.
    replace (nthD (stk st) (len low)) with od by (rewrite Es; symmetry; apply GI0.nthD_app_len).
    pose proof (processEmphasisF_J U pf hi st (len low + 1) HJ ltac:(lia)) as H1.
    pose proof (processEmphasisF_stk pf st low od high Es) as Es1.
    set (st1 := processEmphasisF pf st (len low + 1)) in *.
    assert (H2 : IS3.J sD U hi (setStk (removeNode st1 (d_node od)) low)).
    { destruct H1 as [A B C D E F G V]. rewrite Es1 in G, E, F.
      apply chain_app in G. destruct G as (m & GP & (s & e & Od & Hm & Hse & Dd & Gn)). cbn in Gn.
      constructor; cbn [setStk removeNode setRk isrc unp nid rk stk]; try assumption.
      - apply removeId_idb. exact D.
      - apply Forall_app in E. tauto.
      - apply removeId_cok. eapply cokF_mono; [| apply Z.le_refl |exact F]. intros x Hx. apply memZ_In in Hx. apply memZ_In.
        rewrite sids_app. apply in_or_app. left. exact Hx.
      - apply (chain_weaken sD _ _ 0 m); [lia|lia|]. apply (chain_ext sD (rk st1)); [|exact GP].
        intros d Hd. apply occF_removeId.
        + apply (chain_other sD _ _ _ _ _ s e GP Od Hse); [left; lia|exact Hd].
        + rewrite Od. constructor; [reflexivity|constructor].
        + destruct (chain_In sD _ _ _ _ d GP Hd) as (s' & e' & Od' & _). rewrite Od'. constructor; [reflexivity|constructor].
      - apply removeId_vok. exact V. }
    cbv zeta.
    replace (delStack (stk (removeNode st1 (d_node od))) (len low) (len low + 1)) with low.
    2:{ change (stk (removeNode st1 (d_node od))) with (stk st1). rewrite Es1.
        pose proof (delStack_app3 low [od] (@nil delim)) as Hd. rewrite app_nil_r in Hd. change (len [od]) with 1 in Hd. rewrite Hd. symmetry. apply app_nil_r. }
    destruct (kind =? LinkKind); [|exact H2].
    change (stk (setStk (removeNode st1 (d_node od)) low)) with low.
    apply (J_stk_rel sD U hi (setStk (removeNode st1 (d_node od)) low)); [|exact H2]. apply deact_rel.
  Qed.
  Corollary EmphOK_finishLinkG U pf st st' kind low od high : IR st st' -> EmphOK U st -> stk st = low ++ od :: high ->
    IR (finishLinkG pf st kind (len low)) (finishLinkG pf st' kind (len low)) /\ EmphOK U (finishLinkG pf st kind (len low)).
  Proof.
    intros HI [(hi & HJ) HS] Es. pose proof (PEProof.len_nonneg low) as Hl.
    destruct (IR_finishLinkG U pf hi st st' kind (len low) HI HJ HS Hl) as [A B].
    split; [exact A|]. split; [exists hi; apply (finishLinkG_J U pf hi st kind low od high HJ Es)|exact B].
  Qed.

  (* ---------------------------------------------------------------- lookForLinkOrImage keeps the invariants *)
  Lemma J_lfl U hi : forall f st i, IS3.J sD U hi st -> i < len (stk st) -> IS3.J sD U hi (fst (lfl f st i)).
  Proof.
    induction f as [|f IH]; intros st i HJ Hi; cbn [lfl]; [exact HJ|]. destruct (Z.ltb_spec i 0); [exact HJ|].
    destruct (_ || _); [|apply IH; [exact HJ|lia]]. destruct (negb _); cbn [fst]; [|exact HJ].
    apply J_delStack; [exact HJ|lia|lia|lia].
  Qed.
  Theorem EmphOK_lookForLinkOrImage U st st' : IR st st' -> EmphOK U st ->
    IR (fst (lookForLinkOrImage st)) (fst (lookForLinkOrImage st')) /\ snd (lookForLinkOrImage st') = snd (lookForLinkOrImage st) /\
    EmphOK U (fst (lookForLinkOrImage st)).
  Proof.
    intros HI [(hi & HJ) HS]. destruct (IR_lookForLinkOrImage sD sQ sg st st' HI) as [A B]. split; [exact A|]. split; [exact B|].
    unfold lookForLinkOrImage. split.
    - exists hi. apply J_lfl; [exact HJ|lia].
    - destruct (lfl_rk (S (length (stk st))) st (len (stk st) - 1)) as (E & _). rewrite E. exact HS.
  Qed.
End Main.

(* ================================================================ summary: the main statements *)
Print Assumptions findNode_q.
Print Assumptions updNode_q.
Print Assumptions splitAtId_q.
Print Assumptions splitBeforeId_q.
Print Assumptions wrapLevel_q.
Print Assumptions wrapIn_q_some.
Print Assumptions wrapIn_q_top.
Print Assumptions wrapIn_q_none.
Print Assumptions removeId_q.
Print Assumptions hasId_q.
Print Assumptions nodeOf_q.
Print Assumptions IR_updN.
Print Assumptions IR_wrap_some.
Print Assumptions IR_wrap_none.
Print Assumptions IR_wrap_none_gen.
Print Assumptions SL_updN.
Print Assumptions SL_wrap.
Print Assumptions SL_removeNode.
Print Assumptions SL_appendKid.
Print Assumptions SL_addNode.
Print Assumptions SL_addText.
Print Assumptions IR_removeNode.
Print Assumptions IR_appendKid.
Print Assumptions IR_addNode.
Print Assumptions IR_addText.
Print Assumptions spanLen_q.
Print Assumptions spanEnd_q_gsp.
Print Assumptions isLastSpan_q.
Print Assumptions unpFrom_q.
Print Assumptions IR_advanceTo.
Print Assumptions IR_lookForLinkOrImage.
Print Assumptions pe_pair_q.
Print Assumptions pe_step_q.
Print Assumptions pe_loop_q.
Print Assumptions IR_processEmphasisF.
Print Assumptions EmphOK_processEmphasisF.
Print Assumptions IR_processEmphasis.
Print Assumptions IR_finishLinkG.
Print Assumptions EmphOK_finishLinkG.
Print Assumptions IR_finishLink.
Print Assumptions EmphOK_lookForLinkOrImage.
Print Assumptions finishLinkG_J.
Print Assumptions processEmphasisF_J.
