From Coq Require Import List ZArith Lia Bool.
Import ListNotations.
Require Import Base Tree Rdr Link Leaf3e.
Open Scope Z_scope.

(* positions the multi-line reader can reach are bounded by the ends of its spans *)
Section RB.
  Variable B : Z.
  Hypothesis HB : -1 <= B.
  Definition spanOK (i : inline) : Prop := istart i <= B /\ iend i <= B.
  Definition RB (r : reader) : Prop := Forall spanOK (r_spans r) /\ r_pos r <= B /\ r_prev r + 1 <= B.

  Lemma Forall_sublist {A} (P : A -> Prop) l1 l2 : sublist l1 l2 -> Forall P l2 -> Forall P l1.
  Proof. intros Hs H. rewrite Forall_forall in *. intros x Hx. apply H, Hs, Hx. Qed.

  Lemma nodeIdx_ge : forall spans pos k, nodeIdx spans pos k = -1 \/ k <= nodeIdx spans pos k.
  Proof.
    induction spans as [|i r IH]; intros pos k; [left; reflexivity|]. cbn [nodeIdx].
    destruct (pos <? istart i); [left; reflexivity|]. destruct (spanHas i pos); [right; lia|].
    destruct (IH pos (k + 1)) as [E|E]; [left; exact E|right; lia].
  Qed.
  Lemma nodeIdx_has : forall spans pos k, 0 <= k -> k <= nodeIdx spans pos k ->
    exists n, hd_error (from_ spans (nodeIdx spans pos k - k)) = Some n /\ spanHas n pos = true.
  Proof.
    induction spans as [|i r IH]; intros pos k Hk H; [cbn in H; lia|]. cbn [nodeIdx] in *.
    destruct (pos <? istart i); [lia|]. destruct (spanHas i pos) eqn:Eh.
    - replace (k - k) with 0 by lia. exists i. split; [reflexivity|exact Eh].
    - assert (Hn : k + 1 <= nodeIdx r pos (k + 1)) by (destruct (nodeIdx_ge r pos (k + 1)) as [E|E]; lia).
      destruct (IH pos (k + 1) ltac:(lia) Hn) as (n & E & Hh). exists n. split; [|exact Hh].
      unfold from_ in *. replace (Z.to_nat (nodeIdx r pos (k + 1) - k)) with (S (Z.to_nat (nodeIdx r pos (k + 1) - (k + 1)))) by lia.
      exact E.
  Qed.
  Lemma curNode_has r n : fst (curNode r) = Some n -> spanHas n (r_pos r) = true.
  Proof.
    unfold curNode. cbv zeta. destruct (Z.ltb_spec (nodeIndexForPosition (r_spans r) (r_pos r)) 0) as [L|L]; [discriminate|].
    cbn [fst]. intros E. unfold nodeIndexForPosition in *.
    destruct (nodeIdx_has (r_spans r) (r_pos r) 0 ltac:(lia) L) as (n' & E' & Hh).
    replace (nodeIdx (r_spans r) (r_pos r) 0 - 0) with (nodeIdx (r_spans r) (r_pos r) 0) in E' by lia. congruence.
  Qed.
  Lemma spanHas_lt n pos : spanHas n pos = true -> pos < iend n.
  Proof. unfold spanHas. rewrite !andb_true_iff. intros (_ & H). apply Z.ltb_lt in H. exact H. Qed.

  Lemma RB_curNode r : RB r -> RB (snd (curNode r)).
  Proof.
    intros (A & B1 & C). pose proof (curNode_spans r) as Hs. unfold RB. split; [eapply Forall_sublist; eassumption|].
    unfold curNode. cbv zeta. destruct (_ <? 0); cbn; tauto.
  Qed.
  Lemma RB_current r : RB r -> RB (snd (current r)).
  Proof.
    intros H. unfold current. destruct (_ <=? _); [exact H|]. pose proof (RB_curNode r H) as H1.
    destruct (curNode r) as [n r']. cbn [snd] in H1. destruct (_ =? IndentKind); [exact H1|]. destruct (_ =? 0); exact H1.
  Qed.
  Lemma RB_remaining r : RB r -> RB (snd (remainingNodeBytes r)).
  Proof. intros H. unfold remainingNodeBytes. pose proof (RB_curNode r H) as H1. destruct (curNode r) as [[n|] r']; exact H1. Qed.

  Lemma nextSpan_in sp i sp' : nextSpan sp = Some (i, sp') -> In i sp.
  Proof.
    induction sp as [|x r IH]; [discriminate|]. cbn [nextSpan]. destruct (_ || _ || _).
    - intros E. inversion E; subst. left. reflexivity.
    - intros E. right. apply IH, E.
  Qed.

  Lemma RB_next r : RB r -> RB (snd (next r)) /\ (fst (next r) = true -> r_prev (snd (next r)) = r_pos r).
  Proof.
    intros H. unfold next. pose proof (RB_curNode r H) as H1. pose proof (curNode_has r) as Hh. pose proof (curNode_in r) as Hi0.
    assert (Ep : r_pos (snd (curNode r)) = r_pos r) by (unfold curNode; cbv zeta; destruct (_ <? 0); reflexivity).
    destruct (curNode r) as [[node|] r1]; cbn [fst snd] in *; [|split; [exact H1|discriminate]].
    specialize (Hh node eq_refl). apply spanHas_lt in Hh. specialize (Hi0 node eq_refl).
    destruct H as (A0 & _ & _). rewrite Forall_forall in A0. destruct (A0 node Hi0) as [_ Hnode].
    destruct H1 as (A & B1 & C).
    destruct ((ikind node =? IndentKind) && (r_vpos r1 <? iindent node)).
    { cbn [snd fst r_prev r_pos r_spans]. split; [|intros _; exact Ep].
      unfold RB. cbn [r_spans r_pos r_prev]. repeat split; try assumption; lia. }
    destruct (negb (ikind node =? IndentKind) && (r_pos r1 + 1 <? iend node)) eqn:E2.
    { cbn [snd fst r_prev]. split; [|intros _; exact Ep].
      unfold RB. cbn [r_spans r_pos r_prev]. repeat split; try assumption; lia. }
    destruct (nextSpan (tl (r_spans r1))) as [[i sp]|] eqn:En.
    - cbn [snd fst r_prev]. split; [|intros _; exact Ep].
      pose proof (nextSpan_in _ _ _ En) as Hi. pose proof (nextSpan_sub _ _ _ En) as Hsub.
      assert (Hi' : In i (r_spans r1)) by (destruct (r_spans r1); [destruct Hi|right; exact Hi]).
      rewrite Forall_forall in A. destruct (A i Hi') as [S1 S2].
      unfold RB. cbn [r_spans r_pos r_prev]. repeat split; try lia.
      apply Forall_forall. intros x Hx. apply A. apply Hsub in Hx. destruct (r_spans r1); [destruct Hx|right; exact Hx].
    - cbn [snd fst]. split; [|discriminate].
      unfold RB. cbn [r_spans r_pos r_prev]. repeat split; try lia. constructor.
  Qed.
  Lemma RB_next' r : RB r -> RB (snd (next r)). Proof. intros H. apply RB_next, H. Qed.

  (* ---- the link-definition scanners ---- *)
  Ltac step :=
    repeat match goal with
    | |- context [current ?r] => let H := fresh "Hc" in let c := fresh "c" in let r' := fresh "r" in
        match goal with Hr : RB r |- _ => pose proof (RB_current r Hr) as H; destruct (current r) as [c r']; cbn [snd] in H end
    | |- context [next ?r] => let H := fresh "Hn" in let ok := fresh "ok" in let r' := fresh "r" in
        match goal with Hr : RB r |- _ => pose proof (RB_next' r Hr) as H; destruct (next r) as [ok r']; cbn [snd] in H end
    end.

  Lemma RB_skipLinkSpace_loop : forall fuel r, RB r -> RB (snd (skipLinkSpace_loop fuel r)).
  Proof.
    induction fuel as [|f IH]; intros r H; [exact H|]. cbn [skipLinkSpace_loop]. step.
    destruct (isSpaceTabOrLineEnding c); [|exact Hc]. step. destruct ok; [apply IH; assumption|assumption].
  Qed.
  Lemma RB_skipLinkSpace fuel r : RB r -> RB (snd (skipLinkSpace fuel r)).
  Proof. intros H. unfold skipLinkSpace. step. destruct (c =? 0); [assumption|apply RB_skipLinkSpace_loop; assumption]. Qed.
  Lemma RB_skipSpacesAndTabs : forall fuel r, RB r -> RB (snd (skipSpacesAndTabs fuel r)).
  Proof.
    induction fuel as [|f IH]; intros r H; [exact H|]. cbn [skipSpacesAndTabs]. step.
    destruct (isSpTab c); [|exact Hc]. step. destruct ok; [apply IH; assumption|assumption].
  Qed.
  (* readEOL: the reader stays bounded and the position it reports is at most B *)
  Lemma RB_readEOL fuel r : RB r -> RB (snd (readEOL fuel r)) /\ fst (readEOL fuel r) <= B.
  Proof.
    intros H. unfold readEOL. pose proof (RB_skipSpacesAndTabs fuel r H) as H1.
    destruct (skipSpacesAndTabs fuel r) as [ok r1]. cbn [snd] in H1.
    destruct (negb ok); [cbn [fst snd]; split; [exact H1|apply H1]|]. step.
    destruct (c =? 13).
    - step. destruct (negb ok0); [cbn [fst snd]; split; [assumption|apply Hn]|]. step.
      destruct (c0 =? 10); [step; cbn [fst snd]; split; [assumption|apply Hn0]|cbn [fst snd]; split; [assumption|apply Hc0]].
    - destruct (c =? 10); [step; cbn [fst snd]; split; [assumption|apply Hn]|].
      cbn [fst snd]. split; [assumption|exact HB].
  Qed.

  Lemma RB_ll_skip : forall fuel r chars r' c', RB r -> ll_skip fuel r chars = Some (r', c') -> RB r'.
  Proof.
    induction fuel as [|f IH]; intros r chars r' c' H E; [discriminate|]. cbn [ll_skip] in E. revert E. step.
    destruct (negb ok); [discriminate|]. step.
    destruct (_ || _ || _); [discriminate|]. destruct (negb _); [intros E; inversion E; subst; assumption|].
    intros E. eapply IH; [|exact E]. assumption.
  Qed.
  Lemma RB_ll_body : forall fuel r chars ie r' ie', RB r -> ll_body fuel r chars ie = Some (r', ie') -> RB r'.
  Proof.
    induction fuel as [|f IH]; intros r chars ie r' ie' H E; [discriminate|]. cbn [ll_body] in E. revert E. step.
    destruct (negb _); [intros E; inversion E; subst; assumption|].
    destruct (c =? 92).
    - step. destruct (negb ok); [discriminate|]. step. destruct (negb ok0); [discriminate|]. intros E. eapply IH; [|exact E]. assumption.
    - step. destruct (negb ok); [discriminate|]. intros E. eapply IH; [|exact E]. assumption.
  Qed.
  Lemma RB_parseLinkLabel fuel r : RB r -> RB (snd (parseLinkLabel fuel r)).
  Proof.
    intros H. unfold parseLinkLabel. step. destruct (negb (c =? 91)); [assumption|].
    destruct (ll_skip fuel r0 0) as [[r1 chars]|] eqn:E1; [|assumption].
    pose proof (RB_ll_skip _ _ _ _ _ Hc E1) as H1.
    destruct (ll_body fuel r1 chars (-1)) as [[r2 ie]|] eqn:E2; [|assumption].
    pose proof (RB_ll_body _ _ _ _ _ _ H1 E2) as H2. step.
    destruct (negb (c0 =? 93)); [assumption|]. step. assumption.
  Qed.
  Lemma RB_ld_angle : forall fuel r start, RB r -> RB (snd (ld_angle fuel r start)).
  Proof.
    induction fuel as [|f IH]; intros r start H; [exact H|]. cbn [ld_angle]. step.
    destruct (negb ok); [assumption|]. step. destruct (_ || _); [assumption|].
    destruct (c =? 92).
    - step. destruct (negb ok0); [assumption|]. step. destruct (_ || _); [assumption|apply IH; assumption].
    - destruct (c =? 62); [step; assumption|apply IH; assumption].
  Qed.
  Lemma RB_ld_bare : forall fuel r paren, RB r -> RB (ld_bare fuel r paren).
  Proof.
    induction fuel as [|f IH]; intros r paren H; [exact H|]. cbn [ld_bare]. step.
    destruct (_ || _); [assumption|].
    destruct (c =? 92).
    - step. destruct (negb ok); [assumption|]. step. destruct (_ || _); [assumption|]. step. destruct ok0; [apply IH|]; assumption.
    - destruct (c =? 40); [step; destruct ok; [apply IH|]; assumption|].
      destruct (c =? 41); [destruct (_ <? 0); [assumption|]; step; destruct ok; [apply IH|]; assumption|].
      step. destruct ok; [apply IH|]; assumption.
  Qed.
  Lemma RB_parseLinkDestination fuel r : RB r -> RB (snd (parseLinkDestination fuel r)).
  Proof.
    intros H. unfold parseLinkDestination. step. destruct (c =? 60); [apply RB_ld_angle; assumption|].
    destruct (_ && _ && _); [cbn [snd]; apply RB_ld_bare; assumption|assumption].
  Qed.
  Lemma RB_lt_loop : forall fuel r start term, RB r -> RB (snd (lt_loop fuel r start term)).
  Proof.
    induction fuel as [|f IH]; intros r start term H; [exact H|]. cbn [lt_loop]. step.
    destruct (negb ok); [assumption|]. step.
    destruct (c =? 92); [step; destruct (negb ok0); [assumption|apply IH; assumption]|].
    destruct (c =? term); [step; assumption|apply IH; assumption].
  Qed.
  Lemma RB_parseLinkTitle fuel r : RB r -> RB (snd (parseLinkTitle fuel r)).
  Proof. intros H. unfold parseLinkTitle. step. destruct (negb _); [assumption|apply RB_lt_loop; assumption]. Qed.
End RB.
