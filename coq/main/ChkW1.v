(* ChkW1.v -- T30, stage 2: the block-layer invariant W on entries ("line entries end with their line ending").
   Bound-free formulation: an entry whose end is <= 0 counts as good, which makes the predicate stable under the shift of
   pending blocks (Driver.makeRoot) without any information on where the entries lie.
     gd u   : the span of u is empty, or ends at an offset <= 0, or its last byte is a line-ending byte of the source
     ib u   : an Indent entry covers spaces / tabs of the source only (or starts at a negative offset)
   W x b:
     - Unparsed entries do not sit in HTML blocks, RawHTML entries only sit in HTML blocks;
     - every RawHTML entry is gd, except that the last entry of the block may fail when x (the block is on the right spine
       of the tree and the current line has no line ending);
     - every Unparsed entry is gd, except that the last entry of the block may fail when x or when the block is closed
       (the content of an ATX heading);
     - no open block is a setext heading;
     - the children: all but the last with x = false, the last one with x. *)
From Coq Require Import List ZArith Lia Bool.
Import ListNotations.
Require Import Base Tree Rdr Link Collect Html Recog LP Rules Starts Driver L2Kind2 ShapesBase.
Open Scope Z_scope.

Definition isEolB (c : Z) : bool := (c =? 10) || (c =? 13).
Definition nilb {A} (l : list A) : bool := match l with [] => true | _ => false end.

Section W.
  Variable src : bytes.
  Definition gd (u : inline) : bool := (iend u <=? 0) || (iend u <=? istart u) || isEolB (at_ src (iend u - 1)).
  Definition ib (u : inline) : bool :=
    (istart u <? 0) || ((iend u <=? len src) && forallb isSpTab (sub src (istart u) (iend u))).
  Definition eok (K : Z) (er eu : bool) (u : inline) : bool :=
    if ikind u =? UnparsedKind then negb (K =? HTMLBlockKind) && (gd u || eu)
    else if ikind u =? RawHTMLKind then (K =? HTMLBlockKind) && (gd u || er)
    else if ikind u =? IndentKind then ib u
    else true.
  Fixpoint ents (K : Z) (xr xu : bool) (ik : list inline) : bool :=
    match ik with [] => true | u :: r => eok K (xr && nilb r) (xu && nilb r) u && ents K xr xu r end.
  Definition loc (x : bool) (b : block) : bool :=
    ents (bkind b) x (x || negb (isOpen b)) (bik b) && negb (isOpen b && (bkind b =? SetextHeadingKind)).
  Fixpoint Wb (x : bool) (b : block) : bool :=
    match b with Blk K s e bk ik a n c l lb =>
      loc x (Blk K s e bk ik a n c l lb) &&
      (fix wl (l : list block) : bool := match l with [] => true | [k] => Wb x k | k :: r => Wb false k && wl r end) bk
    end.
  Fixpoint WL (x : bool) (l : list block) : bool :=
    match l with [] => true | [k] => Wb x k | k :: r => Wb false k && WL x r end.
  Lemma Wb_eq x b : Wb x b = loc x b && WL x (bkids b).
  Proof.
    destruct b as [K s e bk ik a n c l lb]. cbn [Wb bkids]. f_equal.
    induction bk as [|k r IH]; [reflexivity|]. destruct r as [|k2 r]; [reflexivity|].
    change (WL x (k :: k2 :: r)) with (Wb false k && WL x (k2 :: r)). rewrite <- IH. reflexivity.
  Qed.
  Lemma Wb_parts x b : Wb x b = true -> loc x b = true /\ WL x (bkids b) = true.
  Proof. rewrite Wb_eq. apply andb_true_iff. Qed.
  Lemma Wb_mk x b : loc x b = true -> WL x (bkids b) = true -> Wb x b = true.
  Proof. intros A B. rewrite Wb_eq, A, B. reflexivity. Qed.

  (* ---- entries ---- *)
  Lemma eok_mono K er eu er' eu' u : (er = true -> er' = true) -> (eu = true -> eu' = true) ->
    eok K er eu u = true -> eok K er' eu' u = true.
  Proof.
    intros H1 H2. unfold eok. destruct (ikind u =? UnparsedKind).
    - intros H. apply andb_true_iff in H. destruct H as [A B]. rewrite A. cbn [andb]. apply orb_true_iff in B.
      destruct B as [B|B]; [rewrite B; reflexivity|rewrite (H2 B); apply orb_true_r].
    - destruct (ikind u =? RawHTMLKind); [|tauto].
      intros H. apply andb_true_iff in H. destruct H as [A B]. rewrite A. cbn [andb]. apply orb_true_iff in B.
      destruct B as [B|B]; [rewrite B; reflexivity|rewrite (H1 B); apply orb_true_r].
  Qed.
  Lemma ents_mono K xr xu xr' xu' : (xr = true -> xr' = true) -> (xu = true -> xu' = true) ->
    forall ik, ents K xr xu ik = true -> ents K xr' xu' ik = true.
  Proof.
    intros H1 H2. induction ik as [|u r IH]; intros H; [reflexivity|]. cbn [ents] in *.
    apply andb_true_iff in H. destruct H as [A B]. rewrite (IH B), andb_true_r. revert A. apply eok_mono.
    - intros E. apply andb_true_iff in E. destruct E as [E1 E2]. rewrite (H1 E1), E2. reflexivity.
    - intros E. apply andb_true_iff in E. destruct E as [E1 E2]. rewrite (H2 E1), E2. reflexivity.
  Qed.
  (* all entries are good: the flags do not matter *)
  Lemma ents_ff K xr xu ik : ents K false false ik = true -> ents K xr xu ik = true.
  Proof. apply ents_mono; discriminate. Qed.

  Lemma ents_app K xr xu a b : b <> [] -> ents K xr xu (a ++ b) = ents K false false a && ents K xr xu b.
  Proof.
    intros Hb. induction a as [|u r IH]; [reflexivity|]. cbn [app ents]. rewrite IH.
    assert (E : nilb (r ++ b) = false) by (destruct r; [destruct b; [congruence|reflexivity]|reflexivity]).
    rewrite E, !andb_false_r, !andb_false_l. rewrite andb_assoc. reflexivity.
  Qed.
  Lemma ents_snoc K xr xu ik u : ents K false false ik = true -> eok K xr xu u = true -> ents K xr xu (ik ++ [u]) = true.
  Proof.
    intros A B. rewrite ents_app by discriminate. rewrite A. cbn [ents nilb andb]. rewrite !andb_true_r. exact B.
  Qed.
  (* a prefix of the list, any flags *)
  Lemma ents_prefix K xr xu xr' xu' a b : ents K xr xu (a ++ b) = true -> (b = [] -> (xr = true -> xr' = true) /\ (xu = true -> xu' = true)) ->
    ents K xr' xu' a = true.
  Proof.
    intros H Hb. destruct b as [|y b].
    - rewrite app_nil_r in H. destruct (Hb eq_refl) as [H1 H2]. revert H. apply ents_mono; assumption.
    - rewrite ents_app in H by discriminate. apply andb_true_iff in H. destruct H as [H _]. apply ents_ff. exact H.
  Qed.
  Lemma ents_suffix K xr xu a b : ents K xr xu (a ++ b) = true -> ents K xr xu b = true.
  Proof.
    intros H. destruct b as [|y b]; [reflexivity|]. rewrite ents_app in H by discriminate. apply andb_true_iff in H. tauto.
  Qed.
  Lemma ents_from K xr xu ik n : ents K xr xu ik = true -> ents K xr xu (from_ ik n) = true.
  Proof. intros H. unfold from_. rewrite <- (firstn_skipn (Z.to_nat n) ik) in H. apply ents_suffix in H. exact H. Qed.

  (* entries of kinds that are not constrained *)
  Definition freeK (u : inline) : bool :=
    negb ((ikind u =? UnparsedKind) || (ikind u =? RawHTMLKind) || (ikind u =? IndentKind)).
  Lemma eok_free K er eu u : freeK u = true -> eok K er eu u = true.
  Proof.
    unfold freeK, eok. intros H. apply negb_true_iff in H. apply orb_false_iff in H. destruct H as [H H3].
    apply orb_false_iff in H. destruct H as [H1 H2]. rewrite H1, H2, H3. reflexivity.
  Qed.
  Lemma ents_free K xr xu ik : forallb freeK ik = true -> ents K xr xu ik = true.
  Proof.
    induction ik as [|u r IH]; intros H; [reflexivity|]. cbn [forallb ents] in *. apply andb_true_iff in H. destruct H as [A B].
    rewrite (eok_free _ _ _ _ A), (IH B). reflexivity.
  Qed.

  (* ---- lists of children ---- *)
  Lemma Wb_weaken b : Wb false b = true -> forall x, Wb x b = true.
  Proof.
    revert b. fix IH 1. intros b H x. destruct x; [|exact H].
    apply Wb_parts in H. destruct H as [HL HK]. apply Wb_mk.
    - unfold loc in *. apply andb_true_iff in HL. destruct HL as [A B]. rewrite B, andb_true_r.
      revert A. apply ents_mono; [discriminate|]. intros E. reflexivity.
    - destruct b as [K s e bk ik a n c l lb]. cbn [bkids] in *. clear HL. induction bk as [|k r IHr]; [reflexivity|].
      destruct r as [|k2 r]; [cbn [WL] in *; apply IH, HK|].
      change (WL false (k :: k2 :: r)) with (Wb false k && WL false (k2 :: r)) in HK.
      change (WL true (k :: k2 :: r)) with (Wb false k && WL true (k2 :: r)).
      apply andb_true_iff in HK. destruct HK as [H1 H2]. rewrite H1. apply IHr, H2.
  Qed.
  Lemma WL_weaken l : WL false l = true -> forall x, WL x l = true.
  Proof.
    induction l as [|k r IH]; intros H x; [reflexivity|]. destruct r as [|k2 r]; [cbn [WL] in *; apply Wb_weaken, H|].
    change (WL false (k :: k2 :: r)) with (Wb false k && WL false (k2 :: r)) in H.
    change (WL x (k :: k2 :: r)) with (Wb false k && WL x (k2 :: r)).
    apply andb_true_iff in H. destruct H as [H1 H2]. rewrite H1. apply IH, H2.
  Qed.
  Lemma WL_cons x k r : r <> [] -> WL x (k :: r) = Wb false k && WL x r.
  Proof. destruct r; [congruence|reflexivity]. Qed.
  Lemma WL_app x a b : b <> [] -> WL x (a ++ b) = WL false a && WL x b.
  Proof.
    intros Hb. induction a as [|k r IH]; [reflexivity|]. cbn [app].
    rewrite WL_cons by (destruct r; [exact Hb|discriminate]). rewrite IH. destruct r as [|k2 r].
    - cbn [WL]. reflexivity.
    - rewrite (WL_cons false k (k2 :: r)) by discriminate. rewrite andb_assoc. reflexivity.
  Qed.
  Lemma WL_all_false l : WL false l = forallb (Wb false) l.
  Proof.
    induction l as [|k r IH]; [reflexivity|]. destruct r as [|k2 r]; [cbn; rewrite andb_true_r; reflexivity|].
    rewrite WL_cons by discriminate. rewrite IH. reflexivity.
  Qed.
  Lemma WL_removelast x l : WL x l = true -> WL false (removelast l) = true.
  Proof.
    induction l as [|k r IH]; intros H; [reflexivity|]. destruct r as [|k2 r]; [reflexivity|].
    rewrite WL_cons in H by discriminate. apply andb_true_iff in H. destruct H as [H1 H2].
    change (removelast (k :: k2 :: r)) with (k :: removelast (k2 :: r)).
    rewrite WL_all_false. cbn [forallb]. rewrite H1. rewrite <- WL_all_false. apply IH, H2.
  Qed.
  Lemma lastBlock_split b c : lastBlock b = Some c -> bkids b = removelast (bkids b) ++ [c].
  Proof.
    unfold lastBlock. intros H. destruct (rev (bkids b)) as [|y r] eqn:Er; [discriminate|]. inversion H; subst y.
    assert (E : bkids b = rev r ++ [c]) by (rewrite <- (rev_involutive (bkids b)), Er; reflexivity).
    rewrite E at 2. rewrite removelast_app by discriminate. cbn [removelast]. rewrite app_nil_r. exact E.
  Qed.
  Lemma W_lastBlock x b c : Wb x b = true -> lastBlock b = Some c -> Wb x c = true.
  Proof.
    intros H Hl. apply Wb_parts in H. destruct H as [_ H]. rewrite (lastBlock_split b c Hl) in H.
    rewrite WL_app in H by discriminate. apply andb_true_iff in H. destruct H as [_ H]. exact H.
  Qed.

  (* ---- setters ---- *)
  Lemma loc_ext x b b' : bkind b' = bkind b -> bik b' = bik b -> bend b' = bend b -> loc x b' = loc x b.
  Proof. intros A B C. unfold loc, isOpen. rewrite A, B, C. reflexivity. Qed.
  Lemma Wb_ext x b b' : bkind b' = bkind b -> bik b' = bik b -> bend b' = bend b -> bkids b' = bkids b -> Wb x b' = Wb x b.
  Proof. intros A B C D. rewrite !Wb_eq, D, (loc_ext x b b' A B C). reflexivity. Qed.
  Lemma Wb_set_bn x b v : Wb x (set_bn b v) = Wb x b. Proof. apply Wb_ext; destruct b; reflexivity. Qed.
  Lemma Wb_set_bchar x b v : Wb x (set_bchar b v) = Wb x b. Proof. apply Wb_ext; destruct b; reflexivity. Qed.
  Lemma Wb_set_bindent x b v : Wb x (set_bindent b v) = Wb x b. Proof. apply Wb_ext; destruct b; reflexivity. Qed.
  Lemma Wb_set_bloose x b v : Wb x (set_bloose b v) = Wb x b. Proof. apply Wb_ext; destruct b; reflexivity. Qed.
  Lemma Wb_set_blast x b v : Wb x (set_blast b v) = Wb x b. Proof. apply Wb_ext; destruct b; reflexivity. Qed.
  Lemma Wb_set_bstart x b v : Wb x (set_bstart b v) = Wb x b. Proof. apply Wb_ext; destruct b; reflexivity. Qed.

  Lemma W_set_bkids x b ks : Wb x b = true -> WL x ks = true -> Wb x (set_bkids b ks) = true.
  Proof.
    intros H Hk. apply Wb_parts in H. destruct H as [H _]. apply Wb_mk.
    - rewrite (loc_ext x b) by (destruct b; reflexivity). exact H.
    - destruct b; exact Hk.
  Qed.
  Lemma W_set_lastBlocks x b repl : Wb x b = true -> WL x repl = true -> Wb x (set_lastBlocks b repl) = true.
  Proof.
    intros H Hr. unfold set_lastBlocks. apply W_set_bkids; [exact H|]. apply Wb_parts in H. destruct H as [_ H].
    apply WL_removelast in H. destruct repl as [|y r].
    - rewrite app_nil_r. apply WL_weaken, H.
    - rewrite WL_app by discriminate. rewrite H, Hr. reflexivity.
  Qed.
  Lemma W_append x b nb : Wb false b = true -> Wb x nb = true -> Wb x (set_bkids b (bkids b ++ [nb])) = true.
  Proof.
    intros H Hn. apply W_set_bkids; [apply Wb_weaken, H|]. rewrite WL_app by discriminate.
    apply Wb_parts in H. destruct H as [_ H]. rewrite H. cbn [WL]. exact Hn.
  Qed.
  Lemma loc_set_bik x b ik : loc x (set_bik b ik) =
    ents (bkind b) x (x || negb (isOpen b)) ik && negb (isOpen b && (bkind b =? SetextHeadingKind)).
  Proof. destruct b; reflexivity. Qed.
  Lemma W_set_bik x b ik : Wb x b = true -> ents (bkind b) x (x || negb (isOpen b)) ik = true -> Wb x (set_bik b ik) = true.
  Proof.
    intros H Hi. apply Wb_parts in H. destruct H as [HL HK]. apply Wb_mk; [|destruct b; exact HK].
    rewrite loc_set_bik, Hi. unfold loc in HL. apply andb_true_iff in HL. destruct HL as [_ B]. rewrite B. reflexivity.
  Qed.

  (* ---- right-spine update ---- *)
  Lemma W_updAt x f : (forall b, Wb x b = true -> Wb x (f b) = true) ->
    forall d b, Wb x b = true -> Wb x (updAt d f b) = true.
  Proof.
    intros Hf. induction d as [|d IH]; intros b H; [apply Hf; assumption|]. cbn [updAt].
    destruct (lastBlock b) as [c|] eqn:El; [|assumption].
    apply W_set_lastBlocks; [assumption|]. cbn [WL]. apply IH. eapply W_lastBlock; eassumption.
  Qed.
  Lemma W_updAt_at x f : forall d b, Wb x b = true ->
    (forall c, getAt d b = Some c -> Wb x c = true -> Wb x (f c) = true) -> Wb x (updAt d f b) = true.
  Proof.
    induction d as [|d IH]; intros b H Hf; [apply Hf; [reflexivity|assumption]|]. cbn [updAt].
    destruct (lastBlock b) as [c|] eqn:El; [|assumption].
    apply W_set_lastBlocks; [assumption|]. cbn [WL].
    apply IH; [eapply W_lastBlock; eassumption|]. intros y Hy. apply Hf. cbn [getAt]. rewrite El. exact Hy.
  Qed.
  (* an update that changes the flag: from the strong invariant to x, along the spine *)
  Lemma W_updAt_raise x f : forall d b, Wb false b = true ->
    (forall c, getAt d b = Some c -> Wb false c = true -> Wb x (f c) = true) -> Wb x (updAt d f b) = true.
  Proof.
    induction d as [|d IH]; intros b H Hf; [apply Hf; [reflexivity|assumption]|]. cbn [updAt].
    destruct (lastBlock b) as [c|] eqn:El; [|apply Wb_weaken, H].
    apply W_set_lastBlocks; [apply Wb_weaken, H|]. cbn [WL].
    apply IH; [eapply W_lastBlock; eassumption|]. intros y Hy. apply Hf. cbn [getAt]. rewrite El. exact Hy.
  Qed.
  Lemma W_getAt x : forall d b c, Wb x b = true -> getAt d b = Some c -> Wb x c = true.
  Proof.
    induction d as [|d IH]; intros b c H Hg; [cbn in Hg; inversion Hg; subst; exact H|].
    cbn [getAt] in Hg. destruct (lastBlock b) as [k|] eqn:El; [|discriminate]. apply (IH k c); [eapply W_lastBlock; eassumption|exact Hg].
  Qed.
End W.
