From Coq Require Import List ZArith Lia Bool.
Import ListNotations.
Require Import Base Tables Utf8 Tree Rdr Link Collect Html Recog Inl3a Inl3b ShapesBase ShapesR IFBase IFLink.
Open Scope Z_scope.

(* ================================================================ C04 (2): parseCodeSpan does not depend on the fuel *)
Section C.
  Variable src : bytes.
  Notation PL := (PL src).
  Notation prog := (prog src).
  Notation mu := (nu src).
  Ltac f0 H := f0s src H.

  Lemma cs_open_fuel : forall f1 f2 r n c, PL r -> mu r < Z.of_nat f1 -> mu r < Z.of_nat f2 -> cs_open f1 r n c = cs_open f2 r n c.
  Proof.
    induction f1 as [|f1 IH]; intros f2 r n c H H1 H2; [f0 H|]. destruct f2 as [|f2]; [f0 H|]. cbn [cs_open]. unfold cur. rstep src.
    cbn [fst snd]. destruct (_ =? 96); [|reflexivity]. rstep src. dok; [|reflexivity]. oktrue. rec IH.
  Qed.
  Lemma cs_open_prog : forall fuel r n c r1 n1 c1 c2, PL r -> cs_open fuel r n c = (Some (r1, n1, c1), c2) -> prog r r1.
  Proof.
    induction fuel as [|f IH]; intros r n c r1 n1 c1 c2 H E; [discriminate|]. cbn [cs_open] in E. revert E. unfold cur.
    pose proof (prog_refl src r H) as Hrefl. rstep src.
    cbn [fst snd]. destruct (_ =? 96); [|intros E; inversion E; subst; exact Hrefl]. rstep src. dok; [|discriminate].
    intros E. eapply prog_trans; [|eapply IH; [|exact E]; assumption]. pfin.
  Qed.

  Lemma cs_run_prog : forall fuel r k, PL r -> prog r (fst (fst (cs_run fuel r k))).
  Proof.
    induction fuel as [|f IH]; intros r k H; [apply prog_refl; exact H|]. cbn [cs_run]. rstep src.
    dok; [|cbn [fst]; pfin]. unfold cur. rstep src. cbn [fst snd]. destruct (_ =? 96); [|cbn [fst]; pfin]. ptr IH.
  Qed.
  Lemma cs_run_fuel : forall f1 f2 r k, PL r -> mu r < Z.of_nat f1 -> mu r < Z.of_nat f2 -> cs_run f1 r k = cs_run f2 r k.
  Proof.
    induction f1 as [|f1 IH]; intros f2 r k H H1 H2; [f0 H|]. destruct f2 as [|f2]; [f0 H|]. cbn [cs_run]. rstep src.
    dok; [|reflexivity]. oktrue. unfold cur. rstep src. cbn [fst snd]. destruct (_ =? 96); [|reflexivity]. rec IH.
  Qed.
  Lemma cs_close_fuel : forall f1 f2 r blen, PL r -> mu r < Z.of_nat f1 -> mu r < Z.of_nat f2 -> cs_close f1 r blen = cs_close f2 r blen.
  Proof.
    induction f1 as [|f1 IH]; intros f2 r blen H H1 H2; [f0 H|]. destruct f2 as [|f2]; [f0 H|]. cbn [cs_close]. unfold cur. rstep src.
    cbn [fst snd]. destruct (negb _).
    - rstep src. dok; [|reflexivity]. oktrue. rec IH.
    - rewrite (cs_run_fuel (S f1) (S f2)) by (assumption || lia).
      match goal with |- context [cs_run (S f2) ?x 1] =>
        pose proof (cs_run_prog (S f2) x 1 ltac:(assumption)) as (? & ? & ? & ?); destruct (cs_run (S f2) x 1) as [[r1 k] alive]; cbn [fst] in * end.
      destruct (_ =? blen); [reflexivity|]. rstep src. dok; [|reflexivity]. oktrue. rec IH.
  Qed.

  Theorem parseCodeSpan_fuel f1 f2 (st : ist) start : isrc st = src -> spW src (unpFrom st) = true ->
    len src + ibudget (unpFrom st) < Z.of_nat f1 -> len src + ibudget (unpFrom st) < Z.of_nat f2 ->
    parseCodeSpan f1 st start = parseCodeSpan f2 st start.
  Proof.
    intros Es Hw H1 H2. unfold parseCodeSpan. rewrite Es.
    pose proof (PL_new src (unpFrom st) start Hw) as HP0. pose proof (nu_new src (unpFrom st) start Hw) as Hmu.
    set (r := newReader src (unpFrom st) start) in *.
    rewrite (cs_open_fuel f1 f2) by (assumption || lia).
    destruct (cs_open f2 r 0 start) as [[[[r1 n] c1]|] c2] eqn:Eo; [|reflexivity].
    pose proof (cs_open_prog _ _ _ _ _ _ _ _ HP0 Eo) as (? & ? & ? & ?).
    rewrite (cs_close_fuel f1 f2) by (assumption || lia). reflexivity.
  Qed.
End C.
