From Coq Require Import List ZArith Lia Bool.
Import ListNotations.
Require Import Base Tree Html LP Rules Link Inl3a Render.
Require GenConsts GenClassify.
Open Scope Z_scope.

(* Tie: the bodies of the expression-only byte classifiers, translated from /repo's source on every run (GenClassify.v),
   equal the model's on all 256 byte values (the complete domain: their Go parameter type is byte). *)
Definition allBytes : list Z := map Z.of_nat (seq 0 256).

Definition classifiers_agree (c : Z) : bool :=
  Bool.eqb (GenClassify.isSpaceTabOrLineEnding c) (Base.isSpaceTabOrLineEnding c) &&
  Bool.eqb (GenClassify.isASCIILetter c) (Base.isASCIILetter c) &&
  Bool.eqb (GenClassify.isASCIIDigit c) (Base.isASCIIDigit c) &&
  Bool.eqb (GenClassify.isASCIIPunctuation c) (Base.isASCIIPunctuation c) &&
  Bool.eqb (GenClassify.isASCIIControl c) (Base.isASCIIControl c) &&
  Bool.eqb (GenClassify.isHex c) (Base.isHex c) &&
  (GenClassify.toLowerASCII c =? Base.toLowerASCII c) &&
  Bool.eqb (GenClassify.isUnquotedAttributeValueChar c) (Html.isUnquotedAttributeValueChar c) &&
  (if c <? 16 then GenClassify.urlHexDigit c =? Render.urlHexDigit c else true).

Lemma tie_classifiers_all : forallb classifiers_agree allBytes = true.
Proof. vm_compute. reflexivity. Qed.

Lemma tie_classifiers : forall c, 0 <= c < 256 -> classifiers_agree c = true.
Proof.
  intros c Hc. pose proof tie_classifiers_all as H. rewrite forallb_forall in H. apply H.
  unfold allBytes. apply in_map_iff. exists (Z.to_nat c). split; [lia|]. apply in_seq. lia.
Qed.
Print Assumptions tie_classifiers.
