From Coq Require Import List ZArith Lia Bool.
Import ListNotations.
Require Import Base Tables Utf8 Tree Rdr Link Collect Html Recog Inl3a Inl3b Inl3c Inl3d EolCRDefs EolCRBytes EolCRRdr EolCRInlA.
Open Scope Z_scope.

(* C14 (ii), CR clause, inline layer, part B: Inl3c.v (collectCodeSpan) and Inl3d.v (raw HTML, inline links,
   processEmphasis). *)

Lemma existsb_ext {A} (f g : A -> bool) l : (forall x, f x = g x) -> existsb f l = existsb g l.
Proof. intros H. induction l as [|x l IH]; [reflexivity|]. cbn [existsb]. rewrite H, IH. reflexivity. Qed.

(* ---- Inl3c.v ---- *)
Lemma cr_cs_addSpan src src' acc s e : crRel src src' -> cs_addSpan src' acc s e = cs_addSpan src acc s e.
Proof.
  intros H. unfold cs_addSpan. cbv zeta. pose proof (crRel_sub _ _ s e H) as Ht. rewrite (crRel_len _ _ Ht).
  set (t := sub src s e) in *. set (t' := sub src' s e) in *. set (n := len t).
  destruct (bR_eol _ _ (crRel_at t t' (n - 2) Ht)) as (_ & _ & A3).
  destruct (bR_eol _ _ (crRel_at t t' (n - 1) Ht)) as (B1 & B2 & B3).
  rewrite A3, B2, B1, B3. rewrite andb_false_r, andb_false_r. cbn [andb].
  rewrite (orb_comm false (at_ t (n - 1) =? 10)). reflexivity.
Qed.
Lemma cr_isOnlySpaces a b : crRel a b -> isOnlySpaces b = isOnlySpaces a.
Proof.
  intros H. unfold isOnlySpaces. induction H as [|x y a b Hxy H IH]; [reflexivity|]. cbn [forallb].
  rewrite (bR_eqb _ _ 32 Hxy) by discriminate. rewrite IH. reflexivity.
Qed.
Lemma cr_stripCodeSpanSpace src src' sl : crRel src src' -> stripCodeSpanSpace src' sl = stripCodeSpanSpace src sl.
Proof.
  intros H. unfold stripCodeSpanSpace.
  rewrite (existsb_ext (fun n => negb (pkind n =? IndentKind) && negb (isOnlySpaces (sub src' (ps n) (pe n))))
                       (fun n => negb (pkind n =? IndentKind) && negb (isOnlySpaces (sub src (ps n) (pe n)))))
    by (intros x; rewrite (cr_isOnlySpaces _ _ (crRel_sub _ _ (ps x) (pe x) H)); reflexivity).
  destruct (negb _); [reflexivity|]. destruct sl as [|first sl0]; [reflexivity|]. destruct (rev (first :: sl0)) as [|last rr0]; [reflexivity|].
  rewrite (bR_eqb _ _ 32 (crRel_at src src' (ps first) H)) by discriminate.
  rewrite (bR_eqb _ _ 32 (crRel_at src src' (pe last - 1) H)) by discriminate. reflexivity.
Qed.

Section CcsMid.
  Variables (src : bytes) (unpAt : Z -> inline).
  Fixpoint ccs_mid (k : nat) (acc : list pn) (up : Z) : list pn * Z :=
    match k with
    | O => (acc, up)
    | S k' =>
      let up := up + 1 in
      let u := unpAt up in
      ccs_mid k' (if ikind u =? UnparsedKind then cs_addSpan src acc (istart u) (iend u) else acc) up
    end.
End CcsMid.
Lemma collectCodeSpan_eq st spanS spanE cS cE : collectCodeSpan st spanS spanE cS cE =
  let src := isrc st in
  let nodeCount := nodeIndexForPosition (unpFrom st) cE in
  let unpAt (i : Z) := nth (Z.to_nat i) (unp st) (mkI 0 0 0) in
  let '(kids, st) :=
    if nodeCount =? 0 then (cs_addSpan src [] cS cE, st)
    else
      let acc := cs_addSpan src [] cS (iend (unpAt (upos st))) in
      let '(acc, up) := ccs_mid src unpAt (Z.to_nat (nodeCount - 1)) acc (upos st) in
      let up := up + 1 in
      (cs_addSpan src acc (istart (unpAt up)) cE, setUpos st up) in
  let kids := stripCodeSpanSpace src kids in
  fst (addNode st CodeSpanKind spanS spanE kids).
Proof. reflexivity. Qed.
Lemma cr_ccs_mid src src' unpAt : crRel src src' -> forall k acc up, ccs_mid src' unpAt k acc up = ccs_mid src unpAt k acc up.
Proof.
  intros H. induction k as [|k IH]; intros acc up; [reflexivity|]. cbn [ccs_mid]. cbv zeta.
  rewrite (cr_cs_addSpan _ _ _ _ _ H). apply IH.
Qed.
Lemma stR_collectCodeSpan st st' a b c d : stR st st' -> stR (collectCodeSpan st a b c d) (collectCodeSpan st' a b c d).
Proof.
  intros H. rewrite !collectCodeSpan_eq. cbv zeta. pose proof (stR_src _ _ H) as Hs.
  rewrite (cr_unpFrom _ _ H). steq H. destruct (_ =? 0).
  - rewrite (cr_cs_addSpan _ _ _ _ _ Hs), (cr_stripCodeSpanSpace _ _ _ Hs). apply cr_addNode, H.
  - rewrite (cr_ccs_mid _ _ _ Hs), !(cr_cs_addSpan _ _ _ _ _ Hs).
    destruct (ccs_mid _ _ _ _ _) as [acc up].
    rewrite (cr_cs_addSpan _ _ _ _ _ Hs), (cr_stripCodeSpanSpace _ _ _ Hs). apply cr_addNode, stR_setUpos, H.
Qed.

(* ---- Inl3d.v: raw HTML ---- *)
Lemma cr_ht_pi : forall f r r' start, rdR r r' -> ht_pi f r' start = ht_pi f r start.
Proof.
  induction f as [|f IH]; intros r r' start H; [reflexivity|]. cbn [ht_pi]. unfold cur.
  stepc H as c c' r1 r1' Hc H1. cbn [fst snd]. bt Hc. destruct (negb (c =? 63)).
  - stepn H1 as ok r2 r2' H2. destruct (negb ok); [reflexivity|apply IH, H2].
  - stepn H1 as ok r2 r2' H2. rewrite (cr_jumped _ _ H2). destruct (negb ok || jumped r2); [reflexivity|].
    posEq H2. pose proof (cr_cur _ _ H2) as Hc2. unfold cur in Hc2. rewrite (bR_eqb _ _ 62 Hc2) by discriminate.
    destruct (_ =? 62); [reflexivity|apply IH, H2].
Qed.
Definition optR (x y : option reader) : Prop :=
  match x, y with Some a, Some b => rdR a b | None, None => True | _, _ => False end.
Lemma cr_ht_until : forall f r r' c, c <> 10 -> c <> 13 -> rdR r r' -> optR (ht_until f r c) (ht_until f r' c).
Proof.
  induction f as [|f IH]; intros r r' c C1 C2 H; [exact I|]. cbn [ht_until]. unfold cur.
  stepc H as c0 c0' r1 r1' Hc H1. cbn [fst snd]. rewrite (bR_eqb _ _ c Hc C1 C2). destruct (c0 =? c); [exact H1|].
  stepn H1 as ok r2 r2' H2. destruct (negb ok); [exact I|apply IH; assumption].
Qed.
Ltac stepRem H rem r1 r1' Hrem H1 :=
  match type of H with rdR ?r ?r' =>
    let rem' := fresh "rem'" in
    pose proof (cr_remainingNodeBytes r r' H) as [Hrem H1];
    destruct (remainingNodeBytes r) as [rem r1]; destruct (remainingNodeBytes r') as [rem' r1']; cbn [fst snd] in Hrem, H1;
    rewrite ?(crRel_len _ _ Hrem), ?(cr_isASCIILetter _ _ (crRel_at _ _ 0 Hrem));
    repeat match goal with |- context [hasBytePrefix rem' ?p] =>
      rewrite (cr_hasBytePrefix _ _ p Hrem) by (apply noEolb_spec; reflexivity) end
  end.
Lemma cr_ht_comment : forall f r r' start, rdR r r' -> ht_comment f r' start = ht_comment f r start.
Proof.
  induction f as [|f IH]; intros r r' start H; [reflexivity|]. cbn [ht_comment].
  stepRem H rem r0 r0' Hrem H0. destruct (hasBytePrefix rem [45; 45; 62]).
  - pose proof (proj2 (cr_next _ _ (proj2 (cr_next _ _ H0)))) as H2. posEq H2. reflexivity.
  - destruct (hasBytePrefix rem [45; 45]); [reflexivity|]. stepn H0 as ok r1 r1' H1. destruct (negb ok); [reflexivity|apply IH, H1].
Qed.
Lemma cr_ht_cdata : forall f r r' start, rdR r r' -> ht_cdata f r' start = ht_cdata f r start.
Proof.
  induction f as [|f IH]; intros r r' start H; [reflexivity|]. cbn [ht_cdata].
  stepRem H rem r0 r0' Hrem H0. destruct (hasBytePrefix rem [93; 93; 62]).
  - pose proof (proj2 (cr_next _ _ (proj2 (cr_next _ _ H0)))) as H2. posEq H2. reflexivity.
  - stepn H0 as ok r1 r1' H1. destruct (negb ok); [reflexivity|apply IH, H1].
Qed.
Lemma cr_nextNok : forall n r r', rdR r r' -> optR (nextNok n r) (nextNok n r').
Proof.
  induction n as [|n IH]; intros r r' H; [exact H|]. cbn [nextNok]. stepn H as ok r1 r1' H1.
  destruct ok; [apply IH, H1|exact I].
Qed.
Lemma cr_parseHTMLTag f r r' : rdR r r' -> parseHTMLTag f r' = parseHTMLTag f r.
Proof.
  intros H. unfold parseHTMLTag. change (cur r') with (fst (current r')). change (cur r) with (fst (current r)). posEq H.
  stepc H as c c' r0 r0' Hc H0. cbn [fst snd]. bt Hc. destruct (negb (c =? 60)); [reflexivity|]. cbv zeta.
  stepn H0 as ok r1 r1' H1. rewrite (cr_jumped _ _ H1). destruct (negb ok || jumped r1); [reflexivity|].
  unfold cur. stepc H1 as c1 c1' r2 r2' Hc1 H2. cbn [fst snd]. bt Hc1.
  destruct (c1 =? 63).
  { stepn H2 as ok2 r3 r3' H3. destruct (negb ok2); [reflexivity|apply cr_ht_pi, H3]. }
  destruct (c1 =? 33).
  { stepn H2 as ok2 r3 r3' H3. rewrite (cr_jumped _ _ H3). destruct (negb ok2 || jumped r3); [reflexivity|].
    stepRem H3 rem r4 r4' Hrem H4.
    destruct ((0 <? len rem) && isASCIILetter (at_ rem 0)).
    { pose proof (cr_ht_until f _ _ 62 ltac:(discriminate) ltac:(discriminate) (proj2 (cr_next _ _ H4))) as Hu.
      destruct (ht_until f (snd (next r4)) 62) as [r5|]; destruct (ht_until f (snd (next r4')) 62) as [r5'|]; cbn [optR] in Hu; try contradiction; [|reflexivity].
      posEq Hu. reflexivity. }
    destruct (hasBytePrefix rem [45; 45]).
    { pose proof (proj2 (cr_next _ _ H4)) as H5. stepn H5 as ok3 r6 r6' H6. rewrite (cr_jumped _ _ H6).
      destruct (negb ok3 || jumped r6); [reflexivity|]. stepRem H6 ts r7 r7' Hts H7.
      destruct (_ || _); [reflexivity|apply cr_ht_comment, H7]. }
    destruct (hasBytePrefix rem [91; 67; 68; 65; 84; 65; 91]); [|reflexivity].
    pose proof (cr_nextNok 7 _ _ H4) as Hn.
    destruct (nextNok 7 r4) as [r5|]; destruct (nextNok 7 r4') as [r5'|]; cbn [optR] in Hn; try contradiction; [|reflexivity].
    apply cr_ht_cdata, Hn. }
  destruct (c1 =? 47).
  - pose proof (proj1 (cr_parseHTMLClosingTag f _ _ H2)) as E. destruct (parseHTMLClosingTag f r2) as [e x]. destruct (parseHTMLClosingTag f r2') as [e' x'].
    cbn [fst] in E. subst e'. reflexivity.
  - pose proof (proj1 (cr_parseHTMLOpenTag f _ _ H2)) as E. destruct (parseHTMLOpenTag f r2) as [e x]. destruct (parseHTMLOpenTag f r2') as [e' x'].
    cbn [fst] in E. subst e'. reflexivity.
Qed.

(* ---- parseInlineLink ---- *)
Lemma cr_parseInlineLink f st st' start : stR st st' -> parseInlineLink f st' start = parseInlineLink f st start.
Proof.
  intros H. unfold parseInlineLink. cbv zeta. rewrite (cr_unpFrom _ _ H).
  pose proof (cr_newReader _ _ (unpFrom st) (start + 1) (stR_src _ _ H)) as H0.
  stepS (cr_skipLinkSpace f) H0 ok r1 r1' H1. destruct (negb ok); [reflexivity|].
  stepS (cr_parseLinkDestination f) H1 dl0 r2 r2' H2. destruct dl0 as [dspan dtext].
  assert (H3 : fst (if spanValid dspan then skipLinkSpace f r2' else (true, r2')) = fst (if spanValid dspan then skipLinkSpace f r2 else (true, r2)) /\
               rdR (snd (if spanValid dspan then skipLinkSpace f r2 else (true, r2))) (snd (if spanValid dspan then skipLinkSpace f r2' else (true, r2')))).
  { destruct (spanValid dspan); [apply cr_skipLinkSpace, H2|split; [reflexivity|exact H2]]. }
  destruct (if spanValid dspan then skipLinkSpace f r2 else (true, r2)) as [ok2 r3].
  destruct (if spanValid dspan then skipLinkSpace f r2' else (true, r2')) as [ok2' r3']. cbn [fst snd] in H3. destruct H3 as [-> H3].
  destruct (negb ok2); [reflexivity|].
  stepS (cr_parseLinkTitle f) H3 tl0 r4 r4' H4. destruct tl0 as [tspan ttext].
  assert (H5 : fst (if spanValid tspan then skipLinkSpace f r4' else (true, r4')) = fst (if spanValid tspan then skipLinkSpace f r4 else (true, r4)) /\
               rdR (snd (if spanValid tspan then skipLinkSpace f r4 else (true, r4))) (snd (if spanValid tspan then skipLinkSpace f r4' else (true, r4')))).
  { destruct (spanValid tspan); [apply cr_skipLinkSpace, H4|split; [reflexivity|exact H4]]. }
  destruct (if spanValid tspan then skipLinkSpace f r4 else (true, r4)) as [ok3 r5].
  destruct (if spanValid tspan then skipLinkSpace f r4' else (true, r4')) as [ok3' r5']. cbn [fst snd] in H5. destruct H5 as [-> H5].
  destruct (negb ok3); [reflexivity|].
  rewrite (bR_eqb _ _ 41 (cr_cur _ _ H5)) by discriminate. posEq H5. reflexivity.
Qed.

(* ---- processEmphasis: does not look at the source at all ---- *)
Lemma stR_pe_loop : forall f st st' ob cp, stR st st' -> stR (pe_loop f st ob cp) (pe_loop f st' ob cp).
Proof.
  induction f as [|f IH]; intros st st' ob cp H; [exact H|]. cbn [pe_loop]. cbv zeta. steq H.
  set (cp1 := pe_findCloser (S (length (stk st))) (stk st) cp).
  destruct (cp1 <? 0); [exact H|].
  set (c := nthD (stk st) cp1).
  set (oi := pe_findOpener (S (length (stk st))) (stk st) (cp1 - 1) (getOB ob (obIndex c)) c).
  destruct (getOB ob (obIndex c) <=? oi).
  - set (o := nthD (stk st) oi). rewrite !(cr_nodeOf _ _ _ H).
    set (strong := (2 <=? plen (nodeOf st (d_node o))) && (2 <=? plen (nodeOf st (d_node c)))).
    set (k := if strong then 2 else 1).
    set (g1 := fun n : pn => setSpan n (ps n) (pe n - k)). set (g2 := fun n : pn => setSpan n (ps n + k) (pe n)).
    pose proof (stR_updN _ _ (d_node c) g2 (stR_updN _ _ (d_node o) g1 H)) as H2.
    set (s2 := updN (updN st (d_node o) g1) (d_node c) g2) in *. set (s2' := updN (updN st' (d_node o) g1) (d_node c) g2) in *.
    clearbody s2 s2'.
    pose proof (cr_wrap s2 s2' (if strong then StrongKind else EmphasisKind) (d_node o) (Some (d_node c)) H2) as [_ H3].
    destruct (wrap s2 (if strong then StrongKind else EmphasisKind) (d_node o) (Some (d_node c))) as [s3 w].
    destruct (wrap s2' (if strong then StrongKind else EmphasisKind) (d_node o) (Some (d_node c))) as [s3' w']. cbn [fst] in H3.
    steq H3. pose proof (stR_setStk _ _ (delStack (stk s3) (oi + 1) cp1) H3) as H4.
    set (s4 := setStk s3 (delStack (stk s3) (oi + 1) cp1)) in *. set (s4' := setStk s3' (delStack (stk s3) (oi + 1) cp1)) in *.
    clearbody s4 s4'. rewrite (cr_nodeOf _ _ _ H4). steq H4.
    set (ob1 := map (fun b : Z => if oi + 1 <? b then oi + 1 else b) ob).
    destruct (plen (nodeOf s4 (d_node o)) =? 0).
    + pose proof (stR_setStk _ _ (delStack (stk s4) oi (oi + 1)) (stR_removeNode _ _ (d_node o) H4)) as H5.
      set (s5 := setStk (removeNode s4 (d_node o)) (delStack (stk s4) oi (oi + 1))) in *.
      set (s5' := setStk (removeNode s4' (d_node o)) (delStack (stk s4) oi (oi + 1))) in *. clearbody s5 s5'.
      rewrite (cr_nodeOf _ _ _ H5). steq H5.
      destruct (plen (nodeOf s5 (d_node c)) =? 0); apply IH; [apply stR_setStk, stR_removeNode, H5|exact H5].
    + rewrite (cr_nodeOf _ _ _ H4). steq H4.
      destruct (plen (nodeOf s4 (d_node c)) =? 0); apply IH; [apply stR_setStk, stR_removeNode, H4|exact H4].
  - destruct (negb (hasFlag c fOpener)); apply IH; [apply stR_setStk, H|exact H].
Qed.
Lemma stR_processEmphasis st st' sb : stR st st' -> stR (processEmphasis st sb) (processEmphasis st' sb).
Proof.
  intros H. unfold processEmphasis. cbv zeta. steq H.
  pose proof (stR_pe_loop (4 * (length (stk st) + length (isrc st)) + 8) st st' (repeat sb 14) sb H) as H1.
  steq H1. apply stR_setStk, H1.
Qed.

Print Assumptions stR_collectCodeSpan. Print Assumptions cr_parseHTMLTag. Print Assumptions cr_parseInlineLink.
Print Assumptions stR_processEmphasis.
