From Coq Require Import List ZArith Lia Bool.
Import ListNotations.
Require Import Base Tree Rdr Link Collect Html Recog LP Rules Starts Driver Leaf3e RdrBound L2Kind L2Kind2 L2CC TRdr TDefs TOcp TInv TDesc.
Require NoPanic47.
Open Scope Z_scope.

(* ---- context carried through the block starts ---- *)
Definition X (p : lp) : Prop := st3 p /\ ccP p /\ CU p /\ R p.

Lemma X_advance p n : X p -> X (advance p n).
Proof. intros (a & b & c & d). split; [apply st3_advance, a|]. split; [apply ccP_advance, b|]. split; [apply CU_advance, c|apply R_advance, d]. Qed.
Lemma X_consumeIndent p n : X p -> X (consumeIndent p n).
Proof. intros (a & b & c & d). split; [apply st3_consumeIndent, a|]. split; [apply ccP_consumeIndent, b|]. split; [apply CU_consumeIndent, c|apply R_consumeIndent, d]. Qed.
Lemma X_consumeLine p : X p -> X (consumeLine p).
Proof. intros (a & b & c & d). split; [apply st3_consumeLine, a|]. split; [apply ccP_consumeLine, b|]. split; [apply CU_consumeLine, c|apply R_consumeLine, d]. Qed.

Definition setterOK (f : block -> block) : Prop :=
  forall x, cc (f x) = cc x /\ bkind (f x) = bkind x /\ bend (f x) = bend x /\ bik (f x) = bik x /\ bkids (f x) = bkids x.
Lemma X_setters p f : X p -> setterOK f -> X (updCont p f).
Proof.
  intros (a & b & c & d) Hf. split; [exact a|]. split; [|split; [exact c|]].
  - apply ccP_updCont; [exact b|]. intros x _ Hx. destruct (Hf x) as (A & B & _). rewrite A, B. tauto.
  - apply R_updCont_sh; [|intros x; apply Hf|exact d]. intros x. destruct (Hf x) as (_ & B & C & D & _). apply shEq_full; assumption.
Qed.
Ltac setters := intros x; destruct x; repeat split; reflexivity.

Lemma X_collectInline p kind n K : X p -> ckind p K -> K <> ParagraphKind -> X (collectInline p kind n).
Proof.
  intros (a & b & c & d) Hc HK. split; [apply st3_collectInline, a|]. split; [apply ccP_collectInline, b|].
  split; [apply CU_collectInline, c|eapply R_collectInline; eassumption].
Qed.

(* openBlock keeps line, line start and cursor *)
Definition curS (p p' : lp) : Prop := envS p p' /\ li p' = li p.
Lemma curS_refl p : curS p p. Proof. split; [apply envS_refl|reflexivity]. Qed.
Lemma curS_trans a b c : curS a b -> curS b c -> curS a c.
Proof. intros [A1 A2] [B1 B2]. split; [eapply envS_trans; eassumption|congruence]. Qed.
Lemma curS_openBlock_up : forall fuel p k, curS p (openBlock_up fuel p k).
Proof.
  induction fuel as [|f IH]; intros p k; [apply curS_refl|]. cbn [openBlock_up]. destruct (canContain _ _); [apply curS_refl|].
  destruct (cdepth p); [split; [repeat split|reflexivity]|]. eapply curS_trans; [|apply IH]. split; [repeat split|reflexivity].
Qed.
Lemma curS_opened p : curS p (if state p =? stOpening then withState p stOpenMatched else p).
Proof. destruct (_ =? _); [split; [repeat split|reflexivity]|apply curS_refl]. Qed.
Lemma curS_openBlock p k : curS p (openBlock p k).
Proof.
  unfold openBlock. destruct (_ || _); [split; [repeat split|reflexivity]|]. cbv zeta.
  set (p0 := if state p =? stOpening then withState p stOpenMatched else p).
  set (p1 := openBlock_up (S (cdepth p0)) p0 k).
  assert (H1 : curS p p1) by (eapply curS_trans; [apply curS_opened|apply curS_openBlock_up]).
  destruct H1 as [(A & B & C) D]. split; [repeat split|]; cbn; assumption.
Qed.
Lemma curS_endBlock p : curS p (endBlock p).
Proof.
  unfold endBlock. destruct (_ || _); [split; [repeat split|reflexivity]|]. cbv zeta.
  pose proof (curS_opened p) as H0. set (p0 := if state p =? stOpening then withState p stOpenMatched else p) in *.
  destruct (cdepth p0); [eapply curS_trans; [exact H0|split; [repeat split|reflexivity]]|].
  destruct H0 as [(A & B & C) D]. split; [repeat split|]; cbn; assumption.
Qed.
Lemma CU_curS p p' : curS p p' -> CU p -> CU p'.
Proof. intros [A B]. apply CU_env; assumption. Qed.

Lemma state_openBlock p k : st_open p -> state (openBlock p k) = stOpenMatched.
Proof.
  intros Hs. unfold openBlock. rewrite (st_open_notdesc p Hs). cbv zeta.
  set (p0 := if state p =? stOpening then withState p stOpenMatched else p).
  assert (E0 : state p0 = stOpenMatched).
  { unfold p0. destruct Hs as [E|E]; rewrite E; [reflexivity|]. change (stOpenMatched =? stOpening) with false. exact E. }
  assert (G : forall fuel q, state (openBlock_up fuel q k) = state q).
  { induction fuel as [|f IH]; intros q; [reflexivity|]. cbn [openBlock_up]. destruct (canContain _ _); [reflexivity|].
    destruct (cdepth q); [reflexivity|]. rewrite IH. reflexivity. }
  cbn [state withCont setLP updCont withRoot closeLastChildAt]. rewrite G. exact E0.
Qed.
Lemma st_open_1 p : state p = stOpenMatched -> st_open p. Proof. intros E. right. exact E. Qed.

Lemma cdepth_openBlock_in p k : st_open p -> canContain (containerKind p) k = true -> cdepth (openBlock p k) = S (cdepth p).
Proof.
  intros Hs Hc. unfold openBlock. rewrite (st_open_notdesc p Hs). cbv zeta.
  pose proof (sameT_opened p) as HT. set (p0 := if state p =? stOpening then withState p stOpenMatched else p) in *.
  cbn [openBlock_up]. rewrite (containerKind_same p p0 (sameT_same _ _ HT)), Hc.
  cbn [cdepth container withCont setLP]. rewrite (cd_same p p0 (sameT_same _ _ HT)). reflexivity.
Qed.

Definition openOK (p : lp) (k : Z) : Prop := OKroot p \/ ((1 <= cdepth p)%nat /\ canContain (containerKind p) k = true).

Lemma X_openBlock p k : X p -> st_open p -> k <> SetextHeadingKind ->
  (k <> ListItemKind \/ canContain (containerKind p) k = true) -> openOK p k ->
  X (openBlock p k) /\ (1 <= cdepth (openBlock p k))%nat /\ ckind (openBlock p k) k /\ state (openBlock p k) = stOpenMatched /\ NE (openBlock p k).
Proof.
  intros (a & b & c & d) Hs Hk Hcc Ho.
  assert (Hb : ccP (openBlock p k)) by (apply ccP_openBlock; assumption).
  assert (Hd : (1 <= cdepth (openBlock p k))%nat) by (apply NoPanic47.cdepth_openBlock, st_open_notdesc, Hs).
  split; [|split; [exact Hd|split; [apply NoPanic47.ckind_openBlock3, a|split; [apply state_openBlock, Hs|apply NE_wf; assumption]]]].
  split; [apply st3_openBlock, a|]. split; [exact Hb|]. split; [eapply CU_curS; [apply curS_openBlock|exact c]|].
  apply R_openBlock; try assumption. apply c.
Qed.

Lemma state_endBlock_ne0 p : state p <> stOpening -> state (endBlock p) = state p.
Proof.
  intros H. unfold endBlock. destruct (_ || _); [reflexivity|]. cbv zeta. rewrite (opened_ne0 p H). destruct (cdepth p); reflexivity.
Qed.
Lemma cdepth_endBlock p d : st3 p -> cdepth p = S d -> cdepth (endBlock p) = d.
Proof.
  intros Hs Hd. unfold endBlock. rewrite (st3_notdesc' p Hs). cbv zeta.
  assert (E : cdepth (if state p =? stOpening then withState p stOpenMatched else p) = cdepth p) by (destruct (_ =? _); reflexivity).
  rewrite E, Hd. reflexivity.
Qed.
Lemma X_endBlock p : X p -> ((2 <= cdepth p)%nat \/ (0 < li p /\ state p = stLineConsumed)) -> X (endBlock p).
Proof.
  intros (a & b & c & d) Hd. split; [apply st3_endBlock, a|]. split; [apply ccP_endBlock, b|].
  split; [eapply CU_curS; [apply curS_endBlock|exact c]|]. apply R_endBlock; try assumption. apply c.
Qed.

(* ---- the phase predicate: either the root level is still safe to close, or the container is below the root and is of a
        kind that contains every block kind (block quote, list item), or no block will be opened any more on this line ---- *)
Definition PH (p : lp) : Prop :=
  OKroot p \/ ((1 <= cdepth p)%nat /\
               (containerKind p = BlockQuoteKind \/ containerKind p = ListItemKind \/ containerKind p = HTMLBlockKind \/
                containerKind p = IndentedCodeBlockKind \/ ldb p = true)).
Definition guard (p : lp) : bool := (containerKind p =? ParagraphKind) || negb (acceptsLines (containerKind p)).

Lemma PH_open p k : PH p -> ldb p = false -> guard p = true -> k <> ListItemKind -> openOK p k.
Proof.
  intros [H|[Hd H]] Hl Hg Hk; [left; exact H|]. right. split; [exact Hd|]. unfold guard in Hg.
  destruct H as [H|[H|[H|[H|H]]]]; try (rewrite H in *; try discriminate); try congruence.
  - unfold canContain. cbn. apply negb_true_iff, Z.eqb_neq. exact Hk.
  - unfold canContain. cbn. apply negb_true_iff, Z.eqb_neq. exact Hk.
Qed.
Lemma PH_sameT p p' : sameT p p' -> PH p -> PH p'.
Proof.
  intros HT. pose proof (sameT_same _ _ HT) as Hs. destruct HT as (A & B & C & _ & _ & D).
  unfold PH, OKroot, ks. rewrite A, C, (containerKind_same _ _ Hs), (cd_same _ _ Hs).
  intros [H|[Hd H]]; [left; exact H|right]. split; [exact Hd|]. destruct H as [H|[H|[H|[H|H]]]]; auto 6.
Qed.
Lemma PH_kind p : (1 <= cdepth p)%nat -> ccP p -> forall K, ckind p K ->
  (K = BlockQuoteKind \/ K = ListItemKind \/ K = HTMLBlockKind \/ K = IndentedCodeBlockKind) -> PH p.
Proof. intros Hd Hc K Hk HK. right. split; [exact Hd|]. rewrite (containerKind_of p K Hc Hk). tauto. Qed.
Lemma PH_ld p : (1 <= cdepth p)%nat -> ldb p = true -> PH p.
Proof. intros Hd Hl. right. split; [exact Hd|]. tauto. Qed.

(* ---- bookkeeping after the first openBlock of a start ---- *)
Definition st12 (q : lp) : Prop := state q = stOpenMatched \/ state q = stLineConsumed.
Definition Post (p q : lp) (K : Z) : Prop :=
  X q /\ envS p q /\ st12 q /\ NE q /\ (1 <= cdepth q)%nat /\ ckind q K.
Definition Fin (p q : lp) : Prop := X q /\ PH q /\ envS p q /\ st12 q /\ NE q.

Lemma st12_ne0 q : st12 q -> state q <> stOpening. Proof. intros [E|E]; rewrite E; discriminate. Qed.
Lemma Post_sameT p q q' K : Post p q K -> sameT q q' -> X q' -> state q' = state q -> Post p q' K.
Proof.
  intros (a & b & c & d & e & f) HT HX Hs. split; [exact HX|]. split; [eapply envS_trans; [exact b|apply envS_sameT, HT]|].
  split; [unfold st12; rewrite Hs; exact c|]. split; [eapply NE_sameT; eassumption|].
  split; [rewrite (cd_same _ _ (sameT_same _ _ HT)); exact e|eapply ckind_same; [apply sameT_same, HT|exact f]].
Qed.
Lemma Post_advance p q n K : Post p q K -> Post p (advance q n) K.
Proof. intros H. eapply Post_sameT; [exact H|apply sameT_advance|apply X_advance, H|apply state_advance_ne0, st12_ne0, H]. Qed.
Lemma Post_consumeIndent p q n K : Post p q K -> Post p (consumeIndent q n) K.
Proof. intros H. eapply Post_sameT; [exact H|apply sameT_consumeIndent|apply X_consumeIndent, H|apply state_consumeIndent_ne0, st12_ne0, H]. Qed.
Lemma Post_consumeLine p q K : Post p q K -> Post p (consumeLine q) K /\ state (consumeLine q) = stLineConsumed.
Proof.
  intros H. assert (Hs : state (consumeLine q) = stLineConsumed).
  { destruct H as (_ & _ & [E|E] & _); [apply state_consumeLine_open, st_open_1, E|apply state_consumeLine_2, E]. }
  split; [|exact Hs]. destruct H as (a & b & c & d & e & f). split; [apply X_consumeLine, a|].
  split; [eapply envS_trans; [exact b|apply envS_sameT, sameT_consumeLine]|]. split; [right; exact Hs|].
  split; [eapply NE_sameT; [apply sameT_consumeLine|exact d]|].
  split; [rewrite (cd_same _ _ (sameT_same _ _ (sameT_consumeLine q))); exact e|eapply ckind_same; [apply sameT_same, sameT_consumeLine|exact f]].
Qed.
Lemma Post_setters p q f K : Post p q K -> setterOK f -> Post p (updCont q f) K.
Proof.
  intros (a & b & c & d & e & g) Hf. split; [apply X_setters; assumption|]. split; [exact b|]. split; [exact c|].
  split; [apply NE_updCont; [apply NEr_keep; intros x; apply Hf|exact d]|]. split; [exact e|].
  apply ckind_updCont; [intros x; apply Hf|exact g].
Qed.
Lemma ckind_collectInline p kind n K : ckind p K -> ckind (collectInline p kind n) K.
Proof.
  intros Hc. unfold collectInline. destruct (_ =? stDescendTerminated); [exact Hc|]. cbv zeta.
  pose proof (sameT_opened p) as HT. set (p0 := if state p =? stOpening then withState p stOpenMatched else p) in *.
  assert (Hc0 : ckind p0 K) by (eapply ckind_same; [apply sameT_same, HT|exact Hc]).
  apply ckind_updCont; [intros b; apply bkind_set_bik'|]. eapply ckind_same; [apply sameT_same, sameT_advance|].
  destruct (0 <? indent p0); [|exact Hc0]. apply ckind_updCont; [intros b; apply bkind_set_bik'|].
  eapply ckind_same; [apply sameT_same, sameT_advance|exact Hc0].
Qed.
Lemma Post_collectInline p q kind n K : Post p q K -> K <> ParagraphKind -> Post p (collectInline q kind n) K.
Proof.
  intros (a & b & c & d & e & g) HK. split; [eapply X_collectInline; eassumption|].
  split; [eapply envS_trans; [exact b|apply envS_collectInline]|].
  split; [unfold st12; rewrite state_collectInline_ne0 by (apply st12_ne0, c); exact c|].
  split; [apply NE_collectInline, d|]. split; [rewrite cdepth_collectInline; exact e|apply ckind_collectInline, g].
Qed.
Lemma Post_openBlock p q k : X q -> envS p q -> st_open q -> k <> SetextHeadingKind ->
  (k <> ListItemKind \/ canContain (containerKind q) k = true) -> openOK q k -> Post p (openBlock q k) k.
Proof.
  intros HX He Hs Hk Hcc Ho. destruct (X_openBlock q k HX Hs Hk Hcc Ho) as (A & B & C & D & F).
  split; [exact A|]. split; [eapply envS_trans; [exact He|apply curS_openBlock]|]. split; [left; exact D|]. tauto.
Qed.

Lemma Fin_kind p q K : Post p q K ->
  (K = BlockQuoteKind \/ K = ListItemKind \/ K = HTMLBlockKind \/ K = IndentedCodeBlockKind) -> Fin p q.
Proof. intros (a & b & c & d & e & f) HK. split; [exact a|]. split; [eapply PH_kind; try eassumption; apply a|tauto]. Qed.
Lemma Fin_ld p q K : Post p q K -> state q = stLineConsumed -> Fin p q.
Proof.
  intros (a & b & c & d & e & f) Hs. split; [exact a|]. split; [|tauto]. apply PH_ld; [exact e|]. unfold ldb. rewrite Hs. reflexivity.
Qed.
Lemma PH_endBlock q : X q -> state q = stLineConsumed -> 0 < li q -> (1 <= cdepth q)%nat -> PH (endBlock q).
Proof.
  intros (a & b & c & d) Hs Hl Hd. destruct (cdepth q) as [|[|dd]] eqn:Ed; [lia| |].
  - left. unfold endBlock. rewrite (st3_notdesc' q a). cbv zeta.
    rewrite (opened_ne0 q) by (rewrite Hs; discriminate). rewrite Ed.
    unfold OKroot. change (ks (withCont ?x _)) with (ks x).
    assert (El : ldb q = true) by (unfold ldb; rewrite Hs; reflexivity). unfold R in d. rewrite El in d.
    assert (L1 : lineStart q <= lineStart q + li q) by lia. assert (L2 : lineStart q < lineStart q + li q) by lia.
    destruct (Rb_close0 true true q (lineStart q + li q) (proj1 c) d L1 (or_introl L2) (or_intror eq_refl) (fun x => x)) as [_ [D|D]]; [left; exact D|right; right; exact D].
  - apply PH_ld; [rewrite (cdepth_endBlock q (S dd) a Ed); lia|]. unfold ldb. rewrite state_endBlock_ne0 by (rewrite Hs; discriminate). rewrite Hs. reflexivity.
Qed.
Lemma Fin_endBlock p q K : Post p q K -> state q = stLineConsumed -> 0 < li q -> Fin p (endBlock q).
Proof.
  intros (a & b & c & d & e & f) Hs Hl. split; [apply X_endBlock; [exact a|right; tauto]|]. split; [apply PH_endBlock; assumption|].
  split; [eapply envS_trans; [exact b|apply curS_endBlock]|]. split; [|apply NE_endBlock, d].
  right. rewrite state_endBlock_ne0 by (rewrite Hs; discriminate). exact Hs.
Qed.
Lemma li_after_consumeLine p q : envS p q -> CU q -> 0 < len (line p) -> 0 < li (consumeLine q).
Proof. intros (_ & El & _) Hc Hl. rewrite li_consumeLine by apply Hc. rewrite El. exact Hl. Qed.

(* ---- the block starts ---- *)
Definition StartSpec (f : lp -> lp) : Prop :=
  forall p, X p -> PH p -> state p = stOpening -> guard p = true -> 0 < len (line p) -> f p = p \/ Fin p (f p).

Lemma st_open_0 p : state p = stOpening -> st_open p. Proof. intros E. left. exact E. Qed.
Lemma guard_sameT p q : sameT p q -> guard q = guard p.
Proof. intros HT. unfold guard. rewrite (containerKind_same _ _ (sameT_same _ _ HT)). reflexivity. Qed.
Lemma prelude p n k : X p -> PH p -> state p = stOpening -> guard p = true -> k <> ListItemKind ->
  X (consumeIndent p n) /\ envS p (consumeIndent p n) /\ st_open (consumeIndent p n) /\ openOK (consumeIndent p n) k.
Proof.
  intros HX HP Hs Hg Hk. pose proof (sameT_consumeIndent p n) as HT.
  assert (Ho : st_open (consumeIndent p n)) by (apply st_open_consumeIndent, st_open_0, Hs).
  split; [apply X_consumeIndent, HX|]. split; [apply envS_sameT, HT|]. split; [exact Ho|].
  apply PH_open; [eapply PH_sameT; eassumption|apply st_open_ldb, Ho|rewrite (guard_sameT _ _ HT); exact Hg|exact Hk].
Qed.
Lemma prelude0 p k : X p -> PH p -> state p = stOpening -> guard p = true -> k <> ListItemKind -> openOK p k.
Proof. intros HX HP Hs Hg Hk. apply PH_open; [exact HP|apply st_open_ldb, st_open_0, Hs|exact Hg|exact Hk]. Qed.

Lemma spec_startBlockQuote : StartSpec startBlockQuote.
Proof.
  intros p HX HP Hs Hg Hl. unfold startBlockQuote. cbv zeta. destruct (_ <=? _); [left; reflexivity|]. destruct (negb _); [left; reflexivity|]. right.
  destruct (prelude p (indent p) BlockQuoteKind HX HP Hs Hg ltac:(discriminate)) as (A & B & C & D).
  assert (H2 : Post p (openBlock (consumeIndent p (indent p)) BlockQuoteKind) BlockQuoteKind) by (apply Post_openBlock; [exact A|exact B|exact C|discriminate|left; discriminate|exact D]).
  pose proof (Post_advance _ _ 1 _ H2) as H3.
  destruct (0 <? _); [apply (Fin_kind _ _ BlockQuoteKind); [apply Post_consumeIndent, H3|tauto]|apply (Fin_kind _ _ BlockQuoteKind); [exact H3|tauto]].
Qed.
Lemma spec_startATX : StartSpec startATX.
Proof.
  intros p HX HP Hs Hg Hl. unfold startATX. cbv zeta. destruct (_ <=? _); [left; reflexivity|].
  destruct (parseATXHeading _) as [[level cs] ce]. destruct (level <? 1); [left; reflexivity|]. right.
  destruct (prelude p (indent p) ATXHeadingKind HX HP Hs Hg ltac:(discriminate)) as (A & B & C & D).
  assert (H2 : Post p (openBlock (consumeIndent p (indent p)) ATXHeadingKind) ATXHeadingKind) by (apply Post_openBlock; [exact A|exact B|exact C|discriminate|left; discriminate|exact D]).
  pose proof (Post_setters _ _ (fun b => set_bn b level) _ H2 ltac:(setters)) as H3.
  pose proof (Post_collectInline _ _ UnparsedKind (ce - cs) _ (Post_advance _ _ cs _ H3) ltac:(discriminate)) as H4.
  destruct (Post_consumeLine _ _ _ H4) as [H5 S5].
  apply (Fin_endBlock _ _ _ H5 S5). apply (li_after_consumeLine p); [apply H4|apply H4|exact Hl].
Qed.
Lemma spec_startFenced : StartSpec startFenced.
Proof.
  intros p HX HP Hs Hg Hl. unfold startFenced. cbv zeta. destruct (_ <=? _); [left; reflexivity|].
  destruct (parseCodeFence _) as [[[fc fnn] is_] ie]. destruct (fnn =? 0); [left; reflexivity|]. right.
  destruct (prelude p (indent p) FencedCodeBlockKind HX HP Hs Hg ltac:(discriminate)) as (A & B & C & D).
  assert (H2 : Post p (openBlock (consumeIndent p (indent p)) FencedCodeBlockKind) FencedCodeBlockKind) by (apply Post_openBlock; [exact A|exact B|exact C|discriminate|left; discriminate|exact D]).
  pose proof (Post_setters _ _ (fun b => set_bn (set_bchar b fc) fnn) _ H2 ltac:(setters)) as H3.
  pose proof (Post_setters _ _ (fun b => set_bindent b (indent p)) _ H3 ltac:(setters)) as H4.
  destruct (spanValid _).
  - pose proof (Post_collectInline _ _ InfoStringKind (ie - is_) _ (Post_advance _ _ is_ _ H4) ltac:(discriminate)) as H5.
    destruct (Post_consumeLine _ _ _ H5) as [H6 S6]. eapply Fin_ld; eassumption.
  - destruct (Post_consumeLine _ _ _ H4) as [H6 S6]. eapply Fin_ld; eassumption.
Qed.
Lemma spec_startHTML : StartSpec startHTML.
Proof.
  intros p HX HP Hs Hg Hl. unfold startHTML. cbv zeta. destruct (_ <=? _); [left; reflexivity|]. destruct (negb _); [left; reflexivity|].
  destruct (_ <? 0); [left; reflexivity|]. destruct (negb _ && _); [left; reflexivity|]. right.
  pose proof (prelude0 p HTMLBlockKind HX HP Hs Hg ltac:(discriminate)) as D.
  assert (H2 : Post p (openBlock p HTMLBlockKind) HTMLBlockKind) by (apply Post_openBlock; [exact HX|apply envS_refl|apply st_open_0, Hs|discriminate|left; discriminate|exact D]).
  match goal with |- Fin p (if ?c then _ else _) => destruct c end.
  - pose proof (Post_setters _ _ (fun b => set_bn b (firstHtmlCond 0 7 (bytesAfterIndent p))) _ H2 ltac:(setters)) as H3.
    set (q := updCont (openBlock p HTMLBlockKind) _) in *.
    pose proof (Post_collectInline _ _ RawHTMLKind (len (bytesAfterIndent q)) _ H3 ltac:(discriminate)) as H4.
    destruct (Post_consumeLine _ _ _ H4) as [H5 S5].
    apply (Fin_endBlock _ _ _ H5 S5). apply (li_after_consumeLine p); [apply H4|apply H4|exact Hl].
  - apply (Fin_kind _ _ HTMLBlockKind); [|tauto]. apply (Post_setters _ _ (fun b => set_bn b _) _ H2). setters.
Qed.
Lemma spec_startThematic : StartSpec startThematic.
Proof.
  intros p HX HP Hs Hg Hl. unfold startThematic. cbv zeta. destruct (_ <=? _); [left; reflexivity|]. destruct (_ <? 0); [left; reflexivity|]. right.
  destruct (prelude p (indent p) ThematicBreakKind HX HP Hs Hg ltac:(discriminate)) as (A & B & C & D).
  assert (H2 : Post p (openBlock (consumeIndent p (indent p)) ThematicBreakKind) ThematicBreakKind) by (apply Post_openBlock; [exact A|exact B|exact C|discriminate|left; discriminate|exact D]).
  pose proof (Post_advance _ _ (parseThematicBreak (bytesAfterIndent p)) _ H2) as H3.
  destruct (Post_consumeLine _ _ _ H3) as [H5 S5].
  apply (Fin_endBlock _ _ _ H5 S5). apply (li_after_consumeLine p); [apply H3|apply H3|exact Hl].
Qed.
Lemma spec_startIndented : StartSpec startIndented.
Proof.
  intros p HX HP Hs Hg Hl. unfold startIndented. destruct (_ || _ || _); [left; reflexivity|]. right.
  destruct (prelude p codeBlockIndentLimit IndentedCodeBlockKind HX HP Hs Hg ltac:(discriminate)) as (A & B & C & D).
  apply (Fin_kind _ _ IndentedCodeBlockKind); [|tauto].
  apply Post_openBlock; [exact A|exact B|exact C|discriminate|left; discriminate|exact D].
Qed.

(* ---- kinds along the spine are stable under kind-preserving updates at or below them ---- *)
Definition kindAt (d : nat) (r : block) : option Z := option_map bkind (getAt d r).
Lemma kindAt_updAt f : (forall b, bkind (f b) = bkind b) -> forall d d' r, (d <= d')%nat -> kindAt d (updAt d' f r) = kindAt d r.
Proof.
  intros Hf. unfold kindAt. induction d as [|d IH]; intros d' r Hd.
  - cbn [getAt option_map]. f_equal. apply bkind_updAt. intros _. apply Hf.
  - destruct d' as [|d']; [lia|]. cbn [updAt]. rewrite !getAt_S.
    destruct (lastBlock r) as [c|] eqn:El; [|rewrite El; reflexivity].
    rewrite lastBlock_set_last; [apply IH; lia|]. intros E. unfold lastBlock in El. rewrite E in El. discriminate.
Qed.
Lemma bkind_closeF p e b : bkind (closeF p e b) = bkind b.
Proof. unfold closeF. destruct (lastBlock b); [apply bkind_set_lastBlocks|reflexivity]. Qed.
Lemma bkind_appendNb nb b : bkind (appendNb nb b) = bkind b. Proof. destruct b; reflexivity. Qed.
Lemma ckind_kindAt p K : ckind p K <-> (forall k, kindAt (cdepth p) (root p) = Some k -> k = K).
Proof.
  unfold ckind, kindAt. split.
  - intros H k E. destruct (getAt (cdepth p) (root p)) as [b|]; [|discriminate]. inversion E. apply H. reflexivity.
  - intros H b E. apply H. rewrite E. reflexivity.
Qed.

Lemma root_openBlock_in p k : st_open p -> canContain (containerKind p) k = true ->
  exists e s, root (openBlock p k) = updAt (cdepth p) (appendNb (newBlock k s)) (updAt (cdepth p) (closeF p e) (root p)).
Proof.
  intros Hs Hc. unfold openBlock. rewrite (st_open_notdesc p Hs). cbv zeta.
  pose proof (sameT_opened p) as HT. set (p0 := if state p =? stOpening then withState p stOpenMatched else p) in *.
  cbn [openBlock_up]. rewrite (containerKind_same p p0 (sameT_same _ _ HT)), Hc.
  assert (Ed : cdepth p0 = cdepth p) by (apply cd_same, sameT_same, HT).
  assert (Er : root p0 = root p) by apply HT. assert (Es : source p0 = source p) by apply HT.
  exists (lineStart p0), (lineStart p0 + li p0).
  match goal with |- root ?t = _ =>
    change (root t) with (updAt (cdepth p0) (appendNb (newBlock k (lineStart p0 + li p0))) (updAt (cdepth p0) (closeF p0 (lineStart p0)) (root p0))) end.
  unfold closeF. rewrite Ed, Er, Es. reflexivity.
Qed.
Lemma kindAt_openBlock_in p k d : st_open p -> canContain (containerKind p) k = true -> (d <= cdepth p)%nat ->
  kindAt d (root (openBlock p k)) = kindAt d (root p).
Proof.
  intros Hs Hc Hd. destruct (root_openBlock_in p k Hs Hc) as (e & s & E). rewrite E.
  rewrite kindAt_updAt; [|intros b; apply bkind_appendNb|exact Hd]. apply kindAt_updAt; [intros b; apply bkind_closeF|exact Hd].
Qed.
Lemma root_endBlock p d : st3 p -> cdepth p = S d -> exists q e, root (endBlock p) = updAt d (closeF q e) (root p).
Proof.
  intros Hs Hd. unfold endBlock. rewrite (st3_notdesc' p Hs). cbv zeta.
  set (p0 := if state p =? stOpening then withState p stOpenMatched else p).
  assert (E : cdepth p0 = cdepth p /\ root p0 = root p) by (unfold p0; destruct (_ =? _); split; reflexivity). destruct E as [E1 E2].
  rewrite E1, Hd. exists p0, (lineStart p0 + li p0).
  match goal with |- root ?t = _ => change (root t) with (updAt d (closeF p0 (lineStart p0 + li p0)) (root p0)) end.
  rewrite E2. reflexivity.
Qed.

Lemma spec_startListItem : StartSpec startListItem.
Proof.
  intros p HX HP Hs Hg Hl. unfold startListItem. cbv zeta. destruct (_ <=? _); [left; reflexivity|].
  destruct (parseListMarker _) as [[delim n] mend]. destruct (_ || _); [left; reflexivity|]. destruct (_ && _); [left; reflexivity|]. right.
  destruct (prelude p (indent p) ListKind HX HP Hs Hg ltac:(discriminate)) as (A & B & C & D).
  set (p1 := consumeIndent p (indent p)) in *.
  set (cdelim := if (containerKind p1 =? ListKind) || (containerKind p1 =? ListItemKind) then bchar (contBlock p1) else 0).
  set (p2 := if negb (containerKind p1 =? ListKind) || negb (cdelim =? delim) then _ else p1).
  assert (H2 : X p2 /\ envS p p2 /\ st_open p2 /\ (1 <= cdepth p2)%nat /\ containerKind p2 = ListKind /\ NE p2).
  { unfold p2. destruct (negb (containerKind p1 =? ListKind) || negb (cdelim =? delim)) eqn:Ec.
    - assert (Ho : Post p (openBlock p1 ListKind) ListKind) by (apply Post_openBlock; [exact A|exact B|exact C|discriminate|left; discriminate|exact D]).
      pose proof (Post_setters _ _ (fun b => set_bchar b delim) _ Ho ltac:(setters)) as (a & b & c & d & e & f).
      split; [exact a|]. split; [exact b|]. split; [right; exact (state_openBlock p1 ListKind C)|].
      split; [exact e|]. split; [apply containerKind_of; [apply a|exact f]|exact d].
    - apply orb_false_iff in Ec. destruct Ec as [Ec _]. apply negb_false_iff, Z.eqb_eq in Ec.
      assert (Hd : (1 <= cdepth p1)%nat).
      { destruct (cdepth p1) eqn:Ed; [|lia]. exfalso. rewrite (containerKind_root p1 Ed) in Ec. destruct A as (_ & (A1 & _) & _). rewrite A1 in Ec. discriminate. }
      split; [exact A|]. split; [exact B|]. split; [exact C|]. split; [exact Hd|]. split; [exact Ec|]. apply NE_wf; [apply A|exact Hd]. }
  clearbody p2. destruct H2 as (X2 & E2 & S2 & D2 & K2 & N2).
  assert (C2 : canContain (containerKind p2) ListItemKind = true) by (rewrite K2; reflexivity).
  assert (Ho3 : Post p (openBlock p2 ListItemKind) ListItemKind) by (apply Post_openBlock; [exact X2|exact E2|exact S2|discriminate|right; exact C2|right; split; [exact D2|exact C2]]).
  pose proof (cdepth_openBlock_in p2 ListItemKind S2 C2) as Ed3.
  pose proof (Post_setters _ _ (fun b => set_bchar b delim) _ Ho3 ltac:(setters)) as H3.
  set (p3 := updCont (openBlock p2 ListItemKind) (fun b => set_bchar b delim)) in *.
  assert (Ed3' : cdepth p3 = S (cdepth p2)) by exact Ed3.
  assert (S3 : st_open p3) by (right; exact (state_openBlock p2 ListItemKind S2)).
  assert (K3 : containerKind p3 = ListItemKind) by (apply containerKind_of; [apply H3|apply H3]).
  assert (C3 : canContain (containerKind p3) ListMarkerKind = true) by (rewrite K3; reflexivity).
  assert (D3 : (1 <= cdepth p3)%nat) by lia.
  assert (H4 : Post p (openBlock p3 ListMarkerKind) ListMarkerKind) by (apply Post_openBlock; [apply H3|apply H3|exact S3|discriminate|right; exact C3|right; split; [exact D3|exact C3]]).
  pose proof (cdepth_openBlock_in p3 ListMarkerKind S3 C3) as Ed4.
  pose proof (kindAt_openBlock_in p3 ListMarkerKind (cdepth p3) S3 C3 (le_n _)) as Kk4.
  pose proof (Post_advance _ _ mend _ H4) as H5.
  set (p5 := advance (openBlock p3 ListMarkerKind) mend) in *.
  assert (Ed5 : cdepth p5 = S (cdepth p3)) by (unfold p5; rewrite (cd_same _ _ (sameT_same _ _ (sameT_advance _ _))); exact Ed4).
  assert (Er5 : root p5 = root (openBlock p3 ListMarkerKind)) by apply (sameT_advance _ mend).
  assert (Hq : Post p (endBlock p5) ListItemKind).
  { destruct H5 as (a & b & c & d & e & f).
    split; [apply X_endBlock; [exact a|left; lia]|]. split; [eapply envS_trans; [exact b|apply curS_endBlock]|].
    split; [unfold st12; rewrite state_endBlock_ne0 by (apply st12_ne0, c); exact c|]. split; [apply NE_endBlock, d|].
    rewrite (cdepth_endBlock p5 (cdepth p3) (proj1 a) Ed5). split; [lia|].
    apply ckind_kindAt. rewrite (cdepth_endBlock p5 (cdepth p3) (proj1 a) Ed5).
    destruct (root_endBlock p5 (cdepth p3) (proj1 a) Ed5) as (q0 & e0 & Er). rewrite Er.
    rewrite kindAt_updAt; [|intros b0; apply bkind_closeF|lia]. rewrite Er5, Kk4.
    intros k0 Hk0. destruct H3 as (_ & _ & _ & _ & _ & f3). apply (proj1 (ckind_kindAt p3 ListItemKind) f3). exact Hk0. }
  set (q := endBlock p5) in *.
  destruct (isRestBlank q).
  - destruct (Post_consumeLine _ _ _ (Post_setters _ _ (fun b => set_bindent b (indent p + mend + 1)) _ Hq ltac:(setters))) as [H6 S6].
    eapply Fin_ld; eassumption.
  - destruct (indent q <? 1); [apply (Fin_kind _ _ ListItemKind); [apply (Post_setters _ _ (fun b => set_bindent b _) _ Hq); setters|tauto]|].
    destruct (4 <? indent q); apply (Fin_kind _ _ ListItemKind); try tauto;
      apply (Post_setters _ _ (fun b => set_bindent b _) _ (Post_consumeIndent _ _ _ _ Hq)); setters.
Qed.

(* ---- the setext start: the paragraph turns into a heading and is closed at once ---- *)
Definition setextG (level : Z) (b : block) : block := set_bn (set_bkind b SetextHeadingKind) level.
Lemma GoodL_one_closed_bend lo c c' : isOpen c = false -> bend c' = bend c -> GoodL lo [c] -> GoodL lo [c'].
Proof.
  intros Ho Hb. cbn [GoodL]. rewrite Ho. assert (Ho' : isOpen c' = false) by (unfold isOpen in *; rewrite Hb; exact Ho).
  rewrite Ho', Hb. tauto.
Qed.

Lemma spec_startSetext : StartSpec startSetext.
Proof.
  intros p HX HP Hs Hg Hl. pose proof (ccP_startSetext p (proj1 (proj2 HX))) as Hcc.
  unfold startSetext in *. cbv zeta in *.
  destruct (negb (containerKind p =? ParagraphKind)) eqn:Ek; [left; reflexivity|].
  destruct (_ <=? _); [left; reflexivity|].
  set (level := parseSetextHeadingUnderline (bytesAfterIndent p)) in *. destruct (level =? 0); [left; reflexivity|].
  destruct (containerHasParagraphContent p) eqn:Ehc; cbn [negb] in *; [|left; reflexivity]. right.
  apply negb_false_iff, Z.eqb_eq in Ek. destruct HX as (a & b & c & d).
  assert (Hd : (1 <= cdepth p)%nat).
  { destruct (cdepth p) eqn:Ed; [|lia]. exfalso. rewrite (containerKind_root p Ed) in Ek. destruct b as (A & _). rewrite A in Ek. discriminate. }
  change (fun b0 : block => set_bn (set_bkind b0 SetextHeadingKind) level) with (setextG level) in *.
  set (q1 := updCont p (setextG level)) in *. set (q2 := consumeLine q1) in *.
  assert (S1 : st_open q1) by (left; exact Hs).
  assert (S2 : state q2 = stLineConsumed) by (apply state_consumeLine_open, S1).
  assert (C1 : CU q1) by exact c. assert (C2 : CU q2) by (apply CU_consumeLine, C1).
  assert (L2 : 0 < li q2) by (apply (li_after_consumeLine p q1); [repeat split|exact C1|exact Hl]).
  assert (T12 : sameT q1 q2) by apply sameT_consumeLine.
  assert (D2 : cdepth q2 = cdepth p) by exact (cd_same _ _ (sameT_same _ _ T12)).
  assert (a3 : st3 (endBlock q2)) by (apply st3_endBlock, st3_consumeLine; exact a).
  assert (c3 : CU (endBlock q2)) by (eapply CU_curS; [apply curS_endBlock|exact C2]).
  assert (E3 : envS p (endBlock q2)).
  { eapply envS_trans; [|apply curS_endBlock]. apply (envS_trans p q1 q2); [repeat split|apply envS_sameT, T12]. }
  assert (S3 : state (endBlock q2) = stLineConsumed) by (rewrite state_endBlock_ne0 by (rewrite S2; discriminate); exact S2).
  assert (N3 : NE (endBlock q2)).
  { apply NE_endBlock. eapply NE_sameT; [exact T12|]. apply NE_updCont; [apply NEr_keep; intros x; destruct x; reflexivity|]. apply NE_wf; assumption. }
  assert (Hmain : R (endBlock q2) /\ PH (endBlock q2)).
  { destruct (cdepth p) as [|[|dd]] eqn:Ed; [lia| |].
    2:{ (* the paragraph is below the root's last child *)
      assert (R1 : R q1).
      { unfold R. change (ldb q1) with (ldb p). unfold q1, updCont. rewrite Ed. apply Rb_updAt_deep; [lia|exact d]. }
      assert (R2 : R q2) by (eapply R_sameT; eassumption).
      split; [apply R_endBlock; [apply st3_consumeLine; exact a|apply C2|exact R2|left; lia]|].
      apply PH_ld; [rewrite (cdepth_endBlock q2 (S dd) (st3_consumeLine q1 a) D2); lia|]. unfold ldb. rewrite S3. reflexivity. }
    (* the paragraph is the root's last child *)
    destruct b as (b1 & b2 & (x & Hx)). rewrite Ed in Hx. cbn [getAt] in Hx.
    destruct (lastBlock (root p)) as [c0|] eqn:El; [|discriminate]. inversion Hx; subst x. clear Hx.
    destruct (lastBlock_some _ _ El) as (pre & Eks).
    assert (Ecb : contBlock p = c0) by (unfold contBlock; rewrite Ed; cbn [getAt]; rewrite El; reflexivity).
    assert (Kc : bkind c0 = ParagraphKind) by (rewrite <- Ecb; exact Ek).
    assert (Hlp : lastPara (onCloseParagraph (source p) c0) = true).
    { unfold containerHasParagraphContent in Ehc. rewrite Ek in Ehc. cbn [Z.eqb Pos.eqb negb ParagraphKind] in Ehc. rewrite Ecb in Ehc. exact Ehc. }
    assert (Ek1 : ks q1 = pre ++ [setextG level c0]).
    { unfold ks, q1, updCont. rewrite Ed. cbn [root withRoot setLP]. rewrite bkids_updAt_S, El, Eks, removelast_snoc. reflexivity. }
    assert (Ek2 : ks q2 = pre ++ [setextG level c0]) by (unfold ks; replace (root q2) with (root q1) by (symmetry; apply T12); exact Ek1).
    assert (Eq3 : ks (endBlock q2) = pre ++ closeBlock (bheight (root q2)) (source q2) (setextG level c0) (lineStart q2 + li q2)).
    { unfold endBlock. rewrite (st3_notdesc' q2 (st3_consumeLine q1 a)). cbv zeta. rewrite (opened_ne0 q2) by (rewrite S2; discriminate).
      rewrite D2. change (ks (withCont ?y _)) with (ks y). apply ks_close0_snoc. exact Ek2. }
    assert (Els : lineStart (endBlock q2) = lineStart p) by apply E3.
    assert (Els2 : lineStart q2 = lineStart p) by apply T12.
    assert (Esrc : source q2 = source p) by apply T12.
    assert (Hld : ldb (endBlock q2) = true) by (unfold ldb; rewrite S3; reflexivity).
    unfold R in d. rewrite (st_open_ldb p (st_open_0 p Hs)) in d. destruct d as [HG HU]. unfold ks in HG, HU. rewrite Eks in HG, HU.
    apply GoodL_app_inv in HG; [|discriminate]. destruct HG as (Hcp & Hgp & Hgc).
    pose proof (UB_pre_le _ _ _ _ HU) as Hple. apply UB_snoc in HU. destruct HU as [_ [Hcl Hent]].
    assert (G1 : GoodL 0 (ks (endBlock q2)) /\ UB (lineStart p) true (ks (endBlock q2)) /\ lastClosed (ks (endBlock q2))).
    { rewrite Eq3. destruct (isOpen c0) eqn:Eo.
      - destruct (bheight_S (root q2)) as [f Ef]. rewrite Ef, Esrc, Els2.
        cbn [GoodL] in Hgc. rewrite Eo in Hgc. destruct Hgc as [_ [_ Hpo]]. destruct (Hpo Kc) as [Hsrt Hlo].
        pose proof (endOf_le_LS _ pre (proj1 c) Hple) as Hlo1. pose proof (GoodL_endOf_le 0 pre Hcp Hgp) as Hlo0.
        apply (close_core (lineStart p) true pre _ (lineStart p + li q2)); try assumption; [|right; reflexivity].
        apply (closeBlock_setext_OUT f (source p) c0 (setextG level c0)); try assumption; try lia.
        + destruct c0; exact Eo.
        + destruct c0; reflexivity.
        + destruct c0; reflexivity.
        + rewrite Kc. discriminate.
        + replace (bik (setextG level c0)) with (bik c0) by (destruct c0; reflexivity). exact Hsrt.
        + replace (bik (setextG level c0)) with (bik c0) by (destruct c0; reflexivity). exact Hlo.
        + replace (bik (setextG level c0)) with (bik c0) by (destruct c0; reflexivity). exact (Hent eq_refl Kc).
      - assert (Eo' : isOpen (setextG level c0) = false) by (destruct c0; exact Eo).
        rewrite closeBlock_closed by exact Eo'. split; [|split].
        + apply GoodL_app; [exact Hcp|exact Hgp|]. eapply GoodL_one_closed_bend; [exact Eo| |exact Hgc]. destruct c0; reflexivity.
        + apply UB_snoc. split; [exact Hple|]. split; [|rewrite Eo'; discriminate]. intros _. right. reflexivity.
        + exists pre, (setextG level c0). tauto. }
    destruct G1 as (G1 & G2 & G3). split.
    - unfold R, Rb. rewrite Hld, Els. tauto.
    - left. right. right. exact G3. }
  destruct Hmain as [Hr Hp]. split; [split; [exact a3|split; [exact Hcc|split; [exact c3|exact Hr]]]|]. split; [exact Hp|]. split; [exact E3|].
  split; [right; exact S3|exact N3].
Qed.
